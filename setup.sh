#!/bin/bash
# setup_cmd: regenerate Generated/*.v from /repo, then full .vo build of the whole development (offline).
# Files of properties that are still being written must not break the claimed ones: the build runs with -k and the
# result is judged on the Props/<id>.vo of every property claimed in tools/manifest/.
cd "$(dirname "$0")"
export PYTHONPATH=/repo PYTHONHASHSEED=0 PYTHONDONTWRITEBYTECODE=1
mkdir -p .work evidence replays
/venv/bin/python tools/regen.py || echo "setup: a translator failed closed (reported again by the checks)"
cd coq
( echo "-R theories ScaredV"; find theories -name '*.v' | sort ) > _CoqProject
coq_makefile -f _CoqProject -o Makefile > /dev/null
timeout 3000 make -k -j16 2>&1 | tail -40
rc=0
for f in ../tools/manifest/C*.json; do
  id=$(basename "$f" .json)
  if grep -qw "$id" ../tools/manifest/READY; then
    if [ ! -f "theories/Props/$id.vo" ]; then echo "setup: theories/Props/$id.vo was not built"; rc=1; fi
  fi
done
# optional OCaml volume driver (extraction); absence is tolerated by the checks
[ -x ../tools/build_extract.sh ] && ../tools/build_extract.sh || true
[ $rc -eq 0 ] && echo "setup ok"
exit $rc
