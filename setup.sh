#!/bin/bash
# setup_cmd: regenerate Generated/*.v from /repo, then full .vo build of the whole development (offline).
set -e
cd "$(dirname "$0")"
export PYTHONPATH=/repo PYTHONHASHSEED=0 PYTHONDONTWRITEBYTECODE=1
mkdir -p .work evidence replays
/venv/bin/python tools/regen.py
cd coq
( echo "-R theories ScaredV"; find theories -name '*.v' | sort ) > _CoqProject
coq_makefile -f _CoqProject -o Makefile > /dev/null
timeout 3000 make -j16 2>&1 | tail -40
test ${PIPESTATUS[0]} -eq 0
echo "setup ok"
