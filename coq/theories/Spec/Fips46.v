(* Spec/Fips46.v — FIPS 46-3 (DES, TDEA) written from the standard, independently of scared/des/base.py.

   Data layout (that of the library's public interface, fixed here once):
     * a 64-bit block or key is the list of its 8 bytes, bit 1 of the standard = most significant bit of byte 0;
     * a 32-bit half is a list of 4 bytes;
     * the 48-bit values E(R), E(R) xor K and the round keys K_n are lists of 8 six-bit words (B_1 .. B_8 of the standard);
     * the 32-bit S-box output, and the inverse-P views, are lists of 8 four-bit words.
   All permutations are given by the tables of the standard (1-based bit numbers) through ONE generic function
   [permute]; the S-boxes are the 4 x 16 matrices of the standard, addressed by row (b1 b6) and column (b2 b3 b4 b5).
   Anchored at the end of the file by known answers (worked example of the DES literature incl. its intermediate
   values, NBS SP 500-20 vectors, FIPS 81 and SP 800-67 examples) evaluated by vm_compute. *)
From Coq Require Import NArith List Bool Arith Lia.
Import ListNotations.
Open Scope N_scope.

(* ------------------------------------------------------------------ bit strings made of v-bit words *)
(* bit m (1 = leftmost) of the bit string formed by the v-bit words ws, each word most significant bit first *)
Definition getbit (v : nat) (ws : list N) (m : nat) : bool :=
  N.testbit (nth ((m - 1) / v) ws 0) (N.of_nat (v - 1 - (m - 1) mod v)).

(* the number whose binary digits, most significant first, are bs *)
Fixpoint word_of_bits (bs : list bool) : N :=
  match bs with
  | [] => 0
  | b :: t => (if b then 2 ^ N.of_nat (length t) else 0) + word_of_bits t
  end.

(* the first n groups of w elements *)
Fixpoint chunks {A} (n w : nat) (l : list A) : list (list A) :=
  match n with
  | O => []
  | S n' => firstn w l :: chunks n' w (skipn w l)
  end.

(* "the permuted input has bit tbl_1 of the input as its first bit, bit tbl_2 as its second bit, and so on":
   the input is read as v-bit words, the output is emitted as nout words of wd bits *)
Definition permute (v wd nout : nat) (tbl : list nat) (ws : list N) : list N :=
  map (fun grp => word_of_bits (map (getbit v ws) grp)) (chunks nout wd tbl).

Definition xorl (a b : list N) : list N := map (fun p => N.lxor (fst p) (snd p)) (combine a b).

(* ------------------------------------------------------------------ tables of the standard *)
Definition IP_tbl : list nat :=
  [58; 50; 42; 34; 26; 18; 10; 2;
   60; 52; 44; 36; 28; 20; 12; 4;
   62; 54; 46; 38; 30; 22; 14; 6;
   64; 56; 48; 40; 32; 24; 16; 8;
   57; 49; 41; 33; 25; 17;  9; 1;
   59; 51; 43; 35; 27; 19; 11; 3;
   61; 53; 45; 37; 29; 21; 13; 5;
   63; 55; 47; 39; 31; 23; 15; 7]%nat.

(* IP^-1 *)
Definition FP_tbl : list nat :=
  [40; 8; 48; 16; 56; 24; 64; 32;
   39; 7; 47; 15; 55; 23; 63; 31;
   38; 6; 46; 14; 54; 22; 62; 30;
   37; 5; 45; 13; 53; 21; 61; 29;
   36; 4; 44; 12; 52; 20; 60; 28;
   35; 3; 43; 11; 51; 19; 59; 27;
   34; 2; 42; 10; 50; 18; 58; 26;
   33; 1; 41;  9; 49; 17; 57; 25]%nat.

Definition E_tbl : list nat :=
  [32;  1;  2;  3;  4;  5;
    4;  5;  6;  7;  8;  9;
    8;  9; 10; 11; 12; 13;
   12; 13; 14; 15; 16; 17;
   16; 17; 18; 19; 20; 21;
   20; 21; 22; 23; 24; 25;
   24; 25; 26; 27; 28; 29;
   28; 29; 30; 31; 32;  1]%nat.

Definition P_tbl : list nat :=
  [16;  7; 20; 21;
   29; 12; 28; 17;
    1; 15; 23; 26;
    5; 18; 31; 10;
    2;  8; 24; 14;
   32; 27;  3;  9;
   19; 13; 30;  6;
   22; 11;  4; 25]%nat.

(* S_1 .. S_8, each 4 rows of 16 columns, row-major *)
Definition S_tbl : list (list N) :=
  [ [14; 4; 13; 1; 2; 15; 11; 8; 3; 10; 6; 12; 5; 9; 0; 7;
     0; 15; 7; 4; 14; 2; 13; 1; 10; 6; 12; 11; 9; 5; 3; 8;
     4; 1; 14; 8; 13; 6; 2; 11; 15; 12; 9; 7; 3; 10; 5; 0;
     15; 12; 8; 2; 4; 9; 1; 7; 5; 11; 3; 14; 10; 0; 6; 13];
    [15; 1; 8; 14; 6; 11; 3; 4; 9; 7; 2; 13; 12; 0; 5; 10;
     3; 13; 4; 7; 15; 2; 8; 14; 12; 0; 1; 10; 6; 9; 11; 5;
     0; 14; 7; 11; 10; 4; 13; 1; 5; 8; 12; 6; 9; 3; 2; 15;
     13; 8; 10; 1; 3; 15; 4; 2; 11; 6; 7; 12; 0; 5; 14; 9];
    [10; 0; 9; 14; 6; 3; 15; 5; 1; 13; 12; 7; 11; 4; 2; 8;
     13; 7; 0; 9; 3; 4; 6; 10; 2; 8; 5; 14; 12; 11; 15; 1;
     13; 6; 4; 9; 8; 15; 3; 0; 11; 1; 2; 12; 5; 10; 14; 7;
     1; 10; 13; 0; 6; 9; 8; 7; 4; 15; 14; 3; 11; 5; 2; 12];
    [7; 13; 14; 3; 0; 6; 9; 10; 1; 2; 8; 5; 11; 12; 4; 15;
     13; 8; 11; 5; 6; 15; 0; 3; 4; 7; 2; 12; 1; 10; 14; 9;
     10; 6; 9; 0; 12; 11; 7; 13; 15; 1; 3; 14; 5; 2; 8; 4;
     3; 15; 0; 6; 10; 1; 13; 8; 9; 4; 5; 11; 12; 7; 2; 14];
    [2; 12; 4; 1; 7; 10; 11; 6; 8; 5; 3; 15; 13; 0; 14; 9;
     14; 11; 2; 12; 4; 7; 13; 1; 5; 0; 15; 10; 3; 9; 8; 6;
     4; 2; 1; 11; 10; 13; 7; 8; 15; 9; 12; 5; 6; 3; 0; 14;
     11; 8; 12; 7; 1; 14; 2; 13; 6; 15; 0; 9; 10; 4; 5; 3];
    [12; 1; 10; 15; 9; 2; 6; 8; 0; 13; 3; 4; 14; 7; 5; 11;
     10; 15; 4; 2; 7; 12; 9; 5; 6; 1; 13; 14; 0; 11; 3; 8;
     9; 14; 15; 5; 2; 8; 12; 3; 7; 0; 4; 10; 1; 13; 11; 6;
     4; 3; 2; 12; 9; 5; 15; 10; 11; 14; 1; 7; 6; 0; 8; 13];
    [4; 11; 2; 14; 15; 0; 8; 13; 3; 12; 9; 7; 5; 10; 6; 1;
     13; 0; 11; 7; 4; 9; 1; 10; 14; 3; 5; 12; 2; 15; 8; 6;
     1; 4; 11; 13; 12; 3; 7; 14; 10; 15; 6; 8; 0; 5; 9; 2;
     6; 11; 13; 8; 1; 4; 10; 7; 9; 5; 0; 15; 14; 2; 3; 12];
    [13; 2; 8; 4; 6; 15; 11; 1; 10; 9; 3; 14; 5; 0; 12; 7;
     1; 15; 13; 8; 10; 3; 7; 4; 12; 5; 6; 11; 0; 14; 9; 2;
     7; 11; 4; 1; 9; 12; 14; 2; 0; 6; 10; 13; 15; 3; 5; 8;
     2; 1; 14; 7; 4; 10; 8; 13; 15; 12; 9; 0; 3; 5; 6; 11] ].

Definition PC1_tbl : list nat :=
  [57; 49; 41; 33; 25; 17;  9;
    1; 58; 50; 42; 34; 26; 18;
   10;  2; 59; 51; 43; 35; 27;
   19; 11;  3; 60; 52; 44; 36;
   63; 55; 47; 39; 31; 23; 15;
    7; 62; 54; 46; 38; 30; 22;
   14;  6; 61; 53; 45; 37; 29;
   21; 13;  5; 28; 20; 12;  4]%nat.

Definition PC2_tbl : list nat :=
  [14; 17; 11; 24;  1;  5;
    3; 28; 15;  6; 21; 10;
   23; 19; 12;  4; 26;  8;
   16;  7; 27; 20; 13;  2;
   41; 52; 31; 37; 47; 55;
   30; 40; 51; 45; 33; 48;
   44; 49; 39; 56; 34; 53;
   46; 42; 50; 36; 29; 32]%nat.

(* number of left shifts, iterations 1 .. 16 *)
Definition SHIFTS : list nat := [1; 1; 2; 2; 2; 2; 2; 2; 1; 2; 2; 2; 2; 2; 2; 1]%nat.

(* ------------------------------------------------------------------ the permutations and the selection functions *)
Definition des_IP (b : list N) : list N := permute 8 8 8 IP_tbl b.        (* 8 bytes -> 8 bytes  (L0 R0) *)
Definition des_FP (b : list N) : list N := permute 8 8 8 FP_tbl b.        (* IP^-1 *)
Definition des_E (r : list N) : list N := permute 8 6 8 E_tbl r.          (* 4 bytes -> 8 six-bit words *)
Definition des_P (s : list N) : list N := permute 4 8 4 P_tbl s.          (* 8 four-bit words -> 4 bytes *)

(* the inverse of P: output bit j is the input bit i with P_i = j *)
Fixpoint index_of (x : nat) (l : list nat) : nat :=
  match l with
  | [] => O
  | y :: t => if Nat.eqb x y then O else S (index_of x t)
  end.
Definition invP_tbl : list nat := map (fun j => S (index_of j P_tbl)) (seq 1 32).
Definition des_invP (r : list N) : list N := permute 8 4 8 invP_tbl r.    (* 4 bytes -> 8 four-bit words *)

(* S_i (i = 0 .. 7 for S_1 .. S_8) on the six-bit block b1 b2 b3 b4 b5 b6: row b1 b6, column b2 b3 b4 b5 *)
Definition b2n (b : bool) : N := if b then 1 else 0.
Definition des_S_i (i : nat) (x : N) : N :=
  let row := 2 * b2n (N.testbit x 5) + b2n (N.testbit x 0) in
  let col := (x / 2) mod 16 in
  nth (N.to_nat (16 * row + col)) (nth i S_tbl []) 0.
Definition des_S (ws : list N) : list N := map (fun p => des_S_i (fst p) (snd p)) (combine (seq 0 8) ws).

(* the cipher function f(R, K) = P(S_1(B_1) .. S_8(B_8)),  B_1 .. B_8 = K xor E(R) *)
Definition des_f (R K : list N) : list N := des_P (des_S (xorl (des_E R) K)).

(* one iteration on the 8-byte value L R:   L' = R,  R' = L xor f(R, K) *)
Definition des_round (K : list N) (lr : list N) : list N :=
  let L := firstn 4 lr in let R := skipn 4 lr in R ++ xorl L (des_f R K).

Definition swap_halves (lr : list N) : list N := skipn 4 lr ++ firstn 4 lr.

(* L_n R_n after n iterations with the round keys rks = [K_1; ..; K_16] (in the order in which they are used) *)
Definition des_LR (rks : list (list N)) (n : nat) (block : list N) : list N :=
  fold_left (fun lr k => des_round k lr) (firstn n rks) (des_IP block).

(* output = IP^-1 (R_16 L_16) *)
Definition des_core (rks : list (list N)) (block : list N) : list N :=
  des_FP (swap_halves (des_LR rks 16 block)).

(* ------------------------------------------------------------------ key schedule (polymorphic in the bit type) *)
Definition select {A} (d : A) (tbl : list nat) (bits : list A) : list A := map (fun m => nth (m - 1) bits d) tbl.
Definition rotl {A} (n : nat) (l : list A) : list A := skipn n l ++ firstn n l.
Definition rot_cd {A} (s : nat) (cd : list A) : list A := rotl s (firstn 28 cd) ++ rotl s (skipn 28 cd).

(* C_1 D_1, C_2 D_2, ... from C_0 D_0 *)
Fixpoint cd_seq {A} (cd : list A) (shifts : list nat) : list (list A) :=
  match shifts with
  | [] => []
  | s :: t => let cd' := rot_cd s cd in cd' :: cd_seq cd' t
  end.

(* K_n = PC-2 (C_n D_n), as 8 groups of 6 bits;  C_0 D_0 = PC-1 (KEY) *)
Definition round_key_bits {A} (d : A) (bits : list A) : list (list (list A)) :=
  map (fun cd => chunks 8 6 (select d PC2_tbl cd)) (cd_seq (select d PC1_tbl bits) SHIFTS).

Definition key_bits (key : list N) : list bool := map (getbit 8 key) (seq 1 64).

(* [K_1; ..; K_16], each a list of 8 six-bit words *)
Definition des_key_schedule (key : list N) : list (list N) :=
  map (map word_of_bits) (round_key_bits false (key_bits key)).

(* ------------------------------------------------------------------ DES and TDEA *)
Inductive dir := Enc | Dec.

(* the round keys of one DES pass in the order of use: deciphering uses K_16 first
   (polymorphic in the type of a round key, like the key schedule above) *)
Definition pass_rks {A} (d : dir) (ks : list A) : list A := match d with Enc => ks | Dec => rev ks end.

Definition des_pass (p : dir * list (list N)) (block : list N) : list N := des_core (pass_rks (fst p) (snd p)) block.

Definition des_encrypt (key block : list N) : list N := des_pass (Enc, des_key_schedule key) block.
Definition des_decrypt (key block : list N) : list N := des_pass (Dec, des_key_schedule key) block.

(* TDEA (FIPS 46-3 / SP 800-67):  encryption O = E_K3 (D_K2 (E_K1 (I))),  decryption O = D_K1 (E_K2 (D_K3 (I))).
   [ks] are the key schedules of the bundle: one (single DES), two (K3 = K1) or three. *)
Definition tdea_passes {A} (mode : dir) (ks : list A) : list (dir * A) :=
  match ks with
  | [k1] => [(mode, k1)]
  | [k1; k2] => match mode with Enc => [(Enc, k1); (Dec, k2); (Enc, k1)] | Dec => [(Dec, k1); (Enc, k2); (Dec, k1)] end
  | [k1; k2; k3] => match mode with Enc => [(Enc, k1); (Dec, k2); (Enc, k3)] | Dec => [(Dec, k3); (Enc, k2); (Dec, k1)] end
  | _ => []
  end.

Definition run_passes (ps : list (dir * list (list N))) (block : list N) : list N :=
  fold_left (fun b p => des_pass p b) ps block.

Definition tdea (mode : dir) (ks : list (list (list N))) (block : list N) : list N :=
  run_passes (tdea_passes mode ks) block.

Definition tdea_encrypt (keys : list (list N)) (block : list N) : list N := tdea Enc (map des_key_schedule keys) block.
Definition tdea_decrypt (keys : list (list N)) (block : list N) : list N := tdea Dec (map des_key_schedule keys) block.

(* ------------------------------------------------------------------ the named intermediate values of one iteration *)
(* Iteration r (0-based, round key K = K_(r+1)) starting from lr = L_r R_r; step numbering = scared.des.Steps. *)
Definition des_step (K : list N) (lr : list N) (s : nat) : list N :=
  let L := firstn 4 lr in
  let R := skipn 4 lr in
  let e := des_E R in
  let a := xorl e K in
  let sb := des_S a in
  let p := des_P sb in
  let nr := xorl L p in
  match s with
  | 0%nat => lr                       (* L_r R_r  (r = 0: the output of IP) *)
  | 1%nat => e                        (* E(R_r), 8 six-bit words *)
  | 2%nat => a                        (* E(R_r) xor K_(r+1), the S-box input *)
  | 3%nat => sb                       (* S-box output, 8 four-bit words *)
  | 4%nat => p ++ [0; 0; 0; 0]        (* P output f(R_r, K_(r+1)) in the left half of the 8-byte view, right half zero *)
  | 5%nat => nr ++ R                  (* the new halves as R_(r+1) L_(r+1) *)
  | 6%nat => R ++ nr                  (* the new halves as L_(r+1) R_(r+1) *)
  | 7%nat => des_invP nr              (* P^-1 (R_(r+1)), 8 four-bit words *)
  | 8%nat => des_invP (xorl nr R)     (* P^-1 (R_(r+1) xor R_r) *)
  | _ => R ++ nr                      (* step 9 in an iteration that is not the last: L_(r+1) R_(r+1) *)
  end.

(* value at (iteration r, step s) of one DES pass; step 9 of iteration 15 is the output IP^-1 (R_16 L_16) *)
Definition des_state_at (rks : list (list N)) (block : list N) (r s : nat) : list N :=
  if Nat.eqb r 15 && Nat.leb 9 s then des_core rks block
  else des_step (nth r rks []) (des_LR rks r block) s.

(* every named intermediate of one pass, in order of computation: iterations 0 .. 15, steps 0 .. 9 *)
Definition des_states (rks : list (list N)) (block : list N) : list (list N) :=
  flat_map (fun r => map (des_state_at rks block r) (seq 0 10)) (seq 0 16).

(* TDEA stopped in pass p (0-based), iteration r, step s: the earlier passes are complete DES operations *)
Definition tdea_state_at (mode : dir) (ks : list (list (list N))) (block : list N) (p r s : nat) : list N :=
  let ps := tdea_passes mode ks in
  let x := run_passes (firstn p ps) block in
  let q := nth p ps (Enc, []) in
  des_state_at (pass_rks (fst q) (snd q)) x r s.

(* ------------------------------------------------------------------ the key argument of the library *)
(* 8 / 16 / 24 bytes: the keys K1 | K1 K2 | K1 K2 K3 of the bundle;  128 / 256 / 384 bytes: for each key of the bundle its 16
   round keys K_1 .. K_16 in this order, 8 six-bit words each (what the key schedule would have produced) *)
Definition schedules_of_key (key : list N) : option (list (list (list N))) :=
  let n := length key in
  if Nat.eqb n 8 || Nat.eqb n 16 || Nat.eqb n 24 then Some (map des_key_schedule (chunks (n / 8) 8 key))
  else if Nat.eqb n 128 || Nat.eqb n 256 || Nat.eqb n 384 then Some (map (chunks 16 8) (chunks (n / 128) 128 key))
  else None.

(* the standard's value when the operation [mode] with this key argument is stopped in pass at_des, iteration at_round, after
   step after_step;  None = there is no such stop point *)
Definition des_spec_with (oks : option (list (list (list N)))) (mode : dir) (at_des at_round after_step : nat) (block : list N)
  : option (list N) :=
  match oks with
  | Some ks =>
    if Nat.ltb at_des (length (tdea_passes mode ks)) && Nat.leb at_round 15 && Nat.leb after_step 9
    then Some (tdea_state_at mode ks block at_des at_round after_step) else None
  | None => None
  end.
Definition des_spec (mode : dir) (at_des at_round after_step : nat) (key block : list N) : option (list N) :=
  des_spec_with (schedules_of_key key) mode at_des at_round after_step block.

(* ------------------------------------------------------------------ byte strings as numbers (for readable vectors) *)
(* the n bytes of x, most significant first *)
Fixpoint bytes_be (n : nat) (x : N) : list N :=
  match n with
  | O => []
  | S n' => (x / 256 ^ N.of_nat n') mod 256 :: bytes_be n' x
  end.

(* ------------------------------------------------------------------ known answers *)
(* worked example of the DES literature (key 133457799BBCDFF1, plaintext 0123456789ABCDEF) with its intermediate values;
   six-bit and four-bit words are written in decimal: K1 = 000110 110000 001011 101111 111111 000111 000001 110010 = 6 48 11 47 63 7 1 50 *)
Example ka_worked_K1 :
  nth 0 (des_key_schedule (bytes_be 8 0x133457799BBCDFF1)) [] = [6; 48; 11; 47; 63; 7; 1; 50].
Proof. vm_compute. reflexivity. Qed.
Example ka_worked_K16 :
  nth 15 (des_key_schedule (bytes_be 8 0x133457799BBCDFF1)) [] = [50; 51; 54; 11; 3; 33; 31; 53].
Proof. vm_compute. reflexivity. Qed.
Example ka_worked_round1 :
  let rks := des_key_schedule (bytes_be 8 0x133457799BBCDFF1) in
  let st := des_state_at rks (bytes_be 8 0x0123456789ABCDEF) 0 in
  st 0%nat = bytes_be 8 0xCC00CCFFF0AAF0AA /\
  st 1%nat = [30; 33; 21; 21; 30; 33; 21; 21] /\
  st 2%nat = [24; 17; 30; 58; 33; 38; 20; 39] /\
  st 3%nat = [5; 12; 8; 2; 11; 5; 9; 7] /\
  st 4%nat = bytes_be 8 0x234AA9BB00000000 /\
  st 6%nat = bytes_be 8 0xF0AAF0AAEF4A6544.
Proof. vm_compute. repeat split; reflexivity. Qed.
Example ka_worked_preoutput :
  swap_halves (des_LR (des_key_schedule (bytes_be 8 0x133457799BBCDFF1)) 16 (bytes_be 8 0x0123456789ABCDEF)) = bytes_be 8 0x0A4CD99543423234.
Proof. vm_compute. reflexivity. Qed.
Example ka_worked : des_encrypt (bytes_be 8 0x133457799BBCDFF1) (bytes_be 8 0x0123456789ABCDEF) = bytes_be 8 0x85E813540F0AB405.
Proof. vm_compute. reflexivity. Qed.
Example ka_worked_dec : des_decrypt (bytes_be 8 0x133457799BBCDFF1) (bytes_be 8 0x85E813540F0AB405) = bytes_be 8 0x0123456789ABCDEF.
Proof. vm_compute. reflexivity. Qed.

(* NBS SP 500-20: IP and E test, variable key test, permutation/substitution tests *)
Example ka_nbs_ip : des_encrypt (bytes_be 8 0x0101010101010101) (bytes_be 8 0x95F8A5E5DD31D900) = bytes_be 8 0x8000000000000000.
Proof. vm_compute. reflexivity. Qed.
Example ka_nbs_inv : des_encrypt (bytes_be 8 0x0101010101010101) (bytes_be 8 0x8000000000000000) = bytes_be 8 0x95F8A5E5DD31D900.
Proof. vm_compute. reflexivity. Qed.
Example ka_nbs_key : des_encrypt (bytes_be 8 0x8001010101010101) (bytes_be 8 0) = bytes_be 8 0x95A8D72813DAA94D.
Proof. vm_compute. reflexivity. Qed.
Example ka_nbs_sbox : des_encrypt (bytes_be 8 0x7CA110454A1A6E57) (bytes_be 8 0x01A1D6D039776742) = bytes_be 8 0x690F5B0D9A26939B.
Proof. vm_compute. reflexivity. Qed.
Example ka_zero : des_encrypt (bytes_be 8 0x0E329232EA6D0D73) (bytes_be 8 0x8787878787878787) = bytes_be 8 0.
Proof. vm_compute. reflexivity. Qed.
(* FIPS 81: "Now is t" under 0123456789ABCDEF *)
Example ka_fips81 : des_encrypt (bytes_be 8 0x0123456789ABCDEF) (bytes_be 8 0x4E6F772069732074) = bytes_be 8 0x3FA40E8A984D4815.
Proof. vm_compute. reflexivity. Qed.
(* SP 800-67 Appendix B: three-key TDEA, "The quic" *)
Example ka_tdea3 :
  tdea_encrypt [bytes_be 8 0x0123456789ABCDEF; bytes_be 8 0x23456789ABCDEF01; bytes_be 8 0x456789ABCDEF0123] (bytes_be 8 0x5468652071756663)
  = bytes_be 8 0xA826FD8CE53B855F.
Proof. vm_compute. reflexivity. Qed.
Example ka_tdea3_dec :
  tdea_decrypt [bytes_be 8 0x0123456789ABCDEF; bytes_be 8 0x23456789ABCDEF01; bytes_be 8 0x456789ABCDEF0123] (bytes_be 8 0xA826FD8CE53B855F)
  = bytes_be 8 0x5468652071756663.
Proof. vm_compute. reflexivity. Qed.
(* keying option 2 is keying option 1 with K3 = K1; with K1 = K2 it degenerates to single DES *)
Example ka_tdea2_degenerate :
  tdea_encrypt [bytes_be 8 0x133457799BBCDFF1; bytes_be 8 0x133457799BBCDFF1] (bytes_be 8 0x0123456789ABCDEF) = bytes_be 8 0x85E813540F0AB405.
Proof. vm_compute. reflexivity. Qed.
