(* Spec/DesKeySpec.v — the key schedule of FIPS 46-3 (DES), written from the standard, independently of
   scared/des/base.py (property C10).

   FIPS 46-3, "KS": the 64 key bits are numbered 1 .. 64 from the left (bit 1 = most significant bit of the first byte; bits
   8, 16, .., 64 are the parity bits).  PC-1 selects 56 of them as C_0 D_0 (28 + 28 bits); for n = 1 .. 16 the blocks
   C_n, D_n are C_(n-1), D_(n-1) each rotated left by 1 or 2 positions according to the schedule of left shifts;
   K_n = PC-2 (C_n D_n), 48 bits.  A round key is given as the library gives it: 8 words of 6 bits (B_1 .. B_8).

   The selection/rotation functions are polymorphic in the type of a "bit": run on the bit *numbers* 1 .. 64 they produce the
   table of which key bit feeds which round-key bit ([des_source_bits]); run on booleans, the schedule itself. *)
From Coq Require Import NArith List Bool Arith Lia.
Import ListNotations.
Open Scope N_scope.

(* ------------------------------------------------------------------ tables as printed in FIPS 46-3 *)
(* PERMUTED CHOICE 1: C_0 is the first four rows, D_0 the last four *)
Definition PC1 : list nat :=
  [57; 49; 41; 33; 25; 17;  9;
    1; 58; 50; 42; 34; 26; 18;
   10;  2; 59; 51; 43; 35; 27;
   19; 11;  3; 60; 52; 44; 36;
   63; 55; 47; 39; 31; 23; 15;
    7; 62; 54; 46; 38; 30; 22;
   14;  6; 61; 53; 45; 37; 29;
   21; 13;  5; 28; 20; 12;  4]%nat.

(* PERMUTED CHOICE 2 *)
Definition PC2 : list nat :=
  [14; 17; 11; 24;  1;  5;
    3; 28; 15;  6; 21; 10;
   23; 19; 12;  4; 26;  8;
   16;  7; 27; 20; 13;  2;
   41; 52; 31; 37; 47; 55;
   30; 40; 51; 45; 33; 48;
   44; 49; 39; 56; 34; 53;
   46; 42; 50; 36; 29; 32]%nat.

(* Iteration number 1 .. 16 -> number of left shifts *)
Definition LEFT_SHIFTS : list nat := [1; 1; 2; 2; 2; 2; 2; 2; 1; 2; 2; 2; 2; 2; 2; 1]%nat.

(* ------------------------------------------------------------------ selection and rotation, for any type of bit *)
Section Poly.
  Context {A : Type} (d : A).

  (* "the first bit of the result is bit t_1 of the input, the second bit t_2, ..." (bits numbered from 1) *)
  Definition pick (t : list nat) (bits : list A) : list A := map (fun m => nth (m - 1) bits d) t.

  (* rotation to the left by n positions: "the bits in positions 2, 3, ..., 28, 1" for n = 1 *)
  Definition lrot (n : nat) (l : list A) : list A := skipn n l ++ firstn n l.

  (* both 28-bit halves of C D rotated *)
  Definition shift_cd (n : nat) (cd : list A) : list A := lrot n (firstn 28 cd) ++ lrot n (skipn 28 cd).

  (* C_1 D_1, C_2 D_2, ... *)
  Fixpoint cd_list (cd : list A) (shifts : list nat) : list (list A) :=
    match shifts with
    | [] => []
    | n :: t => let cd' := shift_cd n cd in cd' :: cd_list cd' t
    end.

  (* K_1 .. K_16 as lists of 48 bits *)
  Definition subkeys (bits : list A) : list (list A) := map (pick PC2) (cd_list (pick PC1 bits) LEFT_SHIFTS).
End Poly.

(* the first n groups of w consecutive elements *)
Fixpoint groups {A} (w n : nat) (l : list A) : list (list A) :=
  match n with
  | O => []
  | S n' => firstn w l :: groups w n' (skipn w l)
  end.

(* ------------------------------------------------------------------ bits of bytes and words *)
(* bit number m (1 .. 64) of a key given as 8 bytes *)
Definition kbit (key : list N) (m : nat) : bool :=
  N.testbit (nth ((m - 1) / 8) key 0) (N.of_nat (7 - (m - 1) mod 8)).

Definition key_bits (key : list N) : list bool := map (kbit key) (seq 1 64).

(* the number whose binary digits, most significant first, are bs *)
Fixpoint word_of_bits (bs : list bool) : N :=
  match bs with
  | [] => 0
  | b :: t => (if b then 2 ^ N.of_nat (length t) else 0) + word_of_bits t
  end.

(* ------------------------------------------------------------------ the key schedule *)
(* [K_1; ..; K_16], each as 8 six-bit words *)
Definition des_ks_spec (key : list N) : list (list N) :=
  map (fun k48 => map word_of_bits (groups 6 8 k48)) (subkeys false (key_bits key)).

(* which key bit (1 .. 64) is bit 1 .. 48 of K_1 .. K_16: the schedule run on the bit numbers themselves *)
Definition des_source_bits : list (list nat) := subkeys 0%nat (seq 1 64).

(* the key with its eight parity bits (the least significant bit of every byte) cleared *)
Definition strip_parity (key : list N) : list N := map (fun b => 2 * (b / 2)) key.

(* ------------------------------------------------------------------ anchors *)
Fixpoint bytes_of (n : nat) (x : N) : list N :=
  match n with O => [] | S n' => bytes_of n' (x / 256) ++ [x mod 256] end.

(* a binary numeral written with decimal digits: bin 6 110010 = 50 *)
Fixpoint bin (n : nat) (x : N) : N :=
  match n with O => 0 | S n' => x mod 10 + 2 * bin n' (x / 10) end.

(* the worked example of the DES literature (key 133457799BBCDFF1): K_1, K_2, K_8, K_9, K_16 *)
Example des_ks_known :
  let ks := des_ks_spec (bytes_of 8 0x133457799BBCDFF1) in
  length ks = 16%nat
  /\ nth 0 ks [] = [bin 6 000110; bin 6 110000; bin 6 001011; bin 6 101111; bin 6 111111; bin 6 000111; bin 6 000001; bin 6 110010]
  /\ nth 1 ks [] = [bin 6 011110; bin 6 011010; bin 6 111011; bin 6 011001; bin 6 110110; bin 6 111100; bin 6 100111; bin 6 100101]
  /\ nth 7 ks [] = [bin 6 111101; bin 6 111000; bin 6 101000; bin 6 111010; bin 6 110000; bin 6 010011; bin 6 101111; bin 6 111011]
  /\ nth 8 ks [] = [bin 6 111000; bin 6 001101; bin 6 101111; bin 6 101011; bin 6 111011; bin 6 011110; bin 6 011110; bin 6 000001]
  /\ nth 15 ks [] = [bin 6 110010; bin 6 110011; bin 6 110110; bin 6 001011; bin 6 000011; bin 6 100001; bin 6 011111; bin 6 110101].
Proof. vm_compute. repeat split; reflexivity. Qed.

(* C_0 D_0 of the same example: 1111000 0110011 0010101 0101111 | 0101010 1011001 1001111 0001111;
   the total rotation after 16 iterations is 28: C_16 D_16 = C_0 D_0 *)
Example des_cd_known :
  let cd0 := pick false PC1 (key_bits (bytes_of 8 0x133457799BBCDFF1)) in
  word_of_bits cd0 = bin 56 11110000110011001010101011110101010101100110011110001111
  /\ nth 15 (cd_list cd0 LEFT_SHIFTS) [] = cd0
  /\ fold_right Nat.add 0%nat LEFT_SHIFTS = 28%nat.
Proof. vm_compute. repeat split; reflexivity. Qed.

(* no parity bit is ever selected, and every round uses 48 distinct key bits *)
Example des_source_bits_shape :
  forallb (fun row => (length row =? 48)%nat && forallb (fun m => (1 <=? m)%nat && (m <=? 64)%nat && negb (m mod 8 =? 0)%nat) row)
          des_source_bits = true
  /\ length des_source_bits = 16%nat.
Proof. vm_compute. split; reflexivity. Qed.
