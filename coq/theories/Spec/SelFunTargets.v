(* Spec/SelFunTargets.v — property C07: WHICH real cipher state every ready-made attack selection function predicts.
   Written from the documentation of the classes (docstrings of scared/{aes,des}/selection_functions) and the table of
   DESIGN.md C07, independently of the code of the helpers.  One row per class and namespace.

   Vocabulary.  A class of the `encrypt` namespace speaks about one encryption  out = Cipher(key, inp): `plaintext` = inp,
   `ciphertext` = out.  A class of the `decrypt` namespace speaks about one decryption  out = InvCipher(key, inp):
   `ciphertext` = inp, `plaintext` = out.  A row says
     - which of the two arrays the class consumes (DIn = the input of the operation, DOut = its output),
     - which round key holds the expected key words,
     - the word function F_w(data, g): what the class must return in column g for word w ("the same computation with the
       guess in place of the key word"), written with the primitives of the standard,
     - the targeted state: F_w(data, K[w]) must be word w of that state of the real operation (Cipher_states / InvCipher_states
       of FIPS-197, des_state_at of FIPS 46-3), for every key.
   The states of AES are numbered as in Spec/Fips197.v: Cipher_states = [in; ARK(0); SB; SR; MC; ARK(1); ...; SB; SR; ARK(Nr)]
   (4 Nr + 1 states), InvCipher_states = [in; ARK(Nr); ISR; ISB; ARK(Nr-1); IMC; ...; ISR; ISB; ARK(0)].  *)
From Coq Require Import NArith List String Bool Arith.
From ScaredV Require Import Spec.Fips197 Spec.Fips46.
Import ListNotations.
Open Scope string_scope.
Open Scope nat_scope.

Inductive namespace := NsEncrypt | NsDecrypt.
Inductive data_src := DIn | DOut.

(* the metadata tag under which the consumed array is found by default *)
Definition spec_tag (ns : namespace) (d : data_src) : string :=
  match ns, d with
  | NsEncrypt, DIn => "plaintext" | NsEncrypt, DOut => "ciphertext"
  | NsDecrypt, DIn => "ciphertext" | NsDecrypt, DOut => "plaintext"
  end.
Definition spec_key_tag : string := "key".

(* ================================================================ AES *)
(* key guesses are bytes: the default guesses are all 256 of them, in order; a state has 16 words *)
Definition aes_n_guesses : nat := 256.
Definition aes_n_words : nat := 16.

Inductive aes_wordfn := WfXor | WfSbox | WfInvSbox | WfDelta.

(* F_w(data, g) *)
Definition aes_F (f : aes_wordfn) (data : list N) (g : N) (w : nat) : N :=
  let x := N.lxor (nth w data 0%N) g in
  match f with
  | WfXor => x                                                         (* AddRoundKey *)
  | WfSbox => sbox_spec x                                              (* SubBytes o AddRoundKey *)
  | WfInvSbox => inv_sbox_spec x                                       (* InvSubBytes o AddRoundKey *)
  | WfDelta => N.lxor (nth w (ShiftRows data) 0%N) (inv_sbox_spec x)    (* ShiftRows(data)[w] xor InvSubBytes(data xor g)[w] *)
  end.

(* a targeted state, from the list S of all states of the operation (Nr = number of rounds) *)
Inductive aes_target :=
  | TState (i : nat -> nat)                 (* S[i Nr] *)
  | TShift (i : nat -> nat)                 (* ShiftRows (S[i Nr]): the state seen at the byte positions of the round key *)
  | TShiftXor (i j : nat -> nat).           (* ShiftRows (S[i Nr] xor S[j Nr]) *)

Definition aes_target_state (t : aes_target) (Nr : nat) (S : list state) : state :=
  match t with
  | TState i => nth (i Nr) S []
  | TShift i => ShiftRows (nth (i Nr) S [])
  | TShiftXor i j => ShiftRows (Fips197.xorl (nth (i Nr) S []) (nth (j Nr) S []))
  end.

Record aes_sf_spec := {
  as_name : string;
  as_data : data_src;
  as_key_round : nat -> nat;      (* Nr -> the round key whose 16 bytes are the expected key *)
  as_F : aes_wordfn;
  as_target : aes_target }.

Definition first_rk (Nr : nat) : nat := 0.
Definition last_rk (Nr : nat) : nat := Nr.

(* encryption: in = plaintext, S[1] = pt xor k0, S[2] = SubBytes(S[1]); S[4Nr-3] = input of the last round, S[4Nr-2] = SubBytes,
   S[4Nr-1] = ShiftRows, S[4Nr] = ciphertext = S[4Nr-1] xor k_Nr *)
Definition aes_encrypt_targets : list aes_sf_spec := [
  {| as_name := "FirstAddRoundKey"; as_data := DIn; as_key_round := first_rk; as_F := WfXor; as_target := TState (fun _ => 1) |};
  {| as_name := "FirstSubBytes"; as_data := DIn; as_key_round := first_rk; as_F := WfSbox; as_target := TState (fun _ => 2) |};
  (* ct xor k_Nr = the state after the last ShiftRows *)
  {| as_name := "LastAddRoundKey"; as_data := DOut; as_key_round := last_rk; as_F := WfXor; as_target := TState (fun Nr => 4 * Nr - 1) |};
  (* the input of the last SubBytes (= state after AddRoundKey of round Nr-1), at the positions ShiftRows sends to the key bytes *)
  {| as_name := "LastSubBytes"; as_data := DOut; as_key_round := last_rk; as_F := WfInvSbox; as_target := TShift (fun Nr => 4 * Nr - 3) |};
  (* (input of the last round) xor (ciphertext), same positions *)
  {| as_name := "DeltaRLastRounds"; as_data := DOut; as_key_round := last_rk; as_F := WfDelta;
     as_target := TShiftXor (fun Nr => 4 * Nr - 3) (fun Nr => 4 * Nr) |} ].

(* decryption: in = ciphertext, S[1] = ct xor k_Nr, S[2] = InvShiftRows, S[3] = InvSubBytes; S[4Nr-2] = last InvShiftRows,
   S[4Nr-1] = last InvSubBytes, S[4Nr] = plaintext = S[4Nr-1] xor k0 *)
Definition aes_decrypt_targets : list aes_sf_spec := [
  {| as_name := "FirstAddRoundKey"; as_data := DIn; as_key_round := last_rk; as_F := WfXor; as_target := TState (fun _ => 1) |};
  (* the output of the first InvSubBytes, at the positions of the key bytes *)
  {| as_name := "FirstSubBytes"; as_data := DIn; as_key_round := last_rk; as_F := WfInvSbox; as_target := TShift (fun _ => 3) |};
  {| as_name := "DeltaRFirstRounds"; as_data := DIn; as_key_round := last_rk; as_F := WfDelta;
     as_target := TShiftXor (fun _ => 3) (fun _ => 0) |};
  (* pt xor k0 = the state after the last InvSubBytes *)
  {| as_name := "LastAddRoundKey"; as_data := DOut; as_key_round := first_rk; as_F := WfXor; as_target := TState (fun Nr => 4 * Nr - 1) |};
  (* SubBytes(pt xor k0) = the input of the last InvSubBytes = the state after the last InvShiftRows *)
  {| as_name := "LastSubBytes"; as_data := DOut; as_key_round := first_rk; as_F := WfSbox; as_target := TState (fun Nr => 4 * Nr - 2) |} ].

Definition aes_targets (ns : namespace) : list aes_sf_spec :=
  match ns with NsEncrypt => aes_encrypt_targets | NsDecrypt => aes_decrypt_targets end.

Definition aes_states (ns : namespace) (Nk : nat) (key inp : list N) : list state :=
  match ns with NsEncrypt => Cipher_states Nk key inp | NsDecrypt => InvCipher_states Nk key inp end.

(* ================================================================ DES *)
(* key guesses are six-bit words: the default guesses are all 64 of them, in order; a round key has 8 words *)
Definition des_n_guesses : nat := 64.
Definition des_n_words : nat := 8.

(* F_w(data, g) for the four targeted steps (numbering of scared.des.Steps = Spec/Fips46.des_step):
   2 = E(R) xor K, 3 = S-box output, 7 = P^-1 (new right half), 8 = P^-1 (new right half xor old right half), where L R = IP(data).
   Word w of these values depends on the round key through its word w only: P^-1 (L xor P(S(E(R) xor K))) = P^-1 (L) xor S(E(R) xor K)
   and S acts word by word. *)
Definition des_F (s : nat) (data : list N) (g : N) (w : nat) : N :=
  let lr := des_IP data in
  let L := firstn 4 lr in
  let R := skipn 4 lr in
  let a := N.lxor (nth w (des_E R) 0%N) g in
  match s with
  | 2 => a
  | 3 => des_S_i w a
  | 7 => N.lxor (nth w (des_invP L) 0%N) (des_S_i w a)
  | 8 => N.lxor (nth w (des_invP (Fips46.xorl L R)) 0%N) (des_S_i w a)
  | _ => 0%N
  end.

Record des_sf_spec := {
  ds_name : string;
  ds_data : data_src;
  ds_key_use : nat;            (* which of the 16 round keys, IN THE ORDER OF USE of the operation, holds the expected key words *)
  ds_step : nat;               (* the F above *)
  ds_at : nat * nat }.         (* the targeted value: des_state_at (round keys in order of use) inp (iteration, step) *)

(* one DES operation with round keys k_0 .. k_15 in order of use: iteration r turns L_r R_r into L_(r+1) R_(r+1); the output is
   IP^-1 (R_16 L_16).  First*: the first iteration seen from the input.  Last*: the last iteration seen from the output:
   IP(out) = R_16 L_16 and L_16 = R_15, so E(R_15) xor k_15 and its S-box output are steps 2 / 3 of iteration 15,
   P^-1 (R_16 xor f(R_15, k_15)) = P^-1 (L_15) = P^-1 (R_14) is step 7 of iteration 13 and
   P^-1 (R_16 xor R_15 xor f(R_15, k_15)) = P^-1 (R_14 xor R_15) is step 8 of iteration 14. *)
Definition des_rows_generic : list des_sf_spec := [
  {| ds_name := "FirstAddRoundKey"; ds_data := DIn; ds_key_use := 0; ds_step := 2; ds_at := (0, 2) |};
  {| ds_name := "FirstSboxes"; ds_data := DIn; ds_key_use := 0; ds_step := 3; ds_at := (0, 3) |};
  {| ds_name := "FeistelRFirstRounds"; ds_data := DIn; ds_key_use := 0; ds_step := 7; ds_at := (0, 7) |};
  {| ds_name := "DeltaRFirstRounds"; ds_data := DIn; ds_key_use := 0; ds_step := 8; ds_at := (0, 8) |};
  {| ds_name := "LastAddRoundKey"; ds_data := DOut; ds_key_use := 15; ds_step := 2; ds_at := (15, 2) |};
  {| ds_name := "LastSboxes"; ds_data := DOut; ds_key_use := 15; ds_step := 3; ds_at := (15, 3) |};
  {| ds_name := "FeistelRLastRounds"; ds_data := DOut; ds_key_use := 15; ds_step := 7; ds_at := (13, 7) |};
  {| ds_name := "DeltaRLastRounds"; ds_data := DOut; ds_key_use := 15; ds_step := 8; ds_at := (14, 8) |} ].

(* the same eight classes exist in both namespaces; what differs is the operation they speak about *)
Definition des_targets (ns : namespace) : list des_sf_spec := des_rows_generic.

Definition des_dir (ns : namespace) : dir := match ns with NsEncrypt => Enc | NsDecrypt => Dec end.

(* the round keys of the operation in the order of use, for the key schedule [K_1; ..; K_16] *)
Definition des_rks (ns : namespace) (ks : list (list N)) : list (list N) := pass_rks (des_dir ns) ks.

(* position in [K_1; ..; K_16] of the round key used at position u of the operation *)
Definition des_schedule_index (ns : namespace) (u : nat) : nat := match ns with NsEncrypt => u | NsDecrypt => 15 - u end.

(* ================================================================ lookup by class name *)
Fixpoint find_aes (name : string) (l : list aes_sf_spec) : option aes_sf_spec :=
  match l with [] => None | r :: t => if String.eqb name (as_name r) then Some r else find_aes name t end.
Fixpoint find_des (name : string) (l : list des_sf_spec) : option des_sf_spec :=
  match l with [] => None | r :: t => if String.eqb name (ds_name r) then Some r else find_des name t end.

(* ================================================================ anchors: the published intermediate values *)
(* FIPS-197 Appendix B (AES-128): round[1].start = pt xor k0, round[1].s_box; round[10].s_row = ct xor k10;
   the input of round 10 (round[10].start = eb40f21e592e38848ba113e71bc342d2) seen through ShiftRows *)
Example aes_targets_appendix_B :
  let key := Fips197.bytes_be 16 0x2b7e151628aed2a6abf7158809cf4f3c in
  let S := aes_states NsEncrypt 4 key (Fips197.bytes_be 16 0x3243f6a8885a308d313198a2e0370734) in
  aes_target_state (TState (fun _ => 1)) 10 S = Fips197.bytes_be 16 0x193de3bea0f4e22b9ac68d2ae9f84808
  /\ aes_target_state (TState (fun _ => 2)) 10 S = Fips197.bytes_be 16 0xd42711aee0bf98f1b8b45de51e415230
  /\ aes_target_state (TState (fun Nr => 4 * Nr - 1)) 10 S = Fips197.bytes_be 16 0xe9317db5cb322c723d2e895faf090794
  /\ aes_target_state (TShift (fun Nr => 4 * Nr - 3)) 10 S = ShiftRows (Fips197.bytes_be 16 0xeb40f21e592e38848ba113e71bc342d2)
  /\ nth 40 S [] = Fips197.bytes_be 16 0x3925841d02dc09fbdc118597196a0b32.
Proof. vm_compute. repeat split; reflexivity. Qed.

(* the worked example of the DES literature (key 133457799BBCDFF1, plaintext 0123456789ABCDEF): E(R0) xor K1 and the S-box output *)
Example des_targets_worked :
  let rks := des_rks NsEncrypt (des_key_schedule (Fips46.bytes_be 8 0x133457799BBCDFF1)) in
  let pt := Fips46.bytes_be 8 0x0123456789ABCDEF in
  des_state_at rks pt 0 2 = [24; 17; 30; 58; 33; 38; 20; 39]%N
  /\ des_state_at rks pt 0 3 = [5; 12; 8; 2; 11; 5; 9; 7]%N
  /\ map (fun w => des_F 3 pt (nth w (nth 0 rks []) 0%N) w) (seq 0 8) = [5; 12; 8; 2; 11; 5; 9; 7]%N.
Proof. vm_compute. repeat split; reflexivity. Qed.
