(* Spec/Fips197.v — FIPS-197 (AES) written from the standard, independently of scared/aes/base.py.
   Bytes are [N] (< 256), a state is the list of its 16 bytes in input order: byte number r + 4c is row r, column c
   (FIPS-197 3.4), a word is a list of 4 bytes.  Nothing here mentions a lookup table: the S-box is
   affine . inverse in GF(2^8), MixColumns is the matrix product, ShiftRows is the index formula.
   The definitions are anchored by the vectors of FIPS-197 Appendix A, B and C ([Example]s at the end, vm_compute). *)
From Coq Require Import NArith List Bool Arith Lia.
Import ListNotations.
Open Scope N_scope.

(* ------------------------------------------------------------------ 4.2  GF(2^8), m(x) = x^8 + x^4 + x^3 + x + 1 *)
(* 4.2.1: multiplication by x; reduction by m(x) = 0x11b when bit 7 was set *)
Definition xtime (b : N) : N :=
  let s := 2 * b in if s <? 256 then s else N.lxor (s - 256) 27.

(* a . b = XOR over the bits i of b of x^i . a   (eight steps: bytes) *)
Fixpoint gmul_steps (n : nat) (a b : N) : N :=
  match n with
  | O => 0
  | S n' => N.lxor (if N.odd b then a else 0) (gmul_steps n' (xtime a) (N.div2 b))
  end.
Definition gmul (a b : N) : N := gmul_steps 8 a b.

(* a^p by square and multiply *)
Fixpoint gpow (a : N) (p : positive) : N :=
  match p with
  | xH => a
  | xO q => let h := gpow a q in gmul h h
  | xI q => let h := gpow a q in gmul a (gmul h h)
  end.

(* multiplicative inverse, {00} mapped to itself: a^254 (the multiplicative group has order 255) *)
Definition ginv (a : N) : N := gpow a 254.

(* ------------------------------------------------------------------ 5.1.1  SubBytes *)
Definition bit (x : N) (i : nat) : bool := N.testbit x (N.of_nat i).
Definition of_bits (f : nat -> bool) : N :=
  fold_right (fun i acc => (if f i then 2 ^ N.of_nat i else 0) + acc) 0 (seq 0 8).

(* (5.1)  b'_i = b_i + b_(i+4) + b_(i+5) + b_(i+6) + b_(i+7) + c_i,  indices mod 8, c = {63} *)
Definition affine (b : N) : N :=
  of_bits (fun i => xorb (bit b i) (xorb (bit b ((i + 4) mod 8)) (xorb (bit b ((i + 5) mod 8))
                    (xorb (bit b ((i + 6) mod 8)) (xorb (bit b ((i + 7) mod 8)) (bit 99 i)))))).

(* inverse of (5.1):  b_i = b'_(i+2) + b'_(i+5) + b'_(i+7) + d_i,  d = {05} *)
Definition inv_affine (b : N) : N :=
  of_bits (fun i => xorb (bit b ((i + 2) mod 8)) (xorb (bit b ((i + 5) mod 8)) (xorb (bit b ((i + 7) mod 8)) (bit 5 i)))).

Definition sbox_spec (b : N) : N := affine (ginv b).
Definition inv_sbox_spec (b : N) : N := ginv (inv_affine b).

Definition state := list N.
Definition word := list N.

Definition SubBytes (s : state) : state := map sbox_spec s.
Definition InvSubBytes (s : state) : state := map inv_sbox_spec s.

(* ------------------------------------------------------------------ 5.1.2  ShiftRows:  s'[r, c] = s[r, (c + r) mod 4] *)
Definition ShiftRows (s : state) : state :=
  map (fun i => let r := (i mod 4)%nat in let c := (i / 4)%nat in nth (r + 4 * ((c + r) mod 4))%nat s 0) (seq 0 16).
(* 5.3.1  InvShiftRows:  s'[r, (c + r) mod 4] = s[r, c] *)
Definition InvShiftRows (s : state) : state :=
  map (fun i => let r := (i mod 4)%nat in let c := (i / 4)%nat in nth (r + 4 * ((c + 4 - r) mod 4))%nat s 0) (seq 0 16).

(* ------------------------------------------------------------------ 5.1.3  MixColumns:  s'[., c] = M . s[., c]  over GF(2^8) *)
Definition MIX : list (list N) := [[2; 3; 1; 1]; [1; 2; 3; 1]; [1; 1; 2; 3]; [3; 1; 1; 2]].
Definition INVMIX : list (list N) := [[14; 11; 13; 9]; [9; 14; 11; 13]; [13; 9; 14; 11]; [11; 13; 9; 14]].

Definition xor_all (l : list N) : N := fold_right N.lxor 0 l.

Definition mat_columns (M : list (list N)) (s : state) : state :=
  map (fun i => let r := (i mod 4)%nat in let c := (i / 4)%nat in
         xor_all (map (fun k => gmul (nth k (nth r M []) 0) (nth (k + 4 * c)%nat s 0)) (seq 0 4)))
      (seq 0 16).
Definition MixColumns : state -> state := mat_columns MIX.
Definition InvMixColumns : state -> state := mat_columns INVMIX.

(* ------------------------------------------------------------------ 5.1.4  AddRoundKey *)
Definition xorl (a b : list N) : list N := map (fun p => N.lxor (fst p) (snd p)) (combine a b).
Definition AddRoundKey (s k : state) : state := xorl s k.

(* ------------------------------------------------------------------ 5.2  KeyExpansion (Figure 11), Nk = 4, 6, 8; Nr = Nk + 6 *)
Definition RotWord (w : word) : word := match w with a :: t => t ++ [a] | [] => [] end.
Definition SubWord (w : word) : word := map sbox_spec w.
(* Rcon[i] = [x^(i-1), 00, 00, 00], i >= 1 *)
Definition Rcon (i : nat) : word := [Nat.iter (i - 1) xtime 1; 0; 0; 0].

Definition key_word (key : list N) (i : nat) : word := firstn 4 (skipn (4 * i) key).

(* w[i] from w[0 .. i-1] *)
Definition next_word (Nk : nat) (key : list N) (i : nat) (w : list word) : word :=
  if (i <? Nk)%nat then key_word key i
  else
    let temp := nth (i - 1) w [] in
    let temp' :=
      if (i mod Nk =? 0)%nat then xorl (SubWord (RotWord temp)) (Rcon (i / Nk))
      else if ((6 <? Nk) && (i mod Nk =? 4))%nat then SubWord temp
      else temp in
    xorl (nth (i - Nk) w []) temp'.

(* the first n words of the schedule *)
Fixpoint key_words (Nk : nat) (key : list N) (n : nat) : list word :=
  match n with
  | O => []
  | S n' => let w := key_words Nk key n' in w ++ [next_word Nk key n' w]
  end.

Definition Nr_of (Nk : nat) : nat := (Nk + 6)%nat.
Definition total_words (Nk : nat) : nat := (4 * (Nr_of Nk + 1))%nat.
Definition KeyExpansion (Nk : nat) (key : list N) : list word := key_words Nk key (total_words Nk).

(* round key r = w[4r .. 4r+3] as 16 bytes *)
Definition round_key_of (W : list word) (r : nat) : state := concat (firstn 4 (skipn (4 * r) W)).
Definition round_keys (Nk : nat) (key : list N) : list state :=
  map (round_key_of (KeyExpansion Nk key)) (seq 0 (Nr_of Nk + 1)).

(* ------------------------------------------------------------------ 5.1  Cipher (Figure 5): every intermediate state, in order.
   [in; ARK(0); SB; SR; MC; ARK(1); ... ; SB; SR; MC; ARK(Nr-1); SB; SR; ARK(Nr)]      (4 Nr + 1 states) *)
Fixpoint cipher_middle (w : list state) (n round : nat) (st : state) : list state :=
  match n with
  | O => []
  | S n' =>
    let a := SubBytes st in let b := ShiftRows a in let c := MixColumns b in
    let d := AddRoundKey c (nth round w []) in
    a :: b :: c :: d :: cipher_middle w n' (S round) d
  end.

Definition cipher_states (Nr : nat) (w : list state) (inp : state) : list state :=
  let s0 := AddRoundKey inp (nth 0 w []) in
  let mid := cipher_middle w (Nr - 1) 1 s0 in
  let sl := last mid s0 in
  let a := SubBytes sl in let b := ShiftRows a in let c := AddRoundKey b (nth Nr w []) in
  inp :: s0 :: mid ++ [a; b; c].

(* 5.3  InvCipher (Figure 12): every intermediate state, in order.
   [in; ARK(Nr); ISR; ISB; ARK(Nr-1); IMC; ... ; ISR; ISB; ARK(1); IMC; ISR; ISB; ARK(0)]   (4 Nr + 1 states) *)
Fixpoint inv_cipher_middle (w : list state) (round : nat) (st : state) : list state :=
  match round with
  | O => []
  | S r' =>
    let a := InvShiftRows st in let b := InvSubBytes a in
    let c := AddRoundKey b (nth round w []) in let d := InvMixColumns c in
    a :: b :: c :: d :: inv_cipher_middle w r' d
  end.

Definition inv_cipher_states (Nr : nat) (w : list state) (inp : state) : list state :=
  let s0 := AddRoundKey inp (nth Nr w []) in
  let mid := inv_cipher_middle w (Nr - 1) s0 in
  let sl := last mid s0 in
  let a := InvShiftRows sl in let b := InvSubBytes a in let c := AddRoundKey b (nth 0 w []) in
  inp :: s0 :: mid ++ [a; b; c].

Definition Cipher_states (Nk : nat) (key : list N) (inp : state) : list state :=
  cipher_states (Nr_of Nk) (round_keys Nk key) inp.
Definition InvCipher_states (Nk : nat) (key : list N) (inp : state) : list state :=
  inv_cipher_states (Nr_of Nk) (round_keys Nk key) inp.

Definition Cipher (Nk : nat) (key : list N) (inp : state) : state := last (Cipher_states Nk key inp) [].
Definition InvCipher (Nk : nat) (key : list N) (inp : state) : state := last (InvCipher_states Nk key inp) [].

(* ------------------------------------------------------------------ anchors: FIPS-197 vectors *)
(* a 128-bit (or longer) value written as in the standard, e.g. 0x3243f6a8..., as its list of n bytes *)
Fixpoint bytes_be (n : nat) (x : N) : list N :=
  match n with O => [] | S n' => bytes_be n' (x / 256) ++ [x mod 256] end.

(* 4.2 / 4.2.1 worked examples: {57} . {83} = {c1}, {57} . {13} = {fe}, xtime chain 57 -> ae -> 47 -> 8e -> 07 *)
Example gmul_57_83 : gmul 0x57 0x83 = 0xc1 /\ gmul 0x57 0x13 = 0xfe /\ map (fun k => Nat.iter k xtime 0x57) [1; 2; 3; 4]%nat = [0xae; 0x47; 0x8e; 0x07].
Proof. vm_compute. repeat split; reflexivity. Qed.

(* ginv is the multiplicative inverse on all 255 non-zero bytes, and 0 -> 0 *)
Example ginv_is_inverse : forallb (fun i => gmul (N.of_nat i) (ginv (N.of_nat i)) =? 1) (seq 1 255) && (ginv 0 =? 0) = true.
Proof. vm_compute. reflexivity. Qed.

(* Figure 7 entries: S(00) = 63, S(01) = 7c, S(53) = ed, S(ff) = 16; Figure 14: IS(00) = 52, IS(ed) = 53 *)
Example sbox_entries : map sbox_spec [0x00; 0x01; 0x02; 0x53; 0xff] = [0x63; 0x7c; 0x77; 0xed; 0x16]
                       /\ map inv_sbox_spec [0x00; 0x63; 0xed] = [0x52; 0x00; 0x53].
Proof. vm_compute. split; reflexivity. Qed.

Example inv_sbox_inverts_sbox : forallb (fun i => inv_sbox_spec (sbox_spec (N.of_nat i)) =? N.of_nat i) (seq 0 256) = true.
Proof. vm_compute. reflexivity. Qed.

(* Appendix A.1: 128-bit key 2b7e1516 28aed2a6 abf71588 09cf4f3c: w4 = a0fafe17, w5 = 88542cb1, w9 = 7a96b943,
   w10 = 5935807a, w40..w43 = d014f9a8 c9ee2589 e13f0cc8 b6630ca6 *)
Example key_expansion_A1 :
  let W := KeyExpansion 4 (bytes_be 16 0x2b7e151628aed2a6abf7158809cf4f3c) in
  length W = 44%nat /\ nth 4 W [] = bytes_be 4 0xa0fafe17 /\ nth 5 W [] = bytes_be 4 0x88542cb1
  /\ nth 9 W [] = bytes_be 4 0x7a96b943 /\ nth 10 W [] = bytes_be 4 0x5935807a
  /\ concat (skipn 40 W) = bytes_be 16 0xd014f9a8c9ee2589e13f0cc8b6630ca6.
Proof. vm_compute. repeat split; reflexivity. Qed.

(* Appendix A.2: 192-bit key 8e73b0f7 da0e6452 c810f32b 809079e5 62f8ead2 522c6b7b: w6 = fe0c91f7, w7 = 2402f5a5,
   w12 = 4db7b4bd, w51 = 01002202 *)
Example key_expansion_A2 :
  let W := KeyExpansion 6 (bytes_be 24 0x8e73b0f7da0e6452c810f32b809079e562f8ead2522c6b7b) in
  length W = 52%nat /\ nth 6 W [] = bytes_be 4 0xfe0c91f7 /\ nth 7 W [] = bytes_be 4 0x2402f5a5
  /\ nth 12 W [] = bytes_be 4 0x4db7b4bd /\ nth 51 W [] = bytes_be 4 0x01002202.
Proof. vm_compute. repeat split; reflexivity. Qed.

(* Appendix A.3: 256-bit key 603deb10 15ca71be 2b73aef0 857d7781 1f352c07 3b6108d7 2d9810a3 0914dff4: w8 = 9ba35411,
   w12 = a8b09c1a (SubWord only), w13 = 93d194cd, w59 = 706c631e *)
Example key_expansion_A3 :
  let W := KeyExpansion 8 (bytes_be 32 0x603deb1015ca71be2b73aef0857d77811f352c073b6108d72d9810a30914dff4) in
  length W = 60%nat /\ nth 8 W [] = bytes_be 4 0x9ba35411 /\ nth 12 W [] = bytes_be 4 0xa8b09c1a
  /\ nth 13 W [] = bytes_be 4 0x93d194cd /\ nth 59 W [] = bytes_be 4 0x706c631e.
Proof. vm_compute. repeat split; reflexivity. Qed.

(* Appendix B: input 3243f6a8 885a308d 313198a2 e0370734, key of A.1: start of round 1, after SubBytes, ShiftRows, MixColumns,
   start of round 2, output *)
Example cipher_B :
  let S := Cipher_states 4 (bytes_be 16 0x2b7e151628aed2a6abf7158809cf4f3c) (bytes_be 16 0x3243f6a8885a308d313198a2e0370734) in
  length S = 41%nat
  /\ nth 1 S [] = bytes_be 16 0x193de3bea0f4e22b9ac68d2ae9f84808
  /\ nth 2 S [] = bytes_be 16 0xd42711aee0bf98f1b8b45de51e415230
  /\ nth 3 S [] = bytes_be 16 0xd4bf5d30e0b452aeb84111f11e2798e5
  /\ nth 4 S [] = bytes_be 16 0x046681e5e0cb199a48f8d37a2806264c
  /\ nth 5 S [] = bytes_be 16 0xa49c7ff2689f352b6b5bea43026a5049
  /\ nth 40 S [] = bytes_be 16 0x3925841d02dc09fbdc118597196a0b32.
Proof. vm_compute. repeat split; reflexivity. Qed.

(* Appendix C.1 (AES-128): plaintext 00112233..ff, key 000102..0f: round[1].start/s_box/s_row/m_col, round[2].start,
   round[10].s_box/s_row, output; inverse cipher: round[1].istart/is_row/is_box/ik_add, round[2].istart, output *)
Example cipher_C1 :
  let key := bytes_be 16 0x000102030405060708090a0b0c0d0e0f in
  let S := Cipher_states 4 key (bytes_be 16 0x00112233445566778899aabbccddeeff) in
  let I := InvCipher_states 4 key (bytes_be 16 0x69c4e0d86a7b0430d8cdb78070b4c55a) in
  nth 1 S [] = bytes_be 16 0x00102030405060708090a0b0c0d0e0f0
  /\ nth 2 S [] = bytes_be 16 0x63cab7040953d051cd60e0e7ba70e18c
  /\ nth 3 S [] = bytes_be 16 0x6353e08c0960e104cd70b751bacad0e7
  /\ nth 4 S [] = bytes_be 16 0x5f72641557f5bc92f7be3b291db9f91a
  /\ nth 5 S [] = bytes_be 16 0x89d810e8855ace682d1843d8cb128fe4
  /\ nth 38 S [] = bytes_be 16 0x7a9f102789d5f50b2beffd9f3dca4ea7
  /\ nth 39 S [] = bytes_be 16 0x7ad5fda789ef4e272bca100b3d9ff59f
  /\ nth 40 S [] = bytes_be 16 0x69c4e0d86a7b0430d8cdb78070b4c55a
  /\ length I = 41%nat
  /\ nth 1 I [] = bytes_be 16 0x7ad5fda789ef4e272bca100b3d9ff59f
  /\ nth 2 I [] = bytes_be 16 0x7a9f102789d5f50b2beffd9f3dca4ea7
  /\ nth 3 I [] = bytes_be 16 0xbd6e7c3df2b5779e0b61216e8b10b689
  /\ nth 4 I [] = bytes_be 16 0xe9f74eec023020f61bf2ccf2353c21c7
  /\ nth 5 I [] = bytes_be 16 0x54d990a16ba09ab596bbf40ea111702f
  /\ nth 40 I [] = bytes_be 16 0x00112233445566778899aabbccddeeff.
Proof. vm_compute. repeat split; reflexivity. Qed.

(* Appendix C.2 (AES-192) and C.3 (AES-256): outputs, and the inverse cipher returns the plaintext *)
Example cipher_C2 :
  let key := bytes_be 24 0x000102030405060708090a0b0c0d0e0f1011121314151617 in
  length (Cipher_states 6 key (bytes_be 16 0x00112233445566778899aabbccddeeff)) = 49%nat
  /\ nth 5 (Cipher_states 6 key (bytes_be 16 0x00112233445566778899aabbccddeeff)) [] = bytes_be 16 0x4f63760643e0aa85aff8c9d041fa0de4
  /\ Cipher 6 key (bytes_be 16 0x00112233445566778899aabbccddeeff) = bytes_be 16 0xdda97ca4864cdfe06eaf70a0ec0d7191
  /\ InvCipher 6 key (bytes_be 16 0xdda97ca4864cdfe06eaf70a0ec0d7191) = bytes_be 16 0x00112233445566778899aabbccddeeff.
Proof. vm_compute. repeat split; reflexivity. Qed.

Example cipher_C3 :
  let key := bytes_be 32 0x000102030405060708090a0b0c0d0e0f101112131415161718191a1b1c1d1e1f in
  length (Cipher_states 8 key (bytes_be 16 0x00112233445566778899aabbccddeeff)) = 57%nat
  /\ nth 5 (Cipher_states 8 key (bytes_be 16 0x00112233445566778899aabbccddeeff)) [] = bytes_be 16 0x4f63760643e0aa85efa7213201a4e705
  /\ Cipher 8 key (bytes_be 16 0x00112233445566778899aabbccddeeff) = bytes_be 16 0x8ea2b7ca516745bfeafc49904b496089
  /\ InvCipher 8 key (bytes_be 16 0x8ea2b7ca516745bfeafc49904b496089) = bytes_be 16 0x00112233445566778899aabbccddeeff.
Proof. vm_compute. repeat split; reflexivity. Qed.
