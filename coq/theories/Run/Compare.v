(* Run/Compare.v — in-Coq comparison of values observed on the implementation with the model.
   Everything here is executable (vm_compute); nothing here is a property theorem. *)
From Coq Require Import ZArith QArith Qcanon List Bool Lia.
Import ListNotations.
Open Scope Z_scope.

(* A float as exported by the harness: Fin m e = m * 2^e exactly (from float.hex). *)
Inductive fval := Fin (m e : Z) | NaN | PInf | NInf.

Definition q_of_fin (m e : Z) : Q :=
  if e >=? 0 then inject_Z (m * 2 ^ e) else Qmake m (Z.to_pos (2 ^ (- e))).

Definition fval_q (v : fval) : option Q :=
  match v with Fin m e => Some (q_of_fin m e) | _ => None end.

Definition fval_qc (v : fval) : option Qc :=
  match v with Fin m e => Some (Q2Qc (q_of_fin m e)) | _ => None end.

Definition is_nan (v : fval) : bool := match v with NaN => true | _ => false end.
Definition is_inf (v : fval) : bool := match v with PInf | NInf => true | _ => false end.

Definition Qabs' (q : Q) : Q := if Qle_bool 0 q then q else Qopp q.
Definition Qmax' (a b : Q) : Q := if Qle_bool a b then b else a.

(* |a - b| <= tol *)
Definition q_close_abs (tol a b : Q) : bool := Qle_bool (Qabs' (a - b)) tol.
(* |a - b| <= rel * max(|a|,|b|) + abs *)
Definition q_close (rel abs a b : Q) : bool :=
  Qle_bool (Qabs' (a - b)) (rel * Qmax' (Qabs' a) (Qabs' b) + abs).

(* exact equality of an observed float with a model rational *)
Definition fval_eq_q (v : fval) (q : Q) : bool :=
  match fval_q v with Some x => Qeq_bool x q | None => false end.

Definition fval_eq_z (v : fval) (z : Z) : bool := fval_eq_q v (inject_Z z).

(* model says [Some q] (defined) or [None] (undefined = NaN expected) *)
Definition fval_matches (rel abs : Q) (v : fval) (model : option Q) : bool :=
  match model, v with
  | None, NaN => true
  | Some q, Fin m e => q_close rel abs (q_of_fin m e) q
  | _, _ => false
  end.

Definition u32 : Q := Qmake 1 (2 ^ 24).   (* unit roundoff, float32 *)
Definition u64 : Q := Qmake 1 (2 ^ 53).   (* unit roundoff, float64 *)

Inductive prec := F32 | F64.
Definition uround (p : prec) : Q := match p with F32 => u32 | F64 => u64 end.

(* indices (0-based) of the cases on which [check] is false *)
Fixpoint failing_from {A} (check : A -> bool) (i : nat) (l : list A) : list nat :=
  match l with
  | [] => []
  | x :: xs => if check x then failing_from check (S i) xs else i :: failing_from check (S i) xs
  end.
Definition failing {A} (check : A -> bool) (l : list A) : list nat := failing_from check 0%nat l.

Fixpoint forallb2 {A B} (f : A -> B -> bool) (l1 : list A) (l2 : list B) : bool :=
  match l1, l2 with
  | [], [] => true
  | x :: xs, y :: ys => f x y && forallb2 f xs ys
  | _, _ => false
  end.

Fixpoint list_eqb {A} (eqb : A -> A -> bool) (l1 l2 : list A) : bool :=
  match l1, l2 with
  | [], [] => true
  | x :: xs, y :: ys => eqb x y && list_eqb eqb xs ys
  | _, _ => false
  end.

Definition zlist_eqb := list_eqb Z.eqb.
Definition nlist_eqb := list_eqb N.eqb.
Definition natlist_eqb := list_eqb Nat.eqb.

Definition option_eqb {A} (eqb : A -> A -> bool) (a b : option A) : bool :=
  match a, b with
  | None, None => true
  | Some x, Some y => eqb x y
  | _, _ => false
  end.
