(* Model/Kernels.v — the accumulation kernels of scared in the shape of the code (property C11: results are independent
   of run-time kernel selection and thread count).  Executable definitions only; the proofs are in Proofs/Kernels.v.

   Anchors: scared/distinguishers/partitioned.py (_accumulate_core_1, _accumulate_core_2, _accumulate),
            scared/distinguishers/template.py (_accumulate_core_1, _accumulate_core_2, _accumulate),
            scared/distinguishers/mia.py (_accumulate_core), scared/ttest.py (_update_core).

   Conventions.  Arrays are functions on indices (DESIGN 2.3); every number is an exact rational [Qc]; a batch is
   (number of traces T, x : trace -> sample -> stored value, idx : trace -> word -> class index after the LUT, -1 = not
   a declared class).  An accumulator state is a function [cell -> Qc] on NAMED cells (array, index tuple).

   1. micro-steps: the body of a prange iteration is a list of [cell += v] statements in program order; each statement is
      executed as TWO micro-steps, a load into the iteration's private temporary and a store of temporary + v.  A
      schedule is any interleaving (n-way merge) of the micro-step lists of the iterations, taken in any order.
   2. the two partitioned kernels, kernel 2 with the flat index arithmetic of the boolean mask (column c = p*W + w) and of
      reshape(P, W, S).T; the squaring step [sq] is explicit (storage dtype -> precision -> value);
   3. the two template-build kernels;
   4. the MIA kernel and the t-test kernel as prange kernels;
   5. the records and check functions of the correspondence harness (tools/props/C11.py). *)
From Coq Require Import ZArith QArith Qcanon List Bool Lia Permutation.
From ScaredV Require Import Lib.QcSum Lib.Interleave Run.Compare Model.Accum.
From ScaredV Require Model.Partitioned Model.Template Model.Mia Model.Ttest.
From ScaredV Require Generated.KernelWrites.
Import ListNotations.
Local Open Scope Qc_scope.

(* ================================================================================ 1. micro-steps of a prange *)
Section Micro.
  Variable cell : Type.
  Variable ceqb : cell -> cell -> bool.

  (* one statement  cell += v *)
  Definition add : Type := (cell * Qc)%type.
  Definition mem : Type := cell -> Qc.
  Definition do_add (m : mem) (a : add) : mem := fun c => if ceqb c (fst a) then m c + snd a else m c.
  (* the statements executed one after the other (a sequential run) *)
  Definition run_adds (m : mem) (l : list add) : mem := exec do_add m l.

  (* what a list of statements adds to cell c *)
  Definition hits (c : cell) (l : list add) : Qc := qsum (map snd (filter (fun a => ceqb c (fst a)) l)).

  (* a prange kernel: n iterations, iteration i executes the statements [pr_iter i] *)
  Record prange := { pr_n : nat; pr_iter : nat -> list add }.
  Definition pr_seq (k : prange) : list add := flat_map (pr_iter k) (seq 0 (pr_n k)).
  Definition pr_run (k : prange) (m : mem) : mem := run_adds m (pr_seq k).

  (* the load/store view: a key is a memory cell or the private temporary of iteration i *)
  Inductive key := Mem (c : cell) | Reg (i : nat).
  Inductive ustep := Ld (i : nat) (c : cell) | St (i : nat) (c : cell) (v : Qc).
  Definition keqb (a b : key) : bool :=
    match a, b with
    | Mem c, Mem c' => ceqb c c'
    | Reg i, Reg j => Nat.eqb i j
    | _, _ => false
    end.
  Definition ustate : Type := key -> Qc.
  Definition do_ustep (s : ustate) (t : ustep) : ustate :=
    match t with
    | Ld i c => fun k => if keqb k (Reg i) then s (Mem c) else s k            (* tmp_i = cell *)
    | St i c v => fun k => if keqb k (Mem c) then s (Reg i) + v else s k      (* cell = tmp_i + v *)
    end.
  (* footprint of a micro-step: everything it reads or writes *)
  Definition ufp (t : ustep) (k : key) : bool :=
    match t with Ld i c | St i c _ => keqb k (Reg i) || keqb k (Mem c) end.
  Definition u_iter (t : ustep) : nat := match t with Ld i _ | St i _ _ => i end.
  Definition u_cell (t : ustep) : cell := match t with Ld _ c | St _ c _ => c end.

  (* the micro-steps of iteration i *)
  Definition expand (i : nat) (l : list add) : list ustep := flat_map (fun a => [Ld i (fst a); St i (fst a) (snd a)]) l.
  Definition usteps (k : prange) (i : nat) : list ustep := expand i (pr_iter k i).
  Definition ustart (m : mem) (regs : nat -> Qc) : ustate := fun k => match k with Mem c => m c | Reg i => regs i end.
  Definition urun (s : ustate) (l : list ustep) : ustate := exec do_ustep s l.
End Micro.

Arguments Mem {cell} c.
Arguments Reg {cell} i.
Arguments Ld {cell} i c.
Arguments St {cell} i c v.
Arguments pr_n {cell} p.
Arguments pr_iter {cell} p i.
Arguments Build_prange {cell} pr_n pr_iter.

(* n-way interleaving: r interleaves the lists of ls, each keeping its own order *)
Inductive nmerge {A : Type} : list (list A) -> list A -> Prop :=
| nmerge_nil : nmerge [] []
| nmerge_cons l ls m r : nmerge ls m -> merge l m r -> nmerge (l :: ls) r.

(* a schedule of a prange kernel: the iterations are taken in some order (every iteration once) and their micro-steps are
   interleaved in any way (this contains: any assignment of the iterations to worker threads, each thread running its
   iterations one after the other, the threads preempted at any micro-step) *)
Definition schedule {cell} (k : prange cell) (order : list nat) (r : list (ustep cell)) : Prop :=
  Permutation order (seq 0 (pr_n k)) /\ nmerge (map (usteps cell k) order) r.

(* every statement of iteration i writes a cell owned by i *)
Definition owned {cell} (owner : cell -> nat) (k : prange cell) : Prop :=
  forall i a, In a (pr_iter k i) -> owner (fst a) = i.

(* executable: the schedule that round-robins the micro-steps of two iterations (used by the Examples) *)
Fixpoint alternate {A} (l1 l2 : list A) : list A :=
  match l1 with
  | [] => l2
  | x :: r1 => match l2 with [] => l1 | y :: r2 => x :: y :: alternate r1 r2 end
  end.

(* ================================================================================ numbers: casts, rounding, squaring *)
(* storage dtype of the traces.  numba widens every integer dtype to 64 bits before multiplying, so one integer case. *)
Inductive dtype := DI64 | DF32 | DF64.

Definition pow2q (e : Z) : Q := if (0 <=? e)%Z then inject_Z (2 ^ e) else Qmake 1 (Z.to_pos (2 ^ (- e))).

(* num / den (num >= 0, den > 0) rounded to the nearest integer, ties to even *)
Definition rne (num den : Z) : Z :=
  let f := (num / den)%Z in
  match (2 * (num mod den) ?= den)%Z with
  | Lt => f
  | Gt => (f + 1)%Z
  | Eq => if Z.even f then f else (f + 1)%Z
  end.

(* q rounded to [mant] significant bits, to nearest, ties to even; unbounded exponent (no overflow, no subnormals) *)
Definition round_to (mant : Z) (q : Qc) : Qc :=
  let n := Qnum q in
  let d := Zpos (Qden q) in
  if (n =? 0)%Z then 0 else
  let a := Z.abs n in
  let l := (Z.log2 a - Z.log2 d)%Z in
  let fl := if (0 <=? l)%Z then (if (d * 2 ^ l <=? a)%Z then l else l - 1)%Z
            else (if (d <=? a * 2 ^ (- l))%Z then l else l - 1)%Z in
  let e := (fl - (mant - 1))%Z in
  let r := if (0 <=? e)%Z then rne a (d * 2 ^ e) else rne (a * 2 ^ (- e)) d in
  Q2Qc (inject_Z (Z.sgn n * r) * pow2q e).

Definition mant_of (p : prec) : Z := match p with F32 => 24%Z | F64 => 53%Z end.
Definition fround (p : prec) (q : Qc) : Qc := round_to (mant_of p) q.

(* two's-complement wrap of a 64-bit signed product *)
Definition wrap64 (z : Z) : Z := ((z + 2 ^ 63) mod 2 ^ 64 - 2 ^ 63)%Z.

(* conversion of a stored value to the precision (traces.astype(precision), precision(x)): round to nearest *)
Definition cast (d : dtype) (p : prec) (x : Qc) : Qc := fround p x.
(* a product computed inside a type *)
Definition mul_prec (p : prec) (x y : Qc) : Qc := fround p (x * y).
Definition mul_in (d : dtype) (x y : Qc) : Qc :=
  match d with
  | DI64 => qz (wrap64 (Qnum x * Qnum y))          (* integer-valued x, y *)
  | DF32 => fround F32 (x * y)
  | DF64 => fround F64 (x * y)
  end.

(* THE SQUARING STEP  sq : storage dtype -> precision -> stored value -> what is added to sum_square.
   cast first, multiply in the precision: kernel 2 (ftraces = traces.astype(precision); ftraces ** 2) and kernel 1 since
   96ffd02 (x = self_sum.dtype.type(traces[t, s]); xx = x * x) *)
Definition sq_cast_first (d : dtype) (p : prec) (x : Qc) : Qc := mul_prec p (cast d p x) (cast d p x).
(* multiply in the storage type, then convert: kernel 1 as found (x = traces[t, s]; xx = x * x; sum_square += xx) *)
Definition sq_storage (d : dtype) (p : prec) (x : Qc) : Qc := cast d p (mul_in d x x).

Definition sq_kernel1 := sq_cast_first.
Definition sq_kernel2 := sq_cast_first.

(* ================================================================================ 2. the partitioned kernels *)
Record pbatch := { pb_T : nat; pb_x : nat -> nat -> Qc; pb_idx : nat -> nat -> Z }.

Inductive pcell := CSum (s w p : nat) | CSq (s w p : nat) | CCnt (w p : nat).   (* sum[s,w,p] sum_square[s,w,p] counters[w,p] *)
Definition pcell_eqb (a b : pcell) : bool :=
  match a, b with
  | CSum s w p, CSum s' w' p' | CSq s w p, CSq s' w' p' => Nat.eqb s s' && Nat.eqb w w' && Nat.eqb p p'
  | CCnt w p, CCnt w' p' => Nat.eqb w w' && Nat.eqb p p'
  | _, _ => false
  end.
(* the prange iteration (sample index) that owns a cell in kernel 1: counters belong to the sample 0 iteration *)
Definition pcell_owner (c : pcell) : nat := match c with CSum s _ _ | CSq s _ _ => s | CCnt _ _ => 0%nat end.
Definition pmem : Type := mem pcell.

Section PartKernels.
  Variables S W P : nat.            (* trace length, data words, number of classes: the shapes of the accumulators *)
  Variable castf : Qc -> Qc.        (* stored value -> value in the precision *)
  Variables sq1 sq2 : Qc -> Qc.     (* the squaring step of kernel 1 / kernel 2, on a stored value *)
  Variable junk : nat -> nat -> Qc. (* the content of np.empty *)

  (* ---- kernel 1:  for sample in prange(S): for trace: x, xx; for word: if idx != -1: sum += x; sum_square += xx;
                     if sample == 0: counters += 1 *)
  Definition k1_body (b : pbatch) (s t w : nat) : list (add pcell) :=
    let d := pb_idx b t w in
    if (d =? -1)%Z then []
    else let k := Z.to_nat d in
         (CSum s w k, castf (pb_x b t s)) :: (CSq s w k, sq1 (pb_x b t s))
         :: (if Nat.eqb s 0 then [(CCnt w k, 1)] else []).
  Definition k1_iter (b : pbatch) (s : nat) : list (add pcell) :=
    flat_map (fun t => flat_map (k1_body b s t) (seq 0 W)) (seq 0 (pb_T b)).
  Definition k1_prange (b : pbatch) : prange pcell := Build_prange S (k1_iter b).
  Definition core1 (b : pbatch) (m : pmem) : pmem := pr_run pcell pcell_eqb (k1_prange b) m.

  (* ---- kernel 2 *)
  (* tmp_bool = data == p *)
  Definition tmp_bool (b : pbatch) (p t w : nat) : Qc := if (pb_idx b t w =? Z.of_nat p)%Z then 1 else 0.
  (* tmp_bool.sum(0) *)
  Definition colsum (b : pbatch) (p w : nat) : Qc := qsum (map (fun t => tmp_bool b p t w) (seq 0 (pb_T b))).
  (* bool_mask[:, p * W : (p + 1) * W] = tmp_bool *)
  Definition mask_write (b : pbatch) (m : nat -> nat -> Qc) (p : nat) : nat -> nat -> Qc :=
    fun t c => if Nat.leb (p * W) c && Nat.ltb c ((p + 1) * W) then tmp_bool b p t (c - p * W) else m t c.
  Definition bool_mask (b : pbatch) : nat -> nat -> Qc := fold_left (mask_write b) (seq 0 P) junk.
  (* bool_mask.T @ f : a (P*W) x S matrix *)
  Definition mask_T_matmul (b : pbatch) (f : nat -> nat -> Qc) (c s : nat) : Qc :=
    qsum (map (fun t => bool_mask b t c * f t s) (seq 0 (pb_T b))).
  (* the C-order flat view of a matrix with [ncols] columns, and reshape to (d1, d2, d3) read at [i][j][k] *)
  Definition flat2 (ncols : nat) (M : nat -> nat -> Qc) : nat -> Qc := fun i => M (i / ncols)%nat (i mod ncols)%nat.
  Definition reshape3 (d2 d3 : nat) (F : nat -> Qc) : nat -> nat -> nat -> Qc := fun i j k => F ((i * d2 + j) * d3 + k)%nat.
  (* .T of a 3-d array reverses the axes *)
  Definition transpose3 (A : nat -> nat -> nat -> Qc) : nat -> nat -> nat -> Qc := fun s w p => A p w s.
  (* (bool_mask.T @ f).reshape(P, W, S).T  read at [s][w][p] *)
  Definition k2_addend (b : pbatch) (f : nat -> nat -> Qc) : nat -> nat -> nat -> Qc :=
    transpose3 (reshape3 W S (flat2 S (mask_T_matmul b f))).
  Definition in3 (s w p : nat) : bool := Nat.ltb s S && Nat.ltb w W && Nat.ltb p P.
  Definition in2 (w p : nat) : bool := Nat.ltb w W && Nat.ltb p P.
  Definition core2 (b : pbatch) (m : pmem) : pmem :=
    fun c => match c with
             | CSum s w p => if in3 s w p then m c + k2_addend b (fun t s' => castf (pb_x b t s')) s w p else m c
             | CSq s w p => if in3 s w p then m c + k2_addend b (fun t s' => sq2 (pb_x b t s')) s w p else m c
             | CCnt w p => if in2 w p then m c + colsum b p w else m c
             end.

  (* ---- _accumulate: more than 9 classes -> kernel 1; otherwise the kernel chosen for this call (false = index 0 =
     _accumulate_core_1, true = index 1 = _accumulate_core_2) *)
  Definition select (choice : bool) : bool := if Nat.ltb 9 P then false else choice.
  Definition accumulate (choice : bool) (b : pbatch) (m : pmem) : pmem :=
    if select choice then core2 b m else core1 b m.
  (* successive update() calls; a choice list shorter than the batch list is completed with kernel 1 *)
  Fixpoint run_batches (cs : list bool) (bs : list pbatch) (m : pmem) : pmem :=
    match bs with
    | [] => m
    | b :: bs' => run_batches (tl cs) bs' (accumulate (hd false cs) b m)
    end.

  (* ---- spec: what one batch adds to each cell *)
  Definition class_sum (b : pbatch) (f : Qc -> Qc) (w p s : nat) : Qc :=
    qsum (map (fun t => if (pb_idx b t w =? Z.of_nat p)%Z then f (pb_x b t s) else 0) (seq 0 (pb_T b))).
  Definition class_cnt (b : pbatch) (w p : nat) : Qc := class_sum b (fun _ => 1) w p 0%nat.
  Definition spec_add (sqf : Qc -> Qc) (b : pbatch) (c : pcell) : Qc :=
    match c with
    | CSum s w p => if in3 s w p then class_sum b castf w p s else 0
    | CSq s w p => if in3 s w p then class_sum b sqf w p s else 0
    | CCnt w p => if in2 w p then class_cnt b w p else 0
    end.
  Definition spec_total (sqf : Qc -> Qc) (bs : list pbatch) (c : pcell) : Qc := qsum (map (fun b => spec_add sqf b c) bs).

  Definition pbatch_ok (b : pbatch) : Prop :=
    forall t w, (t < pb_T b)%nat -> (w < W)%nat -> (-1 <= pb_idx b t w < Z.of_nat P)%Z.
End PartKernels.

(* ================================================================================ 3. the template-build kernels *)
Record tbatch := { tb_T : nat; tb_x : nat -> nat -> Qc; tb_idx : nat -> Z }.

Inductive tcell := TCnt (p : nat) | TExi (p s : nat) | TExxi (p i j : nat).     (* _counters[p] _exi[p,s] _exxi[p,i,j] *)
Definition tcell_eqb (a b : tcell) : bool :=
  match a, b with
  | TCnt p, TCnt p' => Nat.eqb p p'
  | TExi p s, TExi p' s' => Nat.eqb p p' && Nat.eqb s s'
  | TExxi p i j, TExxi p' i' j' => Nat.eqb p p' && Nat.eqb i i' && Nat.eqb j j'
  | _, _ => false
  end.
(* owner in kernel 1 (prange over samples): row [p, s] of _exxi and _exi[p, s] belong to sample s, counters to sample 0 *)
Definition tcell_owner1 (c : tcell) : nat := match c with TCnt _ => 0%nat | TExi _ s => s | TExxi _ i _ => i end.
(* owner in kernel 2 (prange over classes) *)
Definition tcell_owner2 (c : tcell) : nat := match c with TCnt p | TExi p _ | TExxi p _ _ => p end.
Definition tmem : Type := mem tcell.

Section TemplKernels.
  Variables S P : nat.
  Variable castf : Qc -> Qc.

  (* ---- kernel 1: for sample in prange(S): for trace: x = precision(traces[t, s]); if idx != -1: exi[idx, s] += x;
                    if s == 0: counters[idx] += 1; exxi[idx, s] += x * traces[t]   (a row: one statement per column) *)
  Definition t1_body (b : tbatch) (s t : nat) : list (add tcell) :=
    let x := castf (tb_x b t s) in
    let d := tb_idx b t in
    if (d =? -1)%Z then []
    else let k := Z.to_nat d in
         (TExi k s, x) :: (if Nat.eqb s 0 then [(TCnt k, 1)] else [])
         ++ map (fun j => (TExxi k s j, x * tb_x b t j)) (seq 0 S).
  Definition t1_iter (b : tbatch) (s : nat) : list (add tcell) := flat_map (t1_body b s) (seq 0 (tb_T b)).
  Definition t1_prange (b : tbatch) : prange tcell := Build_prange S (t1_iter b).
  Definition tcore1 (b : tbatch) (m : tmem) : tmem := pr_run tcell tcell_eqb (t1_prange b) m.

  (* ---- kernel 2: for p in prange(P): b = data[:, 0] == p; tmp = traces[b] in the precision;
                    counters[p] += b.sum(); exi[p] += tmp.sum(0); exxi[p] += tmp.T @ tmp *)
  Definition selected (b : tbatch) (p : nat) : list nat := filter (fun t => (tb_idx b t =? Z.of_nat p)%Z) (seq 0 (tb_T b)).
  Definition t2_iter (b : tbatch) (p : nat) : list (add tcell) :=
    let rows := selected b p in
    (TCnt p, qlen rows)
    :: map (fun j => (TExi p j, qsum (map (fun t => castf (tb_x b t j)) rows))) (seq 0 S)
    ++ flat_map (fun i => map (fun j => (TExxi p i j, qsum (map (fun t => castf (tb_x b t i) * castf (tb_x b t j)) rows))) (seq 0 S))
                (seq 0 S).
  Definition t2_prange (b : tbatch) : prange tcell := Build_prange P (t2_iter b).
  Definition tcore2 (b : tbatch) (m : tmem) : tmem := pr_run tcell tcell_eqb (t2_prange b) m.

  Definition taccumulate (choice : bool) (b : tbatch) (m : tmem) : tmem := if choice then tcore2 b m else tcore1 b m.
  Fixpoint trun_batches (cs : list bool) (bs : list tbatch) (m : tmem) : tmem :=
    match bs with
    | [] => m
    | b :: bs' => trun_batches (tl cs) bs' (taccumulate (hd false cs) b m)
    end.

  (* ---- spec *)
  Definition tclass_sum (b : tbatch) (p : nat) (f : nat -> Qc) : Qc :=
    qsum (map (fun t => if (tb_idx b t =? Z.of_nat p)%Z then f t else 0) (seq 0 (tb_T b))).
  Definition tspec_add (b : tbatch) (c : tcell) : Qc :=
    match c with
    | TCnt p => if Nat.ltb p P then tclass_sum b p (fun _ => 1) else 0
    | TExi p s => if Nat.ltb p P && Nat.ltb s S then tclass_sum b p (fun t => castf (tb_x b t s)) else 0
    | TExxi p i j => if Nat.ltb p P && Nat.ltb i S && Nat.ltb j S
                     then tclass_sum b p (fun t => castf (tb_x b t i) * castf (tb_x b t j)) else 0
    end.
  Definition tspec_total (bs : list tbatch) (c : tcell) : Qc := qsum (map (fun b => tspec_add b c) bs).

  Definition tbatch_ok (b : tbatch) : Prop :=
    (forall t, (t < tb_T b)%nat -> (-1 <= tb_idx b t < Z.of_nat P)%Z)
    /\ (forall t s, (t < tb_T b)%nat -> (s < S)%nat -> castf (tb_x b t s) = tb_x b t s).
End TemplKernels.

(* ================================================================================ 4. the MIA and t-test kernels *)
(* mia._accumulate_core: for sample in prange(S): for trace: bin of x (or continue); for word: if idx != -1:
   accumulators[sample, bin, idx, word] += 1 *)
Inductive mcell := MAcc (s bin k w : nat).
Definition mcell_eqb (a b : mcell) : bool :=
  match a, b with MAcc s b0 k w, MAcc s' b0' k' w' => Nat.eqb s s' && Nat.eqb b0 b0' && Nat.eqb k k' && Nat.eqb w w' end.
Definition mcell_owner (c : mcell) : nat := match c with MAcc s _ _ _ => s end.

Section MiaKernel.
  Variables S W : nat.
  Variable edges : list Qc.
  Variable est : Qc -> nat.          (* the float bin-index estimate: any function (Model/Mia.v) *)
  Definition mia_body (b : pbatch) (s t : nat) : list (add mcell) :=
    match Mia.bin_index edges est (pb_x b t s) with
    | None => []
    | Some bin => flat_map (fun w => let d := pb_idx b t w in
                                     if (d =? -1)%Z then [] else [(MAcc s bin (Z.to_nat d) w, 1)]) (seq 0 W)
    end.
  Definition mia_iter (b : pbatch) (s : nat) : list (add mcell) := flat_map (mia_body b s) (seq 0 (pb_T b)).
  Definition mia_prange (b : pbatch) : prange mcell := Build_prange S (mia_iter b).
End MiaKernel.

(* ttest._update_core: for i in prange(S): tmp = traces[:, i] in the precision; sum[i] += tmp.sum(); sum_squared[i] += tmp.T @ tmp *)
Inductive ucell := USum (i : nat) | USq (i : nat).
Definition ucell_eqb (a b : ucell) : bool :=
  match a, b with USum i, USum j | USq i, USq j => Nat.eqb i j | _, _ => false end.
Definition ucell_owner (c : ucell) : nat := match c with USum i | USq i => i end.

Section TtestKernel.
  Variable S : nat.
  Variable castf : Qc -> Qc.
  Definition tt_iter (T : nat) (x : nat -> nat -> Qc) (i : nat) : list (add ucell) :=
    let tmp := map (fun t => castf (x t i)) (seq 0 T) in
    [(USum i, qsum tmp); (USq i, qsum (map (fun v => v * v) tmp))].
  Definition tt_prange (T : nat) (x : nat -> nat -> Qc) : prange ucell := Build_prange S (tt_iter T x).
End TtestKernel.

(* a prange body that also accumulates into ONE shared scalar (the edit the schedule theorem excludes) *)
Definition shared_prange : prange nat := Build_prange 2 (fun i => [(0%nat, 1)]).

(* ================================================================================ write targets read off the source (T-tie) *)
(* Generated/KernelWrites.v (tools/translate/tr_kernels.py) lists, for the body of each of the five prange loops, every
   subscript store [KW array shared position guard0], every subscript load of a stored shared array [KR] and every scalar
   reduction [KRed].  A store is harmless when the array is private to the iteration, or every store of the body to that
   array is under `if ivar == 0`, or every store to it is unguarded and carries the induction variable at one and the same
   index position; loads of stored shared arrays and reductions do not occur. *)
Section KernelWrites.
  Import KernelWrites String.
  Definition opt_nat_eqb (a b : option nat) : bool :=
    match a, b with Some x, Some y => Nat.eqb x y | None, None => true | _, _ => false end.
  Definition kw_event_ok (evs : list kevent) (e : kevent) : bool :=
    match e with
    | KW a shared pos g0 =>
        negb shared
        || (if g0
            then forallb (fun e' => match e' with KW a' _ _ g0' => negb (String.eqb a a') || g0' | _ => true end) evs
            else match pos with
                 | Some j => forallb (fun e' => match e' with
                                                | KW a' _ pos' g0' => negb (String.eqb a a') || (negb g0' && opt_nat_eqb pos' (Some j))
                                                | _ => true end) evs
                 | None => false
                 end)
    | KR _ | KRed _ => false
    end.
  Definition kernel_writes_ok (k : string * list kevent) : bool := forallb (kw_event_ok (snd k)) (snd k).
  (* the shared arrays a kernel stores to, with the index position of the induction variable (None: iteration 0 only) *)
  Definition kw_summary (k : string * list kevent) : string * list (string * option nat) :=
    (fst k, flat_map (fun e => match e with KW a true pos _ => [(a, pos)] | _ => [] end) (snd k)).
  (* what the owner functions above assume: pcell_owner (sum, sum_square by axis 0 = sample; counters by sample 0),
     tcell_owner1 (_exi, _exxi by axis 1 = sample; counters by sample 0), tcell_owner2 (everything by axis 0 = class),
     mcell_owner (axis 0 = sample), ucell_owner (axis 0 = sample) *)
  Definition model_footprints : list (string * list (string * option nat)) :=
    [("partitioned_1", [("self_sum", Some 0); ("self_sum_square", Some 0); ("self_counters", None)]);
     ("template_1", [("self_exi", Some 1); ("self_counters", None); ("self_exxi", Some 1)]);
     ("template_2", [("self_counters", Some 0); ("self_exi", Some 0); ("self_exxi", Some 0)]);
     ("mia", [("self_accumulators", Some 0)]);
     ("ttest", [("self_sum", Some 0); ("self_sum_squared", Some 0)])]%nat%string.
End KernelWrites.

(* ================================================================================ 5. correspondence cases *)
Local Open Scope Z_scope.

Definition scale_q (e : Z) (z : Z) : Qc := Q2Qc (inject_Z z * pow2q e).
Definition idq (x : Qc) : Qc := x.
Definition sqq (x : Qc) : Qc := (x * x)%Qc.
Definition zero_junk : nat -> nat -> Qc := fun _ _ => Q2Qc 0.

(* one trace as exported: (samples z, data words); the value of a sample is z * 2^exp *)
Definition crow := (list Z * list Z)%type.

Definition lutz (parts : list Z) (v : Z) : Z :=
  match Partitioned.lut parts v with Some k => Z.of_nat k | None => -1 end.

Definition pbatch_of (e : Z) (parts : list Z) (rows : list crow) : pbatch :=
  {| pb_T := length rows;
     pb_x := fun t s => scale_q e (nth s (fst (nth t rows ([], []))) 0);
     pb_idx := fun t w => lutz parts (nth w (snd (nth t rows ([], []))) 0) |}.

Definition qabs (x : Qc) : Qc := if Qle_bool 0 x then x else (- x)%Qc.
Definition qleb (a b : Qc) : bool := Qle_bool a b.
Definition nat_q (n : nat) : Qc := qz (Z.of_nat n).

(* observed float against a model value: equal, or within tol *)
Definition fv_exact (v : fval) (q : Qc) : bool := fval_eq_q v q.
Definition fv_close (tol : Qc) (v : fval) (q : Qc) : bool :=
  match fval_qc v with Some x => qleb (qabs (x - q)%Qc) tol | None => false end.
Definition fv_ok (ex : bool) (tol : Qc) (v : fval) (q : Qc) : bool := if ex then fv_exact v q else fv_close tol v q.
Definition f3 (a : list (list (list fval))) (i j k : nat) : fval := nth k (nth j (nth i a []) []) NaN.
Definition f2 (a : list (list fval)) (i j : nat) : fval := nth j (nth i a []) NaN.
Definition shape2 {A} (a : list (list A)) (n1 n2 : nat) : bool :=
  Nat.eqb (length a) n1 && forallb (fun r => Nat.eqb (length r) n2) a.
Definition shape3 {A} (a : list (list (list A))) (n1 n2 n3 : nat) : bool :=
  Nat.eqb (length a) n1 && forallb (fun r => shape2 r n2 n3) a.
Definition all2 (n1 n2 : nat) (f : nat -> nat -> bool) : bool := forallb (fun i => forallb (f i) (seq 0 n2)) (seq 0 n1).
Definition all3 (n1 n2 n3 : nat) (f : nat -> nat -> nat -> bool) : bool :=
  forallb (fun i => all2 n2 n3 (f i)) (seq 0 n1).

(* one run of the real code: the forced kernel choices, the numba thread count, the kernels logged by the hook *)
Record krun := { kr_choices : list bool; kr_threads : nat; kr_log : list bool }.

Definition distinct_choices (rs : list krun) : list (list bool) := nodup (list_eq_dec Bool.bool_dec) (map kr_choices rs).

(* --------------------------------------------------------------- partitioned distinguishers *)
(* runs with bit-identical observations are grouped by the harness *)
Record pobs := {
  po_runs : list krun;
  po_result : list (list fval);            (* compute(): words x samples *)
  po_cnt : list (list fval);               (* .counters: words x classes *)
  po_sum : list (list (list fval));        (* .sum: samples x words x classes *)
  po_sq : list (list (list fval))          (* .sum_square *)
}.
Record pcase := {
  pc_metric : Partitioned.metric;
  pc_prec : prec;
  pc_parts : list Z;
  pc_exp : Z;
  pc_batches : list (list crow);
  pc_obs : list pobs
}.

Definition all_rows (bs : list (list crow)) : list crow := concat bs.
Definition sum_sq_z (rows : list crow) : Z := fold_right (fun r a => fold_right (fun z a' => z * z + a') a (fst r)) 0 rows.
(* every float sum the kernels form is exact: all samples are integers times one power of two and the sum of ALL their
   squares fits the mantissa (then every partial sum of samples, squares and products is an integer below 2^mant times
   that power of two) *)
Definition exact_regime (p : prec) (bs : list (list crow)) : bool := sum_sq_z (all_rows bs) <=? 2 ^ mant_of p.

Definition uq (p : prec) : Qc := Q2Qc (uround p).
(* error factor of a float accumulation of n terms, with slack *)
Definition kfac (n : nat) : Qc := (qz 4 * nat_q n + qz 64)%Qc.

Definition pfinal (S W P : nat) (cs : list bool) (bs : list pbatch) : pmem :=
  run_batches S W P idq sqq sqq zero_junk cs bs (fun _ => Q2Qc 0).

(* the model with these choices = the spec total, on the cells of the accumulators (of the first 4 samples when there
   are more: every query walks all the statements of all the iterations; the equality is a theorem anyway) *)
Definition cap4 (n : nat) : nat := Nat.min n 4.
Definition pmodel_is_spec (S W P : nat) (cs : list bool) (bs : list pbatch) : bool :=
  let m := pfinal S W P cs bs in
  let sp := spec_total S W P idq sqq bs in
  all3 (cap4 S) W P (fun s w p => Qc_eq_bool (m (CSum s w p)) (sp (CSum s w p)) && Qc_eq_bool (m (CSq s w p)) (sp (CSq s w p)))
  && all2 W P (fun w p => Qc_eq_bool (m (CCnt w p)) (sp (CCnt w p))).

(* magnitudes for the tolerances: sum over ALL traces of |x| and x^2 at sample s *)
Definition col_abs (e : Z) (rows : list crow) (s : nat) : Qc := qsum (map (fun r => qabs (scale_q e (nth s (fst r) 0))) rows).
Definition col_sq (e : Z) (rows : list crow) (s : nat) : Qc := qsum (map (fun r => sqq (scale_q e (nth s (fst r) 0))) rows).

(* result of compute() at (w, s) against the definition over value classes (Model/Partitioned.v), tolerance in the
   style of Partitioned.obs_ok with the factor kfac *)
Definition pres_ok (p : prec) (m : Partitioned.metric) (n : nat) (ex : bool) (gs : list (list Qc)) (v : fval) : bool :=
  match Partitioned.spec_metric m gs with
  | None => negb (is_inf v)          (* NaN for undefined is C04's subject; never an infinity *)
  | Some val =>
      let '(num, den, snum, sden) := Partitioned.spec_parts m gs in
      let u := (kfac n * uq p)%Qc in
      if qleb den (qz 2 * u * sden)%Qc then negb (is_inf v)
      else fv_close (u * ((snum + qabs val * sden) / den))%Qc v val
  end.

Definition krun_ok (P : nat) (nb : nat) (r : krun) : bool :=
  Nat.eqb (length (kr_choices r)) nb
  && (if Nat.ltb 9 P then match kr_log r with [] => true | _ => false end
      else list_eqb Bool.eqb (kr_log r) (kr_choices r)).

Definition pobs_ok (c : pcase) (S W P : nat) (ex : bool) (bs : list pbatch) (o : pobs) : bool :=
  let rows := all_rows (pc_batches c) in
  let n := length rows in
  let e := pc_exp c in
  let parts := pc_parts c in
  let sp := spec_total S W P idq sqq bs in
  let tol := (kfac n * uq (pc_prec c))%Qc in
  negb (match po_runs o with [] => true | _ => false end)
  && forallb (krun_ok P (length bs)) (po_runs o)
  && forallb (fun cs => pmodel_is_spec S W P cs bs) (distinct_choices (po_runs o))
  && shape2 (po_result o) W S && shape2 (po_cnt o) W P && shape3 (po_sum o) S W P && shape3 (po_sq o) S W P
  && all2 W P (fun w p => fv_exact (f2 (po_cnt o) w p) (sp (CCnt w p)))
  && all3 S W P (fun s w p => fv_ok ex (tol * col_abs e rows s)%Qc (f3 (po_sum o) s w p) (sp (CSum s w p))
                              && fv_ok ex (tol * col_sq e rows s)%Qc (f3 (po_sq o) s w p) (sp (CSq s w p)))
  (* compute() against the definition, at the first 4 samples when there are more (the definition recomputes the class
     means per element: quadratic in the number of traces; all cells of the accumulators are compared above) *)
  && all2 W (cap4 S) (fun w s =>
       let erows := map (fun r => (nth w (snd r) 0, scale_q e (nth s (fst r) 0))) rows in
       let gs := Partitioned.groups (nodup Z.eq_dec parts) erows in
       let tbl := map (fun p => (sp (CCnt w p), sp (CSum s w p), sp (CSq s w p))) (seq 0 P) in
       Partitioned.oqc_eqb (Partitioned.comp_table (pc_metric c) tbl) (Partitioned.spec_metric (pc_metric c) gs)
       && pres_ok (pc_prec c) (pc_metric c) n ex gs (f2 (po_result o) w s)).

Definition rect_rows (S W : nat) (bs : list (list crow)) : bool :=
  forallb (fun b => forallb (fun r => Nat.eqb (length (fst r)) S && Nat.eqb (length (snd r)) W) b) bs.

Definition pcase_check (c : pcase) : bool :=
  match all_rows (pc_batches c) with
  | [] => false
  | r0 :: _ =>
      let S := length (fst r0) in
      let W := length (snd r0) in
      let P := length (pc_parts c) in
      let bs := map (pbatch_of (pc_exp c) (pc_parts c)) (pc_batches c) in
      let ex := exact_regime (pc_prec c) (pc_batches c) in
      negb (Nat.eqb S 0) && negb (Nat.eqb W 0) && negb (Nat.eqb P 0) && rect_rows S W (pc_batches c)
      && negb (match pc_obs c with [] => true | _ => false end)
      (* identical when all sums are exactly representable: one group of bit-identical observations *)
      && (negb ex || match pc_obs c with [_] => true | _ => false end)
      && forallb (pobs_ok c S W P ex bs) (pc_obs c)
  end.

(* for replay files: the expected accumulators (counters, then per sample sum and sum_square) and whether exact *)
Definition pcase_expected (c : pcase) : bool * list (list Q) * list (list (list (Q * Q))) :=
  match all_rows (pc_batches c) with
  | [] => (false, [], [])
  | r0 :: _ =>
      let S := length (fst r0) in
      let W := length (snd r0) in
      let P := length (pc_parts c) in
      let bs := map (pbatch_of (pc_exp c) (pc_parts c)) (pc_batches c) in
      let sp := spec_total S W P idq sqq bs in
      (exact_regime (pc_prec c) (pc_batches c),
       map (fun w => map (fun p => this (sp (CCnt w p))) (seq 0 P)) (seq 0 W),
       map (fun s => map (fun w => map (fun p => (this (sp (CSum s w p)), this (sp (CSq s w p)))) (seq 0 P)) (seq 0 W)) (seq 0 S))
  end.

(* --------------------------------------------------------------- template build (TemplateAttack.build) *)
Record tobs := {
  to_runs : list krun;
  to_templates : list (list fval);         (* .templates: classes x samples *)
  to_cov : list (list fval)                (* .pooled_covariance: samples x samples *)
}.
Record tcase := {
  tc_prec : prec;
  tc_parts : list Z;
  tc_exp : Z;
  tc_batches : list (list crow);           (* one data word per trace *)
  tc_obs : list tobs
}.

Definition tbatch_of (e : Z) (parts : list Z) (rows : list crow) : tbatch :=
  {| tb_T := length rows;
     tb_x := fun t s => scale_q e (nth s (fst (nth t rows ([], []))) 0);
     tb_idx := fun t => lutz parts (nth 0 (snd (nth t rows ([], []))) 0) |}.

Definition tfinal (S P : nat) (cs : list bool) (bs : list tbatch) : tmem := trun_batches S P idq cs bs (fun _ => Q2Qc 0).

Definition tmodel_is_spec (S P : nat) (cs : list bool) (bs : list tbatch) : bool :=
  let m := tfinal S P cs bs in
  let sp := tspec_total S P idq bs in
  forallb (fun p => Qc_eq_bool (m (TCnt p)) (sp (TCnt p))) (seq 0 P)
  && all2 P (cap4 S) (fun p s => Qc_eq_bool (m (TExi p s)) (sp (TExi p s)))
  && all3 P (cap4 S) (cap4 S) (fun p i j => Qc_eq_bool (m (TExxi p i j)) (sp (TExxi p i j))).

(* the accumulators as the state of Model/Template.v *)
Definition tstate (S P : nat) (sp : tcell -> Qc) : Template.st :=
  map (fun p => Template.mkc (sp (TCnt p)) (map (fun s => sp (TExi p s)) (seq 0 S))
                             (map (fun i => map (fun j => sp (TExxi p i j)) (seq 0 S)) (seq 0 S))) (seq 0 P).

Definition tobs_ok (c : tcase) (S P : nat) (ex : bool) (bs : list tbatch) (o : tobs) : bool :=
  let rows := all_rows (tc_batches c) in
  let n := length rows in
  let e := tc_exp c in
  let parts := tc_parts c in
  let sp := tspec_total S P idq bs in
  let st := tstate S P sp in
  let TC := Template.comp parts S st in
  let brows := map (fun r => (nth 0 (snd r) 0, map (scale_q e) (fst r))) rows in
  let tol := (kfac n * uq (tc_prec c))%Qc in
  negb (match to_runs o with [] => true | _ => false end)
  && forallb (fun r => Nat.eqb (length (kr_choices r)) (length bs) && list_eqb Bool.eqb (kr_log r) (kr_choices r)) (to_runs o)
  && forallb (fun cs => tmodel_is_spec S P cs bs) (distinct_choices (to_runs o))
  && shape2 (to_templates o) P S && shape2 (to_cov o) S S
  (* the accumulators read through _compute = class means and pooled covariance by definition (Model/Template.v) *)
  && Template.mat_eqb P S (Template.spec_templates parts S brows) (fst TC)
  && Template.mat_eqb S S (Template.spec_cov parts S brows) (snd TC)
  && all2 P S (fun p s =>
       let q := Template.mget (fst TC) p s in
       let crows := filter (fun r => (lutz parts (nth 0 (snd r) 0) =? Z.of_nat p)) rows in
       let mag := (if Qc_eq_bool (Template.cnt st p) (Q2Qc 0) then Q2Qc 0
                   else col_abs e crows s / Template.qmax1 (Template.cnt st p))%Qc in
       fv_close (tol * mag + Q2Qc Template.tiny)%Qc (f2 (to_templates o) p s) q)
  && all2 S S (fun i j =>
       fv_close (tol * Template.cov_mag parts st i j + Q2Qc Template.tiny)%Qc (f2 (to_cov o) i j) (Template.mget (snd TC) i j)).

Definition tcase_check (c : tcase) : bool :=
  match all_rows (tc_batches c) with
  | [] => false
  | r0 :: _ =>
      let S := length (fst r0) in
      let P := length (tc_parts c) in
      let bs := map (tbatch_of (tc_exp c) (tc_parts c)) (tc_batches c) in
      let ex := exact_regime (tc_prec c) (tc_batches c) in
      negb (Nat.eqb S 0) && negb (Nat.eqb P 0) && rect_rows S 1 (tc_batches c)
      && negb (match tc_obs c with [] => true | _ => false end)
      && (negb ex || match tc_obs c with [_] => true | _ => false end)
      && forallb (tobs_ok c S P ex bs) (tc_obs c)
  end.

Definition tcase_expected (c : tcase) : bool * list (list Q) * list (list Q) :=
  match all_rows (tc_batches c) with
  | [] => (false, [], [])
  | r0 :: _ =>
      let S := length (fst r0) in
      let P := length (tc_parts c) in
      let bs := map (tbatch_of (tc_exp c) (tc_parts c)) (tc_batches c) in
      let TC := Template.comp (tc_parts c) S (tstate S P (tspec_total S P idq bs)) in
      (exact_regime (tc_prec c) (tc_batches c), map (map this) (fst TC), map (map this) (snd TC))
  end.

(* --------------------------------------------------------------- population / batch-size boundaries (run-length encoded batches) *)
(* A batch is a list of (row, multiplicity): the row repeated.  Class populations and batch sizes of thousands of traces stay
   small literals; the class sums are computed on the runs directly (weighted sums), which are the class sums of the expanded
   batch (Proofs/Kernels.v: rl_class_sum).  Exact regime only: every run of the real code must give the same bits. *)
Definition rlrow := (crow * positive)%type.
Definition expand_rl (rl : list rlrow) : list crow := flat_map (fun rc => repeat (fst rc) (Pos.to_nat (snd rc))) rl.
Definition wsum (g : crow -> Qc) (rl : list rlrow) : Qc := qsum (map (fun rc => (qz (Zpos (snd rc)) * g (fst rc))%Qc) rl).
Definition wsum_sq_z (rl : list rlrow) : Z :=
  fold_right (fun rc a => Zpos (snd rc) * fold_right (fun z a' => z * z + a') 0 (fst (fst rc)) + a) 0 rl.
Definition rl_exact (p : prec) (bs : list (list rlrow)) : bool := fold_right (fun b a => wsum_sq_z b + a) 0 bs <=? 2 ^ mant_of p.
Definition rl_len (rl : list rlrow) : Z := fold_right (fun rc a => Zpos (snd rc) + a) 0 rl.
Definition rl_rect (S W : nat) (bs : list (list rlrow)) : bool :=
  forallb (fun b => forallb (fun rc => Nat.eqb (length (fst (fst rc))) S && Nat.eqb (length (snd (fst rc))) W) b) bs.

(* weighted class sum of f(sample s) over the rows whose word w has class p *)
Definition rl_class_sum (e : Z) (parts : list Z) (f : Qc -> Qc) (w p s : nat) (rl : list rlrow) : Qc :=
  wsum (fun r => if (lutz parts (nth w (snd r) 0) =? Z.of_nat p) then f (scale_q e (nth s (fst r) 0)) else Q2Qc 0) rl.
Definition rl_total (e : Z) (parts : list Z) (f : Qc -> Qc) (w p s : nat) (bs : list (list rlrow)) : Qc :=
  qsum (map (rl_class_sum e parts f w p s) bs).
Definition one1 (x : Qc) : Qc := Q2Qc 1.

Record bpcase := {
  bp_prec : prec;
  bp_parts : list Z;
  bp_batches : list (list rlrow);
  bp_obs : list pobs                          (* po_result takes part in the grouping only (compute() is a function of the accumulators) *)
}.

Definition bpcase_check (c : bpcase) : bool :=
  match bp_batches c with
  | ((r0, _) :: _) :: _ =>
      let S := length (fst r0) in
      let W := length (snd r0) in
      let P := length (bp_parts c) in
      let parts := bp_parts c in
      let bs := bp_batches c in
      negb (Nat.eqb S 0) && negb (Nat.eqb W 0) && negb (Nat.eqb P 0) && rl_rect S W bs
      && rl_exact (bp_prec c) bs
      && match bp_obs c with
         | [o] =>
             negb (match po_runs o with [] => true | _ => false end)
             && forallb (krun_ok P (length bs)) (po_runs o)
             && shape2 (po_result o) W S && shape2 (po_cnt o) W P && shape3 (po_sum o) S W P && shape3 (po_sq o) S W P
             && all2 W P (fun w p => fv_exact (f2 (po_cnt o) w p) (rl_total 0 parts one1 w p 0%nat bs))
             && all3 S W P (fun s w p => fv_exact (f3 (po_sum o) s w p) (rl_total 0 parts idq w p s bs)
                                         && fv_exact (f3 (po_sq o) s w p) (rl_total 0 parts sqq w p s bs))
         | _ => false                          (* identical when all sums are exactly representable: ONE group *)
         end
  | _ => false
  end.

Record btcase := {
  bt_prec : prec;
  bt_parts : list Z;
  bt_batches : list (list rlrow);             (* one data word per row *)
  bt_obs : list tobs
}.

Definition rl_tcell (parts : list Z) (bs : list (list rlrow)) (c : tcell) : Qc :=
  match c with
  | TCnt p => rl_total 0 parts one1 0%nat p 0%nat bs
  | TExi p s => rl_total 0 parts idq 0%nat p s bs
  | TExxi p i j =>
      qsum (map (wsum (fun r => if (lutz parts (nth 0%nat (snd r) 0) =? Z.of_nat p)
                                then Qcmult (scale_q 0 (nth i (fst r) 0)) (scale_q 0 (nth j (fst r) 0)) else Q2Qc 0)) bs)
  end.

Definition btcase_check (c : btcase) : bool :=
  match bt_batches c with
  | ((r0, _) :: _) :: _ =>
      let S := length (fst r0) in
      let P := length (bt_parts c) in
      let parts := bt_parts c in
      let bs := bt_batches c in
      let st := tstate S P (rl_tcell parts bs) in
      let TC := Template.comp parts S st in
      let u := uq (bt_prec c) in
      negb (Nat.eqb S 0) && negb (Nat.eqb P 0) && rl_rect S 1 bs && rl_exact (bt_prec c) bs
      && match bt_obs c with
         | [o] =>
             negb (match to_runs o with [] => true | _ => false end)
             && forallb (fun r => Nat.eqb (length (kr_choices r)) (length bs) && list_eqb Bool.eqb (kr_log r) (kr_choices r)) (to_runs o)
             && shape2 (to_templates o) P S && shape2 (to_cov o) S S
             && all2 P S (fun p s => let q := Template.mget (fst TC) p s in
                                     fv_close (qz 4 * u * qabs q + Q2Qc Template.tiny)%Qc (f2 (to_templates o) p s) q)
             && all2 S S (fun i j => fv_close (qz 64 * u * Template.cov_mag parts st i j + Q2Qc Template.tiny)%Qc
                                              (f2 (to_cov o) i j) (Template.mget (snd TC) i j))
         | _ => false
         end
  | _ => false
  end.

(* --------------------------------------------------------------- thread counts: the t-test accumulator and the MIA distinguisher *)
(* one group of bit-identical observations with the numba thread counts that produced it *)
Record ttobs := {
  tt_threads : list nat;
  tt_n : Z;                                   (* processed_traces *)
  tt_sum : list fval; tt_sq : list fval;      (* .sum, .sum_squared *)
  tt_mean : list fval; tt_var : list fval     (* .mean, .var after compute() *)
}.
Record ttcase := {
  tt_prec : prec;
  tt_exp : Z;
  tt_batches : list (list (list Z));          (* the update() calls: rows of samples z, value z * 2^exp *)
  tt_obs : list ttobs
}.

Definition ttcase_check (c : ttcase) : bool :=
  let rows := concat (tt_batches c) in
  match rows with
  | [] => false
  | r0 :: _ =>
      let S := length r0 in
      let n := length rows in
      let e := tt_exp c in
      let crows := map (fun r => (r, @nil Z)) rows in
      let ex := exact_regime (tt_prec c) (map (map (fun r => (r, @nil Z))) (tt_batches c)) in
      let tol := (kfac n * uq (tt_prec c))%Qc in
      let nq := nat_q n in
      negb (Nat.eqb S 0) && forallb (fun r => Nat.eqb (length r) S) rows
      && negb (match tt_obs c with [] => true | _ => false end)
      && (negb ex || match tt_obs c with [_] => true | _ => false end)
      && forallb (fun o =>
           negb (match tt_threads o with [] => true | _ => false end)
           && (tt_n o =? Z.of_nat n)
           && Nat.eqb (length (tt_sum o)) S && Nat.eqb (length (tt_sq o)) S && Nat.eqb (length (tt_mean o)) S && Nat.eqb (length (tt_var o)) S
           && forallb (fun j =>
                let sx := qsum (map (fun r => scale_q e (nth j r 0)) rows) in
                let sxx := qsum (map (fun r => sqq (scale_q e (nth j r 0))) rows) in
                let ax := col_abs e crows j in
                let m := (sx / nq)%Qc in
                fv_ok ex (tol * ax)%Qc (nth j (tt_sum o) NaN) sx
                && fv_ok ex (tol * sxx)%Qc (nth j (tt_sq o) NaN) sxx
                && fv_close (tol * ax / nq + Q2Qc Template.tiny)%Qc (nth j (tt_mean o) NaN) m
                && fv_close (qz 2 * tol * sxx / nq + Q2Qc Template.tiny)%Qc (nth j (tt_var o) NaN) (sxx / nq - m * m)%Qc)
              (seq 0 S)) (tt_obs c)
  end.

Record miobs := {
  mi_threads : list nat;
  mi_acc : list (list (list (list fval)));    (* .accumulators [sample][bin][class][word] *)
  mi_result : list (list fval)                (* compute(): takes part in the grouping only *)
}.
Record micase := {
  mi_parts : list Z;
  mi_exp : Z;
  mi_edges : list Z;                          (* bin edges z * 2^exp *)
  mi_batches : list (list crow);
  mi_obs : list miobs
}.

Definition micase_check (c : micase) : bool :=
  let rows := all_rows (mi_batches c) in
  match rows with
  | [] => false
  | r0 :: _ =>
      let S := length (fst r0) in
      let W := length (snd r0) in
      let P := length (mi_parts c) in
      let e := mi_exp c in
      let edges := map (scale_q e) (mi_edges c) in
      let NB := Mia.nbins edges in
      negb (Nat.eqb S 0) && negb (Nat.eqb W 0) && negb (Nat.eqb P 0) && negb (Nat.eqb NB 0) && rect_rows S W (mi_batches c)
      && match mi_obs c with
         | [o] =>                               (* counts are integers: every thread count gives the same bits *)
             negb (match mi_threads o with [] => true | _ => false end)
             && Nat.eqb (length (mi_acc o)) S
             && forallb (fun a => Nat.eqb (length a) NB && forallb (fun b => shape2 b P W) a) (mi_acc o)
             && all2 S W (fun s w =>
                  let erows := map (fun r => (scale_q e (nth s (fst r) 0), nth w (snd r) 0)) rows in
                  (* Mia.hist_spec edges parts erows b k, the tags of the rows computed once *)
                  let tags := map (Mia.row_tag edges (mi_parts c)) erows in
                  all2 NB P (fun b k =>
                    fval_eq_z (nth w (nth k (nth b (nth s (mi_acc o) []) []) []) NaN) (Mia.count_tags tags b k)))
         | _ => false
         end
  end.

(* --------------------------------------------------------------- one case type for the harness *)
Inductive kcase := KP (c : pcase) | KT (c : tcase) | KBP (c : bpcase) | KBT (c : btcase) | KTT (c : ttcase) | KMI (c : micase).
Definition kcase_check (c : kcase) : bool :=
  match c with
  | KP c => pcase_check c | KT c => tcase_check c | KBP c => bpcase_check c | KBT c => btcase_check c
  | KTT c => ttcase_check c | KMI c => micase_check c
  end.
Inductive kexpected :=
| EP (exact : bool) (counters : list (list Q)) (sum_sumsq : list (list (list (Q * Q))))
| ET (exact : bool) (templates cov : list (list Q))
| EBP (exact : bool) (counters : list (list Q)) (sum_sumsq : list (list (list (Q * Q))))
| EBT (exact : bool) (counters : list Q) (templates cov : list (list Q))
| ETT (exact : bool) (sum_sumsq : list (Q * Q))
| EMI (hist : list (list (list (list Z)))).
Definition kcase_expected (c : kcase) : kexpected :=
  match c with
  | KP c => let '(ex, cn, ss) := pcase_expected c in EP ex cn ss
  | KT c => let '(ex, t, cv) := tcase_expected c in ET ex t cv
  | KBP c =>
      match bp_batches c with
      | ((r0, _) :: _) :: _ =>
          let S := length (fst r0) in let W := length (snd r0) in let P := length (bp_parts c) in
          EBP (rl_exact (bp_prec c) (bp_batches c))
              (map (fun w => map (fun p => this (rl_total 0 (bp_parts c) one1 w p 0%nat (bp_batches c))) (seq 0 P)) (seq 0 W))
              (map (fun s => map (fun w => map (fun p => (this (rl_total 0 (bp_parts c) idq w p s (bp_batches c)),
                                                          this (rl_total 0 (bp_parts c) sqq w p s (bp_batches c)))) (seq 0 P)) (seq 0 W)) (seq 0 S))
      | _ => EBP false [] []
      end
  | KBT c =>
      match bt_batches c with
      | ((r0, _) :: _) :: _ =>
          let S := length (fst r0) in let P := length (bt_parts c) in
          let sp := rl_tcell (bt_parts c) (bt_batches c) in
          let TC := Template.comp (bt_parts c) S (tstate S P sp) in
          EBT (rl_exact (bt_prec c) (bt_batches c)) (map (fun p => this (sp (TCnt p))) (seq 0 P)) (map (map this) (fst TC)) (map (map this) (snd TC))
      | _ => EBT false [] [] []
      end
  | KTT c =>
      let rows := concat (tt_batches c) in
      let S := match rows with r0 :: _ => length r0 | [] => 0%nat end in
      ETT (exact_regime (tt_prec c) (map (map (fun r => (r, @nil Z))) (tt_batches c)))
          (map (fun j => (this (qsum (map (fun r => scale_q (tt_exp c) (nth j r 0)) rows)),
                          this (qsum (map (fun r => sqq (scale_q (tt_exp c) (nth j r 0))) rows)))) (seq 0 S))
  | KMI c =>
      let rows := all_rows (mi_batches c) in
      match rows with
      | [] => EMI []
      | r0 :: _ =>
          let edges := map (scale_q (mi_exp c)) (mi_edges c) in
          EMI (map (fun s => map (fun w =>
                 let erows := map (fun r => (scale_q (mi_exp c) (nth s (fst r) 0), nth w (snd r) 0)) rows in
                 map (fun b => map (fun k => Mia.hist_spec edges (mi_parts c) erows b k) (seq 0 (length (mi_parts c)))) (seq 0 (Mia.nbins edges)))
                 (seq 0 (length (snd r0)))) (seq 0 (length (fst r0))))
      end
  end.
