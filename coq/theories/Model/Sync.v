(* Model/Sync.v — spec and impl-model of scared/synchronization.py : Synchronizer (property C20).
   Executable definitions only; proofs are in Proofs/Sync.v.

   A trace is a pair (metadata, samples).  The user's synchronisation function is external behaviour: it is a
   Section variable [f : nat -> M * X -> outcome D] giving, for the i-th call made on it since the object was built
   (0-based; calls made by check() count) on trace t, what the call does: return data, return None, or raise an
   Exception.  Making the call number an argument covers stateful user functions; every theorem holds for ALL such [f].

   The object is a state machine over the PUBLIC calls: construction (over an output file that may already exist, with
   overwrite False/True), any number of check(nb_traces, catch_exceptions) and report()/str() calls, run(), run() again.

   The ETS writer is modelled as far as run() can observe it: the file on disk (absent, or a list of rows), the
   lazy opening on the first write (overwrite=True resets the file there), the refusal of a write at an existing index
   when overwrite=False (ETSWriterError, which is NOT caught by run()), and the resize to index + 1. *)
From Coq Require Import ZArith List Bool Lia.
From ScaredV Require Import Run.Compare.
Import ListNotations.
Local Open Scope nat_scope.

Inductive outcome (D : Type) := Accept (d : D) | ReturnNone | Raise.
Arguments Accept {D} d.
Arguments ReturnNone {D}.
Arguments Raise {D}.

(* ---------------------------------------------------------------- _ErrorCounter (consecutive failures -> warning) *)
Record errc := { e_limit : nat; e_last : nat; e_count : nat; e_warn : nat }.
Definition errc0 : errc := {| e_limit := 8; e_last := 0; e_count := 0; e_warn := 0 |}.
Definition error_occur (e : errc) (id : nat) : errc :=
  let c := if Nat.eqb id (S (e_last e)) then S (e_count e) else 1 in
  if Nat.leb (e_limit e) c
  then {| e_limit := 2 * e_limit e; e_last := id; e_count := c; e_warn := S (e_warn e) |}
  else {| e_limit := e_limit e; e_last := id; e_count := c; e_warn := e_warn e |}.

(* ---------------------------------------------------------------- the output writer (estraces ETSWriter, as seen by run) *)
Section Writer.
  Variable E : Type.                             (* one row of the file: (metadata, data) *)

  Record writer := {
    ovw : bool;                                  (* overwrite *)
    opened : bool;                               (* _is_init: the h5 file has been opened (first write) *)
    disk : option (list (option E))              (* the file: None = does not exist; a row None = zero-filled gap *)
  }.

  (* ETSWriter(filename, overwrite): nothing is touched at construction *)
  Definition new_writer (old : option (list E)) (o : bool) : writer :=
    {| ovw := o; opened := false; disk := option_map (map Some) old |}.

  (* _init_file, on the first write: overwrite=True removes an existing file; otherwise the file is opened in append mode
     (created empty when absent) *)
  Definition w_open (w : writer) : writer :=
    if opened w then w
    else {| ovw := ovw w; opened := true;
            disk := if ovw w then Some [] else Some (match disk w with Some r => r | None => [] end) |}.

  Definition w_rows (w : writer) : list (option E) := match disk w with Some r => r | None => [] end.

  (* _write_to_data_set: the dataset is resized to index + 1 when index is beyond its end (gap rows are zero-filled) *)
  Definition set_row (rows : list (option E)) (idx : nat) (v : option E) : list (option E) :=
    if idx <? length rows then firstn idx rows ++ v :: skipn (S idx) rows
    else rows ++ repeat None (idx - length rows) ++ [v].

  (* write_trace_object_and_points(trace_object, points, index): (writer afterwards, true) or (writer, false) when
     ETSWriterError is raised: "An element already exists ... at index and overwriting is disabled" *)
  Definition w_write (w : writer) (idx : nat) (e : E) : writer * bool :=
    let w1 := w_open w in
    if (idx <? length (w_rows w1)) && negb (ovw w1) then (w1, false)
    else ({| ovw := ovw w1; opened := true; disk := Some (set_row (w_rows w1) idx (Some e)) |}, true).

  (* close(); get_reader(): the rows of the file, None = the file does not exist (AttributeError: no output set) *)
  Definition w_reader (w : writer) : option (list (option E)) := disk w.
End Writer.

Arguments ovw {E} w.
Arguments opened {E} w.
Arguments disk {E} w.
Arguments new_writer {E} old o.
Arguments w_open {E} w.
Arguments w_rows {E} w.
Arguments set_row {E} rows idx v.
Arguments w_write {E} w idx e.
Arguments w_reader {E} w.

(* a pre-existing file that makes the first write (index 0) collide: it exists, has rows, and overwrite is False *)
Definition blocking {E} (old : option (list E)) (o : bool) : bool :=
  negb o && match old with Some (_ :: _) => true | _ => false end.

Section Sync.
  Variables (M X D : Type).
  Variable f : nat -> M * X -> outcome D.

  (* ---------------------------------------------------------------- spec: the accepted traces, in input order *)
  (* [i] = number of the call made on the first trace of [input] *)
  Fixpoint accepted_from (i : nat) (input : list (M * X)) : list (M * D) :=
    match input with
    | [] => []
    | t :: r => match f i t with
                | Accept d => (fst t, d) :: accepted_from (S i) r
                | _ => accepted_from (S i) r
                end
    end.
  Definition accepted (input : list (M * X)) : list (M * D) := accepted_from 0 input.

  (* number of traces rejected before the first accepted one *)
  Fixpoint rejected_prefix (i : nat) (input : list (M * X)) : nat :=
    match input with
    | [] => 0
    | t :: r => match f i t with Accept _ => 0 | _ => S (rejected_prefix (S i) r) end
    end.

  (* ---------------------------------------------------------------- impl-model: the object's state *)
  Record sstate := {
    processed : nat;                      (* processed_counter *)
    synchronized : nat;                   (* synchronized_counter *)
    writes : list (nat * (M * D));        (* write requests honoured by the writer, in order (ghost log) *)
    errs : option errc;                   (* _err_counter : None until run() is called = the single-use guard *)
    calls : nat;                          (* ghost: number of calls made on the user function so far *)
    out : writer (M * D)                  (* self.output *)
  }.

  (* Synchronizer(input_ths, output, function, overwrite) with [old] = content of the file [output] if it exists *)
  Definition construct (old : option (list (M * D))) (o : bool) : sstate :=
    {| processed := 0; synchronized := 0; writes := []; errs := None; calls := 0; out := new_writer old o |}.
  Definition fresh : sstate := construct None false.

  (* ---------------------------------------------------------------- run() *)
  Inductive flow := Go (st : sstate) | Stop (st : sstate).

  (* one iteration of the for loop.  Order of the code: synchronized_counter += 1 (try), processed_counter += 1
     (finally), then the write, outside the try: an ETSWriterError leaves the loop and run() *)
  Definition step (st : sstate) (t : M * X) : flow :=
    match f (calls st) t with
    | Accept d =>
        let sc := S (synchronized st) in
        let wr := w_write (out st) (sc - 1) (fst t, d) in
        if snd wr
        then Go {| processed := S (processed st); synchronized := sc; writes := writes st ++ [(sc - 1, (fst t, d))];
                   errs := errs st; calls := S (calls st); out := fst wr |}
        else Stop {| processed := S (processed st); synchronized := sc; writes := writes st;
                     errs := errs st; calls := S (calls st); out := fst wr |}
    | _ =>
        Go {| processed := S (processed st); synchronized := synchronized st; writes := writes st;
              errs := option_map (fun e => error_occur e (processed st)) (errs st);
              calls := S (calls st); out := out st |}
    end.

  Fixpoint loop (st : sstate) (input : list (M * X)) : flow :=
    match input with
    | [] => Go st
    | t :: r => match step st t with
                | Go st1 => loop st1 r
                | Stop st1 => Stop st1
                end
    end.

  Inductive run_result :=
  | RunRefused                        (* SynchronizerError: run() was already called; nothing changes *)
  | RunWriterError (st' : sstate)     (* ETSWriterError escaped from the loop; st' is the object left behind *)
  | RunDone (st' : sstate).           (* loop finished; run() then returns output.get_reader() = w_reader (out st') *)

  Definition arm (st : sstate) : sstate :=
    {| processed := processed st; synchronized := synchronized st; writes := writes st;
       errs := Some errc0; calls := calls st; out := out st |}.

  Definition run (st : sstate) (input : list (M * X)) : run_result :=
    match errs st with
    | Some _ => RunRefused
    | None => match loop (arm st) input with
              | Go st' => RunDone st'
              | Stop st' => RunWriterError st'
              end
    end.

  (* ---------------------------------------------------------------- check() and report() / str() *)
  (* check(nb_traces, catch_exceptions): [picks] = the indexes drawn by np.random.choice (external: any list).
     The function is called on the picked traces; results are collected in a LOCAL list; with catch_exceptions=False
     the first rejected trace makes check() leave by exception.  Nothing of the object is written. *)
  Inductive check_result (R : Type) := CheckReturned (res : list R) | CheckRaised.
  Arguments CheckReturned {R} res.
  Arguments CheckRaised {R}.

  Fixpoint check_loop (c : nat) (input : list (M * X)) (picks : list nat) (catch : bool) (acc : list (option D))
    : nat * check_result (option D) :=
    match picks with
    | [] => (c, CheckReturned acc)
    | p :: r =>
        match nth_error input p with
        | None => (c, CheckRaised)
        | Some t =>
            match f c t with
            | Accept d => check_loop (S c) input r catch (acc ++ [Some d])
            | ReturnNone => if catch then check_loop (S c) input r catch (acc ++ [None]) else (S c, CheckRaised)
            | Raise => if catch then check_loop (S c) input r catch acc else (S c, CheckRaised)
            end
        end
    end.

  Definition set_calls (st : sstate) (c : nat) : sstate :=
    {| processed := processed st; synchronized := synchronized st; writes := writes st;
       errs := errs st; calls := c; out := out st |}.

  (* the sub-set input_ths[picks] is built before any call: an impossible index (or no index at all: estraces refuses
     an empty selection) raises before the function is called *)
  Definition check (st : sstate) (input : list (M * X)) (picks : list nat) (catch : bool)
    : check_result (option D) * sstate :=
    match picks with
    | [] => (CheckRaised, st)
    | _ => if forallb (fun p => p <? length input) picks
           then let r := check_loop (calls st) input picks catch [] in (snd r, set_calls st (fst r))
           else (CheckRaised, st)
    end.

  (* str(self): the two counters, or ZeroDivisionError (None) while processed_counter = 0 *)
  Definition report (st : sstate) : option (nat * nat) :=
    if processed st =? 0 then None else Some (processed st, synchronized st).

  Inductive event := EvCheck (picks : list nat) (catch : bool) | EvReport.
  Inductive ev_result := ErCheck (r : check_result (option D)) | ErReport (r : option (nat * nat)).

  Definition exec_event (st : sstate) (input : list (M * X)) (ev : event) : ev_result * sstate :=
    match ev with
    | EvCheck picks catch => let r := check st input picks catch in (ErCheck (fst r), snd r)
    | EvReport => (ErReport (report st), st)
    end.

  (* a history of public calls before run(); the states after each event are kept (observable counters) *)
  Fixpoint exec_history (st : sstate) (input : list (M * X)) (evs : list event) : list (ev_result * sstate) * sstate :=
    match evs with
    | [] => ([], st)
    | ev :: r => let a := exec_event st input ev in
                 let b := exec_history (snd a) input r in
                 (a :: fst b, snd b)
    end.
  Definition after_history (st : sstate) (input : list (M * X)) (evs : list event) : sstate :=
    snd (exec_history st input evs).

  (* ---------------------------------------------------------------- reading the ghost log as a file *)
  (* content of index j : the last write request at that index *)
  Fixpoint store_get (w : list (nat * (M * D))) (j : nat) : option (M * D) :=
    match w with
    | [] => None
    | (k, e) :: r => match store_get r j with
                     | Some e' => Some e'
                     | None => if Nat.eqb k j then Some e else None
                     end
    end.
  (* number of rows of the file: 1 + the largest index written (the writer resizes the datasets to index + 1) *)
  Definition store_size (w : list (nat * (M * D))) : nat := fold_right (fun p a => Nat.max (S (fst p)) a) 0 w.
  Definition store_rows (w : list (nat * (M * D))) : list (option (M * D)) :=
    map (store_get w) (seq 0 (store_size w)).

  (* the state without the ghost call counter: everything a user can observe of the object *)
  Definition visible (st : sstate) := (processed st, synchronized st, writes st, errs st, out st).
End Sync.

Arguments processed {M D} s.
Arguments synchronized {M D} s.
Arguments writes {M D} s.
Arguments errs {M D} s.
Arguments calls {M D} s.
Arguments out {M D} s.
Arguments construct {M D} old o.
Arguments fresh {M D}.
Arguments arm {M D} st.
Arguments set_calls {M D} st c.
Arguments report {M D} st.
Arguments visible {M D} st.
Arguments store_get {M D} w j.
Arguments store_size {M D} w.
Arguments store_rows {M D} w.
Arguments Go {M D} st.
Arguments Stop {M D} st.
Arguments RunRefused {M D}.
Arguments RunWriterError {M D} st'.
Arguments RunDone {M D} st'.
Arguments CheckReturned {R} res.
Arguments CheckRaised {R}.
Arguments ErCheck {D} r.
Arguments ErReport {D} r.

(* ---------------------------------------------------------------- correspondence cases *)
Definition zrow := (list Z * list Z)%type.
Definition zrow_eqb (a b : zrow) : bool := zlist_eqb (fst a) (fst b) && zlist_eqb (snd a) (snd b).

(* what one pre-run event was observed to do, and the public counters read just after it *)
Inductive ev_obs :=
| ObsCheck (returned : option (list (option (list Z)))) (p s : nat)   (* None: check() left by exception *)
| ObsReport (r : option (nat * nat)) (p s : nat).                     (* None: str() raised ZeroDivisionError *)

Inductive run_obs := ObsReturned | ObsNoOutputSet | ObsWriterError | ObsRefused | ObsOther.

Record sync_case := {
  sy_input : list zrow;                       (* (metadata values, samples) of every input trace *)
  sy_pattern : list (outcome (list Z));       (* what the scripted user function does at its i-th call (check() included) *)
  sy_old : option (list zrow);                (* rows of the output file as it was before the object was built; None: no file *)
  sy_overwrite : bool;
  sy_history : list event;                    (* public calls made before run() *)
  sy_obs_history : list ev_obs;               (* what each of them did *)
  sy_obs_seen : list zrow;                    (* (metadata, samples) of the trace_object received by each call, all calls *)
  sy_obs_run : run_obs;                       (* how the first run() ended *)
  sy_obs_processed : nat;
  sy_obs_synchronized : nat;
  sy_obs_report : option (nat * nat);         (* the counters printed by str() after run(); None: ZeroDivisionError *)
  sy_obs_warnings : nat;                      (* "consecutive traces" UserWarnings emitted during run() *)
  sy_obs_rows : option (list zrow);           (* rows read back (returned reader, or the file on disk after an error); None: no file *)
  sy_obs_second_refused : bool                (* a second run() raised SynchronizerError and changed nothing *)
}.

Definition sy_fun (c : sync_case) : nat -> zrow -> outcome (list Z) := fun i _ => nth i (sy_pattern c) Raise.

Definition orow_eqb : option zrow -> option zrow -> bool := option_eqb zrow_eqb.
Definition rows_eqb (a b : option (list (option zrow))) : bool := option_eqb (list_eqb orow_eqb) a b.
Definition counters_eqb (a b : option (nat * nat)) : bool :=
  option_eqb (fun x y => Nat.eqb (fst x) (fst y) && Nat.eqb (snd x) (snd y)) a b.
Definition odata_eqb : option (list Z) -> option (list Z) -> bool := option_eqb zlist_eqb.

(* number of calls the model makes during the history, and the traces they are made on *)
Definition sy_start (c : sync_case) : sstate (list Z) (list Z) := construct (sy_old c) (sy_overwrite c).
Definition sy_pre (c : sync_case) : sstate (list Z) (list Z) :=
  after_history _ _ _ (sy_fun c) (sy_start c) (sy_input c) (sy_history c).

(* ---- SPEC side: what the property demands, computed without the state machine.
   c0 calls were made by check(); the run handles the input from call c0 on; [acc] = the accepted traces.
   Unless the pre-existing file blocks (overwrite=False over a non-empty file: run() must then fail with the writer's
   error on the first accepted trace and leave the file alone), run() completes, counters are (n, |acc|), and the
   output set holds exactly acc; when nothing was accepted nothing is written and whatever was there is still there. *)
Record sync_spec := {
  sp_run : run_obs; sp_processed : nat; sp_synchronized : nat; sp_rows : option (list (option zrow))
}.
Definition sync_expected_from (c : sync_case) (c0 : nat) : sync_spec :=
  let acc := accepted_from _ _ _ (sy_fun c) c0 (sy_input c) in
  let oldrows := option_map (map Some) (sy_old c) in
  match acc with
  | [] => {| sp_run := match sy_old c with None => ObsNoOutputSet | Some _ => ObsReturned end;
             sp_processed := length (sy_input c); sp_synchronized := 0; sp_rows := oldrows |}
  | _ => if blocking (sy_old c) (sy_overwrite c)
         then {| sp_run := ObsWriterError; sp_processed := S (rejected_prefix _ _ _ (sy_fun c) c0 (sy_input c));
                 sp_synchronized := 1; sp_rows := oldrows |}
         else {| sp_run := ObsReturned; sp_processed := length (sy_input c); sp_synchronized := length acc;
                 sp_rows := Some (map Some acc) |}
  end.
Definition sync_expected (c : sync_case) : sync_spec := sync_expected_from c (calls (sy_pre c)).

Definition run_obs_eqb (a b : run_obs) : bool :=
  match a, b with
  | ObsReturned, ObsReturned | ObsNoOutputSet, ObsNoOutputSet | ObsWriterError, ObsWriterError
  | ObsRefused, ObsRefused | ObsOther, ObsOther => true
  | _, _ => false
  end.

(* ---- the pre-run history: every event does what the model says, and the public counters stay 0 / 0 *)
Definition ev_check (m : ev_result (list Z) * sstate (list Z) (list Z)) (o : ev_obs) : bool :=
  match fst m, o with
  | ErCheck (CheckReturned res), ObsCheck (Some res') p s =>
      list_eqb odata_eqb res res' && Nat.eqb p 0 && Nat.eqb s 0
  | ErCheck CheckRaised, ObsCheck None p s => Nat.eqb p 0 && Nat.eqb s 0
  | ErReport r, ObsReport r' p s => counters_eqb r r' && Nat.eqb p 0 && Nat.eqb s 0
  | _, _ => false
  end.

(* the traces handed to the function: during check() any traces of the input set (the model is given the picks and
   says which), during run() every input trace once, in order *)
Fixpoint seen_by_history (st : sstate (list Z) (list Z)) (c : sync_case) (evs : list event) : list (option zrow) :=
  match evs with
  | [] => []
  | ev :: r =>
      let st1 := snd (exec_event _ _ _ (sy_fun c) st (sy_input c) ev) in
      match ev with
      | EvCheck picks _ => map (nth_error (sy_input c)) (firstn (calls st1 - calls st) picks)
      | EvReport => []
      end ++ seen_by_history st1 c r
  end.

Definition sync_check (c : sync_case) : bool :=
  let f := sy_fun c in
  let hist := exec_history _ _ _ f (sy_start c) (sy_input c) (sy_history c) in
  let pre := snd hist in
  let spec := sync_expected c in
  let ncalls_run := match sp_run spec with ObsWriterError => sp_processed spec | _ => length (sy_input c) end in
  (* the script covers every call *)
  Nat.leb (calls pre + length (sy_input c)) (length (sy_pattern c))
  (* history *)
  && forallb2 ev_check (fst hist) (sy_obs_history c)
  && list_eqb orow_eqb (map Some (sy_obs_seen c))
       (seen_by_history (sy_start c) c (sy_history c) ++ map Some (firstn ncalls_run (sy_input c)))
  (* spec *)
  && run_obs_eqb (sy_obs_run c) (sp_run spec)
  && Nat.eqb (sy_obs_processed c) (sp_processed spec)
  && Nat.eqb (sy_obs_synchronized c) (sp_synchronized spec)
  && rows_eqb (option_map (map Some) (sy_obs_rows c)) (sp_rows spec)
  && sy_obs_second_refused c
  (* impl-model *)
  && match run _ _ _ f pre (sy_input c) with
     | RunRefused => false
     | RunWriterError st =>
         run_obs_eqb (sy_obs_run c) ObsWriterError
         && Nat.eqb (sy_obs_processed c) (processed st)
         && Nat.eqb (sy_obs_synchronized c) (synchronized st)
         && counters_eqb (sy_obs_report c) (report st)
         && rows_eqb (option_map (map Some) (sy_obs_rows c)) (disk (out st))
         && Nat.eqb (sy_obs_warnings c) (match errs st with Some e => e_warn e | None => 0 end)
         && match run _ _ _ f st (sy_input c) with RunRefused => true | _ => false end
     | RunDone st =>
         run_obs_eqb (sy_obs_run c) (match w_reader (out st) with Some _ => ObsReturned | None => ObsNoOutputSet end)
         && Nat.eqb (sy_obs_processed c) (processed st)
         && Nat.eqb (sy_obs_synchronized c) (synchronized st)
         && counters_eqb (sy_obs_report c) (report st)
         && rows_eqb (option_map (map Some) (sy_obs_rows c)) (w_reader (out st))
         && Nat.eqb (sy_obs_warnings c) (match errs st with Some e => e_warn e | None => 0 end)
         && match run _ _ _ f st (sy_input c) with RunRefused => true | _ => false end
     end.
