(* Model/Sync.v — spec and impl-model of scared/synchronization.py : Synchronizer.run (property C20).
   Executable definitions only; proofs are in Proofs/Sync.v.

   A trace is a pair (metadata, samples).  The user's synchronisation function is external behaviour: it is a
   Section variable [f : nat -> M * X -> outcome D] giving, for the i-th call (0-based, = position of the trace in
   the input set) on trace t, what the call does: return data, return None, or raise an Exception.  Making the
   call number an argument covers stateful user functions; every theorem holds for ALL such [f].

   The ETS writer is abstract: a log of (index, (metadata, data)) write requests, read through [store_get]. *)
From Coq Require Import ZArith List Bool Lia.
From ScaredV Require Import Run.Compare.
Import ListNotations.
Local Open Scope nat_scope.

Inductive outcome (D : Type) := Accept (d : D) | ReturnNone | Raise.
Arguments Accept {D} d.
Arguments ReturnNone {D}.
Arguments Raise {D}.

(* ---------------------------------------------------------------- _ErrorCounter (consecutive failures -> warning) *)
Record errc := { e_limit : nat; e_last : nat; e_count : nat; e_warn : nat }.
Definition errc0 : errc := {| e_limit := 8; e_last := 0; e_count := 0; e_warn := 0 |}.
Definition error_occur (e : errc) (id : nat) : errc :=
  let c := if Nat.eqb id (S (e_last e)) then S (e_count e) else 1 in
  if Nat.leb (e_limit e) c
  then {| e_limit := 2 * e_limit e; e_last := id; e_count := c; e_warn := S (e_warn e) |}
  else {| e_limit := e_limit e; e_last := id; e_count := c; e_warn := e_warn e |}.

Section Sync.
  Variables (M X D : Type).
  Variable f : nat -> M * X -> outcome D.

  (* ---------------------------------------------------------------- spec: the accepted traces, in input order *)
  Fixpoint accepted_from (i : nat) (input : list (M * X)) : list (M * D) :=
    match input with
    | [] => []
    | t :: r => match f i t with
                | Accept d => (fst t, d) :: accepted_from (S i) r
                | _ => accepted_from (S i) r
                end
    end.
  Definition accepted (input : list (M * X)) : list (M * D) := accepted_from 0 input.

  (* ---------------------------------------------------------------- impl-model: the object's state and run() *)
  Record sstate := {
    processed : nat;                      (* processed_counter *)
    synchronized : nat;                   (* synchronized_counter *)
    writes : list (nat * (M * D));        (* write_trace_object_and_points(trace_object, points, index) calls, in order *)
    errs : option errc                    (* _err_counter : None until run() is called *)
  }.
  Definition fresh : sstate := {| processed := 0; synchronized := 0; writes := []; errs := None |}.

  (* one iteration of the for loop on trace number i *)
  Definition step (st : sstate) (i : nat) (t : M * X) : sstate :=
    match f i t with
    | Accept d =>
        let sc := S (synchronized st) in
        {| processed := S (processed st); synchronized := sc;
           writes := writes st ++ [(sc - 1, (fst t, d))]; errs := errs st |}
    | _ =>
        {| processed := S (processed st); synchronized := synchronized st; writes := writes st;
           errs := option_map (fun e => error_occur e (processed st)) (errs st) |}
    end.

  Fixpoint loop (st : sstate) (i : nat) (input : list (M * X)) : sstate :=
    match input with
    | [] => st
    | t :: r => loop (step st i t) (S i) r
    end.

  (* run(): None = SynchronizerError (already called) *)
  Definition run (st : sstate) (input : list (M * X)) : option sstate :=
    match errs st with
    | Some _ => None
    | None => Some (loop {| processed := processed st; synchronized := synchronized st; writes := writes st;
                            errs := Some errc0 |} 0 input)
    end.

  (* ---------------------------------------------------------------- the abstract store *)
  (* content of index j : the last write request at that index *)
  Fixpoint store_get (w : list (nat * (M * D))) (j : nat) : option (M * D) :=
    match w with
    | [] => None
    | (k, e) :: r => match store_get r j with
                     | Some e' => Some e'
                     | None => if Nat.eqb k j then Some e else None
                     end
    end.
  (* number of rows of the file: 1 + the largest index written (the writer resizes the datasets to index + 1) *)
  Definition store_size (w : list (nat * (M * D))) : nat := fold_right (fun p a => Nat.max (S (fst p)) a) 0 w.
  Definition store_rows (w : list (nat * (M * D))) : list (option (M * D)) :=
    map (store_get w) (seq 0 (store_size w)).
End Sync.

Arguments processed {M D} s.
Arguments synchronized {M D} s.
Arguments writes {M D} s.
Arguments errs {M D} s.
Arguments fresh {M D}.
Arguments store_get {M D} w j.
Arguments store_size {M D} w.
Arguments store_rows {M D} w.

(* ---------------------------------------------------------------- correspondence cases *)
Definition zrow := (list Z * list Z)%type.
Definition zrow_eqb (a b : zrow) : bool := zlist_eqb (fst a) (fst b) && zlist_eqb (snd a) (snd b).

Record sync_case := {
  sy_input : list zrow;                       (* (metadata values, samples) of every input trace *)
  sy_pattern : list (outcome (list Z));       (* what the scripted user function does at its i-th call *)
  sy_obs_seen : list zrow;                    (* (metadata, samples) of the trace_object received by each call *)
  sy_obs_processed : nat;
  sy_obs_synchronized : nat;
  sy_obs_rows : option (list zrow);           (* (metadata, samples) rows read back from the ETS; None: no output set *)
  sy_obs_second_refused : bool                (* a second run() raised SynchronizerError and changed nothing *)
}.

Definition sy_fun (c : sync_case) : nat -> zrow -> outcome (list Z) := fun i _ => nth i (sy_pattern c) Raise.

Definition sync_expected (c : sync_case) : list zrow := accepted _ _ _ (sy_fun c) (sy_input c).

Definition sync_check (c : sync_case) : bool :=
  let spec := sync_expected c in
  Nat.eqb (length (sy_pattern c)) (length (sy_input c))
  && list_eqb zrow_eqb (sy_obs_seen c) (sy_input c)
  && Nat.eqb (sy_obs_processed c) (length (sy_input c))
  && Nat.eqb (sy_obs_synchronized c) (length spec)
  && sy_obs_second_refused c
  && match sy_obs_rows c with
     | Some rows => list_eqb zrow_eqb rows spec
     | None => match spec with [] => true | _ => false end
     end
  && match run _ _ _ (sy_fun c) fresh (sy_input c) with
     | None => false
     | Some st =>
         Nat.eqb (sy_obs_processed c) (processed st)
         && Nat.eqb (sy_obs_synchronized c) (synchronized st)
         && match sy_obs_rows c with
            | Some rows => list_eqb (option_eqb zrow_eqb) (store_rows (writes st)) (map Some rows)
            | None => match writes st with [] => true | _ => false end
            end
         && match run _ _ _ (sy_fun c) st (sy_input c) with None => true | Some _ => false end
     end.
