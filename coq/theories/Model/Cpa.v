(* Model/Cpa.v — spec and impl-model of scared/distinguishers/cpa.py and dpa.py (property C03), the (word dims, sample)
   layout of base.py, and the correspondence check.  Executable definitions only; proofs are in Proofs/Cpa.v.

   Everything statistical is per ENTRY: one (word, sample) pair, i.e. the list of observations (x_t, y_t) over the
   processed traces t, x_t = the sample of trace t, y_t = the word (CPA) or the bit (DPA) of trace t.  The (D, S) table the
   code returns is the map of the per-entry function over all pairs ([table2d]); numpy's reshapes are [linearise] /
   [result_nd].  Square roots never appear: a correlation  num / (sqrt dx * sqrt dy)  is the triple (num, dx, dy). *)
From Coq Require Import ZArith QArith Qcanon List Bool Lia.
From ScaredV Require Import Lib.QcSum Lib.Arr Run.Compare Model.Accum.
Import ListNotations.
Open Scope Qc_scope.

Definition qc0 (a : Qc) : bool := Qeq_bool a 0%Q.            (* a = 0 *)

(* ================================================================ SPEC *)
Definition obs := (Qc * Qc)%type.                 (* (sample value, word value) of one trace *)
Definition triple := (Qc * Qc * Qc)%type.         (* (num, dx, dy)  stands for  num / sqrt (dx * dy) *)

(* Pearson: r = sum (x - mean x)(y - mean y) / sqrt (sum (x - mean x)^2 * sum (y - mean y)^2); undefined when a
   spread is zero. *)
Definition pearson_triple (l : list obs) : triple := (scd l, ssd (map fst l), ssd (map snd l)).
Definition pearson (l : list obs) : option triple :=
  let dx := ssd (map fst l) in let dy := ssd (map snd l) in
  if qc0 dx || qc0 dy then None else Some (scd l, dx, dy).

(* two triples with positive spreads denote the same real number num / sqrt (dx dy):
   cross-multiplied squares agree and the numerators have the same sign *)
Definition same_r (t t' : triple) : Prop :=
  let '(num, dx, dy) := t in let '(num', dx', dy') := t' in
  sq num' * (dx * dy) = sq num * (dx' * dy') /\ (0 < num' <-> 0 < num) /\ (num' < 0 <-> num < 0).

Definition scale3 (c : Qc) (t : triple) : triple := let '(num, dx, dy) := t in (c * num, c * dx, c * dy).

(* DPA: mean of the traces whose bit is 1 minus mean of the traces whose bit is 0; undefined when a class is empty *)
Definition dobs := (Qc * bool)%type.              (* (sample value, bit) of one trace *)
Definition ones (l : list dobs) : list Qc := map fst (filter (fun p => snd p) l).
Definition zeros (l : list dobs) : list Qc := map fst (filter (fun p => negb (snd p)) l).
Definition dpa_spec (l : list dobs) : option Qc :=
  match ones l, zeros l with
  | [], _ => None
  | _, [] => None
  | o, z => Some (qmean o - qmean z)
  end.

(* all elements equal *)
Definition constant {A} (l : list A) : Prop := forall a b, In a l -> In b l -> a = b.

(* ================================================================ IMPL-MODEL: accumulators (shape of Model/Accum.v) *)
(* running minimum / maximum (numpy minimum / maximum on a column); [None] = no row seen yet (self._extrema = None) *)
Definition qmin (a b : Qc) : Qc := if Qle_bool a b then a else b.
Definition qmax (a b : Qc) : Qc := if Qle_bool a b then b else a.
Definition omerge (f : Qc -> Qc -> Qc) (a b : option Qc) : option Qc :=
  match a, b with
  | None, _ => b
  | _, None => a
  | Some u, Some v => Some (f u v)
  end.
Definition omin (l : list Qc) : option Qc := fold_right (fun x a => omerge qmin (Some x) a) None l.
Definition omax (l : list Qc) : option Qc := fold_right (fun x a => omerge qmax (Some x) a) None l.

(* CPA (standard and alternative share the accumulators): n, ex, ex2, ey, ey2, exy and the extrema
   (x_min, x_max, y_min, y_max) of cpa.py for one entry *)
Record cst := mk_cst { c_n : Qc; c_sx : Qc; c_sxx : Qc; c_sy : Qc; c_syy : Qc; c_sxy : Qc;
                       c_xmin : option Qc; c_xmax : option Qc; c_ymin : option Qc; c_ymax : option Qc }.
Definition cst_zero : cst := mk_cst 0 0 0 0 0 0 None None None None.
Definition cst_plus (a b : cst) : cst :=
  mk_cst (c_n a + c_n b) (c_sx a + c_sx b) (c_sxx a + c_sxx b) (c_sy a + c_sy b) (c_syy a + c_syy b) (c_sxy a + c_sxy b)
         (omerge qmin (c_xmin a) (c_xmin b)) (omerge qmax (c_xmax a) (c_xmax b))
         (omerge qmin (c_ymin a) (c_ymin b)) (omerge qmax (c_ymax a) (c_ymax b)).
Definition cpa_contrib (o : obs) : cst :=
  let '(x, y) := o in mk_cst 1 x (x * x) y (y * y) (y * x) (Some x) (Some x) (Some y) (Some y).

(* cpa.py _undefined_entries: the sample or the word is constant over the processed traces (min = max); the result is
   forced to NaN there whatever the rounding of the sums.  No extrema = nothing processed = nothing defined. *)
Definition qeqb (a b : Qc) : bool := Qeq_bool a b.
Definition cpa_undefined (s : cst) : bool :=
  match c_xmin s, c_xmax s, c_ymin s, c_ymax s with
  | Some a, Some b, Some c, Some d => qeqb a b || qeqb c d
  | _, _, _, _ => true
  end.

(* cpa.py _compute, the formula.  common_1^2 = ex2 - n (ex/n)^2, common_2^2 = ey2 - n (ey/n)^2, numerator xy - ex (y/n);
   a zero denominator gives +-inf or 0/0 = NaN in numpy and inf is mapped to NaN: [None]. *)
Definition cpa_formula (s : cst) : option triple :=
  let n := c_n s in
  let dx := c_sxx s - n * ((c_sx s / n) * (c_sx s / n)) in
  let dy := c_syy s - n * ((c_sy s / n) * (c_sy s / n)) in
  let num := c_sxy s - c_sx s * (c_sy s / n) in
  if qc0 dx || qc0 dy then None else Some (num, dx, dy).
Definition cpa_comp (s : cst) : option triple := if cpa_undefined s then None else cpa_formula s.

(* alternative _compute.  sigma_traces^2 = n ex2 - ex^2, sigma_data^2 = n ey2 - ey^2, enum = n exy - ey ex^T *)
Definition cpa_alt_formula (s : cst) : option triple :=
  let n := c_n s in
  let dx := n * c_sxx s - c_sx s * c_sx s in
  let dy := n * c_syy s - c_sy s * c_sy s in
  let num := n * c_sxy s - c_sy s * c_sx s in
  if qc0 dx || qc0 dy then None else Some (num, dx, dy).
Definition cpa_alt_comp (s : cst) : option triple := if cpa_undefined s then None else cpa_alt_formula s.

(* update(batch) = cst_plus s (bsum batch); a distinguisher fed the rows l from scratch: *)
Definition cpa_acc (l : list obs) : cst := upd cst obs cst_zero cst_plus cpa_contrib cst_zero l.
Definition cpa_feed (batches : list (list obs)) : cst := feed cst obs cst_zero cst_plus cpa_contrib cst_zero batches.

(* DPA: processed_traces, accumulator_traces, accumulator_ones, processed_ones of dpa.py for one entry *)
Record dst := mk_dst { d_n : Qc; d_all : Qc; d_ones : Qc; d_n1 : Qc }.
Definition dst_zero : dst := mk_dst 0 0 0 0.
Definition dst_plus (a b : dst) : dst := mk_dst (d_n a + d_n b) (d_all a + d_all b) (d_ones a + d_ones b) (d_n1 a + d_n1 b).
Definition dpa_contrib (o : dobs) : dst := let '(x, b) := o in if b then mk_dst 1 x x 1 else mk_dst 1 x 0 0.

(* dpa.py _compute.  ones/|ones| - (all - ones)/(n - |ones|); forced to NaN where a class count is zero: [None] *)
Definition dpa_comp (s : dst) : option Qc :=
  let n0 := d_n s - d_n1 s in
  if qc0 (d_n1 s) || qc0 n0 then None else Some (d_ones s / d_n1 s - (d_all s - d_ones s) / n0).

Definition dpa_acc (l : list dobs) : dst := upd dst dobs dst_zero dst_plus dpa_contrib dst_zero l.
Definition dpa_feed (batches : list (list dobs)) : dst := feed dst dobs dst_zero dst_plus dpa_contrib dst_zero batches.

(* ================================================================ LAYOUT (base.py:39-40, 73-76) *)
Section Table.
  Variables X Y O : Type.
  Variables (dX : X) (dY : Y) (dO : O).
  Variable stat : list (X * Y) -> O.               (* the per-entry statistic *)

  (* column j of a matrix given as a list of rows *)
  Definition col {A} (d : A) (j : nat) (rows : list (list A)) : list A := map (fun r => nth j r d) rows.

  (* what _compute returns: D rows (words) of S entries (samples); entry (w, s) is the statistic of word column w of the
     linearised data against sample column s of the traces *)
  Definition table2d (traces : list (list X)) (data : list (list Y)) (D S : nat) : list (list O) :=
    map (fun w => map (fun s => stat (combine (col dX s traces) (col dY w data))) (seq 0 S)) (seq 0 D).

  (* update: data.reshape((n, -1)) — each trace's word array (a function on multi-indices) in C order *)
  Definition linearise (dims : list nat) (a : list nat -> Y) : list Y := tabulate dims a.

  (* compute: _compute().reshape(origin_shape[1:] + (-1,)) — a reshape keeps the C-order sequence of the (D, S) table and
     reads it with the new shape dims ++ [S] *)
  Definition result_nd (dims : list nat) (S : nat) (t : list (list O)) (idx : list nat) : O :=
    nth (flatten (dims ++ [S]) idx) (concat t) dO.

  (* update + compute on traces (n rows of S samples) and data (n word arrays of shape dims) *)
  Definition distinguisher_result (dims : list nat) (S : nat) (traces : list (list X)) (data : list (list nat -> Y))
    : list nat -> O :=
    result_nd dims S (table2d traces (map (linearise dims) data) (prod dims) S).
End Table.
Arguments col {A} d j rows.

(* ================================================================ CORRESPONDENCE (C-tie), evaluated by vm_compute *)
(* the same spec with the means shared (vm_compute would recompute [qmean l] for every element of [ssd l]);
   equal to [pearson] by Proofs/Cpa.pearson_fast_eq *)
Definition ssd_fast (l : list Qc) : Qc := let m := qmean l in qsum (map (fun x => sq (x - m)) l).
Definition pearson_fast (l : list obs) : option triple :=
  let dx := ssd_fast (map fst l) in let dy := ssd_fast (map snd l) in
  if qc0 dx || qc0 dy then None else Some (scd l, dx, dy).

Inductive ckind := KCpa | KCpaAlt | KDpa.

Record cpa_case := {
  k_kind : ckind;
  k_prec : prec;
  k_dims : list nat;                 (* word dimensions d1..dk of the data passed in: data.shape = (n, d1, .., dk) *)
  k_S : nat;                         (* samples per trace *)
  k_tden : positive;                 (* trace values are z / tden (tden a power of two: integers or dyadic floats) *)
  k_traces : list (list Z);
  k_dden : positive;
  k_data : list (list Z);            (* per trace: the word array read entry by entry in C order (nested tolist()) *)
  k_obs_shape : list nat;            (* shape of compute()'s return value *)
  k_obs : list fval                  (* its entries read in C order (nested tolist()) *)
}.

Definition qcz (den : positive) (z : Z) : Qc := Q2Qc (Qmake z den).

Fixpoint is_pow2 (p : positive) : bool := match p with xH => true | xO q => is_pow2 q | xI _ => false end.

(* a <= num / sqrt D   (D > 0), without square roots *)
Definition le_r (a num D : Q) : bool :=
  if Qle_bool a 0
  then (if Qle_bool 0 num then true else Qle_bool (num * num) (a * a * D))
  else (if Qle_bool 0 num then Qle_bool (a * a * D) (num * num) else false).
Definition ge_r (a num D : Q) : bool := le_r (- a) (- num) D.
(* | r - num / sqrt D | <= tol *)
Definition close_r (r tol num D : Q) : bool := le_r (r - tol) num D && ge_r (r + tol) num D.

Definition qabs_sum (l : list Qc) : Qc := qsum (map (fun x : Qc => if Qle_bool 0%Q x then x else - x) l).

(* rounding-error budget of the float pipeline (conversion, n-term sums, the final formula), first order:
   4 (f + 4) u (kx + ky),  kx = sum x^2 / ssd x  >= 1  the conditioning of the variance subtraction;
   f = number of traces (error of the n-term float sums), or 4 when the sums are known to be exact *)
Definition corr_tol (p : prec) (f : Z) (sxx syy dx dy : Qc) : Q :=
  Qred ((4 * inject_Z (f + 4)) * uround p * (sxx / dx + syy / dy)%Qc).

Definition corr_ok (p : prec) (f : Z) (spec : option triple) (sxx syy : Qc) (v : fval) : bool :=
  match spec with
  | None => is_nan v                           (* undefined: NaN, never infinite, never finite *)
  | Some (num, dx, dy) =>
      let tol := corr_tol p f sxx syy dx dy in
      if Qle_bool (1 # 8) tol then negb (is_inf v)    (* float denominators cannot be told from zero: vacuous *)
      else match v with
           | Fin m e => close_r (q_of_fin m e) tol num (dx * dy)%Qc
           | _ => false
           end
  end.

(* the budget of one entry given by its full list of rows (kept under this name for Model/Batching.v) *)
Definition cpa_tol (p : prec) (n : nat) (l : list obs) (dx dy : Qc) : Q :=
  corr_tol p (Z.of_nat n) (qsum (map sq (map fst l))) (qsum (map sq (map snd l))) dx dy.

Definition cpa_entry_ok (p : prec) (n : nat) (l : list obs) (v : fval) : bool :=
  corr_ok p (Z.of_nat n) (pearson_fast l) (qsum (map sq (map fst l))) (qsum (map sq (map snd l))) v.

(* 4 (f + 4) u sum|x| (1/n1 + 1/n0) *)
Definition diff_tol (p : prec) (f : Z) (sabs n1 n0 : Qc) : Q :=
  Qred ((4 * inject_Z (f + 4)) * uround p * (sabs * (1 / n1 + 1 / n0))%Qc).

Definition diff_ok (spec : option Qc) (tol : Q) (v : fval) : bool :=
  match spec with
  | None => is_nan v
  | Some d => match v with Fin m e => q_close_abs tol (q_of_fin m e) d | _ => false end
  end.

Definition dpa_tol (p : prec) (n : nat) (l : list dobs) : Q :=
  diff_tol p (Z.of_nat n) (qabs_sum (map fst l)) (qlen (ones l)) (qlen (zeros l)).

Definition dpa_entry_ok (p : prec) (n : nat) (l : list dobs) (v : fval) : bool := diff_ok (dpa_spec l) (dpa_tol p n l) v.

Definition rows_ok (len : nat) (rows : list (list Z)) : bool := forallb (fun r => Nat.eqb (length r) len) rows.
Definition bits_ok (rows : list (list Z)) : bool := forallb (forallb (fun z => Z.eqb z 0 || Z.eqb z 1)) rows.

Definition case_entries {A} (c : cpa_case) (f : list Qc -> list Z -> A) : list A :=
  let D := prod (k_dims c) in
  let xcols := map (fun s => map (qcz (k_tden c)) (col 0%Z s (k_traces c))) (seq 0 (k_S c)) in
  let ycols := map (fun w => col 0%Z w (k_data c)) (seq 0 D) in
  flat_map (fun y => map (fun x => f x y) xcols) ycols.

Definition cpa_check (c : cpa_case) : bool :=
  let n := length (k_traces c) in
  let D := prod (k_dims c) in
  let p := k_prec c in
  Nat.ltb 0 n && Nat.eqb (length (k_data c)) n
  && rows_ok (k_S c) (k_traces c) && rows_ok D (k_data c)
  && is_pow2 (k_tden c) && is_pow2 (k_dden c)
  && natlist_eqb (k_obs_shape c) (k_dims c ++ [k_S c])
  && match k_kind c with
     | KDpa =>
         bits_ok (k_data c) && Pos.eqb (k_dden c) 1
         && forallb2 (fun l v => dpa_entry_ok p n l v)
              (case_entries c (fun x y => combine x (map (Z.eqb 1) y))) (k_obs c)
     | _ =>
         forallb2 (fun l v => cpa_entry_ok p n l v)
              (case_entries c (fun x y => combine x (map (qcz (k_dden c)) y))) (k_obs c)
     end.

(* for replay files: the spec value of every entry, in C order of (word dims, sample) *)
Inductive expected := ECorr (t : option (Q * Q * Q)) | EDiff (d : option Q).
Definition cpa_explain (c : cpa_case) : list expected :=
  match k_kind c with
  | KDpa => map (fun l => EDiff (option_map this (dpa_spec l)))
              (case_entries c (fun x y => combine x (map (Z.eqb 1) y)))
  | _ => map (fun l => ECorr (option_map (fun t : triple => let '(a, b, d) := t in (this a, this b, this d)) (pearson_fast l)))
              (case_entries c (fun x y => combine x (map (qcz (k_dden c)) y)))
  end.

(* ================================================================ LARGE TRACE COUNTS: run-length encoded rows *)
(* A history of n = 65536 .. 2^24 traces is given as runs (row, count): the row repeated count times, runs in order.  The
   spec of the expanded list is computed on the runs directly ([pearson_w], [dpa_spec_w]: weighted sums), which is the
   spec itself by Proofs/Cpa.pearson_w_expand / dpa_spec_w_expand. *)
Definition qpos (c : positive) : Qc := qz (Zpos c).
Definition expand {A} (wl : list (A * positive)) : list A := flat_map (fun p => repeat (fst p) (Pos.to_nat (snd p))) wl.
Definition wsum {A} (f : A -> Qc) (wl : list (A * positive)) : Qc := qsum (map (fun p => qpos (snd p) * f (fst p)) wl).
Definition wlen {A} (wl : list (A * positive)) : Qc := wsum (fun _ => 1) wl.

Definition pearson_w (wl : list (obs * positive)) : option triple :=
  let n := wlen wl in
  let mx := wsum fst wl / n in
  let my := wsum snd wl / n in
  let dx := wsum (fun o => sq (fst o - mx)) wl in
  let dy := wsum (fun o => sq (snd o - my)) wl in
  if qc0 dx || qc0 dy then None else Some (wsum (fun o => (fst o - mx) * (snd o - my)) wl, dx, dy).

Definition wones (wl : list (dobs * positive)) := filter (fun p => snd (fst p)) wl.
Definition wzeros (wl : list (dobs * positive)) := filter (fun p => negb (snd (fst p))) wl.
Definition dpa_spec_w (wl : list (dobs * positive)) : option Qc :=
  match wones wl, wzeros wl with
  | [], _ => None
  | _, [] => None
  | o, z => Some (wsum fst o / wlen o - wsum fst z / wlen z)
  end.

Record rl_case := {
  r_kind : ckind;
  r_prec : prec;
  r_W : nat;                                        (* number of words; one sample per trace; integer values *)
  r_runs : list (Z * list Z * positive);            (* (sample value, word values, repetitions), in feeding order *)
  r_obs_shape : list nat;
  r_obs : list fval
}.

Definition pbits (p : prec) : Z := match p with F32 => 24 | F64 => 53 end.
Definition rl_n (c : rl_case) : Z := fold_right (fun r a => (Zpos (snd r) + a)%Z) 0%Z (r_runs c).
Definition rl_max (c : rl_case) : Z :=
  fold_right (fun r a => Z.max (Z.abs (fst (fst r))) (fold_right (fun z b => Z.max (Z.abs z) b) a (snd (fst r)))) 1%Z (r_runs c).
(* every running sum (of x, x^2, y, y^2, x y) is an integer below 2^p: exact in the float precision *)
Definition rl_exact (c : rl_case) : bool := (rl_n c * rl_max c * rl_max c <? 2 ^ pbits (r_prec c))%Z.
Definition rl_fac (c : rl_case) : Z := if rl_exact c then 4%Z else rl_n c.

Definition rl_obs_w (c : rl_case) (w : nat) : list (obs * positive) :=
  map (fun r => ((qz (fst (fst r)), qz (nth w (snd (fst r)) 0%Z)), snd r)) (r_runs c).
Definition rl_dobs_w (c : rl_case) (w : nat) : list (dobs * positive) :=
  map (fun r => ((qz (fst (fst r)), Z.eqb 1 (nth w (snd (fst r)) 0%Z)), snd r)) (r_runs c).

Definition rl_entry_ok (c : rl_case) (w : nat) (v : fval) : bool :=
  match r_kind c with
  | KDpa =>
      let wl := rl_dobs_w c w in
      diff_ok (dpa_spec_w wl)
              (diff_tol (r_prec c) (rl_fac c) (wsum (fun o : dobs => if Qle_bool 0%Q (fst o) then fst o else - fst o) wl)
                        (wlen (wones wl)) (wlen (wzeros wl))) v
  | _ =>
      let wl := rl_obs_w c w in
      corr_ok (r_prec c) (rl_fac c) (pearson_w wl) (wsum (fun o => sq (fst o)) wl) (wsum (fun o => sq (snd o)) wl) v
  end.

Definition rl_check (c : rl_case) : bool :=
  forallb (fun r => Nat.eqb (length (snd (fst r))) (r_W c)) (r_runs c)
  && Nat.ltb 0 (r_W c)
  && match r_kind c with KDpa => forallb (fun r => forallb (fun z => Z.eqb z 0 || Z.eqb z 1) (snd (fst r))) (r_runs c) | _ => true end
  && natlist_eqb (r_obs_shape c) [r_W c; 1%nat]
  && forallb2 (rl_entry_ok c) (seq 0 (r_W c)) (r_obs c).

Definition rl_explain (c : rl_case) : list expected :=
  match r_kind c with
  | KDpa => map (fun w => EDiff (option_map this (dpa_spec_w (rl_dobs_w c w)))) (seq 0 (r_W c))
  | _ => map (fun w => ECorr (option_map (fun t : triple => let '(a, b, d) := t in (this a, this b, this d)) (pearson_w (rl_obs_w c w))))
             (seq 0 (r_W c))
  end.

(* ================================================================ HISTORIES: compute() between updates *)
(* compute() is pure and its result belongs to the caller: whatever was computed (or done to the returned arrays) before,
   a compute() after the first k rows returns the statistic of those k rows.  [spec_history spec [] h] lists what every
   Compute of the history h must return. *)
Fixpoint spec_history {R O} (spec : list R -> O) (seen : list R) (h : list (op R)) : list O :=
  match h with
  | [] => []
  | Update b :: t => spec_history spec (seen ++ b) t
  | Compute :: t => spec seen :: spec_history spec seen t
  end.

(* a case with intermediate observations: (number of rows fed so far, (shape, values) of that compute()) *)
Record hist_case := { h_final : cpa_case; h_prefix : list (nat * (list nat * list fval)) }.

Definition prefix_case (c : cpa_case) (k : nat) (shape : list nat) (vals : list fval) : cpa_case :=
  {| k_kind := k_kind c; k_prec := k_prec c; k_dims := k_dims c; k_S := k_S c; k_tden := k_tden c;
     k_traces := firstn k (k_traces c); k_dden := k_dden c; k_data := firstn k (k_data c);
     k_obs_shape := shape; k_obs := vals |}.

Definition hist_check (h : hist_case) : bool :=
  cpa_check (h_final h)
  && forallb (fun p => Nat.leb (fst p) (length (k_traces (h_final h)))
                       && cpa_check (prefix_case (h_final h) (fst p) (fst (snd p)) (snd (snd p)))) (h_prefix h).

Definition hist_explain (h : hist_case) : list (nat * list expected) :=
  map (fun p => (fst p, cpa_explain (prefix_case (h_final h) (fst p) (fst (snd p)) (snd (snd p))))) (h_prefix h)
  ++ [(length (k_traces (h_final h)), cpa_explain (h_final h))].

(* ================================================================ WIDE RESULTS: count boundaries on words and samples *)
(* Hundreds of words / samples built from a few DISTINCT columns: the sample columns and the word columns are given once, the
   layout of the matrix as run-length lists (distinct column index, repetitions), expanded here.  Observed entries are given
   with their position (flat word index, sample index); the per-entry spec is applied to the pair of distinct columns found
   at that position.  (The harness checks, by exact equality, that all entries built from the same pair of columns are
   identical to the one validated here.) *)
Record wide_case := {
  w_kind : ckind;
  w_prec : prec;
  w_dims : list nat;                       (* word dimensions; prod = total number of words *)
  w_scols : list (list Z);                 (* distinct sample columns (n integer values each) *)
  w_wcols : list (list Z);                 (* distinct word columns *)
  w_slayout : list (nat * positive);       (* sample j of the trace matrix is distinct column ..., run-length encoded *)
  w_wlayout : list (nat * positive);       (* word w (C-order flat index) is distinct column ..., run-length encoded *)
  w_obs_shape : list nat;
  w_obs : list (nat * nat * fval)          (* (flat word index, sample index, value of that entry of compute()) *)
}.

Definition wide_entry_ok (c : wide_case) (n : nat) (sidx widx : list nat) (o : nat * nat * fval) : bool :=
  let '(w, s, v) := o in
  Nat.ltb w (length widx) && Nat.ltb s (length sidx)
  && match nth_error (w_scols c) (nth s sidx 0%nat), nth_error (w_wcols c) (nth w widx 0%nat) with
     | Some x, Some y =>
         let xq := map (qcz 1) x in
         match w_kind c with
         | KDpa => dpa_entry_ok (w_prec c) n (combine xq (map (Z.eqb 1) y)) v
         | _ => cpa_entry_ok (w_prec c) n (combine xq (map (qcz 1) y)) v
         end
     | _, _ => false
     end.

Definition wide_check (c : wide_case) : bool :=
  let sidx := expand (w_slayout c) in
  let widx := expand (w_wlayout c) in
  let n := match w_scols c with x :: _ => length x | [] => 0%nat end in
  Nat.ltb 0 n
  && forallb (fun x => Nat.eqb (length x) n) (w_scols c) && forallb (fun y => Nat.eqb (length y) n) (w_wcols c)
  && match w_kind c with KDpa => bits_ok (w_wcols c) | _ => true end
  && Nat.eqb (length widx) (prod (w_dims c))
  && natlist_eqb (w_obs_shape c) (w_dims c ++ [length sidx])
  && negb (match w_obs c with [] => true | _ => false end)
  && forallb (wide_entry_ok c n sidx widx) (w_obs c).

Definition wide_explain (c : wide_case) : list (nat * nat * expected) :=
  let sidx := expand (w_slayout c) in
  let widx := expand (w_wlayout c) in
  map (fun o : nat * nat * fval =>
         let '(w, s, _) := o in
         let x := map (qcz 1) (nth (nth s sidx 0%nat) (w_scols c) []) in
         let y := nth (nth w widx 0%nat) (w_wcols c) [] in
         (w, s, match w_kind c with
                | KDpa => EDiff (option_map this (dpa_spec (combine x (map (Z.eqb 1) y))))
                | _ => ECorr (option_map (fun t : triple => let '(a, b, d) := t in (this a, this b, d.(this))) (pearson_fast (combine x (map (qcz 1) y))))
                end)) (w_obs c).
