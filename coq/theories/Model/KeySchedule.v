(* Model/KeySchedule.v — impl-models of the key schedules of scared (property C10) in the shape of the code, over the
   constants regenerated from the source on every run (Generated/KeySchedTables.v: SBOX, RCON, ...), and the
   case records / check functions of the correspondence check.  Executable definitions only; proofs are in
   Proofs/KeySchedule*.v.  The specs are Spec/Fips197.v (KeyExpansion) and Spec/DesKeySpec.v (PC-1 / shifts / PC-2).

     aes/base.py   key_schedule, inv_key_schedule, key_expansion, _expand_forward, _expand_backward
     des/base.py   key_schedule, get_master_key, _find_possible_keys, _convert_hypothesis_bits_into_keys *)
From Coq Require Import NArith List Bool Arith Lia.
From ScaredV Require Import Generated.KeySchedTables Spec.Fips197 Spec.DesKeySpec Run.Compare.
Import ListNotations.
Open Scope N_scope.

(* ================================================================== AES *)
Definition tbl (T : list N) (x : N) : N := nth (N.to_nat x) T 0.
(* SBOX[column] *)
Definition sub_word_m (w : list N) : list N := map (tbl KS_SBOX) w.
(* _np.roll(column, shift=-1, axis=-1) *)
Definition roll_m1 (w : list N) : list N := match w with a :: t => t ++ [a] | [] => [] end.
(* _np.bitwise_xor *)
Definition bxor (a b : list N) : list N := map (fun p => N.lxor (fst p) (snd p)) (combine a b).

Definition is_bytes (l : list N) : bool := forallb (fun b => b <? 256) l.

Fixpoint lookup_nat (k : nat) (l : list (nat * nat)) : option nat :=
  match l with [] => None | (k', v) :: t => if (k =? k')%nat then Some v else lookup_nat k t end.

(* key_cols.reshape((-1, cols_in, 4)): the columns of one key *)
Definition columns_of (ncols : nat) (key : list N) : list (list N) :=
  map (fun i => firstn AES_BYTES_PER_COL (skipn (AES_BYTES_PER_COL * i) key)) (seq 0 ncols).

(* _expand_forward: iteration [index] of `for index, col in enumerate(range(col_in, col_out))`;
   [ek] = expanded_key[:, col_in : col] (the columns written so far) *)
Definition fwd_step (klen cols_in col_in : nat) (key : list (list N)) (ek : list (list N)) (index : nat) : list N :=
  let col := (col_in + index)%nat in
  let ek_at := fun c => nth (c - col_in) ek [] in
  if (index <? cols_in)%nat then nth index key []
  else if (col mod cols_in =? 0)%nat then
    bxor (bxor (sub_word_m (roll_m1 (ek_at (col - 1)%nat))) (nth (col / cols_in - AES_FWD_RCON_SUB) KS_RCON []))
         (ek_at (col - cols_in)%nat)
  else if ((klen =? AES_FWD_EXTRA_KLEN) && (col mod AES_FWD_EXTRA_MOD =? 0))%nat then
    bxor (sub_word_m (ek_at (col - 1)%nat)) (ek_at (col - cols_in)%nat)
  else bxor (ek_at (col - 1)%nat) (ek_at (col - cols_in)%nat).

(* the first n iterations of a loop that appends one column per iteration *)
Fixpoint fwd_loop (step : list (list N) -> nat -> list N) (n : nat) : list (list N) :=
  match n with
  | O => []
  | S n' => let ek := fwd_loop step n' in ek ++ [step ek n']
  end.

(* returns expanded_key[:, col_in:] = columns col_in .. col_out - 1 *)
Definition expand_forward (klen cols_in : nat) (key : list (list N)) (col_in col_out : nat) : list (list N) :=
  fwd_loop (fwd_step klen cols_in col_in key) (col_out - col_in).

(* _expand_backward: iteration [index] of `for index, col in enumerate(range(col_in + cols_in - 1, col_out - 1, -1))`;
   [ek] = expanded_key[:, col + 1 : col_in + cols_in] (the columns written so far, in increasing order) *)
Definition bwd_step (klen cols_in col_in : nat) (key : list (list N)) (ek : list (list N)) (index : nat) : list N :=
  let col := (col_in + cols_in - 1 - index)%nat in
  let ek_at := fun c => nth (c - (col + 1)) ek [] in
  if (index <? cols_in)%nat then nth (cols_in - index - 1) key []
  else if (col mod cols_in =? 0)%nat then
    bxor (bxor (ek_at (col + cols_in)%nat) (sub_word_m (roll_m1 (ek_at (col + cols_in - 1)%nat))))
         (nth (col / cols_in) KS_RCON [])
  else if ((klen =? AES_BWD_EXTRA_KLEN) && (col mod AES_BWD_EXTRA_MOD =? 0))%nat then
    bxor (sub_word_m (ek_at (col + cols_in - 1)%nat)) (ek_at (col + cols_in)%nat)
  else bxor (ek_at (col + cols_in)%nat) (ek_at (col + cols_in - 1)%nat).

(* the first n iterations of a loop that writes one column per iteration, right to left *)
Fixpoint bwd_loop (step : list (list N) -> nat -> list N) (n : nat) : list (list N) :=
  match n with
  | O => []
  | S n' => let ek := bwd_loop step n' in step ek n' :: ek
  end.

(* returns expanded_key[:, col_out:] = columns col_out .. col_in + cols_in - 1 *)
Definition expand_backward (klen cols_in : nat) (key : list (list N)) (col_in col_out : nat) : list (list N) :=
  bwd_loop (bwd_step klen cols_in col_in key) (col_in - col_out + cols_in).

(* key_expansion for one key: None = the call is refused (ValueError); col_out = None = argument omitted *)
Definition key_expansion_m (key : list N) (col_in : nat) (col_out : option nat) : option (list N) :=
  let klen := length key in
  if negb (is_bytes key) || negb (existsb (Nat.eqb klen) AES_KEY_LENGTHS) then None else
  let cols_in := (klen / AES_BYTES_PER_COL)%nat in
  match lookup_nat klen AES_COLS_OUT with
  | None => None
  | Some max_col_out =>
    let co := match col_out with Some c => c | None => max_col_out end in
    if (max_col_out <? co)%nat then None
    else if (col_in <? co)%nat then Some (concat (expand_forward klen cols_in (columns_of cols_in key) col_in co))
    else Some (concat (expand_backward klen cols_in (columns_of cols_in key) col_in co))
  end.

(* keys.reshape((.., len / 16, 16)) *)
Definition rows_of (w : nat) (l : list N) : list (list N) :=
  map (fun r => firstn w (skipn (w * r) l)) (seq 0 (length l / w)).

(* key_schedule for one key: the round keys *)
Definition key_schedule_m (key : list N) : option (list (list N)) :=
  match key_expansion_m key 0 None with
  | Some e => Some (rows_of AES_RK_BYTES e)
  | None => None
  end.

(* inv_key_schedule for one key; round_in = None = argument omitted *)
Definition inv_key_schedule_m (key : list N) (round_in : option nat) : option (list (list N)) :=
  let r := match round_in with Some r => r | None => AES_INV_DEFAULT_ROUND end in
  match key_expansion_m key (r * AES_INV_COLS_PER_ROUND) (Some AES_INV_COL_OUT) with
  | Some e => key_schedule_m (firstn AES_INV_KEEP e)
  | None => None
  end.

(* a key of Nk columns: 4 Nk bytes *)
Definition wf_aes_key (Nk : nat) (key : list N) : Prop := length key = (4 * Nk)%nat /\ Forall (fun b => b < 256) key.

(* spec side: columns a .. b-1 of a schedule *)
Definition cols (W : list (list N)) (a b : nat) : list (list N) := firstn (b - a) (skipn a W).

(* ================================================================== DES key schedule *)
(* key_bits[:, 8 * byte + j] = ((key[:, byte] & mask_j) != 0) *)
Definition byte_bits (b : N) : list N := map (fun m => if N.land b m =? 0 then 0 else 1) DES_BIT_MASKS.
Definition key_bits_m (key : list N) : list N := flat_map byte_bits key.

(* 0x20 * key_bits[i0] + 0x10 * key_bits[i1] + ... *)
Definition word_m (bits : list N) (idx : list nat) : N :=
  fold_right N.add 0 (map (fun p => fst p * nth (snd p) bits 0) (combine DES_WORD_WEIGHTS idx)).

Definition round_key_m (bits : list N) (r : list (list nat)) : list N := map (word_m bits) r.

(* des.key_schedule for one key: rounds 0 .. last; None = refused *)
Definition des_ks_m (key : list N) (last : option nat) : option (list (list N)) :=
  let l := match last with Some l => l | None => DES_LAST_ROUND end in
  if negb (is_bytes key) || negb (length key =? 8)%nat || (DES_LAST_ROUND <? l)%nat then None
  else Some (map (round_key_m (key_bits_m key)) (firstn (S l) DES_RKBI)).

(* a DES key, a DES block: 8 bytes *)
Definition wf_des_key (key : list N) : Prop := length key = 8%nat /\ Forall (fun b => b < 256) key.
Definition wf_des_block (b : list N) : Prop := length b = 8%nat /\ Forall (fun x => x < 256) b.

(* ================================================================== DES: master key from one round key *)
(* l[i] = v on a list *)
Fixpoint upd {A} (i : nat) (v : A) (l : list A) : list A :=
  match l, i with
  | [], _ => []
  | _ :: t, O => v :: t
  | h :: t, S i' => h :: upd i' v t
  end.

(* round_key[int(index / 6)] & (1 << (5 - index % 6)) != 0 *)
Definition rk_bit (rk : list N) (index : nat) : bool :=
  negb (N.land (nth (index / 6) rk 0) (N.shiftl 1 (N.of_nat (5 - index mod 6))) =? 0).

(* "We remove PC-2": the first n iterations of `for index in range(48)` on ci_di (255 = unknown) *)
Fixpoint undo_pc2_loop (rk : list N) (n : nat) : list N :=
  match n with
  | O => DES_CI_DI
  | S n' => let c := undo_pc2_loop rk n' in
            if rk_bit rk n' then upd (nth n' DES_PC2 0%nat - 1) 1 c else c
  end.
Definition undo_pc2 (rk : list N) : list N := undo_pc2_loop rk 48.

(* _np.roll(l, +s): out[j] = l[(j - s) mod n] *)
Definition roll_right (s : nat) (l : list N) : list N :=
  let n := length l in map (fun j => nth ((j + n - s mod n) mod n) l 0) (seq 0 n).

(* reshape(2, 28), roll by nb_shift[nb_round] along axis 1, reshape(56) *)
Definition undo_shift (r : nat) (c : list N) : list N :=
  let s := nth r DES_NB_SHIFT 0%nat in roll_right s (firstn 28 c) ++ roll_right s (skipn 28 c).

(* "We remove PC-1": master_key = [0] * 64; master_key[PC1[index] - 1] = ci_di[index] *)
Fixpoint undo_pc1_loop (c : list N) (n : nat) : list N :=
  match n with
  | O => repeat 0 64
  | S n' => upd (nth n' DES_PC1 0%nat - 1) (nth n' c 0) (undo_pc1_loop c n')
  end.
Definition undo_pc1 (c : list N) : list N := undo_pc1_loop c (length DES_PC1).

(* the 64 entries 0 / 1 / 255 (unknown) of master_key, most significant bit first *)
Definition master_bits (rk : list N) (r : nat) : list N := undo_pc1 (undo_shift r (undo_pc2 rk)).

(* _convert_hypothesis_bits_into_keys *)
Fixpoint convert_bits (a : list N) : list N :=
  match a with
  | [] => []
  | bit :: rest =>
    match rest with
    | [] => [bit]
    | _ :: _ =>
      let keys0 := convert_bits rest in
      if bit =? 0 then keys0
      else
        let keys1 := map (fun hit => hit + N.shiftl 1 (N.of_nat (length a - 1))) keys0 in
        if bit =? 255 then keys1 ++ keys0 else keys1
    end
  end.

(* [(guess >> (8 * hit)) & 0xFF for hit in range(7, -1, -1)] *)
Definition int_bytes (g : N) : list N :=
  map (fun hit => N.land (N.shiftr g (8 * N.of_nat hit)) 255) [7; 6; 5; 4; 3; 2; 1; 0]%nat.

Definition find_possible_keys (rk : list N) (r : nat) : list (list N) :=
  map int_bytes (convert_bits (master_bits rk r)).

Inductive gmk_result := GmkRefused | GmkNone | GmkFound (g : list N).

Section GetMasterKey.
  (* scared.des.encrypt (plaintext, key) — any function *)
  Variable encrypt : list N -> list N -> list N.

  Definition get_master_key_m (rk : list N) (r : nat) (pt ct : list N) : gmk_result :=
    if negb (is_bytes rk && is_bytes pt && is_bytes ct)
       || negb ((length rk =? 8) && (length pt =? 8) && (length ct =? 8))%nat
       || negb (forallb (fun w => w <? 64) rk) || (15 <? r)%nat
    then GmkRefused
    else match find (fun g => nlist_eqb ct (encrypt pt g)) (find_possible_keys rk r) with
         | Some g => GmkFound g
         | None => GmkNone
         end.
End GetMasterKey.

(* ================================================================== correspondence check *)
(* Transport of byte strings: the harness writes every byte string as the list of its bytes; [unpack n l] = the first n of
   them (the shapes are compared separately). *)
Definition packed := list N.
Definition unpack (n : nat) (l : packed) : list N := firstn n l.

(* big-endian value of a byte string *)
Definition pack (l : list N) : N := fold_left (fun acc b => 256 * acc + b) l 0.
(* n bytes, most significant first, of a number *)
Fixpoint bytes_acc (n : nat) (x : N) (acc : list N) : list N :=
  match n with O => acc | S n' => bytes_acc n' (x / 256) (x mod 256 :: acc) end.
Definition bytes_of_n (n : nat) (x : N) : list N := bytes_acc n x [].

Definition nk_ok (Nk : nat) : bool := ((Nk =? 4) || (Nk =? 6) || (Nk =? 8))%nat.

Definition opt_rows_eqb (m : option (list N)) (obs : list N) : bool :=
  match m with Some e => nlist_eqb e obs | None => false end.

(* -------- scared.aes.key_expansion(windows, col_in, col_out) *)
Record aes_ke_case := {
  ke_klen : nat;               (* key length in bytes *)
  ke_single : bool;            (* a 1-D array (one key) was passed *)
  ke_masters : list packed;         (* the master keys, packed *)
  ke_col_in : nat;
  ke_col_out : option nat;     (* None = argument omitted *)
  ke_windows : list packed;         (* the arrays handed to the code (columns col_in .. col_in + Nk - 1 of the schedules), packed *)
  ke_raised : bool;            (* the code raised ValueError *)
  ke_obs_shape : list nat;
  ke_obs : list packed              (* the rows returned, packed *)
}.

(* what FIPS-197 says the call must return for one master key: (window, row) *)
Definition aes_ke_spec (klen col_in : nat) (col_out : option nat) (master : packed) : list N * list N :=
  let Nk := (klen / 4)%nat in
  let W := KeyExpansion Nk (unpack klen master) in
  let co := match col_out with Some c => c | None => total_words Nk end in
  (concat (cols W col_in (col_in + Nk)),
   if (col_in <? co)%nat then concat (cols W col_in co) else concat (cols W co (col_in + Nk))).

Definition aes_ke_expected (c : aes_ke_case) : list (list N) :=
  map (fun m => snd (aes_ke_spec (ke_klen c) (ke_col_in c) (ke_col_out c) m)) (ke_masters c).

Definition aes_ke_check (c : aes_ke_case) : bool :=
  let klen := ke_klen c in
  let Nk := (klen / 4)%nat in
  let T := total_words Nk in
  let co := match ke_col_out c with Some x => x | None => T end in
  let n := length (ke_masters c) in
  if ke_raised c then
    (* refused calls: wrong key length or col_out beyond the schedule; the model refuses too *)
    (negb (nk_ok Nk && (klen =? 4 * Nk)%nat) || (T <? co)%nat)
    && forallb (fun w => match key_expansion_m (unpack klen w) (ke_col_in c) (ke_col_out c) with None => true | Some _ => false end)
               (ke_windows c)
  else
    let out_len := (if (ke_col_in c <? co)%nat then 4 * (co - ke_col_in c) else 4 * (ke_col_in c + Nk - co))%nat in
    nk_ok Nk && (klen =? 4 * Nk)%nat && (co <=? T)%nat && (ke_col_in c + Nk <=? T)%nat
    && (0 <? n)%nat && (negb (ke_single c) || (n =? 1)%nat)
    && (length (ke_windows c) =? n)%nat && (length (ke_obs c) =? n)%nat
    && natlist_eqb (ke_obs_shape c) [n; out_len]
    && forallb (fun t => let '(m, w, o) := t in
                 let sp := aes_ke_spec klen (ke_col_in c) (ke_col_out c) m in
                 let win := unpack klen w in
                 let obs := unpack out_len o in
                 nlist_eqb win (fst sp)                                             (* the window really is the true one *)
                 && nlist_eqb obs (snd sp)                                          (* code = FIPS-197 *)
                 && opt_rows_eqb (key_expansion_m win (ke_col_in c) (ke_col_out c)) obs)   (* code = impl-model *)
               (combine (combine (ke_masters c) (ke_windows c)) (ke_obs c)).

(* -------- scared.aes.key_schedule(keys) *)
Record aes_ks_case := {
  ks_klen : nat;
  ks_single : bool;
  ks_masters : list packed;
  ks_obs_shape : list nat;
  ks_obs : list packed              (* per key: all round keys, packed *)
}.

Definition aes_ks_expected (c : aes_ks_case) : list (list (list N)) :=
  map (fun m => round_keys (ks_klen c / 4) (unpack (ks_klen c) m)) (ks_masters c).

Definition aes_ks_check (c : aes_ks_case) : bool :=
  let klen := ks_klen c in
  let Nk := (klen / 4)%nat in
  let nr := S (Nr_of Nk) in
  let n := length (ks_masters c) in
  nk_ok Nk && (klen =? 4 * Nk)%nat && (0 <? n)%nat && (negb (ks_single c) || (n =? 1)%nat) && (length (ks_obs c) =? n)%nat
  && natlist_eqb (ks_obs_shape c) (if ks_single c then [nr; 16%nat] else [n; nr; 16%nat])
  && forallb (fun t => let '(m, o) := t in
               let key := unpack klen m in
               let obs := unpack (16 * nr) o in
               nlist_eqb obs (concat (round_keys Nk key))
               && match key_schedule_m key with Some rows => nlist_eqb (concat rows) obs && (length rows =? nr)%nat | None => false end)
             (combine (ks_masters c) (ks_obs c)).

(* -------- scared.aes.inv_key_schedule(round keys, round_in) *)
Record aes_inv_case := {
  iv_single : bool;
  iv_masters : list packed;         (* AES-128 master keys, packed *)
  iv_round : option nat;       (* None = argument omitted (default 10) *)
  iv_round_keys : list packed;      (* the arrays handed to the code: round key number round_in of every master, packed *)
  iv_obs_shape : list nat;
  iv_obs : list packed
}.

Definition aes_inv_expected (c : aes_inv_case) : list (list (list N)) :=
  map (fun m => round_keys 4 (unpack 16 m)) (iv_masters c).

Definition aes_inv_check (c : aes_inv_case) : bool :=
  let r := match iv_round c with Some r => r | None => 10%nat end in
  let n := length (iv_masters c) in
  (r <=? 10)%nat && (0 <? n)%nat && (negb (iv_single c) || (n =? 1)%nat)
  && (length (iv_round_keys c) =? n)%nat && (length (iv_obs c) =? n)%nat
  && natlist_eqb (iv_obs_shape c) [n; 11%nat; 16%nat]
  && forallb (fun t => let '(m, k, o) := t in
               let sched := round_keys 4 (unpack 16 m) in
               let rk := unpack 16 k in
               let obs := unpack 176 o in
               nlist_eqb rk (nth r sched [])
               && nlist_eqb obs (concat sched)
               && match inv_key_schedule_m rk (iv_round c) with Some rows => nlist_eqb (concat rows) obs | None => false end)
             (combine (combine (iv_masters c) (iv_round_keys c)) (iv_obs c)).

(* -------- scared.des.key_schedule(keys, interrupt_after_round) *)
Record des_ks_case := {
  dk_single : bool;
  dk_keys : list packed;            (* 8-byte keys, packed *)
  dk_last : option nat;        (* interrupt_after_round; None = argument omitted *)
  dk_raised : bool;
  dk_obs_shape : list nat;
  dk_obs : list packed              (* per key: the (last + 1) * 8 six-bit words, packed as bytes *)
}.

Definition des_ks_expected (c : des_ks_case) : list (list (list N)) :=
  map (fun m => firstn (S (match dk_last c with Some l => l | None => 15%nat end)) (des_ks_spec (unpack 8 m))) (dk_keys c).

Definition des_ks_check (c : des_ks_case) : bool :=
  let l := match dk_last c with Some l => l | None => 15%nat end in
  let n := length (dk_keys c) in
  if dk_raised c then
    (15 <? l)%nat && forallb (fun m => match des_ks_m (unpack 8 m) (dk_last c) with None => true | Some _ => false end) (dk_keys c)
  else
    (l <=? 15)%nat && (0 <? n)%nat && (negb (dk_single c) || (n =? 1)%nat) && (length (dk_obs c) =? n)%nat
    && natlist_eqb (dk_obs_shape c) (if dk_single c then [S l; 8%nat] else [n; S l; 8%nat])
    && forallb (fun t => let '(m, o) := t in
                 let key := unpack 8 m in
                 let obs := unpack (8 * S l) o in
                 nlist_eqb obs (concat (firstn (S l) (des_ks_spec key)))
                 && match des_ks_m key (dk_last c) with Some rows => nlist_eqb (concat rows) obs | None => false end)
               (combine (dk_keys c) (dk_obs c)).

(* -------- scared.des.get_master_key(round key, nb_round, plaintext, ciphertext) *)
Record des_mk_case := {
  mk_key : packed;                  (* the key that produced the round key and the ciphertext, packed *)
  mk_round : nat;
  mk_round_key : packed;            (* the array handed to the code, packed *)
  mk_expect_none : bool;       (* the ciphertext handed to the code was corrupted: no candidate can match *)
  mk_obs : option packed            (* the key returned (packed), None = the code returned None *)
}.

Definition des_mk_expected (c : des_mk_case) : option (list N) :=
  if mk_expect_none c then None else Some (strip_parity (unpack 8 (mk_key c))).

Definition des_mk_check (c : des_mk_case) : bool :=
  let key := unpack 8 (mk_key c) in
  let rk := unpack 8 (mk_round_key c) in
  (mk_round c <? 16)%nat
  && nlist_eqb rk (nth (mk_round c) (des_ks_spec key) [])
  && match mk_obs c, mk_expect_none c with
     | None, true => true
     | Some g, false =>
       nlist_eqb (unpack 8 g) (strip_parity key)                                   (* the original key up to parity *)
       && existsb (fun cand => nlist_eqb cand (unpack 8 g)) (find_possible_keys rk (mk_round c))   (* one of the model's candidates *)
     | _, _ => false
     end.

(* -------- scared.des.base._find_possible_keys(round key, nb_round)  (private helper; compared as a set) *)
Record des_cand_case := {
  dc_round : nat;
  dc_round_key : packed;
  dc_obs : list packed              (* the candidates returned, packed *)
}.

Definition des_cand_check (c : des_cand_case) : bool :=
  let model := map pack (find_possible_keys (unpack 8 (dc_round_key c)) (dc_round c)) in
  let obs := map (fun g => pack (unpack 8 g)) (dc_obs c) in
  (length obs =? length model)%nat
  && forallb (fun g => existsb (N.eqb g) model) obs
  && forallb (fun g => existsb (N.eqb g) obs) model.

(* -------- call histories: 2 .. 4 calls of the public functions on ONE buffer that is rewritten in place between the calls
   (same ndarray object, same bytes under another shape / key size, alternating functions).  The functions are pure: every
   call of the history must give what the spec says for the bytes the buffer held at that call. *)
Inductive hist_step :=
  | HKe (c : aes_ke_case) | HKs (c : aes_ks_case) | HInv (c : aes_inv_case) | HDk (c : des_ks_case) | HMk (c : des_mk_case).

Definition hist_step_check (s : hist_step) : bool :=
  match s with
  | HKe c => aes_ke_check c | HKs c => aes_ks_check c | HInv c => aes_inv_check c
  | HDk c => des_ks_check c | HMk c => des_mk_check c
  end.

Definition hist_check (l : list hist_step) : bool := forallb hist_step_check l.
(* which calls of the history agree with the spec *)
Definition hist_explain (l : list hist_step) : list bool := map hist_step_check l.

(* -------- count boundaries: ONE call on a batch of n rows (n around 256, 1024, 4096, 65536), the rows drawn from 2 .. 4 distinct
   keys and given run-length encoded; a selection of the rows of the result (first / last occurrence of every key, the rows
   around the powers of two, the last three, a sample) is compared here with the spec and the model of the row's key; the
   harness compares the whole array with these validated rows. *)
Inductive cnt_fn :=
  | CntKs (klen : nat)                                  (* aes.key_schedule *)
  | CntKe (klen col_in : nat) (col_out : option nat)    (* aes.key_expansion on windows *)
  | CntInv (round : option nat)                         (* aes.inv_key_schedule on round keys *)
  | CntDk (last : option nat).                          (* des.key_schedule *)

Record cnt_case := {
  cn_fn : cnt_fn;
  cn_keys : list packed;        (* the distinct master keys *)
  cn_inputs : list packed;      (* what is handed to the code for each distinct key (the key, its window, its round key) *)
  cn_runs : list (nat * N);     (* (index of the distinct key, number of consecutive rows) *)
  cn_shape : list N;            (* shape of the returned array *)
  cn_rows : list (N * packed)   (* (row number, the bytes of that row of the result) *)
}.

Fixpoint run_row (runs : list (nat * N)) (i : N) : option nat :=
  match runs with
  | [] => None
  | (k, c) :: t => if i <? c then Some k else run_row t (i - c)
  end.
Definition runs_total (runs : list (nat * N)) : N := fold_right (fun r acc => snd r + acc) 0 runs.

Definition opt_concat (o : option (list (list N))) : option (list N) :=
  match o with Some l => Some (concat l) | None => None end.

(* for one distinct key: (width of the input, the input the spec expects, the row the spec expects, the row of the model) *)
Definition cnt_one (f : cnt_fn) (master input : packed) : nat * list N * list N * option (list N) :=
  match f with
  | CntKs klen =>
    let key := unpack klen master in
    (klen, key, concat (round_keys (klen / 4) key), opt_concat (key_schedule_m (unpack klen input)))
  | CntKe klen ci co =>
    let sp := aes_ke_spec klen ci co master in
    (klen, fst sp, snd sp, key_expansion_m (unpack klen input) ci co)
  | CntInv r =>
    let sched := round_keys 4 (unpack 16 master) in
    let rr := match r with Some x => x | None => 10%nat end in
    (16%nat, nth rr sched [], concat sched, opt_concat (inv_key_schedule_m (unpack 16 input) r))
  | CntDk l =>
    let key := unpack 8 master in
    let ll := match l with Some x => x | None => 15%nat end in
    (8%nat, key, concat (firstn (S ll) (des_ks_spec key)), opt_concat (des_ks_m (unpack 8 input) l))
  end.

Definition cnt_params_ok (f : cnt_fn) : bool :=
  match f with
  | CntKs klen => nk_ok (klen / 4) && (klen =? 4 * (klen / 4))%nat
  | CntKe klen ci co =>
    let Nk := (klen / 4)%nat in
    let T := total_words Nk in
    nk_ok Nk && (klen =? 4 * Nk)%nat && (ci + Nk <=? T)%nat && (match co with Some c => c | None => T end <=? T)%nat
  | CntInv r => (match r with Some x => x | None => 10%nat end <=? 10)%nat
  | CntDk l => (match l with Some x => x | None => 15%nat end <=? 15)%nat
  end.

Definition cnt_shape (f : cnt_fn) (n : N) : list N :=
  match f with
  | CntKs klen => [n; N.of_nat (klen / 4 + 7); 16]
  | CntKe klen ci co =>
    let Nk := (klen / 4)%nat in
    let c := match co with Some c => c | None => total_words Nk end in
    [n; N.of_nat (if (ci <? c)%nat then 4 * (c - ci) else 4 * (ci + Nk - c))]
  | CntInv _ => [n; 11; 16]
  | CntDk l => [n; N.of_nat (S (match l with Some x => x | None => 15%nat end)); 8]
  end.

Definition cnt_expected (c : cnt_case) : list (list N) :=
  map (fun p => snd (fst (cnt_one (cn_fn c) (fst p) (snd p)))) (combine (cn_keys c) (cn_inputs c)).

Definition cnt_check (c : cnt_case) : bool :=
  let f := cn_fn c in
  let n := runs_total (cn_runs c) in
  let per_key := map (fun p => cnt_one f (fst p) (snd p)) (combine (cn_keys c) (cn_inputs c)) in
  cnt_params_ok f
  && (length (cn_keys c) =? length (cn_inputs c))%nat && (1 <? n)
  && forallb (fun r => (fst r <? length (cn_keys c))%nat) (cn_runs c)
  && nlist_eqb (cnt_shape f n) (cn_shape c)
  && negb (length (cn_rows c) =? 0)%nat
  && forallb (fun t => let '(w, inp, _, _) := fst t in nlist_eqb (unpack w (snd t)) inp) (combine per_key (cn_inputs c))
  && forallb (fun x => match run_row (cn_runs c) (fst x) with
                       | Some k => match nth_error per_key k with
                                   | Some (_, _, row, model) =>
                                     nlist_eqb row (snd x) && match model with Some m => nlist_eqb m (snd x) | None => false end
                                   | None => false
                                   end
                       | None => false
                       end) (cn_rows c).
