(* Model/SelFun.v — property C07: executable model of the ready-made attack selection functions
   (scared/{aes,des}/selection_functions/{encrypt,decrypt}.py, scared/selection_functions/base.py) and the case records / check
   functions of the correspondence harness tools/props/C07.py.  Definitions only; proofs are in Proofs/SelFun*.v.

   Read from the source on every run (T-tie, Generated/SelFunWiring.v): for every public class its computing function, its
   expected-key function, default guesses / words / tags; the decrypt aliases; the bodies of _first_key / _last_key as an index
   into the key schedule; the bodies of the computing helpers as array expressions (sf_expr: guess loop, swapaxes, primitives,
   broadcast xor), for DES the (at_round, after_step) handed to _des_function and its own body.
   Hand-modelled here (held by the C-tie): the meaning of these array expressions on nested lists ([eval_expr]: numpy
   swapaxes / broadcasting / fancy indexing), SelectionFunction.__call__ (`values.swapaxes(0, -1)[words].swapaxes(0, -1)`,
   python slice semantics, numpy index normalisation), the tag plumbing of _AttackSelectionFunctionWrapped.
   The spec side is Spec/SelFunTargets.v (which state each class targets) over Spec/Fips197.v and Spec/Fips46.v; the cipher
   primitives are the impl-models of the colleagues (Model/Aes.v: tbl SBOX ..., key_schedule_m; Model/Des.v: des_cipher,
   m_key_schedule). *)
From Coq Require Import NArith ZArith Bool Arith String List.
From ScaredV Require Import Generated.AesTables Generated.SelFunWiring Spec.Fips197 Spec.Fips46 Spec.SelFunTargets Run.Compare.
From ScaredV Require Model.Aes Model.Des.
Import ListNotations.
Open Scope N_scope.

(* ================================================================ lookups in the generated wiring *)
Fixpoint assoc_s {V} (k : string) (l : list (string * V)) : option V :=
  match l with [] => None | (k', v) :: t => if String.eqb k k' then Some v else assoc_s k t end.

Fixpoint find_row (name : string) (l : list sf_row) : option sf_row :=
  match l with [] => None | r :: t => if String.eqb name (r_name r) then Some r else find_row name t end.

Definition rename_row (n : string) (r : sf_row) : sf_row :=
  {| r_name := n; r_fn := r_fn r; r_keyfn := r_keyfn r; r_nguesses := r_nguesses r; r_words_none := r_words_none r;
     r_target_tag := r_target_tag r; r_key_tag := r_key_tag r |}.

(* `Name = encrypt.Other`: the decrypt class IS the encrypt class *)
Definition resolve_aliases (rows : list sf_row) (al : list (string * string)) : list sf_row :=
  flat_map (fun a => match find_row (snd a) rows with Some r => [rename_row (fst a) r] | None => [] end) al.

(* every public class of the namespace, as wired in the source *)
Definition aes_rows (ns : namespace) : list sf_row :=
  match ns with NsEncrypt => aes_encrypt_rows | NsDecrypt => resolve_aliases aes_encrypt_rows aes_decrypt_aliases end.
Definition des_rows (ns : namespace) : list sf_row :=
  match ns with NsEncrypt => des_encrypt_rows | NsDecrypt => resolve_aliases des_encrypt_rows des_decrypt_aliases end.

(* ================================================================ arrays as nested lists *)
Inductive tens := T2 (m : list (list N)) | T3 (c : list (list (list N))).

Definition inner_len {A} (l : list (list A)) : nat := match l with r :: _ => length r | [] => 0%nat end.

(* out[j][i] = l[i][j], for an inner dimension n *)
Definition transpose {A} (d : A) (n : nat) (l : list (list A)) : list (list A) :=
  map (fun j => map (fun row => nth j row d) l) (seq 0 n).

(* out[k][j][i] = c[i][j][k], for dimensions (_, nJ, nK) *)
Definition swap02d (nJ nK : nat) (c : list (list (list N))) : list (list (list N)) :=
  map (fun k => map (fun j => map (fun plane => nth k (nth j plane []) 0) c) (seq 0 nJ)) (seq 0 nK).

(* ndarray.swapaxes(i, j) *)
Definition swap_axes (i j : nat) (t : tens) : option tens :=
  match t with
  | T2 m =>
    match i, j with
    | 0, 1 | 1, 0 => Some (T2 (transpose 0%N (inner_len m) m))
    | 0, 0 | 1, 1 => Some t
    | _, _ => None
    end%nat
  | T3 c =>
    match i, j with
    | 0, 1 | 1, 0 => Some (T3 (transpose [] (inner_len c) c))
    | 1, 2 | 2, 1 => Some (T3 (map (fun m => transpose 0%N (inner_len m) m) c))
    | 0, 2 | 2, 0 => Some (T3 (swap02d (inner_len c) (inner_len (hd [] c)) c))
    | 0, 0 | 1, 1 | 2, 2 => Some t
    | _, _ => None
    end%nat
  end.

(* _np.bitwise_xor of arrays whose trailing dimensions agree (numpy broadcasting adds the leading axis) *)
Definition xor_rows (a b : list (list N)) : list (list N) := Aes.map2 Aes.bitwise_xor a b.
Definition xor_tens (a b : tens) : tens :=
  match a, b with
  | T2 x, T2 y => T2 (xor_rows x y)
  | T2 x, T3 c => T3 (map (xor_rows x) c)
  | T3 c, T2 y => T3 (map (fun p => xor_rows p y) c)
  | T3 c, T3 e => T3 (Aes.map2 xor_rows c e)
  end.

(* the aes primitives act on the rows (last axis, 16 bytes) *)
Definition prim_row (p : sf_prim) (r : list N) : list N :=
  match p with
  | SpSubBytes => Aes.sub_bytes_m r
  | SpInvSubBytes => Aes.inv_sub_bytes_m r
  | SpShiftRows => Aes.shift_rows_m r
  | SpInvShiftRows => Aes.inv_shift_rows_m r
  end.
Definition rows16 (m : list (list N)) : bool := forallb (fun r => Nat.eqb (length r) 16) m.
Definition prim_tens (p : sf_prim) (t : tens) : option tens :=
  match t with
  | T2 m => if rows16 m then Some (T2 (map (prim_row p) m)) else None
  | T3 c => if forallb rows16 c then Some (T3 (map (map (prim_row p)) c)) else None
  end.

(* body of the guess loop on one data row and one guess; (at_round, after_step) are the arguments of _des_function *)
Definition body_m (at_round after_step : nat) (b : sf_body) (d : list N) (g : N) : option (list N) :=
  match b with
  | BXor => Some (map (fun x => N.lxor x g) d)
  (* a pre-expanded key: no key schedule is computed (des_cipher_with [] = des_cipher on these key forms) *)
  | BDes dec n => Des.des_cipher_with [] dec (Des.resolve_des n None) at_round after_step (repeat g n) d
  end.

(* res = empty((len(guesses),) + data.shape); for i, g in enumerate(guesses): res[i] = body(data, g) *)
Definition loop_tens (body : list N -> N -> option (list N)) (data : list (list N)) (guesses : list N) : option tens :=
  option_map T3 (Aes.all_some (map (fun g => Aes.all_some (map (fun d => body d g) data)) guesses)).

Fixpoint eval_expr (body : sf_body -> list N -> N -> option (list N)) (e : sf_expr) (data : list (list N)) (guesses : list N)
  : option tens :=
  match e with
  | SeData => Some (T2 data)
  | SeGuessLoop b => loop_tens (body b) data guesses
  | SeSwap i j e' => match eval_expr body e' data guesses with Some t => swap_axes i j t | None => None end
  | SePrim p e' => match eval_expr body e' data guesses with Some t => prim_tens p t | None => None end
  | SeXor a b =>
    match eval_expr body a data guesses, eval_expr body b data guesses with
    | Some x, Some y => Some (xor_tens x y)
    | _, _ => None
    end
  end.

(* what the computing function of the class returns for (data, guesses) *)
Definition aes_values_m (row : sf_row) (data : list (list N)) (guesses : list N) : option tens :=
  match assoc_s (r_fn row) aes_helpers with
  | Some e => eval_expr (body_m 0 0) e data guesses
  | None => None
  end.
Definition des_values_m (row : sf_row) (data : list (list N)) (guesses : list N) : option tens :=
  match assoc_s (r_fn row) des_helpers with
  | Some (r, s) => eval_expr (body_m r s) des_function_expr data guesses
  | None => None
  end.

(* ================================================================ expected key *)
(* l[i] / l[-i] *)
Definition py_index {A} (k : sf_kidx) (l : list A) : option A :=
  match k with
  | KFromStart i => nth_error l i
  | KFromEnd i => if Nat.leb 1 i && Nat.leb i (length l) then nth_error l (length l - i) else None
  end.

Definition aes_expected_key_m (row : sf_row) (key : list N) : option (list N) :=
  match assoc_s (r_keyfn row) aes_keyfns, Aes.key_schedule_m key with
  | Some k, Some ks => py_index k ks
  | _, _ => None
  end.
(* des.key_schedule accepts 8-byte keys only *)
Definition des_expected_key_m (row : sf_row) (key : list N) : option (list N) :=
  match assoc_s (r_keyfn row) des_keyfns with
  | Some k => if Nat.eqb (length key) 8 then py_index k (Des.m_key_schedule key) else None
  | None => None
  end.

(* ================================================================ SelectionFunction.__call__: the `words` selection *)
Inductive words := WAll | WInt (i : Z) | WList (l : list Z) | WSlice (start stop step : option Z).

(* numpy index normalisation on an axis of length n; None = IndexError *)
Definition norm_index (n : nat) (i : Z) : option nat :=
  let n' := Z.of_nat n in
  if ((0 <=? i) && (i <? n'))%Z then Some (Z.to_nat i)
  else if ((- n' <=? i) && (i <? 0))%Z then Some (Z.to_nat (i + n'))
  else None.

(* slice(start, stop, step).indices(n), expanded: python slicing never fails on out-of-range bounds (step 0 is refused) *)
Definition slice_bounds (n : nat) (start stop step : option Z) : option (Z * Z * Z) :=
  let len := Z.of_nat n in
  let st := match step with Some s => s | None => 1%Z end in
  if (st =? 0)%Z then None else
  let clamp (v : Z) : Z :=
    if (v <? 0)%Z then (let v' := (v + len)%Z in if (v' <? 0)%Z then (if (st <? 0)%Z then (-1)%Z else 0%Z) else v')
    else if (len <=? v)%Z then (if (st <? 0)%Z then (len - 1)%Z else len) else v in
  let s0 := match start with Some v => clamp v | None => if (st <? 0)%Z then (len - 1)%Z else 0%Z end in
  let e0 := match stop with Some v => clamp v | None => if (st <? 0)%Z then (-1)%Z else len end in
  let cnt := if (st <? 0)%Z then (if (e0 <? s0)%Z then ((s0 - e0 - 1) / (- st) + 1)%Z else 0%Z)
             else (if (s0 <? e0)%Z then ((e0 - s0 - 1) / st + 1)%Z else 0%Z) in
  Some (s0, st, cnt).
Definition slice_positions (n : nat) (start stop step : option Z) : option (list nat) :=
  match slice_bounds n start stop step with
  | Some (s0, st, cnt) => Some (map (fun k => Z.to_nat (s0 + Z.of_nat k * st)) (seq 0 (Z.to_nat cnt)))
  | None => None
  end.

(* the selected positions on the words axis, in order *)
Definition words_positions (n : nat) (w : words) : option (list nat) :=
  match w with
  | WAll => Some (seq 0 n)
  | WInt i => option_map (fun p => [p]) (norm_index n i)
  | WList l => Aes.all_some (map (norm_index n) l)
  | WSlice a b c => slice_positions n a b c
  end.

(* values.swapaxes(0, -1)[words].swapaxes(0, -1) on a (nT, nG, nW) array; None = SelectionFunctionError *)
Definition call_words_m (nT nG nW : nat) (w : words) (v : list (list (list N))) : option tens :=
  match w with
  | WAll => Some (T3 v)
  | WInt i =>
    let sw := swap02d nG nW v in                                         (* (nW, nG, nT) *)
    match norm_index nW i with
    | Some p => Some (T2 (transpose 0 nT (nth p sw [])))                 (* (nG, nT) -> (nT, nG) *)
    | None => None
    end
  | _ =>
    let sw := swap02d nG nW v in
    match words_positions nW w with
    | Some ps => Some (T3 (swap02d nG nT (map (fun p => nth p sw []) ps)))   (* (|ps|, nG, nT) -> (nT, nG, |ps|) *)
    | None => None
    end
  end.

(* the statement side: full[:, :, W] *)
Definition select_words (nW : nat) (w : words) (v : list (list (list N))) : option tens :=
  match w with
  | WInt i => option_map (fun p => T2 (map (map (fun row => nth p row 0)) v)) (norm_index nW i)
  | _ => option_map (fun ps => T3 (map (map (fun row => map (fun p => nth p row 0) ps)) v)) (words_positions nW w)
  end.

(* the whole call: the function's values must be a 3-D array whose first dimension is the number of traces *)
Definition sf_call_m (values : option tens) (nT nG nW : nat) (w : words) : option tens :=
  match values with
  | Some (T3 v) => if Nat.eqb (length v) nT then call_words_m nT nG nW w v else None
  | _ => None
  end.

(* every entry is F(data[t], guesses[j], w): the (traces, guesses, words) array of the property *)
Definition full_F (F : list N -> N -> nat -> N) (nW : nat) (data : list (list N)) (guesses : list N) : list (list (list N)) :=
  map (fun d => map (fun g => map (fun w => F d g w) (seq 0 nW)) guesses) data.

Definition nrange (n : nat) : list N := map N.of_nat (seq 0 n).

(* full(x)[:, G positions, :] for guesses that are values of the default range *)
Definition select_guesses (G : list N) (v : list (list (list N))) : list (list (list N)) :=
  map (fun plane => map (fun g => nth (N.to_nat g) plane []) G) v.

(* a (nT, nG, nW) array *)
Definition rect3 (nT nG nW : nat) (v : list (list (list N))) : Prop :=
  length v = nT /\ Forall (fun plane => length plane = nG /\ Forall (fun row => length row = nW) plane) v.

(* ================================================================ impl-level word functions (tables) *)
Definition aes_F_m (f : aes_wordfn) (data : list N) (g : N) (w : nat) : N :=
  let x := N.lxor (nth w data 0) g in
  match f with
  | WfXor => x
  | WfSbox => Aes.tbl SBOX x
  | WfInvSbox => Aes.tbl INV_SBOX x
  | WfDelta => N.lxor (nth w (Aes.shift_rows_m data) 0) (Aes.tbl INV_SBOX x)
  end.

(* ================================================================ correspondence: observed arrays *)
Definition tens_of_flat (shape : list nat) (vals : list N) : option tens :=
  match shape with
  | [a; b] => if Nat.eqb (length vals) (a * b) then Some (T2 (chunks a b vals)) else None
  | [a; b; c] => if Nat.eqb (length vals) (a * b * c) then Some (T3 (map (chunks b c) (chunks a (b * c) vals))) else None
  | _ => None
  end.

Definition tens_eqb (a b : tens) : bool :=
  match a, b with
  | T2 x, T2 y => list_eqb nlist_eqb x y
  | T3 x, T3 y => list_eqb (list_eqb nlist_eqb) x y
  | _, _ => false
  end.

(* observed: Some (shape, C-order values), or None when the call raised SelectionFunctionError *)
Definition obs_matches (expected : option tens) (obs : option (list nat * list N)) : bool :=
  match expected, obs with
  | None, None => true
  | Some e, Some (shape, vals) => match tens_of_flat shape vals with Some o => tens_eqb e o | None => false end
  | _, _ => false
  end.

Definition dims_of (t : tens) : list nat :=
  match t with
  | T2 m => [length m; inner_len m]
  | T3 c => [length c; inner_len c; inner_len (hd [] c)]
  end.

(* ---------------------------------------------------------------- AES cases *)
Record aes_sf_case := {
  ac_ns : namespace; ac_name : string;        (* the class *)
  ac_key : list N;                            (* master key: 16 / 24 / 32 bytes *)
  ac_inp : list (list N);                     (* inputs of the operation of the namespace (plaintexts for encrypt, ciphertexts for decrypt), one per trace *)
  ac_out : list (list N);                     (* its outputs, computed by the real scared.aes.encrypt / decrypt under the key *)
  ac_guesses : option (list N);               (* None = the class default *)
  ac_words : words;
  ac_obs : option (list nat * list N);        (* the array returned by the selection function *)
  ac_expkey : list N                          (* compute_expected_key(key = key) *)
}.

Definition aes_case_Nk (c : aes_sf_case) : nat := (length (ac_key c) / 4)%nat.

(* SPEC check: every column is F of the spec row, the expected-key column is the targeted state of the real operation *)
Definition aes_sf_check (c : aes_sf_case) : bool :=
  match find_aes (ac_name c) (aes_targets (ac_ns c)) with
  | None => false
  | Some sp =>
    let Nk := aes_case_Nk c in
    let Nr := Nr_of Nk in
    let states := map (aes_states (ac_ns c) Nk (ac_key c)) (ac_inp c) in
    let outs := map (fun S => last S []) states in
    let datas := match as_data sp with DIn => ac_inp c | DOut => outs end in
    let k := nth (as_key_round sp Nr) (round_keys Nk (ac_key c)) [] in
    let G := match ac_guesses c with Some g => g | None => nrange aes_n_guesses end in
    let full := full_F (aes_F (as_F sp)) aes_n_words datas G in
    let sel := match words_positions aes_n_words (ac_words c) with Some ps => ps | None => [] end in
    negb (Nat.eqb (length (ac_inp c)) 0)
    && Aes.rows_ok 16 (ac_inp c)
    (* `ciphertext = encrypt key pt`: what the harness obtained from the real cipher is the standard's output *)
    && list_eqb nlist_eqb outs (ac_out c)
    (* expected key = the round key of the spec row, by the standard's key expansion *)
    && nlist_eqb k (ac_expkey c)
    (* every column g is F_w(data, g); shape (traces, guesses, words) *)
    && obs_matches (select_words aes_n_words (ac_words c) full) (ac_obs c)
    (* the expected-key column is the targeted state of the real operation *)
    && forallb2 (fun d S =>
         forallb (fun w => let g := nth w k 0 in
                    negb (existsb (N.eqb g) G)
                    || N.eqb (aes_F (as_F sp) d g w) (nth w (aes_target_state (as_target sp) Nr S) 0)) sel)
       datas states
  end.

(* which array the class reads under a tag, given what the harness put into the metadata *)
Definition aes_meta (c : aes_sf_case) (tag : string) : option (list (list N)) :=
  let pt := match ac_ns c with NsEncrypt => ac_inp c | NsDecrypt => ac_out c end in
  let ct := match ac_ns c with NsEncrypt => ac_out c | NsDecrypt => ac_inp c end in
  if String.eqb tag "plaintext"%string then Some pt else if String.eqb tag "ciphertext"%string then Some ct else None.

(* IMPL-MODEL check: the generated wiring evaluated on the same inputs *)
Definition aes_sf_corr (c : aes_sf_case) : bool :=
  match find_row (ac_name c) (aes_rows (ac_ns c)) with
  | None => false
  | Some row =>
    match aes_meta c (r_target_tag row) with
    | None => false
    | Some datas =>
      let G := match ac_guesses c with Some g => g | None => nrange (r_nguesses row) end in
      String.eqb (r_key_tag row) spec_key_tag
      && obs_matches (sf_call_m (aes_values_m row datas G) (length datas) (length G) 16 (ac_words c)) (ac_obs c)
      && match aes_expected_key_m row (ac_key c) with Some k => nlist_eqb k (ac_expkey c) | None => false end
    end
  end.

Definition aes_sf_expected (c : aes_sf_case) : option (list nat * tens) :=
  match find_aes (ac_name c) (aes_targets (ac_ns c)) with
  | None => None
  | Some sp =>
    let Nk := aes_case_Nk c in
    let states := map (aes_states (ac_ns c) Nk (ac_key c)) (ac_inp c) in
    let datas := match as_data sp with DIn => ac_inp c | DOut => map (fun S => last S []) states end in
    let G := match ac_guesses c with Some g => g | None => nrange aes_n_guesses end in
    option_map (fun t => (dims_of t, t)) (select_words aes_n_words (ac_words c) (full_F (aes_F (as_F sp)) aes_n_words datas G))
  end.

(* ---------------------------------------------------------------- DES / TDES cases *)
Record des_sf_case := {
  dc_ns : namespace; dc_name : string;
  dc_key : list N;                            (* 8 bytes (DES), 16 / 24 bytes (TDES: the classes then speak about the first / last pass) *)
  dc_inp : list (list N);                     (* inputs of the operation, one per trace *)
  dc_out : list (list N);                     (* its outputs, computed by the real scared.des.encrypt / decrypt *)
  dc_guesses : option (list N);
  dc_words : words;
  dc_obs : option (list nat * list N);
  dc_expkey : list N                          (* compute_expected_key(key = the 8-byte key of the pass concerned) *)
}.

(* the passes of the operation (one for DES, three for TDES) *)
Definition des_case_passes (c : des_sf_case) : list (dir * list (list N)) :=
  tdea_passes (des_dir (dc_ns c)) (map des_key_schedule (chunks (length (dc_key c) / 8) 8 (dc_key c))).

(* the pass a row speaks about (the first one for DIn, the last one for DOut), its round keys in order of use, and its input *)
Definition des_case_pass (c : des_sf_case) (sp : des_sf_spec) (inp : list N) : list (list N) * list N :=
  let ps := des_case_passes c in
  match ds_data sp with
  | DIn => let q := hd (Enc, []) ps in (pass_rks (fst q) (snd q), inp)
  | DOut => let q := last ps (Enc, []) in (pass_rks (fst q) (snd q), run_passes (removelast ps) inp)
  end.

Definition des_sf_check (c : des_sf_case) : bool :=
  match find_des (dc_name c) (des_targets (dc_ns c)) with
  | None => false
  | Some sp =>
    let ps := des_case_passes c in
    let outs := map (run_passes ps) (dc_inp c) in
    let datas := match ds_data sp with DIn => dc_inp c | DOut => outs end in
    let rks := fst (des_case_pass c sp []) in
    let k := nth (ds_key_use sp) rks [] in
    let G := match dc_guesses c with Some g => g | None => nrange des_n_guesses end in
    let full := full_F (des_F (ds_step sp)) des_n_words datas G in
    let sel := match words_positions des_n_words (dc_words c) with Some ps => ps | None => [] end in
    negb (Nat.eqb (length (dc_inp c)) 0)
    && negb (Nat.eqb (length ps) 0)
    && Aes.rows_ok 8 (dc_inp c)
    && forallb (fun g => g <? 64) G
    && list_eqb nlist_eqb outs (dc_out c)
    && nlist_eqb k (dc_expkey c)
    && obs_matches (select_words des_n_words (dc_words c) full) (dc_obs c)
    && forallb2 (fun d inp =>
         let x := snd (des_case_pass c sp inp) in
         let target := des_state_at rks x (fst (ds_at sp)) (snd (ds_at sp)) in
         forallb (fun w => let g := nth w k 0 in
                    negb (existsb (N.eqb g) G) || N.eqb (des_F (ds_step sp) d g w) (nth w target 0)) sel)
       datas (dc_inp c)
  end.

Definition des_meta (c : des_sf_case) (tag : string) : option (list (list N)) :=
  let pt := match dc_ns c with NsEncrypt => dc_inp c | NsDecrypt => dc_out c end in
  let ct := match dc_ns c with NsEncrypt => dc_out c | NsDecrypt => dc_inp c end in
  if String.eqb tag "plaintext"%string then Some pt else if String.eqb tag "ciphertext"%string then Some ct else None.

(* the 8-byte key of the pass the row speaks about (what the harness hands to compute_expected_key) *)
Definition des_case_subkey (c : des_sf_case) (tag : string) : list N :=
  let ks := chunks (length (dc_key c) / 8) 8 (dc_key c) in
  let k1 := nth 0 ks [] in
  let k3 := last ks [] in
  let k3' := if Nat.eqb (length ks) 2 then k1 else k3 in     (* two-key TDES: K3 = K1 *)
  let first_pass := match dc_ns c with NsEncrypt => k1 | NsDecrypt => k3' end in
  let last_pass := match dc_ns c with NsEncrypt => k3' | NsDecrypt => k1 end in
  (* the class reading the input of the operation speaks about the first pass *)
  let reads_input := match dc_ns c with NsEncrypt => String.eqb tag "plaintext"%string | NsDecrypt => String.eqb tag "ciphertext"%string end in
  if reads_input then first_pass else last_pass.

Definition des_sf_corr (c : des_sf_case) : bool :=
  match find_row (dc_name c) (des_rows (dc_ns c)) with
  | None => false
  | Some row =>
    match des_meta c (r_target_tag row) with
    | None => false
    | Some datas =>
      let G := match dc_guesses c with Some g => g | None => nrange (r_nguesses row) end in
      String.eqb (r_key_tag row) spec_key_tag
      && obs_matches (sf_call_m (des_values_m row datas G) (length datas) (length G) 8 (dc_words c)) (dc_obs c)
      && match des_expected_key_m row (des_case_subkey c (r_target_tag row)) with Some k => nlist_eqb k (dc_expkey c) | None => false end
    end
  end.

Definition des_sf_expected (c : des_sf_case) : option (list nat * tens) :=
  match find_des (dc_name c) (des_targets (dc_ns c)) with
  | None => None
  | Some sp =>
    let ps := des_case_passes c in
    let datas := match ds_data sp with DIn => dc_inp c | DOut => map (run_passes ps) (dc_inp c) end in
    let G := match dc_guesses c with Some g => g | None => nrange des_n_guesses end in
    option_map (fun t => (dims_of t, t)) (select_words des_n_words (dc_words c) (full_F (des_F (ds_step sp)) des_n_words datas G))
  end.

(* ---------------------------------------------------------------- the words selection alone, on an arbitrary 3-D array
   (reverse / plain selection functions share SelectionFunction.__call__): shape and contents *)
Record words_case := {
  wc_dims : nat * nat * nat;                  (* (nT, nG, nW) *)
  wc_vals : list N;                           (* C-order values of the function's output *)
  wc_words : words;
  wc_obs : option (list nat * list N) }.

Definition words_check (c : words_case) : bool :=
  let '(nT, nG, nW) := wc_dims c in
  match tens_of_flat [nT; nG; nW] (wc_vals c) with
  | Some (T3 v) => obs_matches (select_words nW (wc_words c) v) (wc_obs c) && obs_matches (call_words_m nT nG nW (wc_words c) v) (wc_obs c)
  | _ => false
  end.

(* ---------------------------------------------------------------- count boundaries: very many traces, few distinct rows
   The batch is given run-length encoded: [runs] = (index of a distinct row, repetitions), expanded with [repeat].  The base case holds
   the DISTINCT rows as its inputs and, as its observation, the planes of the big result at the first occurrence of every distinct
   row (validated by the ordinary check); of the big result itself the harness exports its shape, a sample of (trace, guess, word)
   entries and every guess column of some whole traces (the first and the last one).  Expected big array = the per-row planes
   expanded along the runs (Proofs/SelFunArr.v: full_F and select_words commute with the expansion). *)
Definition expand {A} (d : A) (rows : list A) (runs : list (nat * nat)) : list A :=
  flat_map (fun r => repeat (nth (fst r) rows d) (snd r)) runs.

Definition runs_ok (n : nat) (runs : list (nat * nat)) : bool := forallb (fun r => Nat.ltb (fst r) n) runs.

Definition expand_tens (t : tens) (runs : list (nat * nat)) : tens :=
  match t with T2 m => T2 (expand [] m runs) | T3 c => T3 (expand [] c runs) end.

Record big_obs := {
  bo_runs : list (nat * nat);
  bo_shape : list nat;                          (* shape of the big result *)
  bo_samples : list (nat * nat * nat * N);      (* (trace, guess position, word position, value); the word position is ignored for a 2-D result *)
  bo_traces : list (nat * list N) }.            (* (trace, all its values in C order) *)

Definition tens_entry (t : tens) (tr j w : nat) : N :=
  match t with T2 m => nth j (nth tr m []) 0 | T3 c => nth w (nth j (nth tr c []) []) 0 end.
Definition tens_trace (t : tens) (tr : nat) : list N :=
  match t with T2 m => nth tr m [] | T3 c => concat (nth tr c []) end.

Definition big_check (small : option tens) (nrows : nat) (b : big_obs) : bool :=
  match small with
  | None => false
  | Some s =>
    let e := expand_tens s (bo_runs b) in
    runs_ok nrows (bo_runs b)
    && natlist_eqb (dims_of e) (bo_shape b)
    && forallb (fun x => let '(tr, j, w, v) := x in N.eqb (tens_entry e tr j w) v) (bo_samples b)
    && forallb (fun x => nlist_eqb (tens_trace e (fst x)) (snd x)) (bo_traces b)
  end.

Record aes_big_case := { ab_base : aes_sf_case; ab_big : big_obs }.
Definition aes_big_check (c : aes_big_case) : bool :=
  aes_sf_check (ab_base c)
  && big_check (option_map snd (aes_sf_expected (ab_base c))) (length (ac_inp (ab_base c))) (ab_big c).
Definition aes_big_corr (c : aes_big_case) : bool := aes_sf_corr (ab_base c).

Record des_big_case := { db_base : des_sf_case; db_big : big_obs }.
Definition des_big_check (c : des_big_case) : bool :=
  des_sf_check (db_base c)
  && big_check (option_map snd (des_sf_expected (db_base c))) (length (dc_inp (db_base c))) (db_big c).
Definition des_big_corr (c : des_big_case) : bool := des_sf_corr (db_base c).
