(* Model/Models.v — spec and impl-model of scared/models.py and scared/discriminants.py (property C15).
   Executable definitions only; proofs are in Proofs/Models.v. *)
From Coq Require Import NArith ZArith QArith List Bool Lia.
From ScaredV Require Import Generated.HwLut Run.Compare.
Import ListNotations.
Open Scope N_scope.

(* ---------------------------------------------------------------- spec: population count *)
Fixpoint pop_pos (p : positive) : N :=
  match p with xH => 1 | xO q => pop_pos q | xI q => 1 + pop_pos q end.
Definition popcount (x : N) : N := match x with N0 => 0 | Npos p => pop_pos p end.

(* ---------------------------------------------------------------- impl-model: table-driven Hamming weights *)
Definition lut (x : N) : N := nth (N.to_nat x) HW_LUT 0.
Definition fhw8 (x : N) : N := lut x.
Definition fhw16 (x : N) : N := lut (N.land x fhw16_mask) + lut (N.shiftr x fhw16_shift).
Fixpoint fhw_loop (n : nat) (mask shift x r : N) : N :=
  match n with
  | O => r
  | S n' => fhw_loop n' mask shift (N.shiftr x shift) (r + lut (N.land x mask))
  end.
Definition fhw32 (x : N) : N := fhw_loop fhw32_loops fhw32_mask fhw32_shift x 0.
Definition fhw64 (x : N) : N := fhw_loop fhw64_loops fhw64_mask fhw64_shift x 0.

Definition hw_fun (id : nat) : N -> N :=
  match id with O => fhw8 | 1%nat => fhw16 | 2%nat => fhw32 | _ => fhw64 end.

Fixpoint assoc_n (k : N) (l : list (N * nat)) : option nat :=
  match l with [] => None | (k', v) :: t => if N.eqb k k' then Some v else assoc_n k t end.

(* the function the code dispatches to for a dtype of [sz] bytes *)
Definition hw_of_itemsize (sz : N) : option (N -> N) :=
  match assoc_n sz hw_dispatch with Some id => Some (hw_fun id) | None => None end.

(* ---------------------------------------------------------------- arrays: C-order flat data + shape, lanes along an axis *)
Definition prodn (l : list nat) : nat := fold_right Nat.mul 1%nat l.
Definition nsum (l : list N) : N := fold_right N.add 0 l.

Definition outer_of (shape : list nat) (axis : nat) : nat := prodn (firstn axis shape).
Definition len_of (shape : list nat) (axis : nat) : nat := nth axis shape 0%nat.
Definition inner_of (shape : list nat) (axis : nat) : nat := prodn (skipn (S axis) shape).

(* element (o, j, i) of an array seen as (outer, L, inner) *)
Definition at3 {A} (d : A) (L inner : nat) (flat : list A) (o j i : nat) : A :=
  nth ((o * L + j) * inner + i)%nat flat d.

(* HammingWeight(nb_words = k) along [axis]: output seen as (outer, L / k, inner), C order *)
Definition hw_array (f : N -> N) (k : nat) (shape : list nat) (axis : nat) (flat : list N) : list N :=
  let outer := outer_of shape axis in
  let L := len_of shape axis in
  let inner := inner_of shape axis in
  flat_map (fun o =>
    flat_map (fun g =>
      map (fun i => nsum (map (fun j => f (at3 0 L inner flat o (g * k + j)%nat i)) (seq 0 k)))
          (seq 0 inner))
      (seq 0 (L / k)%nat))
    (seq 0 outer).

Fixpoint replace_nth {A} (n : nat) (v : A) (l : list A) : list A :=
  match l, n with
  | [], _ => []
  | _ :: t, O => v :: t
  | h :: t, S n' => h :: replace_nth n' v t
  end.

Definition hw_out_shape (k : nat) (shape : list nat) (axis : nat) : list nat :=
  replace_nth axis (len_of shape axis / k)%nat shape.

Record hw_case := {
  hw_itemsize : N;            (* bytes per word: 1, 2, 4, 8 *)
  hw_k : nat;                 (* nb_words *)
  hw_shape : list nat;
  hw_axis : nat;
  hw_in : list N;             (* C-order flat input *)
  hw_obs_shape : list nat;    (* observed output shape *)
  hw_obs : list N             (* observed C-order flat output *)
}.

Definition hw_expected_spec (c : hw_case) : list N :=
  hw_array popcount (hw_k c) (hw_shape c) (hw_axis c) (hw_in c).

Definition hw_check (c : hw_case) : bool :=
  natlist_eqb (hw_out_shape (hw_k c) (hw_shape c) (hw_axis c)) (hw_obs_shape c)
  && nlist_eqb (hw_expected_spec c) (hw_obs c)
  && match hw_of_itemsize (hw_itemsize c) with
     | Some f => nlist_eqb (hw_array f (hw_k c) (hw_shape c) (hw_axis c) (hw_in c)) (hw_obs c)
     | None => false
     end.

(* ---------------------------------------------------------------- Monobit / Value *)
Definition monobit (b : N) (x : Z) : N := if Z.testbit x (Z.of_N b) then 1 else 0.

Record mono_case := { mono_bit : N; mono_in : list Z; mono_obs : list N }.
Definition mono_check (c : mono_case) : bool := nlist_eqb (map (monobit (mono_bit c)) (mono_in c)) (mono_obs c).

Record value_case := { val_in : list Z; val_obs : list Z }.
Definition value_check (c : value_case) : bool := zlist_eqb (val_in c) (val_obs c).

(* ---------------------------------------------------------------- discriminants over lanes of option Q (None = NaN) *)
Definition oq := option Q.

Definition qmax (a b : Q) : Q := if Qle_bool a b then b else a.

(* max of the non-NaN entries; None when there is none *)
Fixpoint lane_nanmax (l : list oq) : oq :=
  match l with
  | [] => None
  | None :: t => lane_nanmax t
  | Some x :: t => match lane_nanmax t with None => Some x | Some m => Some (qmax x m) end
  end.

Fixpoint lane_nansum (l : list oq) : Q :=
  match l with
  | [] => 0%Q
  | None :: t => lane_nansum t
  | Some x :: t => (x + lane_nansum t)%Q
  end.

Definition omap (f : Q -> Q) (v : oq) : oq := match v with Some x => Some (f x) | None => None end.

Inductive disc_op := DNanmax | DMaxabs | DOppositeMin | DNansum | DAbssum.

Definition disc_lane (op : disc_op) (l : list oq) : oq :=
  match op with
  | DNanmax => lane_nanmax l
  | DMaxabs => lane_nanmax (map (omap Qabs') l)
  | DOppositeMin => lane_nanmax (map (omap Qopp) l)
  | DNansum => Some (lane_nansum l)
  | DAbssum => Some (lane_nansum (map (omap Qabs') l))
  end.

(* reduce [axis] of an array given by shape and C-order flat data *)
Definition reduce_axis {A B} (d : A) (f : list A -> B) (shape : list nat) (axis : nat) (flat : list A) : list B :=
  let outer := outer_of shape axis in
  let L := len_of shape axis in
  let inner := inner_of shape axis in
  flat_map (fun o => map (fun i => f (map (fun j => at3 d L inner flat o j i) (seq 0 L))) (seq 0 inner)) (seq 0 outer).

Fixpoint remove_nth {A} (n : nat) (l : list A) : list A :=
  match l, n with
  | [], _ => []
  | _ :: t, O => t
  | h :: t, S n' => h :: remove_nth n' t
  end.

Record disc_case := {
  dc_op : disc_op;
  dc_shape : list nat;
  dc_axis : nat;
  dc_in : list fval;
  dc_obs_shape : list nat;
  dc_obs : list fval
}.

Definition disc_expected (c : disc_case) : list oq :=
  reduce_axis None (disc_lane (dc_op c)) (dc_shape c) (dc_axis c) (map fval_q (dc_in c)).

Definition disc_check (c : disc_case) : bool :=
  natlist_eqb (remove_nth (dc_axis c) (dc_shape c)) (dc_obs_shape c)
  && forallb (fun v => negb (is_inf v)) (dc_in c)
  && forallb2 (fun v m => fval_matches 0 0 v m) (dc_obs c) (disc_expected c).
