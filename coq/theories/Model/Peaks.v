(* Model/Peaks.v — spec and impl-model of scared/signal_processing/peaks_detection.py : find_peaks, find_width
   (property C19).  Executable definitions only; proofs are in Proofs/Peaks.v.

   Values are canonical rationals (Qc); a "real array" is a list of Qc.  Indices are nat.
   find_peaks is the REPAIRED scan (fix commit f9e9478): eliminated candidates are skipped, never dereferenced.
   The array `maximas` of the code (candidate indices, -1 = eliminated) is modelled as a static list of
   (index, value) pairs plus a parallel list of "still alive" flags; since only the flags change, both loops
   are structural recursions on the static list and no fuel is needed. *)
From Coq Require Import NArith ZArith QArith Qcanon List Bool Lia.
From ScaredV Require Import Run.Compare Lib.QcSum.
Import ListNotations.
Local Open Scope nat_scope.

(* ---------------------------------------------------------------- order on Qc as booleans *)
Definition qlt_b (a b : Qc) : bool := (Qnum a * QDen b <? Qnum b * QDen a)%Z.       (* a < b *)
Definition qle_b (a b : Qc) : bool := negb (qlt_b b a).                            (* a <= b *)

(* min_peak_height : a float, or -inf / +inf *)
Inductive height := HNegInf | HFin (h : Qc) | HPosInf.
Definition ge_height (h : height) (v : Qc) : bool :=      (* data >= min_peak_height *)
  match h with HNegInf => true | HFin t => qle_b t v | HPosInf => false end.
Definition ge_height_P (h : height) (v : Qc) : Prop :=
  match h with HNegInf => True | HFin t => (t <= v)%Qc | HPosInf => False end.

Definition adist (a b : nat) : nat := (a - b) + (b - a).   (* |a - b| on nat (one of the two terms is 0) *)

(* ---------------------------------------------------------------- spec: candidates *)
Definition dat (data : list Qc) (i : nat) : Qc := nth i data 0%Qc.

(* i is a local maximum (plateaus and both ends included) not lower than the height threshold *)
Definition is_candidate (data : list Qc) (h : height) (i : nat) : Prop :=
  i < length data
  /\ (i = 0 \/ (dat data (i - 1) <= dat data i)%Qc)
  /\ (S i = length data \/ (dat data (S i) <= dat data i)%Qc)
  /\ ge_height_P h (dat data i).

(* ---------------------------------------------------------------- impl-model *)
Definition cnd := (nat * Qc)%type.      (* candidate: index, data[index] *)

Definition is_max_b (data : list Qc) (i : nat) : bool :=
  ((i =? 0) || qle_b (dat data (i - 1)) (dat data i))
  && ((S i =? length data) || qle_b (dat data (S i)) (dat data i)).

(* np.where((data >= h) & tmp) : ascending candidate indices, each with its value *)
Definition cands (data : list Qc) (h : height) : list cnd :=
  filter (fun c => is_max_b data (fst c) && ge_height h (snd c)) (combine (seq 0 (length data)) data).

Section Scan.
  Variable d : nat.                     (* min_peak_distance *)

  (* inner while-loop for the (alive) candidate c over the later candidates [rest] with flags [fl];
     returns (c still alive?, new flags) *)
  Fixpoint scan (c : cnd) (rest : list cnd) (fl : list bool) : bool * list bool :=
    match rest, fl with
    | q :: qs, b :: bs =>
      if negb b then let '(a, bs') := scan c qs bs in (a, b :: bs')            (* eliminated entry: skipped   *)
      else if adist (fst c) (fst q) <? d then
             if qlt_b (snd c) (snd q) then (false, b :: bs)                      (* c eliminated: stop          *)
             else let '(a, bs') := scan c qs bs in (a, false :: bs')             (* q eliminated, go on         *)
           else (true, b :: bs)                                                  (* far enough: stop            *)
    | _, _ => (true, fl)
    end.

  (* outer for-loop *)
  Fixpoint go (cs : list cnd) (fl : list bool) : list bool :=
    match cs, fl with
    | c :: rest, b :: bs =>
      if b then let '(a, bs') := scan c rest bs in a :: go rest bs'
      else false :: go rest bs
    | _, _ => []
    end.
End Scan.

(* maximas[maximas > -1] *)
Fixpoint select (cs : list cnd) (fl : list bool) : list nat :=
  match cs, fl with
  | c :: rest, b :: bs => if b then fst c :: select rest bs else select rest bs
  | _, _ => []
  end.

Definition find_peaks_from (cs : list cnd) (d : nat) : list nat := select cs (go d cs (repeat true (length cs))).

Definition find_peaks (data : list Qc) (d : nat) (h : height) : list nat := find_peaks_from (cands data h) d.

(* ---------------------------------------------------------------- find_width *)
Inductive direction := Positive | Negative.

(* sign*data >= sign*threshold with sign = -1 (Positive) / +1 (Negative): the sample is NOT strictly beyond *)
Definition not_beyond (dir : direction) (thr v : Qc) : bool :=
  match dir with Positive => qle_b v thr | Negative => qle_b thr v end.
Definition beyond_P (dir : direction) (thr v : Qc) : Prop :=
  match dir with Positive => (thr < v)%Qc | Negative => (v < thr)%Qc end.

(* width bounds: min only / [min, max] / [min - delta, min + delta]  (on the number of samples of the run) *)
Inductive wmode := WMin (mn : nat) | WMinMax (mn mx : nat) | WDelta (mn dl : nat).

(* the test of the code, on widths = difference of consecutive not-beyond indices = run length + 1 *)
Definition width_sel (m : wmode) (wd : nat) : bool :=
  match m with
  | WMin mn => mn <? wd
  | WMinMax mn mx => (mn <? wd) && (wd <=? mx + 1)
  | WDelta mn dl => (mn - dl <? wd) && (wd <=? mn + dl + 1)
  end.
(* the documented bound on the run length *)
Definition width_ok (m : wmode) (len : nat) : Prop :=
  match m with
  | WMin mn => mn <= len
  | WMinMax mn mx => mn <= len <= mx
  | WDelta mn dl => mn - dl <= len <= mn + dl
  end.
(* argument check of the code: min_width > 0, max_width > 0, 0 < delta < min_width *)
Definition wmode_valid (m : wmode) : bool :=
  match m with
  | WMin mn => 0 <? mn
  | WMinMax mn mx => (0 <? mn) && (0 <? mx)
  | WDelta mn dl => (0 <? dl) && (dl <? mn)
  end.

Definition adj {A} (l : list A) : list (A * A) := combine l (tl l).

(* tmp = np.where(sign * data >= sign * threshold)[0] *)
Definition not_beyond_idx (data : list Qc) (dir : direction) (thr : Qc) : list nat :=
  filter (fun i => not_beyond dir thr (dat data i)) (seq 0 (length data)).

Definition find_width_from (tmp : list nat) (m : wmode) : list (nat * nat) :=
  map (fun ab => (S (fst ab), snd ab))
      (filter (fun ab => width_sel m (snd ab - fst ab)) (adj tmp)).

Definition find_width (data : list Qc) (dir : direction) (thr : Qc) (m : wmode) : list (nat * nat) :=
  find_width_from (not_beyond_idx data dir thr) m.

(* spec: [s, e) is a maximal run strictly beyond the threshold, bracketed on both sides *)
Definition bracketed_run (data : list Qc) (dir : direction) (thr : Qc) (s e : nat) : Prop :=
  1 <= s /\ s < e /\ e < length data
  /\ (forall k, s <= k < e -> beyond_P dir thr (dat data k))
  /\ ~ beyond_P dir thr (dat data (s - 1))
  /\ ~ beyond_P dir thr (dat data e).

(* ---------------------------------------------------------------- correspondence checks (C-tie) *)
Definition qcz (z : Z) : Qc := Q2Qc (inject_Z z).

Inductive zheight := ZNegInf | ZFin (z : Z) | ZPosInf.
Definition height_of (h : zheight) : height :=
  match h with ZNegInf => HNegInf | ZFin z => HFin (qcz z) | ZPosInf => HPosInf end.

(* one call find_peaks(data, d, h) and the indices it returned *)
Record pk_query := pkq { pq_d : nat; pq_h : zheight; pq_obs : list nat }.

(* a set of naturals below [bits] as the bits of a binary natural number (compact case files) *)
Definition unmask (bits : nat) (m : N) : list nat := filter (fun i => N.testbit m (N.of_nat i)) (seq 0 bits).

(* data and finite heights are given as integers (the harness scales dyadic values by a common power of two).
   Two ways to give the calls: [pk_queries] explicitly, and a grid: for every height of [pk_hs] (outer) and every
   distance 0 .. pk_nd - 1 (inner) the set of the returned indices as a bit mask, in [pk_masks]. *)
Record pk_case := { pk_data : list Z; pk_queries : list pk_query; pk_hs : list zheight; pk_nd : nat; pk_masks : list N }.

Definition pk_grid_obs (c : pk_case) : list (list nat) := map (unmask (length (pk_data c))) (pk_masks c).

Definition pk_grid_queries (c : pk_case) : list pk_query :=
  map (fun hdo => pkq (snd (fst hdo)) (fst (fst hdo)) (snd hdo))
      (combine (flat_map (fun h => map (fun d => (h, d)) (seq 0 (pk_nd c))) (pk_hs c)) (pk_grid_obs c)).

Fixpoint sorted_sep (d : nat) (l : list nat) : bool :=
  match l with
  | [] => true
  | i :: t => match t with [] => true | j :: _ => (i <? j) && (i + d <=? j) end && sorted_sep d t
  end.

Definition is_candidate_b (data : list Qc) (h : height) (i : nat) : bool :=
  (i <? length data) && is_max_b data i && ge_height h (dat data i).

Definition mem (i : nat) (l : list nat) : bool := existsb (Nat.eqb i) l.

Fixpoint exists_lazy {A} (f : A -> bool) (l : list A) : bool :=
  match l with [] => false | x :: t => if f x then true else exists_lazy f t end.

(* The property clauses, evaluated on the OBSERVED result [obs] of a call with distance d.  rows = (position, candidate
   flag by the definition, value) of every sample.  Positions are also carried as binary numbers and the result is walked
   in step with the rows, so that the evaluation is O(len * (len + d)) cheap steps even for thousands of samples
   (unary nat comparisons cost their value). *)
Definition prow := (nat * N * (bool * Qc))%type.
Definition pr_pos (r : prow) : N := snd (fst r).
Definition pr_cand (r : prow) : bool := fst (snd r).
Definition pr_val (r : prow) : Qc := snd (snd r).

(* every returned index (ascending) is a position flagged as candidate *)
Fixpoint all_candidates (rows : list prow) (obs : list N) : bool :=
  match obs with
  | [] => true
  | o :: os =>
    (fix walk (rows : list prow) : bool :=
       match rows with
       | [] => false
       | r :: rs => if N.eqb (pr_pos r) o then (if pr_cand r then all_candidates rs os else false) else walk rs
       end) rows
  end.

(* the candidates that are not returned *)
Fixpoint dropped (rows : list prow) (obs : list N) : list prow :=
  match rows with
  | [] => []
  | r :: rs =>
    match obs with
    | o :: os => if N.eqb (pr_pos r) o then dropped rs os
                 else if pr_cand r then r :: dropped rs obs else dropped rs obs
    | [] => if pr_cand r then r :: dropped rs obs else dropped rs obs
    end
  end.

Definition ndist (a b : N) : N := if N.leb a b then (b - a)%N else (a - b)%N.

Definition pk_clauses (data : list Qc) (cf : list bool) (d : nat) (obs : list nat) : bool :=
  let n := length data in
  let idx := seq 0 n in
  let rows : list prow := combine (combine idx (map N.of_nat idx)) (combine cf data) in
  let obsN := map N.of_nat obs in
  let dN := N.of_nat d in
  (* ascending, pairwise at least d apart *)
  if sorted_sep d obs then
    (* only candidates *)
    if all_candidates rows obsN then
      (* every dropped candidate is dominated by ANOTHER candidate closer than d with a value at least as large; only the
         positions i-d+1 .. i+d-1 can qualify, so only that slice of the rows is searched *)
      forallb (fun r : prow =>
                 let i := fst (fst r) in
                 exists_lazy (fun q : prow => if pr_cand q then
                                                if N.eqb (pr_pos q) (pr_pos r) then false
                                                else if N.ltb (ndist (pr_pos r) (pr_pos q)) dN then qle_b (pr_val r) (pr_val q) else false
                                              else false)
                             (firstn (2 * d - 1) (skipn (i + 1 - d) rows)))
              (dropped rows obsN)
    else false
  else false.

(* all the calls with one height.  PROPERTY level: only the clauses of the property, on the observed result
   (candidates only; ascending and >= d apart; every dropped candidate dominated - hence isolated maxima kept) *)
Definition pk_h_check (data : list Qc) (h : height) (calls : list (nat * list nat)) : bool :=
  let cf := map (is_candidate_b data h) (seq 0 (length data)) in          (* candidate flags, by the definition *)
  forallb (fun c => pk_clauses data cf (fst c) (snd c)) calls.

(* CORRESPONDENCE level: the observed result is the one of the repaired scan (fixes the tie-breaking, which the
   property leaves open) *)
Definition pk_h_corr (data : list Qc) (h : height) (calls : list (nat * list nat)) : bool :=
  let cs := cands data h in
  forallb (fun c => natlist_eqb (find_peaks_from cs (fst c)) (snd c)) calls.

Definition pk_query_check (data : list Qc) (q : pk_query) : bool :=
  pk_h_check data (height_of (pq_h q)) [(pq_d q, pq_obs q)].
Definition pk_query_corr (data : list Qc) (q : pk_query) : bool :=
  pk_h_corr data (height_of (pq_h q)) [(pq_d q, pq_obs q)].

Fixpoint chunks {A} (k : nat) (fuel : nat) (l : list A) : list (list A) :=
  match fuel with
  | O => []
  | S f => firstn k l :: chunks k f (skipn k l)
  end.

Definition pk_run (hf : list Qc -> height -> list (nat * list nat) -> bool) (c : pk_case) : bool :=
  let data := map qcz (pk_data c) in
  (length (pk_masks c) =? length (pk_hs c) * pk_nd c)
  && forallb (fun q => hf data (height_of (pq_h q)) [(pq_d q, pq_obs q)]) (pk_queries c)
  && forallb2 (fun h obs => hf data (height_of h) (combine (seq 0 (pk_nd c)) obs))
              (pk_hs c) (chunks (pk_nd c) (length (pk_hs c)) (pk_grid_obs c)).

Definition pk_check (c : pk_case) : bool := pk_run pk_h_check c.     (* property clauses only *)
Definition pk_corr (c : pk_case) : bool := pk_run pk_h_corr c.       (* equality with the model scan *)

(* for the replay files: d, h, result of the model scan, observed, property clauses hold on the observed result? *)
Definition pk_expected (c : pk_case) : list (nat * zheight * list nat * list nat * bool) :=
  let data := map qcz (pk_data c) in
  map (fun q => (pq_d q, pq_h q, find_peaks data (pq_d q) (height_of (pq_h q)), pq_obs q, pk_query_check data q))
      (filter (fun q => negb (pk_query_check data q && pk_query_corr data q)) (pk_queries c ++ pk_grid_queries c)).

(* find_width: one call and the rows [start, end] it returned *)
Inductive zwmode := ZWMin (mn : nat) | ZWMinMax (mn mx : nat) | ZWDelta (mn dl : nat) | ZWMinMaxDelta (mn mx dl : nat).
Definition wmode_of (m : zwmode) : wmode :=
  match m with
  | ZWMin mn => WMin mn | ZWMinMax mn mx => WMinMax mn mx | ZWDelta mn dl => WDelta mn dl
  | ZWMinMaxDelta mn mx _ => WMinMax mn mx              (* max_width given: delta is ignored (the code warns) *)
  end.

Record fw_query := fwq { fq_dir : direction; fq_thr : Z; fq_mode : zwmode; fq_obs : list (nat * nat) }.
(* explicit calls, and a grid: both directions (outer) x thresholds [fw_thrs] x modes [fw_modes] (inner), for each
   the returned rows as a bit mask: bit s for a start s, bit len + 1 + e for an end e, k-th start paired with k-th end *)
Record fw_case := { fw_data : list Z; fw_queries : list fw_query;
                    fw_thrs : list Z; fw_modes : list zwmode; fw_masks : list N }.

Definition fw_grid_rows (c : fw_case) : list (list (nat * nat)) :=
  let n1 := S (length (fw_data c)) in
  map (fun both => combine (filter (fun v => v <? n1) both) (map (fun v => v - n1) (filter (fun v => n1 <=? v) both)))
      (map (unmask (2 * n1)) (fw_masks c)).

Definition fw_grid_queries (c : fw_case) : list fw_query :=
  map (fun qm => fwq (fst (fst (fst qm))) (snd (fst (fst qm))) (snd (fst qm)) (snd qm))
      (combine (flat_map (fun dr => flat_map (fun t => map (fun m => (dr, t, m)) (fw_modes c)) (fw_thrs c)) [Positive; Negative])
               (fw_grid_rows c)).

Definition pair_eqb (a b : nat * nat) : bool := (fst a =? fst b) && (snd a =? snd b).

Definition beyond_b (dir : direction) (thr v : Qc) : bool :=
  match dir with Positive => qlt_b thr v | Negative => qlt_b v thr end.
Definition width_ok_b (m : wmode) (len : nat) : bool :=
  match m with
  | WMin mn => mn <=? len
  | WMinMax mn mx => (mn <=? len) && (len <=? mx)
  | WDelta mn dl => (mn - dl <=? len) && (len <=? mn + dl)
  end.
(* [bf k] = sample k is strictly beyond the threshold *)
Definition bracketed_run_f (bf : nat -> bool) (n s e : nat) : bool :=
  if (1 <=? s) && (s <? e) && (e <? n) then                  (* if-then-else: evaluated lazily *)
    if bf (s - 1) then false else if bf e then false else forallb bf (seq s (e - s))
  else false.
Definition bracketed_run_b (data : list Qc) (dir : direction) (thr : Qc) (s e : nat) : bool :=
  bracketed_run_f (fun k => beyond_b dir thr (dat data k)) (length data) s e.

(* spec-side enumeration, independent of the gap construction: all bracketed runs (s, e) in order ... *)
Definition bracketed_runs_spec (data : list Qc) (dir : direction) (thr : Qc) : list (nat * nat) :=
  let n := length data in
  let bl := map (beyond_b dir thr) data in
  let bf := fun k => nth k bl false in
  flat_map (fun s => flat_map (fun e => if bracketed_run_f bf n s e then [(s, e)] else []) (seq 0 n)) (seq 0 n).
(* ... that satisfy the width bound of the mode *)
Definition find_width_spec (data : list Qc) (dir : direction) (thr : Qc) (m : wmode) : list (nat * nat) :=
  filter (fun se => width_ok_b m (snd se - fst se)) (bracketed_runs_spec data dir thr).

(* all the calls with one direction and threshold: the brute-force spec AND the gap construction *)
Definition fw_t_check (data : list Qc) (dir : direction) (thr : Qc) (calls : list (zwmode * list (nat * nat))) : bool :=
  let runs := bracketed_runs_spec data dir thr in
  let tmp := not_beyond_idx data dir thr in
  forallb (fun c => let m := wmode_of (fst c) in
                    list_eqb pair_eqb (filter (fun se => width_ok_b m (snd se - fst se)) runs) (snd c)
                    && list_eqb pair_eqb (find_width_from tmp m) (snd c)) calls.

Definition fw_query_check (data : list Qc) (q : fw_query) : bool :=
  fw_t_check data (fq_dir q) (qcz (fq_thr q)) [(fq_mode q, fq_obs q)].

Definition fw_check (c : fw_case) : bool :=
  let data := map qcz (fw_data c) in
  let nm := length (fw_modes c) in
  let nt := length (fw_thrs c) in
  (length (fw_masks c) =? 2 * (nt * nm))
  && forallb (fw_query_check data) (fw_queries c)
  && forallb2 (fun dt rows => fw_t_check data (fst dt) (qcz (snd dt)) (combine (fw_modes c) rows))
              (flat_map (fun dr => map (fun t => (dr, t)) (fw_thrs c)) [Positive; Negative])
              (chunks nm (2 * nt) (fw_grid_rows c)).

Definition fw_expected (c : fw_case) : list (direction * Z * zwmode * list (nat * nat) * list (nat * nat)) :=
  let data := map qcz (fw_data c) in
  map (fun q => (fq_dir q, fq_thr q, fq_mode q,
                 find_width_spec data (fq_dir q) (qcz (fq_thr q)) (wmode_of (fq_mode q)), fq_obs q))
      (filter (fun q => negb (fw_query_check data q)) (fw_queries c ++ fw_grid_queries c)).

(* ================================================================ count / size boundaries (255 .. 4097)
   Large signals are given as blocks (pattern, repetitions) - run-length encoding and periodic signals - and the
   returned indices / rows as arithmetic progressions (first, step, count); both are expanded here. *)
Definition expandb {A} (l : list (list A * N)) : list A := flat_map (fun p => concat (repeat (fst p) (N.to_nat (snd p)))) l.
Definition progression (s st cnt : N) : list nat := map (fun k => N.to_nat (s + st * N.of_nat k)) (seq 0 (N.to_nat cnt)).
Definition progressions (l : list (N * N * N)) : list nat := flat_map (fun p => progression (fst (fst p)) (snd (fst p)) (snd p)) l.

Record pk_lquery := pklq { lq_d : N; lq_h : zheight; lq_obs : list (N * N * N) }.
Record pk_large := { pkl_data : list (list Z * N); pkl_queries : list pk_lquery }.
Definition pk_of_large (c : pk_large) : pk_case :=
  {| pk_data := expandb (pkl_data c);
     pk_queries := map (fun q => pkq (N.to_nat (lq_d q)) (lq_h q) (progressions (lq_obs q))) (pkl_queries c);
     pk_hs := []; pk_nd := 0; pk_masks := [] |}.
Definition pk_large_check (c : pk_large) : bool := pk_check (pk_of_large c).      (* property clauses *)
Definition pk_large_corr (c : pk_large) : bool := pk_corr (pk_of_large c).        (* equality with the model scan *)

(* rows (s + k*st, e + k*st), k < cnt *)
Record fw_lquery := fwlq { flq_dir : direction; flq_thr : Z; flq_mode : zwmode; flq_obs : list (N * N * N * N) }.
Record fw_large := { fwl_data : list (list Z * N); fwl_queries : list fw_lquery }.
Definition row_progressions (l : list (N * N * N * N)) : list (nat * nat) :=
  flat_map (fun p => let '(s, e, st, cnt) := p in combine (progression s st cnt) (progression e st cnt)) l.
(* compared with the gap construction [find_width], which IS the set of bracketed maximal runs for every input
   (Props/C19.width_is_maximal_runs); the brute-force enumeration of all (s, e) is cubic and only used on short signals *)
Definition fw_large_check (c : fw_large) : bool :=
  let data := map qcz (expandb (fwl_data c)) in
  forallb (fun q => list_eqb pair_eqb (find_width data (flq_dir q) (qcz (flq_thr q)) (wmode_of (flq_mode q)))
                             (row_progressions (flq_obs q))) (fwl_queries c).
