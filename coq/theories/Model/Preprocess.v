(* Model/Preprocess.v — spec and impl-model of scared/preprocesses (property C18).
   Executable definitions only; proofs are in Proofs/Preprocess.v.

   Layout
     1  spec: the sample-pair enumerations as comprehensions
     2  impl-model: the loops of high_order/_base.py exactly as coded (matrices as functions, result buffer =
        np.empty, running offset cnt, slice assignment, transpose / broadcast / transpose)
     3  dtypes and numpy.promote_types on the lattice used (bool, 8..64-bit integers, float16/32/64)
     4  frames (slice -> range, int, list, Ellipsis, None), dispatch of _combination
     5  spec of the four combination preprocesses on rows of exact rationals, case record + check
     6  first-order preprocesses (square, center, standardize, ToPower, CenterOn, StandardizeOn, serialize_bit)
     7  time-frequency preprocesses: compositions around the FFT oracles (Section variables), case record + check
     8  row-independence oracle on the code, promote_types tabulation *)
From Coq Require Import NArith ZArith QArith Qcanon List Bool Lia.
From ScaredV Require Import Run.Compare Lib.QcSum.
Import ListNotations.

(* ================================================================ 1. spec: pair enumerations *)

(* all pairs i <= j of one frame of n points, i ascending then j ascending *)
Definition pairs_full (n : nat) : list (nat * nat) :=
  flat_map (fun i => map (pair i) (seq i (n - i))) (seq 0 n).

(* pairs within a distance: j in [i, min (i + d, n - 1)] *)
Definition pairs_dist (n d : nat) : list (nat * nat) :=
  flat_map (fun i => map (pair i) (seq i (Nat.min (S d) (n - i)))) (seq 0 n).

(* frame x frame, row-major *)
Definition pairs_two (n1 n2 : nat) : list (nat * nat) :=
  flat_map (fun i => map (pair i) (seq 0 n2)) (seq 0 n1).

(* point to point *)
Definition pairs_p2p (n : nat) : list (nat * nat) := map (fun i => (i, i)) (seq 0 n).

(* point to point as numpy evaluates op(chunk_1, chunk_2): equal widths, or one operand of width 1 is broadcast
   (reachable only when frame_1 is None); None = numpy refuses *)
Definition pairs_p2p_bcast (n1 n2 : nat) : option (list (nat * nat)) :=
  if (n1 =? n2)%nat then Some (pairs_p2p n1)
  else if (n1 =? 1)%nat then Some (map (fun j => (0%nat, j)) (seq 0 n2))
  else if (n2 =? 1)%nat then Some (map (fun i => (i, 0%nat)) (seq 0 n1))
  else None.

(* ================================================================ 2. impl-model: the loops as coded *)

Record mat (A : Type) := { nrows : nat; ncols : nat; cell : nat -> nat -> A }.
Arguments nrows {A} _.
Arguments ncols {A} _.
Arguments cell {A} _ _ _.

Definition map_mat {A B} (f : A -> B) (M : mat A) : mat B :=
  {| nrows := nrows M; ncols := ncols M; cell := fun r c => f (cell M r c) |}.

(* traces[:, frame] with frame a list of column indices (fancy indexing) *)
Definition select {A} (T : mat A) (idx : list nat) : mat A :=
  {| nrows := nrows T; ncols := length idx; cell := fun r c => cell T r (nth c idx 0%nat) |}.

(* M[:, i : i + k]   (k already clipped to the width by the caller) *)
Definition col_slice {A} (M : mat A) (i k : nat) : mat A :=
  {| nrows := nrows M; ncols := k; cell := fun r c => cell M r (i + c)%nat |}.

(* M[:, i] : a vector of length nrows *)
Definition column {A} (M : mat A) (i : nat) : nat -> A := fun r => cell M r i.

(* M.T *)
Definition transpose {A} (M : mat A) : mat A :=
  {| nrows := ncols M; ncols := nrows M; cell := fun r c => cell M c r |}.

(* np.empty *)
Definition empty_mat {A} (n w : nat) : mat (option A) := {| nrows := n; ncols := w; cell := fun _ _ => None |}.

(* result[:, cnt : cnt + X.shape[1]] = X ; numpy refuses when the (clipped) slice and X differ in shape *)
Definition assign_cols {A} (res : mat (option A)) (cnt : nat) (X : mat A) : option (mat (option A)) :=
  if (nrows X =? nrows res)%nat && (cnt + ncols X <=? ncols res)%nat then
    Some {| nrows := nrows res; ncols := ncols res;
            cell := fun r c => if (cnt <=? c)%nat && (c <? cnt + ncols X)%nat then Some (cell X r (c - cnt)%nat) else cell res r c |}
  else None.

(* sum(range(n)) *)
Definition sum_range (n : nat) : nat := fold_right Nat.add 0%nat (seq 0 n).

Section CombinationLoops.
  Context {A : Type} (op : A -> A -> A).

  (* self._operation(tmp1, X) with tmp1 of shape (N,) and X of shape (k, N): numpy broadcasts tmp1 along the rows of X *)
  Definition bcast_op (v : nat -> A) (X : mat A) : mat A :=
    {| nrows := nrows X; ncols := ncols X; cell := fun j r => op (v r) (cell X j r) |}.

  (* one loop body: self._operation(tmp1, tmp2.T).T *)
  Definition block (tmp1 : nat -> A) (tmp2 : mat A) : mat A := transpose (bcast_op tmp1 (transpose tmp2)).

  (* _CombinationOfTwoFrames.__call__: for i in range(chunk_1.shape[1]) *)
  Fixpoint two_loop (was_none : bool) (c1 c2 : mat A) (is : list nat) (cnt : nat) (res : mat (option A))
    : option (mat (option A)) :=
    match is with
    | [] => Some res
    | i :: is' =>
        let tmp2 := if was_none then col_slice c2 i (ncols c2 - i) else c2 in
        let tmp1 := column c1 i in
        match assign_cols res cnt (block tmp1 tmp2) with
        | Some res' => two_loop was_none c1 c2 is' (cnt + ncols tmp2) res'
        | None => None
        end
    end.

  Definition impl_two_frames (was_none : bool) (c1 c2 : mat A) : option (mat (option A)) :=
    let size := if was_none then sum_range (ncols c1 + 1) else (ncols c1 * ncols c2)%nat in
    two_loop was_none c1 c2 (seq 0 (ncols c1)) 0 (empty_mat (nrows c1) size).

  (* _CombinationFrameOnDistance._execute(chunk_1, chunk_2, result): result = None only counts *)
  Fixpoint dist_loop (distance : nat) (c1 c2 : mat A) (is : list nat) (cnt : nat) (res : option (mat (option A)))
    : option (nat * option (mat (option A))) :=
    match is with
    | [] => Some (cnt, res)
    | i :: is' =>
        let stop := Nat.min (i + distance + 1) (ncols c2) in
        let tmp2 := col_slice c2 i (stop - i) in
        let tmp1 := column c1 i in
        match res with
        | None => dist_loop distance c1 c2 is' (cnt + ncols tmp2) None
        | Some r =>
            match assign_cols r cnt (block tmp1 tmp2) with
            | Some r' => dist_loop distance c1 c2 is' (cnt + ncols tmp2) (Some r')
            | None => None
            end
        end
    end.

  Definition impl_distance (distance : nat) (c : mat A) : option (mat (option A)) :=
    match dist_loop distance c c (seq 0 (ncols c)) 0 None with
    | Some (size, _) =>
        match dist_loop distance c c (seq 0 (ncols c)) 0 (Some (empty_mat (nrows c) size)) with
        | Some (_, Some r) => Some r
        | _ => None
        end
    | None => None
    end.

  (* _CombinationPointToPoint.__call__: self._operation(chunk_1, chunk_2), numpy broadcasting on the column axis *)
  Definition impl_p2p (c1 c2 : mat A) : option (mat A) :=
    if (ncols c1 =? ncols c2)%nat then
      Some {| nrows := nrows c1; ncols := ncols c1; cell := fun r c => op (cell c1 r c) (cell c2 r c) |}
    else if (ncols c1 =? 1)%nat then
      Some {| nrows := nrows c1; ncols := ncols c2; cell := fun r c => op (cell c1 r 0%nat) (cell c2 r c) |}
    else if (ncols c2 =? 1)%nat then
      Some {| nrows := nrows c1; ncols := ncols c1; cell := fun r c => op (cell c1 r c) (cell c2 r 0%nat) |}
    else None.
End CombinationLoops.

(* which of the three classes _combination builds, with the frames already resolved to column indices *)
Inductive comb_kind :=
| KTwo (f1 f2 : list nat) (was_none : bool)
| KDist (f : list nat) (distance : nat)
| KP2P (f1 f2 : list nat).

(* the documented pairs, as positions inside the frames *)
Definition kind_pairs (k : comb_kind) : option (list (nat * nat)) :=
  match k with
  | KTwo f1 f2 true => Some (pairs_full (length f1))
  | KTwo f1 f2 false => Some (pairs_two (length f1) (length f2))
  | KDist f d => Some (pairs_dist (length f) d)
  | KP2P f1 f2 => pairs_p2p_bcast (length f1) (length f2)
  end.

Definition kind_frames (k : comb_kind) : list nat * list nat :=
  match k with KTwo f1 f2 _ => (f1, f2) | KDist f _ => (f, f) | KP2P f1 f2 => (f1, f2) end.

(* the whole __call__: chunks are cast (astype) BEFORE the operation *)
Definition impl_comb {B A} (cast : B -> A) (op : A -> A -> A) (k : comb_kind) (T : mat B) : option (mat (option A)) :=
  match k with
  | KTwo f1 f2 wn => impl_two_frames op wn (map_mat cast (select T f1)) (map_mat cast (select T f2))
  | KDist f d => impl_distance op d (map_mat cast (select T f))
  | KP2P f1 f2 => option_map (map_mat Some) (impl_p2p op (map_mat cast (select T f1)) (map_mat cast (select T f2)))
  end.

(* boundary with lists *)
Definition mat_of_rows {A} (d : A) (w : nat) (M : list (list A)) : mat A :=
  {| nrows := length M; ncols := w; cell := fun r c => nth c (nth r M []) d |}.
Definition rows_of_mat {A} (M : mat A) : list (list A) :=
  map (fun r => map (fun c => cell M r c) (seq 0 (ncols M))) (seq 0 (nrows M)).

(* ================================================================ 3. dtypes and promotion *)

Inductive dtype := DBool | DI8 | DU8 | DI16 | DU16 | DI32 | DU32 | DI64 | DU64 | DF16 | DF32 | DF64.

Definition all_dtypes : list dtype := [DBool; DI8; DU8; DI16; DU16; DI32; DU32; DI64; DU64; DF16; DF32; DF64].
Definition float_dtypes : list dtype := [DF16; DF32; DF64].

Definition dtype_eqb (a b : dtype) : bool :=
  match a, b with
  | DBool, DBool | DI8, DI8 | DU8, DU8 | DI16, DI16 | DU16, DU16 | DI32, DI32 | DU32, DU32
  | DI64, DI64 | DU64, DU64 | DF16, DF16 | DF32, DF32 | DF64, DF64 => true
  | _, _ => false
  end.

Definition is_float (d : dtype) : bool := match d with DF16 | DF32 | DF64 => true | _ => false end.
Definition is_int (d : dtype) : bool :=
  match d with DI8 | DU8 | DI16 | DU16 | DI32 | DU32 | DI64 | DU64 => true | _ => false end.
Definition is_signed (d : dtype) : bool := match d with DI8 | DI16 | DI32 | DI64 => true | _ => false end.
Definition is_unsigned (d : dtype) : bool := match d with DU8 | DU16 | DU32 | DU64 => true | _ => false end.

(* storage width in bits *)
Definition dt_bits (d : dtype) : Z :=
  match d with
  | DBool => 8 | DI8 | DU8 => 8 | DI16 | DU16 | DF16 => 16 | DI32 | DU32 | DF32 => 32 | DI64 | DU64 | DF64 => 64
  end.

(* value range of the integer dtypes (bool as 0/1) *)
Definition dt_range (d : dtype) : option (Z * Z) :=
  match d with
  | DBool => Some (0, 1)
  | DI8 => Some (-2 ^ 7, 2 ^ 7 - 1) | DU8 => Some (0, 2 ^ 8 - 1)
  | DI16 => Some (-2 ^ 15, 2 ^ 15 - 1) | DU16 => Some (0, 2 ^ 16 - 1)
  | DI32 => Some (-2 ^ 31, 2 ^ 31 - 1) | DU32 => Some (0, 2 ^ 32 - 1)
  | DI64 => Some (-2 ^ 63, 2 ^ 63 - 1) | DU64 => Some (0, 2 ^ 64 - 1)
  | _ => None
  end%Z.

Definition in_range (d : dtype) (z : Z) : Prop :=
  match dt_range d with Some (lo, hi) => (lo <= z <= hi)%Z | None => False end.

(* significand precision of the float dtypes (bits, hidden bit included); 2^max_exp is the first power of two that overflows *)
Definition sig_bits (d : dtype) : Z := match d with DF16 => 11 | DF32 => 24 | DF64 => 53 | _ => 0 end.
Definition max_exp (d : dtype) : Z := match d with DF16 => 16 | DF32 => 128 | DF64 => 1024 | _ => 0 end.

(* number of significant bits a value of an integer dtype may need / of a float dtype *)
Definition value_bits (d : dtype) : Z :=
  match d with
  | DBool => 1 | DI8 => 7 | DU8 => 8 | DI16 => 15 | DU16 => 16 | DI32 => 31 | DU32 => 32 | DI64 => 63 | DU64 => 64
  | DF16 => 11 | DF32 => 24 | DF64 => 53
  end.

(* every value of dtype [d] is exactly representable in the float dtype [f] *)
Definition exact_in (d f : dtype) : bool := is_float f && (value_bits d <=? sig_bits f)%Z.

(* order of the float dtypes *)
Definition float_le (a b : dtype) : bool := is_float a && is_float b && (sig_bits a <=? sig_bits b)%Z.

Definition signed_of_bits (b : Z) : dtype :=
  if (b <=? 8)%Z then DI8 else if (b <=? 16)%Z then DI16 else if (b <=? 32)%Z then DI32 else DI64.
Definition larger (a b : dtype) : dtype := if (dt_bits a <? dt_bits b)%Z then b else a.

(* the smallest float dtype numpy considers safe for an integer dtype: more bytes than the integer has *)
Definition float_for_int (d : dtype) : dtype :=
  if (dt_bits d <=? 8)%Z then DF16 else if (dt_bits d <=? 16)%Z then DF32 else DF64.

(* numpy.promote_types on this lattice (hand model; compared entry by entry with the live numpy on every run) *)
Definition promote2 (a b : dtype) : dtype :=
  if dtype_eqb a b then a else
  match a, b with
  | DBool, x | x, DBool => x
  | _, _ =>
    if is_float a && is_float b then larger a b
    else if is_float a then larger a (float_for_int b)
    else if is_float b then larger b (float_for_int a)
    else if (is_signed a && is_signed b) || (is_unsigned a && is_unsigned b) then larger a b
    else
      let s := if is_signed a then a else b in
      let u := if is_signed a then b else a in
      if (dt_bits u <? dt_bits s)%Z then s
      else if (dt_bits u =? 64)%Z then DF64
      else signed_of_bits (2 * dt_bits u)
  end.

(* the repaired code: dtype = numpy.promote_types(traces.dtype, precision) *)
Definition promote (d p : dtype) : dtype := promote2 d p.

(* the code as found (before 330dad2): max(traces.dtype, precision) under the safe-cast partial order, where `a < b`
   means can_cast(a, b) and a <> b; max(a, b) returns b if b > a else a *)
Definition can_cast_safe (a b : dtype) : bool := dtype_eqb (promote2 a b) b.
Definition promote_old (d p : dtype) : dtype :=
  if can_cast_safe d p && negb (dtype_eqb d p) then p else d.

(* two's complement wrap of an integer to a storage dtype (what integer arithmetic does when no promotion happens) *)
Definition wrap_to (d : dtype) (z : Z) : Z :=
  match dt_range d with
  | Some (lo, hi) => ((z - lo) mod (hi - lo + 1) + lo)%Z
  | None => z
  end.

(* ================================================================ 4. frames and dispatch *)

Inductive frame_spec :=
| FEllipsis                                         (* ... : the default frame_1 of the standard combinations *)
| FNone                                             (* None *)
| FInt (i : Z)
| FList (l : list Z)
| FSlice (start stop step : option Z).

(* range(start, stop, step) *)
Definition range_list (start stop step : Z) : list Z :=
  if (0 <? step)%Z then
    map (fun k => (start + Z.of_nat k * step)%Z) (seq 0 (Z.to_nat ((stop - start + step - 1) / step)))
  else if (step <? 0)%Z then
    map (fun k => (start + Z.of_nat k * step)%Z) (seq 0 (Z.to_nat ((start - stop - step - 1) / (- step))))
  else [].

Definition nonzero_or (o : option Z) (dflt : Z) : Z :=
  match o with Some v => if (v =? 0)%Z then dflt else v | None => dflt end.

(* the attribute stored by _BaseCombination._set_frame *)
Inductive stored_frame := SAll | SNone | SIdx (l : list Z).

(* None = the constructor raises (range(0, None, 1) is a TypeError) *)
Definition set_frame (f : frame_spec) : option stored_frame :=
  match f with
  | FSlice start stop step =>
      match stop with
      | Some sp => Some (SIdx (range_list (nonzero_or start 0) sp (nonzero_or step 1)))
      | None => None
      end
  | FInt i => Some (SIdx [i])
  | FList l => Some (SIdx l)
  | FNone => Some SNone
  | FEllipsis => Some SAll
  end.

(* numpy fancy indexing on an axis of width w: negative indices wrap once, anything else is an IndexError *)
Fixpoint resolve_idx (w : nat) (l : list Z) : option (list nat) :=
  match l with
  | [] => Some []
  | i :: t =>
      let wz := Z.of_nat w in
      if ((- wz <=? i) && (i <? wz))%Z then
        match resolve_idx w t with
        | Some t' => Some (Z.to_nat (if (i <? 0)%Z then i + wz else i) :: t')
        | None => None
        end
      else None
  end.

Inductive outcome (A : Type) :=
| Rejected                 (* the code raises *)
| Unsupported              (* outside the modelled domain (undocumented use); the check fails closed on it *)
| Done (a : A).
Arguments Rejected {A}.
Arguments Unsupported {A}.
Arguments Done {A} _.

Definition bind_outcome {A B} (o : outcome A) (f : A -> outcome B) : outcome B :=
  match o with Rejected => Rejected | Unsupported => Unsupported | Done a => f a end.

(* traces[:, frame] at call time: columns taken *)
Definition frame_columns (w : nat) (none_is_all : bool) (s : stored_frame) : outcome (list nat) :=
  match s with
  | SAll => Done (seq 0 w)
  | SNone => if none_is_all then Done (seq 0 w) else Unsupported   (* traces[:, None] adds an axis: not a documented use *)
  | SIdx l => match resolve_idx w l with Some l' => Done l' | None => Rejected end
  end.

Record comb_cfg := {
  cf_frame1 : frame_spec;
  cf_frame2 : frame_spec;          (* FNone = not given *)
  cf_same : bool;                  (* mode = 'same' (otherwise 'full') *)
  cf_distance : option Z
}.

Definition is_fnone (f : frame_spec) : bool := match f with FNone => true | _ => false end.

(* the length test of the point-to-point classes: Some true = passes, Some false = PreprocessError, None = TypeError *)
Definition p2p_len_ok (s1 s2 : stored_frame) : option bool :=
  match s1, s2 with
  | SNone, _ | _, SNone => Some true
  | SIdx l1, SIdx l2 => Some (length l1 =? length l2)%nat
  | _, _ => None                         (* len(Ellipsis) is a TypeError *)
  end.

(* _combination(...) followed by __call__ on traces of width w: which loop runs on which columns *)
Definition comb_dispatch (cfg : comb_cfg) (w : nat) : outcome comb_kind :=
  let has_d := match cf_distance cfg with Some _ => true | None => false end in
  if has_d && (cf_same cfg || negb (is_fnone (cf_frame2 cfg))) then Rejected
  else if cf_same cfg && is_fnone (cf_frame2 cfg) then Rejected
  else match cf_distance cfg with
  | Some d =>
      (* _CombinationFrameOnDistance: frames are set first, then the distance is validated *)
      match set_frame (cf_frame1 cfg) with
      | None => Rejected
      | Some s1 =>
          if (d <? 1)%Z then Rejected
          else bind_outcome (frame_columns w false s1) (fun f => Done (KDist f (Z.to_nat d)))
      end
  | None =>
      if cf_same cfg then
        (* _CombinationPointToPoint *)
        match set_frame (cf_frame1 cfg), set_frame (cf_frame2 cfg) with
        | Some s1, Some s2 =>
            match p2p_len_ok s1 s2 with
            | Some true =>
                bind_outcome (frame_columns w true s1) (fun f1 =>
                bind_outcome (frame_columns w true s2) (fun f2 =>
                match pairs_p2p_bcast (length f1) (length f2) with
                | Some _ => Done (KP2P f1 f2)
                | None => Rejected
                end))
            | _ => Rejected
            end
        | _, _ => Rejected
        end
      else
        (* _CombinationOfTwoFrames *)
        let wn := is_fnone (cf_frame2 cfg) in
        let fr2 := if wn then cf_frame1 cfg else cf_frame2 cfg in
        match set_frame (cf_frame1 cfg), set_frame fr2 with
        | Some s1, Some s2 =>
            bind_outcome (frame_columns w false s1) (fun f1 =>
            bind_outcome (frame_columns w false s2) (fun f2 => Done (KTwo f1 f2 wn)))
        | _, _ => Rejected
        end
  end.

(* ================================================================ 5. the four combination preprocesses on exact rationals *)
Local Open Scope Qc_scope.

Definition qcabs (x : Qc) : Qc := if Qle_bool 0 x then x else - x.
Definition qcmax (a b : Qc) : Qc := if Qle_bool a b then b else a.
Definition qc_of_nat (n : nat) : Qc := Q2Qc (inject_Z (Z.of_nat n)).
Definition qc_of_z (z : Z) : Qc := Q2Qc (inject_Z z).
Definition qc_le (a b : Qc) : bool := Qle_bool a b.
Definition qc_lt (a b : Qc) : bool := negb (Qle_bool b a).
Definition qc_eqb (a b : Qc) : bool := Qeq_bool a b.

Inductive comb_op := OpProduct | OpCenteredProduct | OpDifference | OpAbsDifference.

Definition op_fun (o : comb_op) : Qc -> Qc -> Qc :=
  match o with
  | OpProduct | OpCenteredProduct => Qcmult
  | OpDifference => Qcminus
  | OpAbsDifference => fun a b => qcabs (a - b)
  end.

(* spec, one trace: the operation applied to the documented pairs, in the documented order.
   [f1], [f2] are the columns of the two frames; a pair (i, j) combines sample f1[i] with sample f2[j]. *)
Definition comb_row {A} (d : A) (op : A -> A -> A) (pairs : list (nat * nat)) (f1 f2 : list nat) (row : list A) : list A :=
  map (fun p => op (nth (nth (fst p) f1 0%nat) row d) (nth (nth (snd p) f2 0%nat) row d)) pairs.

Definition column_of (T : list (list Qc)) (j : nat) : list Qc := map (fun r => nth j r 0) T.

(* batch mean of every column *)
Definition col_means (w : nat) (T : list (list Qc)) : list Qc := map (fun j => qmean (column_of T j)) (seq 0 w).

Definition sub_rows (row m : list Qc) : list Qc := map (fun p => fst p - snd p) (combine row m).

(* CenterOn(mean)(traces): the given mean, or the mean of the batch *)
Definition center_with (w : nat) (mean : option (list Qc)) (T : list (list Qc)) : list (list Qc) :=
  let m := match mean with Some m => m | None => col_means w T end in
  map (fun row => sub_rows row m) T.

(* spec, whole batch *)
Definition comb_spec (o : comb_op) (pairs : list (nat * nat)) (f1 f2 : list nat) (w : nat) (mean : option (list Qc))
  (T : list (list Qc)) : list (list Qc) :=
  let T' := match o with OpCenteredProduct => center_with w mean T | _ => T end in
  map (comb_row 0 (op_fun o) pairs f1 f2) T'.

(* ---- rounding-error magnitudes (only used to scale the tolerance of the comparison) *)
Definition mag_fun (o : comb_op) : Qc -> Qc -> Qc :=
  match o with OpProduct | OpCenteredProduct => Qcmult | _ => Qcplus end.

Definition col_maxabs (w : nat) (T : list (list Qc)) : list Qc :=
  map (fun j => fold_right qcmax 0 (map qcabs (column_of T j))) (seq 0 w).

Definition add_rows (row m : list Qc) : list Qc := map (fun p => fst p + snd p) (combine row m).

Definition comb_mag (o : comb_op) (pairs : list (nat * nat)) (f1 f2 : list nat) (w : nat) (mean : option (list Qc))
  (T : list (list Qc)) : list (list Qc) :=
  match o with
  | OpCenteredProduct =>
      let m := match mean with Some m => map qcabs m | None => col_maxabs w T end in
      let k := qc_of_nat (length T + 3) in
      map (fun row => map (Qcmult k) (comb_row 0 Qcmult pairs f1 f2 (add_rows (map qcabs row) m))) T
  | _ => map (fun row => comb_row 0 (mag_fun o) pairs f1 f2 (map qcabs row)) T
  end.

(* ---- observations *)
Inductive observed :=
| ObsRaised
| ObsOut (dt : dtype) (rows : list (list fval)).

Definition fvals_qc (l : list fval) : option (list Qc) :=
  fold_right (fun v acc => match fval_qc v, acc with Some q, Some t => Some (q :: t) | _, _ => None end) (Some []) l.

Definition rows_qc (M : list (list fval)) : option (list (list Qc)) :=
  fold_right (fun r acc => match fvals_qc r, acc with Some q, Some t => Some (q :: t) | _, _ => None end) (Some []) M.

Definition uround_dt (d : dtype) : Qc :=
  match d with DF64 => Q2Qc u64 | DF32 => Q2Qc u32 | _ => Q2Qc (1 # 2048) end.

(* an expected value together with what the comparison needs:
   XQ v mag            the rational v, rounding-error scale mag
   XDivSqrt num var m  num / sqrt(var) (never computed: compared through squares); var = 0 -> 0/0 = NaN, x/0 = +-inf
   XSqrt q             the non-negative square root of q
   XBad                outside the modelled domain *)
Inductive xval := XQ (v mag : Qc) | XDivSqrt (num var mag : Qc) | XSqrt (q : Qc) | XBad.

Definition close_x (ulps u : Qc) (obs : fval) (e : xval) : bool :=
  match e with
  | XQ v mag =>
      match fval_qc obs with
      | Some x => qc_le (qcabs (x - v)) (ulps * u * mag)
      | None => false
      end
  | XDivSqrt num var mag =>
      let E := ulps * u * mag in
      if qc_eqb var 0 then
        (if qc_eqb num 0 then is_nan obs
         else match obs with PInf => qc_lt 0 num | NInf => qc_lt num 0 | _ => false end)
      else
        match fval_qc obs with
        | Some x =>
            qc_le (qcabs (x * x * var - num * num)) (E * ((1 + 1) * qcabs num + E))
            && (if qc_lt E num then qc_lt 0 x else true) && (if qc_lt num (- E) then qc_lt x 0 else true)
        | None => qc_le var (E * E)      (* so ill-conditioned that the float deviation cannot be told from zero *)
        end
  | XSqrt q =>
      match fval_qc obs with
      | Some x => qc_le 0 x && qc_le (qcabs (x * x - q)) (ulps * u * q)
      | None => false
      end
  | XBad => false
  end.

Definition rows_close_x (ulps u : Qc) (obs : list (list fval)) (exp : list (list xval)) : bool :=
  forallb2 (fun o e => forallb2 (close_x ulps u) o e) obs exp.

Definition rect {A} (w : nat) (T : list (list A)) : bool := forallb (fun r => (length r =? w)%nat) T.

(* how a user-supplied mean / std takes part in numpy's result-type rule: an array or a numpy scalar carries its dtype;
   a Python int / float is "weak": it adopts the dtype of the array it meets, except that an int meeting a bool array
   gives the default integer and a float meeting a bool / integer array gives float64 *)
Inductive gdtype := GArr (d : dtype) | GWeakInt | GWeakFloat.

Definition promote_g (a : dtype) (g : gdtype) : dtype :=
  match g with
  | GArr d => promote2 a d
  | GWeakInt => match a with DBool => DI64 | _ => a end
  | GWeakFloat => if is_float a then a else DF64
  end.

(* numpy true division: integer (and bool) operands give float64 *)
Definition div_dtype (r : dtype) : dtype := if is_float r then r else DF64.

(* a mean / std given by the user: its type and values; numpy broadcasts a scalar or a vector of length 1 *)
Definition given_vec (w : nat) (g : gdtype * list fval) : outcome (list Qc) :=
  match fvals_qc (snd g) with
  | None => Unsupported
  | Some m =>
      if (length m =? w)%nat then Done m
      else if (length m =? 1)%nat then Done (repeat (nth 0 m 0) w)
      else if (w =? 1)%nat then Unsupported      (* (n,1) - (k,) broadcasts to (n,k): not a documented use *)
      else Rejected
  end.

(* dtype of CenterOn(mean, precision)(traces) *)
Definition center_on_dtype (d p : dtype) (mean : option gdtype) : dtype :=
  let P := promote d p in
  match mean with Some g => promote_g P g | None => promote2 P (promote P DF32) end.

(* the batch statistics the preprocesses with a documented cross-row dependence use *)
Record bstats := { st_n : nat; st_means : list Qc; st_vars : list Qc; st_maxabs : list Qc }.

Record comb_case := {
  cc_op : comb_op;
  cc_cfg : comb_cfg;
  cc_dtype : dtype;                               (* dtype of the traces *)
  cc_prec : dtype;                                (* precision argument *)
  cc_mean : option (gdtype * list fval);          (* CenteredProduct(mean=...): type and values, None = batch mean *)
  cc_width : nat;
  cc_in : list (list fval);                       (* the traces, row by row, exact *)
  cc_obs : observed
}.

Definition comb_out_dtype (c : comb_case) : dtype :=
  match cc_op c with
  | OpCenteredProduct => promote (center_on_dtype (cc_dtype c) (cc_prec c) (option_map fst (cc_mean c))) (cc_prec c)
  | _ => promote (cc_dtype c) (cc_prec c)
  end.

Definition zip_x (exp mag : list (list Qc)) : list (list xval) :=
  map (fun em => map (fun vm => XQ (fst vm) (snd vm)) (combine (fst em) (snd em))) (combine exp mag).

(* expected dtype and values *)
Definition comb_expected_s (So : option bstats) (c : comb_case) : outcome (dtype * list (list xval)) :=
  match rows_qc (cc_in c) with
  | None => Unsupported
  | Some T =>
      if negb (rect (cc_width c) T) then Unsupported else
      if negb (is_float (cc_prec c)) then Unsupported else
      bind_outcome (comb_dispatch (cc_cfg c) (cc_width c)) (fun k =>
        match kind_pairs k with
        | None => Rejected
        | Some pairs =>
            let '(f1, f2) := kind_frames k in
            let go mean := Done (comb_out_dtype c,
                                 zip_x (comb_spec (cc_op c) pairs f1 f2 (cc_width c) mean T)
                                       (comb_mag (cc_op c) pairs f1 f2 (cc_width c) mean T)) in
            match cc_op c, cc_mean c with
            | OpCenteredProduct, Some g => bind_outcome (given_vec (cc_width c) g) (fun m => go (Some m))
            | OpCenteredProduct, None =>
                match So with
                | None => go None
                | Some SB =>      (* the batch statistics come from the batch S, the compared rows are T *)
                    let m := st_maxabs SB in
                    let k := qc_of_nat (st_n SB + 3) in
                    Done (comb_out_dtype c,
                          zip_x (comb_spec (cc_op c) pairs f1 f2 (cc_width c) (Some (st_means SB)) T)
                                (map (fun row => map (Qcmult k) (comb_row 0 Qcmult pairs f1 f2 (add_rows (map qcabs row) m))) T))
                end
            | _, _ => go None
            end
        end)
  end.

Definition comb_expected (c : comb_case) := comb_expected_s None c.

Definition eight : Qc := Q2Qc 8.

Definition obs_matches (ulps : Qc) (e : outcome (dtype * list (list xval))) (o : observed) : bool :=
  match e, o with
  | Rejected, ObsRaised => true
  | Done (dt, exp), ObsOut dt' rows => dtype_eqb dt dt' && rows_close_x ulps (uround_dt dt) rows exp
  | _, _ => false
  end.

Definition comb_check (c : comb_case) : bool := obs_matches eight (comb_expected c) (cc_obs c).

(* for replay files: what the model expects *)
Definition xval_show (e : xval) : Q * Q :=
  match e with XQ v _ => (this v, 1%Q) | XDivSqrt n v _ => (this n, this v) | XSqrt q => (1%Q, this q) | XBad => (0%Q, 0%Q) end.
Definition comb_explain (c : comb_case) : outcome (dtype * list (list Q)) :=
  bind_outcome (comb_expected c) (fun x => Done (fst x, map (map (fun e => fst (xval_show e))) (snd x))).

(* ================================================================ 6. first-order preprocesses *)

Definition given := option (gdtype * list fval).

Inductive fo_op :=
| FoSquare
| FoCenter
| FoStandardize
| FoToPower (k : Z) (p : dtype)
| FoCenterOn (mean : given) (p : dtype)
| FoStandardizeOn (mean std : given) (p : dtype)
| FoSerializeBit.

(* x^k for an integer k; None = 0 to a negative power *)
Definition qc_pow (x : Qc) (k : Z) : option Qc :=
  if (0 <=? k)%Z then Some (Qcpower x (Z.to_nat k))
  else if qc_eqb x 0 then None else Some (/ Qcpower x (Z.to_nat (- k))).

(* population variance of a column: sum of squared deviations from the mean / n  (numpy nanstd, ddof = 0, squared) *)
Definition col_vars (w : nat) (T : list (list Qc)) : list Qc :=
  map (fun j => let l := column_of T j in ssd l / qlen l) (seq 0 w).

Definition stats_of (w : nat) (T : list (list Qc)) : bstats :=
  {| st_n := length T; st_means := col_means w T; st_vars := col_vars w T; st_maxabs := col_maxabs w T |}.

(* one output row from one input row and per-column parameters *)
Definition map3 {A B C D} (f : A -> B -> C -> D) (la : list A) (lb : list B) (lc : list C) : list D :=
  map (fun abc => f (fst (fst abc)) (snd (fst abc)) (snd abc)) (combine (combine la lb) lc).
Definition map2 {A B C} (f : A -> B -> C) (la : list A) (lb : list B) : list C :=
  map (fun ab => f (fst ab) (snd ab)) (combine la lb).

(* bits of a byte, most significant first *)
Definition byte_bits (b : Z) : list Z := map (fun i => Z.b2z (Z.testbit b (7 - Z.of_nat i))) (seq 0 8).
Definition serialize_row (row : list Z) : list Z := flat_map (fun x => byte_bits (x mod 256)%Z) row.

Definition qc_to_z (q : Qc) : option Z := if (Qden q =? 1)%positive then Some (Qnum q) else None.

(* the formulas, on exact rationals; [n3] = number of traces + 3 scales the tolerance of batch statistics *)
Definition fo_center_rows (n3 : Qc) (m mx : list Qc) (T : list (list Qc)) : list (list xval) :=
  map (fun row => map3 (fun x mj aj => XQ (x - mj) (n3 * (qcabs x + aj))) row m mx) T.

Definition fo_standardize_rows (n3 : Qc) (m v mx : list Qc) (T : list (list Qc)) : list (list xval) :=
  map (fun row => map3 (fun x mv aj => XDivSqrt (x - fst mv) (snd mv) (n3 * (qcabs x + aj))) row (combine m v) mx) T.

Definition fo_divide_rows (k : Qc) (m mx s : list Qc) (T : list (list Qc)) : list (list xval) :=
  map (fun row => map3 (fun x mm sj => if qc_eqb sj 0 then XBad else XQ ((x - fst mm) / sj) (k * (qcabs x + snd mm) / qcabs sj))
                       row (combine m mx) s) T.

(* numpy.nanstd subtracts the mean inside a copy of the input array when that array is a float array: float16 / float32
   traces lose the deviations' low bits there, whatever dtype was requested (numpy behaviour, observed) — the tolerance
   of the standardised values follows.  [prec_loss s dt]: a statistic computed in dtype s feeding an output of dtype dt. *)
Definition prec_loss (s dt : dtype) : Qc := qcmax 1 (uround_dt s / uround_dt dt).
Definition std_loss (d dt : dtype) : Qc := if is_float d then prec_loss d dt else 1.

Record fo_case := {
  fo_kind : fo_op;
  fo_dtype : dtype;
  fo_width : nat;
  fo_in : list (list fval);
  fo_obs : observed
}.

Definition opt_dtype (g : given) : option gdtype := option_map fst g.

Definition fo_expected_s (So : option bstats) (c : fo_case) : outcome (dtype * list (list xval)) :=
  let d := fo_dtype c in
  let w := fo_width c in
  match rows_qc (fo_in c) with
  | None => Unsupported
  | Some T =>
      if negb (rect w T) then Unsupported else
      let SB := match So with Some b => b | None => stats_of w T end in      (* the batch the statistics are taken over *)
      let n3 := qc_of_nat (st_n SB + 3) in
      let P32 := promote d DF32 in
      match fo_kind c with
      | FoSquare => Done (P32, map (map (fun x => XQ (x * x) (x * x))) T)
      | FoCenter =>
          (* traces - nanmean(traces, axis=0, dtype=P) *)
          Done (promote2 d P32, fo_center_rows n3 (st_means SB) (st_maxabs SB) T)
      | FoStandardize =>
          let dt := promote2 (promote2 d P32) P32 in
          Done (dt, fo_standardize_rows (n3 * std_loss d dt) (st_means SB) (st_vars SB) (st_maxabs SB) T)
      | FoToPower k p =>
          if negb (is_float p) then Unsupported else
          Done (promote d p, map (map (fun x => match qc_pow x k with Some v => XQ v (qcabs v) | None => XBad end)) T)
      | FoCenterOn mean p =>
          if negb (is_float p) then Unsupported else
          let dt := center_on_dtype d p (opt_dtype mean) in
          match mean with
          | None => Done (dt, fo_center_rows n3 (st_means SB) (st_maxabs SB) T)
          | Some g => bind_outcome (given_vec w g) (fun m => Done (dt, fo_center_rows 1 m (map qcabs m) T))
          end
      | FoStandardizeOn mean std p =>
          if negb (is_float p) then Unsupported else
          let P := promote d p in
          (* (traces.astype(P) - mean) / std (repaired code, commit d743e79): numpy's result dtype of the two operations *)
          let r1 := promote_g P (match mean with Some g => fst g | None => GArr P end) in
          let dt := div_dtype (promote_g r1 (match std with Some g => fst g | None => GArr P end)) in
          bind_outcome (match mean with Some g => given_vec w g | None => Done (st_means SB) end) (fun m =>
          match std with
          | Some g => bind_outcome (given_vec w g) (fun s =>
              match mean with
              | Some _ => Done (dt, fo_divide_rows (prec_loss r1 dt) m (map qcabs m) s T)    (* the difference is rounded in r1 *)
              | None => Done (dt, fo_divide_rows (n3 * prec_loss P dt) m (st_maxabs SB) s T)      (* the mean is a float sum over the batch *)
              end)
          | None =>
              (* nanstd is taken around the mean of the batch even when another mean is given *)
              let mx := map2 (fun a b => a + b) (st_maxabs SB) (map qcabs m) in
              Done (dt, fo_standardize_rows (n3 * qcmax (prec_loss P dt) (std_loss d dt)) m (st_vars SB) mx T)
          end)
      | FoSerializeBit =>
          match fold_right (fun r acc => match fold_right (fun q a => match qc_to_z q, a with Some z, Some t => Some (z :: t) | _, _ => None end) (Some []) r, acc with
                                         | Some r', Some t => Some (r' :: t) | _, _ => None end) (Some []) T with
          | Some TZ => Done (DU8, map (fun row => map (fun b => XQ (qc_of_z b) 0) (serialize_row row)) TZ)
          | None => Unsupported
          end
      end
  end.

Definition fo_expected (c : fo_case) := fo_expected_s None c.

Definition sixteen : Qc := Q2Qc 16.
Definition fo_check (c : fo_case) : bool := obs_matches sixteen (fo_expected c) (fo_obs c).
Definition fo_explain (c : fo_case) : outcome (dtype * list (list (Q * Q))) :=
  bind_outcome (fo_expected c) (fun x => Done (fst x, map (map xval_show) (snd x))).

(* ================================================================ 7. time-frequency preprocesses *)

Definition cplx := (Qc * Qc)%type.
Definition cconj (a : cplx) : cplx := (fst a, - snd a).
Definition cmul (a b : cplx) : cplx := (fst a * fst b - snd a * snd b, fst a * snd b + snd a * fst b).
Definition norm2 (a : cplx) : Qc := fst a * fst a + snd a * snd a.
Definition cnorm1 (a : cplx) : Qc := qcabs (fst a) + qcabs (snd a).

(* a real result: a rational, or the non-negative square root of a rational (np.abs of a complex number) *)
Inductive rv := Rat (q : Qc) | Sqrt (q : Qc).
Definition rv_sq (v : rv) : rv := match v with Rat q => Rat (q * q) | Sqrt q => Rat q end.
Definition cabs (a : cplx) : rv := Sqrt (norm2 a).

Inductive tf_op := TXcorr | TWindowFFT | TWindowFHT | TMaxCorr | TConcatFFT | TConcatFHT.
Inductive tf_mode := MRaw | MCentered | MStandardized.

Definition tf_is_p2p (o : tf_op) : bool := match o with TXcorr | TWindowFFT | TWindowFHT => true | _ => false end.

(* _handle_none_frame: when one frame is None the other one is used for both *)
Definition handle_none_frame (f1 f2 : frame_spec) : frame_spec * frame_spec :=
  if is_fnone f1 || is_fnone f2 then (let f := if is_fnone f1 then f2 else f1 in (f, f)) else (f1, f2).

(* constructor + traces[:, frame] of the time-frequency classes *)
Definition tf_frames (p2p : bool) (f1 f2 : frame_spec) (w : nat) : outcome (list nat * list nat) :=
  let '(g1, g2) := handle_none_frame f1 f2 in
  match set_frame g1, set_frame g2 with
  | Some s1, Some s2 =>
      let ok := if p2p then p2p_len_ok s1 s2 else Some true in
      match ok with
      | Some true =>
          bind_outcome (frame_columns w true s1) (fun c1 =>
          bind_outcome (frame_columns w true s2) (fun c2 => Done (c1, c2)))
      | _ => Rejected
      end
  | _, _ => Rejected
  end.

Definition sel_row {A} (d : A) (cols : list nat) (row : list A) : list A := map (fun c => nth c row d) cols.

Section TimeFrequency.
  (* numpy.fft.rfft / irfft / fft along axis 1 and the standardize preprocess are oracles: every theorem about the
     definitions below holds for ALL functions *)
  Variable rfft : list Qc -> list cplx.
  Variable irfft : list cplx -> list Qc.
  Variable fft : list Qc -> list cplx.
  Variable stdz : list (list Qc) -> list (list Qc).

  (* _fht: real part minus imaginary part of rfft *)
  Definition fht (el : list Qc) : list Qc := map (fun a => fst a - snd a) (rfft el).

  (* the _operation methods, on one trace *)
  Definition tf_operation (o : tf_op) (el1 el2 : list Qc) : list rv :=
    match o with
    | TXcorr => map Rat (irfft (map2 cmul (map cconj (rfft el1)) (rfft el2)))
    | TWindowFFT => map cabs (map2 cmul (map cconj (rfft el1)) (rfft el2))
    | TWindowFHT => map Rat (map2 Qcmult (fht el1) (fht el2))
    | TMaxCorr => let f := rfft (el1 ++ el2) in map Rat (map fst f) ++ map Rat (map snd f) ++ map cabs f
    | TConcatFFT => map rv_sq (map cabs (rfft (el1 ++ el2)))
    | TConcatFHT => map (fun x => Rat (x * x)) (fht (el1 ++ el2))
    end.

  (* mode dispatch: 'centered' -> center, 'standardized' -> standardize, anything else -> identity *)
  Definition tf_pre (m : tf_mode) (T : list (list Qc)) : list (list Qc) :=
    match m with
    | MRaw => T
    | MCentered => center_with (length (hd [] T)) None T
    | MStandardized => stdz T
    end.

  (* __call__ *)
  Definition tf_call (o : tf_op) (m : tf_mode) (c1 c2 : list nat) (T : list (list Qc)) : list (list rv) :=
    let t1 := tf_pre m (map (sel_row 0 c1) T) in
    let t2 := tf_pre m (map (sel_row 0 c2) T) in
    map2 (tf_operation o) t1 t2.

  (* fft_modulus: the first ceil(w / 2) moduli of the full FFT *)
  Definition fft_modulus_row (row : list Qc) : list rv := firstn ((length row + 1) / 2)%nat (map cabs (fft row)).
End TimeFrequency.

(* rounding-error scales of the operations, given the oracle values (only used by the comparison) *)
Definition tf_mags (o : tf_op) (F1 F2 Fcat : list cplx) (n_irfft : nat) : list Qc :=
  match o with
  | TXcorr =>
      let s := qsum (map2 (fun a b => cnorm1 a * cnorm1 b) F1 F2) in
      repeat (s * (1 + 1) / qc_of_nat (Nat.max 1 n_irfft)) n_irfft
  | TWindowFHT => map2 (fun a b => cnorm1 a * cnorm1 b) F1 F2
  | TConcatFHT => map (fun a => cnorm1 a * cnorm1 a) Fcat
  | TConcatFFT => map norm2 Fcat
  | TMaxCorr => map (fun _ => 0) Fcat ++ map (fun _ => 0) Fcat
  | _ => []
  end.

(* oracle tables: what numpy returned on this run, exactly *)
Definition fcplx := (fval * fval)%type.
Definition fcplx_qc (l : list fcplx) : option (list cplx) :=
  fold_right (fun v acc => match fval_qc (fst v), fval_qc (snd v), acc with Some a, Some b, Some t => Some ((a, b) :: t) | _, _, _ => None end) (Some []) l.

Definition qclist_eqb := list_eqb qc_eqb.

Definition rfft_table := list (list Qc * list cplx).
Definition irfft_table := list (list cplx * list Qc).

Definition lookup_rfft (tbl : rfft_table) (x : list Qc) : list cplx :=
  match find (fun e => qclist_eqb (fst e) x) tbl with Some e => snd e | None => [] end.

(* irfft is looked up by approximate key: the code applies it to a float product *)
Definition cplx_close (tol : Qc) (a b : cplx) : bool :=
  qc_le (qcabs (fst a - fst b)) tol && qc_le (qcabs (snd a - snd b)) tol.
Definition lookup_irfft (tbl : irfft_table) (tol : Qc) (x : list cplx) : list Qc :=
  match find (fun e => forallb2 (cplx_close tol) (fst e) x) tbl with Some e => snd e | None => [] end.

Record tf_case := {
  tf_kind : tf_op;
  tf_md : tf_mode;
  tf_f1 : frame_spec;
  tf_f2 : frame_spec;
  tf_dtype : dtype;
  tf_width : nat;
  tf_in : list (list fval);
  tf_x1 : list (list fval);                       (* what the harness fed to numpy's rfft: the preprocessed chunks *)
  tf_x2 : list (list fval);
  tf_rfft : list (list fval * list fcplx);        (* numpy.fft.rfft on this run: input row -> output row *)
  tf_irfft : list (list fcplx * list fval);       (* numpy.fft.irfft on this run *)
  tf_obs : observed
}.

Definition conv_rfft (t : list (list fval * list fcplx)) : option rfft_table :=
  fold_right (fun e acc => match fvals_qc (fst e), fcplx_qc (snd e), acc with Some k, Some v, Some t => Some ((k, v) :: t) | _, _, _ => None end) (Some []) t.
Definition conv_irfft (t : list (list fcplx * list fval)) : option irfft_table :=
  fold_right (fun e acc => match fcplx_qc (fst e), fvals_qc (snd e), acc with Some k, Some v, Some t => Some ((k, v) :: t) | _, _, _ => None end) (Some []) t.

(* dtype of the chunk after the mode's preprocess, and of numpy's FFT on it (float16/32 -> single, else double) *)
Definition tf_pre_dtype (m : tf_mode) (d : dtype) : dtype :=
  match m with MRaw => d | _ => promote2 d (promote d DF32) end.
Definition fft_dtype (d : dtype) : dtype := match d with DF16 | DF32 => DF32 | _ => DF64 end.

(* the harness's preprocessed chunk against the model's: exact in raw mode *)
Definition pre_ok (m : tf_mode) (u loss : Qc) (st : bstats) (cols : list nat) (chunk : list (list Qc)) (x : list (list fval)) : bool :=
  let n3 := qc_of_nat (st_n st + 3) in
  let sel := sel_row 0 cols in          (* the statistics of the selected columns are the selected statistics *)
  match m with
  | MRaw => rows_close_x 0 u x (map (map (fun v => XQ v 0)) chunk)
  | MCentered => rows_close_x sixteen u x (fo_center_rows n3 (sel (st_means st)) (sel (st_maxabs st)) chunk)
  | MStandardized => rows_close_x sixteen u x (fo_standardize_rows (n3 * loss) (sel (st_means st)) (sel (st_vars st)) (sel (st_maxabs st)) chunk)
  end.

Definition rv_x (v : rv) (mag : Qc) : xval := match v with Rat q => XQ q mag | Sqrt q => XSqrt q end.

(* circular cross-correlation, straight from its definition (independent of any FFT): out[k] = sum_n a[n] * b[(n + k) mod N] *)
Definition circ_xcorr (a b : list Qc) : list Qc :=
  let N := length a in
  map (fun k => qsum (map (fun n => nth n a 0 * nth ((n + k) mod N)%nat b 0) (seq 0 N))) (seq 0 N).

Definition thirtytwo : Qc := Q2Qc 32.
Definition k256 : Qc := Q2Qc 256.

Definition tf_expected_s (So : option bstats) (c : tf_case) : outcome (dtype * list (list xval)) :=
  let w := tf_width c in
  match rows_qc (tf_in c), rows_qc (tf_x1 c), rows_qc (tf_x2 c), conv_rfft (tf_rfft c), conv_irfft (tf_irfft c) with
  | Some T, Some X1, Some X2, Some rt, Some it =>
      if negb (rect w T) then Unsupported else
      let SB := match So with Some b => b | None => stats_of w T end in
      bind_outcome (tf_frames (tf_is_p2p (tf_kind c)) (tf_f1 c) (tf_f2 c) w) (fun cc =>
        let '(c1, c2) := cc in
        let dt := fft_dtype (tf_pre_dtype (tf_md c) (tf_dtype c)) in
        let u := uround_dt dt in
        let pdt := tf_pre_dtype (tf_md c) (tf_dtype c) in
        let loss := std_loss (tf_dtype c) pdt in
        let n1 := length c1 in
        let n2 := length c2 in
        (* numpy refuses an FFT of 0 points; irfft of a 1-point spectrum asks for 0 points *)
        if (if tf_is_p2p (tf_kind c) then (n1 =? 0)%nat || (n2 =? 0)%nat else (n1 + n2 =? 0)%nat) then Rejected else
        if (match tf_kind c with TXcorr => (n1 <=? 1)%nat | _ => false end) then Rejected else
        if pre_ok (tf_md c) (uround_dt pdt) loss SB c1 (map (sel_row 0 c1) T) (tf_x1 c)
           && pre_ok (tf_md c) (uround_dt pdt) loss SB c2 (map (sel_row 0 c2) T) (tf_x2 c) then
          Done (dt, map2 (fun x1 x2 =>
                  let F1 := lookup_rfft rt x1 in
                  let F2 := lookup_rfft rt x2 in
                  let Fc := lookup_rfft rt (x1 ++ x2) in
                  let s := qsum (map2 (fun a b => cnorm1 a * cnorm1 b) F1 F2) in
                  let out := tf_operation (lookup_rfft rt) (lookup_irfft it (thirtytwo * u * s)) (tf_kind c) x1 x2 in
                  let mags := tf_mags (tf_kind c) F1 F2 Fc (length out) in
                  map (fun vm => rv_x (fst vm) (snd vm)) (combine out (mags ++ repeat 0 (length out)))) X1 X2)
        else Unsupported)
  | _, _, _, _, _ => Unsupported
  end.

Definition tf_expected (c : tf_case) := tf_expected_s None c.

(* Xcorr on frames of even length is also compared with the circular cross-correlation of the preprocessed chunks *)
Definition xcorr_direct_ok (c : tf_case) : bool :=
  match tf_kind c, rows_qc (tf_x1 c), rows_qc (tf_x2 c), tf_obs c with
  | TXcorr, Some X1, Some X2, ObsOut dt rows =>
      forallb2 (fun xx o =>
        let '(a, b) := xx in
        if Nat.even (length a) then
          let s := qsum (map2 (fun p q => qcabs p * qcabs q) a b) in
          forallb2 (fun ov e => close_x k256 (uround_dt dt) ov (XQ e s)) o (circ_xcorr a b)
        else true) (combine X1 X2) rows
  | _, _, _, _ => true
  end.

Definition tf_check (c : tf_case) : bool := obs_matches thirtytwo (tf_expected c) (tf_obs c) && xcorr_direct_ok c.
Definition tf_explain (c : tf_case) : outcome (dtype * list (list (Q * Q))) :=
  bind_outcome (tf_expected c) (fun x => Done (fst x, map (map xval_show) (snd x))).

(* fft_modulus *)
Record fm_case := {
  fm_dtype : dtype;
  fm_in : list (list fval);
  fm_fft : list (list fval * list fcplx);         (* numpy.fft.fft on this run *)
  fm_obs : observed
}.

Definition fm_expected (c : fm_case) : outcome (dtype * list (list xval)) :=
  match rows_qc (fm_in c), conv_rfft (fm_fft c) with
  | Some T, Some ft => Done (fft_dtype (fm_dtype c), map (fun row => map (fun v => rv_x v 0) (fft_modulus_row (lookup_rfft ft) row)) T)
  | _, _ => Unsupported
  end.
Definition fm_check (c : fm_case) : bool := obs_matches thirtytwo (fm_expected c) (fm_obs c).

(* ================================================================ 8. row independence on the code; promote_types table *)

Definition fval_eqb (a b : fval) : bool :=
  match a, b with
  | Fin m e, Fin m' e' => Z.eqb m m' && Z.eqb e e'
  | NaN, NaN | PInf, PInf | NInf, NInf => true
  | _, _ => false
  end.

(* f(batch)[r] against f(batch[r:r+1])[0], bit for bit *)
Record ri_case := { ri_batch : observed; ri_single : list observed }.

Definition ri_check (c : ri_case) : bool :=
  match ri_batch c with
  | ObsRaised => forallb (fun s => match s with ObsRaised => true | _ => false end) (ri_single c)
  | ObsOut dt rows =>
      forallb2 (fun row s => match s with
                             | ObsOut dt' [row'] => dtype_eqb dt dt' && list_eqb fval_eqb row row'
                             | _ => false
                             end) rows (ri_single c)
  end.

(* numpy.promote_types(a, b) as observed on this run *)
Record pt_case := { pt_a : dtype; pt_b : dtype; pt_obs : option dtype }.
Definition pt_check (c : pt_case) : bool :=
  match pt_obs c with Some d => dtype_eqb (promote2 (pt_a c) (pt_b c)) d | None => false end.

(* ================================================================ 9. the @preprocess decorator / Preprocess metaclass *)
Inductive dec_outcome := DecTypeError | DecValueError | DecPreprocessError | DecOk.

Definition dec_outcome_eqb (a b : dec_outcome) : bool :=
  match a, b with
  | DecTypeError, DecTypeError | DecValueError, DecValueError | DecPreprocessError, DecPreprocessError | DecOk, DecOk => true
  | _, _ => false
  end.

(* the checks of preprocesses/_base.py in their order: input an ndarray, 2-D; result an ndarray, 2-D, same number of traces *)
Definition decorator_model (in_is_array : bool) (in_ndim : nat) (out_is_array : bool) (out_ndim rows_in rows_out : nat) : dec_outcome :=
  if negb in_is_array then DecTypeError
  else if negb (in_ndim =? 2)%nat then DecValueError
  else if negb out_is_array then DecPreprocessError
  else if negb (out_ndim =? 2)%nat then DecPreprocessError
  else if negb (rows_out =? rows_in)%nat then DecPreprocessError
  else DecOk.

Record dec_case := {
  dec_in_array : bool; dec_in_ndim : nat; dec_out_array : bool; dec_out_ndim : nat; dec_rows_in : nat; dec_rows_out : nat;
  dec_obs : option dec_outcome                    (* None = some other exception *)
}.

Definition dec_check (c : dec_case) : bool :=
  match dec_obs c with
  | Some o => dec_outcome_eqb o (decorator_model (dec_in_array c) (dec_in_ndim c) (dec_out_array c) (dec_out_ndim c) (dec_rows_in c) (dec_rows_out c))
  | None => false
  end.

(* ================================================================ 10. one preprocess object called several times *)
(* The preprocesses are history-free: the model of the k-th call of an object is the model of a first call.  A reuse
   case is the list of the calls made on ONE object, each with its own traces (width, row count, dtype) and observation. *)
Inductive any_case := AComb (c : comb_case) | AFo (c : fo_case) | ATf (c : tf_case) | AFm (c : fm_case).

Definition any_check (a : any_case) : bool :=
  match a with AComb c => comb_check c | AFo c => fo_check c | ATf c => tf_check c | AFm c => fm_check c end.

Definition reuse_case := list any_case.
Definition reuse_check (l : reuse_case) : bool := forallb any_check l.
Definition reuse_explain (l : reuse_case) : list bool := map any_check l.

(* ================================================================ 11. large batches, run-length encoded *)
(* The batch is [bg_rle] = runs (index of a distinct row, count) over the distinct rows [bg_rows]; the batch statistics
   (column means / variances) are those of the EXPANDED batch, the compared output rows are a sample: the inner case
   holds, as its input, the distinct row of every sampled output row and, as its observation, those output rows. *)
Record big_case := { bg_rle : list (nat * nat); bg_rows : list (list fval); bg_inner : any_case }.

Definition expand_rle {A} (rle : list (nat * nat)) (rows : list (list A)) : list (list A) :=
  flat_map (fun ic => repeat (nth (fst ic) rows []) (snd ic)) rle.

(* statistics of the expanded batch from the weighted distinct rows: count of row d, then per column
   mean = sum_d cnt_d x_d / N, var = sum_d cnt_d (x_d - mean)^2 / N, maxabs over the rows that occur *)
Definition rle_count (rle : list (nat * nat)) (d : nat) : nat :=
  fold_right (fun ic a => if (fst ic =? d)%nat then (snd ic + a)%nat else a) 0%nat rle.
Definition vadd (a b : list Qc) : list Qc := map2 Qcplus a b.
Definition wstats (w : nat) (rle : list (nat * nat)) (D : list (list Qc)) : bstats :=
  let cnts := map (rle_count rle) (seq 0 (length D)) in
  let N := fold_right Nat.add 0%nat cnts in
  let qn := qc_of_nat N in
  let zero := repeat 0 w in
  let wr := combine cnts D in
  let means := map (fun x => x / qn) (fold_right (fun cr acc => vadd (map (Qcmult (qc_of_nat (fst cr))) (snd cr)) acc) zero wr) in
  let vars := map (fun x => x / qn)
                  (fold_right (fun cr acc => vadd (map2 (fun x m => qc_of_nat (fst cr) * ((x - m) * (x - m))) (snd cr) means) acc) zero wr) in
  let mx := fold_right (fun cr acc => if (fst cr =? 0)%nat then acc else map2 qcmax (map qcabs (snd cr)) acc) zero wr in
  {| st_n := N; st_means := means; st_vars := vars; st_maxabs := mx |}.

Definition big_check (b : big_case) : bool :=
  match rows_qc (bg_rows b) with
  | None => false
  | Some D =>
      let SB := Some (wstats (length (hd [] D)) (bg_rle b) D) in
      match bg_inner b with
      | AComb c => obs_matches eight (comb_expected_s SB c) (cc_obs c)
      | AFo c => obs_matches sixteen (fo_expected_s SB c) (fo_obs c)
      | ATf c => obs_matches thirtytwo (tf_expected_s SB c) (tf_obs c)
      | AFm c => fm_check c
      end
  end.
