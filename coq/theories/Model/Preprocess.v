(* Model/Preprocess.v — spec and impl-model of scared/preprocesses (property C18).
   Executable definitions only; proofs are in Proofs/Preprocess.v.

   Layout
     1  spec: the sample-pair enumerations as comprehensions
     2  impl-model: the loops of high_order/_base.py exactly as coded (matrices as functions, result buffer =
        np.empty, running offset cnt, slice assignment, transpose / broadcast / transpose)
     3  dtypes and the promotion table (repaired code: numpy.promote_types)
     4  frames (slice -> range, int, list, Ellipsis, None), dispatch of _combination
     5  spec of the four combination preprocesses on rows of exact rationals, case record + check
     6  first-order preprocesses, case record + check
     7  time-frequency preprocesses: compositions around the FFT oracle (Section variables), case record + check *)
From Coq Require Import NArith ZArith QArith Qcanon List Bool Lia.
From ScaredV Require Import Run.Compare Lib.QcSum.
Import ListNotations.

(* ================================================================ 1. spec: pair enumerations *)

(* all pairs i <= j of one frame of n points, i ascending then j ascending *)
Definition pairs_full (n : nat) : list (nat * nat) :=
  flat_map (fun i => map (pair i) (seq i (n - i))) (seq 0 n).

(* pairs within a distance: j in [i, min (i + d, n - 1)] *)
Definition pairs_dist (n d : nat) : list (nat * nat) :=
  flat_map (fun i => map (pair i) (seq i (Nat.min (S d) (n - i)))) (seq 0 n).

(* frame x frame, row-major *)
Definition pairs_two (n1 n2 : nat) : list (nat * nat) :=
  flat_map (fun i => map (pair i) (seq 0 n2)) (seq 0 n1).

(* point to point *)
Definition pairs_p2p (n : nat) : list (nat * nat) := map (fun i => (i, i)) (seq 0 n).

(* point to point as numpy evaluates op(chunk_1, chunk_2): equal widths, or one operand of width 1 is broadcast
   (reachable only when one frame is None); None = numpy refuses *)
Definition pairs_p2p_bcast (n1 n2 : nat) : option (list (nat * nat)) :=
  if (n1 =? n2)%nat then Some (pairs_p2p n1)
  else if (n1 =? 1)%nat then Some (map (fun j => (0%nat, j)) (seq 0 n2))
  else if (n2 =? 1)%nat then Some (map (fun i => (i, 0%nat)) (seq 0 n1))
  else None.

(* ================================================================ 2. impl-model: the loops as coded *)

Record mat (A : Type) := { nrows : nat; ncols : nat; cell : nat -> nat -> A }.
Arguments nrows {A} _.
Arguments ncols {A} _.
Arguments cell {A} _ _ _.

Definition map_mat {A B} (f : A -> B) (M : mat A) : mat B :=
  {| nrows := nrows M; ncols := ncols M; cell := fun r c => f (cell M r c) |}.

(* traces[:, frame] with frame a list of column indices (fancy indexing) *)
Definition select {A} (T : mat A) (idx : list nat) : mat A :=
  {| nrows := nrows T; ncols := length idx; cell := fun r c => cell T r (nth c idx 0%nat) |}.

(* M[:, i : i + k]   (k already clipped to the width by the caller) *)
Definition col_slice {A} (M : mat A) (i k : nat) : mat A :=
  {| nrows := nrows M; ncols := k; cell := fun r c => cell M r (i + c)%nat |}.

(* M[:, i] : a vector of length nrows *)
Definition column {A} (M : mat A) (i : nat) : nat -> A := fun r => cell M r i.

(* M.T *)
Definition transpose {A} (M : mat A) : mat A :=
  {| nrows := ncols M; ncols := nrows M; cell := fun r c => cell M c r |}.

(* np.empty *)
Definition empty_mat {A} (n w : nat) : mat (option A) := {| nrows := n; ncols := w; cell := fun _ _ => None |}.

(* result[:, cnt : cnt + X.shape[1]] = X ; numpy refuses when the (clipped) slice and X differ in shape *)
Definition assign_cols {A} (res : mat (option A)) (cnt : nat) (X : mat A) : option (mat (option A)) :=
  if (nrows X =? nrows res)%nat && (cnt + ncols X <=? ncols res)%nat then
    Some {| nrows := nrows res; ncols := ncols res;
            cell := fun r c => if (cnt <=? c)%nat && (c <? cnt + ncols X)%nat then Some (cell X r (c - cnt)%nat) else cell res r c |}
  else None.

(* sum(range(n)) *)
Definition sum_range (n : nat) : nat := fold_right Nat.add 0%nat (seq 0 n).

Section CombinationLoops.
  Context {A : Type} (op : A -> A -> A).

  (* self._operation(tmp1, X) with tmp1 of shape (N,) and X of shape (k, N): numpy broadcasts tmp1 along the rows of X *)
  Definition bcast_op (v : nat -> A) (X : mat A) : mat A :=
    {| nrows := nrows X; ncols := ncols X; cell := fun j r => op (v r) (cell X j r) |}.

  (* one loop body: self._operation(tmp1, tmp2.T).T *)
  Definition block (tmp1 : nat -> A) (tmp2 : mat A) : mat A := transpose (bcast_op tmp1 (transpose tmp2)).

  (* _CombinationOfTwoFrames.__call__: for i in range(chunk_1.shape[1]) *)
  Fixpoint two_loop (was_none : bool) (c1 c2 : mat A) (is : list nat) (cnt : nat) (res : mat (option A))
    : option (mat (option A)) :=
    match is with
    | [] => Some res
    | i :: is' =>
        let tmp2 := if was_none then col_slice c2 i (ncols c2 - i) else c2 in
        let tmp1 := column c1 i in
        match assign_cols res cnt (block tmp1 tmp2) with
        | Some res' => two_loop was_none c1 c2 is' (cnt + ncols tmp2) res'
        | None => None
        end
    end.

  Definition impl_two_frames (was_none : bool) (c1 c2 : mat A) : option (mat (option A)) :=
    let size := if was_none then sum_range (ncols c1 + 1) else (ncols c1 * ncols c2)%nat in
    two_loop was_none c1 c2 (seq 0 (ncols c1)) 0 (empty_mat (nrows c1) size).

  (* _CombinationFrameOnDistance._execute(chunk_1, chunk_2, result): result = None only counts *)
  Fixpoint dist_loop (distance : nat) (c1 c2 : mat A) (is : list nat) (cnt : nat) (res : option (mat (option A)))
    : option (nat * option (mat (option A))) :=
    match is with
    | [] => Some (cnt, res)
    | i :: is' =>
        let stop := Nat.min (i + distance + 1) (ncols c2) in
        let tmp2 := col_slice c2 i (stop - i) in
        let tmp1 := column c1 i in
        match res with
        | None => dist_loop distance c1 c2 is' (cnt + ncols tmp2) None
        | Some r =>
            match assign_cols r cnt (block tmp1 tmp2) with
            | Some r' => dist_loop distance c1 c2 is' (cnt + ncols tmp2) (Some r')
            | None => None
            end
        end
    end.

  Definition impl_distance (distance : nat) (c : mat A) : option (mat (option A)) :=
    match dist_loop distance c c (seq 0 (ncols c)) 0 None with
    | Some (size, _) =>
        match dist_loop distance c c (seq 0 (ncols c)) 0 (Some (empty_mat (nrows c) size)) with
        | Some (_, Some r) => Some r
        | _ => None
        end
    | None => None
    end.

  (* _CombinationPointToPoint.__call__: self._operation(chunk_1, chunk_2), numpy broadcasting on the column axis *)
  Definition impl_p2p (c1 c2 : mat A) : option (mat A) :=
    if (ncols c1 =? ncols c2)%nat then
      Some {| nrows := nrows c1; ncols := ncols c1; cell := fun r c => op (cell c1 r c) (cell c2 r c) |}
    else if (ncols c1 =? 1)%nat then
      Some {| nrows := nrows c1; ncols := ncols c2; cell := fun r c => op (cell c1 r 0%nat) (cell c2 r c) |}
    else if (ncols c2 =? 1)%nat then
      Some {| nrows := nrows c1; ncols := ncols c1; cell := fun r c => op (cell c1 r c) (cell c2 r 0%nat) |}
    else None.
End CombinationLoops.

(* which of the three classes _combination builds, with the frames already resolved to column indices *)
Inductive comb_kind :=
| KTwo (f1 f2 : list nat) (was_none : bool)
| KDist (f : list nat) (distance : nat)
| KP2P (f1 f2 : list nat).

(* the documented pairs, as positions inside the frames *)
Definition kind_pairs (k : comb_kind) : option (list (nat * nat)) :=
  match k with
  | KTwo f1 f2 true => Some (pairs_full (length f1))
  | KTwo f1 f2 false => Some (pairs_two (length f1) (length f2))
  | KDist f d => Some (pairs_dist (length f) d)
  | KP2P f1 f2 => pairs_p2p_bcast (length f1) (length f2)
  end.

Definition kind_frames (k : comb_kind) : list nat * list nat :=
  match k with KTwo f1 f2 _ => (f1, f2) | KDist f _ => (f, f) | KP2P f1 f2 => (f1, f2) end.

(* the whole __call__: chunks are cast (astype) BEFORE the operation *)
Definition impl_comb {B A} (cast : B -> A) (op : A -> A -> A) (k : comb_kind) (T : mat B) : option (mat (option A)) :=
  match k with
  | KTwo f1 f2 wn => impl_two_frames op wn (map_mat cast (select T f1)) (map_mat cast (select T f2))
  | KDist f d => impl_distance op d (map_mat cast (select T f))
  | KP2P f1 f2 => option_map (map_mat Some) (impl_p2p op (map_mat cast (select T f1)) (map_mat cast (select T f2)))
  end.

(* boundary with lists *)
Definition mat_of_rows {A} (d : A) (w : nat) (M : list (list A)) : mat A :=
  {| nrows := length M; ncols := w; cell := fun r c => nth c (nth r M []) d |}.
Definition rows_of_mat {A} (M : mat A) : list (list A) :=
  map (fun r => map (fun c => cell M r c) (seq 0 (ncols M))) (seq 0 (nrows M)).

(* ================================================================ 3. dtypes and promotion *)

Inductive dtype := DBool | DI8 | DU8 | DI16 | DU16 | DI32 | DU32 | DI64 | DU64 | DF16 | DF32 | DF64.

Definition all_dtypes : list dtype := [DBool; DI8; DU8; DI16; DU16; DI32; DU32; DI64; DU64; DF16; DF32; DF64].
Definition all_precs : list prec := [F32; F64].

Definition dtype_eqb (a b : dtype) : bool :=
  match a, b with
  | DBool, DBool | DI8, DI8 | DU8, DU8 | DI16, DI16 | DU16, DU16 | DI32, DI32 | DU32, DU32
  | DI64, DI64 | DU64, DU64 | DF16, DF16 | DF32, DF32 | DF64, DF64 => true
  | _, _ => false
  end.

Definition is_float (d : dtype) : bool := match d with DF16 | DF32 | DF64 => true | _ => false end.
Definition is_int (d : dtype) : bool :=
  match d with DI8 | DU8 | DI16 | DU16 | DI32 | DU32 | DI64 | DU64 => true | _ => false end.

(* storage width in bits *)
Definition dt_bits (d : dtype) : Z :=
  match d with
  | DBool => 8 | DI8 | DU8 => 8 | DI16 | DU16 | DF16 => 16 | DI32 | DU32 | DF32 => 32 | DI64 | DU64 | DF64 => 64
  end.

(* value range of the integer dtypes (bool as 0/1) *)
Definition dt_range (d : dtype) : option (Z * Z) :=
  match d with
  | DBool => Some (0, 1)
  | DI8 => Some (-2 ^ 7, 2 ^ 7 - 1) | DU8 => Some (0, 2 ^ 8 - 1)
  | DI16 => Some (-2 ^ 15, 2 ^ 15 - 1) | DU16 => Some (0, 2 ^ 16 - 1)
  | DI32 => Some (-2 ^ 31, 2 ^ 31 - 1) | DU32 => Some (0, 2 ^ 32 - 1)
  | DI64 => Some (-2 ^ 63, 2 ^ 63 - 1) | DU64 => Some (0, 2 ^ 64 - 1)
  | _ => None
  end%Z.

(* significand precision of the float dtypes (bits, hidden bit included) and largest binade *)
Definition sig_bits (d : dtype) : Z := match d with DF16 => 11 | DF32 => 24 | DF64 => 53 | _ => 0 end.
Definition max_exp (d : dtype) : Z := match d with DF16 => 16 | DF32 => 128 | DF64 => 1024 | _ => 0 end.

(* number of significant bits a value of an integer dtype may need / of a float dtype *)
Definition value_bits (d : dtype) : Z :=
  match d with
  | DBool => 1 | DI8 => 7 | DU8 => 8 | DI16 => 15 | DU16 => 16 | DI32 => 31 | DU32 => 32 | DI64 => 63 | DU64 => 64
  | DF16 => 11 | DF32 => 24 | DF64 => 53
  end.

(* every value of dtype [d] is exactly representable in the float dtype [f] *)
Definition exact_in (d f : dtype) : bool := is_float f && (value_bits d <=? sig_bits f)%Z.

Definition dtype_of_prec (p : prec) : dtype := match p with F32 => DF32 | F64 => DF64 end.
Definition prec_of_dtype (d : dtype) : option prec := match d with DF32 => Some F32 | DF64 => Some F64 | _ => None end.

(* order of the float dtypes *)
Definition float_le (a b : dtype) : bool := is_float a && is_float b && (sig_bits a <=? sig_bits b)%Z.

(* numpy.promote_types(traces.dtype, precision) for precision in {float32, float64} — the repaired code *)
Definition promote (d : dtype) (p : prec) : dtype :=
  match p with
  | F64 => DF64
  | F32 => match d with DI32 | DU32 | DI64 | DU64 | DF64 => DF64 | _ => DF32 end
  end.

(* the code as found: max(traces.dtype, precision) under the safe-cast partial order, where `a < b` means
   can_cast(a, b) and a <> b; max(a, b) returns b if b > a else a *)
Definition can_cast_to_float (d : dtype) (p : prec) : bool := exact_in d (dtype_of_prec p).
Definition promote_old (d : dtype) (p : prec) : dtype :=
  if can_cast_to_float d p && negb (dtype_eqb d (dtype_of_prec p)) then dtype_of_prec p else d.

(* two's complement wrap of an integer to a storage dtype (what integer arithmetic does when no promotion happens) *)
Definition wrap_to (d : dtype) (z : Z) : Z :=
  match dt_range d with
  | Some (lo, hi) => ((z - lo) mod (hi - lo + 1) + lo)%Z
  | None => z
  end.

(* promotion of an array of dtype [d] with an array of float dtype f (given mean / std) *)
Definition promote_f (d : dtype) (f : prec) : dtype := promote d f.

(* ================================================================ 4. frames and dispatch *)

Inductive frame_spec :=
| FEllipsis                                         (* ... : the default frame_1 of the standard combinations *)
| FNone                                             (* None *)
| FInt (i : Z)
| FList (l : list Z)
| FSlice (start stop step : option Z).

(* range(start, stop, step) *)
Definition range_list (start stop step : Z) : list Z :=
  if (0 <? step)%Z then
    map (fun k => (start + Z.of_nat k * step)%Z) (seq 0 (Z.to_nat ((stop - start + step - 1) / step)))
  else if (step <? 0)%Z then
    map (fun k => (start + Z.of_nat k * step)%Z) (seq 0 (Z.to_nat ((start - stop - step - 1) / (- step))))
  else [].

Definition nonzero_or (o : option Z) (dflt : Z) : Z :=
  match o with Some v => if (v =? 0)%Z then dflt else v | None => dflt end.

(* the attribute stored by _BaseCombination._set_frame *)
Inductive stored_frame := SAll | SNone | SIdx (l : list Z).

(* None = the constructor raises (range(0, None, 1) is a TypeError) *)
Definition set_frame (f : frame_spec) : option stored_frame :=
  match f with
  | FSlice start stop step =>
      match stop with
      | Some sp => Some (SIdx (range_list (nonzero_or start 0) sp (nonzero_or step 1)))
      | None => None
      end
  | FInt i => Some (SIdx [i])
  | FList l => Some (SIdx l)
  | FNone => Some SNone
  | FEllipsis => Some SAll
  end.

(* numpy fancy indexing on an axis of width w: negative indices wrap once, anything else is an IndexError *)
Fixpoint resolve_idx (w : nat) (l : list Z) : option (list nat) :=
  match l with
  | [] => Some []
  | i :: t =>
      let wz := Z.of_nat w in
      if ((- wz <=? i) && (i <? wz))%Z then
        match resolve_idx w t with
        | Some t' => Some (Z.to_nat (if (i <? 0)%Z then i + wz else i) :: t')
        | None => None
        end
      else None
  end.

Inductive outcome (A : Type) :=
| Rejected                 (* the code raises *)
| Unsupported              (* outside the modelled domain (undocumented use); the check fails closed on it *)
| Done (a : A).
Arguments Rejected {A}.
Arguments Unsupported {A}.
Arguments Done {A} _.

Definition bind_outcome {A B} (o : outcome A) (f : A -> outcome B) : outcome B :=
  match o with Rejected => Rejected | Unsupported => Unsupported | Done a => f a end.

(* traces[:, frame] at call time: columns taken *)
Definition frame_columns (w : nat) (none_is_all : bool) (s : stored_frame) : outcome (list nat) :=
  match s with
  | SAll => Done (seq 0 w)
  | SNone => if none_is_all then Done (seq 0 w) else Unsupported   (* traces[:, None] adds an axis: not a documented use *)
  | SIdx l => match resolve_idx w l with Some l' => Done l' | None => Rejected end
  end.

Record comb_cfg := {
  cf_frame1 : frame_spec;
  cf_frame2 : frame_spec;          (* FNone = not given *)
  cf_same : bool;                  (* mode = 'same' (otherwise 'full') *)
  cf_distance : option Z
}.

Definition is_fnone (f : frame_spec) : bool := match f with FNone => true | _ => false end.

Definition stored_len (s : stored_frame) : option nat := match s with SIdx l => Some (length l) | _ => None end.

(* _combination(...) followed by __call__ on traces of width w: which loop runs on which columns *)
Definition comb_dispatch (cfg : comb_cfg) (w : nat) : outcome comb_kind :=
  let has_d := match cf_distance cfg with Some _ => true | None => false end in
  if has_d && (cf_same cfg || negb (is_fnone (cf_frame2 cfg))) then Rejected
  else if cf_same cfg && is_fnone (cf_frame2 cfg) then Rejected
  else match cf_distance cfg with
  | Some d =>
      (* _CombinationFrameOnDistance: frames are set first, then the distance is validated *)
      match set_frame (cf_frame1 cfg) with
      | None => Rejected
      | Some s1 =>
          if (d <? 1)%Z then Rejected
          else bind_outcome (frame_columns w false s1) (fun f => Done (KDist f (Z.to_nat d)))
      end
  | None =>
      if cf_same cfg then
        (* _CombinationPointToPoint *)
        match set_frame (cf_frame1 cfg), set_frame (cf_frame2 cfg) with
        | Some s1, Some s2 =>
            let len_ok :=
              match s1, s2 with
              | SNone, _ | _, SNone => Some true
              | SIdx l1, SIdx l2 => Some (length l1 =? length l2)%nat
              | _, _ => None                         (* len(Ellipsis) is a TypeError *)
              end in
            match len_ok with
            | Some true =>
                bind_outcome (frame_columns w true s1) (fun f1 =>
                bind_outcome (frame_columns w true s2) (fun f2 =>
                match pairs_p2p_bcast (length f1) (length f2) with
                | Some _ => Done (KP2P f1 f2)
                | None => Rejected
                end))
            | _ => Rejected
            end
        | _, _ => Rejected
        end
      else
        (* _CombinationOfTwoFrames *)
        let wn := is_fnone (cf_frame2 cfg) in
        let fr2 := if wn then cf_frame1 cfg else cf_frame2 cfg in
        match set_frame (cf_frame1 cfg), set_frame fr2 with
        | Some s1, Some s2 =>
            bind_outcome (frame_columns w false s1) (fun f1 =>
            bind_outcome (frame_columns w false s2) (fun f2 => Done (KTwo f1 f2 wn)))
        | _, _ => Rejected
        end
  end.

(* ================================================================ 5. the four combination preprocesses on exact rationals *)
Local Open Scope Qc_scope.

Definition qcabs (x : Qc) : Qc := if Qle_bool 0 x then x else - x.
Definition qcmax (a b : Qc) : Qc := if Qle_bool a b then b else a.
Definition qc_of_nat (n : nat) : Qc := Q2Qc (inject_Z (Z.of_nat n)).
Definition qc_of_z (z : Z) : Qc := Q2Qc (inject_Z z).

Inductive comb_op := OpProduct | OpCenteredProduct | OpDifference | OpAbsDifference.

Definition op_fun (o : comb_op) : Qc -> Qc -> Qc :=
  match o with
  | OpProduct | OpCenteredProduct => Qcmult
  | OpDifference => Qcminus
  | OpAbsDifference => fun a b => qcabs (a - b)
  end.

(* spec, one trace: the operation applied to the documented pairs, in the documented order.
   [f1], [f2] are the columns of the two frames; a pair (i, j) combines sample f1[i] with sample f2[j]. *)
Definition comb_row (op : Qc -> Qc -> Qc) (pairs : list (nat * nat)) (f1 f2 : list nat) (row : list Qc) : list Qc :=
  map (fun p => op (nth (nth (fst p) f1 0%nat) row 0) (nth (nth (snd p) f2 0%nat) row 0)) pairs.

Definition column_of (T : list (list Qc)) (j : nat) : list Qc := map (fun r => nth j r 0) T.

(* batch mean of every column *)
Definition col_means (w : nat) (T : list (list Qc)) : list Qc := map (fun j => qmean (column_of T j)) (seq 0 w).

Definition sub_rows (row m : list Qc) : list Qc := map (fun p => fst p - snd p) (combine row m).

(* CenterOn(mean)(traces): the given mean, or the mean of the batch *)
Definition center_with (w : nat) (mean : option (list Qc)) (T : list (list Qc)) : list (list Qc) :=
  let m := match mean with Some m => m | None => col_means w T end in
  map (fun row => sub_rows row m) T.

(* spec, whole batch *)
Definition comb_spec (o : comb_op) (pairs : list (nat * nat)) (f1 f2 : list nat) (w : nat) (mean : option (list Qc))
  (T : list (list Qc)) : list (list Qc) :=
  let T' := match o with OpCenteredProduct => center_with w mean T | _ => T end in
  map (comb_row (op_fun o) pairs f1 f2) T'.

(* ---- rounding-error magnitudes (only used to scale the tolerance of the comparison) *)
Definition mag_fun (o : comb_op) : Qc -> Qc -> Qc :=
  match o with OpProduct | OpCenteredProduct => Qcmult | _ => Qcplus end.

Definition col_maxabs (w : nat) (T : list (list Qc)) : list Qc :=
  map (fun j => fold_right qcmax 0 (map qcabs (column_of T j))) (seq 0 w).

Definition add_rows (row m : list Qc) : list Qc := map (fun p => fst p + snd p) (combine row m).

Definition comb_mag (o : comb_op) (pairs : list (nat * nat)) (f1 f2 : list nat) (w : nat) (mean : option (list Qc))
  (T : list (list Qc)) : list (list Qc) :=
  match o with
  | OpCenteredProduct =>
      let m := match mean with Some m => map qcabs m | None => col_maxabs w T end in
      let k := qc_of_nat (length T + 3) in
      map (fun row => map (Qcmult k) (comb_row Qcmult pairs f1 f2 (add_rows (map qcabs row) m))) T
  | _ => map (fun row => comb_row (mag_fun o) pairs f1 f2 (map qcabs row)) T
  end.

(* ---- observations *)
Inductive observed :=
| ObsRaised
| ObsOut (dt : dtype) (rows : list (list fval)).

Definition fvals_qc (l : list fval) : option (list Qc) :=
  fold_right (fun v acc => match fval_qc v, acc with Some q, Some t => Some (q :: t) | _, _ => None end) (Some []) l.

Definition rows_qc (M : list (list fval)) : option (list (list Qc)) :=
  fold_right (fun r acc => match fvals_qc r, acc with Some q, Some t => Some (q :: t) | _, _ => None end) (Some []) M.

Definition uround_dt (d : dtype) : Qc :=
  match d with DF64 => Q2Qc u64 | DF32 => Q2Qc u32 | _ => Q2Qc (1 # 2048) end.

(* |obs - v| <= ulps * u * mag *)
Definition close_to (ulps : Qc) (u : Qc) (obs : fval) (v mag : Qc) : bool :=
  match fval_qc obs with
  | Some x => Qle_bool (qcabs (x - v)) (ulps * u * mag)
  | None => false
  end.

Definition rows_close (ulps u : Qc) (obs : list (list fval)) (exp mag : list (list Qc)) : bool :=
  forallb2 (fun o em => forallb2 (fun x vm => close_to ulps u x (fst vm) (snd vm)) o (combine (fst em) (snd em)))
           obs (combine exp mag)
  && (length exp =? length mag)%nat
  && forallb2 (fun e m => (length e =? length m)%nat) exp mag.

Definition rect (w : nat) (T : list (list Qc)) : bool := forallb (fun r => (length r =? w)%nat) T.

Record comb_case := {
  cc_op : comb_op;
  cc_cfg : comb_cfg;
  cc_dtype : dtype;                               (* dtype of the traces *)
  cc_prec : prec;                                 (* precision argument *)
  cc_mean : option (prec * list fval);            (* CenteredProduct(mean=...): dtype and values, None = batch mean *)
  cc_width : nat;
  cc_in : list (list fval);                       (* the traces, row by row, exact *)
  cc_obs : observed
}.

(* output dtype: the promoted dtype; a given mean array of a wider float dtype widens the centred traces *)
Definition comb_out_dtype (c : comb_case) : dtype :=
  let d := promote (cc_dtype c) (cc_prec c) in
  match cc_op c, cc_mean c with
  | OpCenteredProduct, Some (F64, _) => DF64
  | _, _ => d
  end.

(* expected values and magnitudes *)
Definition comb_expected (c : comb_case) : outcome (dtype * list (list Qc) * list (list Qc)) :=
  match rows_qc (cc_in c) with
  | None => Unsupported
  | Some T =>
      if negb (rect (cc_width c) T) then Unsupported else
      bind_outcome (comb_dispatch (cc_cfg c) (cc_width c)) (fun k =>
        match kind_pairs k with
        | None => Rejected
        | Some pairs =>
            let '(f1, f2) := kind_frames k in
            let mean := match cc_mean c with Some (_, m) => Some (fvals_qc m) | None => None end in
            match mean with
            | Some None => Unsupported
            | Some (Some m) =>
                if negb (length m =? cc_width c)%nat then Unsupported
                else Done (comb_out_dtype c, comb_spec (cc_op c) pairs f1 f2 (cc_width c) (Some m) T,
                           comb_mag (cc_op c) pairs f1 f2 (cc_width c) (Some m) T)
            | None =>
                Done (comb_out_dtype c, comb_spec (cc_op c) pairs f1 f2 (cc_width c) None T,
                      comb_mag (cc_op c) pairs f1 f2 (cc_width c) None T)
            end
        end)
  end.

Definition eight : Qc := Q2Qc 8.

Definition comb_check (c : comb_case) : bool :=
  match comb_expected c, cc_obs c with
  | Rejected, ObsRaised => true
  | Done (dt, exp, mag), ObsOut dt' rows =>
      dtype_eqb dt dt' && rows_close eight (uround_dt dt) rows exp mag
  | _, _ => false
  end.

(* for replay files: what the model expects *)
Definition comb_explain (c : comb_case) : outcome (dtype * list (list Q)) :=
  bind_outcome (comb_expected c) (fun x => Done (fst (fst x), map (map this) (snd (fst x)))).
