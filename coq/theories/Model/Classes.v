(* Model/Classes.v — property C12: classes are identified by VALUE (order irrelevant, foreign values ignored).
   Executable definitions only; the proofs are in Proofs/Classes.v.

   This file adds nothing to the impl-models of the class-based distinguishers: they are the colleagues' models
     Model/Partitioned.v   ANOVA / NICV / SNR   (lut, contrib, feed_batches, run_entry; SPEC: group / groups by value)
     Model/Template.v      template building and matching (class_index, contrib, feedB, template, pooled, sel, feedM, mcomp)
     Model/Mia.v           MIA (class_of, contrib, hist_feed, q_mi_code, comp)
   (used with qualified names P. / T. / M.).  It defines
     - what "the class list permuted by sigma" is ([permute], [is_perm]);
     - the VALUE-KEYED specifications that have no counterpart yet: the building traces of the class declared with a value
       ([vclass_rows]), the joint histogram by (bin, value) ([vhist]) and the mutual information over a list of VALUES ([mi_values]);
     - the automatic class set from the GENERATED constants and tabulation (Generated/ClassConsts.v);
     - the case records and check functions of the correspondence harness tools/props/C12.py. *)
From Coq Require Import ZArith QArith Qcanon List Bool Lia.
From ScaredV Require Import Lib.QcSum Run.Compare Model.Accum Generated.ClassConsts.
From ScaredV Require Model.Partitioned Model.Template Model.Mia.
Import ListNotations.
Module P := ScaredV.Model.Partitioned.
Module T := ScaredV.Model.Template.
Module M := ScaredV.Model.Mia.
Local Open Scope Qc_scope.

(* ================================================================ class lists *)

(* the list l read through sigma: position k of the result holds l[sigma[k]] *)
Definition permute {A} (d : A) (sigma : list nat) (l : list A) : list A := map (fun i => nth i l d) sigma.
(* sigma is a permutation of the positions 0 .. n-1  (Prop version in Proofs/Classes.v: Permutation sigma (seq 0 n)) *)
Definition is_permb (n : nat) (sigma : list nat) : bool :=
  Nat.eqb (length sigma) n && forallb (fun i => existsb (Nat.eqb i) sigma) (seq 0 n).

Definition declared (parts : list Z) (v : Z) : bool := existsb (Z.eqb v) parts.
(* "the class declared at position k has the value v" *)
Definition value_at (parts : list Z) (k : nat) (v : Z) : bool :=
  match nth_error parts k with Some c => Z.eqb v c | None => false end.

(* ================================================================ value-keyed specifications *)

(* template building: the traces whose intermediate value EQUALS the value declared at position k *)
Definition vclass_rows (parts : list Z) (k : nat) (rows : list T.brow) : list T.vec :=
  map snd (filter (fun r => value_at parts k (fst r)) rows).
Definition vspec_templates (parts : list Z) (S : nat) (rows : list T.brow) : T.mat :=
  T.tabulate (length parts) (fun k => T.tabulate S (T.class_mean (vclass_rows parts k rows))).

(* MIA: the number of traces whose sample lies in bin b (numpy.histogram's rule) and whose value is c *)
Definition vhits (edges : list Qc) (b : nat) (c : Z) (r : M.row) : bool :=
  match M.bin_spec edges (fst r) with Some b' => Nat.eqb b' b && Z.eqb (snd r) c | None => false end.
Definition vhist (edges : list Qc) (rows : list M.row) (b : nat) (c : Z) : Z :=
  Z.of_nat (length (filter (vhits edges b c) rows)).

(* the formula of MIA._compute over an ABSTRACT class index type A and count function: sum over the classes [vs] *)
Section MiAbs.
  Variable A : Type.
  Variable phi : Qc -> Qc.
  Variable cnt : nat -> A -> Qc.
  Definition a_nz (s : Qc) : Qc := M.nz Qc 1 M.q_is0 s.
  Definition a_cb (vs : list A) (b : nat) : Qc := qsum (map (cnt b) vs).
  Definition a_cv (bs : list nat) (v : A) : Qc := qsum (map (fun b => cnt b v) bs).
  Definition a_total (bs : list nat) (vs : list A) : Qc := qsum (map (a_cb vs) bs).
  Definition a_mi (bs : list nat) (vs : list A) : Qc :=
    qsum (map (fun v =>
      qsum (map (fun b => phi (a_nz (cnt b v / a_nz (a_cv bs v))) - phi (a_nz (a_cb vs b / a_nz (a_total bs vs)))) bs)
      * (a_cv bs v / a_total bs vs)) vs).
End MiAbs.

(* the mutual information between the binned samples and the classes given as a list of VALUES; None = no sample of a
   declared class inside the edges *)
Definition mi_values (phi : Qc -> Qc) (edges : list Qc) (vals : list Z) (rows : list M.row) : option Qc :=
  let bs := seq 0 (M.nbins edges) in
  let cnt := fun b c => qz (vhist edges rows b c) in
  if M.q_is0 (a_total Z cnt bs vals) then None else Some (a_mi Z phi cnt bs vals).

(* the same value, organised for evaluation: totals and per-bin terms computed once (Proofs/Classes.v: mi_values_fast_eq) *)
Definition a_mi_fast (A : Type) (phi : Qc -> Qc) (cnt : nat -> A -> Qc) (bs : list nat) (vs : list A) : Qc :=
  let tot := a_total A cnt bs vs in
  let ntot := a_nz tot in
  let ebs := map (fun b => phi (a_nz (a_cb A cnt vs b / ntot))) bs in
  qsum (map (fun v =>
    let cvv := a_cv A cnt bs v in
    let ncv := a_nz cvv in
    qsum (map (fun be => phi (a_nz (cnt (fst be) v / ncv)) - snd be) (combine bs ebs)) * (cvv / tot)) vs).

Definition mi_values_fast (phi : Qc -> Qc) (edges : list Qc) (vals : list Z) (rows : list M.row) : option Qc :=
  let bs := seq 0 (M.nbins edges) in
  let tags := map (fun r : M.row => (M.bin_spec edges (fst r), snd r)) rows in
  let cnt := fun b c => qz (Z.of_nat (length (filter (fun t : option nat * Z =>
                 match fst t with Some b' => Nat.eqb b' b && Z.eqb (snd t) c | None => false end) tags))) in
  let tot := a_total Z cnt bs vals in
  if M.q_is0 tot then None else Some (a_mi_fast Z phi cnt bs vals).

(* ================================================================ automatic class set (partitions=None), from the generated constants *)
Local Open Scope Z_scope.

Definition cmp_holds (op : cmp_op) (a b : Z) : bool :=
  match op with CmpLt => a <? b | CmpLe => a <=? b | CmpGt => b <? a | CmpGe => b <=? a end.

(* for r in ls: if maxdata <op> r: break     -> r *)
Fixpoint rule_loop (op : cmp_op) (mx : Z) (ls : list Z) (last : Z) : Z :=
  match ls with
  | [] => last
  | r :: t => if cmp_holds op mx r then r else rule_loop op mx t r
  end.
Definition rule_size (op : cmp_op) (ls : list Z) (mx : Z) : Z := rule_loop op mx ls 0.

Definition zrange (n : Z) : list Z := map Z.of_nat (seq 0 (Z.to_nat n)).

(* the rule as read from the source *)
Definition auto_size (mx : Z) : Z := rule_size auto_break_op auto_ls mx.
(* the size the real _initialize produced for this maximum (tabulated by running it) *)
Definition table_size (mx : Z) : option Z := option_map snd (find (fun p => Z.eqb (fst p) mx) auto_table).
Definition auto_refused (mx mn : Z) : bool :=
  cmp_holds auto_refuse_above_op mx auto_refuse_above || cmp_holds auto_refuse_below_op mn auto_refuse_below.
(* None = ValueError *)
Definition auto_classes (mx mn : Z) : option (list Z) :=
  if auto_refused mx mn then None else Some (zrange (auto_size mx)).
(* the class set according to the tabulation *)
Definition auto_classes_tab (mx : Z) : list Z :=
  match table_size mx with Some n => zrange n | None => [] end.

Definition zmem (v : Z) (l : list Z) : bool := existsb (Z.eqb v) l.

(* what is required of an observed automatic class set: it is the one of the generated rule, of the tabulation, and it holds
   every value of the first batch (the SPEC clause of the property) *)
Definition auto_ok (first : list Z) (obs_parts : option (list Z)) : bool :=
  match first with
  | [] => false
  | x :: _ =>
      let mx := P.zmax_list first x in
      let mn := P.zmin_list first x in
      match auto_classes mx mn, obs_parts with
      | None, None => true
      | Some ep, Some op =>
          zlist_eqb ep op && zlist_eqb (auto_classes_tab mx) op && forallb (fun v => zmem v op) first
      | _, _ => false
      end
  end.

(* ================================================================ correspondence cases *)

Definition fval_eqb (a b : fval) : bool :=
  match a, b with
  | Fin m e, Fin m' e' => Z.eqb m m' && Z.eqb e e'
  | NaN, NaN | PInf, PInf | NInf, NInf => true
  | _, _ => false
  end.
Definition fmat_eqb : list (list fval) -> list (list fval) -> bool := list_eqb (list_eqb fval_eqb).

Definition trace_eqb (a b : P.trace) : bool := zlist_eqb (fst a) (fst b) && zlist_eqb (snd a) (snd b).
Definition batches_eqb : list (list P.trace) -> list (list P.trace) -> bool := list_eqb (list_eqb trace_eqb).
(* a trace is kept when at least one of its data words is a declared value *)
Definition keep_trace (parts : list Z) (t : P.trace) : bool := existsb (declared parts) (snd t).
Definition first_batch_values (bs : list (list P.trace)) : list Z :=
  match bs with b :: _ => concat (map snd b) | [] => [] end.

(* ---------------------------------------------------------------- ANOVA / NICV / SNR: one data set under several class lists *)
Record pvariant := {
  pv_parts : option (list Z);            (* partitions argument (None = automatic) *)
  pv_filtered : bool;                    (* the distinguisher was fed the data WITHOUT the traces all of whose words are undeclared *)
  pv_exact : bool;                       (* the result must be bit-identical to the result of the first variant *)
  pv_obs_parts : list Z;                 (* .partitions afterwards *)
  pv_obs_counters : list (list Z);       (* the documented attribute counters [word][class]; [] = not recorded *)
  pv_obs_sums : list (list (list Z));    (* the documented attribute sum [sample][word][class]; [] = not recorded *)
  pv_obs : option (list (list fval))     (* compute() words x samples; None = ValueError at the first update *)
}.
Record cpart_case := {
  cq_metric : P.metric;
  cq_prec : prec;
  cq_batches : list (list P.trace);
  cq_variants : list pvariant
}.

Definition oqc_eqb (a b : option Qc) : bool :=
  match a, b with Some x, Some y => Qc_eq_bool x y | None, None => true | _, _ => false end.

(* one (word, sample) entry of compute(): the observed float against the statistic over the VALUE classes (tolerance rule of
   C04: P.obs_ok), and the impl-model of C04 against that spec on this input *)
Definition centry_check (m : P.metric) (p : prec) (parts : list Z) (bs : list (list P.trace)) (w s : nat) (v : fval) : bool :=
  let ebs := map (P.entry_rows w s) bs in
  let gs := P.groups (nodup Z.eq_dec parts) (concat ebs) in
  P.obs_ok p m gs v && oqc_eqb (P.run_entry m parts ebs) (P.spec_metric m gs).

Definition dims (bs : list (list P.trace)) : nat * nat :=
  match concat bs with t :: _ => (length (snd t), length (fst t)) | [] => (O, O) end.
Definition rect_ok (bs : list (list P.trace)) (W S : nat) : bool :=
  forallb (fun b => forallb (fun r : P.trace => Nat.eqb (length (fst r)) S && Nat.eqb (length (snd r)) W) b) bs.

Definition table_check (m : P.metric) (p : prec) (parts : list Z) (bs : list (list P.trace)) (tbl : list (list fval)) : bool :=
  let '(nw, ns) := dims bs in
  negb (Nat.eqb nw 0) && negb (Nat.eqb ns 0) && rect_ok bs nw ns
  && forallb2 (fun w ow => forallb2 (fun s v => centry_check m p parts bs w s v) (seq 0 ns) ow) (seq 0 nw) tbl.

(* the per-class accumulators: class k of word w holds the traces whose word w EQUALS parts[k] (count, sum of each sample) *)
Definition zsum (l : list Z) : Z := fold_right Z.add 0%Z l.
Definition accu_check (parts : list Z) (bs : list (list P.trace)) (counters : list (list Z)) (sums : list (list (list Z))) : bool :=
  let '(nw, ns) := dims bs in
  let rows := concat bs in
  let K := length parts in
  let sel w k := filter (fun t : P.trace => Z.eqb (nth w (snd t) (-1)%Z) (nth k parts (-2)%Z)) rows in
  negb (Nat.eqb (length (nodup Z.eq_dec parts)) K)
  || ((match counters with [] => true | _ =>
         Nat.eqb (length counters) nw
         && forallb (fun w => forallb (fun k => Z.eqb (nth k (nth w counters []) (-1)%Z) (Z.of_nat (length (sel w k)))) (seq 0 K)) (seq 0 nw)
       end)
      && (match sums with [] => true | _ =>
         Nat.eqb (length sums) ns
         && forallb (fun s => forallb (fun w => forallb (fun k =>
              Z.eqb (nth k (nth w (nth s sums []) []) (-1)%Z) (zsum (map (fun t : P.trace => nth s (fst t) 0%Z) (sel w k)))) (seq 0 K)) (seq 0 nw)) (seq 0 ns)
       end)).

Definition variant_batches (c : cpart_case) (v : pvariant) : list Z * list (list P.trace) :=
  let used_parts := match pv_parts v with Some p => p | None => pv_obs_parts v end in
  (used_parts, if pv_filtered v then map (filter (keep_trace used_parts)) (cq_batches c) else cq_batches c).

Definition pvariant_check (c : cpart_case) (v : pvariant) : bool :=
  let '(parts, bs) := variant_batches c v in
  let body tbl := zlist_eqb parts (pv_obs_parts v) && table_check (cq_metric c) (cq_prec c) parts bs tbl
                  && accu_check parts bs (pv_obs_counters v) (pv_obs_sums v) in
  match pv_parts v, pv_obs v with
  | Some _, Some tbl => body tbl
  | Some _, None => false
  | None, Some tbl => auto_ok (first_batch_values bs) (Some (pv_obs_parts v)) && body tbl
  | None, None => auto_ok (first_batch_values bs) None
  end.

Definition cpart_check (c : cpart_case) : bool :=
  match cq_variants c with
  | [] => false
  | v0 :: _ =>
      forallb (pvariant_check c) (cq_variants c)
      && forallb (fun v => negb (pv_exact v)
                           || match pv_obs v0, pv_obs v with Some a, Some b => fmat_eqb a b | _, _ => false end) (cq_variants c)
  end.

(* what the spec says, per variant: the class list and the statistic of every (word, sample) (for the replay files) *)
Definition cpart_expected (c : cpart_case) : list (list Z * list (list (option Q))) :=
  map (fun v =>
    let '(parts, bs) := variant_batches c v in
    let '(nw, ns) := dims bs in
    (parts, map (fun w => map (fun s =>
       option_map this (P.spec_metric (cq_metric c) (P.groups (nodup Z.eq_dec parts) (concat (map (P.entry_rows w s) bs))))) (seq 0 ns)) (seq 0 nw)))
    (cq_variants c).

(* ---------------------------------------------------------------- MIA *)
Record mvariant := {
  mv_parts : option (list Z);
  mv_filtered : bool;
  mv_obs_parts : list Z;
  mv_obs_acc : list (list (list (list Z)));   (* accumulators [sample][bin][class][word]; [] = not recorded *)
  mv_obs_res : option (list (list fval))      (* compute() [word][sample]; None = ValueError at the first update *)
}.
Record cmia_case := {
  cm_edges : list fval;                       (* bin_edges given to the constructor *)
  cm_ln : list fval;                          (* ln 1 .. ln n as computed by math.log *)
  cm_batches : list (list P.trace);           (* integer samples, data words *)
  cm_variants : list mvariant
}.

Definition mia_rows (s w : nat) (bs : list (list P.trace)) : list M.row :=
  map (fun t : P.trace => (qz (nth s (fst t) 0), nth w (snd t) (-1))) (concat bs).
Definition mia_batches (s w : nat) (bs : list (list P.trace)) : list (list M.row) :=
  map (map (fun t : P.trace => (qz (nth s (fst t) 0), nth w (snd t) (-1)))) bs.

Definition mia_tol : Q := Qmake 1 (2 ^ 30).

Definition mvariant_entry (edges lntab : list Qc) (parts : list Z) (bs : list (list P.trace)) (v : mvariant)
                          (res : list (list fval)) (s w : nat) : bool :=
  let nb := M.nbins edges in
  let rows := mia_rows s w bs in
  let vals := nodup Z.eq_dec parts in
  let spec := mi_values_fast (M.phi_ln lntab) edges vals rows in
  (* the public result against the value-keyed SPEC; the impl-model of C13 agrees with the spec on this input (not evaluated
     above 64 classes: its formula recomputes the totals for every cell) *)
  fval_matches 0 mia_tol (nth s (nth w res []) PInf) (option_map this spec)
  && (negb (Nat.eqb (length vals) (length parts)) || Nat.ltb 64 (length parts)
      || oqc_eqb (M.comp (M.phi_ln lntab) nb (length parts) (M.hist_feed edges (M.est_exact edges) parts (mia_batches s w bs))) spec)
  (* the joint histogram, when it was recorded: cell (bin, class k) counts the traces in the bin whose value is parts[k] *)
  && match mv_obs_acc v with
     | [] => true
     | acc => forallb (fun b => forallb (fun k =>
                 (negb (Nat.eqb (length vals) (length parts)))
                 || Z.eqb (nth w (nth k (nth b (nth s acc []) []) []) (-1)) (vhist edges rows b (nth k parts (-1))))
               (seq 0 (length parts))) (seq 0 nb)
     end.

Definition mvariant_check (c : cmia_case) (edges lntab : list Qc) (v : mvariant) : bool :=
  let used_parts := match mv_parts v with Some p => p | None => mv_obs_parts v end in
  let bs := if mv_filtered v then map (filter (keep_trace used_parts)) (cm_batches c) else cm_batches c in
  let W := match concat bs with t :: _ => length (snd t) | [] => O end in
  let S := match concat bs with t :: _ => length (fst t) | [] => O end in
  let body res :=
      zlist_eqb used_parts (mv_obs_parts v)
      && Nat.eqb (length res) W && forallb (fun r => Nat.eqb (length r) S) res
      && forallb (fun s => forallb (fun w => mvariant_entry edges lntab used_parts bs v res s w) (seq 0 W)) (seq 0 S) in
  match mv_parts v, mv_obs_res v with
  | Some _, Some res => body res
  | Some _, None => false
  | None, Some res => auto_ok (first_batch_values bs) (Some (mv_obs_parts v)) && body res
  | None, None => auto_ok (first_batch_values bs) None
  end.

Definition cmia_check (c : cmia_case) : bool :=
  match M.all_some (map fval_qc (cm_edges c)), M.all_some (map fval_qc (cm_ln c)) with
  | Some edges, Some lntab =>
      M.edges_ok M.mia_tol edges
      && negb (Nat.eqb (length (cm_variants c)) 0)
      && forallb (mvariant_check c edges lntab) (cm_variants c)
  | _, _ => false
  end.

Definition cmia_expected (c : cmia_case) : list (list (nat * nat * option Q)) :=
  match M.all_some (map fval_qc (cm_edges c)), M.all_some (map fval_qc (cm_ln c)) with
  | Some edges, Some lntab =>
      map (fun v =>
        let used_parts := match mv_parts v with Some p => p | None => mv_obs_parts v end in
        let bs := if mv_filtered v then map (filter (keep_trace used_parts)) (cm_batches c) else cm_batches c in
        let W := match concat bs with t :: _ => length (snd t) | [] => O end in
        let S := match concat bs with t :: _ => length (fst t) | [] => O end in
        flat_map (fun s => map (fun w =>
          (s, w, option_map this (mi_values_fast (M.phi_ln lntab) edges (nodup Z.eq_dec used_parts) (mia_rows s w bs)))) (seq 0 W)) (seq 0 S))
        (cm_variants c)
  | _, _ => []
  end.

(* ---------------------------------------------------------------- templates: one building / matching history under permuted class lists *)
Record ctmpl_case := {
  ct_base : T.tcase;
  ct_auto_first : list Z;                      (* non-empty = partitions=None: the class values of the first building batch *)
  ct_variants : list (list nat * T.tcase)      (* (sigma, the same history with the class list permuted by sigma) *)
}.

Fixpoint first_build (o : list T.tobs) : option (list (list fval) * list (list fval)) :=
  match o with
  | [] => None
  | T.ObsBuild _ tm cv _ :: _ => Some (tm, cv)
  | _ :: r => first_build r
  end.
Fixpoint last_scores (o : list T.tobs) (acc : option (list fval)) : option (list fval) :=
  match o with
  | [] => acc
  | T.ObsScores _ sc :: r => last_scores r (Some sc)
  | _ :: r => last_scores r acc
  end.

Fixpoint build_rows (den : positive) (h : list T.top) : list T.brow :=
  match h with
  | [] => []
  | T.OpBuild bs :: r => (concat (map (map (T.brow_of den)) bs) ++ build_rows den r)%list
  | _ :: r => build_rows den r
  end.

(* the templates the accumulator spec of Template.v expects are the class means BY VALUE (agreement on this input) *)
Definition templates_by_value (c : T.tcase) : bool :=
  let rows := build_rows (T.tc_den c) (T.tc_hist c) in
  T.mat_eqb (length (T.tc_parts c)) (T.tc_S c)
            (T.spec_templates (T.tc_parts c) (T.tc_S c) rows) (vspec_templates (T.tc_parts c) (T.tc_S c) rows).

Definition tvariant_check (base : T.tcase) (sv : list nat * T.tcase) : bool :=
  let sigma := fst sv in let v := snd sv in
  is_permb (length (T.tc_parts base)) sigma
  && zlist_eqb (T.tc_parts v) (permute (-1) sigma (T.tc_parts base))
  && T.tcase_check v && templates_by_value v
  && match first_build (T.tc_obs base), first_build (T.tc_obs v) with
     | Some (tb, cb), Some (tv, cv) =>
         (* per-class outputs are reordered, bit for bit *)
         fmat_eqb tv (permute [] sigma tb)
         (* when the pooled covariance came out identical, so do the scores: static ones reordered, DPA ones equal *)
         && (negb (fmat_eqb cv cb)
             || match last_scores (T.tc_obs base) None, last_scores (T.tc_obs v) None with
                | Some sb, Some sc =>
                    match T.tc_mode base with
                    | T.Static => list_eqb fval_eqb sc (permute NaN sigma sb)
                    | T.Dpa => list_eqb fval_eqb sc sb
                    end
                | None, None => true
                | _, _ => false
                end)
     | None, None => true
     | _, _ => false
     end.

Definition ctmpl_check (c : ctmpl_case) : bool :=
  T.tcase_check (ct_base c) && templates_by_value (ct_base c)
  && match ct_auto_first c with [] => true | f => auto_ok f (Some (T.tc_parts (ct_base c))) end
  && forallb (tvariant_check (ct_base c)) (ct_variants c).

Definition ctmpl_expected (c : ctmpl_case) : list (list T.texp) :=
  T.tcase_expected (ct_base c) :: map (fun sv => T.tcase_expected (snd sv)) (ct_variants c).
