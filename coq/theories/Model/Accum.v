(* Model/Accum.v — generic algebra of incremental accumulation (used by C01, C02, C08, C09, C16 ...).

   A distinguisher entry is a commutative monoid (S, plus, zero) with Leibniz equality (tuples of Qc / Z), a
   per-row contribution [contrib : R -> St] and a pure [comp : St -> O].  The code's update on a batch [b] is
   [upd s b = plus s (bsum b)] — "sum the batch, then add it to the accumulator" — which is the shape of
   every _update in scared/distinguishers.  Histories are lists of [Update b | Compute]. *)
From Coq Require Import List Lia.
Import ListNotations.

Section Accum.
  Variables (St R O : Type).
  Variable zero : St.
  Variable plus : St -> St -> St.
  Variable contrib : R -> St.
  Variable comp : St -> O.
  Hypothesis plus_assoc : forall a b c, plus a (plus b c) = plus (plus a b) c.
  Hypothesis plus_zero_r : forall a, plus a zero = a.
  Hypothesis plus_zero_l : forall a, plus zero a = a.

  (* the contribution of a batch: what np.sum / np.dot over the batch axis compute, in exact arithmetic *)
  Definition bsum (b : list R) : St := fold_right (fun r a => plus (contrib r) a) zero b.
  (* one update() call *)
  Definition upd (s : St) (b : list R) : St := plus s (bsum b).
  (* a sequence of update() calls *)
  Definition feed (s : St) (batches : list (list R)) : St := fold_left upd batches s.

  Lemma bsum_app b1 b2 : bsum (b1 ++ b2) = plus (bsum b1) (bsum b2).
  Proof.
    unfold bsum. induction b1 as [|r b1 IH]; cbn [app fold_right].
    - symmetry. apply plus_zero_l.
    - rewrite IH. apply plus_assoc.
  Qed.

  Lemma upd_app s b1 b2 : upd s (b1 ++ b2) = upd (upd s b1) b2.
  Proof. unfold upd. rewrite bsum_app. apply plus_assoc. Qed.

  Lemma upd_nil s : upd s [] = s.
  Proof. unfold upd, bsum. cbn [fold_right]. apply plus_zero_r. Qed.

  (* every ordered partition into batches (batches of one row, empty batches, ...) gives the one-shot state *)
  Theorem feed_concat batches : forall s, feed s batches = upd s (concat batches).
  Proof.
    induction batches as [|b bs IH]; intros s; cbn.
    - symmetry. apply upd_nil.
    - unfold feed in *. cbn. rewrite IH. symmetry. apply upd_app.
  Qed.

  Corollary split_eq_oneshot bs1 bs2 s : concat bs1 = concat bs2 -> feed s bs1 = feed s bs2.
  Proof. intros H. rewrite !feed_concat, H. reflexivity. Qed.

  (* ------------------------------------------------------------ histories with compute() calls *)
  Inductive op := Update (b : list R) | Compute.

  Definition step (st : St) (o : op) : St * option O :=
    match o with Update b => (upd st b, None) | Compute => (st, Some (comp st)) end.

  (* run a history; outputs in order *)
  Fixpoint run (st : St) (h : list op) : St * list O :=
    match h with
    | [] => (st, [])
    | o :: h' => let '(st1, out) := step st o in
                 let '(st2, outs) := run st1 h' in
                 (st2, match out with Some v => v :: outs | None => outs end)
    end.

  Fixpoint updates (h : list op) : list (list R) :=
    match h with [] => [] | Update b :: t => b :: updates t | Compute :: t => updates t end.

  (* what each Compute should return: comp of the one-shot state on all rows fed before it *)
  Fixpoint expected_outputs (seen : list R) (h : list op) : list O :=
    match h with
    | [] => []
    | Update b :: t => expected_outputs (seen ++ b) t
    | Compute :: t => comp (upd zero seen) :: expected_outputs seen t
    end.

  Lemma run_state st h : fst (run st h) = feed st (updates h).
  Proof.
    revert st. induction h as [|[b|] h IH]; intros st; cbn; [reflexivity| |].
    - destruct (run (upd st b) h) as [st2 outs] eqn:E. cbn.
      specialize (IH (upd st b)). rewrite E in IH. exact IH.
    - destruct (run st h) as [st2 outs] eqn:E. cbn.
      specialize (IH st). rewrite E in IH. exact IH.
  Qed.

  (* the k-th Compute of any history returns comp of the one-shot accumulation of everything fed before it:
     compute never disturbs the state, computing twice gives the same answer, splitting is irrelevant *)
  Theorem history_outputs h : forall seen,
    snd (run (upd zero seen) h) = expected_outputs seen h.
  Proof.
    induction h as [|[b|] h IH]; intros seen; cbn; [reflexivity| |].
    - rewrite <- upd_app.
      destruct (run (upd zero (seen ++ b)) h) as [st2 outs] eqn:E. cbn.
      specialize (IH (seen ++ b)). rewrite E in IH. exact IH.
    - destruct (run (upd zero seen) h) as [st2 outs] eqn:E. cbn.
      specialize (IH seen). rewrite E in IH. cbn in IH. rewrite IH. reflexivity.
  Qed.

  Corollary history_outputs0 h : snd (run zero h) = expected_outputs [] h.
  Proof. rewrite <- (history_outputs h []). rewrite upd_nil. reflexivity. Qed.

  (* deleting every Compute leaves the final state unchanged *)
  Corollary compute_does_not_disturb st h :
    fst (run st h) = fst (run st (map Update (updates h))).
  Proof.
    rewrite !run_state. f_equal.
    induction h as [|[b|] h IH]; cbn; [reflexivity| |]; [f_equal|]; exact IH.
  Qed.

  Corollary compute_twice_same st h :
    exists v outs, snd (run st (Compute :: Compute :: h)) = v :: v :: outs.
  Proof.
    cbn. destruct (run st h) as [s2 outs]. exists (comp st), outs. reflexivity.
  Qed.
End Accum.

Arguments Update {R} b.
Arguments Compute {R}.
