(* Model/Update.v — property C16: DistinguisherMixin.update as a sequence of guarded effects over a TWO-LEVEL state.
   Executable definitions only; proofs are in Proofs/Update.v.

   Level 1, attribute BINDINGS (self.__dict__): _origin_shape present or not, processed_traces, _is_checked, the class set,
   the recorded trace List.length / word count, which heap cell each accumulator name is bound to, other attribute names.
   Level 2, the HEAP: arrays mutated in place by `+=` and by the numba kernels.
   The repaired update() (39651ef) snapshots the bindings and restores them on any exception: a SHALLOW rollback.  It is
   modelled as such: bindings restored, cells that existed before the call are NOT restored (cells created during the call
   become unreachable and are dropped).

   Every method body is a list of guarded effects in the statement order of the source; [skeleton] projects it onto the
   event alphabet of Generated/UpdateOrder.v (regenerated from /repo on every run) and [order_tied] compares the two.
   Accumulator contents are ARBITRARY: cells hold values of a type C with an operation cplus, contributions ccontrib k r of
   a row r to accumulator k, and compute is an arbitrary function of the count and the cells (Section variables). *)
From Coq Require Import ZArith QArith List Bool String Lia.
From ScaredV Require Import Run.Compare Model.Accum Generated.UpdateOrder.
Import ListNotations.
Local Open Scope string_scope.
Local Open Scope list_scope.
Local Open Scope Z_scope.

(* ------------------------------------------------------------------ families, rejection kinds, exception classes *)
Inductive family := FCpa | FCpaAlt | FDpa | FAnova | FNicv | FSnr | FMia | FTemplBuild | FTemplMatch | FTemplDpa.
Definition all_families := [FCpa; FCpaAlt; FDpa; FAnova; FNicv; FSnr; FMia; FTemplBuild; FTemplMatch; FTemplDpa].

Inductive rej :=
| RTracesNotArray | RDataNotArray | RRowMismatch | RTracesNot2D | REmptyBatch          (* update() preamble *)
| RAllocFail | RAllocValue                                                             (* np.zeros in _initialize *)
| RDpaNotUint8 | RDpaNotBinary                                                         (* DPA first batch *)
| RAutoMaxGt255 | RAutoMinLt0                                                          (* automatic classes *)
| RNotBuilt | RTemplTraceLen                                                           (* template matching, first batch *)
| RTemplMultiWord | RMemory                                                            (* _check *)
| RTraceLen | RWordCount | RLutDtype | RKernelTyping | RMiaConstant                    (* _update / _accumulate *)
| RDataCast | RTracesCast | RDataConv | RTracesMinMax                                  (* dtype conversions / reductions *)
| RBroadcast3D                                                                         (* only before 90a3d19 *)
| RAttrMissing                                                                         (* AttributeError: only before 39651ef *)
| RUserRaises.                                                                         (* process(): selection function / model / preprocess *)

Inductive exc := ExType | ExValue | ExDistinguisher | ExMemory | ExNumba | ExAttribute | ExUser | ExOther.

Definition rej_eqb (a b : rej) : bool :=
  match a, b with
  | RTracesNotArray, RTracesNotArray | RDataNotArray, RDataNotArray | RRowMismatch, RRowMismatch | RTracesNot2D, RTracesNot2D
  | REmptyBatch, REmptyBatch | RAllocFail, RAllocFail | RAllocValue, RAllocValue | RDpaNotUint8, RDpaNotUint8
  | RDpaNotBinary, RDpaNotBinary | RAutoMaxGt255, RAutoMaxGt255 | RAutoMinLt0, RAutoMinLt0 | RNotBuilt, RNotBuilt
  | RTemplTraceLen, RTemplTraceLen | RTemplMultiWord, RTemplMultiWord | RMemory, RMemory | RTraceLen, RTraceLen
  | RWordCount, RWordCount | RLutDtype, RLutDtype | RKernelTyping, RKernelTyping | RMiaConstant, RMiaConstant
  | RDataCast, RDataCast | RTracesCast, RTracesCast | RDataConv, RDataConv | RBroadcast3D, RBroadcast3D
  | RAttrMissing, RAttrMissing | RUserRaises, RUserRaises | RTracesMinMax, RTracesMinMax => true
  | _, _ => false
  end.

Definition exc_eqb (a b : exc) : bool :=
  match a, b with
  | ExType, ExType | ExValue, ExValue | ExDistinguisher, ExDistinguisher | ExMemory, ExMemory | ExNumba, ExNumba
  | ExAttribute, ExAttribute | ExUser, ExUser | ExOther, ExOther => true
  | _, _ => false
  end.

Definition is_cpa_like (f : family) : bool := match f with FCpa | FCpaAlt | FDpa => true | _ => false end.
Definition is_templ_match (f : family) : bool := match f with FTemplMatch | FTemplDpa => true | _ => false end.

(* exception class raised for each rejection kind *)
Definition exc_of (f : family) (r : rej) : exc :=
  match r with
  | RTracesNotArray | RDataNotArray | RDpaNotUint8 | RLutDtype | RDataCast | RTracesMinMax => ExType
  | RRowMismatch | RTracesNot2D | REmptyBatch | RAllocValue | RDpaNotBinary | RAutoMaxGt255 | RAutoMinLt0
  | RWordCount | RMiaConstant | RTracesCast | RDataConv | RBroadcast3D => ExValue
  | RAllocFail => ExMemory
  | RNotBuilt | RTemplTraceLen | RTemplMultiWord | RMemory => ExDistinguisher
  | RTraceLen => if is_cpa_like f then ExDistinguisher else ExValue
  | RKernelTyping => ExNumba
  | RAttrMissing => ExAttribute
  | RUserRaises => ExUser
  end.

(* ------------------------------------------------------------------ versions of the source *)
(* the three repairs, in commit order: 39651ef (rollback), 90a3d19 (ndim check), ab1a297 (DPA converts first) *)
Record version := { has_rollback : bool; has_ndim_check : bool; has_dpa_fix : bool }.
Definition repaired : version := {| has_rollback := true; has_ndim_check := true; has_dpa_fix := true |}.
Definition before_ab1a297 : version := {| has_rollback := true; has_ndim_check := true; has_dpa_fix := false |}.
Definition before_90a3d19 : version := {| has_rollback := true; has_ndim_check := false; has_dpa_fix := false |}.
Definition before_39651ef : version := {| has_rollback := false; has_ndim_check := false; has_dpa_fix := false |}.

(* ------------------------------------------------------------------ effects *)
Inductive battr := AOrigin | AIsChecked | APartitions | ATlen | AWords | ALut | ATimings | AYWindow | AEdges | AOther (s : string).

Definition battr_name (a : battr) : string :=
  match a with
  | AOrigin => "_origin_shape" | AIsChecked => "_is_checked" | APartitions => "partitions" | ATlen => "_trace_length"
  | AWords => "_data_words" | ALut => "_data_to_partition_index" | ATimings => "_timings" | AYWindow => "y_window"
  | AEdges => "bin_edges" | AOther s => s
  end%string.

Inductive effect :=
| Check (e : rej)               (* a `raise` statement under its condition *)
| Implicit (e : rej)            (* raising point inside a library call or an in-place operator (no `raise` in the source) *)
| Conv (e : rej) (x : string)   (* x.astype(...): a raising point that is visible in the source *)
| Bind (a : battr)              (* self.a = ...            rebinding: undone by the rollback *)
| Shapes                        (* the shapes of the arrays allocated by this call (ex.shape[0] ...): no source event *)
| Alloc (k : nat)               (* self.<acc k> = np.zeros(...)   fresh heap cell *)
| HeapWrite (k : nat)           (* self.<acc k> += ...      in place: NOT undone by the rollback *)
| Kernel (fn : string)          (* numba kernel: += on every accumulator cell, in place *)
| Store (a : string)            (* self.a[i] = ...          in place on a mutable non-array attribute *)
| Bump                          (* self.processed_traces += n    rebinding of an int *)
| Snap                          (* state = dict(self.__dict__) *)
| CallM (m : string)            (* self.m(...): the callee's effects are spliced here by [inline] *)
| Mark (g : gev)                (* source event without effect on the modelled state (helper call, verification hook) *)
| Restore.                      (* the handler: __dict__.clear(); __dict__.update(state); raise — run only on an exception *)

Inductive cond := CFirst | CBig | CSmall | CUnchecked.
Definition geffect := (list cond * effect)%type.
Definition al (e : effect) : geffect := ([], e).
Definition fi (e : effect) : geffect := ([CFirst], e).
Definition bg (e : effect) : geffect := ([CBig], e).
Definition sm (e : effect) : geffect := ([CSmall], e).
Definition un (e : effect) : geffect := ([CUnchecked], e).

(* ------------------------------------------------------------------ the method bodies, in source statement order *)
Section Bodies.
  Variable v : version.

  Definition m_update : list geffect :=
    [al (Check RTracesNotArray); al (Check RDataNotArray);
     (* D18 (80fe517): traces, data = asarray(traces), asarray(data) - ndarray subclasses are handled as their plain content *)
     al (Mark (GCall "asarray")); al (Mark (GCall "asarray")); al (Check RRowMismatch)]
    ++ (if has_ndim_check v then [al (Check RTracesNot2D)] else [])
    ++ [al (Implicit REmptyBatch)]
    ++ (if has_rollback v then [al Snap] else [])
    ++ [fi (Bind AOrigin); fi (CallM "_initialize"); al (CallM "_check"); al Bump; al (CallM "_update")]
    ++ (if has_rollback v then [al Restore] else []).

  Definition m_check_base : list geffect :=
    [un (Mark (GCall "_memory_usage_coefficient")); un (Bind AIsChecked); un (Check RMemory)].

  Definition cpa_init : list geffect :=
    [al (Implicit RAllocFail); al (Alloc 0); al (Alloc 1); al (Alloc 2); al (Alloc 3); al (Alloc 4); al (Bind (AOther "_extrema"));
     al Shapes; al (Check RAllocValue)].
  (* accumulators 0..4 = ex ex2 ey ey2 exy *)
  Definition cpa_update : list geffect :=
    [al (Check RTraceLen); al (Conv RTracesCast "traces"); al (Conv RDataConv "data"); al (Implicit RWordCount);
     al (Bind (AOther "_extrema"));       (* per-column extrema: computed on fresh arrays (np.minimum may raise: RWordCount), then REBOUND *)
     al (HeapWrite 2); al (HeapWrite 3)]
    ++ (if has_ndim_check v then [] else [al (Implicit RBroadcast3D)])
    ++ [al (HeapWrite 0); al (HeapWrite 1); al (HeapWrite 4)].

  Definition dpa_init : list geffect :=
    [al (Check RDpaNotUint8); al (Check RDpaNotBinary); al (Alloc 0); al (Alloc 1); al (Alloc 2); al Shapes;
     al (Check RAllocValue); al (Check RAllocFail)].
  (* accumulators 0..2 = accumulator_traces accumulator_ones processed_ones *)
  Definition dpa_update : list geffect :=
    if has_dpa_fix v then
      [al (Check RTraceLen); al (Conv RTracesCast "traces"); al (Conv RDataConv "data"); al (Implicit RDataCast);
       al (Implicit RWordCount); al (HeapWrite 2); al (HeapWrite 0); al (HeapWrite 1)]
    else
      [al (Check RTraceLen); al (Implicit RDataCast); al (Implicit RWordCount); al (HeapWrite 2);
       al (Conv RTracesCast "traces"); al (Conv RDataConv "data")]
      ++ (if has_ndim_check v then [] else [al (Implicit RBroadcast3D)])
      ++ [al (HeapWrite 0); al (HeapWrite 1)].

  Definition part_init : list geffect :=
    [al (Check RAutoMaxGt255); al (Check RAutoMinLt0); al (Bind APartitions); al (Bind ATlen); al (Bind AWords);
     al (Mark (GCall "_define_lut_func")); al (Bind ALut); al (CallM "_initialize_accumulators")].
  Definition part_update : list geffect :=
    [al (Check RTraceLen); al (Check RWordCount); al (Implicit RLutDtype); al (Mark (GCall "_data_to_partition_index"));
     al (CallM "_accumulate")].
  (* accumulators 0..2 = sum sum_square counters *)
  Definition part_init_acc : list geffect := [al (Implicit RAllocFail); al (Alloc 0); al (Alloc 1); al (Alloc 2)].
  Definition hook_marks : list geffect :=     (* SCARED_VERIF=1 hook: inactive in the modelled runs *)
    [sm (Mark (GStore "_verif_force_kernel")); sm (Mark (GStore "__dict__")); sm (Mark (GStore "__dict__"))].
  Definition part_accumulate : list geffect :=
    [bg (Implicit RKernelTyping); bg (Kernel "_accumulate_core_1"); sm (Bind ATimings)] ++ hook_marks
    ++ [sm (Implicit RKernelTyping); sm (Kernel "function"); sm (Store "_timings")].

  Definition mia_init_acc : list geffect := [al (Implicit RAllocFail); al (Alloc 0)].
  Definition mia_accumulate : list geffect :=
    [al (Implicit RTracesMinMax); al (Bind AYWindow); al (Implicit RMiaConstant); al (Bind AEdges); al (Implicit RKernelTyping); al (Kernel "_accumulate_core")].

  (* accumulators 0..2 = _exi _exxi _counters *)
  Definition tb_init_acc : list geffect :=
    [al (Implicit RAllocFail); al (Alloc 0); al (Alloc 1); al (Alloc 2); al (Bind (AOther "pooled_covariance"));
     al (Bind (AOther "pooled_covariance_inv"))].
  Definition tb_accumulate : list geffect :=
    [al (Bind ATimings); al (Mark (GStore "_verif_force_kernel")); al (Mark (GStore "__dict__")); al (Mark (GStore "__dict__"));
     al (Implicit RKernelTyping); al (Kernel "function"); al (Store "_timings")].
  Definition tb_check : list geffect := [al (Check RTemplMultiWord); al (CallM "super._check")].

  (* accumulator 0 = _scores *)
  Definition tm_init : list geffect :=
    [al (Check RNotBuilt); al (Check RTemplTraceLen); al (Mark (GCall "_get_dimension")); al (Alloc 0); al Shapes].
  Definition tm_update : list geffect :=
    [al (Mark (GCall "_get_dimension")); al (Mark (GCall "get_template_index")); al (Implicit RTraceLen); al (Implicit RWordCount);
     al (HeapWrite 0)].

  Definition m_process : list geffect :=
    [al (Implicit RUserRaises); al (Mark (GCall "compute_intermediate_values")); al (Mark (GCall "update"))].
  Definition m_run : list geffect :=
    [al (Check RUserRaises); al (Mark (GCall "_compute_batch_size")); al (Mark (GCall "process")); al (Mark (GCall "_batch_loop_compute"));
     al (Mark (GCall "_final_compute"))].

  Definition body_of (key : string) : option (list geffect) :=
    if String.eqb key "DistinguisherMixin.update" then Some m_update
    else if String.eqb key "DistinguisherMixin._check" then Some m_check_base
    else if String.eqb key "CPADistinguisherMixin._initialize" then Some cpa_init
    else if String.eqb key "CPADistinguisherMixin._update" then Some cpa_update
    else if String.eqb key "DPADistinguisherMixin._initialize" then Some dpa_init
    else if String.eqb key "DPADistinguisherMixin._update" then Some dpa_update
    else if String.eqb key "_PartitionnedDistinguisherBaseMixin._initialize" then Some part_init
    else if String.eqb key "_PartitionnedDistinguisherBaseMixin._update" then Some part_update
    else if String.eqb key "PartitionedDistinguisherMixin._initialize_accumulators" then Some part_init_acc
    else if String.eqb key "PartitionedDistinguisherMixin._accumulate" then Some part_accumulate
    else if String.eqb key "MIADistinguisherMixin._initialize_accumulators" then Some mia_init_acc
    else if String.eqb key "MIADistinguisherMixin._accumulate" then Some mia_accumulate
    else if String.eqb key "_TemplateBuildDistinguisherMixin._initialize_accumulators" then Some tb_init_acc
    else if String.eqb key "_TemplateBuildDistinguisherMixin._accumulate" then Some tb_accumulate
    else if String.eqb key "_TemplateBuildDistinguisherMixin._check" then Some tb_check
    else if String.eqb key "_BaseTemplateAttackDistinguisherMixin._initialize" then Some tm_init
    else if String.eqb key "_BaseTemplateAttackDistinguisherMixin._update" then Some tm_update
    else if String.eqb key "_BaseAnalysis.process" then Some m_process
    else if String.eqb key "_BaseAnalysis.run" then Some m_run
    else None.
End Bodies.

(* ------------------------------------------------------------------ method resolution and accumulator names per family *)
Section Resolution.

  Definition fam_name (f : family) : string :=
    match f with
    | FCpa => "cpa" | FCpaAlt => "cpa_alt" | FDpa => "dpa" | FAnova => "anova" | FNicv => "nicv" | FSnr => "snr" | FMia => "mia"
    | FTemplBuild => "template_build" | FTemplMatch => "template_match" | FTemplDpa => "template_dpa_match"
    end.

  Definition acc_names (f : family) : list string :=
    match f with
    | FCpa | FCpaAlt => ["ex"; "ex2"; "ey"; "ey2"; "exy"]
    | FDpa => ["accumulator_traces"; "accumulator_ones"; "processed_ones"]
    | FAnova | FNicv | FSnr => ["sum"; "sum_square"; "counters"]
    | FMia => ["accumulators"]
    | FTemplBuild => ["_exi"; "_exxi"; "_counters"]
    | FTemplMatch | FTemplDpa => ["_scores"]
    end.
  Definition nacc (f : family) : nat := List.length (acc_names f).

  Definition is_partitioned (f : family) : bool :=
    match f with FAnova | FNicv | FSnr | FMia | FTemplBuild => true | _ => false end.

  (* hook -> defining method (what the MRO of the concrete classes resolves to) *)
  Definition resolve (f : family) (hook : string) : string :=
    if String.eqb hook "update" then "DistinguisherMixin.update"
    else if String.eqb hook "process" then "_BaseAnalysis.process"
    else if String.eqb hook "run" then "_BaseAnalysis.run"
    else if String.eqb hook "super._check" then "DistinguisherMixin._check"
    else if String.eqb hook "_check" then
      match f with FTemplBuild => "_TemplateBuildDistinguisherMixin._check" | _ => "DistinguisherMixin._check" end
    else if String.eqb hook "_initialize" then
      match f with
      | FCpa | FCpaAlt => "CPADistinguisherMixin._initialize" | FDpa => "DPADistinguisherMixin._initialize"
      | FTemplMatch | FTemplDpa => "_BaseTemplateAttackDistinguisherMixin._initialize"
      | _ => "_PartitionnedDistinguisherBaseMixin._initialize"
      end
    else if String.eqb hook "_update" then
      match f with
      | FCpa | FCpaAlt => "CPADistinguisherMixin._update" | FDpa => "DPADistinguisherMixin._update"
      | FTemplMatch | FTemplDpa => "_BaseTemplateAttackDistinguisherMixin._update"
      | _ => "_PartitionnedDistinguisherBaseMixin._update"
      end
    else if String.eqb hook "_initialize_accumulators" then
      match f with
      | FMia => "MIADistinguisherMixin._initialize_accumulators"
      | FTemplBuild => "_TemplateBuildDistinguisherMixin._initialize_accumulators"
      | _ => "PartitionedDistinguisherMixin._initialize_accumulators"
      end
    else if String.eqb hook "_accumulate" then
      match f with
      | FMia => "MIADistinguisherMixin._accumulate"
      | FTemplBuild => "_TemplateBuildDistinguisherMixin._accumulate"
      | _ => "PartitionedDistinguisherMixin._accumulate"
      end
    else "".

  Definition hooks_of (f : family) : list string :=
    ["update"; "_initialize"; "_check"; "_update"]
    ++ (if is_partitioned f then ["_initialize_accumulators"; "_accumulate"] else []).
End Resolution.

(* splice the callees: CallM m becomes a marker followed by the callee's body under the caller's guard *)
Fixpoint inline (v : version) (f : family) (fuel : nat) (l : list geffect) : list geffect :=
  match fuel with
  | O => l
  | S fuel' =>
      flat_map (fun ge : geffect =>
        let (g, e) := ge in
        match e with
        | CallM m => (g, Mark (GCall m)) ::
                     match body_of v (resolve f m) with
                     | Some body => map (fun ge' : geffect => (g ++ fst ge', snd ge')) (inline v f fuel' body)
                     | None => []
                     end
        | _ => [ge]
        end) l
  end.

Definition order (v : version) (f : family) : list geffect := inline v f 4 (m_update v).

(* ------------------------------------------------------------------ skeleton: the source events of a body *)
Definition skeleton_e (names : list string) (e : effect) : list gev :=
  match e with
  | Check _ => [GRaise]
  | Implicit _ => []
  | Conv _ x => [GConv x]
  | Bind a => [GBind (battr_name a)]
  | Shapes => []
  | Alloc k => [GBind (nth k names ""%string)]
  | HeapWrite k => [GAug (nth k names ""%string)]
  | Kernel fn => [GCall fn]
  | Store a => [GStore a]
  | Bump => [GAug "processed_traces"%string]
  | Snap => [GSnapshot]
  | CallM m => [GCall m]
  | Mark g => [g]
  | Restore => [GCall "__dict__.clear"%string; GCall "__dict__.update"%string; GRaise]
  end.
Definition skeleton (names : list string) (l : list geffect) : list gev := flat_map (fun ge => skeleton_e names (snd ge)) l.

Definition gev_eqb (a b : gev) : bool :=
  match a, b with
  | GRaise, GRaise | GSnapshot, GSnapshot => true
  | GBind x, GBind y | GAug x, GAug y | GStore x, GStore y | GParamStore x, GParamStore y | GCall x, GCall y | GConv x, GConv y =>
      String.eqb x y
  | _, _ => false
  end.

Fixpoint lookup {A} (key : string) (t : list (string * A)) : option A :=
  match t with [] => None | (k, x) :: r => if String.eqb k key then Some x else lookup key r end.

(* Events whose position does not matter once the snapshot is taken: rebinding an attribute (undone by the rollback wherever
   it stands) and calls of pure helpers.  In the methods called by update these are compared as a multiset; every other
   event (raise, astype, in-place +=, subscript store, kernel and method calls, count increment) is compared in order.
   update() itself is compared strictly: there the position of a binding relative to the snapshot matters. *)
Definition gev_movable (g : gev) : bool :=
  match g with
  | GBind _ => true
  | GCall m => existsb (String.eqb m) ["_define_lut_func"; "_memory_usage_coefficient"; "_get_dimension"; "get_template_index"]
  | _ => false
  end.
Definition count_gev (g : gev) (l : list gev) : nat := List.length (filter (gev_eqb g) l).
Definition same_multiset (l1 l2 : list gev) : bool :=
  forallb (fun g => Nat.eqb (count_gev g l1) (count_gev g l2)) (l1 ++ l2).
Definition events_agree (strict : bool) (l1 l2 : list gev) : bool :=
  if strict then list_eqb gev_eqb l1 l2
  else list_eqb gev_eqb (filter (fun g => negb (gev_movable g)) l1) (filter (fun g => negb (gev_movable g)) l2)
       && same_multiset (filter gev_movable l1) (filter gev_movable l2).

(* one (family, hook): the hand-written body has the events of the source, in the same order (see above) *)
Definition tie_hook (f : family) (hook : string) : bool :=
  let key := resolve f hook in
  match body_of repaired key, lookup key source_order with
  | Some body, Some evs => events_agree (String.eqb hook "update") (skeleton (acc_names f) body) evs
  | _, _ => false
  end.

(* the live classes of the family resolve every modelled hook to the method the model uses *)
Definition tie_resolution (f : family) : bool :=
  forallb (fun row : string * string * list (string * string) =>
             let '(fam, _, hooks) := row in
             if String.eqb fam (fam_name f)
             then forallb (fun hq : string * string => String.eqb (resolve f (fst hq)) (snd hq)) hooks
             else true) source_resolution
  && existsb (fun row : string * string * list (string * string) => String.eqb (fst (fst row)) (fam_name f)) source_resolution.

Definition tie_family (f : family) : bool :=
  forallb (tie_hook f) (hooks_of f) && tie_hook f "process"%string && tie_hook f "run"%string && tie_resolution f.
Definition order_tied : bool := forallb tie_family all_families.

(* the kernels and every other tabulated method: explicit raise / astype never after an in-place write *)
Definition gev_is_write (g : gev) : bool :=
  match g with
  | GAug a => negb (String.eqb a "processed_traces")
  | GStore _ | GParamStore _ => true
  | GCall m => String.eqb m "function" || String.eqb m "_accumulate_core" || String.eqb m "_accumulate_core_1"
               || String.eqb m "_accumulate_core_2" || String.eqb m "_accumulate"
  | _ => false
  end.
Definition gev_is_raise (g : gev) : bool := match g with GRaise | GConv _ => true | _ => false end.
Fixpoint source_safe (written : bool) (l : list gev) : bool :=
  match l with
  | [] => true
  | g :: r => if gev_is_raise g && written then false else source_safe (written || gev_is_write g) r
  end.
(* update() itself is excluded: its last `raise` is the re-raise of the handler, after the rollback *)
Definition source_methods_safe : bool :=
  forallb (fun kv : string * list gev => String.eqb (fst kv) "DistinguisherMixin.update" || source_safe false (snd kv)) source_order.

(* ------------------------------------------------------------------ static order predicates on flat effect lists *)
Definition is_raising (e : effect) : bool := match e with Check _ | Implicit _ | Conv _ _ => true | _ => false end.
Definition is_write (e : effect) : bool := match e with HeapWrite _ | Kernel _ | Store _ => true | _ => false end.

(* no raising point after an in-place write *)
Fixpoint safe_order (written : bool) (l : list effect) : bool :=
  match l with
  | [] => true
  | e :: r => if is_raising e && written then false else safe_order (written || is_write e) r
  end.

(* the raising points that come after an in-place write *)
Fixpoint late_points (written : bool) (l : list effect) : list rej :=
  match l with
  | [] => []
  | e :: r => (if written then match e with Check x | Implicit x | Conv x _ => [x] | _ => [] end else [])
              ++ late_points (written || is_write e) r
  end.

(* three phases: before the snapshot only raising points; then bindings/allocations/raising points; then only writes *)
Fixpoint ok2 (n : nat) (l : list effect) : bool :=
  match l with
  | [] => true
  | e :: r => match e with
              | HeapWrite k => Nat.ltb k n && ok2 n r
              | Kernel _ | Store _ | Mark _ | Restore => ok2 n r
              | _ => false
              end
  end.
Fixpoint ok1 (n : nat) (l : list effect) : bool :=
  match l with
  | [] => false                                  (* an update must reach its accumulation *)
  | e :: r => match e with
              | Check _ | Implicit _ | Conv _ _ | Bind _ | Shapes | Bump | Mark _ => ok1 n r
              | Alloc k => Nat.ltb k n && ok1 n r
              | HeapWrite _ | Kernel _ | Store _ => ok2 n l
              | _ => false
              end
  end.
Fixpoint ok0 (n : nat) (l : list effect) : bool :=
  match l with
  | [] => false
  | e :: r => match e with
              | Check _ | Implicit _ | Conv _ _ | Mark _ => ok0 n r
              | Snap => ok1 n r
              | _ => false
              end
  end.
Definition effect_is_alloc (k : nat) (e : effect) : bool := match e with Alloc j => Nat.eqb j k | _ => false end.
Definition allocs_all (n : nat) (l : list effect) : bool := forallb (fun k => existsb (effect_is_alloc k) l) (seq 0 n).

(* ------------------------------------------------------------------ guards *)
Record valuation := { v_first : bool; v_big : bool; v_unchecked : bool }.
Definition cond_holds (vl : valuation) (c : cond) : bool :=
  match c with CFirst => v_first vl | CBig => v_big vl | CSmall => negb (v_big vl) | CUnchecked => v_unchecked vl end.
Definition select (vl : valuation) (l : list geffect) : list effect :=
  map snd (filter (fun ge : geffect => forallb (cond_holds vl) (fst ge)) l).
Definition all_valuations : list valuation :=
  flat_map (fun a => flat_map (fun b => map (fun c => {| v_first := a; v_big := b; v_unchecked := c |}) [true; false]) [true; false]) [true; false].

Definition shape_ok (v : version) (f : family) (vl : valuation) : bool :=
  let l := select vl (order v f) in
  ok0 (nacc f) l && safe_order false l && (if v_first vl then allocs_all (nacc f) l else true).
Definition all_shapes_ok (v : version) : bool :=
  forallb (fun f => forallb (shape_ok v f) all_valuations) all_families.

(* ------------------------------------------------------------------ static summaries of a flat effect list *)
Definition allocs_of (l : list effect) : list nat := flat_map (fun e => match e with Alloc k => [k] | _ => [] end) l.
Definition writes_of (n : nat) (l : list effect) : list nat :=
  flat_map (fun e => match e with HeapWrite k => [k] | Kernel _ => seq 0 n | _ => [] end) l.
Definition bumps_of (l : list effect) : nat := List.length (filter (fun e => match e with Bump => true | _ => false end) l).
Definition binds_origin (l : list effect) : bool := existsb (fun e => match e with Bind AOrigin => true | _ => false end) l.

Fixpoint nodupb (l : list nat) : bool :=
  match l with [] => true | x :: r => negb (existsb (Nat.eqb x) r) && nodupb r end.

(* each accumulator is written exactly once, one count increment, allocation of cells 0..n-1 in order on a first call only *)
Definition accum_ok (v : version) (f : family) (vl : valuation) : bool :=
  let l := select vl (order v f) in
  let ws := writes_of (nacc f) l in
  nodupb ws && forallb (fun i => existsb (Nat.eqb i) ws) (seq 0 (nacc f)) && forallb (fun k => Nat.ltb k (nacc f)) ws
  && Nat.eqb (bumps_of l) 1
  && (if v_first vl then list_eqb Nat.eqb (allocs_of l) (seq 0 (nacc f)) && binds_origin l
      else match allocs_of l with [] => true | _ => false end).
Definition all_accum_ok (v : version) : bool := forallb (fun f => forallb (accum_ok v f) all_valuations) all_families.


(* ------------------------------------------------------------------ the two-level state, batches, semantics *)
Inductive dkind := DUint8 | DUintSmall | DUint64 | DIntSmall | DInt64 | DBool | DFloat.
Inductive tkind := TNum | TF16 | TStr.

Record binds := {
  inited : bool;                (* _origin_shape is bound *)
  processed : Z;                (* processed_traces *)
  is_checked : bool;            (* _is_checked *)
  nclasses : option nat;        (* partitions: None = to be determined from the first batch *)
  tlen : option Z;              (* trace List.length recorded by the first accepted batch (ex.shape[0], _trace_length) *)
  words : option Z;             (* word count recorded by the first accepted batch *)
  accs : list (option nat);     (* accumulator name k -> heap cell *)
  extra : list string;          (* other attribute names bound (LUT, _timings, y_window, bin_edges, ...) *)
  built : option Z              (* template matching: Some T = templates of trace List.length T are built *)
}.

Definition auto_classes (dmax : Z) : nat :=
  if dmax <? 0 then 0%nat else if dmax <? 9 then 9%nat else if dmax <? 64 then 64%nat else 256%nat.

Fixpoint set_nth {A} (k : nat) (x : A) (l : list A) : list A :=
  match l, k with
  | [], _ => []
  | _ :: r, O => x :: r
  | y :: r, S k' => y :: set_nth k' x r
  end.

Definition bound (k : nat) (s : binds) : bool := match nth k (accs s) None with Some _ => true | None => false end.
Definition all_bound (n : nat) (s : binds) : bool := forallb (fun k => bound k s) (seq 0 n).
Definition wf (f : family) (s : binds) : bool :=
  Nat.eqb (List.length (accs s)) (nacc f) && (if inited s then all_bound (nacc f) s else true).

Definition mem_str (x : string) (l : list string) : bool := existsb (String.eqb x) l.

Section Semantics.
  Variables (C R O : Type).
  Variable czero : C.
  Variable cplus : C -> C -> C.
  Variable ccontrib : nat -> R -> C.      (* contribution of one row to accumulator k *)
  Variable ccomp : Z -> list C -> O.      (* compute(): any function of the count and the accumulator arrays *)

  Record batch := {
    b_tr_array : bool; b_da_array : bool;           (* isinstance(., ndarray) *)
    b_n : Z; b_nd : Z;                              (* traces.shape[0], data.shape[0] *)
    b_tdim : Z;                                     (* traces.ndim *)
    b_tlen : Z; b_words : Z;                        (* traces.shape[1], data.reshape(n, -1).shape[1] *)
    b_dmax : Z; b_dmin : Z;                         (* extreme data values *)
    b_dkind : dkind; b_tkind : tkind;               (* dtype classes of data / traces *)
    b_const : bool;                                 (* all samples equal (MIA automatic bin edges degenerate) *)
    b_mem_ok : bool;                                (* the environment: psutil says the estimate fits *)
    b_alloc_ok : bool;                              (* the environment: np.zeros of the accumulators succeeds *)
    b_user_raises : bool;                           (* process(): selection function / model / preprocess raises *)
    b_rows : list R                                 (* the content *)
  }.

  Record ostate := { bnd : binds; heap : list C }.
  Record mstate := { ms : ostate; snapshot : option (binds * nat) }.
  Inductive outcome := Accepted | Rejected (e : rej).

  Definition cbsum (k : nat) (rows : list R) : C := fold_right (fun r a => cplus (ccontrib k r) a) czero rows.

  (* does the raising point r fire?  Some r' = raises r' *)
  Definition eval_check (f : family) (r : rej) (s : binds) (b : batch) : option rej :=
    let yes := Some r in
    match r with
    | RTracesNotArray => if b_tr_array b then None else yes
    | RDataNotArray => if b_da_array b then None else yes
    | RRowMismatch => if b_n b =? b_nd b then None else yes
    | RTracesNot2D => if b_tdim b =? 2 then None else yes
    | REmptyBatch => if b_n b =? 0 then yes else None
    | RAllocFail => if b_alloc_ok b then None else yes
    | RAllocValue => None
    | RDpaNotUint8 => match b_dkind b with DUint8 => None | _ => yes end
    | RDpaNotBinary => if b_dmax b >? 1 then yes else None
    | RAutoMaxGt255 => match nclasses s with None => if b_dmax b >? 255 then yes else None | Some _ => None end
    | RAutoMinLt0 => match nclasses s with None => if b_dmin b <? 0 then yes else None | Some _ => None end
    | RNotBuilt => match built s with None => yes | Some _ => None end
    | RTemplTraceLen => match built s with Some t => if t =? b_tlen b then None else yes | None => None end
    | RTemplMultiWord => if b_words b =? 1 then None else yes
    | RMemory => if b_mem_ok b then None else yes
    | RTraceLen =>
        match tlen s with
        | None => Some RAttrMissing
        | Some t => if is_templ_match f
                    then (if (t =? b_tlen b) || (b_tlen b =? 1) then None else yes)      (* numpy broadcasting *)
                    else (if t =? b_tlen b then None else yes)
        end
    | RWordCount =>
        match words s with
        | None => Some RAttrMissing
        | Some w => match f with
                    | FCpa | FCpaAlt | FDpa | FTemplDpa => if (w =? b_words b) || (b_words b =? 1) then None else yes
                    | FTemplMatch => None
                    | _ => if w =? b_words b then None else yes
                    end
        end
    | RLutDtype => match b_dkind b with DUint8 | DUintSmall | DIntSmall | DBool => None | _ => yes end
    | RKernelTyping => match b_tkind b with TNum => None | _ => yes end
    | RMiaConstant => if mem_str "bin_edges" (extra s) then None else if b_const b then yes else None
    | RDataCast => match b_dkind b with DUint8 | DUintSmall | DUint64 => None | _ => yes end
    | RTracesCast => match b_tkind b with TStr => yes | _ => None end
    | RDataConv => None
    | RTracesMinMax => if mem_str "bin_edges" (extra s) then None else match b_tkind b with TStr => yes | _ => None end
    | RBroadcast3D => if b_tdim b =? 2 then None else yes
    | RAttrMissing => None
    | RUserRaises => if b_user_raises b then yes else None
    end.

  Definition set_bnd (m : mstate) (s : binds) : mstate :=
    {| ms := {| bnd := s; heap := heap (ms m) |}; snapshot := snapshot m |}.
  Definition set_heap (m : mstate) (h : list C) : mstate :=
    {| ms := {| bnd := bnd (ms m); heap := h |}; snapshot := snapshot m |}.

  Definition do_bind (f : family) (a : battr) (b : batch) (s : binds) : binds :=
    match a with
    | AOrigin => {| inited := true; processed := processed s; is_checked := is_checked s; nclasses := nclasses s; tlen := tlen s;
                    words := words s; accs := accs s; extra := extra s; built := built s |}
    | AIsChecked => {| inited := inited s; processed := processed s; is_checked := true; nclasses := nclasses s; tlen := tlen s;
                       words := words s; accs := accs s; extra := extra s; built := built s |}
    | APartitions => {| inited := inited s; processed := processed s; is_checked := is_checked s;
                        nclasses := Some (match nclasses s with Some n => n | None => auto_classes (b_dmax b) end);
                        tlen := tlen s; words := words s; accs := accs s; extra := extra s; built := built s |}
    | ATlen => {| inited := inited s; processed := processed s; is_checked := is_checked s; nclasses := nclasses s;
                  tlen := Some (b_tlen b); words := words s; accs := accs s; extra := extra s; built := built s |}
    | AWords => {| inited := inited s; processed := processed s; is_checked := is_checked s; nclasses := nclasses s;
                   tlen := tlen s; words := Some (b_words b); accs := accs s; extra := extra s; built := built s |}
    | _ => {| inited := inited s; processed := processed s; is_checked := is_checked s; nclasses := nclasses s; tlen := tlen s;
              words := words s; accs := accs s; extra := battr_name a :: extra s; built := built s |}
    end.

  Definition do_shapes (f : family) (b : batch) (s : binds) : binds :=
    {| inited := inited s; processed := processed s; is_checked := is_checked s; nclasses := nclasses s;
       tlen := Some (if is_templ_match f then match built s with Some t => t | None => b_tlen b end else b_tlen b);
       words := Some (b_words b); accs := accs s; extra := extra s; built := built s |}.

  Definition do_alloc (k : nat) (hl : nat) (s : binds) : binds :=
    {| inited := inited s; processed := processed s; is_checked := is_checked s; nclasses := nclasses s; tlen := tlen s;
       words := words s; accs := set_nth k (Some hl) (accs s); extra := extra s; built := built s |}.

  Definition do_bump (b : batch) (s : binds) : binds :=
    {| inited := inited s; processed := processed s + b_n b; is_checked := is_checked s; nclasses := nclasses s; tlen := tlen s;
       words := words s; accs := accs s; extra := extra s; built := built s |}.

  (* self.<acc k> += contribution: in place on the cell the name is bound to; AttributeError when the name is unbound *)
  Definition heap_write (k : nat) (b : batch) (s : binds) (h : list C) : option (list C) :=
    match nth k (accs s) None with
    | Some c => Some (set_nth c (cplus (nth c h czero) (cbsum k (b_rows b))) h)
    | None => None
    end.

  Fixpoint kernel_write (ks : list nat) (b : batch) (s : binds) (h : list C) : option (list C) :=
    match ks with
    | [] => Some h
    | k :: r => match heap_write k b s h with Some h' => kernel_write r b s h' | None => None end
    end.

  Definition step (f : family) (b : batch) (e : effect) (m : mstate) : mstate + rej :=
    match e with
    | Check r | Implicit r | Conv r _ =>
        match eval_check f r (bnd (ms m)) b with Some r' => inr r' | None => inl m end
    | Bind a => inl (set_bnd m (do_bind f a b (bnd (ms m))))
    | Shapes => inl (set_bnd m (do_shapes f b (bnd (ms m))))
    | Alloc k => inl {| ms := {| bnd := do_alloc k (List.length (heap (ms m))) (bnd (ms m)); heap := heap (ms m) ++ [czero] |};
                        snapshot := snapshot m |}
    | HeapWrite k => match heap_write k b (bnd (ms m)) (heap (ms m)) with Some h => inl (set_heap m h) | None => inr RAttrMissing end
    | Kernel _ => match kernel_write (seq 0 (nacc f)) b (bnd (ms m)) (heap (ms m)) with
                  | Some h => inl (set_heap m h) | None => inr RAttrMissing end
    | Bump => inl (set_bnd m (do_bump b (bnd (ms m))))
    | Snap => inl {| ms := ms m; snapshot := Some (bnd (ms m), List.length (heap (ms m))) |}
    | Store _ | CallM _ | Mark _ | Restore => inl m
    end.

  (* run the effects; on an exception the state AT the raising point is returned *)
  Fixpoint exec (f : family) (b : batch) (l : list effect) (m : mstate) : mstate * outcome :=
    match l with
    | [] => (m, Accepted)
    | e :: r => match step f b e m with inl m' => exec f b r m' | inr x => (m, Rejected x) end
    end.

  (* the handler: bindings restored from the snapshot, cells created by this call dropped, older cells NOT restored *)
  Definition finish (mo : mstate * outcome) : ostate * outcome :=
    match snd mo with
    | Accepted => (ms (fst mo), Accepted)
    | Rejected x =>
        (match snapshot (fst mo) with
         | Some (bs, hl) => {| bnd := bs; heap := firstn hl (heap (ms (fst mo))) |}
         | None => ms (fst mo)
         end, Rejected x)
    end.

  Definition n_classes (s : binds) (b : batch) : nat :=
    match nclasses s with Some n => n | None => auto_classes (b_dmax b) end.
  Definition valuation_of (s : binds) (b : batch) : valuation :=
    {| v_first := negb (inited s); v_big := Nat.ltb 9 (n_classes s b); v_unchecked := negb (is_checked s) |}.

  Definition update (v : version) (f : family) (st : ostate) (b : batch) : ostate * outcome :=
    finish (exec f b (select (valuation_of (bnd st) b) (order v f)) {| ms := st; snapshot := None |}).

  (* analysis.process(batch): the intermediate values and the samples are computed first, then update *)
  Definition process (v : version) (f : family) (st : ostate) (b : batch) : ostate * outcome :=
    if b_user_raises b then (st, Rejected RUserRaises) else update v f st b.

  (* analysis.run(container): process every batch in turn; the first exception aborts the run *)
  Fixpoint run_container (v : version) (f : family) (st : ostate) (bs : list batch) : ostate * outcome :=
    match bs with
    | [] => (st, Accepted)
    | b :: r => match process v f st b with
                | (st', Accepted) => run_container v f st' r
                | (st', Rejected x) => (st', Rejected x)
                end
    end.

  (* compute(): DistinguisherError (None) unless processed_traces > 0; AttributeError (None) on an unbound accumulator *)
  Definition cells_of (f : family) (st : ostate) : option (list C) :=
    fold_right (fun k acc => match acc, nth k (accs (bnd st)) None with
                             | Some l, Some c => Some (nth c (heap st) czero :: l)
                             | _, _ => None end) (Some []) (seq 0 (nacc f)).
  Definition compute (f : family) (st : ostate) : option O :=
    if (processed (bnd st) >? 0) && inited (bnd st)
    then match cells_of f st with Some cs => Some (ccomp (processed (bnd st)) cs) | None => None end
    else None.

  (* ---------------------------------------------------------------- histories *)
  Inductive hop := HUpdate (b : batch) | HProcess (b : batch) | HRun (bs : list batch) | HCompute.
  Inductive hev := EAccepted (count : Z) | ERejected (x : rej) (count : Z) | EOut (o : option O) (count : Z).

  Definition apply_op (v : version) (f : family) (st : ostate) (o : hop) : ostate * hev :=
    match o with
    | HUpdate b => let (st', r) := update v f st b in
                   (st', match r with Accepted => EAccepted (processed (bnd st')) | Rejected x => ERejected x (processed (bnd st')) end)
    | HProcess b => let (st', r) := process v f st b in
                    (st', match r with Accepted => EAccepted (processed (bnd st')) | Rejected x => ERejected x (processed (bnd st')) end)
    | HRun bs => let (st', r) := run_container v f st bs in
                 (st', match r with Accepted => EAccepted (processed (bnd st')) | Rejected x => ERejected x (processed (bnd st')) end)
    | HCompute => (st, EOut (compute f st) (processed (bnd st)))
    end.

  Fixpoint run_hist (v : version) (f : family) (st : ostate) (h : list hop) : ostate * list hev :=
    match h with
    | [] => (st, [])
    | o :: r => let (st1, e) := apply_op v f st o in
                let (st2, es) := run_hist v f st1 r in (st2, e :: es)
    end.

  Definition is_rejected (e : hev) : bool := match e with ERejected _ _ => true | _ => false end.

  (* the accepted prefix of a container, as seen by run_container *)
  Fixpoint accepted_prefix (v : version) (f : family) (st : ostate) (bs : list batch) : list batch :=
    match bs with
    | [] => []
    | b :: r => match process v f st b with
                | (st', Accepted) => b :: accepted_prefix v f st' r
                | _ => []
                end
    end.

  (* the history with the refused calls deleted (a refused run(container) keeps the batches it had accepted) *)
  Fixpoint kept (v : version) (f : family) (st : ostate) (h : list hop) : list hop :=
    match h with
    | [] => []
    | o :: r =>
        let (st1, e) := apply_op v f st o in
        match o, e with
        | HRun bs, ERejected _ _ => match accepted_prefix v f st bs with
                                    | [] => kept v f st1 r
                                    | p => HRun p :: kept v f st1 r
                                    end
        | _, ERejected _ _ => kept v f st1 r
        | _, _ => o :: kept v f st1 r
        end
    end.


  (* ---------------------------------------------------------------- the spec side: one-shot accumulation (Model/Accum.v) *)
  (* accumulator k after the rows [rows], by Accum's definition: czero plus the sum of the contributions *)
  Definition acc_of (k : nat) (rows : list R) : C := Accum.upd C R czero cplus (ccontrib k) czero rows.
  Definition one_shot (f : family) (rows : list R) : list C := map (fun k => acc_of k rows) (seq 0 (nacc f)).
  (* a batch whose row count is the number of its rows *)
  Definition wf_batch (b : batch) : Prop := b_n b = Z.of_nat (List.length (b_rows b)).
  Definition wf_op (o : hop) : Prop :=
    match o with HUpdate b | HProcess b => wf_batch b | HRun bs => Forall wf_batch bs | HCompute => True end.
  (* the rows accumulated by one call / by a history: those of the accepted batches, in order *)
  Definition rows_of_op (f : family) (st : ostate) (o : hop) : list R :=
    match o with
    | HUpdate b => match snd (update repaired f st b) with Accepted => b_rows b | Rejected _ => [] end
    | HProcess b => match snd (process repaired f st b) with Accepted => b_rows b | Rejected _ => [] end
    | HRun bs => List.concat (map b_rows (accepted_prefix repaired f st bs))
    | HCompute => []
    end.
  Fixpoint rows_of_hist (f : family) (st : ostate) (h : list hop) : list R :=
    match h with
    | [] => []
    | o :: r => rows_of_op f st o ++ rows_of_hist f (fst (apply_op repaired f st o)) r
    end.

  (* construction parameters of the object *)
  Record config := { cfg_classes : option nat; cfg_edges : bool; cfg_built : option Z }.
  Definition fresh (f : family) (c : config) : ostate :=
    {| bnd := {| inited := false; processed := 0; is_checked := false; nclasses := cfg_classes c; tlen := None; words := None;
                 accs := repeat None (nacc f); extra := if cfg_edges c then ["bin_edges"%string] else []; built := cfg_built c |};
       heap := [] |}.
End Semantics.

Arguments b_tr_array {R} b. Arguments b_da_array {R} b. Arguments b_n {R} b. Arguments b_nd {R} b. Arguments b_tdim {R} b.
Arguments b_tlen {R} b. Arguments b_words {R} b. Arguments b_dmax {R} b. Arguments b_dmin {R} b. Arguments b_dkind {R} b.
Arguments b_tkind {R} b. Arguments b_const {R} b. Arguments b_mem_ok {R} b. Arguments b_alloc_ok {R} b.
Arguments b_user_raises {R} b. Arguments b_rows {R} b.
Arguments bnd {C} o. Arguments heap {C} o.
Arguments HUpdate {R} b. Arguments HProcess {R} b. Arguments HRun {R} bs. Arguments HCompute {R}.
Arguments EAccepted {O} count. Arguments ERejected {O} x count. Arguments EOut {O} o count.
Arguments is_rejected {O} e.
Arguments fresh {C} f c.

(* ------------------------------------------------------------------ the correspondence check (C-tie) *)
(* Accumulator contents are instantiated with the FREE monoid: a cell holds the list of the batch identifiers accumulated
   into it, compute returns (count, cells).  The model then says symbolically which batches every result depends on. *)
Definition sym_out := (Z * list (list Z))%type.
Definition sym_update := update (list Z) Z [] (@app Z) (fun (_ : nat) (r : Z) => [r]).
Definition sym_hist := run_hist (list Z) Z sym_out [] (@app Z) (fun (_ : nat) (r : Z) => [r]) (fun n cells => (n, cells)).
Definition sym_kept := kept (list Z) Z sym_out [] (@app Z) (fun (_ : nat) (r : Z) => [r]) (fun n cells => (n, cells)).

(* a batch by its model-relevant facts (identifier as its only row); used by the examples and witnesses *)
Definition mk_batch (id n nd tdim tl w dmax dmin : Z) (dk : dkind) (tk : tkind) : batch Z :=
  {| b_tr_array := true; b_da_array := true; b_n := n; b_nd := nd; b_tdim := tdim; b_tlen := tl; b_words := w;
     b_dmax := dmax; b_dmin := dmin; b_dkind := dk; b_tkind := tk; b_const := false; b_mem_ok := true; b_alloc_ok := true;
     b_user_raises := false; b_rows := [id] |}.
Definition good_batch (id n tl w : Z) : batch Z := mk_batch id n n 2 tl w 1 0 DUint8 TNum.
Definition no_config : config := {| cfg_classes := None; cfg_edges := false; cfg_built := None |}.

(* what the harness observed for one call *)
Inductive obs :=
| OAccepted (count : Z)                       (* the call returned; processed_traces afterwards *)
| ORaised (x : exc) (count : Z)               (* the call raised; exception class; processed_traces afterwards *)
| OResult (vals : list fval) (count : Z)      (* compute() returned these values (flattened) *)
| OComputeRaised (count : Z).                 (* compute() raised *)

Record upd_case := {
  uc_family : family;
  uc_config : config;
  uc_ops : list (hop Z);                      (* the history; every batch carries its identifier as its only row *)
  uc_obs : list obs;                          (* one observation per op, on the object under test *)
  uc_ref : list obs                           (* the same history WITHOUT the refused calls, on a fresh object *)
}.

Definition fval_eqb (a b : fval) : bool :=
  match a, b with
  | Fin m e, Fin m' e' => Qeq_bool (q_of_fin m e) (q_of_fin m' e')
  | NaN, NaN | PInf, PInf | NInf, NInf => true
  | _, _ => false
  end.

Definition sym_out_eqb (a b : option sym_out) : bool :=
  option_eqb (fun x y => Z.eqb (fst x) (fst y) && list_eqb zlist_eqb (snd x) (snd y)) a b.

(* observation vs the model's event for the same call *)
Definition obs_matches (f : family) (o : obs) (e : hev sym_out) : bool :=
  match o, e with
  | OAccepted n, EAccepted n' => Z.eqb n n'
  | ORaised x n, ERejected r n' => exc_eqb x (exc_of f r) && Z.eqb n n'
  | OResult _ n, EOut (Some _) n' => Z.eqb n n'
  | OComputeRaised n, EOut None n' => Z.eqb n n'
  | _, _ => false
  end.

(* the results (compute events) of the history under test vs those of the cleaned history: same model value, same count,
   same observed values, exactly *)
Definition is_out (eo : hev sym_out * obs) : bool := match fst eo with EOut _ _ => true | _ => false end.
Fixpoint pair_results (es rs : list (hev sym_out * obs)) : bool :=
  match es, rs with
  | [], [] => true
  | (e, o) :: es', (e', o') :: rs' =>
      match e, e', o, o' with
      | EOut s n, EOut s' n', OResult vals c, OResult vals' c' =>
          sym_out_eqb s s' && Z.eqb n n' && Z.eqb c c' && list_eqb fval_eqb vals vals'
      | EOut None n, EOut None n', OComputeRaised c, OComputeRaised c' => Z.eqb n n' && Z.eqb c c'
      | _, _, _, _ => false
      end && pair_results es' rs'
  | _, _ => false
  end.

Definition upd_check (c : upd_case) : bool :=
  let f := uc_family c in
  let st0 := fresh f (uc_config c) in
  let evs := snd (sym_hist repaired f st0 (uc_ops c)) in
  let clean := sym_kept repaired f st0 (uc_ops c) in
  let revs := snd (sym_hist repaired f st0 clean) in
  Nat.eqb (List.length (uc_obs c)) (List.length (uc_ops c))
  && Nat.eqb (List.length (uc_ref c)) (List.length clean)
  (* every call: accepted / refused with the predicted exception class, processed_traces exactly *)
  && forallb2 (obs_matches f) (uc_obs c) evs
  && forallb2 (obs_matches f) (uc_ref c) revs
  (* nothing is refused in the cleaned history *)
  && forallb (fun e => negb (is_rejected e)) revs
  (* SPEC: what survives of the history under test equals, call by call, the cleaned history on a fresh object *)
  && pair_results (filter is_out (combine evs (uc_obs c))) (filter is_out (combine revs (uc_ref c))).

Definition upd_expected (c : upd_case) : list (hev sym_out) :=
  snd (sym_hist repaired (uc_family c) (fresh (uc_family c) (uc_config c)) (uc_ops c)).
