(* Model/Aes.v — impl-model of scared/aes/base.py over the GENERATED tables (property C05), the naming of stop points,
   and the case records / check functions of the correspondence (C-tie).  Executable definitions only; the proofs are in
   Proofs/Aes*.v.  The spec is Spec/Fips197.v (written from the standard; no lookup table there).

   Shape of the code that is modelled here by hand (held by the C-tie):
     sub_bytes        SBOX[state]
     shift_rows       state.reshape(-1,16)[:, SHIFT_ROWS]
     mix_column       out = 0; for row in 0..3: out ^= roll([X_a[d[row]], X_b[d[row]], X_c[d[row]], X_d[d[row]]], shift=row)
     mix_columns      mix_column on each of the four 4-byte columns
     add_round_key    bitwise_xor
     key_expansion    _expand_forward with col_in = 0 (the loop over columns, three kinds of column)
     key_schedule     the expanded bytes cut into 16-byte round keys
     _prepare_keys    key_schedule, flipped along the round axis for decrypt
     _parametric_cipher   for i, ops in enumerate(rounds): for op in ops: state = op(state [, round_keys[i]])
   Read from the source on every run (T-tie): every table, the coefficient rows of mix_column / inv_mix_column, which mode
   encrypt / decrypt pass, and the complete table of what _prepare_rounds returns (Generated/AesRounds.v). *)
From Coq Require Import NArith ZArith List Bool Arith.
From ScaredV Require Import Generated.AesTables Generated.AesRounds Spec.Fips197 Run.Compare.
Import ListNotations.
Open Scope N_scope.

(* ---------------------------------------------------------------- table-driven primitives *)
(* T[x] *)
Definition tbl (T : list N) (x : N) : N := nth (N.to_nat x) T 0.

Definition sub_bytes_m (s : list N) : list N := map (tbl SBOX) s.
Definition inv_sub_bytes_m (s : list N) : list N := map (tbl INV_SBOX) s.

(* s[idx] (fancy indexing of one 16-byte row) *)
Definition take_idx (idx : list N) (s : list N) : list N := map (fun i => nth (N.to_nat i) s 0) idx.
Definition shift_rows_m (s : list N) : list N := take_idx SHIFT_ROWS s.
Definition inv_shift_rows_m (s : list N) : list N := take_idx INV_SHIFT_ROWS s.

(* np.bitwise_xor of two rows *)
Definition bitwise_xor (a b : list N) : list N := map (fun p => N.lxor (fst p) (snd p)) (combine a b).
Definition add_round_key_m (s k : list N) : list N := bitwise_xor s k.

(* np.roll(l, shift = k):  out[(i + k) mod n] = l[i] *)
Definition roll (k : Z) (l : list N) : list N :=
  let n := length l in
  let m := Z.to_nat (k mod Z.of_nat n) in
  skipn (n - m) l ++ firstn (n - m) l.

(* entry of a coefficient row: 1 = the byte itself, k = XTIME_k[byte] *)
Definition xt (k : N) (d : N) : N :=
  match k with
  | 1 => d
  | 2 => tbl XTIME_2 d
  | 3 => tbl XTIME_3 d
  | 9 => tbl XTIME_9 d
  | 11 => tbl XTIME_11 d
  | 13 => tbl XTIME_13 d
  | 14 => tbl XTIME_14 d
  | _ => 0
  end.

Definition mix_column_gen (row : list N) (v : list N) : list N :=
  fold_left (fun out r => bitwise_xor out (roll (Z.of_nat r) (map (fun k => xt k (nth r v 0)) row))) (seq 0 4) [0; 0; 0; 0].
Definition mix_column_m : list N -> list N := mix_column_gen MIX_ROW.
Definition inv_mix_column_m : list N -> list N := mix_column_gen INV_MIX_ROW.

(* data = state.reshape(-1, 4, 4); out[:, col] = mix_column(data[:, col]) *)
Definition on_columns (f : list N -> list N) (s : list N) : list N :=
  flat_map (fun c => f (firstn 4 (skipn (4 * c) s))) (seq 0 4).
Definition mix_columns_m : list N -> list N := on_columns mix_column_m.
Definition inv_mix_columns_m : list N -> list N := on_columns inv_mix_column_m.

(* ---------------------------------------------------------------- key expansion (_expand_forward, col_in = 0) *)
Fixpoint lookup_nat (k : nat) (l : list (nat * nat)) : option nat :=
  match l with [] => None | (k', v) :: t => if Nat.eqb k k' then Some v else lookup_nat k t end.

Definition is_bytes (l : list N) : bool := forallb (fun b => b <? 256) l.

(* column [col] of the expanded key from the columns [ek] computed so far *)
Definition expand_step (klen cols_in : nat) (key : list N) (ek : list (list N)) (col : nat) : list N :=
  let w i := nth i ek [] in
  if (col <? cols_in)%nat then firstn 4 (skipn (4 * col) key)
  else if (col mod cols_in =? 0)%nat then
    bitwise_xor (bitwise_xor (map (tbl SBOX) (roll (-1) (w (col - 1)%nat))) (nth (col / cols_in - 1) RCON [])) (w (col - cols_in)%nat)
  else if ((klen =? 32) && (col mod 4 =? 0))%nat then
    bitwise_xor (map (tbl SBOX) (w (col - 1)%nat)) (w (col - cols_in)%nat)
  else bitwise_xor (w (col - 1)%nat) (w (col - cols_in)%nat).

Definition expand_cols (klen : nat) (key : list N) (n : nat) : list (list N) :=
  fold_left (fun ek col => ek ++ [expand_step klen (klen / 4) key ek col]) (seq 0 n) [].

(* None = the code refuses the key (length not in _cols_out, or not bytes) *)
Definition key_expansion_m (key : list N) : option (list (list N)) :=
  if is_bytes key then
    match lookup_nat (length key) cols_out with
    | Some col_out => Some (expand_cols (length key) key col_out)
    | None => None
    end
  else None.

(* flat.reshape(m, 16) *)
Fixpoint chunks16 (m : nat) (l : list N) : list (list N) :=
  match m with O => [] | S m' => firstn 16 l :: chunks16 m' (skipn 16 l) end.

Definition key_schedule_m (key : list N) : option (list (list N)) :=
  match key_expansion_m key with
  | Some W => let flat := concat W in Some (chunks16 (length flat / 16) flat)
  | None => None
  end.

(* _prepare_keys: round keys, flipped along the round axis iff the mode is 'decrypt' *)
Definition prepare_keys_m (flip : bool) (key : list N) : option (list (list N)) :=
  match key_schedule_m key with
  | Some rk => Some (if flip then rev rk else rk)
  | None => None
  end.

(* ---------------------------------------------------------------- _prepare_rounds = the generated table *)
Definition key4_eqb (a b : bool * nat * nat * nat) : bool :=
  let '(d, n, r, s) := a in let '(d', n', r', s') := b in
  Bool.eqb d d' && Nat.eqb n n' && Nat.eqb r r' && Nat.eqb s s'.
Definition key3_eqb (a b : bool * nat * nat) : bool :=
  let '(d, n, s) := a in let '(d', n', s') := b in Bool.eqb d d' && Nat.eqb n n' && Nat.eqb s s'.
Definition key2_eqb (a b : bool * nat) : bool :=
  let '(d, n) := a in let '(d', n') := b in Bool.eqb d d' && Nat.eqb n n'.

Fixpoint assoc {K V} (eqb : K -> K -> bool) (k : K) (l : list (K * V)) : option V :=
  match l with [] => None | (k', v) :: t => if eqb k k' then Some v else assoc eqb k t end.

(* what _prepare_rounds returned on this run for (mode, number of round keys, at_round, after_step); None = no entry
   (at_round / after_step outside the property's range: the code raises, or fails later with IndexError) *)
Definition prepare_rounds_m (dec : bool) (n_rounds : nat) (at_round after_step : option nat) : option (list (list aes_op)) :=
  match at_round, after_step with
  | Some r, Some s => assoc key4_eqb (dec, n_rounds, r, s) rounds_table
  | None, Some s => assoc key3_eqb (dec, n_rounds, s) rounds_default_round
  | None, None => assoc key2_eqb (dec, n_rounds) rounds_default
  | Some r, None => assoc key4_eqb (dec, n_rounds, r, if dec then decrypt_default_step else encrypt_default_step) rounds_table
  end.

(* ---------------------------------------------------------------- _parametric_cipher *)
Definition apply_op (op : aes_op) (rk : list N) (st : list N) : list N :=
  match op with
  | OpId => st
  | OpSubBytes => sub_bytes_m st
  | OpShiftRows => shift_rows_m st
  | OpMixColumns => mix_columns_m st
  | OpAddRoundKey => add_round_key_m st rk
  | OpInvSubBytes => inv_sub_bytes_m st
  | OpInvShiftRows => inv_shift_rows_m st
  | OpInvMixColumns => inv_mix_columns_m st
  end.

Definition run_round (rks : list (list N)) (i : nat) (ops : list aes_op) (st : list N) : list N :=
  fold_left (fun st op => apply_op op (nth i rks []) st) ops st.

(* for i, ops in enumerate(rounds) *)
Fixpoint run_rounds (rks : list (list N)) (i : nat) (rounds : list (list aes_op)) (st : list N) : list N :=
  match rounds with
  | [] => st
  | ops :: t => run_rounds rks (S i) t (run_round rks i ops st)
  end.

Definition flips (dec : bool) : bool := if dec then decrypt_flips_keys else encrypt_flips_keys.

(* one block, one key.  dec = false: scared.aes.encrypt, dec = true: scared.aes.decrypt.  None = refused. *)
Definition cipher1_m (dec : bool) (key block : list N) (at_round after_step : option nat) : option (list N) :=
  if ((length block =? 16)%nat && is_bytes block)%bool then
    match prepare_keys_m (flips dec) key with
    | Some rks =>
      match prepare_rounds_m dec (length rks) at_round after_step with
      | Some rounds => Some (run_rounds rks 0 rounds block)
      | None => None
      end
    | None => None
    end
  else None.

Definition encrypt_m (key block : list N) (r s : nat) : option (list N) := cipher1_m false key block (Some r) (Some s).
Definition decrypt_m (key block : list N) (r s : nat) : option (list N) := cipher1_m true key block (Some r) (Some s).
Definition encrypt_full_m (key block : list N) : option (list N) := cipher1_m false key block None None.
Definition decrypt_full_m (key block : list N) : option (list N) := cipher1_m true key block None None.

(* ---------------------------------------------------------------- broadcasting: the four shapes *)
(* a 1-D array (one row) or a 2-D array (list of rows) *)
Inductive arr := One (b : list N) | Many (bs : list (list N)).

Fixpoint all_some {A} (l : list (option A)) : option (list A) :=
  match l with
  | [] => Some []
  | None :: _ => None
  | Some x :: t => match all_some t with Some r => Some (x :: r) | None => None end
  end.

Fixpoint map2 {A B C} (f : A -> B -> C) (l1 : list A) (l2 : list B) : list C :=
  match l1, l2 with x :: xs, y :: ys => f x y :: map2 f xs ys | _, _ => [] end.

(* every result row, in order; the paired shape needs equal first dimensions *)
Definition broadcast {A} (f : list N -> list N -> option A) (key state : arr) : option (list A) :=
  match key, state with
  | One k, One b => all_some [f k b]
  | One k, Many bs => all_some (map (f k) bs)
  | Many ks, One b => all_some (map (fun k => f k b) ks)
  | Many ks, Many bs => if (length ks =? length bs)%nat then all_some (map2 f ks bs) else None
  end.

Definition cipher_m (dec : bool) (key state : arr) (at_round after_step : option nat) : option (list (list N)) :=
  broadcast (fun k b => cipher1_m dec k b at_round after_step) key state.

(* out_state.squeeze(): shape of the result holding [n] rows of [w] bytes *)
Definition squeezed_shape (n w : nat) : list nat := if (n =? 1)%nat then [w] else [n; w].

(* ---------------------------------------------------------------- naming of the stop points (spec side)
   scared numbers the rounds 0 .. Nr; round 0 is [id; id; id; ARK], rounds 1 .. Nr-1 are [SB; SR; MC; ARK], round Nr is
   [SB; SR; id; ARK].  The state returned for (at_round = r, after_step = s) must be the FIPS state after exactly that
   operation, i.e. element idx_enc Nr r s of
     Cipher_states = [in; ARK(0); SB; SR; MC; ARK(1); ... ; SB; SR; MC; ARK(Nr-1); SB; SR; ARK(Nr)]
   (an identity step returns the state of the step before it). *)
Definition idx_enc (Nr r s : nat) : nat :=
  if (r =? 0)%nat then (if (s <? 3)%nat then 0 else 1)%nat
  else if (r <? Nr)%nat then (4 * r - 2 + s)%nat
  else (4 * Nr - 2 + (match s with 0 => 0 | 1 => 1 | 2 => 1 | _ => 2 end))%nat.

(* decrypt: round 0 is [ARK; id; ISR; ISB], rounds 1 .. Nr-1 are [ARK; IMC; ISR; ISB], round Nr is [ARK; id; id; id];
     InvCipher_states = [in; ARK(Nr); ISR; ISB; ARK(Nr-1); IMC; ISR; ISB; ... ; ARK(1); IMC; ISR; ISB; ARK(0)] *)
Definition idx_dec (Nr r s : nat) : nat :=
  if (r =? 0)%nat then (match s with 0 => 1 | 1 => 1 | 2 => 2 | _ => 3 end)%nat
  else if (r <? Nr)%nat then (4 * r + s)%nat
  else (4 * Nr)%nat.

Definition wf_block (b : list N) : Prop := length b = 16%nat /\ Forall (fun x => x < 256) b.
Definition wf_key (Nk : nat) (k : list N) : Prop := length k = (4 * Nk)%nat /\ Forall (fun x => x < 256) k.

(* the FIPS-197 answer for one key, one block at a stop point (defaults: last round, last step) *)
Definition spec_at (dec : bool) (key block : list N) (at_round after_step : option nat) : list N :=
  let Nk := (length key / 4)%nat in
  let Nr := Nr_of Nk in
  let r := match at_round with Some r => r | None => Nr end in
  let s := match after_step with Some s => s | None => 3%nat end in
  if dec then nth (idx_dec Nr r s) (InvCipher_states Nk key block) []
  else nth (idx_enc Nr r s) (Cipher_states Nk key block) [].

(* ---------------------------------------------------------------- correspondence: case records and checks *)
Definition to_arr (many : bool) (rows : list (list N)) : arr := if many then Many rows else One (hd [] rows).

Definition rows_ok (w : nat) (rows : list (list N)) : bool :=
  forallb (fun r => (length r =? w)%nat && is_bytes r) rows.

(* scared.aes.encrypt / decrypt *)
Record aes_case := {
  ac_dec : bool;
  ac_key_many : bool; ac_keys : list (list N);       (* key.ndim = 2 ? ; the rows of key *)
  ac_blk_many : bool; ac_blks : list (list N);       (* state.ndim = 2 ? ; the rows of the state *)
  ac_round : option nat; ac_step : option nat;       (* None = argument left to its default *)
  ac_obs_shape : list nat; ac_obs : list N           (* shape and C-order bytes of the returned array *)
}.

Definition aes_expected_spec (c : aes_case) : option (list (list N)) :=
  broadcast (fun k b => Some (spec_at (ac_dec c) k b (ac_round c) (ac_step c)))
            (to_arr (ac_key_many c) (ac_keys c)) (to_arr (ac_blk_many c) (ac_blks c)).
Definition aes_expected_model (c : aes_case) : option (list (list N)) :=
  cipher_m (ac_dec c) (to_arr (ac_key_many c) (ac_keys c)) (to_arr (ac_blk_many c) (ac_blks c)) (ac_round c) (ac_step c).

Definition rows_match (exp : option (list (list N))) (w : nat) (shape : list nat) (obs : list N) : bool :=
  match exp with
  | Some rows => natlist_eqb (squeezed_shape (length rows) w) shape && nlist_eqb (concat rows) obs
  | None => false
  end.

Definition aes_check (c : aes_case) : bool :=
  rows_ok 16 (ac_blks c) && negb (Nat.eqb (length (ac_keys c)) 0) && negb (Nat.eqb (length (ac_blks c)) 0)
  && rows_match (aes_expected_spec c) 16 (ac_obs_shape c) (ac_obs c)
  && rows_match (aes_expected_model c) 16 (ac_obs_shape c) (ac_obs c).

(* the public round primitives, applied to the rows of an array whose last dimension is 16 (4 for mix_column) *)
Inductive prim := PSubBytes | PShiftRows | PMixColumns | PMixColumn | PInvSubBytes | PInvShiftRows | PInvMixColumns | PInvMixColumn.

Definition mat_column (M : list (list N)) (v : list N) : list N :=
  map (fun r => xor_all (map (fun k => gmul (nth k (nth r M []) 0) (nth k v 0)) (seq 0 4))) (seq 0 4).

Definition prim_spec (p : prim) : list N -> list N :=
  match p with
  | PSubBytes => SubBytes | PShiftRows => ShiftRows | PMixColumns => MixColumns | PMixColumn => mat_column MIX
  | PInvSubBytes => InvSubBytes | PInvShiftRows => InvShiftRows | PInvMixColumns => InvMixColumns | PInvMixColumn => mat_column INVMIX
  end.
Definition prim_model (p : prim) : list N -> list N :=
  match p with
  | PSubBytes => sub_bytes_m | PShiftRows => shift_rows_m | PMixColumns => mix_columns_m | PMixColumn => mix_column_m
  | PInvSubBytes => inv_sub_bytes_m | PInvShiftRows => inv_shift_rows_m | PInvMixColumns => inv_mix_columns_m
  | PInvMixColumn => inv_mix_column_m
  end.
Definition prim_width (p : prim) : nat := match p with PMixColumn | PInvMixColumn => 4%nat | _ => 16%nat end.

Record prim_case := { pc_op : prim; pc_rows : list (list N); pc_obs : list N }.   (* observed: C-order bytes, same shape *)

Definition prim_check (c : prim_case) : bool :=
  rows_ok (prim_width (pc_op c)) (pc_rows c)
  && nlist_eqb (concat (map (prim_spec (pc_op c)) (pc_rows c))) (pc_obs c)
  && nlist_eqb (concat (map (prim_model (pc_op c)) (pc_rows c))) (pc_obs c).
Definition prim_expected (c : prim_case) : list (list N) := map (prim_spec (pc_op c)) (pc_rows c).

(* add_round_key(state, keys) in its four shapes (numpy broadcasting of bitwise_xor; nothing is squeezed) *)
Record ark_case := {
  kc_state_many : bool; kc_states : list (list N);
  kc_key_many : bool; kc_keys : list (list N);
  kc_obs_shape : list nat; kc_obs : list N
}.
Definition ark_shape (c : ark_case) (n : nat) : list nat :=
  if (kc_state_many c || kc_key_many c)%bool then [n; 16%nat] else [16%nat].
Definition ark_expected (f : list N -> list N -> list N) (c : ark_case) : option (list (list N)) :=
  broadcast (fun k s => Some (f s k)) (to_arr (kc_key_many c) (kc_keys c)) (to_arr (kc_state_many c) (kc_states c)).
Definition ark_check (c : ark_case) : bool :=
  rows_ok 16 (kc_states c) && rows_ok 16 (kc_keys c)
  && match ark_expected AddRoundKey c, ark_expected add_round_key_m c with
     | Some e, Some m =>
       natlist_eqb (ark_shape c (length e)) (kc_obs_shape c) && nlist_eqb (concat e) (kc_obs c) && nlist_eqb (concat m) (kc_obs c)
     | _, _ => false
     end.

(* key_schedule(key): shape (n_rounds, 16) for a 1-D key, (n_keys, n_rounds, 16) for a 2-D one *)
Record ks_case := { sc_many : bool; sc_keys : list (list N); sc_obs_shape : list nat; sc_obs : list N }.

Definition ks_spec (key : list N) : list (list N) := round_keys (length key / 4) key.
Definition ks_check (c : ks_case) : bool :=
  let n := match sc_keys c with k :: _ => (length k / 4 + 7)%nat | [] => 0%nat end in
  negb (Nat.eqb (length (sc_keys c)) 0)
  && natlist_eqb (if sc_many c then [length (sc_keys c); n; 16%nat] else [n; 16%nat]) (sc_obs_shape c)
  && nlist_eqb (concat (map (fun k => concat (ks_spec k)) (sc_keys c))) (sc_obs c)
  && match all_some (map key_schedule_m (sc_keys c)) with
     | Some rs => nlist_eqb (concat (map (@concat N) rs)) (sc_obs c)
     | None => false
     end.
Definition ks_expected (c : ks_case) : list (list (list N)) := map ks_spec (sc_keys c).

(* ---------------------------------------------------------------- call histories
   encrypt / decrypt / key_schedule / the primitives are pure functions: the model of a call does not depend on the calls
   made before it, so a history of calls is checked call by call, each against the spec and the model exactly as above.
   (What the histories exercise is on the implementation side: hidden state kept between calls — memoisation keyed on too
   little, cached arrays handed out by reference.) *)
Inductive call := CallCipher (c : aes_case) | CallPrim (c : prim_case) | CallArk (c : ark_case) | CallKs (c : ks_case).

Definition call_check (c : call) : bool :=
  match c with
  | CallCipher c => aes_check c
  | CallPrim c => prim_check c
  | CallArk c => ark_check c
  | CallKs c => ks_check c
  end.

Definition hist_check (h : list call) : bool := forallb call_check h.
(* for the replay file: which calls of the history agree *)
Definition hist_explain (h : list call) : list bool := map call_check h.

(* ---------------------------------------------------------------- count boundaries: very many rows, few distinct ones
   One call on n rows (n up to 131073) built from 2-4 distinct (key, block) pairs.  The batch is given run-length encoded,
   [runs] = (index of a distinct pair, repetitions); [expand] is its meaning.  Every function concerned works row by row
   (broadcast = map / map2), so the expected result is the per-pair result expanded along the same runs
   (Proofs/AesCounts.v: map_expand, nth_expand); the check therefore never builds the n rows: row i of the result is compared
   with the result of the pair that [run_row] finds for i.  The harness exports the rows at the first and last occurrence of
   every pair, around every power-of-two multiple of 256, the last three rows and a sample; the whole array is additionally
   compared in Python with these validated per-pair rows. *)
Definition expand {A} (d : A) (rows : list A) (runs : list (nat * N)) : list A :=
  flat_map (fun r => repeat (nth (fst r) rows d) (N.to_nat (snd r))) runs.

Fixpoint run_row (runs : list (nat * N)) (i : N) : option nat :=
  match runs with
  | [] => None
  | (k, n) :: t => if i <? n then Some k else run_row t (i - n)
  end.

Definition runs_total (runs : list (nat * N)) : N := fold_right (fun r acc => snd r + acc) 0 runs.

Inductive big_fn :=
| BigCipher (dec key_many blk_many : bool) (at_round after_step : option nat)
| BigPrim (p : prim)
| BigKs.

Record big_case := {
  bg_fn : big_fn;
  bg_pairs : list (list N * list N);      (* the distinct (key, block) pairs; primitives: ([], state); key_schedule: (key, []) *)
  bg_runs : list (nat * N);
  bg_shape : list N;                      (* shape of the returned array *)
  bg_rows : list (N * list N)             (* (row number, the bytes of that row of the result) *)
}.

Definition big_spec (f : big_fn) (p : list N * list N) : list N :=
  match f with
  | BigCipher dec _ _ r s => spec_at dec (fst p) (snd p) r s
  | BigPrim q => prim_spec q (snd p)
  | BigKs => concat (ks_spec (fst p))
  end.
Definition big_model (f : big_fn) (p : list N * list N) : option (list N) :=
  match f with
  | BigCipher dec _ _ r s => cipher1_m dec (fst p) (snd p) r s
  | BigPrim q => Some (prim_model q (snd p))
  | BigKs => option_map (@concat N) (key_schedule_m (fst p))
  end.

Definition all_eq (l : list (list N)) : bool := match l with [] => true | x :: t => forallb (nlist_eqb x) t end.

Definition big_inputs_ok (f : big_fn) (pairs : list (list N * list N)) : bool :=
  match f with
  | BigCipher _ km bm _ _ =>
    rows_ok 16 (map snd pairs) && forallb (fun p => is_bytes (fst p)) pairs
    && (km || all_eq (map fst pairs)) && (bm || all_eq (map snd pairs)) && (km || bm)
  | BigPrim q => rows_ok (prim_width q) (map snd pairs)
  | BigKs => forallb (fun p => is_bytes (fst p)) pairs && all_eq (map (fun p => [N.of_nat (length (fst p))]) pairs)
  end.

Definition big_shape (f : big_fn) (pairs : list (list N * list N)) (n : N) : list N :=
  match f with
  | BigCipher _ _ _ _ _ => [n; 16]
  | BigPrim q => [n; N.of_nat (prim_width q)]
  | BigKs => [n; N.of_nat (length (fst (hd ([], []) pairs)) / 4 + 7); 16]
  end.

Definition big_check (c : big_case) : bool :=
  let f := bg_fn c in
  let n := runs_total (bg_runs c) in
  let spec := map (big_spec f) (bg_pairs c) in
  let model := map (big_model f) (bg_pairs c) in
  big_inputs_ok f (bg_pairs c)
  && (1 <? n) && forallb (fun r => Nat.ltb (fst r) (length (bg_pairs c))) (bg_runs c)
  && nlist_eqb (big_shape f (bg_pairs c) n) (bg_shape c)
  && negb (Nat.eqb (length (bg_rows c)) 0)
  && forallb (fun x => match run_row (bg_runs c) (fst x) with
                       | Some k => nlist_eqb (nth k spec []) (snd x)
                                   && option_eqb nlist_eqb (nth k model None) (Some (snd x))
                       | None => false
                       end) (bg_rows c).
Definition big_expected (c : big_case) : list (list N) := map (big_spec (bg_fn c)) (bg_pairs c).
