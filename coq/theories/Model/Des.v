(* Model/Des.v — executable model of scared/des/base.py (property C06) over the GENERATED tables, and the case records /
   check functions of the correspondence harness tools/props/C06.py.  Definitions only; proofs are in Proofs/Des*.v.

   What is generated (T-tie, regenerated from the source on every run):
     Generated/DesTables.v  SBOXES, ROUND_KEY_BITS_INDEXES, PC1, PC2, Steps, the class-level round templates
     Generated/DesBits.v    the five bit-sliced permutations as bexpr lists (symbolic execution of their bodies)
     Generated/DesRounds.v  _prepare_des_iterations tabulated on (at_des, at_round, after_step), _prepare_keys tabulated on
                            (key bytes, mode, at_des)
   What is hand-modelled here (held by the C-tie): key_schedule's bit extraction, sboxes' indexing, the dispatch of
   _parametric_cipher_step incl. the saved_left_right mechanism, the loop of parametric_cipher, the defaults of
   at_round / at_des, broadcasting of keys against blocks. *)
From Coq Require Import NArith List Bool Arith.
From ScaredV Require Import Lib.Bexpr Spec.Fips46 Run.Compare Generated.DesTables Generated.DesBits Generated.DesRounds.
Import ListNotations.
Open Scope N_scope.

(* ------------------------------------------------------------------ primitives *)
(* a bit-sliced function: data[:, j] is column j of the row, one expression per output column *)
Definition col (st : list N) : nat -> N := fun j => nth j st 0.
Definition run_bits (gen : list bexpr) (st : list N) : list N := map (eval (col st)) gen.

Definition m_ip : list N -> list N := run_bits gen_ip.        (* initial_permutation    8 bytes -> 8 bytes *)
Definition m_fp : list N -> list N := run_bits gen_fp.        (* final_permutation      8 bytes -> 8 bytes *)
Definition m_e : list N -> list N := run_bits gen_e.          (* expansive_permutation  4 bytes -> 8 six-bit words *)
Definition m_p : list N -> list N := run_bits gen_p.          (* permutation_p          8 four-bit words -> 4 bytes *)
Definition m_invp : list N -> list N := run_bits gen_invp.    (* inv_permutation_p      4 bytes -> 8 four-bit words *)

(* sboxes: out[:, w] = SBOXES[w][data[:, w]] for the 8 columns *)
Definition m_sbox (w : nat) (x : N) : N := nth (N.to_nat x) (nth w SBOXES []) 0.
Definition m_sboxes (st : list N) : list N := map (fun p => m_sbox (fst p) (snd p)) (combine (seq 0 8) st).

(* key_schedule: key_bits[8 * byte + b] = ((key[byte] & (0x80 >> b)) != 0);
   word = 0x20 * bit[i0] + 0x10 * bit[i1] + 0x08 * bit[i2] + 0x04 * bit[i3] + 0x02 * bit[i4] + 0x01 * bit[i5] *)
Definition bit_masks : list N := [128; 64; 32; 16; 8; 4; 2; 1].
Definition key_bit (key : list N) (i : nat) : N :=
  if N.eqb (N.land (nth (i / 8) key 0) (nth (i mod 8) bit_masks 0)) 0 then 0 else 1.
Definition nsum (l : list N) : N := fold_right N.add 0 l.
Definition m_round_word (key : list N) (idx : list nat) : N :=
  nsum (map (fun p => fst p * key_bit key (snd p)) (combine [32; 16; 8; 4; 2; 1] idx)).
Definition m_key_schedule (key : list N) : list (list N) :=
  map (fun rnd => map (m_round_word key) rnd) ROUND_KEY_BITS_INDEXES.

(* ------------------------------------------------------------------ _parametric_cipher_step *)
(* the state of the loop: out_state (one row) and self.saved_left_right *)
Definition cstate := (list N * list N)%type.

(* _np.roll(row, shift=4): the last four elements come first *)
Definition roll4 (st : list N) : list N := let n := (length st - 4)%nat in skipn n st ++ firstn n st.

Definition do_step (op : option step) (K : list N) (s : cstate) : cstate :=
  let (st, saved) := s in
  match op with
  | None => s
  | Some StIP => (m_ip st, saved)
  | Some StE => (m_e (skipn 4 st), st)                              (* saved_left_right = copy(out_state); E(out_state[4:8]) *)
  | Some StK => (xorl st K, saved)
  | Some StS => (m_sboxes st, saved)
  | Some StP => (m_p st ++ [0; 0; 0; 0], saved)                     (* out[0:4] = P(out); out[4:8] = 0 *)
  | Some StX => (xorl st saved, saved)
  | Some StSwap => (roll4 st, saved)
  | Some StInvR => (m_invp (skipn 4 st), saved)
  | Some StInvD => (m_invp (xorl (firstn 4 st) (skipn 4 st)), saved)
  | Some StFP => (m_fp st, saved)
  end.

Definition run_round (ops : list (option step)) (K : list N) (s : cstate) : cstate :=
  fold_left (fun s op => do_step op K s) ops s.

(* for round_number, round_operations in enumerate(des_rounds): key = des_keys[des_number, :, round_number, :] *)
Fixpoint run_rounds (i : nat) (rounds : list (list (option step))) (keys : list (list N)) (s : cstate) : cstate :=
  match rounds with
  | [] => s
  | ops :: t => run_rounds (S i) t keys (run_round ops (nth i keys []) s)
  end.

Fixpoint run_iterations (passes : list (list (list (option step)))) (allkeys : list (list (list N))) (s : cstate) : cstate :=
  match passes, allkeys with
  | p :: ps, k :: ks => run_iterations ps ks (run_rounds 0 p k s)
  | _, _ => s
  end.

(* ------------------------------------------------------------------ the tabulated preparation *)
Definition key3_eqb (a b : nat * bool * nat) : bool :=
  let '(a1, a2, a3) := a in let '(b1, b2, b3) := b in Nat.eqb a1 b1 && Bool.eqb a2 b2 && Nat.eqb a3 b3.
Definition nat3_eqb (a b : nat * nat * nat) : bool :=
  let '(a1, a2, a3) := a in let '(b1, b2, b3) := b in Nat.eqb a1 b1 && Nat.eqb a2 b2 && Nat.eqb a3 b3.

Fixpoint lookup {K V} (eqb : K -> K -> bool) (k : K) (l : list (K * V)) : option V :=
  match l with
  | [] => None
  | (k', v) :: t => if eqb k k' then Some v else lookup eqb k t
  end.

(* what _prepare_des_iterations returned for this stop point: passes -> rounds -> operations *)
Definition prepared_iterations (at_des at_round after_step : nat) : option (list (list (list (option step)))) :=
  option_map (map (fun pid => map (fun rid => nth rid round_defs []) (nth pid pass_defs [])))
             (lookup nat3_eqb (at_des, at_round, after_step) iter_table).

(* key_schedule of every 8-byte key of a master-key bundle *)
Definition key_schedules (key : list N) : list (list (list N)) := map m_key_schedule (chunks (length key / 8) 8 key).

(* what _prepare_keys returned: per pass the 16 round keys in the order of use
   ([scheds] = the key schedules of the bundle, a parameter so that the harness computes them once per key) *)
Definition prepared_keys_with (scheds : list (list (list N))) (dec : bool) (at_des : nat) (key : list N)
  : option (list (list (list N))) :=
  let klen := length key in
  match lookup key3_eqb (klen, dec, at_des) key_sel_master with
  | Some sel => Some (map (map (fun kr => nth (snd kr) (nth (fst kr) scheds []) [])) sel)
  | None =>
    match lookup key3_eqb (klen, dec, at_des) key_sel_expanded with
    | Some sel => Some (map (map (fun kr => firstn 8 (skipn (128 * fst kr + 8 * snd kr) key))) sel)
    | None => None
    end
  end.
Definition prepared_keys (dec : bool) (at_des : nat) (key : list N) : option (list (list (list N))) :=
  prepared_keys_with (key_schedules key) dec at_des key.

(* encrypt / decrypt on one (key, block) pair with explicit stop point; None = refused (no such key form / stop point) *)
Definition des_cipher_with (scheds : list (list (list N))) (dec : bool) (at_des at_round after_step : nat) (key block : list N)
  : option (list N) :=
  match prepared_keys_with scheds dec at_des key, prepared_iterations at_des at_round after_step with
  | Some ks, Some its => Some (fst (run_iterations its ks (block, [])))
  | _, _ => None
  end.
Definition des_cipher (dec : bool) (at_des at_round after_step : nat) (key block : list N) : option (list N) :=
  des_cipher_with (key_schedules key) dec at_des at_round after_step key block.

(* _set_at_des / _set_at_round: None = the last pass / the last round *)
Definition default_at_des (klen : nat) : nat := if Nat.eqb klen 8 || Nat.eqb klen 128 then 0%nat else 2%nat.
Definition resolve_des (klen : nat) (o : option nat) : nat := match o with Some d => d | None => default_at_des klen end.
Definition resolve_round (o : option nat) : nat := match o with Some r => r | None => (DES_ROUNDS - 1)%nat end.

Definition dir_of (dec : bool) : dir := if dec then Dec else Enc.

(* ------------------------------------------------------------------ correspondence: case records and checks *)
(* rows travel packed: a row of n bytes is the number with these base-256 digits, most significant first *)
(* (shifts and masks: a 384-byte key is a 3072-bit number, on which division by 256^k would be very slow) *)
Fixpoint unpack_le (n : nat) (x : N) : list N :=
  match n with
  | O => []
  | S n' => N.land x 255 :: unpack_le n' (N.shiftr x 8)
  end.
Definition unpack (n : nat) (x : N) : list N := rev (unpack_le n x).
Definition pack (l : list N) : N := fold_left (fun a b => 256 * a + b) l 0.

(* long rows (a 384-byte key, the 128 words of a key schedule) travel as 8-byte limbs: parsing one huge literal is slow *)
Definition unpack_limbs (limbs : list N) : list N := flat_map (unpack 8) limbs.
Definition pack_limbs (l : list N) : list N :=
  if Nat.leb (length l) 8 then [pack l] else map pack (chunks (length l / 8) 8 l).

(* --- the public primitives *)
Inductive prim := PIp | PFp | PE | PS | PP | PInvP | PKs.
Definition prim_nin (p : prim) : nat := match p with PE | PInvP => 4 | _ => 8 end%nat.
Definition prim_spec (p : prim) (row : list N) : list N :=
  match p with
  | PIp => des_IP row | PFp => des_FP row | PE => des_E row | PS => des_S row | PP => des_P row | PInvP => des_invP row
  | PKs => concat (des_key_schedule row)
  end.
Definition prim_model (p : prim) (row : list N) : list N :=
  match p with
  | PIp => m_ip row | PFp => m_fp row | PE => m_e row | PS => m_sboxes row | PP => m_p row | PInvP => m_invp row
  | PKs => concat (m_key_schedule row)
  end.

(* one call of a primitive on a 2-D array: pr_in = the packed rows, pr_obs = the packed rows of the result *)
(* (the 128 words of a key schedule come back as sixteen 8-byte limbs per row) *)
Record prim_case := { pr_prim : prim; pr_in : list N; pr_obs : list N }.
Definition prim_check (c : prim_case) : bool :=
  let rows := map (unpack (prim_nin (pr_prim c))) (pr_in c) in
  nlist_eqb (flat_map (fun r => pack_limbs (prim_spec (pr_prim c) r)) rows) (pr_obs c)
  && nlist_eqb (flat_map (fun r => pack_limbs (prim_model (pr_prim c) r)) rows) (pr_obs c).
Definition prim_expected (c : prim_case) : list N :=
  flat_map (fun r => pack_limbs (prim_spec (pr_prim c) r)) (map (unpack (prim_nin (pr_prim c))) (pr_in c)).

(* single-byte sweep: the rows are  0 .. 0 x 0 .. 0  with x = ps_start .. ps_start + ps_count - 1 in column ps_col *)
Record sweep_case := { ps_prim : prim; ps_col : nat; ps_start : nat; ps_count : nat; ps_obs : list N }.
Definition single_row (n j : nat) (x : N) : list N := map (fun i => if Nat.eqb i j then x else 0) (seq 0 n).
Definition sweep_rows (c : sweep_case) : list (list N) :=
  map (fun x => single_row (prim_nin (ps_prim c)) (ps_col c) (N.of_nat x)) (seq (ps_start c) (ps_count c)).
Definition sweep_check (c : sweep_case) : bool :=
  nlist_eqb (map (fun r => pack (prim_spec (ps_prim c) r)) (sweep_rows c)) (ps_obs c)
  && nlist_eqb (map (fun r => pack (prim_model (ps_prim c) r)) (sweep_rows c)) (ps_obs c).
Definition sweep_expected (c : sweep_case) : list N := map (fun r => pack (prim_spec (ps_prim c) r)) (sweep_rows c).

(* --- encrypt / decrypt with stop points *)
(* how the key rows meet the block rows: one key and one block; one key and n blocks; n keys and one block; n and n by pairs *)
Definition pair_rows {A B} (ks : list A) (bs : list B) : list (A * B) :=
  match ks, bs with
  | [k], _ => map (fun b => (k, b)) bs
  | _, [b] => map (fun k => (k, b)) ks
  | _, _ => combine ks bs
  end.

(* a sequence of calls (same arrays, one process): each stop = (at_des, at_round, after_step), None = argument left to its default;
   dc_obs = for each call the packed rows of the result (each row has 8 columns); a key row is given as its 8-byte limbs *)
(* dc_key_many / dc_block_many: the key / block argument is a 2-D array (its rows are listed) rather than one 1-D row;
   dc_obs_shape = for each call the shape of the returned array *)
Record cipher_case := {
  dc_dec : bool; dc_key_many : bool; dc_keys : list (list N) (* each key row as 8-byte limbs *);
  dc_block_many : bool; dc_blocks : list N;
  dc_stops : list (option nat * option nat * option nat); dc_obs_shape : list (list nat); dc_obs : list (list N) }.

(* the shape of the result, at EVERY stop point: one 1-D key and one 1-D block -> (8,); otherwise one row per (key, block) pair,
   (n, 8) -- except that the code squeezes its result, so that n = 1 comes back as (8,) (the documented (1, 8) is accepted too) *)
Definition shape_ok (key_many block_many : bool) (n : nat) (sh : list nat) : bool :=
  if key_many || block_many
  then (if Nat.eqb n 1 then natlist_eqb sh [8%nat] || natlist_eqb sh [1%nat; 8%nat] else natlist_eqb sh [n; 8%nat])
  else natlist_eqb sh [8%nat].

(* 1-D arguments have exactly one row; two 2-D arguments have the same number of rows *)
Definition rows_ok (c : cipher_case) : bool :=
  (dc_key_many c || Nat.eqb (length (dc_keys c)) 1) && (dc_block_many c || Nat.eqb (length (dc_blocks c)) 1)
  && (negb (dc_key_many c && dc_block_many c) || Nat.eqb (length (dc_keys c)) (length (dc_blocks c))).

Definition stop_args (klen : nat) (stop : option nat * option nat * option nat) : nat * nat * nat :=
  let '(d, r, s) := stop in (resolve_des klen d, resolve_round r, match s with Some s => s | None => 9%nat end).

Definition stop_spec (dec : bool) (stop : option nat * option nat * option nat) (key block : list N) : option (list N) :=
  let '(d, r, s) := stop_args (length key) stop in des_spec (dir_of dec) d r s key block.
Definition stop_model (dec : bool) (stop : option nat * option nat * option nat) (key block : list N) : option (list N) :=
  let '(d, r, s) := stop_args (length key) stop in des_cipher dec d r s key block.

Definition orow_eqb (a : option (list N)) (b : N) : bool :=
  match a with Some l => Nat.eqb (length l) 8 && N.eqb (pack l) b | None => false end.

(* one (key, block) pair with the key schedules of both sides computed once *)
Record prepared_pair := { pp_key : list N; pp_block : list N; pp_spec_ks : option (list (list (list N))); pp_model_ks : list (list (list N)) }.
Definition prepare_pair (kb : list N * list N) : prepared_pair :=
  {| pp_key := fst kb; pp_block := snd kb; pp_spec_ks := schedules_of_key (fst kb);
     pp_model_ks := if Nat.leb (length (fst kb)) 24 then key_schedules (fst kb) else [] |}.

(* the SPEC is compared on every pair; the impl-model on the first pair of every call *)
Definition cipher_check (c : cipher_case) : bool :=
  let pairs := map prepare_pair (pair_rows (map unpack_limbs (dc_keys c)) (map (unpack 8) (dc_blocks c))) in
  rows_ok c
  && Nat.eqb (length (dc_obs_shape c)) (length (dc_stops c))
  && forallb (shape_ok (dc_key_many c) (dc_block_many c) (length pairs)) (dc_obs_shape c)
  && forallb2 (fun stop obs =>
      forallb2 (fun pp o =>
          let '(d, r, s) := stop_args (length (pp_key pp)) stop in
          orow_eqb (des_spec_with (pp_spec_ks pp) (dir_of (dc_dec c)) d r s (pp_block pp)) o) pairs obs
      && match pairs, obs with
         | pp :: _, o :: _ =>
           let '(d, r, s) := stop_args (length (pp_key pp)) stop in
           orow_eqb (des_cipher_with (pp_model_ks pp) (dc_dec c) d r s (pp_key pp) (pp_block pp)) o
         | _, _ => false
         end)
    (dc_stops c) (dc_obs c).
Definition cipher_expected (c : cipher_case) : list (list (option N)) :=
  let pairs := pair_rows (map unpack_limbs (dc_keys c)) (map (unpack 8) (dc_blocks c)) in
  map (fun stop => map (fun kb => option_map pack (stop_spec (dc_dec c) stop (fst kb) (snd kb))) pairs) (dc_stops c).

(* --- histories: a few calls in ONE process (hidden state between calls of a pure function), each compared on its own *)
Inductive call := CallCipher (c : cipher_case) | CallPrim (c : prim_case).
Definition call_check (c : call) : bool := match c with CallCipher c => cipher_check c | CallPrim c => prim_check c end.
Definition hist_check (h : list call) : bool := forallb call_check h.
(* for the replay file: which calls of the history agree *)
Definition hist_explain (h : list call) : list bool := map call_check h.

(* --- count boundaries: one call on MANY rows (255 .. 70000) drawn from a few distinct (key, block) pairs *)
(* The rows of the big call are given run-length encoded: (index of the distinct row, how many times), in order.  The distinct rows
   travel as an ordinary small case (validated by the ordinary check against the spec and the model); the expected big result is
   the small result expanded along the runs.  Of the big result the harness exports its shape and some rows (first / last
   occurrence of every distinct pair, the last rows, a sample, the first row that differs if any). *)
Definition expand {A} (d : A) (rows : list A) (runs : list (nat * N)) : list A :=
  flat_map (fun r => repeat (nth (fst r) rows d) (N.to_nat (snd r))) runs.
Definition runs_total (runs : list (nat * N)) : N := fold_right (fun r a => snd r + a) 0 runs.
Definition runs_ok (n : nat) (runs : list (nat * N)) : bool := forallb (fun r => Nat.ltb (fst r) n) runs.

Record count_case := { cn_base : cipher_case; cn_runs : list (nat * N); cn_shape : list N; cn_rows : list (N * N) }.
Definition count_check (c : count_case) : bool :=
  let b := cn_base c in
  let vals := nth 0 (dc_obs b) [] in
  let e := expand 0 vals (cn_runs c) in
  let total := runs_total (cn_runs c) in
  cipher_check b && Nat.eqb (length (dc_stops b)) 1
  && (dc_key_many b || dc_block_many b) && N.leb 2 total
  && runs_ok (length vals) (cn_runs c)
  && nlist_eqb (cn_shape c) [total; 8]
  && forallb (fun x => N.ltb (fst x) total && N.eqb (nth (N.to_nat (fst x)) e 0) (snd x)) (cn_rows c).
Definition count_expected (c : count_case) : list (N * N) :=
  let e := expand 0 (nth 0 (dc_obs (cn_base c)) []) (cn_runs c) in
  map (fun x => (fst x, nth (N.to_nat (fst x)) e 0)) (cn_rows c).

(* the same for a primitive / key_schedule: pn_in = the distinct input rows, pn_total = first dimension of the result,
   pn_rows = (row number, the row of the result as limbs) *)
Record prim_count_case := { pn_prim : prim; pn_in : list N; pn_runs : list (nat * N); pn_total : N; pn_rows : list (N * list N) }.
Definition prim_count_check (c : prim_count_case) : bool :=
  let rows := map (unpack (prim_nin (pn_prim c))) (pn_in c) in
  let es := expand [] (map (fun r => pack_limbs (prim_spec (pn_prim c) r)) rows) (pn_runs c) in
  let em := expand [] (map (fun r => pack_limbs (prim_model (pn_prim c) r)) rows) (pn_runs c) in
  let total := runs_total (pn_runs c) in
  runs_ok (length rows) (pn_runs c) && N.eqb (pn_total c) total
  && forallb (fun x => N.ltb (fst x) total && nlist_eqb (nth (N.to_nat (fst x)) es []) (snd x)
                       && nlist_eqb (nth (N.to_nat (fst x)) em []) (snd x)) (pn_rows c).

(* ------------------------------------------------------------------ vocabulary of the statements (Props/C06.v) *)
(* the two kinds of key argument the library accepts *)
Definition master_key (key : list N) : Prop :=
  (length key = 8 \/ length key = 16 \/ length key = 24)%nat /\ Forall (fun b => b < 256) key.
Definition expanded_key (key : list N) : Prop :=
  (length key = 128 \/ length key = 256 \/ length key = 384)%nat /\ Forall (fun b => b < 64) key.
(* number of DES passes: 1 for single DES, 3 for two-key and three-key TDES *)
Definition n_passes (key : list N) : nat := if Nat.eqb (length key) 8 || Nat.eqb (length key) 128 then 1%nat else 3%nat.
Definition is_block (b : list N) : Prop := length b = 8%nat /\ Forall (fun x => x < 256) b.

(* what a caller passes as pre-expanded key: key_schedule(k).flatten() of every 8-byte key of the bundle, concatenated *)
Definition expand_key (key : list N) : list N :=
  concat (map (fun k => concat (m_key_schedule k)) (chunks (length key / 8) 8 key)).

(* the last stop point: last pass, last round, after the final permutation = the complete operation *)
Definition des_full (dec : bool) (key block : list N) : option (list N) :=
  des_cipher dec (n_passes key - 1) 15 9 key block.
