(* Model/Analysis.v — model of scared/analysis/base.py (properties C02, C08): process / run / compute_results and the
   convergence bookkeeping of BaseAttack, GENERIC in the distinguisher (any accumulator St, zero, plus, contrib, comp
   in the sense of Model/Accum.v), in the selection function and model (metadata -> data row), in the frame and the
   row-wise preprocess chain (row -> row), and in the discriminant.  Executable definitions only; proofs are in
   Proofs/Analysis.v.  At the end: the records and check functions of the correspondence checks of C02 and C08. *)
From Coq Require Import ZArith NArith QArith List Bool Lia PeanoNat.
From ScaredV Require Import Run.Compare Model.Accum Model.Container Model.Models.
Import ListNotations.
Local Open Scope nat_scope.

(* kind of a column of convergence_traces: appended by _batch_loop_compute (Regular) or by _final_compute (Remainder) *)
Inductive ckind := Regular | Remainder.

(* A container as run() sees it: the trace set as (samples row, metadata) pairs, the frame acting on one row, the
   row-wise preprocess chain, and container.batch_size (the value of Model/Container.batch_size_rule for the setting in
   force when run() is called). *)
Record container (X M : Type) := {
  c_rows : list (X * M);
  c_fr : X -> X;
  c_chain : list (X -> X);
  c_bs : nat
}.
Arguments c_rows {X M} c.
Arguments c_fr {X M} c.
Arguments c_chain {X M} c.
Arguments c_bs {X M} c.

Section Analysis.
  (* X: a samples row; M: the metadata of one trace; V: an intermediate value row; D: a data row (model output);
     St / O: accumulator state and distinguisher output; Sc: scores. *)
  Variables (X M V D St O Sc : Type).
  Variable zero : St.
  Variable plus : St -> St -> St.
  Variable contrib : X * D -> St.
  Variable comp : St -> O.
  Variable sf : M -> V.                   (* selection function, on the metadata of one trace *)
  Variable model : V -> D.                (* leakage model *)
  Variable disc : O -> Sc.                (* discriminant *)
  Variable cstep : option nat.            (* convergence_step: None, or Some k (the setter refuses k <= 0) *)

  Notation upd := (upd St (X * D) zero plus contrib).

  Record ast := mk_ast {
    acc : St;                        (* the distinguisher's accumulators *)
    processed : nat;                 (* processed_traces *)
    results : option O;              (* .results (None before the first compute_results) *)
    scores : option Sc;              (* .scores *)
    marks : list nat;                (* _batches_processed *)
    conv : list Sc;                  (* columns of .convergence_traces *)
    cols : list (nat * ckind);       (* ghost: processed_traces and kind of every column of conv *)
    computes : list (nat * nat)      (* ghost: (processed_traces, number of columns) at every compute_results call *)
  }.

  Definition fresh : ast := mk_ast zero 0 None None [0] [] [] [].

  (* the rows given to update() for a sub-set of container c: traces = wrapper.samples, data = model(sf(metadatas)) *)
  Definition data_of (sub : list (X * M)) : list D := map (fun m => model (sf m)) (wrapper_metadatas sub).
  Definition fed_rows (c : container X M) (sub : list (X * M)) : list (X * D) :=
    combine (wrapper_samples (c_fr c) (c_chain c) sub) (data_of sub).

  (* SPEC side: one row per trace, in order: the trace restricted to the frame and passed through the chain, paired
     with model(sf(its own metadata)) *)
  Definition rows_sub (c : container X M) (sub : list (X * M)) : list (X * D) :=
    map (fun r => (chain_row (c_chain c) (c_fr c (fst r)), model (sf (snd r)))) sub.
  Definition rows_of (c : container X M) : list (X * D) := rows_sub c (c_rows c).

  (* process(batch): update(data = intermediate values, traces = samples) *)
  Definition process (c : container X M) (st : ast) (sub : list (X * M)) : ast :=
    mk_ast (upd (acc st) (fed_rows c sub)) (processed st + length (wrapper_samples (c_fr c) (c_chain c) sub))
           (results st) (scores st) (marks st) (conv st) (cols st) (computes st).

  (* BaseAttack.compute_results: results = compute(); scores = discriminant(results) *)
  Definition compute_results (st : ast) : ast :=
    mk_ast (acc st) (processed st) (Some (comp (acc st))) (Some (disc (comp (acc st))))
           (marks st) (conv st) (cols st) (computes st ++ [(processed st, length (conv st))]).

  (* _compute_convergence_traces: append the current scores as a new column *)
  Definition append_col (k : ckind) (st : ast) : ast :=
    match scores st with
    | Some s => mk_ast (acc st) (processed st) (results st) (scores st) (marks st)
                       (conv st ++ [s]) (cols st ++ [(processed st, k)]) (computes st)
    | None => st
    end.

  Definition set_marks (m : list nat) (st : ast) : ast :=
    mk_ast (acc st) (processed st) (results st) (scores st) m (conv st) (cols st) (computes st).

  (* BaseAttack._batch_loop_compute *)
  Definition batch_loop_compute (st : ast) : ast :=
    match cstep with
    | None => st
    | Some k =>
        let m := marks st ++ [processed st] in
        if k <=? last m 0 - hd 0 m
        then append_col Regular (compute_results (set_marks [last m 0] st))
        else set_marks m st
    end.

  (* BaseAttack._final_compute *)
  Definition final_compute (st : ast) : ast :=
    let st1 := compute_results st in
    match cstep with
    | None => st1
    | Some _ => if 1 <? length (marks st1) then append_col Remainder st1 else st1
    end.

  (* BaseAttack._compute_batch_size; Python: int(step / (step // base)) — float division then truncation, equal to the
     integer quotient for sizes below 2^52 *)
  Definition conv_bs (base k : nat) : nat := if k <=? base then k else k / (k / base).
  Definition eff_bs (base : nat) : nat := match cstep with None => base | Some k => conv_bs base k end.

  (* the for loop of run() over an explicit list of sub-sets, then _final_compute *)
  Definition run_batches (c : container X M) (st : ast) (subs : list (list (X * M))) : ast :=
    final_compute (fold_left (fun s sub => batch_loop_compute (process c s sub)) subs st).

  (* run(container).  (On a fresh object and an empty container the real compute() raises DistinguisherError: the
     theorems are stated for non-empty containers.) *)
  Definition run (st : ast) (c : container X M) : ast := run_batches c st (batches_of (c_rows c) (eff_bs (c_bs c))).

  (* run(container) interrupted by an exception raised while batch number k (0-based) is prepared or handed to update():
     the batches before it were processed (and their convergence bookkeeping done), nothing else happens — no
     _final_compute, results and scores stay as they were. *)
  Definition run_interrupted (st : ast) (c : container X M) (k : nat) : ast :=
    fold_left (fun s sub => batch_loop_compute (process c s sub)) (firstn k (batches_of (c_rows c) (eff_bs (c_bs c)))) st.

  (* a history of run() calls some of which are interrupted: (container, None) completes, (container, Some k) raises while its
     batch number k is prepared; the rows each of them hands to update() *)
  Definition run_h (st : ast) (h : container X M * option nat) : ast :=
    match snd h with None => run st (fst h) | Some k => run_interrupted st (fst h) k end.
  Definition hist_seq (st : ast) (hs : list (container X M * option nat)) : ast := fold_left run_h hs st.
  Definition rows_h (h : container X M * option nat) : list (X * D) :=
    match snd h with
    | None => rows_of (fst h)
    | Some k => rows_sub (fst h) (concat (firstn k (batches_of (c_rows (fst h)) (eff_bs (c_bs (fst h))))))
    end.
  Definition hist_rows (hs : list (container X M * option nat)) : list (X * D) := concat (map rows_h hs).

  (* several run() calls on the same object, in order *)
  Definition run_seq (st : ast) (runs : list (container X M)) : ast := fold_left run runs st.

  (* all the rows seen by the object, in order *)
  Definition all_rows (runs : list (container X M)) : list (X * D) := concat (map rows_of runs).
End Analysis.

Arguments acc {St O Sc} a.
Arguments processed {St O Sc} a.
Arguments results {St O Sc} a.
Arguments scores {St O Sc} a.
Arguments marks {St O Sc} a.
Arguments conv {St O Sc} a.
Arguments cols {St O Sc} a.
Arguments computes {St O Sc} a.

(* point of the last Regular column, or [d] when there is none *)
Definition last_regular_from (d : nat) (l : list (nat * ckind)) : nat :=
  fold_left (fun a c => match snd c with Regular => fst c | Remainder => a end) l d.
Definition last_regular (l : list (nat * ckind)) : nat := last_regular_from 0 l.

Definition ckind_eqb (a b : ckind) : bool :=
  match a, b with Regular, Regular | Remainder, Remainder => true | _, _ => false end.

(* ================================================================ correspondence checks *)

(* an executable instance: the free accumulator (the state is the list of all rows fed so far), comp = disc = identity *)
Definition free_run {X M D} (data : M -> D) (cstep : option nat) :=
  run_seq X M M D (list (X * D)) (list (X * D)) (list (X * D)) [] (@app _) (fun r => [r]) (fun s => s)
          (fun m => m) data (fun o => o) cstep.
Definition free_fresh {X D} := fresh (list (X * D)) (list (X * D)) (list (X * D)) [].

(* ---------------------------------------------------------------- selection function + model of the harness *)
Inductive lmodel := MValue | MHw | MMonobit (b : N) | MHwWords (k : nat).   (* MHwWords k = HammingWeight(nb_words = k), k >= 1 *)
Definition lmodel_apply (m : lmodel) (v : Z) : Z :=
  match m with
  | MValue => v
  | MHw | MHwWords _ => Z.of_N (popcount (Z.to_N v))
  | MMonobit b => Z.of_N (monobit b v)
  end.
(* sums of consecutive groups of k values (a trailing incomplete group is dropped, as HammingWeight does) *)
Fixpoint group_sums (fuel k : nat) (l : list Z) : list Z :=
  match fuel with
  | O => []
  | S f => if length l <? k then [] else fold_right Z.add 0%Z (firstn k l) :: group_sums f k (skipn k l)
  end.
Definition model_row (m : lmodel) (vals : list Z) : list Z :=
  match m with
  | MHwWords k => if k <=? 1 then map (lmodel_apply m) vals else group_sums (length vals) k (map (lmodel_apply m) vals)
  | _ => map (lmodel_apply m) vals
  end.
(* attack: data[g] = model(meta xor guesses[g]) flattened guess-major; reverse (no guesses): data = model(meta) *)
Definition data_row (guesses : option (list Z)) (m : lmodel) (meta : list Z) : list Z :=
  match guesses with
  | None => model_row m meta
  | Some gs => flat_map (fun g => model_row m (map (fun v => Z.lxor v g) meta)) gs
  end.

Definition chain_fun (ps : list prep) : list (list Z -> list Z) := map prep_row ps.

(* ---------------------------------------------------------------- comparing two arrays produced by the real code *)
(* same value up to a relative tolerance (NaN with NaN, an infinity with the same infinity) *)
Definition fval_same (rel : Q) (a b : fval) : bool :=
  match a, b with
  | NaN, NaN | PInf, PInf | NInf, NInf => true
  | Fin m e, Fin m' e' => q_close rel 0 (q_of_fin m e) (q_of_fin m' e')
  | _, _ => false
  end.
Definition fvals_same (rel : Q) (a b : list fval) : bool := forallb2 (fval_same rel) a b.

Definition tol_of (p : prec) : Q := (64 * uround p)%Q.

(* scores = discriminant(results): the discriminant reduces the LAST axis *)
Definition scores_of (op : disc_op) (shape : list nat) (res : list fval) : list oq :=
  reduce_axis None (disc_lane op) shape (length shape - 1) (map fval_q res).
Definition scores_match (op : disc_op) (shape : list nat) (res sc : list fval) : bool :=
  forallb2 (fun v m => fval_matches 0 0 v m) sc (scores_of op shape res).

(* ---------------------------------------------------------------- C02 *)
Definition zrow2 := (list Z * list Z)%type.
Definition zrow2_eqb (a b : zrow2) : bool := zlist_eqb (fst a) (fst b) && zlist_eqb (snd a) (snd b).

Record c02_run := {
  r2_rows : list zrow2;               (* the trace set: (samples row, metadata row) of every trace *)
  r2_frame : frame;
  r2_chain : list prep;
  r2_setting : bs_setting;            (* what set_batch_size was given before this run *)
  r2_itemsize : Z;                    (* itemsize of the samples dtype *)
  r2_obs_bs : option Z;               (* container.batch_size as observed (None: it returned None / raised) *)
  r2_fail : option nat;               (* Some p: trace number p (0-based) makes its batch raise (preprocess / selection function) *)
  r2_obs_fed : nat                    (* number of rows handed to update() during this run() *)
}.

Record c02_case := {
  c2_guesses : option (list Z);       (* Some guesses: attack; None: reverse *)
  c2_model : lmodel;
  c2_prec : prec;
  c2_step : option nat;               (* convergence_step of the attack (None for reverse analyses) *)
  c2_runs : list c02_run;
  c2_obs_updates : list (list zrow2); (* every update() call, in order: its (traces row, flattened data row) pairs *)
  c2_obs_processed : nat;             (* processed_traces at the end *)
  c2_res_shape : list nat;
  c2_obs_results : list fval;         (* .results after the last run, C order *)
  c2_disc : disc_op;
  c2_obs_scores : option (list fval); (* .scores (attacks) *)
  c2_one_results : list fval;         (* a fresh distinguisher of the same class updated ONCE with the whole set *)
  c2_one_scores : option (list fval)  (* discriminant of the one-shot results *)
}.

Definition run_trace_size (r : c02_run) : Z :=
  match r2_rows r with
  | [] => 0
  | row :: _ => Z.of_nat (length (chain_row (chain_fun (r2_chain r)) (select 0%Z (r2_frame r) (fst row))))
  end.
Definition run_input_size (r : c02_run) : Z :=
  match r2_rows r with [] => 0 | row :: _ => Z.of_nat (length (select 0%Z (r2_frame r) (fst row))) end.
Definition run_bs (r : c02_run) : option Z :=
  batch_size_rule (r2_setting r) (run_trace_size r) (run_input_size r) (r2_itemsize r).
Definition run_bs_nat (r : c02_run) : nat := match run_bs r with Some b => Z.to_nat b | None => 0 end.

(* SPEC side: the rows of one container, and its expected update() calls *)
Definition c02_container (r : c02_run) : container (list Z) (list Z) :=
  {| c_rows := r2_rows r; c_fr := select 0%Z (r2_frame r); c_chain := chain_fun (r2_chain r); c_bs := run_bs_nat r |}.
Definition c02_rows (c : c02_case) (r : c02_run) : list zrow2 :=
  rows_of (list Z) (list Z) (list Z) (list Z) (fun m => m) (data_row (c2_guesses c) (c2_model c)) (c02_container r).
Definition run_eff_bs (c : c02_case) (r : c02_run) : nat := eff_bs (c2_step c) (run_bs_nat r).
(* the batches of one run() according to the impl-model: all of them, or those before the one holding the failing trace *)
Definition c02_run_batches (c : c02_case) (r : c02_run) : list (list zrow2) :=
  let bts := batches_of (c02_rows c r) (run_eff_bs c r) in
  match r2_fail r with None => bts | Some p => firstn (p / run_eff_bs c r) bts end.
Definition c02_expected_updates (c : c02_case) : list (list zrow2) := flat_map (c02_run_batches c) (c2_runs c).

(* impl-model side: the free accumulator run through the model of run() (interrupted runs included) *)
Definition c02_model_state (c : c02_case) :=
  fold_left (fun st r =>
      match r2_fail r with
      | None => free_run (data_row (c2_guesses c) (c2_model c)) (c2_step c) st [c02_container r]
      | Some p => run_interrupted (list Z) (list Z) (list Z) (list Z) (list zrow2) (list zrow2) (list zrow2) [] (@app _) (fun x => [x])
                    (fun s => s) (fun m => m) (data_row (c2_guesses c) (c2_model c)) (fun o => o) (c2_step c) st (c02_container r)
                    (p / run_eff_bs c r)
      end) (c2_runs c) free_fresh.

Definition is_nil {A} (l : list A) : bool := match l with [] => true | _ => false end.

(* all the SPEC rows of the case: every trace of every container once, in order, with its own metadata *)
(* a run() that raises contributes the rows it handed to update() before: a prefix of its rows, the observed number of them *)
Definition c02_spec_rows (c : c02_case) : list zrow2 := flat_map (fun r => firstn (r2_obs_fed r) (c02_rows c r)) (c2_runs c).

(* PROPERTY level (check_fn): what the property states, on public observables only — whatever the batch boundaries and
   the value of the batch size. *)
Definition c02_check (c : c02_case) : bool :=
  match c2_step c with Some k => 1 <=? k | None => true end
  && forallb (fun r => match r2_rows r with [] => false | row :: _ => frame_ok (r2_frame r) (length (fst row)) end) (c2_runs c)
  (* a complete run() feeds all its traces; a run() that raises feeds only traces before the failing one *)
  && forallb (fun r => match r2_fail r with
                       | None => Nat.eqb (r2_obs_fed r) (length (r2_rows r))
                       | Some p => (r2_obs_fed r <=? p) && (p <? length (r2_rows r))
                       end) (c2_runs c)
  (* every trace exactly once, in order, restricted to the frame THEN passed through the chain, paired with its own metadata:
     the rows fed to update(), batch after batch, are the SPEC rows; no empty batch *)
  && list_eqb zrow2_eqb (concat (c2_obs_updates c)) (c02_spec_rows c)
  && forallb (fun u => negb (is_nil u)) (c2_obs_updates c)
  && Nat.eqb (c2_obs_processed c) (length (c02_spec_rows c))
  (* results = one-shot results (both by the real code); scores = discriminant(results) *)
  && Nat.eqb (length (c2_obs_results c)) (prodn (c2_res_shape c))
  && fvals_same (tol_of (c2_prec c)) (c2_obs_results c) (c2_one_results c)
  && match c2_guesses c, c2_obs_scores c, c2_one_scores c with
     | Some _, Some sc, Some sc1 =>
         scores_match (c2_disc c) (c2_res_shape c) (c2_obs_results c) sc
         && fvals_same (tol_of (c2_prec c)) sc sc1
     | None, None, None => true
     | _, _, _ => false
     end.

(* CORRESPONDENCE level (corr_fn): the implementation follows the impl-model — the value of the batch size is the one of
   batch_size_rule, the batch boundaries are exactly the slices of Model/Container.v for the (derived) batch size, and the
   model of run() on the free accumulator ends in the observed state. *)
Definition c02_corr (c : c02_case) : bool :=
  forallb (fun r => option_eqb Z.eqb (run_bs r) (r2_obs_bs r)
                    && match run_bs r with Some b => (1 <=? b)%Z | None => false end) (c2_runs c)
  && list_eqb (list_eqb zrow2_eqb) (c2_obs_updates c) (c02_expected_updates c)
  && list_eqb zrow2_eqb (acc (c02_model_state c)) (concat (c2_obs_updates c))
  && Nat.eqb (processed (c02_model_state c)) (c2_obs_processed c).

Definition c02_explain (c : c02_case) := (map run_bs (c2_runs c), c02_expected_updates c).

(* ---------------------------------------------------------------- the batch size rule alone *)
Record bs_case := {
  b_setting : bs_setting;
  b_trace_size : Z;      (* container.trace_size *)
  b_input_size : Z;      (* len(ths[0].samples[frame]) *)
  b_itemsize : Z;
  b_obs : option Z       (* container.batch_size; None when it returned None or raised ZeroDivisionError *)
}.
(* CORRESPONDENCE level: the value is the one of the rule *)
Definition bs_check (c : bs_case) : bool :=
  option_eqb Z.eqb (batch_size_rule (b_setting c) (b_trace_size c) (b_input_size c) (b_itemsize c)) (b_obs c).
(* PROPERTY level: under the hypotheses of batch_size_pos (Props/C02.v) the container has a usable batch size: an integer
   >= 1 (for a table: one of its sizes).  Which one is not part of the property ("whatever the configured batch size"). *)
Definition bs_pre (c : bs_case) : bool :=
  match b_setting c with
  | BInt n => (0 <? n)%Z
  | BMb _ => (0 <? b_input_size c * b_itemsize c)%Z
  | BTable t => negb (is_nil t) && (fst (hd (0, 0)%Z t) <=? Z.max (b_trace_size c) (b_input_size c))%Z
                && forallb (fun e => (1 <=? snd e)%Z) t
  end.
Definition bs_prop_check (c : bs_case) : bool :=
  if bs_pre c then
    match b_obs c with
    | Some b => (1 <=? b)%Z && match b_setting c with BTable t => existsb (fun e => Z.eqb (snd e) b) t | _ => true end
    | None => false
    end
  else true.
Definition bs_explain (c : bs_case) := batch_size_rule (b_setting c) (b_trace_size c) (b_input_size c) (b_itemsize c).

(* ---------------------------------------------------------------- C08 *)
(* the bookkeeping depends on the sizes only: the unit instance counts the rows *)
Definition unit_run (cstep : option nat) :=
  run_seq unit unit unit unit nat nat nat 0 Nat.add (fun _ => 1) (fun s => s) (fun m => m) (fun v => v) (fun o => o) cstep.
Definition unit_fresh := fresh nat nat nat 0.

Record c08_case := {
  c8_step : nat;                          (* convergence_step *)
  c8_runs : list (nat * nat);             (* (number of traces of the container, container.batch_size) of every run() *)
  c8_fails : list (option nat);           (* per run(): Some p = trace number p makes its batch raise (the run() is interrupted) *)
  c8_obs_fed : list nat;                  (* per run(): number of rows handed to update() *)
  c8_prec : prec;
  c8_width : nat;                         (* number of score entries (product of scores.shape) *)
  c8_obs_computes : list (nat * nat);     (* (processed_traces, columns so far) at every compute_results call *)
  c8_obs_ncols : list nat;                (* number of columns after every run() *)
  c8_obs_points : list nat;               (* processed_traces when each column was appended *)
  c8_obs_marks : option (list nat);       (* _batches_processed at the end, when the attribute exists *)
  c8_obs_conv : list (list fval);         (* the columns of convergence_traces *)
  c8_obs_scores : list fval;              (* final .scores *)
  c8_obs_results : list fval;             (* final .results *)
  c8_prefix_scores : list (list fval);    (* oracle: for each column, .scores of a FRESH attack (no convergence) run on
                                             the first p traces, p = processed_traces at the compute_results call that
                                             the column followed (c8_obs_computes ties these points to the model) *)
  c8_plain_scores : list fval;            (* a fresh attack WITHOUT convergence_step on the same runs *)
  c8_plain_results : list fval
}.

Definition c08_container (r : nat * nat) : container unit unit :=
  {| c_rows := repeat (tt, tt) (fst r); c_fr := fun x => x; c_chain := []; c_bs := snd r |}.
(* one run() of the history on the row-counting instance: complete, or interrupted at the batch holding trace p *)
Definition unit_run_h (step : nat) (st : ast nat nat nat) (r : nat * nat) (f : option nat) : ast nat nat nat :=
  match f with
  | None => unit_run (Some step) st [c08_container r]
  | Some p => run_interrupted unit unit unit unit nat nat nat 0 Nat.add (fun _ => 1) (fun s => s) (fun m => m) (fun v => v)
                (fun o => o) (Some step) st (c08_container r) (p / conv_bs (snd r) step)
  end.
Definition c08_model_state (c : c08_case) :=
  fold_left (fun st rf => unit_run_h (c8_step c) st (fst rf) (snd rf)) (combine (c8_runs c) (c8_fails c)) unit_fresh.
(* number of columns and of traces after each run *)
Fixpoint c08_after (step : nat) (st : ast nat nat nat) (runs : list ((nat * nat) * option nat)) : list (nat * nat) :=
  match runs with
  | [] => []
  | rf :: t => let st' := unit_run_h step st (fst rf) (snd rf) in
               (length (cols st'), processed st') :: c08_after step st' t
  end.

Definition c08_points (c : c08_case) : list nat := map fst (cols (c08_model_state c)).

Definition pairnat_eqb (a b : nat * nat) : bool := Nat.eqb (fst a) (fst b) && Nat.eqb (snd a) (snd b).

(* strictly increasing *)
Fixpoint incr_from (prev : nat) (l : list nat) : bool :=
  match l with [] => true | p :: t => (prev <? p) && incr_from p t end.
Definition strictly_increasing (l : list nat) : bool := match l with [] => true | p :: t => incr_from p t end.

(* the points appended by ONE run(), given the last point that closed a full step before ([lastreg], 0 at the start): every
   point but the last one of the run is at least [step] after the previous such point; the last point of the run is either
   such a point too, or a final remainder (closer than [step]).  Returns the new [lastreg], None on a violation. *)
Fixpoint run_points_ok (step lastreg : nat) (pts : list nat) : option nat :=
  match pts with
  | [] => Some lastreg
  | p :: t =>
      match t with
      | [] => Some (if lastreg + step <=? p then p else lastreg)
      | _ => if lastreg + step <=? p then run_points_ok step p t else None
      end
  end.

(* cut the points into the groups appended by each run(), from the number of columns after each run() *)
Fixpoint split_counts (prev : nat) (counts : list nat) (pts : list nat) : list (list nat) :=
  match counts with
  | [] => []
  | c :: t => firstn (c - prev) pts :: split_counts c t (skipn (c - prev) pts)
  end.

(* all the points of an INTERRUPTED run() close a full step (there is no final column) and lie within the rows fed so far *)
Fixpoint regular_points_ok (step lastreg total : nat) (pts : list nat) : option nat :=
  match pts with
  | [] => Some lastreg
  | p :: t => if (lastreg + step <=? p) && (p <=? total) then regular_points_ok step p total t else None
  end.

(* after every complete run(): at least one column, the last one at the number of rows fed so far; an interrupted run() only
   feeds rows before its failing trace and only appends full-step columns *)
Fixpoint runs_points_ok (step lastreg total : nat) (runs : list ((nat * nat) * option nat)) (fed : list nat)
                        (groups : list (list nat)) : bool :=
  match runs, fed, groups with
  | [], [], [] => true
  | (r, None) :: rt, f :: ft, g :: gt =>
      let total' := total + f in
      Nat.eqb f (fst r) && negb (is_nil g) && Nat.eqb (last g 0) total'
      && match run_points_ok step lastreg g with
         | Some lr => runs_points_ok step lr total' rt ft gt
         | None => false
         end
  | (r, Some p) :: rt, f :: ft, g :: gt =>
      let total' := total + f in
      (f <=? p) && (p <? fst r)
      && match regular_points_ok step lastreg total' g with
         | Some lr => runs_points_ok step lr total' rt ft gt
         | None => false
         end
  | _, _, _ => false
  end.

(* PROPERTY level (check_fn): the clauses of the property on public observables — no reference to the state machine. *)
Definition c08_check (c : c08_case) : bool :=
  let tol := tol_of (c8_prec c) in
  (1 <=? c8_step c)
  && forallb (fun r => (1 <=? fst r) && (1 <=? snd r)) (c8_runs c)
  && Nat.eqb (length (c8_obs_conv c)) (length (c8_obs_points c))
  && Nat.eqb (last (c8_obs_ncols c) 0) (length (c8_obs_points c))
  (* the points are strictly increasing, at least one step apart except a final remainder; after every complete run() the
     last one is the number of rows fed so far (a run() that raised contributes the rows it fed before) *)
  && strictly_increasing (c8_obs_points c)
  && Nat.eqb (length (c8_fails c)) (length (c8_runs c))
  && runs_points_ok (c8_step c) 0 0 (combine (c8_runs c) (c8_fails c)) (c8_obs_fed c)
                    (split_counts 0 (c8_obs_ncols c) (c8_obs_points c))
  (* every column is the score of a fresh attack on the prefix: EXACTLY (same code on the same exactly-summed accumulators;
     a column stored in a narrower dtype than the scores is not the scores) *)
  && forallb2 (fvals_same 0) (c8_obs_conv c) (c8_prefix_scores c)
  && forallb (fun col => Nat.eqb (length col) (c8_width c)) (c8_obs_conv c)
  (* the last column is the final scores *)
  && fvals_same 0 (last (c8_obs_conv c) []) (c8_obs_scores c)
  (* asking for convergence traces changed neither results nor scores *)
  && fvals_same tol (c8_obs_scores c) (c8_plain_scores c)
  && fvals_same tol (c8_obs_results c) (c8_plain_results c).

(* CORRESPONDENCE level (corr_fn): the implementation follows the state machine — when results were computed and how many
   columns there were, the exact positions and number of the columns, the marks left in _batches_processed. *)
Definition c08_corr (c : c08_case) : bool :=
  let st := c08_model_state c in
  list_eqb pairnat_eqb (c8_obs_computes c) (computes st)
  && natlist_eqb (c8_obs_ncols c) (map fst (c08_after (c8_step c) unit_fresh (combine (c8_runs c) (c8_fails c))))
  (* an interrupted run() fed exactly the batches before the one holding the failing trace *)
  && natlist_eqb (map snd (c08_after (c8_step c) unit_fresh (combine (c8_runs c) (c8_fails c))))
                 (tl (fold_left (fun acc f => acc ++ [last acc 0 + f]) (c8_obs_fed c) [0]))
  && natlist_eqb (c8_obs_points c) (c08_points c)
  && match c8_obs_marks c with Some m => natlist_eqb m (marks st) | None => true end.

Definition c08_explain (c : c08_case) :=
  let st := c08_model_state c in (cols st, computes st, marks st).
