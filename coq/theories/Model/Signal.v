(* Model/Signal.v — spec and impl-model of scared/signal_processing/{moving_operators,pattern_detection,base}.py and
   extract_around_indexes (property C19).  Executable definitions only; proofs are in Proofs/Signal.v.

   Values are canonical rationals (Qc).  Square roots never appear: std is carried as its square, skew as
   (mu3, mu2) [the code returns mu3 / mu2^(3/2)], kurtosis as (mu4, mu2) [mu4 / mu2^2 - 3], the correlation as
   (num, dx, dy) [num / (sqrt dx * sqrt dy)], distance and bcdc as their squares. *)
From Coq Require Import NArith ZArith QArith Qcanon Qcabs List Bool Lia.
From ScaredV Require Import Run.Compare Lib.QcSum.
Import ListNotations.
Local Open Scope Qc_scope.

Definition qnat (n : nat) : Qc := qz (Z.of_nat n).
Definition q2 : Qc := 1 + 1.
Definition q3 : Qc := 1 + 1 + 1.
Definition q4 : Qc := q2 * q2.
Definition q6 : Qc := q2 * q3.
Definition cube (x : Qc) : Qc := x * x * x.
Definition fourth (x : Qc) : Qc := x * x * x * x.

(* ================================================================ SPEC: windows and their naive statistics *)
(* all length-w windows of l, in order: window i = l[i .. i+w-1], i = 0 .. len - w *)
Definition windows {A} (w : nat) (l : list A) : list (list A) :=
  map (fun i => firstn w (skipn i l)) (seq 0 (length l + 1 - w)).

(* central moments of a non-empty list, by definition *)
Definition mu2 (l : list Qc) : Qc := qsum (map (fun x => sq (x - qmean l)) l) / qlen l.
Definition mu3 (l : list Qc) : Qc := qsum (map (fun x => cube (x - qmean l)) l) / qlen l.
Definition mu4 (l : list Qc) : Qc := qsum (map (fun x => fourth (x - qmean l)) l) / qlen l.

(* paired window / pattern *)
Definition dot (a b : list Qc) : Qc := qsum (map (fun p => fst p * snd p) (combine a b)).
Definition pearson_triple (a b : list Qc) : Qc * Qc * Qc := (scd (combine a b), ssd a, ssd b).
Definition sqdist (a b : list Qc) : Qc := qsum (map (fun p => sq (fst p - snd p)) (combine a b)).
Definition vdiff (a b : list Qc) : list Qc := map (fun p => fst p - snd p) (combine a b).
Definition vsum (a b : list Qc) : list Qc := map (fun p => fst p + snd p) (combine a b).
Definition bcdc_pair (a b : list Qc) : Qc * Qc := (mu2 (vdiff a b), mu2 (vsum a b)).     (* bcdc^2 = Var(x-y) / Var(x+y) *)

(* ================================================================ IMPL-MODEL: the code as written *)
Fixpoint cumsum_from (acc : Qc) (l : list Qc) : list Qc :=
  match l with [] => [] | x :: t => (acc + x) :: cumsum_from (acc + x) t end.

Fixpoint map2 {A B C} (f : A -> B -> C) (a : list A) (b : list B) : list C :=
  match a, b with x :: xs, y :: ys => f x y :: map2 f xs ys | _, _ => [] end.

(* element-wise array expressions over 2, 3, 4 arrays *)
Definition ew2 {A} (f : Qc -> Qc -> A) (a b : list Qc) : list A := map2 f a b.
Definition ew3 {A} (f : Qc -> Qc -> Qc -> A) (a b c : list Qc) : list A :=
  map2 (fun p z => f (fst p) (snd p) z) (combine a b) c.
Definition ew4 {A} (f : Qc -> Qc -> Qc -> Qc -> A) (a b c e : list Qc) : list A :=
  map2 (fun p q => f (fst p) (snd p) (fst q) (snd q)) (combine a b) (combine c e).

(* moving_sum: w < 2 returns the data; otherwise cumsum of the zero-padded lane, ret[w:] - ret[:-w] *)
Definition moving_sum (w : nat) (l : list Qc) : list Qc :=
  if (w <? 2)%nat then l
  else let ret := cumsum_from 0 (0 :: l) in
       map2 Qcminus (skipn w ret) (firstn (length ret - w) ret).

Definition moving_mean (w : nat) (l : list Qc) : list Qc := map (fun s => s / qnat w) (moving_sum w l).

Definition moving_var (w : nat) (l : list Qc) : list Qc :=
  ew2 (fun m1 m2 => m2 - m1 * m1) (moving_mean w l) (moving_mean w (map sq l)).

(* moving_std = sqrt(moving_var): carried as its square *)
Definition moving_std_sq := moving_var.

(* (m3 - 3*m1*v - m1**3, v) ; the code returns num / v**(3/2) *)
Definition moving_skew (w : nat) (l : list Qc) : list (Qc * Qc) :=
  ew3 (fun m1 m2 m3 => let v := m2 - m1 * m1 in (m3 - q3 * m1 * v - cube m1, v))
      (moving_mean w l) (moving_mean w (map sq l)) (moving_mean w (map cube l)).

(* (m4 - 4*m3*m1 + 6*v*m1**2 + 3*m1**4, v) ; the code returns num / v**2 - 3 *)
Definition moving_kurtosis (w : nat) (l : list Qc) : list (Qc * Qc) :=
  ew4 (fun m1 m2 m3 m4 => let v := m2 - m1 * m1 in (m4 - q4 * m3 * m1 + q6 * v * (m1 * m1) + q3 * fourth m1, v))
      (moving_mean w l) (moving_mean w (map sq l)) (moving_mean w (map cube l)) (moving_mean w (map fourth l)).

(* scipy.signal.correlate(trace, pattern, 'valid') for 1-D real input: the sliding dot product *)
Definition correlate_valid (x y : list Qc) : list Qc := map (fun win => dot win y) (windows (length y) x).

(* correlation: (numerator, x2 - n*ex^2, y2 - n*ey^2); the code returns numerator / (sqrt . * sqrt .) *)
Definition correlation (x y : list Qc) : list (Qc * Qc * Qc) :=
  let n := length y in
  let ex := moving_mean n x in
  let ey := qmean y in
  let x2 := moving_sum n (map sq x) in
  let y2 := qsum (map sq y) in
  let xy := correlate_valid x y in
  ew3 (fun xy ex x2 => (xy - qnat n * ex * ey, x2 - qnat n * (ex * ex), y2 - qnat n * (ey * ey))) xy ex x2.

(* distance^2 = |tmp1 - 2*tmp2| *)
Definition distance_sq (x y : list Qc) : list Qc :=
  let n := length y in
  ew2 (fun x2 xy => Qcabs (x2 + qsum (map sq y) - q2 * xy)) (moving_sum n (map sq x)) (correlate_valid x y).

(* bcdc: (|numerator|, |denominator|); the code returns sqrt|numerator| / sqrt|denominator| *)
Definition bcdc (x y : list Qc) : list (Qc * Qc) :=
  let n := length y in
  let ey2 := qsum (map sq y) in
  let ey := qsum y in
  ew3 (fun ex2 exy ex =>
         (Qcabs ((ex2 + ey2 - q2 * exy) / qnat n - sq ((ex - ey) / qnat n)),
          Qcabs ((ex2 + ey2 + q2 * exy) / qnat n - sq ((ex + ey) / qnat n))))
      (moving_sum n (map sq x)) (correlate_valid x y) (moving_sum n x).

(* ---------------------------------------------------------------- n-D arrays: shape + C-order flat data *)
Definition prodn (l : list nat) : nat := fold_right Nat.mul 1%nat l.

Fixpoint ravel (shape idx : list nat) : nat :=
  match shape, idx with
  | _ :: ss, i :: is_ => (i * prodn ss + ravel ss is_)%nat
  | _, _ => 0%nat
  end.

Fixpoint unravel (shape : list nat) (k : nat) : list nat :=
  match shape with
  | [] => []
  | _ :: ss => (k / prodn ss)%nat :: unravel ss (k mod prodn ss)
  end.

Definition in_range (shape idx : list nat) : Prop := Forall2 lt idx shape.

Fixpoint inside (offs shape idx : list nat) : bool :=
  match offs, shape, idx with
  | [], [], [] => true
  | o :: os, s :: ss, i :: is_ => (o <=? i)%nat && (i <? o + s)%nat && inside os ss is_
  | _, _, _ => false
  end.

Fixpoint sub_idx (idx offs : list nat) : list nat :=
  match idx, offs with i :: is_, o :: os => (i - o)%nat :: sub_idx is_ os | _, _ => [] end.

Fixpoint fits (offs shape target : list nat) : bool :=
  match offs, shape, target with
  | [], [], [] => true
  | o :: os, s :: ss, t :: ts => (o + s <=? t)%nat && fits os ss ts
  | _, _, _ => false
  end.

(* pad(array, target_shape, offsets, pad_with): None = ValueError (array does not fit / wrong number of dimensions) *)
Definition pad {A} (shape : list nat) (flat : list A) (target offs : list nat) (pw : A) : option (list A) :=
  if fits offs shape target then
    Some (map (fun k => let idx := unravel target k in
                        if inside offs shape idx then nth (ravel shape (sub_idx idx offs)) flat pw else pw)
              (seq 0 (prodn target)))
  else None.

(* ---------------------------------------------------------------- extract_around_indexes *)
Fixpoint sequence {A} (l : list (option A)) : option (list A) :=
  match l with
  | [] => Some []
  | None :: _ => None
  | Some x :: t => match sequence t with Some r => Some (x :: r) | None => None end
  end.

(* numpy.take(data, p) with mode='raise': negative positions wrap once, anything else is an IndexError *)
Definition take1 (data : list Qc) (p : Z) : option Qc :=
  let n := Z.of_nat (length data) in
  if ((0 <=? p) && (p <? n))%Z then Some (nth (Z.to_nat p) data 0)
  else if ((- n <=? p) && (p <? 0))%Z then Some (nth (Z.to_nat (n + p)) data 0)
  else None.

(* rows of ExtractMode.STACK: row k = data[idx_k - before .. idx_k + after] *)
Definition extract (data : list Qc) (idxs : list Z) (before after : nat) : option (list (list Qc)) :=
  sequence (map (fun c => sequence (map (fun j => take1 data (c - Z.of_nat before + Z.of_nat j)%Z)
                                        (seq 0 (before + after + 1)))) idxs).

Definition extract_concat data idxs before after : option (list Qc) :=
  match extract data idxs before after with Some rows => Some (concat rows) | None => None end.

(* column means (numpy.mean(result, 0)) *)
Definition extract_average data idxs before after : option (list Qc) :=
  match extract data idxs before after with
  | Some rows => Some (map (fun j => qmean (map (fun r => nth j r 0) rows)) (seq 0 (before + after + 1)))
  | None => None
  end.

(* ================================================================ correspondence checks (C-tie) *)
Definition lane {A} (d : A) (L inner : nat) (flat : list A) (o i : nat) : list A :=
  map (fun j => nth ((o * L + j) * inner + i)%nat flat d) (seq 0 L).

(* apply f to every lane along [axis]; each f lane has L' entries; result in C order *)
Definition map_lanes {A B} (dA : A) (dB : B) (f : list A -> list B) (L' : nat)
           (outer L inner : nat) (flat : list A) : list B :=
  flat_map (fun o =>
    let outs := map (fun i => f (lane dA L inner flat o i)) (seq 0 inner) in
    flat_map (fun j => map (fun ln => nth j ln dB) outs) (seq 0 L')) (seq 0 outer).

Definition outer_of (shape : list nat) (axis : nat) : nat := prodn (firstn axis shape).
Definition len_of (shape : list nat) (axis : nat) : nat := nth axis shape 0%nat.
Definition inner_of (shape : list nat) (axis : nat) : nat := prodn (skipn (S axis) shape).

Fixpoint replace_nth {A} (n : nat) (v : A) (l : list A) : list A :=
  match l, n with
  | [], _ => []
  | _ :: t, O => v :: t
  | h :: t, S n' => h :: replace_nth n' v t
  end.

(* an operator applied to every lane along [axis] (the code: swapaxes(0, axis), work along axis 0, swap back) *)
Definition along_axis {B} (dB : B) (f : list Qc -> list B) (L' : nat) (shape : list nat) (axis : nat) (flat : list Qc) : list B :=
  map_lanes 0 dB f L' (outer_of shape axis) (len_of shape axis) (inner_of shape axis) flat.

Definition moving_sum_nd (w : nat) (shape : list nat) (axis : nat) (flat : list Qc) : list Qc :=
  along_axis 0 (moving_sum w) (len_of shape axis + 1 - w) shape axis flat.

(* all the naive statistics of one window, by definition *)
Record wstat := {
  ws_sum : Qc; ws_m1 : Qc; ws_m2 : Qc; ws_m3 : Qc; ws_m4 : Qc;      (* sum, raw moments E[x^k] *)
  ws_mu2 : Qc; ws_mu3 : Qc; ws_mu4 : Qc                            (* central moments *)
}.
(* the same central moments / sums of deviations with the mean bound once (convertible to mu2, mu3, mu4, ssd, scd:
   Proofs/Signal.v *_let_eq by reflexivity); the spec definitions re-evaluate the mean under the binder, which is quadratic
   when evaluated *)
Definition mu2_let (l : list Qc) : Qc := let m := qmean l in qsum (map (fun x => sq (x - m)) l) / qlen l.
Definition mu3_let (l : list Qc) : Qc := let m := qmean l in qsum (map (fun x => cube (x - m)) l) / qlen l.
Definition mu4_let (l : list Qc) : Qc := let m := qmean l in qsum (map (fun x => fourth (x - m)) l) / qlen l.
Definition ssd_let (l : list Qc) : Qc := let m := qmean l in qsum (map (fun x => sq (x - m)) l).
Definition scd_let (l : list (Qc * Qc)) : Qc :=
  let mx := qmean (map fst l) in let my := qmean (map snd l) in
  qsum (map (fun p => (fst p - mx) * (snd p - my)) l).

Definition wstat_of (win : list Qc) : wstat :=
  {| ws_sum := qsum win; ws_m1 := qmean win; ws_m2 := qmean (map sq win); ws_m3 := qmean (map cube win);
     ws_m4 := qmean (map fourth win); ws_mu2 := mu2_let win; ws_mu3 := mu3_let win; ws_mu4 := mu4_let win |}.
Definition wstat0 : wstat := wstat_of [].

Inductive mv_op := OpSum | OpMean | OpVar | OpStd | OpSkew | OpKurt.

Local Open Scope Q_scope.
Definition K64 : Q := 64 * u64.
Definition qa (x : Qc) : Q := Qabs' (this x).
Definition Qlt_bool' (a b : Q) : bool := negb (Qle_bool b a).

(* lo^2 <= r^2 * den <= hi^2 with lo = max(0, |num| - e) * (1 - rho), hi = (|num| + e) * (1 + 2 rho); sign of r = sign of num
   when |num| > e.  Vacuous (true) when rho >= 1/2: the float denominator cannot be told from zero. *)
Definition ratio_close (r num e den rho : Q) : bool :=
  if Qle_bool (1 # 2) rho then true
  else
    let an := Qabs' num in
    let lo := (if Qle_bool an e then 0 else an - e) * (1 - rho) in
    let hi := (an + e) * (1 + 2 * rho) in
    let v := r * r * den in
    Qle_bool (lo * lo) v && Qle_bool v (hi * hi)
    && (Qle_bool an e || (if Qlt_bool' 0 num then Qlt_bool' 0 r else Qlt_bool' r 0)).

(* does the observed float [r] equal statistic [op] of the window with naive statistics [s] ? *)
Definition mv_match (op : mv_op) (s : wstat) (r : fval) : bool :=
  let m1 := this (ws_m1 s) in let m2 := this (ws_m2 s) in let m3 := this (ws_m3 s) in let m4 := this (ws_m4 s) in
  let v := this (ws_mu2 s) in
  let kv := m2 + m1 * m1 in                   (* magnitude of the terms of m2 - m1^2 *)
  let ev := K64 * kv in
  match op with
  | OpSum => fval_eq_q r (this (ws_sum s))                             (* dyadic inputs: float64 sums are exact *)
  | OpMean => fval_matches (4 * u64) 0 r (Some m1)
  | OpVar => match fval_q r with Some x => q_close_abs ev x v | None => false end
  | OpStd => match fval_q r with Some x => Qle_bool 0 x && q_close_abs (2 * ev) (x * x) v | None => false end
  | OpSkew =>
    if Qeq_bool v 0 then is_nan r
    else match fval_q r with
         | Some x =>
           let e := K64 * (Qabs' m3 + 3 * Qabs' m1 * kv + Qabs' m1 * m1 * m1) in
           ratio_close x (this (ws_mu3 s)) e (v * v * v) (2 * ev / v + K64)
         | None => false
         end
  | OpKurt =>
    if Qeq_bool v 0 then is_nan r
    else match fval_q r with
         | Some x =>
           let e := K64 * (Qabs' m4 + 4 * Qabs' m3 * Qabs' m1 + 6 * kv * m1 * m1 + 3 * m1 * m1 * m1 * m1) in
           let rho := 4 * ev / v + K64 in
           let mu4 := this (ws_mu4 s) in
           if Qle_bool (1 # 2) rho then true
           else q_close_abs (e * (1 + 2 * rho) + 2 * rho * Qabs' mu4 + K64 * (Qabs' x + 3) * v * v) ((x + 3) * v * v) mu4
         | None => false
         end
  end.
Local Close Scope Q_scope.

Definition ops_all : list mv_op := [OpSum; OpMean; OpVar; OpStd; OpSkew; OpKurt].


Record mv_case := {
  mv_shape : list nat;
  mv_axis : nat;                          (* normalised to 0 .. ndim-1 by the harness *)
  mv_w : nat;
  mv_in : list fval;                      (* C-order flat input, exact *)
  mv_obs : list (mv_op * (list nat * list fval))   (* the operators called, each with the observed (shape, C-order flat) *)
}.

Definition mv_stats (c : mv_case) : option (list wstat) :=
  match sequence (map fval_qc (mv_in c)) with
  | Some flat =>
    let shape := mv_shape c in let axis := mv_axis c in let w := mv_w c in
    let L := len_of shape axis in
    Some (along_axis wstat0 (fun ln => map wstat_of (windows w ln)) (L + 1 - w) shape axis flat)
  | None => None
  end.

Definition mv_check (c : mv_case) : bool :=
  let shape := mv_shape c in let axis := mv_axis c in let w := mv_w c in
  let L := len_of shape axis in
  (axis <? length shape)%nat && (1 <=? w)%nat && (w <=? L)%nat
  && (length (mv_in c) =? prodn shape)%nat
  && match mv_stats c with
     | Some stats =>
       let oshape := replace_nth axis (L + 1 - w)%nat shape in
       (1 <=? length (mv_obs c))%nat
       && forallb (fun e => natlist_eqb oshape (fst (snd e)) && forallb2 (mv_match (fst e)) stats (snd (snd e))) (mv_obs c)
     | None => false
     end.

(* the expected sum / mean / variance of every window, for the replay files *)
Definition mv_expected (c : mv_case) : option (list (Q * Q * Q * Q * Q)) :=
  match mv_stats c with
  | Some stats => Some (map (fun s => (this (ws_sum s), this (ws_m1 s), this (ws_mu2 s), this (ws_mu3 s), this (ws_mu4 s))) stats)
  | None => None
  end.

(* ---------------------------------------------------------------- pattern detection *)
Record pd_case := {                        (* None = that score was not asked for in this call *)
  pd_x : list fval; pd_y : list fval;
  pd_corr : option (list fval); pd_dist : option (list fval); pd_bcdc : option (list fval)
}.
Definition opt_forallb2 {A B} (f : A -> B -> bool) (l : list A) (o : option (list B)) : bool :=
  match o with Some l' => forallb2 f l l' | None => true end.

Definition is_nonfinite (v : fval) : bool := is_nan v || is_inf v.

Local Open Scope Q_scope.
Definition corr_match (n : nat) (y win : list Qc) (r : fval) : bool :=
  let '(num, dx, dy) := (scd_let (combine win y), ssd_let win, ssd_let y) in       (* = pearson_triple win y *)
  let num := this num in let dx := this dx in let dy := this dy in
  if Qeq_bool dx 0 || Qeq_bool dy 0 then is_nonfinite r          (* undefined: 0/0 or eps/0 in floating point *)
  else match fval_q r with
       | Some x =>
         let nq := inject_Z (Z.of_nat n) in
         let ex := this (qmean win) in let ey := this (qmean y) in
         let e := K64 * (qa (dot win y) + nq * Qabs' ex * Qabs' ey) in
         let edx := K64 * (this (qsum (map sq win)) + nq * ex * ex) in
         let edy := K64 * (this (qsum (map sq y)) + nq * ey * ey) in
         ratio_close x num e (dx * dy) (edx / dx + edy / dy + K64)
       | None => false
       end.

Definition dist_match (y win : list Qc) (r : fval) : bool :=
  match fval_q r with
  | Some x =>
    let kk := this (qsum (map sq win)) + this (qsum (map sq y)) + 2 * qa (dot win y) in
    Qle_bool 0 x && q_close_abs (2 * K64 * kk) (x * x) (this (sqdist win y))
  | None => false
  end.

Definition bcdc_match (n : nat) (y win : list Qc) (r : fval) : bool :=
  let '(num, den) := (mu2_let (vdiff win y), mu2_let (vsum win y)) in                  (* = bcdc_pair win y *)
  let num := this num in let den := this den in
  if Qeq_bool den 0 then (if Qeq_bool num 0 then is_nan r else match r with PInf => true | _ => false end)
  else match fval_q r with
       | Some x =>
         let nq := inject_Z (Z.of_nat n) in
         let kk := (this (qsum (map sq win)) + this (qsum (map sq y)) + 2 * qa (dot win y)) / nq
                   + ((qa (qsum win) + qa (qsum y)) / nq) * ((qa (qsum win) + qa (qsum y)) / nq) in
         let e := K64 * kk in
         let rho := 2 * e / den + K64 in
         if Qle_bool (1 # 2) rho then true
         else Qle_bool 0 x && q_close_abs (e + (num + e) * 2 * rho) (x * x * den) num
       | None => false
       end.
Local Close Scope Q_scope.

Definition pd_check (c : pd_case) : bool :=
  match sequence (map fval_qc (pd_x c)), sequence (map fval_qc (pd_y c)) with
  | Some x, Some y =>
    let n := length y in
    let wins := windows n x in
    (1 <=? n)%nat && (n <? length x)%nat
    && opt_forallb2 (corr_match n y) wins (pd_corr c)
    && opt_forallb2 (dist_match y) wins (pd_dist c)
    && opt_forallb2 (bcdc_match n y) wins (pd_bcdc c)
    && match pd_corr c, pd_dist c, pd_bcdc c with None, None, None => false | _, _, _ => true end
  | _, _ => false
  end.

Definition pd_expected (c : pd_case) : option (list (Q * Q * Q * Q * (Q * Q))) :=
  match sequence (map fval_qc (pd_x c)), sequence (map fval_qc (pd_y c)) with
  | Some x, Some y =>
    Some (map (fun win => let '(a, b, e) := pearson_triple win y in let '(f, g) := bcdc_pair win y in
                          (this a, this b, this e, this (sqdist win y), (this f, this g))) (windows (length y) x))
  | _, _ => None
  end.

(* ---------------------------------------------------------------- pad *)
Record pad_case := {
  pa_shape : list nat; pa_in : list Z; pa_target : list nat; pa_offs : list nat; pa_with : Z;
  pa_obs : option (list Z)                 (* None = the code raised ValueError *)
}.
Definition pad_check (c : pad_case) : bool :=
  (length (pa_in c) =? prodn (pa_shape c))%nat
  && option_eqb zlist_eqb (pad (pa_shape c) (pa_in c) (pa_target c) (pa_offs c) (pa_with c)) (pa_obs c).
Definition pad_expected (c : pad_case) := pad (pa_shape c) (pa_in c) (pa_target c) (pa_offs c) (pa_with c).

(* ---------------------------------------------------------------- extract_around_indexes *)
Inductive exmode := ExStack | ExConcat | ExAverage.
Record ex_case := {
  ex_data : list fval; ex_prec : prec; ex_idx : list Z; ex_before : nat; ex_after : nat; ex_mode : exmode;
  ex_obs : option (list nat * list fval)   (* None = the code raised IndexError *)
}.

Definition ex_check (c : ex_case) : bool :=
  match sequence (map fval_qc (ex_data c)) with
  | Some data =>
    let B := (ex_before c + ex_after c + 1)%nat in
    let K := length (ex_idx c) in
    match extract data (ex_idx c) (ex_before c) (ex_after c), ex_obs c with
    | None, None => true
    | Some rows, Some (shape, flat) =>
      match ex_mode c with
      | ExStack => natlist_eqb shape [K; B] && forallb2 (fun v q => fval_eq_q v (this q)) flat (concat rows)
      | ExConcat => natlist_eqb shape [(K * B)%nat] && forallb2 (fun v q => fval_eq_q v (this q)) flat (concat rows)
      | ExAverage =>
        natlist_eqb shape [B]
        && forallb2 (fun v j => if (K =? 0)%nat then is_nan v
                                else fval_matches (4 * uround (ex_prec c))%Q 0%Q v (Some (this (qmean (map (fun r => nth j r 0) rows)))))
                    flat (seq 0 B)
      end
    | _, _ => false
    end
  | None => false
  end.

Definition ex_expected (c : ex_case) : option (list (list Q)) :=
  match sequence (map fval_qc (ex_data c)) with
  | Some data => match extract data (ex_idx c) (ex_before c) (ex_after c) with
                 | Some rows => Some (map (map this) rows) | None => None end
  | None => None
  end.

(* ================================================================ count / size boundaries (255 .. 65536)
   Large inputs and observations are given run-length encoded (value, count) - the data are built from a few repeated
   values - and expanded here; the checks above are then applied to the expanded case unchanged. *)
Definition expand {A} (wl : list (A * N)) : list A := flat_map (fun p => repeat (fst p) (N.to_nat (snd p))) wl.
Definition nats (l : list N) : list nat := map N.to_nat l.

Record mv_large := {
  ml_shape : list N; ml_axis : nat; ml_w : N; ml_in : list (fval * N);
  ml_obs : list (mv_op * (list N * list (fval * N)))
}.
Definition mv_of_large (c : mv_large) : mv_case :=
  {| mv_shape := nats (ml_shape c); mv_axis := ml_axis c; mv_w := N.to_nat (ml_w c); mv_in := expand (ml_in c);
     mv_obs := map (fun e => (fst e, (nats (fst (snd e)), expand (snd (snd e))))) (ml_obs c) |}.
Definition mv_large_check (c : mv_large) : bool := mv_check (mv_of_large c).

Record pd_large := {
  pl_x : list (fval * N); pl_y : list (fval * N);
  pl_corr : option (list (fval * N)); pl_dist : option (list (fval * N)); pl_bcdc : option (list (fval * N))
}.
Definition oexpand {A} (o : option (list (A * N))) : option (list A) :=
  match o with Some l => Some (expand l) | None => None end.
Definition pd_of_large (c : pd_large) : pd_case :=
  {| pd_x := expand (pl_x c); pd_y := expand (pl_y c);
     pd_corr := oexpand (pl_corr c); pd_dist := oexpand (pl_dist c); pd_bcdc := oexpand (pl_bcdc c) |}.
Definition pd_large_check (c : pd_large) : bool := pd_check (pd_of_large c).

Record pad_large := {
  pal_shape : list N; pal_in : list (Z * N); pal_target : list N; pal_offs : list N; pal_with : Z;
  pal_obs : option (list (Z * N))
}.
Definition pad_of_large (c : pad_large) : pad_case :=
  {| pa_shape := nats (pal_shape c); pa_in := expand (pal_in c); pa_target := nats (pal_target c); pa_offs := nats (pal_offs c);
     pa_with := pal_with c; pa_obs := oexpand (pal_obs c) |}.
Definition pad_large_check (c : pad_large) : bool := pad_check (pad_of_large c).

Record ex_large := {
  exl_data : list (fval * N); exl_prec : prec; exl_idx : list (Z * N); exl_before : nat; exl_after : nat; exl_mode : exmode;
  exl_obs : option (list N * list (fval * N))
}.
Definition ex_of_large (c : ex_large) : ex_case :=
  {| ex_data := expand (exl_data c); ex_prec := exl_prec c; ex_idx := expand (exl_idx c); ex_before := exl_before c;
     ex_after := exl_after c; ex_mode := exl_mode c;
     ex_obs := match exl_obs c with Some so => Some (nats (fst so), expand (snd so)) | None => None end |}.
Definition ex_large_check (c : ex_large) : bool := ex_check (ex_of_large c).
