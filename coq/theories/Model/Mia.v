(* Model/Mia.v — spec and impl-model of scared/distinguishers/mia.py (property C13).
   Executable definitions only; the proofs are in Proofs/Mia.v (and Proofs/MiaReal.v for the real-number part).

   Conventions.  Samples and bin edges are exact rationals [Qc] (every float is one); intermediate values are [Z];
   counts are [Z]; probabilities and the result are [Qc].  One *entry* of the distinguisher is one (word, sample)
   pair: its state is the joint histogram hist[bin][class], a zero-padded list of zero-padded lists, so that the
   accumulator is a monoid with Leibniz equality and no shape hypothesis (tools/DEV.md, addendum).

   External behaviour:
   - the float bin-index estimate int((x - min) * nbins / (max - min)) is a Section variable [est : Qc -> nat]
     (ANY function; it is a natural number because the code evaluates it only when x >= min);
   - x |-> x ln x is a Section variable [phi] (ANY function) in the mutual-information formula. *)
From Coq Require Import ZArith QArith Qcanon Qround List Bool Lia.
From ScaredV Require Import Run.Compare Lib.QcSum Model.Accum.
Import ListNotations.
Local Open Scope Qc_scope.

(* ------------------------------------------------------------------------------------------ comparisons *)
Definition Qcltb (a b : Qc) : bool := match a ?= b with Lt => true | _ => false end.
Definition Qcleb (a b : Qc) : bool := match a ?= b with Gt => false | _ => true end.
Definition Qceqb (a b : Qc) : bool := match a ?= b with Eq => true | _ => false end.
Definition Qcabs' (a : Qc) : Qc := if Qcleb 0 a then a else - a.

(* ------------------------------------------------------------------------------------------ bin index *)
Definition edge (edges : list Qc) (i : nat) : Qc := nth i edges 0.
Definition nbins (edges : list Qc) : nat := (length edges - 1)%nat.

(* strictly increasing edge list (what the bin_edges setter enforces with `if not a < b: raise`) *)
Definition increasing (edges : list Qc) : Prop :=
  forall i, (S i < length edges)%nat -> edge edges i < edge edges (S i).

Section Bin.
  Variable edges : list Qc.
  Variable est : Qc -> nat.

  (* while bin_idx > 0 and x < edges[bin_idx]: bin_idx -= 1 *)
  Fixpoint settle_down (x : Qc) (b : nat) : nat :=
    match b with
    | O => O
    | S b' => if Qcltb x (edge edges (S b')) then settle_down x b' else S b'
    end.

  (* while bin_idx < nbins - 1 and x >= edges[bin_idx + 1]: bin_idx += 1
     [fuel] = nbins - 1 - bin_idx at the entry of the loop; when it reaches 0 the loop test is false anyway
     (Proofs/Mia.v: settle_up_fuel — more fuel never changes the result). *)
  Fixpoint settle_up (x : Qc) (fuel b : nat) : nat :=
    match fuel with
    | O => b
    | S f => if Nat.ltb b (nbins edges - 1) && Qcleb (edge edges (S b)) x then settle_up x f (S b) else b
    end.

  (* _accumulate_core, the part that chooses the bin; None = `continue` (the sample is skipped) *)
  Definition bin_index (x : Qc) : option nat :=
    let nb := nbins edges in
    let lo := edge edges 0 in
    let hi := edge edges nb in
    if Qcleb lo x && Qcltb x hi then
      let b0 := est x in
      let b1 := if Nat.ltb (nb - 1) b0 then (nb - 1)%nat else b0 in
      let b2 := settle_down x b1 in
      Some (settle_up x (nb - 1 - b2) b2)
    else if Qceqb x hi then Some (nb - 1)%nat
    else None.

  (* spec: numpy.histogram's rule — half-open bins [e_b, e_b+1), the last one closed *)
  Definition in_bin (x : Qc) (b : nat) : Prop :=
    (b < nbins edges)%nat /\ edge edges b <= x
    /\ (x < edge edges (S b) \/ (S b = nbins edges /\ x = edge edges (S b))).

  Definition in_binb (x : Qc) (b : nat) : bool :=
    Qcleb (edge edges b) x
    && (Qcltb x (edge edges (S b)) || (Nat.eqb (S b) (nbins edges) && Qceqb x (edge edges (S b)))).

  Definition bin_spec (x : Qc) : option nat := find (in_binb x) (seq 0 (nbins edges)).
End Bin.

(* the estimate in exact arithmetic: floor((x - min) * nbins / (max - min))  (used by the correspondence check as ONE
   instance of [est]; the theorems hold for all of them) *)
Definition est_exact (edges : list Qc) (x : Qc) : nat :=
  let nb := nbins edges in
  let q := (x - edge edges 0) * Q2Qc (inject_Z (Z.of_nat nb)) / (edge edges nb - edge edges 0) in
  Z.to_nat (Qfloor q).

(* ------------------------------------------------------------------------------------------ class look-up table *)
(* _build_lut: lut[partitions[i]] = i for i = 0, 1, ... : the LAST declaration of a value wins; undeclared -> None (-1) *)
Fixpoint class_from (parts : list Z) (i : nat) (v : Z) : option nat :=
  match parts with
  | [] => None
  | p :: r => match class_from r (S i) v with
              | Some k => Some k
              | None => if Z.eqb p v then Some i else None
              end
  end.
Definition class_of (parts : list Z) (v : Z) : option nat := class_from parts 0 v.

(* ------------------------------------------------------------------------------------------ zero-padded tables *)
Fixpoint padd {A} (op : A -> A -> A) (l1 l2 : list A) : list A :=
  match l1, l2 with
  | [], l => l
  | l, [] => l
  | a :: r1, b :: r2 => op a b :: padd op r1 r2
  end.

Definition st := list (list Z).                         (* hist[bin][class] of one (word, sample) entry *)
Definition st_zero : st := [].
Definition st_plus (s t : st) : st := padd (padd Z.add) s t.
Definition get (t : st) (b k : nat) : Z := nth k (nth b t []) 0%Z.
Definition unit_at (b k : nat) : st := repeat [] b ++ [repeat 0%Z k ++ [1%Z]].

Definition row := (Qc * Z)%type.                        (* (sample value, intermediate value) of one trace *)

(* spec side: a trace is tagged with (bin of its sample, class of its value); a cell counts the traces carrying its tag *)
Definition tag_hits (b k : nat) (t : option nat * option nat) : bool :=
  match t with
  | (Some b', Some k') => Nat.eqb b' b && Nat.eqb k' k
  | _ => false
  end.
Definition count_tags (tags : list (option nat * option nat)) (b k : nat) : Z :=
  Z.of_nat (length (filter (tag_hits b k) tags)).

Section Hist.
  Variable edges : list Qc.
  Variable est : Qc -> nat.
  Variable parts : list Z.

  (* the innermost statement: accumulators[sample, bin, class, word] += 1, guarded by `continue` and `!= -1` *)
  Definition contrib (r : row) : st :=
    match bin_index edges est (fst r), class_of parts (snd r) with
    | Some b, Some k => unit_at b k
    | _, _ => st_zero
    end.

  Definition hist_bsum (rows : list row) : st := bsum st row st_zero st_plus contrib rows.
  Definition hist_feed (batches : list (list row)) : st := feed st row st_zero st_plus contrib st_zero batches.

  (* spec: the number of traces whose sample lies in bin b and whose value is class k *)
  Definition row_tag (r : row) : option nat * option nat := (bin_spec edges (fst r), class_of parts (snd r)).
  Definition hist_spec (rows : list row) (b k : nat) : Z := count_tags (map row_tag rows) b k.
End Hist.

(* ------------------------------------------------------------------------------------------ mutual information *)
(* The formula of _compute for one entry, over an arbitrary carrier T (instantiated with Qc here and with R in
   Proofs/MiaReal.v), for an arbitrary [phi] standing for x |-> x ln x.  [bs], [vs] are the lists of bin and class
   indices that are summed over (all of them: seq 0 nbins, seq 0 nclasses). *)
Section MiGen.
  Variable T : Type.
  Variables t0 t1 : T.
  Variables tadd tsub tmul tdiv : T -> T -> T.
  Variable is0 : T -> bool.
  Variable ofz : Z -> T.
  Variable phi : T -> T.
  Variable t : st.
  Variables bs vs : list nat.

  Definition tsum (l : list T) : T := fold_right tadd t0 l.
  Definition nz (s : T) : T := if is0 s then t1 else s.                 (* s[s == 0] = 1 ; pdfs[pdfs == 0] = 1 *)
  Definition phiz (p : T) : T := phi (nz p).                            (* pdfs * log(pdfs) after the replacement *)

  Definition cnt (b v : nat) : T := ofz (get t b v).                    (* accumulators[s, b, v, w] *)
  Definition cb (b : nat) : T := tsum (map (cnt b) vs).                 (* background = accumulators.sum(axis=2) *)
  Definition cv (v : nat) : T := tsum (map (fun b => cnt b v) bs).      (* histos_sums = accumulators.sum(axis=1) *)
  Definition total : T := tsum (map cb bs).                             (* background.sum(axis=1) *)

  (* res = sum_v ( sum_b [ real(b, v) - expected(b) ] ) * ratios(v) *)
  Definition mi_code : T :=
    let tot := total in
    let nzt := nz tot in
    tsum (map (fun v =>
      let cvv := cv v in
      let nzc := nz cvv in
      tmul (tsum (map (fun b => tsub (phiz (tdiv (cnt b v) nzc)) (phiz (tdiv (cb b) nzt))) bs))
           (tdiv cvv tot)) vs).

  (* spec: entropies with probabilities estimated by counts, H_phi = - sum phi(p) *)
  Definition HB : T := tsub t0 (tsum (map (fun b => phi (tdiv (cb b) total)) bs)).
  Definition HBV : T :=
    tsub t0 (tsum (map (fun v => tmul (tdiv (cv v) total) (tsum (map (fun b => phi (tdiv (cnt b v) (cv v))) bs))) vs)).
  Definition mi_spec : T := tsub HB HBV.
End MiGen.

(* the Qc instance *)
Definition q_is0 (x : Qc) : bool := Qceqb x 0.
Definition q_phiz (phi : Qc -> Qc) : Qc -> Qc := phiz Qc 1 q_is0 phi.
Definition q_cnt := cnt Qc qz.
Definition q_cb := cb Qc 0 Qcplus qz.
Definition q_cv := cv Qc 0 Qcplus qz.
Definition q_total := total Qc 0 Qcplus qz.
Definition q_mi_code := mi_code Qc 0 1 Qcplus Qcminus Qcmult Qcdiv q_is0 qz.
Definition q_HB := HB Qc 0 Qcplus Qcminus Qcdiv qz.
Definition q_HBV := HBV Qc 0 Qcplus Qcminus Qcmult Qcdiv qz.
Definition q_mi_spec := mi_spec Qc 0 Qcplus Qcminus Qcmult Qcdiv qz.

(* emptiness of a bin / a class of a table, relative to the indices summed over *)
Definition bin_empty (t : st) (vs : list nat) (b : nat) : bool := forallb (fun v => Z.eqb (get t b v) 0) vs.
Definition class_empty (t : st) (bs : list nat) (v : nat) : bool := forallb (fun b => Z.eqb (get t b v) 0) bs.

(* compute() of one entry: None = NaN (no sample of the entry fell inside the edges: 0/0) *)
Definition comp (phi : Qc -> Qc) (nb nc : nat) (s : st) : option Qc :=
  let bs := seq 0 nb in let vs := seq 0 nc in
  if q_is0 (q_total s bs vs) then None else Some (q_mi_code phi s bs vs).

(* ------------------------------------------------------------------------------------------ bin_edges setter *)
Fixpoint sortedb (l : list Qc) : bool :=
  match l with
  | a :: ((b :: _) as r) => Qcltb a b && sortedb r
  | _ => true
  end.
Fixpoint diffs (l : list Qc) : list Qc :=
  match l with
  | a :: ((b :: _) as r) => (b - a) :: diffs r
  | _ => []
  end.
(* true = accepted; false = ValueError (too short / not sorted / not uniform within [tol]) *)
Definition edges_ok (tol : Qc) (l : list Qc) : bool :=
  Nat.leb 2 (length l) && sortedb l && forallb (fun d => Qcleb (Qcabs' d) tol) (diffs (diffs l)).

(* the test as found before commit 5ac659a: sum(diff(diff(edges))) > tol  (kept for the refutation Example) *)
Definition edges_ok_as_found (tol : Qc) (l : list Qc) : bool :=
  Nat.leb 2 (length l) && sortedb l && Qcleb (qsum (diffs (diffs l))) tol.

Definition mia_tol : Qc := Q2Qc (Qmake 1 1000000000).       (* 1e-9 *)

(* ------------------------------------------------------------------------------------------ correspondence cases *)
Fixpoint all_some {A} (l : list (option A)) : option (list A) :=
  match l with
  | [] => Some []
  | None :: _ => None
  | Some x :: r => match all_some r with Some r' => Some (x :: r') | None => None end
  end.

(* ln k for k = 1 .. length tab, as the harness computed them with math.log; [phi_ln tab p] = p * ln p for a
   probability p = a/b with a, b <= length tab.  Outside the table: a value that fails every comparison. *)
Definition ln_lookup (tab : list Qc) (k : Z) : Qc :=
  match k with
  | Zpos p => nth (Pos.to_nat p - 1) tab (Q2Qc (inject_Z 1000000))
  | _ => Q2Qc (inject_Z 1000000)
  end.
Definition phi_ln (tab : list Qc) (p : Qc) : Qc :=
  p * (ln_lookup tab (Qnum p) - ln_lookup tab (Zpos (Qden p))).

Record mia_case := {
  mc_edges : list fval;                                (* bin_edges given to the constructor (accepted by it) *)
  mc_parts : list Z;                                   (* partitions *)
  mc_batches : list (list (list fval * list Z));       (* update() calls: rows (samples of the trace, data words) *)
  mc_ns : nat;                                         (* samples per trace *)
  mc_nw : nat;                                         (* data words (flattened) *)
  mc_ln : list fval;                                   (* ln 1 .. ln n *)
  mc_f32 : bool;                                       (* accumulators/compute in float32 *)
  mc_obs_acc : list (list (list (list Z)));            (* accumulators [sample][bin][class][word] *)
  mc_obs_res : list (list fval)                        (* compute() [word][sample] *)
}.

(* A float sample that is not a finite number — the markers NaN, PInf, NInf of the export — is in no bin: NaN fails
   both range tests of the kernel (x >= min, x == max), +inf and -inf are beyond the edges.  [bin_index_f] is the kernel on
   exported samples; in the per-entry row lists such traces are dropped, which is the same thing (a skipped trace
   contributes st_zero). *)
Definition bin_index_f (edges : list Qc) (est : Qc -> nat) (v : fval) : option nat :=
  match fval_qc v with Some x => bin_index edges est x | None => None end.

Definition entry_batches (c : mia_case) (s w : nat) : option (list (list row)) :=
  Some (map (fun batch =>
    flat_map (fun r : list fval * list Z =>
      match fval_qc (nth s (fst r) NaN) with
      | Some x => [(x, nth w (snd r) (-1)%Z)]
      | None => []
      end) batch) (mc_batches c)).

(* every trace row carries mc_ns samples and mc_nw data words (so that [nth]'s default is never what is read) *)
Definition rows_well_formed (c : mia_case) : bool :=
  forallb (forallb (fun r : list fval * list Z =>
    Nat.eqb (length (fst r)) (mc_ns c) && Nat.eqb (length (snd r)) (mc_nw c))) (mc_batches c).

Definition obs_acc_get (c : mia_case) (s b k w : nat) : Z :=
  nth w (nth k (nth b (nth s (mc_obs_acc c) []) []) []) (-1)%Z.

(* tolerance of the compute() comparison: float64 arithmetic on probabilities (abs 2^-30 ~ 1e-9); float32
   accumulators make numpy evaluate p ln p in float32: 64 * u32 per bin *)
Definition res_tol (c : mia_case) (nb : nat) : Q :=
  if mc_f32 c then (64 * u32 * inject_Z (Z.of_nat (S nb)))%Q else (Qmake 1 (2 ^ 30))%Q.

Definition entry_check (c : mia_case) (edges : list Qc) (lntab : list Qc) (s w : nat) : bool :=
  let nb := nbins edges in
  let nc := length (mc_parts c) in
  match entry_batches c s w with
  | None => false
  | Some batches =>
      let model := hist_feed edges (est_exact edges) (mc_parts c) batches in
      let tags := map (row_tag edges (mc_parts c)) (concat batches) in      (* = hist_spec, the tags computed once *)
      (* histogram: implementation = impl-model = spec, exactly *)
      forallb (fun b => forallb (fun k =>
          Z.eqb (obs_acc_get c s b k w) (get model b k)
          && Z.eqb (obs_acc_get c s b k w) (count_tags tags b k)) (seq 0 nc)) (seq 0 nb)
      (* compute(): the formula of the model on the model's exact counts *)
      && fval_matches 0 (res_tol c nb) (nth s (nth w (mc_obs_res c) []) PInf)
           (option_map this (comp (phi_ln lntab) nb nc model))
  end.

Definition mia_check (c : mia_case) : bool :=
  match all_some (map fval_qc (mc_edges c)), all_some (map fval_qc (mc_ln c)) with
  | Some edges, Some lntab =>
      edges_ok mia_tol edges
      && rows_well_formed c
      && Nat.eqb (length (mc_obs_acc c)) (mc_ns c)
      && Nat.eqb (length (mc_obs_res c)) (mc_nw c)
      && forallb (fun s => forallb (fun w => entry_check c edges lntab s w) (seq 0 (mc_nw c))) (seq 0 (mc_ns c))
  | _, _ => false
  end.

(* what the model expects, for the replay files: per (sample, word) the table and the result *)
Definition mia_expected (c : mia_case) : list (nat * nat * st * option Q) :=
  match all_some (map fval_qc (mc_edges c)), all_some (map fval_qc (mc_ln c)) with
  | Some edges, Some lntab =>
      flat_map (fun s => map (fun w =>
        match entry_batches c s w with
        | Some batches =>
            let model := hist_feed edges (est_exact edges) (mc_parts c) batches in
            (s, w, model, option_map this (comp (phi_ln lntab) (nbins edges) (length (mc_parts c)) model))
        | None => (s, w, [], None)
        end) (seq 0 (mc_nw c))) (seq 0 (mc_ns c))
  | _, _ => []
  end.

(* constructor acceptance / refusal of an edge list.  The code evaluates diff(diff(edges)) in floating point:
   [slack] = 8 u64 max|e| bounds its rounding error, so an accepted list must pass the exact test with
   tol + slack and a refused one must fail it with tol - slack. *)
Record edges_case := {
  ec_edges : list fval;
  ec_accepted : bool
}.

Definition edges_check (c : edges_case) : bool :=
  match all_some (map fval_qc (ec_edges c)) with
  | None => negb (ec_accepted c)                       (* NaN among the edges: `not a < b` refuses *)
  | Some l =>
      let m := fold_right (fun e a => if Qcleb a (Qcabs' e) then Qcabs' e else a) 0 l in
      let slack := Q2Qc (8 * u64) * m in
      if ec_accepted c then edges_ok (mia_tol + slack) l else negb (edges_ok (mia_tol - slack) l)
  end.

Definition edges_expected (c : edges_case) : option bool :=
  option_map (edges_ok mia_tol) (all_some (map fval_qc (ec_edges c))).

(* ------------------------------------------------------------------------------------------ run-length encoded cases *)
(* Large trace counts (totals beyond the range of a narrow accumulator dtype while every cell fits): a case gives the rows
   with a repetition count; the table of the expanded row list is computed on the runs directly as a weighted sum, which
   is the same table by Proofs/Mia.hist_bsum_w_expand. *)
Definition expand {A} (wl : list (A * positive)) : list A := flat_map (fun p => repeat (fst p) (Pos.to_nat (snd p))) wl.
Definition st_scale (n : Z) (s : st) : st := map (map (Z.mul n)) s.

Definition hist_bsum_w (edges : list Qc) (est : Qc -> nat) (parts : list Z) (runs : list (row * positive)) : st :=
  fold_right (fun r a => st_plus (st_scale (Zpos (snd r)) (contrib edges est parts (fst r))) a) st_zero runs.

Definition count_tags_w (tags : list ((option nat * option nat) * positive)) (b k : nat) : Z :=
  fold_right (fun t a => if tag_hits b k (fst t) then (Zpos (snd t) + a)%Z else a) 0%Z tags.
Definition hist_spec_w (edges : list Qc) (parts : list Z) (runs : list (row * positive)) (b k : nat) : Z :=
  count_tags_w (map (fun r => (row_tag edges parts (fst r), snd r)) runs) b k.

(* ln k for the integers k that occur as numerator / denominator of a probability, as (k, math.log k) pairs *)
Fixpoint ln_assoc (tab : list (Z * Qc)) (k : Z) : Qc :=
  match tab with
  | [] => Q2Qc (inject_Z 1000000)
  | (k', v) :: r => if Z.eqb k k' then v else ln_assoc r k
  end.
Definition phi_ln_assoc (tab : list (Z * Qc)) (p : Qc) : Qc :=
  p * (ln_assoc tab (Qnum p) - ln_assoc tab (Zpos (Qden p))).

Record mia_rl_case := {
  rc_edges : list fval;
  rc_parts : list Z;
  rc_runs : list ((list fval * list Z) * positive);    (* (samples, data words) repeated so many times *)
  rc_ns : nat;
  rc_nw : nat;
  rc_ln : list (Z * fval);
  rc_f32 : bool;
  rc_obs_acc : list (list (list (list Z)));            (* accumulators [sample][bin][class][word] *)
  rc_obs_res : list (list fval)                        (* compute() [word][sample] *)
}.

Definition rl_entry_runs (c : mia_rl_case) (s w : nat) : option (list (row * positive)) :=
  all_some (map (fun r : (list fval * list Z) * positive =>
    match fval_qc (nth s (fst (fst r)) NaN) with
    | Some x => Some ((x, nth w (snd (fst r)) (-1)%Z), snd r)
    | None => None
    end) (rc_runs c)).

Definition rl_model (c : mia_rl_case) (edges : list Qc) (s w : nat) : option st :=
  option_map (hist_bsum_w edges (est_exact edges) (rc_parts c)) (rl_entry_runs c s w).

Definition rl_entry_check (c : mia_rl_case) (edges : list Qc) (lntab : list (Z * Qc)) (s w : nat) : bool :=
  let nb := nbins edges in
  let nc := length (rc_parts c) in
  match rl_entry_runs c s w with
  | None => false
  | Some runs =>
      let model := hist_bsum_w edges (est_exact edges) (rc_parts c) runs in
      let tags := map (fun r : row * positive => (row_tag edges (rc_parts c) (fst r), snd r)) runs in
      let obs b k := nth w (nth k (nth b (nth s (rc_obs_acc c) []) []) []) (-1)%Z in
      forallb (fun b => forallb (fun k =>
          Z.eqb (obs b k) (get model b k) && Z.eqb (obs b k) (count_tags_w tags b k)) (seq 0 nc)) (seq 0 nb)
      && fval_matches 0 (if rc_f32 c then (64 * u32 * inject_Z (Z.of_nat (S nb)))%Q else (Qmake 1 (2 ^ 30))%Q)
           (nth s (nth w (rc_obs_res c) []) PInf)
           (option_map this (comp (phi_ln_assoc lntab) nb nc model))
  end.

Definition ln_pair (p : Z * fval) : option (Z * Qc) :=
  match fval_qc (snd p) with Some v => Some (fst p, v) | None => None end.

Definition mia_rl_check (c : mia_rl_case) : bool :=
  match all_some (map fval_qc (rc_edges c)), all_some (map ln_pair (rc_ln c)) with
  | Some edges, Some lntab =>
      edges_ok mia_tol edges
      && Nat.eqb (length (rc_obs_acc c)) (rc_ns c)
      && Nat.eqb (length (rc_obs_res c)) (rc_nw c)
      && forallb (fun s => forallb (fun w => rl_entry_check c edges lntab s w) (seq 0 (rc_nw c))) (seq 0 (rc_ns c))
  | _, _ => false
  end.

Definition mia_rl_expected (c : mia_rl_case) : list (nat * nat * option st * option Q) :=
  match all_some (map fval_qc (rc_edges c)), all_some (map ln_pair (rc_ln c)) with
  | Some edges, Some lntab =>
      flat_map (fun s => map (fun w =>
        let m := rl_model c edges s w in
        (s, w, m, match m with
                  | Some t => option_map this (comp (phi_ln_assoc lntab) (nbins edges) (length (rc_parts c)) t)
                  | None => None
                  end)) (seq 0 (rc_nw c))) (seq 0 (rc_ns c))
  | _, _ => []
  end.

(* ------------------------------------------------------------------------------------------ configuration histories *)
(* The configuration of a distinguisher: the accepted edges (None: not configured yet, the first update builds
   bins_number + 1 equally spaced edges over the window of its batch) and bins_number.  Assigning an edge list that the
   setter refuses raises and must leave the object as it was: it is a no-op of the model. *)
Record mia_cfg := { cfg_edges : option (list Qc); cfg_bins : nat }.
Definition assign_edges (tol : Qc) (cfg : mia_cfg) (l : list Qc) : mia_cfg :=
  if edges_ok tol l then {| cfg_edges := Some l; cfg_bins := nbins l |} else cfg.
Definition cfg_consistent (cfg : mia_cfg) : Prop :=
  match cfg_edges cfg with Some e => cfg_bins cfg = nbins e | None => True end.

Inductive hop :=
| HSet (l : list fval)                                  (* obj.bin_edges = l, a list / ndarray of floats *)
| HSetBadType                                           (* obj.bin_edges = something that is not a list / ndarray / range *)
| HUpdate (rows : list (list fval * list Z)).           (* obj.update(traces, data) *)

Record mia_history_case := {
  hc_init : list fval;                                  (* edges given to the constructor; [] = none (bins_number only) *)
  hc_bins : nat;                                        (* bins_number given to the constructor *)
  hc_parts : list Z;
  hc_ops : list hop;
  hc_ns : nat; hc_nw : nat; hc_ln : list fval; hc_f32 : bool;
  hc_obs_refused : list bool;                           (* one per HSet / HSetBadType: the assignment raised *)
  hc_obs_edges : list fval;                             (* bin_edges read back at the end *)
  hc_obs_bins : nat;                                    (* bins_number read back at the end *)
  hc_obs_acc : list (list (list (list Z)));
  hc_obs_res : list (list fval)
}.

Definition fvals_qc (l : list fval) : option (list Qc) := all_some (map fval_qc l).
Definition fvals_eqb (a b : list fval) : bool :=
  match fvals_qc a, fvals_qc b with Some x, Some y => list_eqb Qceqb x y | _, _ => false end.

(* state of the fold: configured edges (as exported), bins_number, started?, expected refusals (reversed), updates (reversed), valid? *)
Definition hstate := (option (list fval) * nat * bool * list bool * list (list (list fval * list Z)) * bool)%type.

Definition hstep (readback : list fval) (st : hstate) (o : hop) : hstate :=
  let '(e, k, started, fl, ups, ok) := st in
  match o with
  | HSetBadType => (e, k, started, true :: fl, ups, ok)
  | HSet l =>
      let acc := match fvals_qc l with Some q => edges_ok mia_tol q | None => false end in
      if acc then
        (* an accepted assignment after accumulation has started is outside the model (the generator never does it) *)
        (Some l, (length l - 1)%nat, started, false :: fl, ups, ok && negb started)
      else (e, k, started, true :: fl, ups, ok)
  | HUpdate rows =>
      match e with
      | Some _ => (e, k, true, fl, rows :: ups, ok)
      | None => (* automatic edges: the object must report bins_number + 1 of them *)
          (Some readback, k, true, fl, rows :: ups, ok && Nat.eqb (length readback) (S k))
      end
  end.

Definition hrun (c : mia_history_case) : hstate :=
  fold_left (hstep (hc_obs_edges c))
            (hc_ops c)
            (match hc_init c with [] => None | l => Some l end,
             match hc_init c with [] => hc_bins c | l => (length l - 1)%nat end, false, [], [], true).

Definition history_as_case (c : mia_history_case) (edges : list fval) (ups : list (list (list fval * list Z))) : mia_case :=
  {| mc_edges := edges; mc_parts := hc_parts c; mc_batches := rev ups; mc_ns := hc_ns c; mc_nw := hc_nw c; mc_ln := hc_ln c;
     mc_f32 := hc_f32 c; mc_obs_acc := hc_obs_acc c; mc_obs_res := hc_obs_res c |}.

Definition mia_history_check (c : mia_history_case) : bool :=
  let '(e, k, started, fl, ups, ok) := hrun c in
  match e with
  | None => false
  | Some edges =>
      ok && started
      && list_eqb Bool.eqb (rev fl) (hc_obs_refused c)
      && fvals_eqb edges (hc_obs_edges c)
      && Nat.eqb (hc_obs_bins c) k && Nat.eqb k (length edges - 1)
      && mia_check (history_as_case c edges ups)
  end.

Definition mia_history_expected (c : mia_history_case) :=
  let '(e, k, started, fl, ups, ok) := hrun c in
  (rev fl, k, match e with Some edges => mia_expected (history_as_case c edges ups) | None => [] end).
