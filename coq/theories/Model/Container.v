(* Model/Container.v — model of scared/container.py (properties C02, C08): the slices of _TracesBatchIterable, the
   batch wrapper (frame, then the preprocess chain, metadata from the same sub-set), the batch-size rule of
   Container._compute_batch_size for the three kinds of setting.  Executable definitions only; proofs are in
   Proofs/Container.v. *)
From Coq Require Import ZArith List Bool Lia PeanoNat.
From ScaredV Require Import Run.Compare.
Import ListNotations.
Local Open Scope nat_scope.

(* ---------------------------------------------------------------- _TracesBatchIterable.__init__ : the slices *)
(* a Python slice(start, stop, 1) with stop = an int or None *)
Definition pslice := (nat * option nat)%type.

(* [slice(s*bs, (s+1)*bs, 1) for s in range(N // bs)] + ([slice(N // bs * bs, None, 1)] if N % bs != 0 else []) *)
Definition slices (N bs : nat) : list pslice :=
  map (fun s => (s * bs, Some ((s + 1) * bs))) (seq 0 (N / bs))
  ++ (if N mod bs =? 0 then [] else [(N / bs * bs, None)]).

(* Python slicing xs[a:b] (clip at b, then drop a) and xs[a:] on a list of length >= 0, a, b >= 0 *)
Definition cut {A} (xs : list A) (sl : pslice) : list A :=
  match sl with
  | (a, Some b) => skipn a (firstn b xs)
  | (a, None) => skipn a xs
  end.

(* the sub-sets yielded by iterating over container.batches(bs) *)
Definition batches_of {A} (xs : list A) (bs : nat) : list (list A) := map (cut xs) (slices (length xs) bs).

(* ceil(N / bs) for bs >= 1 *)
Definition ceil_div (N bs : nat) : nat := (N + bs - 1) / bs.

(* ---------------------------------------------------------------- _TracesBatchWrapper *)
(* A trace set is a list of (samples row, metadata) pairs: cutting the list cuts samples and metadata together, which
   is what ths[slice] does.  The frame [fr] acts on one samples row (ths.samples[:, frame] is row-wise); a preprocess
   of the chain is row-wise: a function on one row. *)
Section Wrapper.
  Variables (X M : Type).
  Variable fr : X -> X.
  Variable chain : list (X -> X).

  (* for preprocess in self.preprocesses: samples = preprocess(samples) — list order *)
  Definition chain_row (x : X) : X := fold_left (fun a p => p a) chain x.
  Definition wrapper_samples (sub : list (X * M)) : list X := map (fun r => chain_row (fr (fst r))) sub.
  Definition wrapper_metadatas (sub : list (X * M)) : list M := map snd sub.
End Wrapper.
Arguments chain_row {X} chain x.
Arguments wrapper_samples {X M} fr chain sub.
Arguments wrapper_metadatas {X M} sub.

(* ---------------------------------------------------------------- concrete frames (C-tie) *)
Inductive frame :=
| FAll                                   (* None / Ellipsis *)
| FSlice (start stop step : nat)         (* slice(start, stop, step) and range(start, stop, step), 0 <= start, stop; step >= 1 *)
| FIdx (idx : list nat).                 (* index list / array, repeats allowed *)

Fixpoint every_aux {A} (s k : nat) (l : list A) : list A :=
  match l with
  | [] => []
  | x :: t => match k with O => x :: every_aux s (s - 1) t | S k' => every_aux s k' t end
  end.
(* l[::s] for s >= 1 *)
Definition every {A} (s : nat) (l : list A) : list A := every_aux s 0 l.

Definition select {A} (d : A) (f : frame) (row : list A) : list A :=
  match f with
  | FAll => row
  | FSlice a b s => every s (skipn a (firstn b row))
  | FIdx l => map (fun i => nth i row d) l
  end.

(* the frame is meaningful for a row of this length: step >= 1, every index in range (numpy would raise otherwise) *)
Definition frame_ok (f : frame) (len : nat) : bool :=
  match f with
  | FAll => true
  | FSlice _ _ s => 1 <=? s
  | FIdx l => forallb (fun i => i <? len) l
  end.

(* ---------------------------------------------------------------- a fixed library of row-wise, integer-exact preprocesses (C-tie) *)
Inductive prep := PAdd1 | PReverse | PSquare | PPairProd | PSubFirst | PCumsum | PZeroNan.

(* non-finite samples are carried through the integer model as reserved codes (the harness exports NaN / +inf / -inf so);
   they only occur with chains made of PReverse and PZeroNan, which move or create them but do no arithmetic on them *)
Definition nan_code : Z := 1000001%Z.

Fixpoint zip_mul (a b : list Z) : list Z :=
  match a, b with x :: a', y :: b' => (x * y)%Z :: zip_mul a' b' | _, _ => [] end.
Fixpoint cumsum_from (s : Z) (l : list Z) : list Z :=
  match l with [] => [] | x :: t => (s + x)%Z :: cumsum_from (s + x)%Z t end.

Definition prep_row (p : prep) (x : list Z) : list Z :=
  match p with
  | PAdd1 => map (Z.add 1) x                               (* x + 1 *)
  | PReverse => rev x                                      (* x[:, ::-1] *)
  | PSquare => map (fun v => (v * v)%Z) x                  (* x ** 2 *)
  | PPairProd => zip_mul x (tl x)                          (* x[:, :-1] * x[:, 1:] *)
  | PSubFirst => map (fun v => (v - hd 0%Z x)%Z) x         (* x - x[:, :1] *)
  | PCumsum => cumsum_from 0%Z x                           (* cumsum(x, axis=1) *)
  | PZeroNan => map (fun v => if (v =? 0)%Z then nan_code else v) x   (* where(x == 0, nan, x): a preprocess producing NaN *)
  end.

(* ---------------------------------------------------------------- Container._compute_batch_size *)
(* What set_batch_size stored in Container._BATCH_SIZE:
   BInt n       an int n (set_batch_size refuses n <= 0);
   BTable t     a list of (threshold, size) couples of ints (set_batch_size checks nothing else: neither order, nor signs);
   BMb bytes    a float f > 0, given by bytes = int(f * 2**20). *)
Inductive bs_setting := BInt (n : Z) | BTable (t : list (Z * Z)) | BMb (bytes : Z).

(* for i in range(len(t)):
     try:    if m >= t[i][0] and m < t[i+1][0]: return t[i][1]
     except IndexError: return t[-1][1]
   (falls out of the loop — and the function returns None — when no entry answers; at the last entry the IndexError is
   raised only if m >= t[i][0] holds, because `and` evaluates t[i+1] only then) *)
Fixpoint table_rule (m : Z) (t : list (Z * Z)) : option Z :=
  match t with
  | [] => None
  | (th, v) :: rest =>
      match rest with
      | [] => if (th <=? m)%Z then Some v else None
      | (th', _) :: _ => if ((th <=? m) && (m <? th'))%Z then Some v else table_rule m rest
      end
  end.

(* the largest power of ten <= q, searched upwards from [m] (a power of ten <= q) with [fuel] steps *)
Fixpoint pow10_le (fuel : nat) (m q : Z) : Z :=
  match fuel with
  | O => m
  | S f => if (10 * m <=? q)%Z then pow10_le f (10 * m)%Z q else m
  end.

(* _floor_to_most_significant_digit(num / den), den > 0: 0 below 1, else floor(x / 10^d) * 10^d with d = int(log10(x)).
   Exact integer arithmetic; the code computes the quotient and log10 in float64 (same value whenever num < 2^53 and the
   quotient is not within 1e-13 of a power of ten from below — the harness stays far from both). *)
Definition floor_msd (num den : Z) : Z :=
  let q := (num / den)%Z in
  if (q <? 1)%Z then 0%Z
  else let mult := pow10_le (S (Z.to_nat (Z.log2 q))) 1%Z q in ((q / mult) * mult)%Z.

(* None: the code produces no batch size — it returns None (table without an answering entry: batches() then raises
   TypeError on len(ths) // None) or raises ZeroDivisionError (MB setting on an empty frame). *)
Definition batch_size_rule (s : bs_setting) (trace_size input_size itemsize : Z) : option Z :=
  match s with
  | BInt n => Some n
  | BTable t => table_rule (Z.max trace_size input_size) t
  | BMb bytes => if (input_size * itemsize <=? 0)%Z then None
                 else Some (Z.max (floor_msd bytes (input_size * itemsize)) 10)
  end.

(* what set_batch_size accepts (the float of a BMb setting is > 0, so bytes = int(f * 2**20) >= 0) *)
Definition setting_accepted (s : bs_setting) : Prop :=
  match s with BInt n => (0 < n)%Z | BTable _ => True | BMb bytes => (0 <= bytes)%Z end.
