(* Model/Partitioned.v — spec and impl-model of scared/distinguishers/partitioned.py (property C04; the accumulator part
   is shaped for Model/Accum.v so that C01 / C11 / C12 / C16 can re-use it).  Executable definitions only; the proofs are in
   Proofs/Partitioned.v.

   One ENTRY = one (data word, trace sample) pair.  A [row] is what one trace contributes to an entry: the value of the
   intermediate data word and the sample.  Everything is exact arithmetic over Qc; undefined (NaN) is [None]. *)
From Coq Require Import ZArith QArith Qcanon List Bool Lia.
From ScaredV Require Import Lib.QcSum Run.Compare Model.Accum.
Import ListNotations.
Open Scope Qc_scope.

(* ================================================================ SPEC: statistics over value classes *)

Definition row := (Z * Qc)%type.                     (* (class value of the data word, sample) *)

(* the samples of the traces whose data word has the value [c], in input order *)
Definition group (rows : list row) (c : Z) : list Qc :=
  map snd (filter (fun r => Z.eqb (fst r) c) rows).

Definition nonempty {A} (l : list A) : bool := match l with [] => false | _ :: _ => true end.

(* the non-empty groups of the declared classes, in declaration order *)
Definition groups (parts : list Z) (rows : list row) : list (list Qc) :=
  filter nonempty (map (group rows) parts).

(* between-class and within-class sums of squares; [ssd g] = sum over x in g of (x - mean g)^2  (Lib/QcSum.v) *)
Definition ss_between (gs : list (list Qc)) : Qc :=
  let m := qmean (concat gs) in qsum (map (fun g => qlen g * sq (qmean g - m)) gs).
Definition ss_within (gs : list (list Qc)) : Qc := qsum (map ssd gs).

(* one-way F statistic: between-class mean square (k-1 d.o.f.) over within-class mean square (n-k d.o.f.) *)
Definition F_stat (gs : list (list Qc)) : option Qc :=
  let K := qlen gs in
  let N := qlen (concat gs) in
  if Qc_eq_bool (K - 1) 0 || Qc_eq_bool (N - K) 0 || Qc_eq_bool (ss_within gs) 0 then None
  else Some ((ss_between gs / (K - 1)) / (ss_within gs / (N - K))).

(* NICV: variance of the class means, each class weighted by its share of the traces, over the total variance *)
Definition var_of_class_means (gs : list (list Qc)) : Qc :=
  let N := qlen (concat gs) in
  let m := qmean (concat gs) in
  qsum (map (fun g => (qlen g / N) * sq (qmean g - m)) gs).
Definition total_var (gs : list (list Qc)) : Qc := ssd (concat gs) / qlen (concat gs).
Definition nicv_def (gs : list (list Qc)) : option Qc :=
  if Qc_eq_bool (total_var gs) 0 then None else Some (var_of_class_means gs / total_var gs).

(* SNR: mean over the classes (equal weights) of (class mean - overall mean)^2, over the mean over the classes of the
   class variances *)
Definition snr_signal (gs : list (list Qc)) : Qc :=
  let m := qmean (concat gs) in qsum (map (fun g => sq (qmean g - m)) gs) / qlen gs.
Definition snr_noise (gs : list (list Qc)) : Qc :=
  qsum (map (fun g => ssd g / qlen g) gs) / qlen gs.
Definition snr_def (gs : list (list Qc)) : option Qc :=
  if Qc_eq_bool (snr_noise gs) 0 then None else Some (snr_signal gs / snr_noise gs).

Inductive metric := ANOVA | NICV | SNR.

Definition spec_metric (m : metric) (gs : list (list Qc)) : option Qc :=
  match m with ANOVA => F_stat gs | NICV => nicv_def gs | SNR => snr_def gs end.

(* ================================================================ IMPL-MODEL *)

(* ---------------------------------------------------------------- _build_lut / _define_lut_func
   lut = -1 everywhere (size 2^17); for i in range(len(partitions)): lut[partitions[i]] = i.   Last declaration wins. *)
Definition lut_size : Z := 2 ^ 17.
Definition in_range (v : Z) : bool := (0 <=? v)%Z && (v <? lut_size)%Z.

Fixpoint find_last (parts : list Z) (v : Z) (i : nat) : option nat :=
  match parts with
  | [] => None
  | p :: t => match find_last t v (S i) with
              | Some k => Some k
              | None => if Z.eqb p v then Some i else None
              end
  end.

(* None = the -1 entry: the kernels skip the trace for this word *)
Definition lut (parts : list Z) (v : Z) : option nat :=
  if in_range v then find_last parts v 0 else None.

(* ---------------------------------------------------------------- accumulators of one entry: per class (counters, sum, sum_square)
   as a ZERO-PADDED list (class k = position k; missing positions are (0,0,0)), a commutative monoid with Leibniz laws. *)
Definition triple := (Qc * Qc * Qc)%type.
Definition t_n (t : triple) : Qc := fst (fst t).       (* counters[word, k] *)
Definition t_s (t : triple) : Qc := snd (fst t).       (* sum[sample, word, k] *)
Definition t_q (t : triple) : Qc := snd t.             (* sum_square[sample, word, k] *)
Definition t0 : triple := (0, 0, 0).
Definition tplus (a b : triple) : triple := (t_n a + t_n b, t_s a + t_s b, t_q a + t_q b).

Definition st := list triple.
Definition st_zero : st := [].
Fixpoint st_plus (a b : st) : st :=
  match a, b with
  | [], _ => b
  | _, [] => a
  | x :: a', y :: b' => tplus x y :: st_plus a' b'
  end.

(* one trace: the kernels add (1, x, x*x) to the class of its data value, nothing when the value is undeclared *)
Definition contrib (parts : list Z) (r : row) : st :=
  match lut parts (fst r) with
  | Some k => repeat t0 k ++ [(1, snd r, snd r * snd r)]
  | None => []
  end.

(* one-shot accumulation of a list of rows / of a sequence of update() calls *)
Definition accu (parts : list Z) (rows : list row) : st := bsum st row st_zero st_plus (contrib parts) rows.
Definition feed_batches (parts : list Z) (batches : list (list row)) : st :=
  feed st row st_zero st_plus (contrib parts) st_zero batches.

(* the (counters, sum, sum_square) triple a group of samples should produce *)
Definition triple_of (g : list Qc) : triple := (qlen g, qsum g, qsum (map sq g)).

(* ---------------------------------------------------------------- _compute: read the P = len(partitions) classes, keep counters > 0 *)
Definition classes (P : nat) (s : st) : list triple := map (fun k => nth k s t0) (seq 0 P).
Definition nonzero (t : triple) : bool := match (0 ?= t_n t) with Lt => true | _ => false end.

(* float division as numpy performs it on the non-negative quantities that occur here: x/0 = inf, 0/0 = nan, x/inf = 0 *)
Inductive xq := XF (q : Qc) | XInf | XNaN.
Definition xdiv (a b : xq) : xq :=
  match a, b with
  | XNaN, _ => XNaN
  | _, XNaN => XNaN
  | XInf, XInf => XNaN
  | XInf, XF _ => XInf
  | XF _, XInf => XF 0
  | XF x, XF y => if Qc_eq_bool y 0 then (if Qc_eq_bool x 0 then XNaN else XInf) else XF (x / y)
  end.
(* tmp_result[isinf(tmp_result)] = nan; NaN is None *)
Definition inf_to_nan (v : xq) : option Qc := match v with XF q => Some q | XInf | XNaN => None end.

Definition tot_n (nz : list triple) : Qc := qsum (map t_n nz).     (* number_non_zero *)
Definition tot_s (nz : list triple) : Qc := qsum (map t_s nz).
Definition tot_q (nz : list triple) : Qc := qsum (map t_q nz).

(* The three _compute_metric bodies, on the restricted columns [nz].  The divisions by the class counters are by non-zero
   numbers (restriction); the division by number_non_zero is by zero only when no class is left, where mean = 0/0 = nan
   makes the result nan: that case is the explicit first test.  The other divisions are float divisions [xdiv]. *)
Definition anova_metric (nz : list triple) : xq :=
  let K := qlen nz in                                                  (* total_non_empty_partitions *)
  let N := tot_n nz in
  if Qc_eq_bool N 0 then XNaN else
  let mean := tot_s nz / N in
  let numerator := xdiv (XF (qsum (map (fun t => t_n t * sq (t_s t / t_n t - mean)) nz))) (XF (K - 1)) in
  let denominator := xdiv (XF (qsum (map (fun t => t_q t - sq (t_s t) / t_n t) nz))) (XF (N - K)) in
  xdiv numerator denominator.

Definition nicv_metric (nz : list triple) : xq :=
  let N := tot_n nz in
  if Qc_eq_bool N 0 then XNaN else
  let mean := tot_s nz / N in
  let numerator := qsum (map (fun t => sq (t_s t / t_n t - mean) * (t_n t / N)) nz) in
  let denominator := tot_q nz / N - sq mean in
  xdiv (XF numerator) (XF denominator).

(* P = non_zero_indices.shape[0] = len(partitions), the empty classes included *)
Definition snr_metric (P : Qc) (nz : list triple) : xq :=
  let N := tot_n nz in
  if Qc_eq_bool N 0 then XNaN else
  let mean := tot_s nz / N in
  let numerator := xdiv (XF (qsum (map (fun t => sq (t_s t / t_n t - mean)) nz))) (XF P) in
  let denominator := xdiv (XF (qsum (map (fun t => t_q t / t_n t - sq (t_s t / t_n t)) nz))) (XF P) in
  xdiv numerator denominator.

Definition metric_x (m : metric) (P : Qc) (nz : list triple) : xq :=
  match m with ANOVA => anova_metric nz | NICV => nicv_metric nz | SNR => snr_metric P nz end.

(* compute() of one entry from the table of all P class triples *)
Definition comp_table (m : metric) (tbl : list triple) : option Qc :=
  inf_to_nan (metric_x m (qlen tbl) (filter nonzero tbl)).

(* compute() of one entry from the accumulated state, P = len(partitions) *)
Definition comp (m : metric) (P : nat) (s : st) : option Qc := comp_table m (classes P s).

(* update* ; compute  of one entry *)
Definition run_entry (m : metric) (parts : list Z) (batches : list (list row)) : option Qc :=
  comp m (length parts) (feed_batches parts batches).

(* any history of update() / compute() calls on one entry: the code model is Model/Accum.v's [run] with this accumulator;
   the spec says that each compute() returns the statistic of the rows fed before it *)
Definition run_history (m : metric) (parts : list Z) (h : list (op row)) : list (option Qc) :=
  snd (run st row (option Qc) st_zero st_plus (contrib parts) (comp m (length parts)) st_zero h).

Fixpoint spec_history (m : metric) (parts : list Z) (seen : list row) (h : list (op row)) : list (option Qc) :=
  match h with
  | [] => []
  | Update b :: t => spec_history m parts (seen ++ b) t
  | Compute :: t => spec_metric m (groups parts seen) :: spec_history m parts seen t
  end.

(* ---------------------------------------------------------------- automatic class set (partitions=None), repaired rule (150a6f0):
   ls = [0, 9, 64, 256]; for r in ls: if maxdata < r: break; partitions = arange(r).
   maxdata > 255 and mindata < 0 are refused (ValueError) before. *)
Definition auto_ls : list Z := [0; 9; 64; 256]%Z.
Fixpoint first_above (mx : Z) (ls : list Z) (last : Z) : Z :=
  match ls with
  | [] => last
  | r :: t => if (mx <? r)%Z then r else first_above mx t r
  end.
Definition auto_size (mx : Z) : Z := first_above mx auto_ls 0%Z.
Definition auto_parts (mx mn : Z) : option (list Z) :=
  if (255 <? mx)%Z then None
  else if (mn <? 0)%Z then None
  else Some (map Z.of_nat (seq 0 (Z.to_nat (auto_size mx)))).

(* ================================================================ correspondence check (C-tie) *)

Fixpoint zmax_list (l : list Z) (d : Z) : Z := match l with [] => d | x :: t => Z.max x (zmax_list t x) end.
Fixpoint zmin_list (l : list Z) (d : Z) : Z := match l with [] => d | x :: t => Z.min x (zmin_list t x) end.

(* one trace as the harness exports it: (samples, data words) *)
Definition trace := (list Z * list Z)%type.

Record part_case := {
  pc_metric : metric;
  pc_prec : prec;
  pc_parts : option (list Z);              (* partitions argument; None = automatic *)
  pc_batches : list (list trace);          (* the update() calls, in order *)
  pc_obs_parts : list Z;                   (* .partitions after the updates ([] when the first update raised) *)
  pc_obs : option (list (nat * list (list fval)))
    (* every compute() of the history, in order: (number of update() calls made before it, result as words x samples);
       None = the first update raised ValueError *)
}.

Definition first_batch_data (c : part_case) : list Z :=
  match pc_batches c with b :: _ => concat (map snd b) | [] => [] end.

Definition resolve_parts (c : part_case) : option (list Z) :=
  match pc_parts c with
  | Some p => Some p
  | None => match first_batch_data c with
            | [] => None
            | x :: t => auto_parts (zmax_list (x :: t) x) (zmin_list (x :: t) x)
            end
  end.

Definition entry_rows (w s : nat) (b : list trace) : list row :=
  map (fun r => (nth w (snd r) 0%Z, qz (nth s (fst r) 0%Z))) b.

Definition oqc_eqb (a b : option Qc) : bool :=
  match a, b with Some x, Some y => Qc_eq_bool x y | None, None => true | _, _ => false end.

Definition qcdiv_q (a b : Qc) : Q := this (a / b).

(* (num, den, scale of num, scale of den) of the spec ratio; the scales bound the magnitudes of the terms that are
   added and subtracted on the way to num and den (float error of num <= c.u.scale) *)
Definition sumsq (g : list Qc) : Qc := qsum (map sq g).
Definition spec_parts (m : metric) (gs : list (list Qc)) : Qc * Qc * Qc * Qc :=
  let all := concat gs in
  let A := sumsq all in
  let N := qlen all in
  let K := qlen gs in
  match m with
  | ANOVA => (ss_between gs / (K - 1), ss_within gs / (N - K), A / (K - 1), A / (N - K))
  | NICV => (var_of_class_means gs, total_var gs, A / N, A / N)
  | SNR => let sc := (qsum (map (fun g => sumsq g / qlen g) gs) + K * (A / N)) / K in
           (snr_signal gs, snr_noise gs, sc, sc)
  end.

(* Does the observed float agree with the spec value?  undefined -> NaN required;  defined -> within
   64.u.(snum + v.sden)/den of v = num/den, unless den itself is below the float noise of its own computation
   (then anything but an infinity is accepted). *)
Definition obs_ok (p : prec) (m : metric) (gs : list (list Qc)) (v : fval) : bool :=
  match spec_metric m gs with
  | None => is_nan v
  | Some val =>
      let '(num, den, snum, sden) := spec_parts m gs in
      let u := (64 * uround p)%Q in
      if Qle_bool (this den) (2 * u * this sden)%Q then negb (is_inf v)
      else match v with
           | Fin fm fe => Qle_bool (Qabs' (q_of_fin fm fe - this val)%Q) (u * this ((snum + val * sden) / den))%Q
           | _ => false
           end
  end.

(* one entry of the compute() made after the first [k] updates: the model side is the statistic of that prefix *)
Definition entry_check (c : part_case) (parts : list Z) (k w s : nat) (v : fval) : bool :=
  let bs := map (entry_rows w s) (firstn k (pc_batches c)) in
  let gs := groups (nodup Z.eq_dec parts) (concat bs) in
  obs_ok (pc_prec c) (pc_metric c) gs v
  && oqc_eqb (run_entry (pc_metric c) parts bs) (spec_metric (pc_metric c) gs).

Definition rect_ok (c : part_case) (W S : nat) : bool :=
  forallb (fun b => forallb (fun r => Nat.eqb (length (fst r)) S && Nat.eqb (length (snd r)) W) b) (pc_batches c).

Definition table_check (c : part_case) (parts : list Z) (W S : nat) (kt : nat * list (list fval)) : bool :=
  let '(k, tbl) := kt in
  Nat.leb 1 k && Nat.leb k (length (pc_batches c)) && Nat.eqb (length tbl) W
  && forallb2 (fun w ow => Nat.eqb (length ow) S && forallb2 (fun s v => entry_check c parts k w s v) (seq 0 S) ow)
              (seq 0 W) tbl.

(* EVERY compute() of the history (after each update, repeated at the end) must be the statistic of the rows fed so far *)
Definition part_check (c : part_case) : bool :=
  match resolve_parts c, pc_obs c with
  | None, None => true
  | Some parts, Some obs =>
      let W := match pc_batches c with (r :: _) :: _ => length (snd r) | _ => O end in
      let S := match pc_batches c with (r :: _) :: _ => length (fst r) | _ => O end in
      zlist_eqb parts (pc_obs_parts c)
      && negb (Nat.eqb W 0) && negb (Nat.eqb S 0) && rect_ok c W S
      && negb (Nat.eqb (length obs) 0)
      && forallb (table_check c parts W S) obs
  | _, _ => false
  end.

(* what the spec says for every compute() of a case: (updates before it, words x samples) — printed into replay files *)
Definition part_expected (c : part_case) : option (list Z * list (nat * list (list (option Q)))) :=
  match resolve_parts c, pc_obs c with
  | Some parts, Some obs =>
      let W := match pc_batches c with (r :: _) :: _ => length (snd r) | _ => O end in
      let S := match pc_batches c with (r :: _) :: _ => length (fst r) | _ => O end in
      Some (parts,
            map (fun kt : nat * list (list fval) => let k := fst kt in
              (k, map (fun w => map (fun s =>
                   match spec_metric (pc_metric c)
                           (groups (nodup Z.eq_dec parts) (concat (map (entry_rows w s) (firstn k (pc_batches c))))) with
                   | Some q => Some (this q) | None => None end) (seq 0 S)) (seq 0 W))) obs)
  | _, _ => None
  end.

(* ---------------------------------------------------------------- validation of the hand-written SPEC against reference
   implementations of the textbook statistics (scipy.stats.f_oneway; numpy var / average / mean): not about the code *)
Record ref_case := { rf_metric : metric; rf_groups : list (list Z); rf_obs : fval }.

Definition ref_check (c : ref_case) : bool :=
  let gs := map (map qz) (rf_groups c) in
  match spec_metric (rf_metric c) gs with
  | None => is_nan (rf_obs c) || is_inf (rf_obs c)
  | Some _ => obs_ok F64 (rf_metric c) gs (rf_obs c)
  end.

Definition ref_expected (c : ref_case) : option Q :=
  match spec_metric (rf_metric c) (map (map qz) (rf_groups c)) with Some q => Some (this q) | None => None end.
