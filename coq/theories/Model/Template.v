(* Model/Template.v — spec and impl-model of scared/distinguishers/template.py and scared/analysis/template.py
   (property C14: templates are class means with pooled covariance; matching is Mahalanobis).
   Executable definitions only; the proofs are in Proofs/Template.v.

   Repaired behaviour is modelled (fix commits d6ba958: class means use the true counts; 9ec0cc6: TemplateDPA selects
   the template of the class DECLARED WITH the hypothesis value).

   Shape (tools/DEV.md, addendum): both phases are monoid accumulators for Model/Accum.v
     build   :  st  / st_zero  / st_plus  / contrib parts / comp parts S     (per class: count, sum x, sum x (x) x)
     matching:  mst / mst_zero / mst_plus / mcontrib ...  / mcomp ...        (count, sum over traces of the per-candidate score)
   Per-class tables, vectors and matrices are ZERO-PADDED LISTS (plus pads the shorter list, zero = [], reads use the
   default 0), so the monoid laws hold for all lists, with Leibniz equality, without any shape hypothesis.

   External behaviour: numpy.linalg.pinv.  The matching model is parametric in the matrix P it multiplies with
   (Section variable = whatever pinv returned); the state machine takes [pinv : mat -> mat] as a Section variable. *)
From Coq Require Import ZArith QArith Qcanon List Bool Lia.
From ScaredV Require Import Run.Compare Lib.QcSum Model.Accum.
Import ListNotations.
Local Open Scope Qc_scope.

(* ------------------------------------------------------------------------------------------ vectors and matrices *)
Definition vec := list Qc.
Definition mat := list vec.
Definition vget (v : vec) (j : nat) : Qc := nth j v 0.
Definition mrow (m : mat) (i : nat) : vec := nth i m [].
Definition mget (m : mat) (i j : nat) : Qc := vget (mrow m i) j.
Definition tabulate {A} (n : nat) (f : nat -> A) : list A := map f (seq 0 n).
Fixpoint qnat (n : nat) : Qc := match n with O => 0 | S n' => qnat n' + 1 end.
Definition ten : Qc := Q2Qc (10 # 1).                       (* the score offset of _compute: 10 - scores / processed *)
Definition qle_bool (a b : Qc) : bool := Qle_bool a b.
Definition qabs (a : Qc) : Qc := if qle_bool 0 a then a else - a.

(* zero-padded pointwise sum of two lists *)
Fixpoint zadd {A} (add : A -> A -> A) (a b : list A) {struct a} : list A :=
  match a, b with
  | [], _ => b
  | _, [] => a
  | x :: a', y :: b' => add x y :: zadd add a' b'
  end.
Definition vadd : vec -> vec -> vec := zadd Qcplus.
Definition madd : mat -> mat -> mat := zadd vadd.
Definition outer (x y : vec) : mat := map (fun a => map (fun b => a * b) y) x.     (* x (x) y *)

(* ------------------------------------------------------------------------------------------ class lookup by VALUE
   _build_lut: lut = -1 everywhere, then lut[partitions[i]] = i for i = 0, 1, ... : the LAST declaration of a value wins;
   an undeclared value has no class (the kernels skip -1).  Supported values: 0 <= v < 2^17 (the LUT size). *)
Fixpoint class_index_from (parts : list Z) (v : Z) (i : nat) : option nat :=
  match parts with
  | [] => None
  | p :: r => match class_index_from r v (S i) with
              | Some k => Some k
              | None => if Z.eqb p v then Some i else None
              end
  end.
Definition class_index (parts : list Z) (v : Z) : option nat := class_index_from parts v 0.

(* ------------------------------------------------------------------------------------------ build phase: accumulator *)
(* one class: counters[k], exi[k] (sum of the traces), exxi[k] (sum of the outer products) *)
Record cacc := mkc { c_n : Qc; c_s : vec; c_xx : mat }.
Definition czero : cacc := mkc 0 [] [].
Definition cadd (a b : cacc) : cacc := mkc (c_n a + c_n b) (vadd (c_s a) (c_s b)) (madd (c_xx a) (c_xx b)).

Definition st := list cacc.                       (* table indexed by class position, zero-padded *)
Definition st_zero : st := [].
Definition st_plus : st -> st -> st := zadd cadd.

Definition brow := (Z * vec)%type.                (* one building trace: (intermediate value after the model, samples) *)
Definition contrib (parts : list Z) (r : brow) : st :=
  match class_index parts (fst r) with
  | None => []                                    (* value not declared: the trace is ignored *)
  | Some k => repeat czero k ++ [mkc 1 (snd r) (outer (snd r) (snd r))]
  end.

Definition cget (t : st) (k : nat) : cacc := nth k t czero.
Definition cnt (t : st) (k : nat) : Qc := c_n (cget t k).
Definition csum (t : st) (k j : nat) : Qc := vget (c_s (cget t k)) j.
Definition cxx (t : st) (k i j : nat) : Qc := mget (c_xx (cget t k)) i j.

(* _compute of the build distinguisher *)
Definition qmax1 (n : Qc) : Qc := if qle_bool n 1 then 1 else n.       (* np.maximum(counters, 1) *)
Definition guard2 (n : Qc) : Qc := if qle_bool n 1 then 1 + 1 else n.  (* tmp_counters[tmp_counters <= 1] = 2 *)
Definition template (t : st) (k j : nat) : Qc := csum t k j / qmax1 (cnt t k).
Definition cov_term (t : st) (k i j : nat) : Qc :=
  (cxx t k i j - template t k i * template t k j * cnt t k) / (guard2 (cnt t k) - 1).
Definition pooled (parts : list Z) (t : st) (i j : nat) : Qc :=
  qsum (tabulate (length parts) (fun k => cov_term t k i j)) / qlen parts.
(* out = (templates : K x S, pooled covariance : S x S) *)
Definition comp (parts : list Z) (S : nat) (t : st) : mat * mat :=
  (tabulate (length parts) (fun k => tabulate S (template t k)),
   tabulate S (fun i => tabulate S (pooled parts t i))).

(* Accum.v instances *)
Definition bsumB (parts : list Z) : list brow -> st := bsum st brow st_zero st_plus (contrib parts).
Definition feedB (parts : list Z) : st -> list (list brow) -> st := feed st brow st_zero st_plus (contrib parts).

(* ------------------------------------------------------------------------------------------ build phase: spec *)
(* the building traces whose value is class k *)
Definition in_class (parts : list Z) (k : nat) (r : brow) : bool :=
  match class_index parts (fst r) with Some k' => Nat.eqb k' k | None => false end.
Definition class_rows (parts : list Z) (k : nat) (rows : list brow) : list vec := map snd (filter (in_class parts k) rows).
Definition col (j : nat) (xs : list vec) : list Qc := map (fun x => vget x j) xs.
Definition class_mean (xs : list vec) (j : nat) : Qc := qmean (col j xs).
(* centred cross-product sum  sum_x (x_i - mean_i)(x_j - mean_j) *)
Definition scatter (xs : list vec) (i j : nat) : Qc :=
  qsum (map (fun x => (vget x i - class_mean xs i) * (vget x j - class_mean xs j)) xs).
(* unbiased within-class covariance; UNDEFINED for fewer than two traces: such a class contributes the zero matrix *)
Definition unbiased_cov (xs : list vec) (i j : nat) : Qc :=
  if qle_bool (qlen xs) 1 then 0 else scatter xs i j / (qlen xs - 1).
(* average over the DECLARED classes (empty and singleton classes included in the divisor) *)
Definition spec_pooled (parts : list Z) (rows : list brow) (i j : nat) : Qc :=
  qsum (tabulate (length parts) (fun k => unbiased_cov (class_rows parts k rows) i j)) / qlen parts.

(* ------------------------------------------------------------------------------------------ matching phase *)
Inductive mode := Static | Dpa.        (* TemplateAttack | TemplateDPAAttack *)

(* one matching trace: (hypothesis values after the model, one per candidate — unused by Static; samples) *)
Definition mrowt := (list Z * vec)%type.

(* get_template_index: the template row used for candidate g on this trace *)
Definition sel (m : mode) (parts : list Z) (r : mrowt) (g : nat) : option nat :=
  match m with
  | Static => if Nat.ltb g (length parts) then Some g else None
  | Dpa => match nth_error (fst r) g with Some v => class_index parts v | None => None end
  end.

(* np.dot(d, P) * d, summed:  sum_j (sum_i d_i P_ij) d_j *)
Definition code_form (P : mat) (S : nat) (d : nat -> Qc) : Qc :=
  qsum (tabulate S (fun j => qsum (tabulate S (fun i => d i * mget P i j)) * d j)).
(* the quadratic form  d^T P d = sum_i sum_j d_i P_ij d_j  (squared Mahalanobis distance when P is the inverse covariance) *)
Definition quad (P : mat) (S : nat) (d : nat -> Qc) : Qc :=
  qsum (tabulate S (fun i => qsum (tabulate S (fun j => d i * mget P i j * d j)))).

Definition mst := (Qc * vec)%type.                       (* (processed_traces, _scores) *)
Definition mst_zero : mst := (0, []).
Definition mst_plus (a b : mst) : mst := (fst a + fst b, vadd (snd a) (snd b)).

Section Matching.
  Variable P : mat.                   (* pooled_covariance_inv: ANY matrix *)
  Variable S : nat.                   (* trace length *)
  Variable T : mat.                   (* templates, K x S *)
  Variable m : mode.
  Variable parts : list Z.
  Variable G : nat.                   (* number of candidates: len(partitions) for Static, data.shape[1] for Dpa *)

  Definition dev (r : mrowt) (k : nat) : nat -> Qc := fun j => vget (snd r) j - mget T k j.     (* trace - templates[k] *)
  (* impl-model: contribution of one trace to _scores[g] *)
  Definition row_score (r : mrowt) (g : nat) : Qc :=
    match sel m parts r g with Some k => code_form P S (dev r k) / qnat S | None => 0 end.
  Definition mcontrib (r : mrowt) : mst := (1, tabulate G (row_score r)).
  Definition mcomp (s : mst) : vec := tabulate G (fun g => ten - vget (snd s) g / fst s).
  (* spec: squared distance of one trace to the candidate's template, mean over traces and samples, score *)
  Definition maha (r : mrowt) (g : nat) : Qc :=
    match sel m parts r g with Some k => quad P S (dev r k) | None => 0 end.
  Definition mean_distance (rows : list mrowt) (g : nat) : Qc :=
    qsum (map (fun r => maha r g) rows) / qnat S / qlen rows.
  Definition spec_score (rows : list mrowt) (g : nat) : Qc := ten - mean_distance rows g.

  Definition bsumM : list mrowt -> mst := bsum mst mrowt mst_zero mst_plus mcontrib.
  Definition feedM : mst -> list (list mrowt) -> mst := feed mst mrowt mst_zero mst_plus mcontrib.
End Matching.

(* ------------------------------------------------------------------------------------------ the attack object *)
Record profile := { pf_T : mat; pf_C : mat; pf_P : mat }.      (* templates, pooled_covariance, pooled_covariance_inv *)
Record attack := { a_bst : st;                 (* accumulators of the _build_analysis object *)
                   a_prof : option profile;    (* None = is_build False *)
                   a_mst : mst }.              (* matching accumulators *)
Definition fresh : attack := {| a_bst := st_zero; a_prof := None; a_mst := mst_zero |}.
Inductive outcome := Refused | Done (a : attack).    (* Refused = DistinguisherError, the object is left as it was *)

Section Machine.
  Variable pinv : mat -> mat.         (* numpy.linalg.pinv: external, any function *)
  Variable m : mode.
  Variable parts : list Z.
  Variables S G : nat.

  (* build(): run the build analysis on the building container (given as its batches), copy the profile *)
  Definition do_build (a : attack) (batches : list (list brow)) : attack :=
    let s := feedB parts (a_bst a) batches in
    let TC := comp parts S s in
    {| a_bst := s; a_prof := Some {| pf_T := fst TC; pf_C := snd TC; pf_P := pinv (snd TC) |}; a_mst := a_mst a |}.

  Definition rows_ok (rows : list mrowt) : bool := forallb (fun r => Nat.eqb (length (snd r)) S) rows.

  (* run(container) given as its batches: refused before build, on a trace length different from the building one,
     and when nothing at all has been processed (compute() refuses) *)
  Definition do_run (a : attack) (batches : list (list mrowt)) : outcome :=
    match a_prof a with
    | None => Refused
    | Some p =>
        if rows_ok (concat batches) then
          let s := feedM (pf_P p) S (pf_T p) m parts G (a_mst a) batches in
          if Qc_eq_bool (fst s) 0 then Refused
          else Done {| a_bst := a_bst a; a_prof := a_prof a; a_mst := s |}
        else Refused
    end.

  (* .scores after a run *)
  Definition scores (a : attack) : vec :=
    match a_prof a with Some p => mcomp G (a_mst a) | None => [] end.
End Machine.

(* ------------------------------------------------------------------------------------------ correspondence cases *)
Local Open Scope Z_scope.

Inductive top := OpBuild (bs : list (list (Z * list Z)))            (* build(): batches of (class value, samples) *)
               | OpRun (bs : list (list (list Z * list Z))).        (* run(): batches of (hypothesis values, samples) *)
Inductive tobs := ObsBuild (partitions : list Z) (templates cov pinv : list (list fval))
                | ObsScores (processed : Z) (scores : list fval)
                | ObsRefused.

Record tcase := {
  tc_prec : prec;
  tc_mode : mode;
  tc_parts : list Z;
  tc_S : nat;
  tc_G : nat;
  tc_den : positive;                 (* every sample is z / tc_den *)
  tc_hist : list top;
  tc_obs : list tobs
}.

Definition qd (den : positive) (z : Z) : Qc := Q2Qc (Qmake z den).
Definition brow_of (den : positive) (r : Z * list Z) : brow := (fst r, map (qd den) (snd r)).
Definition mrow_of (den : positive) (r : list Z * list Z) : mrowt := (fst r, map (qd den) (snd r)).

(* value exactly representable with few bits: v * 2^fb is an integer and |v| < 2^mb  (fb + mb significant bits) *)
Definition dyadic_lt (fb mb : Z) (q : Qc) : bool :=
  let n := Qnum q in let d := Zpos (Qden q) in
  Z.eqb ((2 ^ fb) mod d) 0 && Z.ltb (Z.abs n) (2 ^ mb * d).
(* a template: 20 bits (exact in float32 and float64; products t_i t_j n stay below 53 bits for n < 2^13) *)
Definition small_dyadic (q : Qc) : bool := dyadic_lt 10 10 q.
(* a covariance entry: 32 bits *)
Definition small_dyadic_cov (q : Qc) : bool := dyadic_lt 12 20 q.

Definition exactv (v : fval) (q : Qc) : bool := fval_eq_q v q.
Definition closev (tol : Q) (v : fval) (q : Qc) : bool := fval_matches 0 tol v (Some (this q)).
Definition fget (m : list (list fval)) (i j : nat) : fval := nth j (nth i m []) NaN.
Definition shape_ok {A} (m : list (list A)) (r c : nat) : bool :=
  Nat.eqb (length m) r && forallb (fun row => Nat.eqb (length row) c) m.
Definition all2 (r c : nat) (f : nat -> nat -> bool) : bool :=
  forallb (fun i => forallb (fun j => f i j) (seq 0 c)) (seq 0 r).
Definition mat_eqb (r c : nat) (a b : mat) : bool := all2 r c (fun i j => Qc_eq_bool (mget a i j) (mget b i j)).
Definition qmat_of (m : list (list fval)) : option mat :=
  fold_right (fun row acc =>
    match acc, fold_right (fun v a => match a, fval_qc v with Some l, Some q => Some (q :: l) | _, _ => None end) (Some []) row with
    | Some rs, Some r => Some (r :: rs) | _, _ => None end) (Some []) m.
Definition qsumQ (l : list Qc) : Qc := fold_right Qcplus (Q2Qc 0) l.
Definition qmaxabs (S : nat) (m : mat) : Qc :=
  fold_right (fun i a => fold_right (fun j b => let v := qabs (mget m i j) in if qle_bool b v then v else b) a (seq 0 S)) (Q2Qc 0) (seq 0 S).
Definition tiny : Q := Qmake 1 (2 ^ 100).

(* --- build: expected values (spec side) and comparison *)
Definition spec_templates (parts : list Z) (S : nat) (rows : list brow) : mat :=
  tabulate (length parts) (fun k => let xs := class_rows parts k rows in tabulate S (class_mean xs)).
Definition spec_cov (parts : list Z) (S : nat) (rows : list brow) : mat :=
  tabulate S (fun i => tabulate S (spec_pooled parts rows i)).

(* magnitude of the operands of one pooled-covariance entry (conditioning of the subtraction exxi - n t t^T) *)
Definition cov_mag (parts : list Z) (t : st) (i j : nat) : Qc :=
  (qsumQ (tabulate (length parts) (fun k =>
     (qabs (cxx t k i j) + (1 + 1 + 1 + 1) * qabs (template t k i * template t k j * cnt t k)) / (guard2 (cnt t k) - 1)))
   / qlen parts)%Qc.

(* every intermediate of the float64 computation is a small dyadic: the code's result must then be EXACT *)
Definition build_exact (parts : list Z) (S : nat) (t : st) : bool :=
  let K := length parts in
  all2 K S (fun k j => small_dyadic (template t k j))
  && forallb (fun k => all2 S S (fun i j => small_dyadic_cov (cov_term t k i j))) (seq 0 K)
  && all2 S S (fun i j => small_dyadic_cov (pooled parts t i j)).

(* C P C = C up to the backward error of an SVD-based pseudo-inverse: ties P to the pooled covariance
   (vacuous when the estimated conditioning S^2 max|C| max|P| is beyond 2^20) *)
Definition ginverse_ok (S : nat) (C Pm : mat) : bool :=
  let kappa := (qnat S * qnat S * qmaxabs S C * qmaxabs S Pm)%Qc in
  if qle_bool (Q2Qc (inject_Z (2 ^ 20))) kappa then true
  else
    let tol := (Q2Qc (Qmake 1024 (2 ^ 53)) * (1 + kappa) * qnat S * qmaxabs S C + Q2Qc tiny)%Qc in
    let CP := tabulate S (fun i => tabulate S (fun j => qsumQ (tabulate S (fun k => mget C i k * mget Pm k j)%Qc))) in
    all2 S S (fun i j =>
      let v := qsumQ (tabulate S (fun k => mget CP i k * mget C k j)%Qc) in
      qle_bool (qabs (v - mget C i j)%Qc) tol).

Definition check_build (c : tcase) (t : st) (rows : list brow) (o : tobs) : option mat :=
  match o with
  | ObsBuild oparts oT oC oP =>
      let parts := tc_parts c in let S := tc_S c in let K := length parts in
      let u := uround (tc_prec c) in
      let TC := comp parts S t in
      let Tspec := spec_templates parts S rows in
      let Cspec := spec_cov parts S rows in
      match qmat_of oP with
      | None => None
      | Some Pm =>
          if zlist_eqb oparts parts
             && shape_ok oT K S && shape_ok oC S S && shape_ok oP S S
             && mat_eqb K S Tspec (fst TC) && mat_eqb S S Cspec (snd TC)       (* impl-model = spec on this input *)
             && all2 K S (fun k j => let q := mget Tspec k j in
                   if small_dyadic q then exactv (fget oT k j) q
                   else closev (4 * u * this (qabs q) + tiny) (fget oT k j) q)
             && (if (match tc_prec c with F64 => true | F32 => false end) && build_exact parts S t
                 then all2 S S (fun i j => exactv (fget oC i j) (mget Cspec i j))
                 else all2 S S (fun i j => closev (32 * u * this (cov_mag parts t i j) + tiny) (fget oC i j) (mget Cspec i j)))
             && match qmat_of oC with Some Cm => ginverse_ok S Cm Pm | None => false end
          then Some Pm else None
      end
  | _ => None
  end.

(* --- matching: conditioning of one score = the same form with absolute values *)
Definition abs_form (Pm : mat) (S : nat) (T : mat) (r : mrowt) (k : nat) : Qc :=
  let a := fun j => (qabs (vget (snd r) j) + qabs (mget T k j))%Qc in
  qsumQ (tabulate S (fun i => qsumQ (tabulate S (fun j => a i * qabs (mget Pm i j) * a j)%Qc))).
Definition score_tol (c : tcase) (p : profile) (rows : list mrowt) (g : nat) : Q :=
  let S := tc_S c in
  let A := (qsumQ (map (fun r => match sel (tc_mode c) (tc_parts c) r g with
                                 | Some k => abs_form (pf_P p) S (pf_T p) r k | None => Q2Qc 0 end) rows)
            / qnat S / qlen rows)%Qc in
  64 * uround (tc_prec c) * (this A + 10) + tiny.

Definition declared (c : tcase) (rows : list mrowt) : bool :=
  forallb (fun r => forallb (fun g => match sel (tc_mode c) (tc_parts c) r g with Some _ => true | None => false end)
                            (seq 0 (tc_G c))) rows.

(* walk the history: model state [a], all building rows so far, all matched rows so far *)
Fixpoint walk (c : tcase) (a : attack) (brows : list brow) (mrows : list mrowt) (h : list top) (o : list tobs) : bool :=
  match h, o with
  | [], [] => true
  | OpBuild bs :: h', ob :: o' =>
      let bs' := map (map (brow_of (tc_den c))) bs in
      let brows' := (brows ++ concat bs')%list in
      let t := feedB (tc_parts c) (a_bst a) bs' in
      match mrows, check_build c t brows' ob with
      | [], Some Pm =>                                  (* no re-build after matching started (not generated) *)
          let a' := do_build (fun _ => Pm) (tc_parts c) (tc_S c) a bs' in
          walk c a' brows' mrows h' o'
      | _, _ => false
      end
  | OpRun bs :: h', ob :: o' =>
      let bs' := map (map (mrow_of (tc_den c))) bs in
      match do_run (tc_mode c) (tc_parts c) (tc_S c) (tc_G c) a bs', ob with
      | Refused, ObsRefused => walk c a brows mrows h' o'
      | Done a', ObsScores n sc =>
          let mrows' := (mrows ++ concat bs')%list in
          match a_prof a' with
          | None => false
          | Some p =>
              declared c mrows'
              && Qc_eq_bool (fst (a_mst a')) (Q2Qc (inject_Z n))
              && Nat.eqb (length sc) (tc_G c)
              && forallb (fun g =>
                    let q := spec_score (pf_P p) (tc_S c) (pf_T p) (tc_mode c) (tc_parts c) mrows' g in
                    Qc_eq_bool q (vget (scores (tc_G c) a') g)                            (* impl-model = spec on this input *)
                    && closev (score_tol c p mrows' g) (nth g sc NaN) q) (seq 0 (tc_G c))
              && walk c a' brows mrows' h' o'
          end
      | _, _ => false
      end
  | _, _ => false
  end.

Definition tcase_check (c : tcase) : bool :=
  match tc_mode c with Static => Nat.eqb (tc_G c) (length (tc_parts c)) | Dpa => true end
  && negb (Nat.eqb (length (tc_parts c)) 0) && negb (Nat.eqb (tc_S c) 0)
  && walk c fresh [] [] (tc_hist c) (tc_obs c).

(* what the model expects, for replay files: per operation the templates and covariance / the scores / refusal *)
Inductive texp := ExpBuild (templates cov : list (list Q)) | ExpScores (s : list Q) | ExpRefused | ExpNoProfile.
Fixpoint expected (c : tcase) (a : attack) (brows : list brow) (mrows : list mrowt) (h : list top) (o : list tobs) : list texp :=
  match h with
  | [] => []
  | OpBuild bs :: h' =>
      let bs' := map (map (brow_of (tc_den c))) bs in
      let brows' := (brows ++ concat bs')%list in
      let Pm := match o with ObsBuild _ _ _ oP :: _ => match qmat_of oP with Some Pm => Pm | None => [] end | _ => [] end in
      let a' := do_build (fun _ => Pm) (tc_parts c) (tc_S c) a bs' in
      ExpBuild (map (map this) (spec_templates (tc_parts c) (tc_S c) brows')) (map (map this) (spec_cov (tc_parts c) (tc_S c) brows'))
        :: expected c a' brows' mrows h' (tl o)
  | OpRun bs :: h' =>
      let bs' := map (map (mrow_of (tc_den c))) bs in
      match do_run (tc_mode c) (tc_parts c) (tc_S c) (tc_G c) a bs' with
      | Refused => ExpRefused :: expected c a brows mrows h' (tl o)
      | Done a' =>
          let mrows' := (mrows ++ concat bs')%list in
          match a_prof a' with
          | None => [ExpNoProfile]
          | Some p => ExpScores (map (fun g => this (spec_score (pf_P p) (tc_S c) (pf_T p) (tc_mode c) (tc_parts c) mrows' g)) (seq 0 (tc_G c)))
                      :: expected c a' brows mrows' h' (tl o)
          end
      end
  end.
Definition tcase_expected (c : tcase) : list texp := expected c fresh [] [] (tc_hist c) (tc_obs c).
