(* Model/ModelsSeq.v — property C15: case records for (1) memory-layout cases and (2) call sequences on one object.
   Executable definitions only.

   (1) Layout.  The models of Model/Models.v are functions of the LOGICAL array: a shape and the list of its entries
       enumerated by logical multi-index in row-major order (what nested [tolist()] of the ndarray enumerates).  Strides,
       memory order, byte order, offsets and zero-stride (broadcast) axes of the ndarray handed to the library are not
       part of the model: two ndarrays with the same nested [tolist()] are the same input, and the observation is read
       through nested [tolist()] as well.  [mono_arr_case] / [value_arr_case] add the shape (and its preservation) to
       the element-wise models, so that a result with permuted axes is seen even when all dimensions are equal.

   (2) History.  The specifications are pure functions of (parameters, logical input): the expected value of call i
       does not depend on calls 1..i-1 nor on calls i+1..n.  A sequence case therefore carries, for every call, the
       result read right after the call ([sq_now]) and the SAME result object read again after all later calls
       ([sq_after]); both lists are checked call by call against the same history-free specification. *)
From Coq Require Import NArith ZArith QArith List Bool.
From ScaredV Require Import Run.Compare Model.Models.
Import ListNotations.
Open Scope N_scope.

(* Monobit on an n-D array: element-wise, every dimension preserved *)
Record mono_arr_case := {
  ma_bit : N;
  ma_shape : list nat;
  ma_in : list Z;             (* logical row-major entries *)
  ma_obs_shape : list nat;
  ma_obs : list N
}.

Definition mono_arr_check (c : mono_arr_case) : bool :=
  Nat.eqb (length (ma_in c)) (prodn (ma_shape c))
  && natlist_eqb (ma_shape c) (ma_obs_shape c)
  && nlist_eqb (map (monobit (ma_bit c)) (ma_in c)) (ma_obs c).

(* Value on an n-D array: the data unchanged, every dimension preserved *)
Record value_arr_case := {
  va_shape : list nat;
  va_in : list Z;
  va_obs_shape : list nat;
  va_obs : list Z
}.

Definition value_arr_check (c : value_arr_case) : bool :=
  Nat.eqb (length (va_in c)) (prodn (va_shape c))
  && natlist_eqb (va_shape c) (va_obs_shape c)
  && zlist_eqb (va_in c) (va_obs c).

(* one call of a model or of a discriminant, with what it returned *)
Inductive call :=
| CHw (c : hw_case)
| CMono (c : mono_arr_case)
| CValue (c : value_arr_case)
| CDisc (c : disc_case).

Definition call_check (c : call) : bool :=
  match c with
  | CHw h => Nat.eqb (length (hw_in h)) (prodn (hw_shape h)) && hw_check h
  | CMono m => mono_arr_check m
  | CValue v => value_arr_check v
  | CDisc d => Nat.eqb (length (dc_in d)) (prodn (dc_shape d)) && disc_check d
  end.

(* what the specification expects for a call (replay files) *)
Inductive expected :=
| EN (l : list N)
| EZ (l : list Z)
| EQ (l : list oq).

Definition call_expected (c : call) : expected :=
  match c with
  | CHw h => EN (hw_expected_spec h)
  | CMono m => EN (map (monobit (ma_bit m)) (ma_in m))
  | CValue v => EZ (va_in v)
  | CDisc d => EQ (disc_expected d)
  end.

(* 2..4 calls on the same object(s): results read right after each call, and read again after the last call *)
Record seq_case := {
  sq_now : list call;
  sq_after : list call
}.

Definition seq_check (c : seq_case) : bool :=
  Nat.eqb (length (sq_now c)) (length (sq_after c))
  && forallb call_check (sq_now c)
  && forallb call_check (sq_after c).

(* per call: (holds right after the call, still holds after the later calls) *)
Definition seq_explain (c : seq_case) : list (bool * bool * expected) :=
  map (fun p => (call_check (fst p), call_check (snd p), call_expected (fst p))) (combine (sq_now c) (sq_after c)).

(* ---------------------------------------------------------------- run-length encoded inputs (large groups / long lanes)
   The logical row-major input is given as (value, repetitions) runs and expanded HERE, so that a 1024-word all-ones
   row is a two-token literal; the expected value is the same [hw_array popcount] / [reduce_axis] of Model/Models.v
   on the expanded array (the specification does not change: a group sum is a sum in N, it cannot wrap). *)
Definition expand {A} (runs : list (A * nat)) : list A := flat_map (fun p => repeat (fst p) (snd p)) runs.

Record hw_rle_case := {
  hr_itemsize : N;
  hr_k : nat;
  hr_shape : list nat;
  hr_axis : nat;
  hr_runs : list (N * nat);
  hr_obs_shape : list nat;
  hr_obs : list N
}.

Definition hw_rle_expand (c : hw_rle_case) : hw_case :=
  {| hw_itemsize := hr_itemsize c; hw_k := hr_k c; hw_shape := hr_shape c; hw_axis := hr_axis c;
     hw_in := expand (hr_runs c); hw_obs_shape := hr_obs_shape c; hw_obs := hr_obs c |}.

Definition hw_rle_check (c : hw_rle_case) : bool := call_check (CHw (hw_rle_expand c)).
Definition hw_rle_expected (c : hw_rle_case) : list N := hw_expected_spec (hw_rle_expand c).

Record disc_rle_case := {
  dr_op : disc_op;
  dr_shape : list nat;
  dr_axis : nat;
  dr_runs : list (fval * nat);
  dr_obs_shape : list nat;
  dr_obs : list fval
}.

Definition disc_rle_expand (c : disc_rle_case) : disc_case :=
  {| dc_op := dr_op c; dc_shape := dr_shape c; dc_axis := dr_axis c; dc_in := expand (dr_runs c);
     dc_obs_shape := dr_obs_shape c; dc_obs := dr_obs c |}.

Definition disc_rle_check (c : disc_rle_case) : bool := call_check (CDisc (disc_rle_expand c)).
Definition disc_rle_expected (c : disc_rle_case) : list oq := disc_expected (disc_rle_expand c).

(* ---------------------------------------------------------------- very long lanes (4095 .. 12289 entries)
   Each lane of the reduced axis is given by its own runs; the expected cell is [disc_lane] of the expanded lane (the
   lane-level specification of Props/C15.v [discriminants_spec] / [nanmax_spec]), with no index arithmetic in nat. *)
Record disc_lanes_case := {
  dl_op : disc_op;
  dl_lanes : list (list (fval * nat));
  dl_obs_shape : list nat;
  dl_obs : list fval
}.

Definition disc_lanes_expected (c : disc_lanes_case) : list oq :=
  map (fun l => disc_lane (dl_op c) (map fval_q (expand l))) (dl_lanes c).

Definition disc_lanes_check (c : disc_lanes_case) : bool :=
  natlist_eqb [length (dl_lanes c)] (dl_obs_shape c)
  && forallb (fun l => forallb (fun p => negb (is_inf (fst p))) l) (dl_lanes c)
  && forallb2 (fun v m => fval_matches 0 0 v m) (dl_obs c) (disc_lanes_expected c).
