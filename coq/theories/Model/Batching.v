(* Model/Batching.v — property C01: every incremental distinguisher is invariant to how the traces are split into
   update() batches, compute() never disturbs the state, and asking twice gives the same answer.
   Executable definitions only; the proofs are in Proofs/Batching.v, the statements in Props/C01.v.

   1. [accum]: a distinguisher as a bundle (state, zero, plus, contrib, comp) in the shape of Model/Accum.v, and the
      histories / runs / expected outputs of Accum.v specialised to a bundle;
   2. the TEN instances, built from the colleagues' per-distinguisher models (Model/Cpa.v, Partitioned.v, Mia.v,
      Template.v, Ttest.v — read-only here): CPA, alternative CPA, DPA, ANOVA, NICV, SNR, MIA with fixed bin edges,
      template build, template matching, t-test accumulator;
   3. [table_of]: the lift of a per-ENTRY bundle (one (word, sample) pair) to the whole result table: the state is the
      zero-padded list of entry states, one trace contributes to every entry through its projection, compute() maps the
      entry compute over the entries; the eight per-entry instances as tables;
   4. the automatic class set (partitions=None): frozen from the first batch (hypothesis H-auto);
   5. the records and the check function of the correspondence harness (tools/props/C01.py). *)
From Coq Require Import ZArith QArith Qcanon List Bool Lia.
From ScaredV Require Import Lib.QcSum Run.Compare Model.Accum.
From ScaredV Require Model.Cpa Model.Partitioned Model.Mia Model.Template Model.Ttest.
Import ListNotations.
Local Open Scope Qc_scope.

(* ================================================================================ 1. a distinguisher as a bundle *)
Record accum : Type := mk_accum {
  a_St : Type;                                  (* the accumulators *)
  a_R : Type;                                   (* what one trace (with its intermediate values) is *)
  a_O : Type;                                   (* what compute() returns *)
  a_zero : a_St;                                (* the state after _initialize *)
  a_plus : a_St -> a_St -> a_St;                (* += *)
  a_contrib : a_R -> a_St;                      (* the contribution of one trace *)
  a_comp : a_St -> a_O                          (* _compute: a pure function of the accumulators *)
}.

(* the monoid laws Model/Accum.v asks for, with Leibniz equality *)
Definition lawful (A : accum) : Prop :=
  (forall a b c, a_plus A a (a_plus A b c) = a_plus A (a_plus A a b) c)
  /\ (forall a, a_plus A a (a_zero A) = a)
  /\ (forall a, a_plus A (a_zero A) a = a).

(* Accum.v specialised to a bundle *)
Definition bsum_of (A : accum) : list (a_R A) -> a_St A := bsum (a_St A) (a_R A) (a_zero A) (a_plus A) (a_contrib A).
(* one update(batch): sum the batch, add it to the accumulators *)
Definition upd_of (A : accum) : a_St A -> list (a_R A) -> a_St A := upd (a_St A) (a_R A) (a_zero A) (a_plus A) (a_contrib A).
(* successive update() calls *)
Definition feed_of (A : accum) : a_St A -> list (list (a_R A)) -> a_St A :=
  feed (a_St A) (a_R A) (a_zero A) (a_plus A) (a_contrib A).
(* a history: update(batch) and compute() calls in any order *)
Definition hist (A : accum) : Type := list (op (a_R A)).
(* running a history from a state: the final state and what the compute() calls returned, in order *)
Definition run_of (A : accum) : a_St A -> hist A -> a_St A * list (a_O A) :=
  run (a_St A) (a_R A) (a_O A) (a_zero A) (a_plus A) (a_contrib A) (a_comp A).
Definition updates_of (A : accum) : hist A -> list (list (a_R A)) := updates (a_R A).
(* ONE update() with all the rows on a fresh object, then compute() *)
Definition oneshot (A : accum) (rows : list (a_R A)) : a_O A := a_comp A (upd_of A (a_zero A) rows).
(* what the compute() calls of a history should return when [seen] was fed before it: the one-shot result on
   everything fed so far (= Accum.expected_outputs) *)
Definition expected_of (A : accum) : list (a_R A) -> hist A -> list (a_O A) :=
  expected_outputs (a_St A) (a_R A) (a_O A) (a_zero A) (a_plus A) (a_contrib A) (a_comp A).

(* the rows fed before each compute() of a history *)
Fixpoint seen_at {R} (seen : list R) (h : list (op R)) : list (list R) :=
  match h with
  | [] => []
  | Update b :: t => seen_at (seen ++ b) t
  | Compute :: t => seen :: seen_at seen t
  end.
Fixpoint computes {R} (h : list (op R)) : nat :=
  match h with [] => O | Update _ :: t => computes t | Compute :: t => S (computes t) end.

(* ---- run-length encoded batches (very large trace counts): a row repeated c times contributes c times its contribution,
   computed with O(log c) additions (Pos.iter_op); equal to the expanded batch by Proofs/Batching.rl_oneshot_expand *)
Definition expand {R} (runs : list (R * positive)) : list R := flat_map (fun rc => repeat (fst rc) (Pos.to_nat (snd rc))) runs.
Definition ptimes (A : accum) (c : positive) (x : a_St A) : a_St A := Pos.iter_op (a_plus A) c x.
Definition rl_bsum (A : accum) (runs : list (a_R A * positive)) : a_St A :=
  fold_right (fun rc a => a_plus A (ptimes A (snd rc) (a_contrib A (fst rc))) a) (a_zero A) runs.
Definition rl_oneshot (A : accum) (runs : list (a_R A * positive)) : a_O A := a_comp A (a_plus A (a_zero A) (rl_bsum A runs)).
Definition rl_total {R} (runs : list (R * positive)) : Z := fold_right (fun rc a => (Zpos (snd rc) + a)%Z) 0%Z runs.

(* ================================================================================ 2. the ten instances *)
(* --- CPA, alternative CPA: one entry = (sample, word); state (n, sx, sxx, sy, syy, sxy, running extrema) *)
Definition cpa_inst : accum :=
  mk_accum Cpa.cst Cpa.obs (option Cpa.triple) Cpa.cst_zero Cpa.cst_plus Cpa.cpa_contrib Cpa.cpa_comp.
Definition cpa_alt_inst : accum :=
  mk_accum Cpa.cst Cpa.obs (option Cpa.triple) Cpa.cst_zero Cpa.cst_plus Cpa.cpa_contrib Cpa.cpa_alt_comp.
(* --- DPA: one entry = (sample, bit); state (n, sum of all, sum of the bit-1 traces, number of bit-1 traces) *)
Definition dpa_inst : accum :=
  mk_accum Cpa.dst Cpa.dobs (option Qc) Cpa.dst_zero Cpa.dst_plus Cpa.dpa_contrib Cpa.dpa_comp.
(* --- ANOVA / NICV / SNR with the class list [parts]: one entry = (class value of the word, sample); state = per class
   (counter, sum, sum of squares) *)
Definition part_inst (m : Partitioned.metric) (parts : list Z) : accum :=
  mk_accum Partitioned.st Partitioned.row (option Qc) Partitioned.st_zero Partitioned.st_plus
           (Partitioned.contrib parts) (Partitioned.comp m (length parts)).
Definition anova_inst := part_inst Partitioned.ANOVA.
Definition nicv_inst := part_inst Partitioned.NICV.
Definition snr_inst := part_inst Partitioned.SNR.
(* --- MIA with FIXED bin edges [edges] and class list [parts]: one entry = (sample, value of the word); state = the joint
   histogram hist[bin][class].  [est] = the float bin-index estimate, [phi] = x |-> x ln x: ANY functions. *)
Definition mia_inst (edges : list Qc) (est : Qc -> nat) (parts : list Z) (phi : Qc -> Qc) : accum :=
  mk_accum Mia.st Mia.row (option Qc) Mia.st_zero Mia.st_plus (Mia.contrib edges est parts)
           (Mia.comp phi (Mia.nbins edges) (length parts)).
(* --- template build: one trace = (class value, samples); state = per class (count, sum x, sum x (x) x);
   compute() = (templates K x S, pooled covariance S x S) *)
Definition tbuild_inst (parts : list Z) (S : nat) : accum :=
  mk_accum Template.st Template.brow (Template.mat * Template.mat) Template.st_zero Template.st_plus
           (Template.contrib parts) (Template.comp parts S).
(* --- template matching against templates T with the matrix P (whatever pinv returned): one trace = (hypothesis
   values, samples); state = (processed_traces, _scores); compute() = 10 - _scores / processed_traces *)
Definition tmatch_inst (P : Template.mat) (S : nat) (T : Template.mat) (m : Template.mode) (parts : list Z) (G : nat) : accum :=
  mk_accum Template.mst Template.mrowt Template.vec Template.mst_zero Template.mst_plus
           (Template.mcontrib P S T m parts G) (Template.mcomp G).
(* --- t-test accumulator: one entry = one sample; state (n, sum x, sum x^2); compute() = (mean, var), None = TTestError *)
Definition ttest_inst : accum :=
  mk_accum Ttest.st Qc (option Ttest.mv) Ttest.st_zero Ttest.st_plus Ttest.contrib Ttest.comp.

(* ================================================================================ 3. the whole result table *)
(* the (word, sample) pairs in the C order of the (words, samples) result *)
Definition entries (W S : nat) : list (nat * nat) := flat_map (fun w => map (fun s => (w, s)) (seq 0 S)) (seq 0 W).

Section Table.
  Variable A : accum.                           (* the per-entry distinguisher *)
  Variable RT : Type.                           (* a whole trace: all its samples, all its intermediate words *)
  Variable projs : list (RT -> a_R A).          (* one projection per entry of the result *)

  Definition t_plus : list (a_St A) -> list (a_St A) -> list (a_St A) := Template.zadd (a_plus A).
  Definition t_contrib (r : RT) : list (a_St A) := map (fun p => a_contrib A (p r)) projs.
  Definition t_comp (s : list (a_St A)) : list (a_O A) :=
    map (fun i => a_comp A (nth i s (a_zero A))) (seq 0 (length projs)).
  Definition table_of : accum := mk_accum (list (a_St A)) RT (list (a_O A)) [] t_plus t_contrib t_comp.

  (* entry by entry: the per-entry one-shot result on the entry's own column of observations *)
  Definition table_oneshot (rows : list RT) : list (a_O A) := map (fun p => oneshot A (map p rows)) projs.
  Fixpoint table_expected (seen : list RT) (h : list (op RT)) : list (list (a_O A)) :=
    match h with
    | [] => []
    | Update b :: t => table_expected (seen ++ b) t
    | Compute :: t => table_oneshot seen :: table_expected seen t
    end.
End Table.

(* whole traces *)
Definition qrow : Type := (list Qc * list Qc)%type.     (* (samples, intermediate words) — CPA *)
Definition zrow : Type := (list Qc * list Z)%type.      (* (samples, integer intermediate words) — the others *)

Definition cpa_proj (e : nat * nat) (r : qrow) : Cpa.obs := (nth (snd e) (fst r) 0, nth (fst e) (snd r) 0).
Definition dpa_proj (e : nat * nat) (r : zrow) : Cpa.dobs := (nth (snd e) (fst r) 0, Z.eqb (nth (fst e) (snd r) 0%Z) 1).
Definition part_proj (e : nat * nat) (r : zrow) : Partitioned.row := (nth (fst e) (snd r) (-1)%Z, nth (snd e) (fst r) 0).
Definition mia_proj (e : nat * nat) (r : zrow) : Mia.row := (nth (snd e) (fst r) 0, nth (fst e) (snd r) (-1)%Z).
Definition ttest_proj (s : nat) (r : list Qc) : Qc := nth s r 0.

Definition cpa_table (W S : nat) : accum := table_of cpa_inst qrow (map cpa_proj (entries W S)).
Definition cpa_alt_table (W S : nat) : accum := table_of cpa_alt_inst qrow (map cpa_proj (entries W S)).
Definition dpa_table (W S : nat) : accum := table_of dpa_inst zrow (map dpa_proj (entries W S)).
Definition part_table (m : Partitioned.metric) (parts : list Z) (W S : nat) : accum :=
  table_of (part_inst m parts) zrow (map part_proj (entries W S)).
Definition mia_table (edges : list Qc) (est : Qc -> nat) (parts : list Z) (phi : Qc -> Qc) (W S : nat) : accum :=
  table_of (mia_inst edges est parts phi) zrow (map mia_proj (entries W S)).
Definition ttest_table (S : nat) : accum := table_of ttest_inst (list Qc) (map ttest_proj (seq 0 S)).

(* ================================================================================ 4. automatic class set (partitions=None) *)
(* _initialize looks at the data of the FIRST batch only: refused when its maximum is above 255 or its minimum below 0,
   else the classes are 0 .. r-1 for the first r of 9 / 64 / 256 above the maximum.  The bracket of a data set: *)
Definition bracket (mx mn : Z) : option Z :=
  if (255 <? mx)%Z then None else if (mn <? 0)%Z then None else Some (Partitioned.auto_size mx).
Definition data_bracket (d : list Z) : option Z :=
  match d with
  | [] => None
  | x :: t => bracket (Partitioned.zmax_list (x :: t) x) (Partitioned.zmin_list (x :: t) x)
  end.
Definition batch_data (b : list zrow) : list Z := concat (map snd b).
Definition class_range (r : Z) : list Z := map Z.of_nat (seq 0 (Z.to_nat r)).
(* the class set the code freezes at the first update (Partitioned.auto_parts on the first batch's extrema) *)
Definition auto_class_set (first : list zrow) : option (list Z) :=
  match batch_data first with
  | [] => None
  | x :: t => Partitioned.auto_parts (Partitioned.zmax_list (x :: t) x) (Partitioned.zmin_list (x :: t) x)
  end.
(* a partitioned distinguisher built with partitions=None, fed the batches, then compute(): None = the first update is
   refused (ValueError) *)
Definition auto_run (m : Partitioned.metric) (W S : nat) (batches : list (list zrow)) : option (list (option Qc)) :=
  match batches with
  | [] => None
  | b1 :: _ =>
      match auto_class_set b1 with
      | None => None
      | Some parts => let T := part_table m parts W S in Some (a_comp T (feed_of T (a_zero T) batches))
      end
  end.

(* ================================================================================ 5. correspondence cases (C-tie) *)
Local Open Scope Z_scope.

Inductive dkind :=
| KCpa | KCpaAlt | KDpa
| KPart (m : Partitioned.metric)
| KMia
| KTBuild
| KTMatch (m : Template.mode)
| KTtest.

(* one call on the real object; a trace is (samples, intermediate words) as integers over the case's denominators *)
Inductive hop := HUpdate (rows : list (list Z * list Z)) | HCompute.

Record bcase := {
  b_kind : dkind;
  b_prec : prec;
  b_S : nat;                          (* samples per trace *)
  b_W : nat;                          (* intermediate words per trace (flattened); 0 for the t-test accumulator *)
  b_tden : positive;                  (* a sample is z / b_tden *)
  b_dden : positive;                  (* a CPA word is z / b_dden; 1 for the integer-valued data of the other kinds *)
  b_parts : list Z;                   (* class list in force (partitioned, MIA, templates) *)
  b_auto : bool;                      (* the object was built with partitions=None: b_parts is what it chose *)
  b_edges : list fval;                (* MIA: the bin edges given to the constructor *)
  b_ln : list fval;                   (* MIA: ln 1 .. ln n as the harness computed them *)
  b_pden : positive;                  (* matching: entries of b_T and b_P are z / b_pden *)
  b_T : list (list Z);                (* matching: the templates (K x S) *)
  b_P : list (list Z);                (* matching: the matrix used as pooled_covariance_inv (S x S) *)
  b_hist : list hop;
  b_obs : list (Z * list fval);       (* per compute(): processed_traces, the returned values in C order
                                         (t-test: mean ++ var; template build: templates ++ pooled_covariance) *)
  b_final_n : Z;                      (* processed_traces after the last call *)
  b_oneshot : list fval               (* the code's own result on a fresh object fed everything in ONE batch ([] = not run) *)
}.

Definition qcz := Cpa.qcz.
Definition to_qrow (c : bcase) (r : list Z * list Z) : qrow := (map (qcz (b_tden c)) (fst r), map (qcz (b_dden c)) (snd r)).
Definition to_zrow (c : bcase) (r : list Z * list Z) : zrow := (map (qcz (b_tden c)) (fst r), snd r).
Definition to_brow (c : bcase) (r : list Z * list Z) : Template.brow := (nth 0 (snd r) (-1), map (qcz (b_tden c)) (fst r)).
Definition to_mrow (c : bcase) (r : list Z * list Z) : Template.mrowt := (snd r, map (qcz (b_tden c)) (fst r)).
Definition to_trow (c : bcase) (r : list Z * list Z) : list Qc := map (qcz (b_tden c)) (fst r).

Definition conv_hist {R} (f : list Z * list Z -> R) (h : list hop) : list (op R) :=
  map (fun o => match o with HUpdate rows => Update (map f rows) | HCompute => Compute end) h.
Definition all_rows (h : list hop) : list (list Z * list Z) :=
  flat_map (fun o => match o with HUpdate rows => rows | HCompute => [] end) h.
Definition first_batch (h : list hop) : list (list Z * list Z) :=
  match filter (fun o => match o with HUpdate _ => true | HCompute => false end) h with
  | HUpdate rows :: _ => rows
  | _ => []
  end.

Fixpoint forallb3 {A B C} (f : A -> B -> C -> bool) (la : list A) (lb : list B) (lc : list C) : bool :=
  match la, lb, lc with
  | [], [], [] => true
  | a :: ra, b :: rb, c :: rc => f a b c && forallb3 f ra rb rc
  | _, _, _ => false
  end.

(* every compute(): processed_traces = the number of traces fed before it, the returned values agree with the
   expected output (compared by [cmp], which is given the rows fed so far for the conditioning of its tolerance) *)
Definition outputs_ok {R O} (cmp : list R -> O -> list fval -> bool) (seens : list (list R)) (exps : list O)
                      (obs : list (Z * list fval)) : bool :=
  forallb3 (fun seen e o => Z.eqb (fst o) (Z.of_nat (length seen)) && cmp seen e (snd o)) seens exps obs.

(* the generic comparison of a case of bundle A: every compute() against Accum's expected outputs; the final
   processed_traces; the code's own one-batch result against the one-shot of everything *)
Definition hist_ok (A : accum) (cmp : list (a_R A) -> a_O A -> list fval -> bool) (h : hist A)
                   (obs : list (Z * list fval)) (final_n : Z) (one : list fval) : bool :=
  let rows := concat (updates_of A h) in
  outputs_ok cmp (seen_at [] h) (expected_of A [] h) obs
  && Z.eqb final_n (Z.of_nat (length rows))
  && match one with [] => true | _ => cmp rows (oneshot A rows) one end.

(* a table: entry by entry, each with its own column of observations *)
Definition table_cmp {RT R O} (projs : list (RT -> R)) (entry_ok : list R -> O -> fval -> bool)
                     (seen : list RT) (exp : list O) (vals : list fval) : bool :=
  Nat.eqb (length exp) (length projs)
  && forallb2 (fun pe v => entry_ok (map (fst pe) seen) (snd pe) v) (combine projs exp) vals.

(* ---- per-kind entry comparisons (tolerances of the colleagues' models, fed with the model's one-shot output) *)
(* rounding budgets of the correlation and of the difference of means (first order; the formulas of Model/Cpa.v):
   4 (n + 4) u (sum x^2 / dx + sum y^2 / dy)   and   4 (n + 4) u sum|x| (1/n1 + 1/n0) *)
Definition corr_tol (p : prec) (l : list Cpa.obs) (dx dy : Qc) : Q :=
  let kx := (qsum (map sq (map fst l)) / dx)%Qc in
  let ky := (qsum (map sq (map snd l)) / dy)%Qc in
  Qred ((4 * inject_Z (Z.of_nat (length l) + 4)) * uround p * (kx + ky)%Qc).
Definition qabs_sum (l : list Qc) : Qc := qsum (map (fun x : Qc => if Qle_bool 0%Q x then x else (- x)%Qc) l).
Definition diff_tol (p : prec) (l : list Cpa.dobs) : Q :=
  let n1 := qlen (Cpa.ones l) in let n0 := qlen (Cpa.zeros l) in
  Qred ((4 * inject_Z (Z.of_nat (length l) + 4)) * uround p * (qabs_sum (map fst l) * (1 / n1 + 1 / n0))%Qc).

(* correlation: the model's triple (num, dx, dy) against the observed r, sqrt-free; the alternative formulation's triple
   is n times Pearson's, its conditioning is that of (dx / n, dy / n); a budget >= 1/8 means the float denominators
   cannot be told from zero: then anything but an infinity is accepted *)
Definition corr_entry_ok (alt : bool) (p : prec) (l : list Cpa.obs) (t : option Cpa.triple) (v : fval) : bool :=
  match t with
  | None => is_nan v
  | Some (num, dx, dy) =>
      let n := qlen l in
      let dx' := if alt then (dx / n)%Qc else dx in
      let dy' := if alt then (dy / n)%Qc else dy in
      let tol := corr_tol p l dx' dy' in
      if Qle_bool (1 # 8) tol then negb (is_inf v)
      else match v with
           | Fin m e => Cpa.close_r (q_of_fin m e) tol num (dx * dy)%Qc
           | _ => false
           end
  end.
Definition dpa_entry_ok (p : prec) (l : list Cpa.dobs) (d : option Qc) (v : fval) : bool :=
  match d with
  | None => is_nan v
  | Some x => match v with
              | Fin m e => q_close_abs (diff_tol p l) (q_of_fin m e) x
              | _ => false
              end
  end.
(* ANOVA / NICV / SNR: the observed value against the definition over the value classes (Partitioned.obs_ok), and the
   model's one-shot output IS that definition on this input *)
Definition part_entry_ok (p : prec) (m : Partitioned.metric) (parts : list Z) (l : list Partitioned.row)
                         (e : option Qc) (v : fval) : bool :=
  let gs := Partitioned.groups (nodup Z.eq_dec parts) l in
  Partitioned.obs_ok p m gs v && Partitioned.oqc_eqb e (Partitioned.spec_metric m gs).
Definition mia_tol (p : prec) (nb : nat) : Q :=
  match p with F32 => (64 * u32 * inject_Z (Z.of_nat (S nb)))%Q | F64 => (Qmake 1 (2 ^ 30))%Q end.
Definition mia_entry_ok (p : prec) (nb : nat) (l : list Mia.row) (e : option Qc) (v : fval) : bool :=
  fval_matches 0 (mia_tol p nb) v (option_map this e).

(* t-test: vals = mean ++ var, one (mean, var) pair per sample *)
Definition ttest_cmp (p : prec) (S : nat) (seen : list (list Qc)) (exp : list (option Ttest.mv)) (vals : list fval) : bool :=
  Nat.eqb (length exp) S && Nat.eqb (length vals) (2 * S)
  && forallb2 (fun s e =>
       let l := map (ttest_proj s) seen in
       match e with
       | Some m => Ttest.meanvar_ok p (Ttest.is_exact p l) (qlen l) l m (nth s vals NaN) (nth (S + s) vals NaN)
       | None => false
       end) (seq 0 S) exp.

(* template build: vals = templates (K x S, C order) ++ pooled covariance (S x S).  A template that is a small dyadic
   must be exact; the covariance within 32 u (magnitude of its operands), exact in float64 when every intermediate is a
   small dyadic (the rules of Model/Template.check_build) *)
Definition tbuild_cmp (p : prec) (parts : list Z) (S : nat) (seen : list Template.brow)
                      (exp : Template.mat * Template.mat) (vals : list fval) : bool :=
  let K := length parts in
  let u := uround p in
  let t := upd_of (tbuild_inst parts S) (a_zero (tbuild_inst parts S)) seen in
  let exact64 := match p with F64 => Template.build_exact parts S t | F32 => false end in
  Nat.eqb (length vals) (K * S + S * S)
  && Template.all2 K S (fun k j =>
       let q := Template.mget (fst exp) k j in
       let v := nth (k * S + j) vals NaN in
       if Template.small_dyadic q then Template.exactv v q
       else Template.closev (4 * u * this (Template.qabs q) + Template.tiny)%Q v q)
  && Template.all2 S S (fun i j =>
       let q := Template.mget (snd exp) i j in
       let v := nth (K * S + i * S + j) vals NaN in
       if exact64 then Template.exactv v q
       else Template.closev (32 * u * this (Template.cov_mag parts t i j) + Template.tiny)%Q v q).

(* template matching: score g within 64 u (mean of the form with absolute values + 10) *)
Definition tmatch_cmp (p : prec) (Pm : Template.mat) (S : nat) (T : Template.mat) (m : Template.mode) (parts : list Z) (G : nat)
                      (seen : list Template.mrowt) (exp : Template.vec) (vals : list fval) : bool :=
  Nat.eqb (length vals) G
  && forallb (fun g =>
       let A := (Template.qsumQ (map (fun r => match Template.sel m parts r g with
                                               | Some k => Template.abs_form Pm S T r k
                                               | None => Q2Qc 0 end) seen)
                 / Template.qnat S / qlen seen)%Qc in
       Template.closev (64 * uround p * (this A + 10) + Template.tiny)%Q (nth g vals NaN) (Template.vget exp g))
     (seq 0 G).

(* ---- the check *)
Definition rows_rect (S W : nat) (h : list hop) : bool :=
  forallb (fun r => Nat.eqb (length (fst r)) S && Nat.eqb (length (snd r)) W) (all_rows h).
Definition no_empty_batch (h : list hop) : bool :=
  forallb (fun o => match o with HUpdate [] => false | _ => true end) h.
Definition qmat (den : positive) (m : list (list Z)) : Template.mat := map (map (qcz den)) m.
Definition mat_rect (r cc : nat) (m : list (list Z)) : bool :=
  Nat.eqb (length m) r && forallb (fun row => Nat.eqb (length row) cc) m.

Definition auto_ok (c : bcase) : bool :=
  if b_auto c then
    match auto_class_set (map (to_zrow c) (first_batch (b_hist c))) with
    | Some parts => zlist_eqb parts (b_parts c)
    | None => false
    end
  else true.

Definition bcheck (c : bcase) : bool :=
  let S := b_S c in let W := b_W c in let p := b_prec c in let h := b_hist c in
  rows_rect S W h && no_empty_batch h && negb (Nat.eqb S 0)
  && Cpa.is_pow2 (b_tden c) && Cpa.is_pow2 (b_dden c) && Cpa.is_pow2 (b_pden c)
  && Nat.eqb (length (b_obs c)) (computes (conv_hist (fun r => r) h))
  && match b_kind c with
     | KCpa =>
         negb (b_auto c)
         && hist_ok (cpa_table W S) (table_cmp (map cpa_proj (entries W S)) (corr_entry_ok false p))
                    (conv_hist (to_qrow c) h) (b_obs c) (b_final_n c) (b_oneshot c)
     | KCpaAlt =>
         negb (b_auto c)
         && hist_ok (cpa_alt_table W S) (table_cmp (map cpa_proj (entries W S)) (corr_entry_ok true p))
                    (conv_hist (to_qrow c) h) (b_obs c) (b_final_n c) (b_oneshot c)
     | KDpa =>
         negb (b_auto c) && Pos.eqb (b_dden c) 1
         && forallb (fun r => forallb (fun z => Z.eqb z 0 || Z.eqb z 1) (snd r)) (all_rows h)
         && hist_ok (dpa_table W S) (table_cmp (map dpa_proj (entries W S)) (dpa_entry_ok p))
                    (conv_hist (to_zrow c) h) (b_obs c) (b_final_n c) (b_oneshot c)
     | KPart m =>
         auto_ok c && Pos.eqb (b_dden c) 1
         && hist_ok (part_table m (b_parts c) W S)
                    (table_cmp (map part_proj (entries W S)) (part_entry_ok p m (b_parts c)))
                    (conv_hist (to_zrow c) h) (b_obs c) (b_final_n c) (b_oneshot c)
     | KMia =>
         negb (b_auto c) && Pos.eqb (b_dden c) 1
         && match Mia.all_some (map fval_qc (b_edges c)), Mia.all_some (map fval_qc (b_ln c)) with
            | Some edges, Some lntab =>
                Mia.edges_ok Mia.mia_tol edges
                && hist_ok (mia_table edges (Mia.est_exact edges) (b_parts c) (Mia.phi_ln lntab) W S)
                           (table_cmp (map mia_proj (entries W S)) (mia_entry_ok p (Mia.nbins edges)))
                           (conv_hist (to_zrow c) h) (b_obs c) (b_final_n c) (b_oneshot c)
            | _, _ => false
            end
     | KTBuild =>
         negb (b_auto c) && Pos.eqb (b_dden c) 1 && Nat.eqb W 1 && negb (Nat.eqb (length (b_parts c)) 0)
         && hist_ok (tbuild_inst (b_parts c) S) (tbuild_cmp p (b_parts c) S)
                    (conv_hist (to_brow c) h) (b_obs c) (b_final_n c) (b_oneshot c)
     | KTMatch m =>
         let K := length (b_parts c) in
         let G := match m with Template.Static => K | Template.Dpa => W end in
         let Pm := qmat (b_pden c) (b_P c) in let T := qmat (b_pden c) (b_T c) in
         negb (b_auto c) && Pos.eqb (b_dden c) 1 && negb (Nat.eqb K 0)
         && mat_rect K S (b_T c) && mat_rect S S (b_P c)
         && hist_ok (tmatch_inst Pm S T m (b_parts c) G) (tmatch_cmp p Pm S T m (b_parts c) G)
                    (conv_hist (to_mrow c) h) (b_obs c) (b_final_n c) (b_oneshot c)
     | KTtest =>
         negb (b_auto c) && Nat.eqb W 0
         && hist_ok (ttest_table S) (ttest_cmp p S)
                    (conv_hist (to_trow c) h) (b_obs c) (b_final_n c) (b_oneshot c)
     end.

(* ---- for replay files: what every compute() of the case should return (the one-shot result on everything fed
   before it), as plain rationals *)
Inductive bexp :=
| ECorr (t : option (Q * Q * Q))                 (* (num, dx, dy): r = num / sqrt (dx dy); None = NaN *)
| EVal (v : option Q)                            (* None = NaN *)
| EMeanVar (mv : option (Q * Q)).
Definition show_triple (t : option Cpa.triple) : bexp :=
  ECorr (option_map (fun x : Cpa.triple => let '(a, b, d) := x in (this a, this b, this d)) t).
Definition show_val (v : option Qc) : bexp := EVal (option_map this v).

Definition bexpected (c : bcase) : list (list bexp) :=
  let S := b_S c in let W := b_W c in let h := b_hist c in
  match b_kind c with
  | KCpa => map (map show_triple) (expected_of (cpa_table W S) [] (conv_hist (to_qrow c) h))
  | KCpaAlt => map (map show_triple) (expected_of (cpa_alt_table W S) [] (conv_hist (to_qrow c) h))
  | KDpa => map (map show_val) (expected_of (dpa_table W S) [] (conv_hist (to_zrow c) h))
  | KPart m => map (map show_val) (expected_of (part_table m (b_parts c) W S) [] (conv_hist (to_zrow c) h))
  | KMia =>
      match Mia.all_some (map fval_qc (b_edges c)), Mia.all_some (map fval_qc (b_ln c)) with
      | Some edges, Some lntab =>
          map (map show_val) (expected_of (mia_table edges (Mia.est_exact edges) (b_parts c) (Mia.phi_ln lntab) W S) []
                                          (conv_hist (to_zrow c) h))
      | _, _ => []
      end
  | KTBuild =>
      map (fun tc : Template.mat * Template.mat => map (fun q : Qc => EVal (Some (this q))) (concat (fst tc) ++ concat (snd tc)))
          (expected_of (tbuild_inst (b_parts c) S) [] (conv_hist (to_brow c) h))
  | KTMatch m =>
      let G := match m with Template.Static => length (b_parts c) | Template.Dpa => W end in
      map (map (fun q : Qc => EVal (Some (this q))))
          (expected_of (tmatch_inst (qmat (b_pden c) (b_P c)) S (qmat (b_pden c) (b_T c)) m (b_parts c) G) []
                       (conv_hist (to_mrow c) h))
  | KTtest =>
      map (map (fun e : option Ttest.mv => EMeanVar (option_map (fun x : Ttest.mv => (this (fst x), this (snd x))) e)))
          (expected_of (ttest_table S) [] (conv_hist (to_trow c) h))
  end.

(* ================================================================================ 6. very large batches (run-length encoded) *)
(* One very large update() against several: n = 65535 .. 200000 traces with few distinct rows, given as runs (row, count).
   Integer inputs, float64 precision: every running sum is exact, the designs are well conditioned, so the comparison is
   "equal up to a few float64 roundings of the final formula": relative 2^-40 (MIA: the 2^-30 of its ln table). *)
Definition lrow : Type := ((list Z * list Z) * positive)%type.

Record lcase := {
  l_kind : dkind;
  l_S : nat;
  l_W : nat;
  l_parts : list Z;
  l_edges : list fval;
  l_ln : list (Z * fval);             (* MIA: (k, ln k) for the integers the probabilities are made of *)
  l_pden : positive; l_T : list (list Z); l_P : list (list Z);
  l_batches : list (list lrow);       (* the update() calls, each followed by a compute() *)
  l_obs : list (Z * list fval);       (* per compute(): processed_traces, values in C order *)
  l_oneshot : list fval               (* a fresh object fed everything in ONE update() *)
}.

Definition near (q : Qc) (v : fval) : bool :=
  match v with Fin m e => q_close (Qmake 1 (2 ^ 40)) (Qmake 1 (2 ^ 60)) (q_of_fin m e) (this q) | _ => false end.
Definition near_o (o : option Qc) (v : fval) : bool := match o with None => is_nan v | Some q => near q v end.
Definition near_corr (t : option Cpa.triple) (v : fval) : bool :=
  match t, v with
  | None, _ => is_nan v
  | Some (num, dx, dy), Fin m e => Cpa.close_r (q_of_fin m e) (Qmake 1 (2 ^ 40)) num (dx * dy)%Qc
  | _, _ => false
  end.
Definition near_mia (o : option Qc) (v : fval) : bool := fval_matches 0 (Qmake 1 (2 ^ 30)) v (option_map this o).

Definition lq (r : list Z * list Z) : qrow := (map qz (fst r), map qz (snd r)).
Definition lzr (r : list Z * list Z) : zrow := (map qz (fst r), snd r).
Definition lbr (r : list Z * list Z) : Template.brow := (nth 0 (snd r) (-1), map qz (fst r)).
Definition lmr (r : list Z * list Z) : Template.mrowt := (snd r, map qz (fst r)).
Definition ltr (r : list Z * list Z) : list Qc := map qz (fst r).
Definition conv_runs {R} (f : list Z * list Z -> R) (b : list lrow) : list (R * positive) := map (fun rc => (f (fst rc), snd rc)) b.

Fixpoint lwalk (A : accum) (cmp : a_O A -> list fval -> bool) (seen : list (a_R A * positive))
               (bs : list (list (a_R A * positive))) (os : list (Z * list fval)) : bool :=
  match bs, os with
  | [], [] => true
  | b :: bs', o :: os' =>
      let seen' := seen ++ b in
      Z.eqb (fst o) (rl_total seen') && cmp (rl_oneshot A seen') (snd o) && lwalk A cmp seen' bs' os'
  | _, _ => false
  end.
Definition lhist_ok (A : accum) (cmp : a_O A -> list fval -> bool) (bs : list (list (a_R A * positive)))
                    (os : list (Z * list fval)) (one : list fval) : bool :=
  lwalk A cmp [] bs os && match one with [] => true | _ => cmp (rl_oneshot A (concat bs)) one end.

Definition lcheck (c : lcase) : bool :=
  let S := l_S c in let W := l_W c in let bs := l_batches c in
  forallb (fun b => forallb (fun rc : lrow => Nat.eqb (length (fst (fst rc))) S && Nat.eqb (length (snd (fst rc))) W) b
                    && match b with [] => false | _ => true end) bs
  && negb (Nat.eqb S 0)
  && match l_kind c with
     | KCpa => lhist_ok (cpa_table W S) (forallb2 near_corr) (map (conv_runs lq) bs) (l_obs c) (l_oneshot c)
     | KCpaAlt => lhist_ok (cpa_alt_table W S) (forallb2 near_corr) (map (conv_runs lq) bs) (l_obs c) (l_oneshot c)
     | KDpa => lhist_ok (dpa_table W S) (forallb2 near_o) (map (conv_runs lzr) bs) (l_obs c) (l_oneshot c)
     | KPart m => lhist_ok (part_table m (l_parts c) W S) (forallb2 near_o) (map (conv_runs lzr) bs) (l_obs c) (l_oneshot c)
     | KMia =>
         match Mia.all_some (map fval_qc (l_edges c)), Mia.all_some (map Mia.ln_pair (l_ln c)) with
         | Some edges, Some lntab =>
             Mia.edges_ok Mia.mia_tol edges
             && lhist_ok (mia_table edges (Mia.est_exact edges) (l_parts c) (Mia.phi_ln_assoc lntab) W S) (forallb2 near_mia)
                         (map (conv_runs lzr) bs) (l_obs c) (l_oneshot c)
         | _, _ => false
         end
     | KTBuild =>
         Nat.eqb W 1 && negb (Nat.eqb (length (l_parts c)) 0)
         && lhist_ok (tbuild_inst (l_parts c) S)
                     (fun tc vals => forallb2 near (concat (fst tc) ++ concat (snd tc)) vals)
                     (map (conv_runs lbr) bs) (l_obs c) (l_oneshot c)
     | KTMatch m =>
         let K := length (l_parts c) in
         let G := match m with Template.Static => K | Template.Dpa => W end in
         mat_rect K S (l_T c) && mat_rect S S (l_P c) && negb (Nat.eqb K 0)
         && lhist_ok (tmatch_inst (qmat (l_pden c) (l_P c)) S (qmat (l_pden c) (l_T c)) m (l_parts c) G) (forallb2 near)
                     (map (conv_runs lmr) bs) (l_obs c) (l_oneshot c)
     | KTtest =>
         Nat.eqb W 0
         && lhist_ok (ttest_table S)
                     (fun exp vals => Nat.eqb (length vals) (2 * S)
                        && forallb2 (fun s e => match e with
                                                | Some m => near (fst m) (nth s vals NaN) && near (snd m) (nth (S + s) vals NaN)
                                                | None => false end) (seq 0 S) exp)
                     (map (conv_runs ltr) bs) (l_obs c) (l_oneshot c)
     end.

Definition lexpected (c : lcase) : list bexp :=
  let S := l_S c in let W := l_W c in let all := concat (l_batches c) in
  match l_kind c with
  | KCpa => map show_triple (rl_oneshot (cpa_table W S) (conv_runs lq all))
  | KCpaAlt => map show_triple (rl_oneshot (cpa_alt_table W S) (conv_runs lq all))
  | KDpa => map show_val (rl_oneshot (dpa_table W S) (conv_runs lzr all))
  | KPart m => map show_val (rl_oneshot (part_table m (l_parts c) W S) (conv_runs lzr all))
  | KMia =>
      match Mia.all_some (map fval_qc (l_edges c)), Mia.all_some (map Mia.ln_pair (l_ln c)) with
      | Some edges, Some lntab =>
          map show_val (rl_oneshot (mia_table edges (Mia.est_exact edges) (l_parts c) (Mia.phi_ln_assoc lntab) W S) (conv_runs lzr all))
      | _, _ => []
      end
  | KTBuild =>
      let tc := rl_oneshot (tbuild_inst (l_parts c) S) (conv_runs lbr all) in
      map (fun q : Qc => EVal (Some (this q))) (concat (fst tc) ++ concat (snd tc))
  | KTMatch m =>
      let G := match m with Template.Static => length (l_parts c) | Template.Dpa => W end in
      map (fun q : Qc => EVal (Some (this q)))
          (rl_oneshot (tmatch_inst (qmat (l_pden c) (l_P c)) S (qmat (l_pden c) (l_T c)) m (l_parts c) G) (conv_runs lmr all))
  | KTtest =>
      map (fun e : option Ttest.mv => EMeanVar (option_map (fun x : Ttest.mv => (this (fst x), this (snd x))) e))
          (rl_oneshot (ttest_table S) (conv_runs ltr all))
  end.
