(* Model/Attack.v — property C17: on simulated leakage every attack ranks the true key first.
   Executable definitions only; the proofs are in Proofs/Attack.v.

   1. PIPELINE LAYOUT: results (guesses, words, samples) -> scores (guesses, words) -> argmax over the guess axis,
      assembled from the layout of the distinguishers (Model/Cpa.v, property C03) and the axis reduction of the
      discriminants (Model/Models.v, property C15).
   2. SIMULATED CAMPAIGN: trace = gain * model(targeted state under the true key) + noise at the leaking sample of each
      attacked word, noise elsewhere; the hypothesis data model(selection_function(metadata)).
   3. SPEC SCORES: for each attack class the statistic of the colleagues' SPEC (Pearson, difference of class means,
      F / NICV / SNR over value classes, mutual information of the joint histogram, mean Mahalanobis distance) applied to a
      hypothesis column, and the discriminant over the samples.
   4. PER-CAMPAIGN CERTIFICATE (C-tie): records and check functions evaluated by vm_compute on every run.

   Only Model/Cpa.v is imported; the other colleagues' modules are used with qualified names (their short names clash). *)
From Coq Require Import ZArith QArith Qcanon List Bool Lia.
From ScaredV Require Import Lib.QcSum Lib.Arr Run.Compare Model.Cpa.
From ScaredV Require Model.Models Model.Partitioned Model.Mia Model.Template.
Import ListNotations.
Open Scope Qc_scope.

(* ================================================================ 1. pipeline layout *)
Section Pipeline.
  Variables X Y O Sc : Type.
  Variables (dX : X) (dY : Y) (dO : O) (dSc : Sc).
  Variable stat : list (X * Y) -> O.            (* the per-entry statistic of the distinguisher *)
  Variable disc : list O -> Sc.                 (* the discriminant on one lane = the samples of one (guess, word) *)

  (* the data passed to update(): per trace the array model(selection_function(metadata)) of shape (G, W), as a function
     on multi-indices [g; w].  Hypothesis column (g, w) = its values over the traces. *)
  Definition hyp_col (data : list (list nat -> Y)) (g w : nat) : list Y := map (fun a => a [g; w]) data.

  (* distinguisher.compute() = .results, C-order flat array of shape (G, W, S) (Model/Cpa.v: update + compute) *)
  Definition results_flat (G W S : nat) (traces : list (list X)) (data : list (list nat -> Y)) : list O :=
    concat (table2d X Y O dX dY stat traces (map (linearise Y [G; W]) data) (prod [G; W]) S).
  Definition result_at (G W S : nat) traces data (g w s : nat) : O :=
    distinguisher_result X Y O dX dY dO stat [G; W] S traces data [g; w; s].

  (* BaseAttack.compute_results: scores = discriminant(results), the discriminant reduces the LAST axis (Model/Models.v) *)
  Definition scores_flat (G W S : nat) traces data : list Sc :=
    Models.reduce_axis dO disc [G; W; S] 2 (results_flat G W S traces data).
  Definition score_at (G W S : nat) traces data (g w : nat) : Sc := nth (g * W + w) (scores_flat G W S traces data) dSc.
  (* scores[:, w]: the scores of word w along the guess axis *)
  Definition score_column (G W S : nat) traces data (w : nat) : list Sc :=
    map (fun g => score_at G W S traces data g w) (seq 0 G).
End Pipeline.

(* numpy argmax: the FIRST index holding the maximum *)
Definition am_step (st : Q * nat * nat) (x : Q) : Q * nat * nat :=
  let '(best, bi, i) := st in if Qle_bool x best then (best, bi, S i) else (x, i, S i).
Definition argmax (l : list Q) : nat :=
  match l with [] => O | x :: t => snd (fst (fold_left am_step t (x, O, 1%nat))) end.

(* ================================================================ 2. simulated campaign *)
Section Wiring.
  Variables K M V : Type.
  Variable sf : M -> nat -> nat -> V.           (* selection function: metadata of one trace -> guess index -> word -> value *)
  Variable model : V -> Z.                      (* leakage model *)
  Variable state : K -> M -> nat -> V.          (* the real cipher's targeted state (word w) under key k: C07's right-hand side *)
  Variable ek : K -> nat -> nat.                (* expected-key function: guess index of word w *)
  Variable leak_word : nat -> option nat.       (* sample -> the attacked word leaking there (None: pure noise) *)

  Definition sim_sample (k : K) (gain : Z) (m : M) (noise : nat -> Z) (s : nat) : Z :=
    match leak_word s with
    | Some w => (gain * model (state k m w) + noise s)%Z
    | None => noise s
    end.
  Definition sim_trace (S : nat) (k : K) (gain : Z) (mn : M * (nat -> Z)) : list Z :=
    map (sim_sample k gain (fst mn) (snd mn)) (seq 0 S).
  (* what the analysis object gives to update() for one trace *)
  Definition hyp_data (m : M) : list nat -> Z := fun idx => model (sf m (nth 0 idx O) (nth 1 idx O)).
End Wiring.

(* ================================================================ 3. spec scores *)
(* the partition statistics with the means shared (vm_compute would recompute [qmean l] for every element of [ssd l]);
   convertible with the spec of Model/Partitioned.v (Proofs/Attack.v: metric_fast_eq) *)
Definition ss_within_fast (gs : list (list Qc)) : Qc := qsum (map ssd_fast gs).
Definition F_fast (gs : list (list Qc)) : option Qc :=
  let K := qlen gs in
  let N := qlen (concat gs) in
  if Qc_eq_bool (K - 1) 0 || Qc_eq_bool (N - K) 0 || Qc_eq_bool (ss_within_fast gs) 0 then None
  else Some ((Partitioned.ss_between gs / (K - 1)) / (ss_within_fast gs / (N - K))).
Definition total_var_fast (gs : list (list Qc)) : Qc := ssd_fast (concat gs) / qlen (concat gs).
Definition nicv_fast (gs : list (list Qc)) : option Qc :=
  if Qc_eq_bool (total_var_fast gs) 0 then None else Some (Partitioned.var_of_class_means gs / total_var_fast gs).
Definition snr_noise_fast (gs : list (list Qc)) : Qc := qsum (map (fun g => ssd_fast g / qlen g) gs) / qlen gs.
Definition snr_fast (gs : list (list Qc)) : option Qc :=
  if Qc_eq_bool (snr_noise_fast gs) 0 then None else Some (Partitioned.snr_signal gs / snr_noise_fast gs).
Definition metric_fast (m : Partitioned.metric) (gs : list (list Qc)) : option Qc :=
  match m with Partitioned.ANOVA => F_fast gs | Partitioned.NICV => nicv_fast gs | Partitioned.SNR => snr_fast gs end.

(* Pearson's r = num / sqrt (dx dy) is irrational; x |-> x |x| is strictly increasing and odd, so every order comparison of
   correlations (max, max of absolute values, opposite of min) can be made on  sign(num) num^2 / (dx dy)  instead *)
Definition sgn_sq (t : Cpa.triple) : Qc :=
  let '(num, dx, dy) := t in
  let q := sq num / (dx * dy) in if Qle_bool 0%Q num then q else - q.

Inductive akind := ACpa | ADpa | APart (m : Partitioned.metric) | AMia | ATdpa.

(* the spec statistic of one (hypothesis column, sample column) pair *)
Definition stat_value (k : akind) (parts : list Z) (edges lntab : list Qc) (xs : list Qc) (hs : list Z) : option Qc :=
  match k with
  | ACpa => option_map sgn_sq (pearson_fast (combine xs (map qz hs)))
  | ADpa => dpa_spec (combine xs (map (Z.eqb 1) hs))
  | APart m => metric_fast m (Partitioned.groups (nodup Z.eq_dec parts) (combine hs xs))
  | AMia => Mia.comp (Mia.phi_ln lntab) (Mia.nbins edges) (length parts)
              (Mia.hist_bsum edges (Mia.est_exact edges) parts (combine xs hs))
  | ATdpa => None
  end.

(* the transformation of the code's float score that is compared with the model score *)
Definition code_tr (k : akind) (v : Q) : Q := match k with ACpa => (v * Qabs' v)%Q | _ => v end.
(* the discriminants that commute with x |-> x |x| (S = number of samples of the attacked frame) *)
Definition disc_allowed (S : nat) (k : akind) (op : Models.disc_op) : bool :=
  match k, op with
  | ACpa, (Models.DNansum | Models.DAbssum) => Nat.eqb S 1       (* a sum over ONE sample is that sample *)
  | _, _ => true
  end.

(* ================================================================ 4. per-campaign certificate *)
Record word_obs := {
  wo_expected : Z;              (* selection_function.compute_expected_key(key=...)[word] *)
  wo_guesses : list Z;          (* positions on the guess axis of .scores that are evaluated (a subset, the expected key included) *)
  wo_hyp : list (list Z);       (* for each of them: model(selection_function(metadata))[:, guess, word] over the traces (from the code) *)
  wo_state : list Z;            (* model(word of the targeted state of the real cipher run under the true key), per trace *)
  wo_leak : list nat            (* the samples at which this word leaks *)
}.

Record attack_obs := {
  ao_kind : akind;
  ao_disc : Models.disc_op;
  ao_word : nat;                (* index in cc_words *)
  ao_T : list (list fval);      (* ATdpa: class means of the building set (classes x samples) and the pseudo-inverse of its pooled *)
  ao_P : list (list fval);      (*        covariance, computed by the harness from the building traces (numpy pinv), rounded dyadics *)
  ao_scores : list fval;        (* .scores[guess, word] at the guesses of wo_guesses *)
  ao_argmax : Z;                (* .scores.argmax(axis=0)[word] over ALL guesses *)
  ao_sep : bool                 (* the harness's own exact evaluation of "the model separates" (cross-checked here) *)
}.

Record camp_case := {
  cc_S : nat;                   (* samples per trace (of the attacked frame) *)
  cc_offset : Z;                (* baseline of the traces *)
  cc_gain : Z;                  (* polarity and amplitude of the leakage: sample = offset + gain * model(state) + noise *)
  cc_amp : Z;                   (* noise amplitude a: every noise term is in [-a, a] *)
  cc_traces : list (list Z);
  cc_words : list word_obs;
  cc_parts : list Z;            (* partitions of the partitioned attacks *)
  cc_edges : list Z;            (* MIA bin_edges, in halves: edge = z / 2 *)
  cc_ln : list fval;            (* ln 1 .. ln n as computed by the harness (math.log) *)
  cc_attacks : list attack_obs
}.

Fixpoint all_some {A} (l : list (option A)) : option (list A) :=
  match l with
  | [] => Some []
  | None :: _ => None
  | Some x :: r => match all_some r with Some r' => Some (x :: r') | None => None end
  end.

Definition fmat (m : list (list fval)) : option (list (list Qc)) := all_some (map (fun r => all_some (map fval_qc r)) m).

Definition sample_col (c : camp_case) (s : nat) : list Qc := map qz (col 0%Z s (cc_traces c)).
Definition edges_qc (c : camp_case) : list Qc := map (qcz 2) (cc_edges c).
Definition ln_qc (c : camp_case) : list Qc := match all_some (map fval_qc (cc_ln c)) with Some l => l | None => [] end.

(* model score of the guess whose hypothesis column is [hs]: discriminant over the samples of the spec statistic *)
Definition lane_score (c : camp_case) (k : akind) (op : Models.disc_op) (hs : list Z) : option Q :=
  let edges := edges_qc c in let lntab := ln_qc c in
  Models.disc_lane op
    (map (fun s => option_map this (stat_value k (cc_parts c) edges lntab (sample_col c s) hs)) (seq 0 (cc_S c))).

(* TemplateDPA: candidates = the evaluated guesses; per trace (hypothesis value of every candidate, samples) *)
Definition tdpa_rows (c : camp_case) (w : word_obs) : list Template.mrowt :=
  map (fun ti => (map (fun hs => nth (fst ti) hs (-1)%Z) (wo_hyp w), map qz (snd ti)))
      (combine (seq 0 (length (cc_traces c))) (cc_traces c)).
Definition tdpa_scores (c : camp_case) (a : attack_obs) (w : word_obs) : list (option Q) :=
  match fmat (ao_T a), fmat (ao_P a) with
  | Some T, Some P =>
      let rows := tdpa_rows c w in
      map (fun g => Some (this (Template.spec_score P (cc_S c) T Template.Dpa (cc_parts c) rows g)))
          (seq 0 (length (wo_hyp w)))
  | _, _ => map (fun _ => None) (wo_hyp w)
  end.

Definition model_scores (c : camp_case) (a : attack_obs) (w : word_obs) : list (option Q) :=
  match ao_kind a with
  | ATdpa => tdpa_scores c a w
  | k => map (lane_score c k (ao_disc a)) (wo_hyp w)
  end.

(* --- "the model separates": the expected key (position i of the evaluated guesses) leads every other evaluated guess by
   thr = (its score - the worst score) / 8, thr at least max |score| / 256 (so that thr / 4 stays far above the float error
   of a score).  Otherwise the noise won on this small set: nothing is asserted (the campaign is discarded and counted). *)
Definition qmin_list (d : Q) (l : list Q) : Q := fold_right (fun x a => if Qle_bool x a then x else a) d l.
Definition qmaxabs_list (l : list Q) : Q := fold_right (fun x a => Qmax' (Qabs' x) a) 0%Q l.
Definition nthq (l : list Q) (i : nat) : Q := nth i l 0%Q.

Definition gaps_ok (qs : list Q) (i : nat) (thr : Q) : bool :=
  forallb (fun j => Nat.eqb j i || Qle_bool (nthq qs j + thr) (nthq qs i)) (seq 0 (length qs)).

(* the evaluated guess at position i leads every other one by thr *)
Definition separated_at (qs : list Q) (i : nat) : option Q :=
  let best := nthq qs i in
  let thr := Qred ((best - qmin_list best qs) / 8) in
  if Nat.leb 2 (length qs) && Nat.ltb i (length qs) && negb (Qle_bool thr 0) && Qle_bool (qmaxabs_list qs / 256) thr && gaps_ok qs i thr
  then Some thr else None.

Definition separated (ms : list (option Q)) (i : nat) : option Q :=
  match all_some ms with Some qs => separated_at qs i | None => None end.

(* position of the expected key among the evaluated guesses *)
Fixpoint find_pos (e : Z) (gs : list Z) : option nat :=
  match gs with
  | [] => None
  | g :: t => if Z.eqb g e then Some O else option_map S (find_pos e t)
  end.

Definition is_some {A} (o : option A) : bool := match o with Some _ => true | None => false end.

(* |code_tr (code score) - model score| <= tol at every evaluated guess *)
Definition score_close (k : akind) (tol : Q) (v : fval) (q : option Q) : bool :=
  match v, q with
  | Fin m e, Some x => Qle_bool (Qabs' (code_tr k (q_of_fin m e) - x)) tol
  | _, _ => false
  end.

Definition word_shape_ok (c : camp_case) (w : word_obs) : bool :=
  let n := length (cc_traces c) in
  Nat.eqb (length (wo_hyp w)) (length (wo_guesses w))
  && forallb (fun hs => Nat.eqb (length hs) n) (wo_hyp w).

(* the property clauses for one attack object and one attacked word *)
Definition attack_ok (c : camp_case) (a : attack_obs) : bool :=
  match nth_error (cc_words c) (ao_word a) with
  | None => false
  | Some w =>
      match find_pos (wo_expected w) (wo_guesses w) with
      | None => false                                     (* the expected key is not a position of the guess axis *)
      | Some i =>
          let ms := model_scores c a w in
          word_shape_ok c w
          && disc_allowed (cc_S c) (ao_kind a) (ao_disc a)
          && Nat.eqb (length (ao_scores a)) (length (wo_guesses w))
          && Bool.eqb (ao_sep a) (is_some (separated ms i))
          && match separated ms i with
             | None => true                               (* the model does not rank the true key first with margin: discarded *)
             | Some thr =>
                 Z.eqb (ao_argmax a) (wo_expected w)      (* the code ranks the expected key first over all guesses *)
                 && forallb2 (score_close (ao_kind a) (thr / 4)) (ao_scores a) ms
             end
      end
  end.

(* the premise of the simulation, checked on the data: the hypothesis column at the expected key IS the leakage
   intermediate model(real cipher state under the true key) -- the C07 fact for this campaign *)
Definition hyp_at (w : word_obs) (g : Z) : option (list Z) :=
  match find (fun p => Z.eqb (fst p) g) (combine (wo_guesses w) (wo_hyp w)) with Some p => Some (snd p) | None => None end.
Definition word_state_ok (w : word_obs) : bool :=
  match hyp_at w (wo_expected w) with Some hs => zlist_eqb hs (wo_state w) | None => false end.

Definition traces_ok (c : camp_case) : bool :=
  negb (Nat.eqb (length (cc_traces c)) 0) && forallb (fun r => Nat.eqb (length r) (cc_S c)) (cc_traces c).

Definition camp_check (c : camp_case) : bool :=
  traces_ok c && forallb word_state_ok (cc_words c) && forallb (attack_ok c) (cc_attacks c).

(* --- the shape of the simulated traces, checked on the data (correspondence): offset + gain * leakage intermediate + noise
   in [-a, a] at the leaking samples, offset + noise elsewhere *)
Definition zabs_le (z a : Z) : bool := (Z.abs z <=? a)%Z.
Definition word_wiring_ok (c : camp_case) (w : word_obs) : bool :=
  forallb (fun s => forallb2 (fun r h => zabs_le (nth s r 0%Z - cc_offset c - cc_gain c * h) (cc_amp c)) (cc_traces c) (wo_state w)) (wo_leak w).
Definition noise_only_ok (c : camp_case) : bool :=
  let leaking := flat_map wo_leak (cc_words c) in
  forallb (fun s => existsb (Nat.eqb s) leaking || forallb (fun r => zabs_le (nth s r 0%Z - cc_offset c) (cc_amp c)) (cc_traces c))
          (seq 0 (cc_S c)).
Definition camp_wiring (c : camp_case) : bool := forallb (word_wiring_ok c) (cc_words c) && noise_only_ok c.

(* for replay files: per attack the model scores at the evaluated guesses and the separation verdict *)
Definition camp_explain (c : camp_case) : list (nat * list (option Q) * option Q) :=
  map (fun a => match nth_error (cc_words c) (ao_word a) with
                | Some w => let ms := model_scores c a w in
                            (ao_word a, map (option_map Qred) ms,
                             match find_pos (wo_expected w) (wo_guesses w) with Some i => separated ms i | None => None end)
                | None => (ao_word a, [], None)
                end) (cc_attacks c).
