(* Model/Ttest.v — spec and impl-model of scared/ttest.py (property C09).  Executable definitions only; the proofs
   are in Proofs/Ttest.v.

   1. the per-sample accumulator (n, sum x, sum x^2) in the shape of Model/Accum.v (st, st_zero, st_plus, contrib,
      comp), re-usable by C01;
   2. the Welch statistic, square-root free: the pair (m1 - m2, v1/n1 + v2/n2), None when undefined;
      [welch_code] is the code's formula on two accumulators, [welch_def] the definition on two lists of values
      (population variances sum (x - m)^2 / n);
   3. the two accumulator threads and TTestAnalysis.run(): a thread is a list of steps [Batch rows | Fail], a schedule
      is a list of (thread, step); generic in the accumulator (Section variables);
   4. the kernel _update_core: a prange over samples, each iteration rewriting one cell;
   5. the records and check functions of the correspondence harness (tools/props/C09.py). *)
From Coq Require Import ZArith QArith Qcanon List Bool.
From ScaredV Require Import Lib.QcSum Lib.Interleave Model.Accum Run.Compare.
Import ListNotations.
Local Open Scope Qc_scope.

(* ================================================================================ 1. per-sample accumulator *)
Definition st : Type := (Qc * Qc * Qc)%type.          (* (processed_traces, sum[i], sum_squared[i]) *)
Definition st_n (s : st) : Qc := fst (fst s).
Definition st_sx (s : st) : Qc := snd (fst s).
Definition st_sxx (s : st) : Qc := snd s.
Definition st_zero : st := (0, 0, 0).
Definition st_plus (a b : st) : st := (st_n a + st_n b, st_sx a + st_sx b, st_sxx a + st_sxx b).
Definition contrib (x : Qc) : st := (1, x, x * x).    (* one trace, at this sample *)

Definition qc_eqb (a b : Qc) : bool := Qeq_bool a b.
Definition qc_leb (a b : Qc) : bool := Qle_bool a b.
Definition qc_ltb (a b : Qc) : bool := negb (Qle_bool b a).
Definition qc_abs (a : Qc) : Qc := if qc_leb 0 a then a else - a.

(* accu.compute(): (mean, var); None = TTestError (no trace processed) *)
Definition mv : Type := (Qc * Qc)%type.
Definition comp (s : st) : option mv :=
  if qc_eqb (st_n s) 0 then None
  else let m := st_sx s / st_n s in Some (m, st_sxx s / st_n s - m * m).

Definition t_bsum : list Qc -> st := bsum st Qc st_zero st_plus contrib.
Definition t_upd : st -> list Qc -> st := upd st Qc st_zero st_plus contrib.           (* update(batch) *)
Definition t_feed : st -> list (list Qc) -> st := feed st Qc st_zero st_plus contrib.  (* successive updates *)

(* ================================================================================ 2. the Welch statistic *)
(* (num, den) stands for num / sqrt den; None: undefined (den = 0, or an empty set) *)
Definition welch : Type := option (Qc * Qc).

(* TTestAnalysis._compute, from the stored mean/var of both accumulators and their processed_traces *)
Definition welch_mv (m1 m2 : mv) (n1 n2 : Qc) : welch :=
  let den := snd m1 / n1 + snd m2 / n2 in
  if qc_eqb den 0 then None else Some (fst m1 - fst m2, den).
Definition final (m1 m2 : mv) (s1 s2 : st) : welch := welch_mv m1 m2 (st_n s1) (st_n s2).

(* the code's formula on two accumulators *)
Definition welch_code (s1 s2 : st) : welch :=
  match comp s1, comp s2 with
  | Some m1, Some m2 => final m1 m2 s1 s2
  | _, _ => None
  end.

(* the definition, on the values themselves: population variance = sum (x - mean)^2 / n *)
Definition pvar (l : list Qc) : Qc := ssd l / qlen l.
Definition wnum (l1 l2 : list Qc) : Qc := qmean l1 - qmean l2.
Definition wden (l1 l2 : list Qc) : Qc := pvar l1 / qlen l1 + pvar l2 / qlen l2.
Definition welch_def (l1 l2 : list Qc) : welch :=
  match l1, l2 with
  | [], _ | _, [] => None
  | _, _ => if qc_eqb (wden l1 l2) 0 then None else Some (wnum l1 l2, wden l1 l2)
  end.

(* ================================================================================ 3. threads and run() *)
Inductive tid := T1 | T2.
Definition tid_is1 (t : tid) : bool := match t with T1 => true | T2 => false end.

Section Run.
  Variables St R MV Out : Type.
  Variable zero : St.
  Variable plus : St -> St -> St.
  Variable contrib_ : R -> St.
  Variable comp_ : St -> option MV.                 (* accu.compute(); None = TTestError *)
  Variable final_ : MV -> MV -> St -> St -> Out.    (* TTestAnalysis._compute *)

  (* one iteration of the loop of TTestThreadAccumulator.run: the batch is fetched (frame, preprocesses) and
     accumulated, or fetching it raises *)
  Inductive tstep := Batch (rows : list R) | Fail.
  Definition is_fail (s : tstep) : bool := match s with Fail => true | Batch _ => false end.
  Definition sched : Type := list (tid * tstep).
  Definition tag (t : tid) (l : list tstep) : sched := map (pair t) l.

  (* the two threads while they run: own sums, own _exception flag; fuel2 = Some k once thread 1 has failed:
     the main thread leaves accu_1.join() with the exception and reaches accu_2.stop() in its finally block; thread 2
     notices the flag after k more iterations (k is arbitrary: it depends on timing) *)
  Record pstate := { p1 : St; p2 : St; f1 : bool; f2 : bool; fuel2 : option nat }.

  Definition thr_step (k : nat) (p : pstate) (e : tid * tstep) : pstate :=
    match e with
    | (T1, s) =>
        if f1 p then p else
        match s with
        | Batch b => {| p1 := upd St R zero plus contrib_ (p1 p) b; p2 := p2 p; f1 := false; f2 := f2 p; fuel2 := fuel2 p |}
        | Fail => {| p1 := p1 p; p2 := p2 p; f1 := true; f2 := f2 p; fuel2 := Some k |}
        end
    | (T2, s) =>
        if f2 p then p else
        match fuel2 p with
        | Some O => p                                                    (* _stop_loop seen: return *)
        | fu =>
            let fu' := option_map Nat.pred fu in
            match s with
            | Batch b => {| p1 := p1 p; p2 := upd St R zero plus contrib_ (p2 p) b; f1 := f1 p; f2 := false; fuel2 := fu' |}
            | Fail => {| p1 := p1 p; p2 := p2 p; f1 := f1 p; f2 := true; fuel2 := fu' |}
            end
        end
    end.

  Definition pinit (s1 s2 : St) : pstate := {| p1 := s1; p2 := s2; f1 := false; f2 := false; fuel2 := None |}.
  Definition threads (k : nat) (s1 s2 : St) (l : sched) : pstate := exec (thr_step k) (pinit s1 s2) l.

  (* the analysis object: per accumulator the sums and the stored (mean, var) of its last compute(); .result *)
  Record accu := { sums : St; meanvar : option MV }.
  Record analysis := { a1 : accu; a2 : accu; result : option Out }.
  Definition fresh : analysis :=
    {| a1 := {| sums := zero; meanvar := None |}; a2 := {| sums := zero; meanvar := None |}; result := None |}.

  Inductive outcome := Done (a : analysis) | Raised (a : analysis).
  Definition out_state (o : outcome) : analysis := match o with Done a => a | Raised a => a end.

  (* accu.join(); accu.compute()  — None: an exception leaves the try block *)
  Definition join_compute (failed : bool) (s : St) : option MV := if failed then None else comp_ s.

  (* TTestAnalysis.run(container): start both threads; try: join+compute accumulator 1, then 2; finally: stop/join
     both (touches neither sums, mean/var nor result, and swallows the exceptions of these joins); then, only if
     no exception is propagating, _compute() stores the result *)
  Definition ttest_run (a : analysis) (l : sched) (k : nat) : outcome :=
    let p := threads k (sums (a1 a)) (sums (a2 a)) l in
    let acc1 := {| sums := p1 p; meanvar := meanvar (a1 a) |} in
    let acc2 := {| sums := p2 p; meanvar := meanvar (a2 a) |} in
    match join_compute (f1 p) (p1 p) with
    | None => Raised {| a1 := acc1; a2 := acc2; result := result a |}
    | Some m1 =>
        let acc1' := {| sums := p1 p; meanvar := Some m1 |} in
        match join_compute (f2 p) (p2 p) with
        | None => Raised {| a1 := acc1'; a2 := acc2; result := result a |}
        | Some m2 =>
            Done {| a1 := acc1'; a2 := {| sums := p2 p; meanvar := Some m2 |};
                    result := Some (final_ m1 m2 (p1 p) (p2 p)) |}
        end
    end.

  (* successive run() calls on the same object; stops at the first exception *)
  Fixpoint ttest_runs (a : analysis) (rs : list (sched * nat)) : outcome :=
    match rs with
    | [] => Done a
    | (l, k) :: rest => match ttest_run a l k with Done a' => ttest_runs a' rest | Raised a' => Raised a' end
    end.

  (* a failure-free run() call: the batches of the two sets, an interleaving of them, a stop delay *)
  Record runspec := { rs_b1 : list (list R); rs_b2 : list (list R); rs_sched : sched; rs_delay : nat }.
  Definition rs_wf (r : runspec) : Prop :=
    merge (tag T1 (map Batch (rs_b1 r))) (tag T2 (map Batch (rs_b2 r))) (rs_sched r).
  Definition rs_calls (rs : list runspec) : list (sched * nat) := map (fun r => (rs_sched r, rs_delay r)) rs.

  (* the steps of one thread inside a schedule *)
  Definition proj1 (l : sched) : list tstep := map snd (filter (fun e => tid_is1 (fst e)) l).
  Definition proj2 (l : sched) : list tstep := map snd (filter (fun e => negb (tid_is1 (fst e))) l).

  (* what one thread does on its own: the batches before its first Fail *)
  Fixpoint before_fail (l : list tstep) : list (list R) :=
    match l with Batch b :: r => b :: before_fail r | _ => [] end.
End Run.

Arguments Batch {R} rows.
Arguments Fail {R}.
Arguments is_fail {R} s.
Arguments tag {R} t l.
Arguments before_fail {R} l.
Arguments rs_b1 {R} r. Arguments rs_b2 {R} r. Arguments rs_sched {R} r. Arguments rs_delay {R} r.
Arguments rs_wf {R} r. Arguments rs_calls {R} rs.
Arguments proj1 {R} l. Arguments proj2 {R} l.
Arguments p1 {St} p. Arguments p2 {St} p. Arguments f1 {St} p. Arguments f2 {St} p. Arguments fuel2 {St} p.
Arguments sums {St MV} a. Arguments meanvar {St MV} a.
Arguments a1 {St MV Out} a. Arguments a2 {St MV Out} a. Arguments result {St MV Out} a.
Arguments Done {St MV Out} a. Arguments Raised {St MV Out} a.
Arguments out_state {St MV Out} o.

(* the per-sample instance *)
Definition tt_analysis : Type := analysis st mv welch.
Definition tt_fresh : tt_analysis := fresh st mv welch st_zero.
Definition tt_threads := threads st Qc st_zero st_plus contrib.
Definition tt_run : tt_analysis -> sched Qc -> nat -> outcome st mv welch :=
  ttest_run st Qc mv welch st_zero st_plus contrib comp final.
Definition tt_runs : tt_analysis -> list (sched Qc * nat) -> outcome st mv welch :=
  ttest_runs st Qc mv welch st_zero st_plus contrib comp final.

(* ================================================================================ 4. the kernel _update_core *)
(* for i in prange(samples): sum[i] += sum of column i; sum_squared[i] += column i . column i
   — iteration i rewrites cell i from its old value and the batch (read-only) *)
Definition bcolumn (i : nat) (batch : list (list Qc)) : list Qc := map (fun row => nth i row 0) batch.
Definition kernel_iter (batch : list (list Qc)) (i : nat) : nat * (st -> st) :=
  (i, fun c => st_plus c (t_bsum (bcolumn i batch))).
(* the iterations executed in the given order (a schedule of the prange) *)
Definition update_core (order : list nat) (batch : list (list Qc)) (cells : list st) : list st :=
  exec cstep cells (map (kernel_iter batch) order).
Definition update_core_seq (batch : list (list Qc)) (cells : list st) : list st :=
  update_core (seq 0 (length cells)) batch cells.

(* ================================================================================ 5. correspondence cases *)
Local Open Scope Z_scope.

(* elementwise preprocesses the harness hands to the container (besides sleeping / raising) *)
Inductive preop := PId | PSquare | PAbs | PAffine (a b : Z).
Definition apply_pre (p : preop) (x : Qc) : Qc :=
  match p with
  | PId => x
  | PSquare => (x * x)%Qc
  | PAbs => qc_abs x
  | PAffine a b => (qz a * x + qz b)%Qc
  end.
Definition apply_pres (ps : list preop) (x : Qc) : Qc := fold_left (fun v p => apply_pre p v) ps x.

Definition qval (scale : positive) (z : Z) : Qc := Q2Qc (Qmake z scale).

(* value at output sample j of a raw trace: frame, then preprocesses *)
Definition cell (scale : positive) (frame : list nat) (pres : list preop) (j : nat) (row : list Z) : Qc :=
  apply_pres pres (qval scale (nth (nth j frame 0%nat) row 0)).
Definition column (scale : positive) (frame : list nat) (pres : list preop) (j : nat) (rows : list (list Z)) : list Qc :=
  map (cell scale frame pres j) rows.

Definition width (rows : list (list Z)) : nat := match rows with r :: _ => length r | [] => 0%nat end.
Definition shape_ok (frame : list nat) (rows : list (list Z)) : bool :=
  forallb (fun r => Nat.eqb (length r) (width rows)) rows && forallb (fun i => Nat.ltb i (width rows)) frame.

Fixpoint chunks_fuel {A} (fuel bs : nat) (l : list A) : list (list A) :=
  match fuel with
  | O => []
  | S f => match l with [] => [] | _ => firstn bs l :: chunks_fuel f bs (skipn bs l) end
  end.
(* the batches of _TracesBatchIterable: consecutive slices of bs rows, the last one shorter *)
Definition chunks {A} (bs : nat) (l : list A) : list (list A) := chunks_fuel (length l) bs l.

Definition mk_steps (bs : nat) (fail : option nat) (col : list Qc) : list (tstep Qc) :=
  let cs := chunks bs col in
  match fail with
  | None => map Batch cs
  | Some f => map Batch (firstn f cs) ++ Fail :: map Batch (skipn (S f) cs)
  end.
Definition fail_ok {A} (bs : nat) (fail : option nat) (rows : list A) : bool :=
  match fail with None => true | Some f => Nat.ltb f (length (chunks bs rows)) end.

(* ---- the definition again, written so that call-by-value evaluation computes each mean once (the [let]s); it is
   convertible with [welch_def] (Proofs/Ttest.v: welch_def_c_eq, by reflexivity) *)
Definition ssd_c (l : list Qc) : Qc := let m := qmean l in qsum (map (fun x => sq (x - m)%Qc) l).
Definition welch_def_c (l1 l2 : list Qc) : welch :=
  match l1, l2 with
  | [], _ | _, [] => None
  | _, _ =>
      let den := (ssd_c l1 / qlen l1 / qlen l1 + ssd_c l2 / qlen l2 / qlen l2)%Qc in
      if qc_eqb den 0 then None else Some (wnum l1 l2, den)
  end.

(* ---- tolerances *)
Definition qsum_abs (l : list Qc) : Qc := qsum (map qc_abs l).
Definition qsum_sq (l : list Qc) : Qc := qsum (map sq l).

Fixpoint is_pow2 (p : positive) : bool := match p with xH => true | xO q => is_pow2 q | xI _ => false end.
Definition max_den (l : list Qc) : positive := fold_right (fun (x : Qc) d => Pos.max (Qden x) d) 1%positive l.
(* all values are dyadic and the scaled sum of squares fits the mantissa: every float sum the code forms is exact *)
Definition is_exact (p : prec) (l : list Qc) : bool :=
  let d := max_den l in
  forallb (fun x : Qc => is_pow2 (Qden x)) l &&
  Qle_bool (qsum_sq l * Q2Qc (inject_Z (Zpos d * Zpos d)))%Qc
           (inject_Z (match p with F32 => 2 ^ 24 | F64 => 2 ^ 53 end)).

Definition uqc (p : prec) : Qc := Q2Qc (uround p).
Definition qc_of_fval (v : fval) : option Qc := fval_qc v.
Definition fval_same (a b : fval) : bool :=
  match a, b with
  | Fin m e, Fin m' e' => Qeq_bool (q_of_fin m e) (q_of_fin m' e')
  | NaN, NaN | PInf, PInf | NInf, NInf => true
  | _, _ => false
  end.

(* observed float v against the model value x: equal when [ex], else |v - x| <= tol *)
Definition close_to (ex : bool) (tol : Qc) (v : fval) (x : Qc) : bool :=
  match qc_of_fval v with
  | None => false
  | Some q => if ex then qc_eqb q x else qc_leb (qc_abs (q - x)) tol
  end.
Definition close_abs (tol : Qc) (v : fval) (x : Qc) : bool :=
  match qc_of_fval v with None => false | Some q => qc_leb (qc_abs (q - x)) tol end.

(* r * sqrt den <= b, for den >= 0, without square roots *)
Definition le_rsqrt (r den b : Qc) : bool :=
  if qc_leb 0 r then qc_leb 0 b && qc_leb (r * r * den) (b * b)
  else qc_leb 0 b || qc_leb (b * b) (r * r * den).

Definition kfactor (ex : bool) (ntot : Qc) : Qc := if ex then qz 16 else (qz 4 * ntot + qz 16)%Qc.

(* the result observed at one sample against the definition; the sets enter through their sizes n, sums of |x| (ab)
   and sums of x^2 (sq), the definition's value w and its numerator *)
Definition result_ok_w (p : prec) (ex : bool) (n1 n2 ab1 ab2 sq1 sq2 : Qc) (w : welch) (wn : Qc) (r : fval) : bool :=
  let k := kfactor ex (n1 + n2) in
  let u := uqc p in
  match w with
  | Some (num, den) =>
      let ed := (k * u * qz 2 * (sq1 / (n1 * n1) + sq2 / (n2 * n2)))%Qc in
      let en := (k * u * (ab1 / n1 + ab2 / n2))%Qc in
      if qc_leb den (qz 2 * ed)%Qc then true                 (* the float denominator cannot be told from 0 *)
      else match qc_of_fval r with
           | Some rq =>
               let t := (qz 2 * en + qc_abs num * ed / den + qz 4 * u * qc_abs num)%Qc in
               le_rsqrt rq den (num + t)%Qc && le_rsqrt (- rq)%Qc den (t - num)%Qc
           | None => false
           end
  | None =>
      if ex then match r with
                 | NaN => true
                 | PInf => qc_ltb 0 wn
                 | NInf => qc_ltb wn 0
                 | Fin _ _ => false
                 end
      else true
  end.
Definition result_ok (p : prec) (ex : bool) (l1 l2 : list Qc) (r : fval) : bool :=
  result_ok_w p ex (qlen l1) (qlen l2) (qsum_abs l1) (qsum_abs l2) (qsum_sq l1) (qsum_sq l2)
              (welch_def_c l1 l2) (wnum l1 l2) r.

(* sums, mean, var of one accumulator at one sample against the model state and the column it was fed *)
Definition sums_ok_w (p : prec) (ex : bool) (ntot ab sq_ : Qc) (s : st) (n : Z) (lsum lsq : list fval) (j : nat) : bool :=
  let k := kfactor ex ntot in
  Qeq_bool (inject_Z n) (st_n s)
  && match lsum, lsq with
     | [], [] => Z.eqb n 0              (* the arrays do not exist before the first update *)
     | _, _ => close_to ex (k * uqc p * ab)%Qc (nth j lsum NaN) (st_sx s)
               && close_to ex (k * uqc p * sq_)%Qc (nth j lsq NaN) (st_sxx s)
     end.
Definition sums_ok (p : prec) (ex : bool) (ntot : Qc) (l : list Qc) (s : st) (n : Z) (lsum lsq : list fval) (j : nat) : bool :=
  sums_ok_w p ex ntot (qsum_abs l) (qsum_sq l) s n lsum lsq j.
Definition meanvar_ok_w (p : prec) (ex : bool) (ntot n ab sq_ : Qc) (m : mv) (vmean vvar : fval) : bool :=
  let k := kfactor ex ntot in
  close_abs (k * uqc p * ab / n)%Qc vmean (fst m)
  && close_abs (k * uqc p * qz 2 * sq_ / n)%Qc vvar (snd m).
Definition meanvar_ok (p : prec) (ex : bool) (ntot : Qc) (l : list Qc) (m : mv) (vmean vvar : fval) : bool :=
  meanvar_ok_w p ex ntot (qlen l) (qsum_abs l) (qsum_sq l) m vmean vvar.

Definition st_eqb (a b : st) : bool := qc_eqb (st_n a) (st_n b) && qc_eqb (st_sx a) (st_sx b) && qc_eqb (st_sxx a) (st_sxx b).
Definition welch_eqb (a b : welch) : bool :=
  option_eqb (fun x y => qc_eqb (fst x) (fst y) && qc_eqb (snd x) (snd y)) a b.

Definition welch_eqb' (x y : option welch) : bool := option_eqb welch_eqb x y.

(* decidable equality of model states (used by the Examples of Props/C09.v) *)
Definition mv_eqb (a b : mv) : bool := qc_eqb (fst a) (fst b) && qc_eqb (snd a) (snd b).
Definition accu_eqb (a b : accu st mv) : bool := st_eqb (sums a) (sums b) && option_eqb mv_eqb (meanvar a) (meanvar b).
Definition analysis_eqb (a b : tt_analysis) : bool :=
  accu_eqb (a1 a) (a1 b) && accu_eqb (a2 a) (a2 b) && welch_eqb' (result a) (result b).
Definition outcome_eqb (x y : outcome st mv welch) : bool :=
  match x, y with
  | Done a, Done b | Raised a, Raised b => analysis_eqb a b
  | _, _ => false
  end.
Definition is_raised (x : outcome st mv welch) : bool := match x with Raised _ => true | Done _ => false end.

(* ---- one TTestAnalysis case: successive run() calls on one object *)
Record tt_obs := {
  r_set1 : list (list Z);              (* raw traces of set 1 of this run (value = z / tc_scale) *)
  r_set2 : list (list Z);
  r_bs : nat;                          (* batch size in force *)
  r_fail1 : option nat;                (* batch at which the preprocess raises in the thread of set 1 *)
  r_fail2 : option nat;
  r_sched : list bool;                 (* order in which the batches were delivered (false: set 1) *)
  r_exc : nat;                         (* 0 run() returned; 1 / 2 it raised the exception injected in set 1 / 2; 3 other *)
  r_result : option (list fval);       (* .result after the call; None: no such attribute *)
  r_n1 : Z; r_sum1 : list fval; r_sq1 : list fval;       (* accumulators[0].processed_traces / sum / sum_squared *)
  r_n2 : Z; r_sum2 : list fval; r_sq2 : list fval;
  r_mean1 : list fval; r_var1 : list fval; r_mean2 : list fval; r_var2 : list fval;  (* [] when absent *)
  (* container histories: the frame / preprocesses attributes of the two containers as they are when this run starts, when
     they were re-assigned or mutated since the container was built (None: the case-level values) *)
  r_over : option ((list nat * list preop) * (list nat * list preop));
  r_fresh : bool                       (* this run (and the following ones) is made on a new TTestAnalysis *)
}.
Record tt_case := {
  tc_prec : prec;
  tc_scale : positive;
  tc_frame : list nat;                 (* resolved frame: indices of the raw samples kept *)
  tc_pres : list preop;
  tc_runs : list tt_obs
}.

Definition fnth (l : list fval) (j : nat) : fval := nth j l NaN.
Definition rframe1 (c : tt_case) (r : tt_obs) : list nat := match r_over r with Some (x, _) => fst x | None => tc_frame c end.
Definition rframe2 (c : tt_case) (r : tt_obs) : list nat := match r_over r with Some (_, y) => fst y | None => tc_frame c end.
Definition rpres1 (c : tt_case) (r : tt_obs) : list preop := match r_over r with Some (x, _) => snd x | None => tc_pres c end.
Definition rpres2 (c : tt_case) (r : tt_obs) : list preop := match r_over r with Some (_, y) => snd y | None => tc_pres c end.
(* the column of each set at sample j, with the attribute values current at run r *)
Definition rcol1 (c : tt_case) (j : nat) (r : tt_obs) : list Qc := column (tc_scale c) (rframe1 c r) (rpres1 c r) j (r_set1 r).
Definition rcol2 (c : tt_case) (j : nat) (r : tt_obs) : list Qc := column (tc_scale c) (rframe2 c r) (rpres2 c r) j (r_set2 r).
Definition has_fail (l : list (tstep Qc)) : bool := existsb is_fail l.

(* run r at sample j, from model state a and cumulative columns all1 all2; returns what follows *)
Definition run_sched (c : tt_case) (j : nat) (r : tt_obs) : sched Qc * list (tstep Qc) * list (tstep Qc) :=
  let col1 := rcol1 c j r in
  let col2 := rcol2 c j r in
  let s1 := mk_steps (r_bs r) (r_fail1 r) col1 in
  let s2 := mk_steps (r_bs r) (r_fail2 r) col2 in
  (weave (r_sched r) (tag T1 s1) (tag T2 s2), s1, s2).

Fixpoint sample_check (c : tt_case) (j : nat) (a : tt_analysis) (all1 all2 : list Qc) (rs : list tt_obs) : bool :=
  match rs with
  | [] => true
  | r :: rest =>
      let p := tc_prec c in
      let col1 := rcol1 c j r in
      let col2 := rcol2 c j r in
      let a := if r_fresh r then tt_fresh else a in
      let all1' := ((if r_fresh r then [] else all1) ++ col1)%list in
      let all2' := ((if r_fresh r then [] else all2) ++ col2)%list in
      let ex1 := is_exact p all1' in
      let ex2 := is_exact p all2' in
      let ntot := (qlen all1' + qlen all2')%Qc in
      let '(l, s1, s2) := run_sched c j r in
      match tt_run a l 0 with
      | Done a' =>
          Nat.eqb (r_exc r) 0
          && sums_ok p ex1 ntot all1' (sums (a1 a')) (r_n1 r) (r_sum1 r) (r_sq1 r) j
          && sums_ok p ex2 ntot all2' (sums (a2 a')) (r_n2 r) (r_sum2 r) (r_sq2 r) j
          (* impl-model state = one-shot accumulation of everything fed so far (spec side) *)
          && st_eqb (sums (a1 a')) (t_upd st_zero all1') && st_eqb (sums (a2 a')) (t_upd st_zero all2')
          && match meanvar (a1 a'), meanvar (a2 a') with
             | Some m1, Some m2 =>
                 meanvar_ok p ex1 ntot all1' m1 (fnth (r_mean1 r) j) (fnth (r_var1 r) j)
                 && meanvar_ok p ex2 ntot all2' m2 (fnth (r_mean2 r) j) (fnth (r_var2 r) j)
             | _, _ => false
             end
          (* the model's result is the definition; the observed result matches the definition *)
          && match result a' with Some w => welch_eqb w (welch_def_c all1' all2') | None => false end
          && match r_result r with
             | Some res => result_ok p (ex1 && ex2) all1' all2' (fnth res j)
             | None => false
             end
          && sample_check c j a' all1' all2' rest
      | Raised _ =>
          (* which exception; accumulator 1 holds exactly the batches before its failure (all of them when only
             thread 2 failed); accumulator 2 holds a prefix that some stop delay k explains *)
          Nat.eqb (r_exc r) (if has_fail s1 then 1 else if has_fail s2 then 2 else 3)
          && match rest with [] => true | _ => false end
          && existsb (fun k =>
               match tt_run a l k with
               | Raised a' =>
                   sums_ok p ex1 ntot all1' (sums (a1 a')) (r_n1 r) (r_sum1 r) (r_sq1 r) j
                   && sums_ok p ex2 ntot all2' (sums (a2 a')) (r_n2 r) (r_sum2 r) (r_sq2 r) j
                   && welch_eqb' (result a') (result a)
               | Done _ => false
               end) (seq 0 (if has_fail s1 then S (length s2) else 1))
      end
  end.

Definition len_is (L : nat) (l : list fval) : bool := Nat.eqb (length l) L.
Definition lens_ok (L : nat) (r : tt_obs) : bool :=
  (len_is L (r_sum1 r) || len_is 0 (r_sum1 r)) && len_is (length (r_sum1 r)) (r_sq1 r)
  && (len_is L (r_sum2 r) || len_is 0 (r_sum2 r)) && len_is (length (r_sum2 r)) (r_sq2 r)
  && match r_result r with Some res => len_is L res | None => true end
  && (negb (Nat.eqb (r_exc r) 0)
      || (len_is L (r_mean1 r) && len_is L (r_var1 r) && len_is L (r_mean2 r) && len_is L (r_var2 r))).

(* whenever run() raised, .result is what it was before the call (absent, or the same floats) *)
Fixpoint unchanged_ok (prev : option (list fval)) (rs : list tt_obs) : bool :=
  match rs with
  | [] => true
  | r :: rest =>
      (Nat.eqb (r_exc r) 0 || option_eqb (list_eqb fval_same) (r_result r) (if r_fresh r then None else prev))
      && unchanged_ok (r_result r) rest
  end.

Definition tt_check (c : tt_case) : bool :=
  let L := length (tc_frame c) in
  forallb (fun r => shape_ok (rframe1 c r) (r_set1 r) && shape_ok (rframe2 c r) (r_set2 r)
                    && Nat.eqb (length (rframe1 c r)) L && Nat.eqb (length (rframe2 c r)) L
                    && Nat.ltb 0 (r_bs r) && fail_ok (r_bs r) (r_fail1 r) (r_set1 r) && fail_ok (r_bs r) (r_fail2 r) (r_set2 r)
                    && lens_ok L r) (tc_runs c)
  && unchanged_ok None (tc_runs c)
  && forallb (fun j => sample_check c j tt_fresh [] [] (tc_runs c)) (seq 0 L).

(* for replay files: per sample, per run, the definition (num, den) on the cumulated sets *)
Fixpoint cum_spec (c : tt_case) (j : nat) (all1 all2 : list Qc) (rs : list tt_obs) : list (option (Q * Q)) :=
  match rs with
  | [] => []
  | r :: rest =>
      let all1' := ((if r_fresh r then [] else all1) ++ rcol1 c j r)%list in
      let all2' := ((if r_fresh r then [] else all2) ++ rcol2 c j r)%list in
      option_map (fun w => (this (fst w), this (snd w))) (welch_def_c all1' all2') :: cum_spec c j all1' all2' rest
  end.
Definition tt_expected (c : tt_case) : list (list (option (Q * Q))) :=
  map (fun j => cum_spec c j [] [] (tc_runs c)) (seq 0 (length (tc_frame c))).

(* ---- the accumulator alone: update(batch) / run(container) in the calling thread / compute() *)
Inductive acc_op :=
| AUpdate (rows : list (list Z))
| ARun (rows : list (list Z)) (bs : nat) (fail : option nat) (raised : bool)    (* raised: run() raised the injected exception *)
| ACompute (err : bool) (mean var : list fval).                                   (* err: TTestError *)
Record acc_case := {
  ac_prec : prec;
  ac_scale : positive;
  ac_width : nat;
  ac_ops : list acc_op;
  ac_n : Z; ac_sum : list fval; ac_sq : list fval         (* final processed_traces / sum / sum_squared ([] when absent) *)
}.

Definition acol (c : acc_case) (j : nat) (rows : list (list Z)) : list Qc :=
  column (ac_scale c) (seq 0 (ac_width c)) [] j rows.

Fixpoint acc_sample (c : acc_case) (j : nat) (s : st) (seen : list Qc) (ops : list acc_op) : bool :=
  let p := ac_prec c in
  match ops with
  | [] =>
      let ex := is_exact p seen in
      st_eqb s (t_upd st_zero seen)
      && match seen with
         | [] => Z.eqb (ac_n c) 0
         | _ => sums_ok p ex (qlen seen) seen s (ac_n c) (ac_sum c) (ac_sq c) j
         end
  | AUpdate rows :: rest =>
      let col := acol c j rows in acc_sample c j (t_upd s col) (seen ++ col)%list rest
  | ARun rows bs fail raised :: rest =>
      let used := match fail with None => rows | Some f => firstn (f * bs) rows end in
      let col := acol c j used in
      Nat.ltb 0 bs && fail_ok bs fail rows
      && Bool.eqb raised (match fail with None => false | Some _ => true end)
      && acc_sample c j (t_feed s (chunks bs col)) (seen ++ col)%list rest
  | ACompute err mean var :: rest =>
      match comp s with
      | None => err
      | Some m => negb err && meanvar_ok p (is_exact p seen) (qlen seen) seen m (fnth mean j) (fnth var j)
      end
      && acc_sample c j s seen rest
  end.

Definition acc_rows_ok (c : acc_case) : bool :=
  forallb (fun o => match o with
                    | AUpdate rows | ARun rows _ _ _ => forallb (fun r => Nat.eqb (length r) (ac_width c)) rows
                    | ACompute err mean var => err || (len_is (ac_width c) mean && len_is (ac_width c) var)
                    end) (ac_ops c).

Definition acc_check (c : acc_case) : bool :=
  acc_rows_ok c && forallb (fun j => acc_sample c j st_zero [] (ac_ops c)) (seq 0 (ac_width c)).

(* ---- large trace counts: rows are run-length encoded (row, repetitions); the accumulator state of the expanded set is
   computed on the runs directly (weighted sums) — Proofs/Ttest.v: wst_is_expanded shows it is t_bsum of the expansion,
   so welch_code on two such states is welch_def of the two expanded columns (welch_identity) *)
Definition expand {A} (wl : list (A * positive)) : list A := flat_map (fun r => repeat (fst r) (Pos.to_nat (snd r))) wl.
Definition qpos (c : positive) : Qc := Q2Qc (inject_Z (Zpos c)).
Definition wcontrib (x : Qc) (c : positive) : st := (qpos c, qpos c * x, qpos c * (x * x))%Qc.
Definition rl_val (j : nat) (row : list Z) : Qc := qz (nth j row 0).
Definition wst (j : nat) (runs : list (list Z * positive)) : st :=
  fold_right (fun r a => st_plus (wcontrib (rl_val j (fst r)) (snd r)) a) st_zero runs.
Definition wabs (j : nat) (runs : list (list Z * positive)) : Qc :=
  fold_right (fun r a => (qpos (snd r) * qc_abs (rl_val j (fst r)) + a)%Qc) 0%Qc runs.

Record rl_case := {
  rl_prec : prec;
  rl_width : nat;
  rl_set1 : list (list Z * positive);
  rl_set2 : list (list Z * positive);      (* [] : one accumulator driven alone, no result *)
  rl_n1 : Z; rl_sum1 : list fval; rl_sq1 : list fval; rl_mean1 : list fval; rl_var1 : list fval;
  rl_n2 : Z; rl_sum2 : list fval; rl_sq2 : list fval; rl_mean2 : list fval; rl_var2 : list fval;
  rl_result : list fval
}.

Definition rl_exact (p : prec) (s : st) : bool :=
  Qle_bool (st_sxx s) (inject_Z (match p with F32 => 2 ^ 24 | F64 => 2 ^ 53 end)).

Definition rl_acc_ok (p : prec) (ntot : Qc) (j : nat) (runs : list (list Z * positive))
                     (n : Z) (lsum lsq lmean lvar : list fval) : bool :=
  let s := wst j runs in
  let ex := rl_exact p s in
  sums_ok_w p ex ntot (wabs j runs) (st_sxx s) s n lsum lsq j
  && match comp s with
     | Some m => meanvar_ok_w p ex ntot (st_n s) (wabs j runs) (st_sxx s) m (fnth lmean j) (fnth lvar j)
     | None => false
     end.

Definition rl_sample (c : rl_case) (j : nat) : bool :=
  let p := rl_prec c in
  let s1 := wst j (rl_set1 c) in
  match rl_set2 c with
  | [] => rl_acc_ok p (st_n s1) j (rl_set1 c) (rl_n1 c) (rl_sum1 c) (rl_sq1 c) (rl_mean1 c) (rl_var1 c)
          && match rl_result c with [] => true | _ => false end
  | _ =>
      let s2 := wst j (rl_set2 c) in
      let ntot := (st_n s1 + st_n s2)%Qc in
      rl_acc_ok p ntot j (rl_set1 c) (rl_n1 c) (rl_sum1 c) (rl_sq1 c) (rl_mean1 c) (rl_var1 c)
      && rl_acc_ok p ntot j (rl_set2 c) (rl_n2 c) (rl_sum2 c) (rl_sq2 c) (rl_mean2 c) (rl_var2 c)
      && result_ok_w p (rl_exact p s1 && rl_exact p s2) (st_n s1) (st_n s2) (wabs j (rl_set1 c)) (wabs j (rl_set2 c))
                     (st_sxx s1) (st_sxx s2) (welch_code s1 s2)
                     (st_sx s1 / st_n s1 - st_sx s2 / st_n s2)%Qc (fnth (rl_result c) j)
  end.

Definition rl_check (c : rl_case) : bool :=
  forallb (fun r => Nat.eqb (length (fst r)) (rl_width c)) (rl_set1 c ++ rl_set2 c)
  && match rl_set1 c with [] => false | _ => true end
  && forallb (rl_sample c) (seq 0 (rl_width c)).

Definition rl_expected (c : rl_case) : list (option (Q * Q)) :=
  map (fun j => option_map (fun w => (this (fst w), this (snd w))) (welch_code (wst j (rl_set1 c)) (wst j (rl_set2 c))))
      (seq 0 (rl_width c)).
