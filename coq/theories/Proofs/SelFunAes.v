(* Proofs/SelFunAes.v — property C07, AES part.
   1. the helper expressions read from the source evaluate to the (traces, guesses, words) array whose entry (t, j, w) is
      F_w(data[t], guesses[j]) (table level), and the table-level F is the spec-level F of Spec/SelFunTargets.v on bytes;
   2. spec level, for ANY round keys: F_w(data, K[w]) is word w of the targeted state of Cipher_states / InvCipher_states;
   3. the expected-key functions return the round key named by the spec row. *)
From Coq Require Import NArith ZArith Bool Arith String List Lia.
From ScaredV Require Import Generated.AesTables Generated.SelFunWiring Spec.Fips197 Spec.SelFunTargets Model.SelFun
  Proofs.AesPrims Proofs.AesKeys Proofs.AesCipher Proofs.SelFunArr.
From ScaredV Require Model.Aes.
Import ListNotations.
Open Scope N_scope.

(* ================================================================ 1. the helper expressions *)
Definition e_ark : sf_expr := SeSwap 0 1 (SeGuessLoop BXor).
Definition e_sub : sf_expr := SePrim SpSubBytes e_ark.
Definition e_isb : sf_expr := SePrim SpInvSubBytes e_ark.
Definition e_delta : sf_expr := SeSwap 0 1 (SeXor (SePrim SpShiftRows SeData) (SeSwap 0 1 e_isb)).

Definition xg (g : N) (d : list N) : list N := map (fun x => N.lxor x g) d.

Definition len16 (data : list (list N)) : Prop := Forall (fun d => length d = 16%nat) data.

Lemma xg_length g d : length (xg g d) = length d.
Proof. apply map_length. Qed.

Lemma xg_row g d : length d = 16%nat -> xg g d = map (fun w => N.lxor (nth w d 0) g) (seq 0 16).
Proof.
  intros Hl. unfold xg. rewrite <- (map_nth_seq 0 d) at 1. rewrite Hl, map_map. reflexivity.
Qed.

Lemma bitwise_xor_rows a (h : nat -> N) n : length a = n ->
  Aes.bitwise_xor a (map h (seq 0 n)) = map (fun w => N.lxor (nth w a 0) (h w)) (seq 0 n).
Proof.
  intros Hl. unfold Aes.bitwise_xor. rewrite <- (map_nth_seq 0 a) at 1. rewrite Hl, combine_map_same, map_map. reflexivity.
Qed.

Section Helpers.
  Variables (data : list (list N)) (guesses : list N).
  Hypothesis Hlen : len16 data.
  Hypothesis Hg : guesses <> [].

  Let ev := eval_expr (body_m 0 0).

  Lemma eval_ark_tab : ev e_ark data guesses = Some (T3 (tab3 (fun d g => xg g d) data guesses)).
  Proof.
    apply (eval_swap01 (body_m 0 0) data guesses (SeGuessLoop BXor) (fun g d => xg g d) guesses data); [|exact Hg].
    apply eval_loop. reflexivity.
  Qed.

  Lemma in_len16 d : In d data -> length d = 16%nat.
  Proof. intros H. unfold len16 in Hlen. rewrite Forall_forall in Hlen. apply Hlen, H. Qed.

  Lemma eval_prim_ark_tab p :
    ev (SePrim p e_ark) data guesses = Some (T3 (tab3 (fun d g => prim_row p (xg g d)) data guesses)).
  Proof.
    apply (eval_prim3 (body_m 0 0) data guesses p e_ark (fun d g => xg g d) data guesses eval_ark_tab).
    intros d g Hd _. rewrite xg_length. apply in_len16, Hd.
  Qed.

  Theorem eval_ark_full : ev e_ark data guesses = Some (T3 (full_F (aes_F_m WfXor) 16 data guesses)).
  Proof.
    rewrite eval_ark_tab. f_equal. f_equal. apply tab3_full_F. intros d g Hd _. apply xg_row, in_len16, Hd.
  Qed.

  Theorem eval_sub_full : ev e_sub data guesses = Some (T3 (full_F (aes_F_m WfSbox) 16 data guesses)).
  Proof.
    unfold e_sub. rewrite eval_prim_ark_tab. f_equal. f_equal. apply tab3_full_F. intros d g Hd _.
    cbn [prim_row]. unfold Aes.sub_bytes_m. rewrite xg_row by (apply in_len16, Hd). rewrite map_map. reflexivity.
  Qed.

  Theorem eval_isb_full : ev e_isb data guesses = Some (T3 (full_F (aes_F_m WfInvSbox) 16 data guesses)).
  Proof.
    unfold e_isb. rewrite eval_prim_ark_tab. f_equal. f_equal. apply tab3_full_F. intros d g Hd _.
    cbn [prim_row]. unfold Aes.inv_sub_bytes_m. rewrite xg_row by (apply in_len16, Hd). rewrite map_map. reflexivity.
  Qed.

  Hypothesis Hd : data <> [].

  Theorem eval_delta_full : ev e_delta data guesses = Some (T3 (full_F (aes_F_m WfDelta) 16 data guesses)).
  Proof.
    unfold e_delta.
    pose proof (eval_swap01 (body_m 0 0) data guesses e_isb _ data guesses (eval_prim_ark_tab SpInvSubBytes) Hd) as H1.
    pose proof (eval_prim_data (body_m 0 0) data guesses SpShiftRows Hlen) as H2.
    pose proof (eval_xor_2_3 (body_m 0 0) data guesses _ _ (prim_row SpShiftRows) _ guesses H2 H1) as H3.
    pose proof (eval_swap01 (body_m 0 0) data guesses _ _ guesses data H3 Hg) as H4.
    unfold ev, e_isb in *. rewrite H4. f_equal. f_equal. apply tab3_full_F. intros d g Hin _.
    pose proof (in_len16 d Hin) as Hl.
    cbn [prim_row]. unfold Aes.inv_sub_bytes_m. rewrite xg_row by exact Hl. rewrite map_map.
    rewrite bitwise_xor_rows; [reflexivity|].
    unfold Aes.shift_rows_m, Aes.take_idx. rewrite map_length. reflexivity.
  Qed.
End Helpers.

(* the table-level word function is the spec-level one on bytes *)
Lemma aes_F_m_spec f d g w : wf d -> g < 256 -> (w < 16)%nat -> aes_F_m f d g w = aes_F f d g w.
Proof.
  intros [Hl Hb] Hgb Hw. unfold aes_F_m, aes_F.
  assert (Hx : N.lxor (nth w d 0) g < 256).
  { apply lxor_byte; [|exact Hgb]. apply Forall_nth_wf; [exact Hb | lia]. }
  destruct f.
  - reflexivity.
  - apply sbox_is_fips, Hx.
  - apply inv_sbox_is_fips, Hx.
  - rewrite (inv_sbox_is_fips _ Hx), (shift_rows_is_fips d Hl). reflexivity.
Qed.

Lemma full_F_ext F F' nW data guesses :
  (forall d g w, In d data -> In g guesses -> (w < nW)%nat -> F d g w = F' d g w) ->
  full_F F nW data guesses = full_F F' nW data guesses.
Proof.
  intros H. unfold full_F. apply map_ext_in. intros d Hd. apply map_ext_in. intros g Hg.
  apply map_ext_in. intros w Hw. apply in_seq in Hw. apply H; try assumption. lia.
Qed.

(* ================================================================ 2. spec level: the targeted states, for any round keys *)
Definition sr_idx (w : nat) : nat := (w mod 4 + 4 * ((w / 4 + w mod 4) mod 4))%nat.

Lemma sr_idx_lt w : (sr_idx w < 16)%nat.
Proof.
  unfold sr_idx. pose proof (Nat.mod_upper_bound w 4 ltac:(lia)).
  pose proof (Nat.mod_upper_bound (w / 4 + w mod 4) 4 ltac:(lia)). lia.
Qed.

Lemma nth_ShiftRows s w : (w < 16)%nat -> nth w (ShiftRows s) 0 = nth (sr_idx w) s 0.
Proof. intros Hw. unfold ShiftRows. rewrite nth_map_seq by exact Hw. reflexivity. Qed.

Lemma nth_xorl : forall a b w, length a = length b -> nth w (Fips197.xorl a b) 0 = N.lxor (nth w a 0) (nth w b 0).
Proof.
  unfold Fips197.xorl. induction a as [|x a IH]; intros [|y b] w Hl; try discriminate.
  - destruct w; reflexivity.
  - cbn [combine map]. destruct w as [|w]; [reflexivity|]. cbn [nth]. apply IH. cbn in Hl. lia.
Qed.

Lemma nth_SubBytes s w : (w < length s)%nat -> nth w (SubBytes s) 0 = sbox_spec (nth w s 0).
Proof. intros H. unfold SubBytes. apply nth_map_lt, H. Qed.
Lemma nth_InvSubBytes s w : (w < length s)%nat -> nth w (InvSubBytes s) 0 = inv_sbox_spec (nth w s 0).
Proof. intros H. unfold InvSubBytes. apply nth_map_lt, H. Qed.

Lemma wf_nth s w : wf s -> (w < 16)%nat -> nth w s 0 < 256.
Proof. intros [Hl Hb] Hw. apply Forall_nth_wf; [exact Hb|lia]. Qed.

(* ShiftRows undoes InvShiftRows (spec level), from the table-level theorem of C05 *)
Lemma ShiftRows_InvShiftRows s : length s = 16%nat -> ShiftRows (InvShiftRows s) = s.
Proof.
  intros Hl. destruct (inv_shift_rows_inverts s Hl) as [_ H].
  rewrite (inv_shift_rows_is_fips s Hl) in H.
  rewrite shift_rows_is_fips in H; [exact H|]. unfold InvShiftRows. rewrite map_length. reflexivity.
Qed.

(* the word the last-round key byte w acts on: ct[w] xor k[w] = SubBytes(x)[sr w], hence InvSubBytes gives x[sr w] *)
Lemma isb_shift_sub x w : wf x -> (w < 16)%nat ->
  inv_sbox_spec (nth w (ShiftRows (SubBytes x)) 0) = nth w (ShiftRows x) 0.
Proof.
  intros Hx Hw. pose proof Hx as [Hl Hb]. pose proof (sr_idx_lt w) as Hs.
  rewrite !nth_ShiftRows by exact Hw. rewrite nth_SubBytes by lia.
  apply inv_sbox_spec_sbox_spec. apply wf_nth; assumption.
Qed.

(* --- the shape of the two state lists, for the three numbers of rounds (symbolic evaluation) *)
Lemma enc_shape Nr : In Nr [10; 12; 14]%nat -> forall w inp,
  let S := cipher_states Nr w inp in
  nth 0 S [] = inp
  /\ nth 1 S [] = AddRoundKey inp (nth 0 w [])
  /\ nth 2 S [] = SubBytes (nth 1 S [])
  /\ nth (4 * Nr - 3) S [] = AddRoundKey (MixColumns (nth (4 * Nr - 5) S [])) (nth (Nr - 1) w [])
  /\ nth (4 * Nr - 2) S [] = SubBytes (nth (4 * Nr - 3) S [])
  /\ nth (4 * Nr - 1) S [] = ShiftRows (nth (4 * Nr - 2) S [])
  /\ nth (4 * Nr) S [] = AddRoundKey (nth (4 * Nr - 1) S []) (nth Nr w [])
  /\ last S [] = nth (4 * Nr) S [].
Proof.
  intros [<-|[<-|[<-|[]]]] w inp;
    cbv -[SubBytes ShiftRows MixColumns AddRoundKey]; repeat split; reflexivity.
Qed.

Lemma dec_shape Nr : In Nr [10; 12; 14]%nat -> forall w inp,
  let S := inv_cipher_states Nr w inp in
  nth 0 S [] = inp
  /\ nth 1 S [] = AddRoundKey inp (nth Nr w [])
  /\ nth 2 S [] = InvShiftRows (nth 1 S [])
  /\ nth 3 S [] = InvSubBytes (nth 2 S [])
  /\ nth (4 * Nr - 3) S [] = InvMixColumns (nth (4 * Nr - 4) S [])
  /\ nth (4 * Nr - 2) S [] = InvShiftRows (nth (4 * Nr - 3) S [])
  /\ nth (4 * Nr - 1) S [] = InvSubBytes (nth (4 * Nr - 2) S [])
  /\ nth (4 * Nr) S [] = AddRoundKey (nth (4 * Nr - 1) S []) (nth 0 w [])
  /\ last S [] = nth (4 * Nr) S [].
Proof.
  intros [<-|[<-|[<-|[]]]] w inp;
    cbv -[InvSubBytes InvShiftRows InvMixColumns AddRoundKey]; repeat split; reflexivity.
Qed.

Definition keys_wf (Nr : nat) (rks : list state) : Prop := forall i, (i <= Nr)%nat -> wf (nth i rks []).

Definition data_of (sp : aes_sf_spec) (inp : list N) (S : list state) : list N :=
  match as_data sp with DIn => inp | DOut => last S [] end.

(* ENCRYPT namespace: for any round keys (not only those of a key expansion), any input *)
Theorem aes_encrypt_targets_any_keys Nr rks inp sp :
  In Nr [10; 12; 14]%nat -> keys_wf Nr rks -> wf inp -> In sp aes_encrypt_targets ->
  let S := cipher_states Nr rks inp in
  wf (data_of sp inp S)
  /\ forall w, (w < 16)%nat ->
       aes_F (as_F sp) (data_of sp inp S) (nth w (nth (as_key_round sp Nr) rks []) 0) w
       = nth w (aes_target_state (as_target sp) Nr S) 0.
Proof.
  intros HNr Hk Hinp Hsp S.
  destruct (enc_shape Nr HNr rks inp) as (E0 & E1 & E2 & E3 & E4 & E5 & E6 & E7). fold S in E0, E1, E2, E3, E4, E5, E6, E7.
  assert (HNr1 : (1 <= Nr)%nat) by (destruct HNr as [<-|[<-|[<-|[]]]]; lia).
  pose proof (Hk 0%nat ltac:(lia)) as Hk0. pose proof (Hk Nr (le_n _)) as HkN. pose proof (Hk (Nr - 1)%nat ltac:(lia)) as HkN1.
  assert (W1 : wf (nth 1 S [])) by (rewrite E1; apply AddRoundKey_wf; assumption).
  assert (W3 : wf (nth (4 * Nr - 3) S [])) by (rewrite E3; apply AddRoundKey_wf; [apply MixColumns_wf | exact HkN1]).
  assert (W4 : wf (nth (4 * Nr - 2) S [])) by (rewrite E4; apply SubBytes_wf, W3).
  assert (W5 : wf (nth (4 * Nr - 1) S [])) by (rewrite E5; apply ShiftRows_wf, W4).
  assert (W6 : wf (last S [])) by (rewrite E7, E6; apply AddRoundKey_wf; assumption).
  (* ct xor k_Nr = the state before the last AddRoundKey *)
  assert (Hct : forall w, (w < 16)%nat -> N.lxor (nth w (last S []) 0) (nth w (nth Nr rks []) 0) = nth w (nth (4 * Nr - 1) S []) 0).
  { intros w Hw. rewrite <- nth_xorl by (destruct W6 as [-> _]; destruct HkN as [-> _]; reflexivity).
    rewrite E7, E6. change (Fips197.xorl ?a ?b) with (AddRoundKey a b). rewrite AddRoundKey_involutive; [reflexivity|].
    destruct W5 as [-> _]. destruct HkN as [-> _]. reflexivity. }
  cbn [aes_encrypt_targets In] in Hsp.
  destruct Hsp as [<-|[<-|[<-|[<-|[<-|[]]]]]]; unfold data_of; cbn [as_data as_key_round as_F as_target aes_target_state first_rk last_rk];
    (split; [assumption|]); intros w Hw; unfold aes_F.
  - (* FirstAddRoundKey *)
    rewrite E1. unfold AddRoundKey. rewrite nth_xorl; [reflexivity|]. destruct Hinp as [-> _]. destruct Hk0 as [-> _]. reflexivity.
  - (* FirstSubBytes *)
    rewrite E2, nth_SubBytes by (destruct W1 as [-> _]; exact Hw). rewrite E1. unfold AddRoundKey.
    rewrite nth_xorl; [reflexivity|]. destruct Hinp as [-> _]. destruct Hk0 as [-> _]. reflexivity.
  - (* LastAddRoundKey *)
    apply Hct, Hw.
  - (* LastSubBytes *)
    rewrite Hct by exact Hw. rewrite E5, E4. apply isb_shift_sub; assumption.
  - (* DeltaRLastRounds *)
    rewrite Hct by exact Hw. rewrite E5, E4. rewrite isb_shift_sub by assumption.
    rewrite !nth_ShiftRows by exact Hw. rewrite <- E7.
    rewrite nth_xorl by (destruct W3 as [-> _]; destruct W6 as [-> _]; reflexivity). apply N.lxor_comm.
Qed.

(* DECRYPT namespace *)
Theorem aes_decrypt_targets_any_keys Nr rks inp sp :
  In Nr [10; 12; 14]%nat -> keys_wf Nr rks -> wf inp -> In sp aes_decrypt_targets ->
  let S := inv_cipher_states Nr rks inp in
  wf (data_of sp inp S)
  /\ forall w, (w < 16)%nat ->
       aes_F (as_F sp) (data_of sp inp S) (nth w (nth (as_key_round sp Nr) rks []) 0) w
       = nth w (aes_target_state (as_target sp) Nr S) 0.
Proof.
  intros HNr Hk Hinp Hsp S.
  destruct (dec_shape Nr HNr rks inp) as (E0 & E1 & E2 & E3 & E4 & E5 & E6 & E7 & E8).
  fold S in E0, E1, E2, E3, E4, E5, E6, E7, E8.
  assert (HNr1 : (1 <= Nr)%nat) by (destruct HNr as [<-|[<-|[<-|[]]]]; lia).
  pose proof (Hk 0%nat ltac:(lia)) as Hk0. pose proof (Hk Nr (le_n _)) as HkN.
  assert (W1 : wf (nth 1 S [])) by (rewrite E1; apply AddRoundKey_wf; assumption).
  assert (W2 : wf (nth 2 S [])) by (rewrite E2; apply InvShiftRows_wf, W1).
  assert (W3 : wf (nth 3 S [])) by (rewrite E3; apply InvSubBytes_wf, W2).
  assert (W4 : wf (nth (4 * Nr - 3) S [])) by (rewrite E4; apply InvMixColumns_wf).
  assert (W5 : wf (nth (4 * Nr - 2) S [])) by (rewrite E5; apply InvShiftRows_wf, W4).
  assert (W6 : wf (nth (4 * Nr - 1) S [])) by (rewrite E6; apply InvSubBytes_wf, W5).
  assert (W7 : wf (last S [])) by (rewrite E8, E7; apply AddRoundKey_wf; assumption).
  (* pt xor k0 = the state before the last AddRoundKey *)
  assert (Hpt : forall w, (w < 16)%nat -> N.lxor (nth w (last S []) 0) (nth w (nth 0 rks []) 0) = nth w (nth (4 * Nr - 1) S []) 0).
  { intros w Hw. rewrite <- nth_xorl by (destruct W7 as [-> _]; destruct Hk0 as [-> _]; reflexivity).
    rewrite E8, E7. change (Fips197.xorl ?a ?b) with (AddRoundKey a b). rewrite AddRoundKey_involutive; [reflexivity|].
    destruct W6 as [-> _]. destruct Hk0 as [-> _]. reflexivity. }
  (* ct xor k_Nr = S[1] *)
  assert (Hct : forall w, (w < 16)%nat -> N.lxor (nth w inp 0) (nth w (nth Nr rks []) 0) = nth w (nth 1 S []) 0).
  { intros w Hw. rewrite E1. unfold AddRoundKey. rewrite nth_xorl; [reflexivity|]. destruct Hinp as [-> _]. destruct HkN as [-> _]. reflexivity. }
  (* ShiftRows (S[3]) = InvSubBytes (S[1]) *)
  assert (H3 : forall w, (w < 16)%nat -> nth w (ShiftRows (nth 3 S [])) 0 = inv_sbox_spec (nth w (nth 1 S []) 0)).
  { intros w Hw. rewrite nth_ShiftRows by exact Hw. rewrite E3.
    rewrite nth_InvSubBytes by (destruct W2 as [-> _]; apply sr_idx_lt).
    rewrite <- nth_ShiftRows by exact Hw. rewrite E2.
    rewrite ShiftRows_InvShiftRows by (destruct W1 as [-> _]; reflexivity). reflexivity. }
  cbn [aes_decrypt_targets In] in Hsp.
  destruct Hsp as [<-|[<-|[<-|[<-|[<-|[]]]]]]; unfold data_of; cbn [as_data as_key_round as_F as_target aes_target_state first_rk last_rk];
    (split; [assumption|]); intros w Hw; unfold aes_F.
  - (* FirstAddRoundKey *) apply Hct, Hw.
  - (* FirstSubBytes *) rewrite Hct by exact Hw. symmetry. apply H3, Hw.
  - (* DeltaRFirstRounds *)
    rewrite Hct by exact Hw. rewrite <- H3 by exact Hw. rewrite !nth_ShiftRows by exact Hw. rewrite E0.
    rewrite nth_xorl by (destruct W3 as [-> _]; destruct Hinp as [-> _]; reflexivity). apply N.lxor_comm.
  - (* LastAddRoundKey *) apply Hpt, Hw.
  - (* LastSubBytes *)
    rewrite Hpt by exact Hw. rewrite E6. rewrite nth_InvSubBytes by (destruct W5 as [-> _]; exact Hw).
    apply sbox_spec_inv_sbox_spec. apply wf_nth; assumption.
Qed.

(* ================================================================ 3. the expected-key functions *)
Lemma py_index_first {A} (l : list A) d : l <> [] -> py_index (KFromStart 0) l = Some (nth 0 l d).
Proof. destruct l; [congruence|reflexivity]. Qed.

Lemma py_index_last {A} (l : list A) d n : length l = S n -> py_index (KFromEnd 1) l = Some (nth n l d).
Proof.
  intros Hl. cbn [py_index]. rewrite Hl. cbn [Nat.leb andb]. replace (S n - 1)%nat with n by lia.
  apply nth_error_nth'. lia.
Qed.

Section Keys.
  Variable Nk : nat.
  Variable key : list N.
  Hypothesis HNk : In Nk [4; 6; 8]%nat.
  Hypothesis Hkey : Aes.wf_key Nk key.

  Lemma round_keys_wf_all : keys_wf (Nr_of Nk) (round_keys Nk key).
  Proof. intros i Hi. apply (round_key_wf Nk key HNk Hkey i Hi). Qed.

  Lemma first_key_m : py_index (KFromStart 0) (round_keys Nk key) = Some (nth (first_rk (Nr_of Nk)) (round_keys Nk key) []).
  Proof.
    apply py_index_first. intros E. pose proof (round_keys_length Nk key) as Hl. rewrite E in Hl. cbn in Hl. lia.
  Qed.

  Lemma last_key_m : py_index (KFromEnd 1) (round_keys Nk key) = Some (nth (last_rk (Nr_of Nk)) (round_keys Nk key) []).
  Proof. apply py_index_last. rewrite (round_keys_length Nk key). unfold last_rk. lia. Qed.
End Keys.
