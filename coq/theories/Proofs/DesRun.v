(* Proofs/DesRun.v — the loop of _ParametricCipher.parametric_cipher, run on the TABULATED stop-point surgery
   (Generated/DesRounds.v), computes the standard's intermediate value.

   1. [iterations_table_expected]: for every (at_des < 3, at_round < 16, after_step < 10) what _prepare_des_iterations
      really returned (the table) is [expected_iterations] — a closed, readable description of the 480 stop points
      (checked by vm_compute on the whole domain).
   2. [run_expected]: running [expected_iterations] with ANY sixteen-round-key lists and ANY block gives
      [des_state_at] of the standard; proved by symbolic execution of the rounds with the generated primitives rewritten
      into the standard's by the theorems of Proofs/DesBits.v. *)
From Coq Require Import NArith List Bool Arith Lia.
From ScaredV Require Import Lib.Bexpr Spec.Fips46 Generated.DesTables Generated.DesBits Generated.DesRounds Model.Des
  Proofs.DesSpec Proofs.DesBits.
Import ListNotations.
Open Scope N_scope.

(* ------------------------------------------------------------------ the 480 stop points, described *)
Definition MAND : list (option step) := [Some StE; Some StK; Some StS; Some StP; Some StX].
Definition head_op (first : bool) : option step := if first then Some StIP else None.
Definition full_round (first : bool) : list (option step) := head_op first :: MAND ++ [Some StSwap; None; None; None].
Definition T_ROUND : list (option step) := full_round false.
Definition T_LAST : list (option step) := None :: MAND ++ [None; None; None; None].

(* the round in which the cipher stops: first = round 0 of pass 0 (it starts with IP), last = round 15 *)
Definition stop_round (first last : bool) (s : nat) : list (option step) :=
  head_op first ::
  match s with
  | 0 => firstn 0 MAND | 1 => firstn 1 MAND | 2 => firstn 2 MAND | 3 => firstn 3 MAND | 4 => firstn 4 MAND | 5 => firstn 5 MAND
  | 6 => MAND ++ [Some StSwap]
  | 7 => MAND ++ [Some StSwap; Some StInvR]
  | 8 => MAND ++ [if last then None else Some StSwap; None; Some StInvD]
  | _ => MAND ++ (if last then [None; None; None; Some StFP] else [Some StSwap; None; None; None])
  end%nat.

(* a complete pass that is followed by another one: 16 rounds, no swap and no FP at the end *)
Definition pass_full (first : bool) : list (list (option step)) := full_round first :: repeat T_ROUND 14 ++ [T_LAST].
Definition pass_stop (first : bool) (r s : nat) : list (list (option step)) :=
  match r with
  | O => [stop_round first false s]
  | S r' => full_round first :: repeat T_ROUND r' ++ [stop_round false (Nat.eqb r 15) s]
  end.
Definition expected_iterations (p r s : nat) : list (list (list (option step))) :=
  map (fun i => pass_full (Nat.eqb i 0)) (seq 0 p) ++ [pass_stop (Nat.eqb p 0) r s].

Definition stop_domain : list (nat * nat * nat) :=
  flat_map (fun p => flat_map (fun r => map (fun s => (p, r, s)) (seq 0 10)) (seq 0 16)) (seq 0 3).

Lemma in_stop_domain p r s : (p < 3)%nat -> (r < 16)%nat -> (s < 10)%nat -> In (p, r, s) stop_domain.
Proof.
  intros Hp Hr Hs. unfold stop_domain. apply in_flat_map. exists p. split; [apply in_seq; lia|].
  apply in_flat_map. exists r. split; [apply in_seq; lia|]. apply in_map_iff. exists s. split; [reflexivity|apply in_seq; lia].
Qed.

Lemma map_eq_in {A B} (f g : A -> B) l x : map f l = map g l -> In x l -> f x = g x.
Proof.
  induction l as [|a l IH]; intros H Hx; [destruct Hx|].
  cbn [map] in H. injection H as H1 H2. destruct Hx as [->|Hx]; [exact H1|apply IH; assumption].
Qed.

Theorem iterations_table_expected p r s : (p < 3)%nat -> (r < 16)%nat -> (s < 10)%nat ->
  prepared_iterations p r s = Some (expected_iterations p r s).
Proof.
  intros Hp Hr Hs.
  assert (H : map (fun k => let '(p, r, s) := k in prepared_iterations p r s) stop_domain
            = map (fun k => let '(p, r, s) := k in Some (expected_iterations p r s)) stop_domain) by (vm_compute; reflexivity).
  exact (map_eq_in _ _ _ (p, r, s) H (in_stop_domain p r s Hp Hr Hs)).
Qed.

(* the class-level templates read from the source are the four lists the description is built from *)
Theorem templates_are :
  FIRST_ROUND = full_round true /\ ROUND = T_ROUND /\ LAST_ROUND = T_LAST /\ FINAL_ROUND = stop_round false true 9
  /\ MANDATORY_ROUND_ELEMENTS = MAND.
Proof. repeat split; reflexivity. Qed.

(* ------------------------------------------------------------------ single steps, in the standard's terms *)
Lemma okl64_xorl a b : okl 8 64 a -> okl 8 64 b -> okl 8 64 (xorl a b).
Proof. apply (xorl_okl 8 6). Qed.
Lemma okl256_xorl4 a b : okl 4 256 a -> okl 4 256 b -> okl 4 256 (xorl a b).
Proof. apply (xorl_okl 4 8). Qed.
Lemma okl_len n b l : okl n b l -> length l = n.
Proof. intros [H _]. exact H. Qed.
Lemma des_S_okl256 a : okl 8 64 a -> okl 8 256 (des_S a).
Proof. intros H. eapply okl_weaken; [|apply des_S_okl, (okl_len _ _ _ H)]. lia. Qed.

Lemma E_step K lr sv : okl 8 256 lr -> do_step (Some StE) K (lr, sv) = (des_E (skipn 4 lr), lr).
Proof. intros H. cbn [do_step]. rewrite gen_e_is_E_thm by apply okl_skipn4, H. reflexivity. Qed.

Lemma S_step K a sv : okl 8 64 a -> do_step (Some StS) K (a, sv) = (des_S a, sv).
Proof. intros H. cbn [do_step]. rewrite sboxes_is_S by exact H. reflexivity. Qed.

Lemma P_step K sb sv : okl 8 256 sb -> do_step (Some StP) K (sb, sv) = (des_P sb ++ [0; 0; 0; 0], sv).
Proof. intros H. cbn [do_step]. rewrite gen_p_is_P_thm by exact H. reflexivity. Qed.

Lemma xor_saved p lr : length p = 4%nat -> length lr = 8%nat -> xorl (p ++ [0; 0; 0; 0]) lr = xorl (firstn 4 lr) p ++ skipn 4 lr.
Proof.
  intros Hp Hl.
  destruct p as [|p0 [|p1 [|p2 [|p3 [|]]]]]; try discriminate Hp.
  destruct lr as [|a0 [|a1 [|a2 [|a3 [|a4 [|a5 [|a6 [|a7 [|]]]]]]]]]; try discriminate Hl.
  unfold xorl. cbn [combine map fst snd app firstn skipn].
  rewrite (N.lxor_comm p0), (N.lxor_comm p1), (N.lxor_comm p2), (N.lxor_comm p3), !N.lxor_0_l. reflexivity.
Qed.

Lemma X_step K sb lr : length lr = 8%nat ->
  do_step (Some StX) K (des_P sb ++ [0; 0; 0; 0], lr) = (xorl (firstn 4 lr) (des_P sb) ++ skipn 4 lr, lr).
Proof. intros H. cbn [do_step]. rewrite xor_saved by (try apply des_P_okl; exact H). reflexivity. Qed.

Lemma roll4_swap st : length st = 8%nat -> roll4 st = swap_halves st.
Proof. intros H. unfold roll4, swap_halves. rewrite H. reflexivity. Qed.

(* the first k of the five mandatory operations give the value named k in the standard's iteration *)
Lemma mand_prefix k K lr sv : (k <= 5)%nat -> okl 8 64 K -> okl 8 256 lr ->
  run_round (firstn k MAND) K (lr, sv) = (des_step K lr k, if Nat.eqb k 0 then sv else lr).
Proof.
  intros Hk HK Hlr. unfold run_round.
  assert (He : okl 8 64 (xorl (des_E (skipn 4 lr)) K)) by (apply okl64_xorl; [apply des_E_okl|exact HK]).
  destruct k as [|[|[|[|[|[|k]]]]]]; try lia;
    cbn [firstn MAND fold_left des_step Nat.eqb];
    rewrite ?E_step by exact Hlr; cbn [do_step];
    rewrite ?sboxes_is_S by exact He;
    rewrite ?gen_p_is_P_thm by apply des_S_okl256, He;
    rewrite ?xor_saved by (try apply des_P_okl; apply (okl_len _ _ _ Hlr));
    reflexivity.
Qed.

Lemma run_round_app l1 l2 K s : run_round (l1 ++ l2) K s = run_round l2 K (run_round l1 K s).
Proof. apply fold_left_app. Qed.

Lemma run_round_cons op l K s : run_round (op :: l) K s = run_round l K (do_step op K s).
Proof. reflexivity. Qed.

Lemma head_step first K x sv : okl 8 256 x ->
  do_step (head_op first) K (x, sv) = ((if first then des_IP x else x), sv).
Proof. intros H. destruct first; cbn [head_op do_step]; [rewrite gen_ip_is_IP_thm by exact H|]; reflexivity. Qed.

Lemma lr0_okl (first : bool) x : okl 8 256 x -> okl 8 256 (if first then des_IP x else x).
Proof. intros H. destruct first; [apply des_IP_okl|exact H]. Qed.

Lemma step5_is_swapped_round K lr : length lr = 8%nat -> des_step K lr 5 = swap_halves (des_round K lr).
Proof.
  intros H. cbn [des_step]. unfold des_round, des_f, swap_halves.
  set (nr := xorl (firstn 4 lr) _).
  assert (Hn : length nr = 4%nat) by (unfold nr, des_P; rewrite xorl_length, firstn_length, permute_length; lia).
  assert (Hr : length (skipn 4 lr) = 4%nat) by (rewrite skipn_length; lia).
  rewrite skipn_app, firstn_app, Hr, Nat.sub_diag, firstn_O, skipn_O, app_nil_r.
  rewrite (@skipn_all2 _ 4 (skipn 4 lr)), (@firstn_all2 _ 4 (skipn 4 lr)) by lia. reflexivity.
Qed.

(* a complete round: L' = R, R' = L xor f(R, K); the saved value is the input of the round *)
Lemma full_round_run first K x sv : okl 8 64 K -> okl 8 256 x ->
  run_round (full_round first) K (x, sv) = (des_round K (if first then des_IP x else x), (if first then des_IP x else x)).
Proof.
  intros HK Hx. unfold full_round. rewrite run_round_cons, head_step by exact Hx.
  set (lr := if first then des_IP x else x). assert (Hlr : okl 8 256 lr) by apply lr0_okl, Hx.
  rewrite run_round_app. change MAND with (firstn 5 MAND) at 1. rewrite mand_prefix by (try assumption; lia).
  cbn [Nat.eqb]. rewrite step5_is_swapped_round by apply (okl_len _ _ _ Hlr).
  unfold run_round. cbn [fold_left do_step].
  rewrite roll4_swap by apply (okl_len _ _ _ (swap_halves_okl _ _ (des_round_okl K lr Hlr))).
  rewrite swap_swap by apply (okl_len _ _ _ (des_round_okl K lr Hlr)). reflexivity.
Qed.

(* the last round of a pass that is followed by another pass: the halves are left as R16 L16 *)
Lemma last_round_run K lr sv : okl 8 64 K -> okl 8 256 lr ->
  run_round T_LAST K (lr, sv) = (swap_halves (des_round K lr), lr).
Proof.
  intros HK Hlr. unfold T_LAST. rewrite run_round_cons. cbn [do_step].
  rewrite run_round_app. change MAND with (firstn 5 MAND) at 1. rewrite mand_prefix by (try assumption; lia).
  cbn [Nat.eqb]. rewrite step5_is_swapped_round by apply (okl_len _ _ _ Hlr). reflexivity.
Qed.

Lemma split_app4 {A} (a b : list A) : length a = 4%nat -> firstn 4 (a ++ b) = a /\ skipn 4 (a ++ b) = b.
Proof.
  intros H. rewrite firstn_app, skipn_app, H, Nat.sub_diag, firstn_O, skipn_O, app_nil_r.
  rewrite firstn_all2, skipn_all2 by lia. split; reflexivity.
Qed.

(* the round in which the cipher stops *)
Lemma stop_round_run first last s K x sv : (s <= 9)%nat -> okl 8 64 K -> okl 8 256 x ->
  fst (run_round (stop_round first last s) K (x, sv)) =
  if last && Nat.leb 9 s then des_FP (swap_halves (des_round K (if first then des_IP x else x)))
  else des_step K (if first then des_IP x else x) s.
Proof.
  intros Hs HK Hx. unfold stop_round. rewrite run_round_cons, head_step by exact Hx.
  set (lr := if first then des_IP x else x). assert (Hlr : okl 8 256 lr) by apply lr0_okl, Hx.
  assert (Hl8 := okl_len _ _ _ Hlr).
  assert (Hrd := des_round_okl K lr Hlr).
  assert (Hsw : okl 8 256 (swap_halves (des_round K lr))) by apply swap_halves_okl, Hrd.
  assert (Hnr : okl 4 256 (xorl (firstn 4 lr) (des_P (des_S (xorl (des_E (skipn 4 lr)) K))))).
  { apply okl256_xorl4; [apply okl_firstn4, Hlr|apply des_P_okl]. }
  assert (HR : okl 4 256 (skipn 4 lr)) by apply okl_skipn4, Hlr.
  destruct (split_app4 (skipn 4 lr) (xorl (firstn 4 lr) (des_P (des_S (xorl (des_E (skipn 4 lr)) K)))) (okl_len _ _ _ HR)) as [Hf Hk].
  change (skipn 4 lr ++ xorl (firstn 4 lr) (des_P (des_S (xorl (des_E (skipn 4 lr)) K)))) with (des_round K lr) in Hf, Hk.
  destruct s as [|[|[|[|[|[|[|[|[|[|s]]]]]]]]]]; try lia;
    try (rewrite mand_prefix by (try assumption; lia); rewrite andb_false_r; reflexivity).
  - (* 6: the swap is always performed *)
    rewrite run_round_app. change MAND with (firstn 5 MAND) at 1. rewrite mand_prefix by (try assumption; lia).
    rewrite step5_is_swapped_round by exact Hl8. unfold run_round. cbn [fold_left do_step fst Nat.leb].
    rewrite andb_false_r, roll4_swap, swap_swap by (apply (okl_len _ _ _ Hsw) || apply (okl_len _ _ _ Hrd)).
    reflexivity.
  - (* 7: P^-1 of the new right half *)
    rewrite run_round_app. change MAND with (firstn 5 MAND) at 1. rewrite mand_prefix by (try assumption; lia).
    rewrite step5_is_swapped_round by exact Hl8. unfold run_round. cbn [fold_left do_step fst Nat.leb].
    rewrite andb_false_r, roll4_swap, swap_swap by (apply (okl_len _ _ _ Hsw) || apply (okl_len _ _ _ Hrd)).
    rewrite gen_invp_is_invP_thm by apply okl_skipn4, Hrd.
    rewrite Hk. reflexivity.
  - (* 8: P^-1 of the difference of the right halves (with or without the swap) *)
    rewrite run_round_app. change MAND with (firstn 5 MAND) at 1. rewrite mand_prefix by (try assumption; lia).
    rewrite step5_is_swapped_round by exact Hl8. rewrite andb_false_r. cbn [des_step].
    destruct last; unfold run_round; cbn [fold_left do_step fst].
    + destruct (split_app4 (skipn 4 (des_round K lr)) (firstn 4 (des_round K lr))) as [Hf2 Hk2];
        [rewrite Hk; exact (okl_len _ _ _ Hnr)|].
      change (skipn 4 (des_round K lr) ++ firstn 4 (des_round K lr)) with (swap_halves (des_round K lr)) in Hf2, Hk2.
      rewrite Hf2, Hk2, Hf, Hk.
      rewrite gen_invp_is_invP_thm by (apply okl256_xorl4; assumption). reflexivity.
    + rewrite roll4_swap, swap_swap by (apply (okl_len _ _ _ Hsw) || apply (okl_len _ _ _ Hrd)).
      rewrite Hf, Hk.
      rewrite gen_invp_is_invP_thm by (apply okl256_xorl4; assumption).
      rewrite xorl_comm. reflexivity.
  - (* 9: the template itself: a complete round, or in round 15 the final permutation *)
    rewrite run_round_app. change MAND with (firstn 5 MAND) at 1. rewrite mand_prefix by (try assumption; lia).
    rewrite step5_is_swapped_round by exact Hl8. rewrite andb_true_r.
    destruct last; unfold run_round; cbn [fold_left do_step fst].
    + rewrite gen_fp_is_FP_thm by exact Hsw. reflexivity.
    + rewrite roll4_swap, swap_swap by (apply (okl_len _ _ _ Hsw) || apply (okl_len _ _ _ Hrd)).
      cbn [des_step]. reflexivity.
Qed.

(* ------------------------------------------------------------------ whole passes *)
Lemma mid_round_run K lr sv : okl 8 64 K -> okl 8 256 lr -> run_round T_ROUND K (lr, sv) = (des_round K lr, lr).
Proof. intros HK Hlr. exact (full_round_run false K lr sv HK Hlr). Qed.

(* the value at (iteration r, step s) of one pass whose first iteration starts from lr0 = L0 R0 *)
Definition state_from (rks : list (list N)) (lr0 : list N) (r s : nat) : list N :=
  if Nat.eqb r 15 && Nat.leb 9 s then des_FP (swap_halves (lr_fold (firstn 16 rks) lr0))
  else des_step (nth r rks []) (lr_fold (firstn r rks) lr0) s.

Lemma des_state_at_from rks x r s : des_state_at rks x r s = state_from rks (des_IP x) r s.
Proof. reflexivity. Qed.

Lemma list16 {A} (l : list A) : length l = 16%nat ->
  exists k0 k1 k2 k3 k4 k5 k6 k7 k8 k9 k10 k11 k12 k13 k14 k15, l = [k0; k1; k2; k3; k4; k5; k6; k7; k8; k9; k10; k11; k12; k13; k14; k15].
Proof.
  intros H.
  destruct l as [|k0 [|k1 [|k2 [|k3 [|k4 [|k5 [|k6 [|k7 [|k8 [|k9 [|k10 [|k11 [|k12 [|k13 [|k14 [|k15 [|]]]]]]]]]]]]]]]]]; try discriminate H.
  exists k0, k1, k2, k3, k4, k5, k6, k7, k8, k9, k10, k11, k12, k13, k14, k15. reflexivity.
Qed.

Ltac forall_inv := repeat match goal with H : Forall _ (_ :: _) |- _ => inversion H; clear H; subst end.
Ltac okl_tac := try assumption; repeat (apply des_round_okl); assumption.
(* exactly n middle rounds (a [rewrite !] would try to unify the pattern with the other, huge, round terms) *)
Ltac mids n := match n with O => idtac | S ?m => rewrite mid_round_run by okl_tac; mids m end.

Lemma pass_full_run first rks x sv : length rks = 16%nat -> Forall (okl 8 64) rks -> okl 8 256 x ->
  exists sv', run_rounds 0 (pass_full first) rks (x, sv) = (swap_halves (lr_fold rks (if first then des_IP x else x)), sv').
Proof.
  intros Hl Hk Hx.
  destruct (list16 _ Hl) as (k0 & k1 & k2 & k3 & k4 & k5 & k6 & k7 & k8 & k9 & k10 & k11 & k12 & k13 & k14 & k15 & ->).
  forall_inv. unfold pass_full. cbn [repeat app run_rounds nth].
  rewrite full_round_run by assumption.
  assert (H0 : okl 8 256 (if first then des_IP x else x)) by apply lr0_okl, Hx.
  set (lr0 := if first then des_IP x else x) in *.
  mids 14%nat.
  rewrite last_round_run by okl_tac.
  eexists. unfold lr_fold. cbn [fold_left]. reflexivity.
Qed.

Lemma pass_stop_run first r s rks x sv : (r <= 15)%nat -> (s <= 9)%nat -> length rks = 16%nat -> Forall (okl 8 64) rks -> okl 8 256 x ->
  fst (run_rounds 0 (pass_stop first r s) rks (x, sv)) = state_from rks (if first then des_IP x else x) r s.
Proof.
  intros Hr Hs Hl Hk Hx.
  destruct (list16 _ Hl) as (k0 & k1 & k2 & k3 & k4 & k5 & k6 & k7 & k8 & k9 & k10 & k11 & k12 & k13 & k14 & k15 & ->).
  forall_inv.
  assert (H0 : okl 8 256 (if first then des_IP x else x)) by apply lr0_okl, Hx.
  destruct r as [|r].
  - unfold pass_stop. cbn [run_rounds nth]. rewrite stop_round_run by assumption.
    unfold state_from, lr_fold. cbn [firstn fold_left nth Nat.eqb andb]. reflexivity.
  - unfold pass_stop. cbn [app run_rounds nth]. rewrite full_round_run by assumption.
    set (lr0 := if first then des_IP x else x) in *.
    Local Ltac stop_case r n :=
      destruct r as [|r];
      [cbn [repeat app run_rounds nth Nat.eqb]; mids n; rewrite stop_round_run by okl_tac;
       unfold state_from, lr_fold; cbn [firstn fold_left nth Nat.eqb andb]; reflexivity|].
    stop_case r 0%nat. stop_case r 1%nat. stop_case r 2%nat. stop_case r 3%nat. stop_case r 4%nat.
    stop_case r 5%nat. stop_case r 6%nat. stop_case r 7%nat. stop_case r 8%nat. stop_case r 9%nat.
    stop_case r 10%nat. stop_case r 11%nat. stop_case r 12%nat. stop_case r 13%nat. stop_case r 14%nat.
    lia.
Qed.

(* ------------------------------------------------------------------ the whole cipher loop on the described iterations *)
Definition good_pass (q : dir * list (list N)) : Prop := length (snd q) = 16%nat /\ Forall (okl 8 64) (snd q).

Lemma good_pass_rks q : good_pass q -> length (pass_rks (fst q) (snd q)) = 16%nat /\ Forall (okl 8 64) (pass_rks (fst q) (snd q)).
Proof.
  intros [Hl Hf]. split; [rewrite pass_rks_length; exact Hl|].
  destruct (fst q); cbn [pass_rks]; [exact Hf|]. apply Forall_rev, Hf.
Qed.

Lemma core_as_fold rks x : length rks = 16%nat -> des_core rks x = des_FP (swap_halves (lr_fold rks (des_IP x))).
Proof. intros H. unfold des_core. rewrite des_LR_fold, firstn_all2 by lia. reflexivity. Qed.

(* one complete non-final pass: the loop state afterwards is IP of the standard's output of that pass *)
Lemma pass_full_spec (first : bool) q x x0 sv : good_pass q -> okl 8 256 x -> (if first then des_IP x else x) = des_IP x0 ->
  exists sv', run_rounds 0 (pass_full first) (pass_rks (fst q) (snd q)) (x, sv) = (des_IP (des_pass q x0), sv')
              /\ okl 8 256 (des_IP (des_pass q x0)).
Proof.
  intros Hq Hx H0. destruct (good_pass_rks q Hq) as [Hl Hf].
  destruct (pass_full_run first _ x sv Hl Hf Hx) as [sv' E]. exists sv'. split; [|apply des_IP_okl].
  rewrite E. f_equal. unfold des_pass. rewrite core_as_fold by exact Hl. rewrite H0.
  rewrite spec_ip_fp; [reflexivity|]. apply swap_halves_okl, lr_fold_okl, des_IP_okl.
Qed.

Theorem run_expected p r s PS block : (p < 3)%nat -> (r <= 15)%nat -> (s <= 9)%nat -> (p < length PS)%nat ->
  Forall good_pass PS -> okl 8 256 block ->
  fst (run_iterations (expected_iterations p r s) (map (fun q => pass_rks (fst q) (snd q)) (firstn (S p) PS)) (block, []))
  = des_state_at (pass_rks (fst (nth p PS (Enc, []))) (snd (nth p PS (Enc, [])))) (run_passes (firstn p PS) block) r s.
Proof.
  intros Hp Hr Hs Hlen HPS Hb.
  destruct PS as [|q0 PS]; [cbn in Hlen; lia|].
  inversion HPS as [|? ? Hq0 HPS']; subst. destruct (good_pass_rks q0 Hq0) as [Hl0 Hf0].
  destruct p as [|p].
  { (* single pass *)
    unfold expected_iterations. cbn [seq map app firstn run_iterations nth Nat.eqb run_passes fold_left].
    rewrite pass_stop_run by assumption. rewrite des_state_at_from. reflexivity. }
  destruct PS as [|q1 PS]; [cbn in Hlen; lia|].
  inversion HPS' as [|? ? Hq1 HPS'']; subst. destruct (good_pass_rks q1 Hq1) as [Hl1 Hf1].
  destruct (pass_full_spec true q0 block block [] Hq0 Hb eq_refl) as (sv1 & E1 & Hy1).
  destruct p as [|p].
  { (* two passes *)
    unfold expected_iterations. cbn [seq map app firstn run_iterations nth Nat.eqb run_passes fold_left].
    rewrite E1. rewrite pass_stop_run by assumption. rewrite des_state_at_from. reflexivity. }
  destruct PS as [|q2 PS]; [cbn in Hlen; lia|].
  inversion HPS'' as [|? ? Hq2 HPS''']; subst. destruct (good_pass_rks q2 Hq2) as [Hl2 Hf2].
  destruct (pass_full_spec false q1 (des_IP (des_pass q0 block)) (des_pass q0 block) sv1 Hq1 Hy1 eq_refl) as (sv2 & E2 & Hy2).
  destruct p as [|p]; [|lia].
  unfold expected_iterations. cbn [seq map app firstn run_iterations nth Nat.eqb run_passes fold_left].
  rewrite E1, E2. rewrite pass_stop_run by assumption. rewrite des_state_at_from. reflexivity.
Qed.
