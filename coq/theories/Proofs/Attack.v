(* Proofs/Attack.v — lemmas and proofs for property C17 (Model/Attack.v).  stdlib + ring/field on Qc, lra/nra on Q. *)
From Coq Require Import ZArith QArith Qcanon List Bool Lia Lqa.
From ScaredV Require Import Lib.QcSum Lib.Arr Run.Compare Model.Cpa Proofs.Cpa Model.Attack.
From ScaredV Require Model.Models Proofs.Models Model.Partitioned Proofs.Partitioned Model.Mia Model.Template.
Import ListNotations.
Open Scope Qc_scope.

(* ================================================================ the fast statistics are the specs *)
Lemma metric_fast_eq m gs : metric_fast m gs = Partitioned.spec_metric m gs.
Proof. destruct m; reflexivity. Qed.

(* ================================================================ small order facts on Qc *)
Lemma Qc_nonzero_of_pos (a : Qc) : 0 < a -> a <> 0.
Proof. intros H E. rewrite E in H. discriminate. Qed.

Lemma Qc_lt_irrefl (a : Qc) : ~ a < a.
Proof. intros H. apply Qclt_not_le in H. apply H. apply Qcle_refl. Qed.

(* a * n <= s  ->  a <= s / n   and   s <= a * n  ->  s / n <= a   (n > 0) *)
Lemma Qc_le_div (a s n : Qc) : 0 < n -> a * n <= s -> a <= s / n.
Proof.
  intros Hn H. destruct (Qclt_le_dec (s / n) a) as [L|L]; [exfalso|exact L].
  apply (Qcmult_lt_compat_r _ _ n) in L; [|exact Hn].
  replace (s / n * n) with s in L by (field; apply Qc_nonzero_of_pos; exact Hn).
  apply Qclt_not_le in L. contradiction.
Qed.

Lemma Qc_div_le (a s n : Qc) : 0 < n -> s <= a * n -> s / n <= a.
Proof.
  intros Hn H. destruct (Qclt_le_dec a (s / n)) as [L|L]; [exfalso|exact L].
  apply (Qcmult_lt_compat_r _ _ n) in L; [|exact Hn].
  replace (s / n * n) with s in L by (field; apply Qc_nonzero_of_pos; exact Hn).
  apply Qclt_not_le in L. contradiction.
Qed.

Lemma Qc_mul_pos (a b : Qc) : 0 < a -> 0 < b -> 0 < a * b.
Proof.
  intros Ha Hb. apply (Qcmult_lt_compat_r _ _ b) in Ha; [|exact Hb]. replace (0 * b) with 0 in Ha by ring. exact Ha.
Qed.

(* a / w' <= a / w  for  0 <= a, 0 < w <= w' *)
Lemma Qc_div_antitone (a w w' : Qc) : 0 <= a -> 0 < w -> w <= w' -> a / w' <= a / w.
Proof.
  intros Ha Hw Hww.
  assert (Hw' : 0 < w') by (apply Qclt_le_trans with w; assumption).
  assert (Nw : w <> 0) by (apply Qc_nonzero_of_pos; exact Hw).
  assert (Nw' : w' <> 0) by (apply Qc_nonzero_of_pos; exact Hw').
  apply Qc_div_le; [exact Hw'|].
  replace (a / w * w') with (a * (w' / w)) by (field; exact Nw).
  replace a with (a * 1) at 1 by ring.
  rewrite (Qcmult_comm a 1), (Qcmult_comm a (w' / w)).
  apply Qcmult_le_compat_r; [|exact Ha].
  apply Qc_le_div; [exact Hw|]. replace (1 * w) with w by ring. exact Hww.
Qed.

Lemma Qc_opp_le_iff (a b : Qc) : - a <= b <-> - b <= a.
Proof.
  split; intros H; apply Qcopp_le_compat in H.
  - replace (- - a) with a in H by ring. exact H.
  - replace (- - b) with b in H by ring. exact H.
Qed.

(* ================================================================ argmax *)
Lemma am_keep l : forall best bi i, (forall x, In x l -> (x <= best)%Q) ->
  fold_left am_step l (best, bi, i) = (best, bi, (i + length l)%nat).
Proof.
  induction l as [|x l IH]; intros best bi i H; cbn [fold_left length].
  - f_equal. lia.
  - unfold am_step at 2. assert (Hx : Qle_bool x best = true) by (apply Qle_bool_iff; apply H; left; reflexivity).
    rewrite Hx. rewrite IH by (intros y Hy; apply H; right; exact Hy). f_equal. lia.
Qed.

Lemma am_below l (v : Q) : forall best bi i, (best < v)%Q -> (forall x, In x l -> (x < v)%Q) ->
  exists b bj, fold_left am_step l (best, bi, i) = (b, bj, (i + length l)%nat) /\ (b < v)%Q.
Proof.
  induction l as [|x l IH]; intros best bi i Hb H; cbn [fold_left length].
  - exists best, bi. split; [f_equal; lia|exact Hb].
  - unfold am_step at 2. destruct (Qle_bool x best).
    + destruct (IH best bi (S i) Hb) as (b & bj & E & Hlt); [intros y Hy; apply H; right; exact Hy|].
      exists b, bj. split; [rewrite E; f_equal; lia|exact Hlt].
    + destruct (IH x i (S i)) as (b & bj & E & Hlt); [apply H; left; reflexivity|intros y Hy; apply H; right; exact Hy|].
      exists b, bj. split; [rewrite E; f_equal; lia|exact Hlt].
Qed.

Lemma nth_split_at {A} (d : A) (l : list A) e : (e < length l)%nat ->
  exists l1 l2, l = l1 ++ nth e l d :: l2 /\ length l1 = e.
Proof.
  intros H. destruct (nth_split l d H) as (l1 & l2 & E & Hl). exists l1, l2. split; assumption.
Qed.

(* the guess whose score is strictly above every other one is the argmax (numpy: first maximal index) *)
Theorem argmax_unique_max (l : list Q) (e : nat) :
  (e < length l)%nat -> (forall g, (g < length l)%nat -> g <> e -> (nth g l 0 < nth e l 0)%Q) -> argmax l = e.
Proof.
  intros He H. destruct l as [|x0 t]; [cbn in He; lia|]. unfold argmax.
  destruct e as [|e'].
  - rewrite am_keep; [reflexivity|].
    intros y Hy. apply In_nth with (d := 0%Q) in Hy. destruct Hy as (j & Hj & <-).
    apply Qlt_le_weak. apply (H (S j)); [cbn; lia|discriminate].
  - cbn [length] in He. assert (He' : (e' < length t)%nat) by lia.
    destruct (nth_split_at 0%Q t e' He') as (t1 & t2 & Et & Hl1).
    assert (H' : forall g, (g < length (x0 :: t))%nat -> g <> S e' -> (nth g (x0 :: t) 0 < nth e' t 0)%Q) by exact H.
    clear H. set (v := nth e' t 0%Q) in *.
    rewrite Et, fold_left_app. cbn [fold_left].
    destruct (am_below t1 v x0 O 1%nat) as (b & bj & E & Hlt).
    + apply (H' O); [cbn; lia|discriminate].
    + intros y Hy. apply In_nth with (d := 0%Q) in Hy. destruct Hy as (j & Hj & <-).
      assert (Ej : nth j t1 0%Q = nth (S j) (x0 :: t) 0%Q).
      { cbn [nth]. rewrite Et. rewrite app_nth1 by exact Hj. reflexivity. }
      rewrite Ej. apply H'; [cbn; lia|lia].
    + rewrite E. unfold am_step at 2.
      assert (Hv : Qle_bool v b = false).
      { destruct (Qle_bool v b) eqn:Q; [|reflexivity]. apply Qle_bool_iff in Q. exfalso. lra. }
      rewrite Hv. rewrite am_keep.
      * cbn [fst snd]. lia.
      * intros y Hy. apply In_nth with (d := 0%Q) in Hy. destruct Hy as (j & Hj & <-).
        assert (Ej : nth j t2 0%Q = nth (S (S e' + j)) (x0 :: t) 0%Q).
        { cbn [nth]. rewrite Et. rewrite app_nth2 by lia. rewrite Hl1.
          replace (S e' + j - e')%nat with (S j) by lia. reflexivity. }
        rewrite Ej. apply Qlt_le_weak. apply H'; [cbn; rewrite Et, app_length; cbn; lia|lia].
Qed.

(* ================================================================ layout: results -> scores *)
Section LayoutProofs.
  Variables X Y O Sc : Type.
  Variables (dX : X) (dY : Y) (dO : O) (dSc : Sc).
  Variable stat : list (X * Y) -> O.
  Variable disc : list O -> Sc.

  Lemma in_range_gw G W g w : (g < G)%nat -> (w < W)%nat -> in_range [G; W] [g; w].
  Proof. intros Hg Hw. cbn. repeat split; assumption. Qed.

  Lemma flatten_gw G W g w : flatten [G; W] [g; w] = (g * W + w)%nat.
  Proof. cbn. lia. Qed.

  (* results[g, w, s] is the statistic of hypothesis column (g, w) against sample s *)
  Lemma result_at_entry G W S traces data g w s : (g < G)%nat -> (w < W)%nat -> (s < S)%nat ->
    result_at X Y O dX dY dO stat G W S traces data g w s
    = stat (combine (col dX s traces) (hyp_col Y data g w)).
  Proof.
    intros Hg Hw Hs. unfold result_at, hyp_col.
    exact (layout_thm X Y O dX dY dO stat [G; W] S traces data [g; w] s (in_range_gw G W g w Hg Hw) Hs).
  Qed.

  Lemma results_flat_nth G W S traces data g w s : (g < G)%nat -> (w < W)%nat -> (s < S)%nat ->
    nth ((g * W + w) * S + s) (results_flat X Y O dX dY stat G W S traces data) dO
    = result_at X Y O dX dY dO stat G W S traces data g w s.
  Proof.
    intros Hg Hw Hs. unfold result_at, distinguisher_result, result_nd, results_flat.
    change [g; w; s] with ([g; w] ++ [s]).
    rewrite (flatten_last [G; W] S [g; w] s (in_range_gw G W g w Hg Hw)), flatten_gw. reflexivity.
  Qed.

  Theorem scores_layout_thm G W S traces data g w : (g < G)%nat -> (w < W)%nat ->
    score_at X Y O Sc dX dY dO dSc stat disc G W S traces data g w
    = disc (map (fun s => stat (combine (col dX s traces) (hyp_col Y data g w))) (seq 0 S)).
  Proof.
    intros Hg Hw. unfold score_at, scores_flat.
    assert (Ho : Models.outer_of [G; W; S] 2 = (G * W)%nat) by (cbn; lia).
    assert (Hi : Models.inner_of [G; W; S] 2 = 1%nat) by reflexivity.
    assert (Hl : Models.len_of [G; W; S] 2 = S) by reflexivity.
    assert (Hlt : (g * W + w < G * W)%nat) by nia.
    pose proof (Proofs.Models.reduce_axis_entry dO dSc disc [G; W; S] 2
                  (results_flat X Y O dX dY stat G W S traces data) (g * W + w) 0) as R.
    rewrite Ho, Hi, Hl in R. replace ((g * W + w) * 1 + 0)%nat with (g * W + w)%nat in R by lia.
    rewrite R by lia. f_equal. apply map_ext_in. intros s Hs. apply in_seq in Hs.
    unfold Models.at3. replace (((g * W + w) * S + s) * 1 + 0)%nat with ((g * W + w) * S + s)%nat by lia.
    rewrite results_flat_nth by lia. apply result_at_entry; lia.
  Qed.

  Theorem scores_layout_full G W S traces data g w : (g < G)%nat -> (w < W)%nat ->
    (forall s, (s < S)%nat ->
       nth ((g * W + w) * S + s) (results_flat X Y O dX dY stat G W S traces data) dO
       = stat (combine (col dX s traces) (hyp_col Y data g w)))
    /\ score_at X Y O Sc dX dY dO dSc stat disc G W S traces data g w
       = disc (map (fun s => stat (combine (col dX s traces) (hyp_col Y data g w))) (seq 0 S)).
  Proof.
    intros Hg Hw. split; [|apply scores_layout_thm; assumption].
    intros s Hs. rewrite results_flat_nth by assumption. apply result_at_entry; assumption.
  Qed.
End LayoutProofs.

(* ================================================================ wiring of a simulated campaign *)
Section WiringProofs.
  Variables K M V : Type.
  Variable sf : M -> nat -> nat -> V.
  Variable model : V -> Z.
  Variable state : K -> M -> nat -> V.
  Variable ek : K -> nat -> nat.
  Variable leak_word : nat -> option nat.

  Theorem true_key_hypothesis_is_leak_thm (k : K) (gain : Z) (S : nat) (set : list (M * (nat -> Z))) (w s : nat) :
    (forall m, sf m (ek k w) w = state k m w) ->          (* the C07 fact for this word *)
    (s < S)%nat -> leak_word s = Some w ->
    let traces := map (sim_trace K M V model state leak_word S k gain) set in
    let data := map (fun mn => hyp_data M V sf model (fst mn)) set in
    col 0%Z s traces
    = map (fun hn => (gain * fst hn + snd hn)%Z) (combine (hyp_col Z data (ek k w) w) (map (fun mn => snd mn s) set)).
  Proof.
    intros C07 Hs Hleak traces data. unfold traces, data, col, hyp_col. rewrite !map_map.
    induction set as [|mn set IH]; [reflexivity|]. cbn [map combine]. f_equal; [|exact IH].
    unfold sim_trace. rewrite (nth_map_seq _ 0%Z S s Hs).
    unfold sim_sample, hyp_data. rewrite Hleak. cbn [nth fst snd]. rewrite C07. reflexivity.
  Qed.
End WiringProofs.

(* ================================================================ CPA: r = 1 at the true key, |r| <= 1 elsewhere, ties *)
Lemma qsum_fst_affine (a b : Qc) (l : list obs) : (forall p, In p l -> fst p = a * snd p + b) ->
  qsum (map fst l) = a * qsum (map snd l) + b * qlen l.
Proof.
  induction l as [|p l IH]; intros H.
  - change (0 = a * 0 + b * 0). ring.
  - cbn [map]. rewrite !qsum_cons, qlen_cons, IH by (intros q Hq; apply H; right; exact Hq).
    rewrite (H p) by (left; reflexivity). ring.
Qed.

Lemma qmean_fst_affine (a b : Qc) (l : list obs) : l <> [] -> (forall p, In p l -> fst p = a * snd p + b) ->
  qmean (map fst l) = a * qmean (map snd l) + b.
Proof.
  intros Hl H. unfold qmean. rewrite (qsum_fst_affine a b l H), !qlen_map.
  pose proof (qlen_nonzero l Hl) as Hn. unfold obs in *. field. exact Hn.
Qed.

Lemma ssd_map (f : obs -> Qc) (l : list obs) : ssd (map f l) = qsum (map (fun p => sq (f p - qmean (map f l))) l).
Proof. unfold ssd. rewrite map_map. reflexivity. Qed.

Lemma affine_spreads (a b : Qc) (l : list obs) : (forall p, In p l -> fst p = a * snd p + b) ->
  scd l = a * ssd (map snd l) /\ ssd (map fst l) = a * a * ssd (map snd l).
Proof.
  intros H. destruct l as [|p0 l0] eqn:El.
  - split; [change (0 = a * 0)|change (0 = a * a * 0)]; ring.
  - rewrite <- El in *. assert (Hl : l <> []) by (rewrite El; discriminate).
    pose proof (qmean_fst_affine a b l Hl H) as Em. split.
    + unfold scd. cbv zeta. rewrite (ssd_map snd), <- qsum_map_scale. apply qsum_map_ext.
      intros p Hp. rewrite Em, (H p Hp). unfold sq, obs in *. ring.
    + rewrite (ssd_map fst), (ssd_map snd), <- qsum_map_scale. apply qsum_map_ext.
      intros p Hp. unfold obs in *. rewrite Em, (H p Hp). unfold sq. ring.
Qed.

(* the equality case of Cauchy-Schwarz: the word column is an affine image of the sample column *)
Lemma pearson_tie_affine (l : list obs) :
  ssd (map fst l) <> 0 -> sq (scd l) = ssd (map fst l) * ssd (map snd l) ->
  exists c d, forall p, In p l -> snd p = c * fst p + d.
Proof.
  intros HA E.
  set (mx := qmean (map fst l)) in *. set (my := qmean (map snd l)) in *.
  set (f := fun p : obs => fst p - mx). set (g := fun p : obs => snd p - my).
  assert (EA : ssd (map fst l) = qsum (map (fun p => sq (f p)) l)) by (apply ssd_map).
  assert (EB : ssd (map snd l) = qsum (map (fun p => sq (g p)) l)) by (apply ssd_map).
  assert (EC : scd l = qsum (map (fun p => f p * g p) l)) by reflexivity.
  set (SA := ssd (map fst l)) in *. set (SB := ssd (map snd l)) in *. set (SC := scd l) in *.
  assert (Hz : qsum (map (fun p => sq (SA * g p - SC * f p)) l) = 0).
  { rewrite qsum_sq_comb, <- EA, <- EB, <- EC.
    replace (SA * SA * SB - (1 + 1) * SA * SC * SC + SC * SC * SA) with (SA * (SA * SB - sq SC)) by (unfold sq; ring).
    rewrite E. ring. }
  exists (SC / SA), (my - SC / SA * mx). intros p Hp.
  assert (Hp0 : sq (SA * g p - SC * f p) = 0).
  { apply (qsum_nonneg_zero (map (fun p => sq (SA * g p - SC * f p)) l)).
    - intros x Hx. apply in_map_iff in Hx. destruct Hx as (q & <- & _). apply Qc_sq_nonneg.
    - exact Hz.
    - apply in_map_iff. exists p. split; [reflexivity|exact Hp]. }
  apply Qc_sq_zero in Hp0. unfold f, g in Hp0.
  assert (Eg : snd p - my = SC / SA * (fst p - mx)).
  { replace (snd p - my) with ((SA * (snd p - my) - SC * (fst p - mx) + SC * (fst p - mx)) / SA) by (field; exact HA).
    rewrite Hp0. field. exact HA. }
  replace (snd p) with (snd p - my + my) by ring. rewrite Eg. ring.
Qed.

Theorem cpa_true_key_maximal_thm :
  (* noise-free: the sample is an affine image (gain a <> 0, offset b) of the hypothesis at the true key: r = +-1 *)
  (forall (a b : Qc) (l : list obs), a <> 0 -> ~ constant (map snd l) -> (forall p, In p l -> fst p = a * snd p + b) ->
     exists num dx dy, pearson l = Some (num, dx, dy) /\ sq num = dx * dy /\ (0 < a -> 0 < num) /\ (a < 0 -> num < 0))
  (* every guess: |r| <= 1 *)
  /\ (forall (l : list obs) num dx dy, pearson l = Some (num, dx, dy) -> sq num <= dx * dy /\ 0 < dx /\ 0 < dy)
  (* ties only for hypothesis columns that are affine images of the sample column *)
  /\ (forall (l : list obs) num dx dy, pearson l = Some (num, dx, dy) -> sq num = dx * dy ->
        exists c d, forall p, In p l -> snd p = c * fst p + d).
Proof.
  split; [|split].
  - intros a b l Ha Hnc H. destruct (affine_spreads a b l H) as [Es Ex].
    assert (Hy : ssd (map snd l) <> 0) by (intros E; apply Hnc; apply ssd_zero_iff_all_equal; exact E).
    assert (Py : 0 < ssd (map snd l)) by (apply Qc_pos_of_nonneg_nonzero; [apply ssd_nonneg|exact Hy]).
    assert (Hx : ssd (map fst l) <> 0).
    { rewrite Ex. intros E. destruct (Qcmult_integral _ _ E) as [E1|E1]; [|contradiction].
      destruct (Qcmult_integral _ _ E1); contradiction. }
    exists (scd l), (ssd (map fst l)), (ssd (map snd l)). unfold pearson.
    apply qc0_false in Hx. apply qc0_false in Hy. rewrite Hx, Hy. cbn [orb]. split; [reflexivity|].
    split; [rewrite Es, Ex; unfold sq; ring|]. rewrite Es. split; intros Sa.
    + apply Qc_mul_pos; assumption.
    + rewrite Qcmult_comm. apply (proj2 (Qc_mul_pos_neg_iff (ssd (map snd l)) a Py)). exact Sa.
  - intros l num dx dy H. destruct (pearson_some_pos _ _ _ _ H) as [Px Py]. split; [|split; assumption].
    unfold pearson in H. destruct (qc0 (ssd (map fst l)) || qc0 (ssd (map snd l))); [discriminate|].
    injection H as <- <- <-. apply pearson_bounds_thm.
  - intros l num dx dy H E. destruct (pearson_some_pos _ _ _ _ H) as [Px _].
    unfold pearson in H. destruct (qc0 (ssd (map fst l)) || qc0 (ssd (map snd l))); [discriminate|].
    injection H as <- <- <-. apply pearson_tie_affine; [apply Qc_nonzero_of_pos; exact Px|exact E].
Qed.

(* the same in the order-preserving coordinates the certificate compares: sign(num) num^2 / (dx dy) is in [-1, 1],
   and is 1 at the true key for a positive gain *)
Lemma Qle_bool_Qc_true (a b : Qc) : Qle_bool a b = true <-> a <= b.
Proof. rewrite Qle_bool_iff. reflexivity. Qed.

Theorem sgn_sq_bounds (l : list obs) t : pearson l = Some t -> - (1) <= sgn_sq t /\ sgn_sq t <= 1.
Proof.
  destruct t as [[num dx] dy]. intros H.
  destruct (proj1 (proj2 cpa_true_key_maximal_thm) l num dx dy H) as (Hb & Px & Py).
  assert (PD : 0 < dx * dy) by (apply Qc_mul_pos; assumption).
  assert (H1 : sq num / (dx * dy) <= 1) by (apply Qc_div_le; [exact PD|]; replace (1 * (dx * dy)) with (dx * dy) by ring; exact Hb).
  assert (H0 : 0 <= sq num / (dx * dy)) by (apply Proofs.Partitioned.Qc_div_nonneg; [apply Qc_sq_nonneg|exact PD]).
  unfold sgn_sq. destruct (Qle_bool 0%Q num); split.
  - apply Qcle_trans with 0; [discriminate|exact H0].
  - exact H1.
  - apply Qcopp_le_compat. exact H1.
  - apply Qcle_trans with 0; [|discriminate]. apply Qcopp_le_compat in H0. replace (- 0) with 0 in H0 by ring. exact H0.
Qed.

Theorem sgn_sq_true_key (a b : Qc) (l : list obs) :
  0 < a -> ~ constant (map snd l) -> (forall p, In p l -> fst p = a * snd p + b) ->
  option_map sgn_sq (pearson l) = Some 1.
Proof.
  intros Ha Hnc H.
  destruct (proj1 cpa_true_key_maximal_thm a b l (Qc_nonzero_of_pos a Ha) Hnc H) as (num & dx & dy & E & Esq & Hpos & _).
  rewrite E. cbn [option_map]. f_equal. destruct (pearson_some_pos _ _ _ _ E) as [Px Py].
  unfold sgn_sq. specialize (Hpos Ha).
  assert (Hn : Qle_bool 0%Q num = true) by (apply (proj2 (Qle_bool_Qc_true 0 num)); apply Qclt_le_weak; exact Hpos).
  rewrite Hn, Esq. field. split; apply Qc_nonzero_of_pos; assumption.
Qed.

(* ================================================================ DPA with Monobit *)
Lemma qsum_bounds (lo hi : Qc) (l : list Qc) : (forall x, In x l -> lo <= x /\ x <= hi) ->
  lo * qlen l <= qsum l /\ qsum l <= hi * qlen l.
Proof.
  induction l as [|x l IH]; intros H.
  - unfold qsum, qlen. cbn. split; (replace (lo * 0) with 0 by ring) || (replace (hi * 0) with 0 by ring); apply Qcle_refl.
  - destruct IH as [I1 I2]; [intros y Hy; apply H; right; exact Hy|].
    destruct (H x (or_introl eq_refl)) as [X1 X2]. rewrite qsum_cons, qlen_cons. split.
    + replace (lo * (qlen l + 1)) with (lo + lo * qlen l) by ring. apply Qcplus_le_compat; assumption.
    + replace (hi * (qlen l + 1)) with (hi + hi * qlen l) by ring. apply Qcplus_le_compat; assumption.
Qed.

Lemma qmean_bounds (lo hi : Qc) (l : list Qc) : l <> [] -> (forall x, In x l -> lo <= x /\ x <= hi) ->
  lo <= qmean l /\ qmean l <= hi.
Proof.
  intros Hl H. destruct (qsum_bounds lo hi l H) as [B1 B2]. pose proof (qlen_pos l Hl) as P. unfold qmean. split.
  - apply Qc_le_div; assumption.
  - apply Qc_div_le; assumption.
Qed.

Lemma qmean_all_eq (c : Qc) (l : list Qc) : l <> [] -> (forall x, In x l -> x = c) -> qmean l = c.
Proof.
  intros Hl H. unfold qmean. rewrite (qsum_all_eq c l H). field. apply qlen_nonzero. exact Hl.
Qed.

Lemma in_ones (l : list dobs) x : In x (ones l) <-> In (x, true) l.
Proof.
  unfold ones. rewrite in_map_iff. split.
  - intros ([y b] & <- & Hf). apply filter_In in Hf. destruct Hf as [Hin Hb]. cbn in Hb. subst b. exact Hin.
  - intros H. exists (x, true). split; [reflexivity|]. apply filter_In. split; [exact H|reflexivity].
Qed.

Lemma in_zeros (l : list dobs) x : In x (zeros l) <-> In (x, false) l.
Proof.
  unfold zeros. rewrite in_map_iff. split.
  - intros ([y b] & <- & Hf). apply filter_In in Hf. destruct Hf as [Hin Hb]. cbn in Hb. destruct b; [discriminate|]. exact Hin.
  - intros H. exists (x, false). split; [reflexivity|]. apply filter_In. split; [exact H|reflexivity].
Qed.

Theorem dpa_true_key_maximal_thm (lo hi : Qc) :
  (* noise-free, partition = the leaking bit itself: the difference of means is hi - lo *)
  (forall l : list dobs, (forall p, In p l -> fst p = if snd p then hi else lo) ->
     (exists p, In p l /\ snd p = true) -> (exists p, In p l /\ snd p = false) -> dpa_spec l = Some (hi - lo))
  (* any partition of samples lying in [lo, hi]: |difference of means| <= hi - lo *)
  /\ (forall (l : list dobs) d, (forall p, In p l -> lo <= fst p /\ fst p <= hi) -> dpa_spec l = Some d ->
        - (hi - lo) <= d /\ d <= hi - lo).
Proof.
  split.
  - intros l H ([x1 b1] & Hin1 & E1) ([x0 b0] & Hin0 & E0). cbn in E1, E0. subst b1 b0.
    assert (Ho : ones l <> []) by (intros E; pose proof (proj2 (in_ones l x1) Hin1) as I; rewrite E in I; destruct I).
    assert (Hz : zeros l <> []) by (intros E; pose proof (proj2 (in_zeros l x0) Hin0) as I; rewrite E in I; destruct I).
    assert (Mo : qmean (ones l) = hi).
    { apply qmean_all_eq; [exact Ho|]. intros x Hx. apply in_ones in Hx. exact (H (x, true) Hx). }
    assert (Mz : qmean (zeros l) = lo).
    { apply qmean_all_eq; [exact Hz|]. intros x Hx. apply in_zeros in Hx. exact (H (x, false) Hx). }
    unfold dpa_spec. destruct (ones l) as [|o os] eqn:Eo; [congruence|]. destruct (zeros l) as [|z zs] eqn:Ez; [congruence|].
    rewrite Mo, Mz. reflexivity.
  - intros l d H E. unfold dpa_spec in E.
    destruct (ones l) as [|o os] eqn:Eo; [discriminate|]. destruct (zeros l) as [|z zs] eqn:Ez; [discriminate|].
    injection E as <-.
    destruct (qmean_bounds lo hi (o :: os)) as [O1 O2]; [discriminate| |].
    { intros x Hx. rewrite <- Eo in Hx. apply in_ones in Hx. exact (H _ Hx). }
    destruct (qmean_bounds lo hi (z :: zs)) as [Z1 Z2]; [discriminate| |].
    { intros x Hx. rewrite <- Ez in Hx. apply in_zeros in Hx. exact (H _ Hx). }
    split.
    + replace (- (hi - lo)) with (lo + - hi) by ring. unfold Qcminus. apply Qcplus_le_compat; [exact O1|].
      apply Qcopp_le_compat. exact Z2.
    + unfold Qcminus. apply Qcplus_le_compat; [exact O2|]. apply Qcopp_le_compat. exact Z1.
Qed.

(* ================================================================ NICV: between-class variance <= total variance *)
Lemma qsum_concat_map (f : Qc -> Qc) (gs : list (list Qc)) :
  qsum (map f (concat gs)) = qsum (map (fun g => qsum (map f g)) gs).
Proof.
  induction gs as [|g gs IH]; [reflexivity|]. cbn [concat map]. rewrite map_app, qsum_app, qsum_cons, IH. reflexivity.
Qed.

Lemma group_sqdev (m : Qc) (g : list Qc) : g <> [] ->
  qsum (map (fun x => sq (x - m)) g) = ssd g + qlen g * sq (qmean g - m).
Proof.
  intros Hg. unfold ssd. rewrite !qsum_sqdev. unfold qmean, sq. field. apply qlen_nonzero. exact Hg.
Qed.

(* total sum of squares = between-class + within-class *)
Theorem ss_decomposition (gs : list (list Qc)) : Forall (fun g => g <> []) gs ->
  ssd (concat gs) = Partitioned.ss_between gs + Partitioned.ss_within gs.
Proof.
  intros Hne. unfold ssd at 1. rewrite qsum_concat_map.
  unfold Partitioned.ss_between, Partitioned.ss_within. cbv zeta. rewrite <- qsum_map_add.
  apply qsum_map_ext. intros g Hg. rewrite Forall_forall in Hne. rewrite (group_sqdev _ g (Hne g Hg)). ring.
Qed.

Lemma ss_between_nonneg gs : 0 <= Partitioned.ss_between gs.
Proof.
  unfold Partitioned.ss_between. cbv zeta. apply qsum_nonneg. intros x Hx. apply in_map_iff in Hx.
  destruct Hx as (g & <- & _). apply Qc_mul_nonneg; [apply qlen_nonneg|apply Qc_sq_nonneg].
Qed.

Lemma var_of_class_means_eq gs : qlen (concat gs) <> 0 ->
  Partitioned.var_of_class_means gs = Partitioned.ss_between gs / qlen (concat gs).
Proof.
  intros HN. unfold Partitioned.var_of_class_means, Partitioned.ss_between. cbv zeta.
  set (N := qlen (concat gs)) in *. set (m := qmean (concat gs)).
  rewrite (qsum_map_ext _ (fun g => / N * (qlen g * sq (qmean g - m)))).
  - rewrite qsum_map_scale. field. exact HN.
  - intros g _. field. exact HN.
Qed.

Theorem nicv_true_key_maximal_thm :
  (* any partition into non-empty classes: 0 <= NICV <= 1 *)
  (forall gs v, Forall (fun g => g <> []) gs -> Partitioned.nicv_def gs = Some v -> 0 <= v /\ v <= 1)
  (* noise-free at the true key: every class is constant (the sample is a function of the class), the samples are not all equal: NICV = 1 *)
  /\ (forall gs, Forall (fun g => g <> []) gs -> (forall g, In g gs -> constant g) -> ~ constant (concat gs) ->
        Partitioned.nicv_def gs = Some 1).
Proof.
  split.
  - intros gs v Hne H. unfold Partitioned.nicv_def in H.
    destruct (Proofs.Partitioned.Qc_eqb_spec (Partitioned.total_var gs) 0) as [Z|NZ]; [discriminate|]. injection H as <-.
    unfold Partitioned.total_var in *. set (N := qlen (concat gs)) in *.
    assert (HN : N <> 0).
    { intros E. apply NZ. rewrite E. unfold Qcdiv. replace (/ 0) with 0 by reflexivity. ring. }
    assert (PN : 0 < N) by (apply Qc_pos_of_nonneg_nonzero; [apply qlen_nonneg|exact HN]).
    assert (HT : ssd (concat gs) <> 0) by (intros E; apply NZ; rewrite E; unfold Qcdiv; ring).
    assert (PT : 0 < ssd (concat gs)) by (apply Qc_pos_of_nonneg_nonzero; [apply ssd_nonneg|exact HT]).
    rewrite (var_of_class_means_eq gs HN). fold N.
    replace (Partitioned.ss_between gs / N / (ssd (concat gs) / N)) with (Partitioned.ss_between gs / ssd (concat gs))
      by (field; split; assumption).
    split.
    + apply Proofs.Partitioned.Qc_div_nonneg; [apply ss_between_nonneg|exact PT].
    + apply Qc_div_le; [exact PT|]. replace (1 * ssd (concat gs)) with (ssd (concat gs)) by ring.
      rewrite (ss_decomposition gs Hne).
      replace (Partitioned.ss_between gs) with (Partitioned.ss_between gs + 0) at 1 by ring.
      apply Qcplus_le_compat; [apply Qcle_refl|apply Proofs.Partitioned.ss_within_nonneg].
  - intros gs Hne Hc Hnc.
    assert (HW : Partitioned.ss_within gs = 0).
    { apply Proofs.Partitioned.ss_within_zero_iff. intros g Hg. apply ssd_zero_iff_constant.
      apply ssd_zero_iff_all_equal. apply Hc. exact Hg. }
    assert (HT : ssd (concat gs) <> 0) by (intros E; apply Hnc; apply ssd_zero_iff_all_equal; exact E).
    assert (HN : qlen (concat gs) <> 0).
    { apply qlen_nonzero. intros E. apply Hnc. rewrite E. intros a b []. }
    unfold Partitioned.nicv_def, Partitioned.total_var.
    destruct (Proofs.Partitioned.Qc_eqb_spec (ssd (concat gs) / qlen (concat gs)) 0) as [Z|NZ].
    + exfalso. apply HT. apply (Proofs.Partitioned.Qc_div_zero_iff _ _ HN). exact Z.
    + f_equal. rewrite (var_of_class_means_eq gs HN), (ss_decomposition gs Hne), HW. field. split; [exact HN|].
      rewrite (ss_decomposition gs Hne), HW in HT. replace (Partitioned.ss_between gs + 0) with (Partitioned.ss_between gs) in HT by ring.
      exact HT.
Qed.

(* ================================================================ ANOVA / SNR: antitone in the within-class spread *)
Lemma snr_signal_nonneg gs : gs <> [] -> 0 <= Partitioned.snr_signal gs.
Proof.
  intros Hg. unfold Partitioned.snr_signal. cbv zeta. apply Proofs.Partitioned.Qc_div_nonneg; [|apply qlen_pos; exact Hg].
  apply qsum_nonneg. intros x Hx. apply in_map_iff in Hx. destruct Hx as (g & <- & _). apply Qc_sq_nonneg.
Qed.

Lemma snr_noise_nonneg gs : gs <> [] -> 0 <= Partitioned.snr_noise gs.
Proof.
  intros Hg. unfold Partitioned.snr_noise. apply Proofs.Partitioned.Qc_div_nonneg; [|apply qlen_pos; exact Hg].
  apply qsum_nonneg. intros x Hx. apply in_map_iff in Hx. destruct Hx as (g & <- & _). apply Proofs.Partitioned.class_var_nonneg.
Qed.

Theorem anova_snr_monotone_thm :
  (* F: same number of classes (at least two) and of traces (more than classes), same between-class sum of squares *)
  (forall gs gs' f f',
     qlen gs = qlen gs' -> qlen (concat gs) = qlen (concat gs') -> 0 < qlen gs - 1 -> 0 < qlen (concat gs) - qlen gs ->
     Partitioned.ss_between gs = Partitioned.ss_between gs' ->
     Partitioned.ss_within gs <= Partitioned.ss_within gs' ->
     Partitioned.F_stat gs = Some f -> Partitioned.F_stat gs' = Some f' -> f' <= f)
  (* SNR: same signal (spread of the class means), larger noise (mean class variance) *)
  /\ (forall gs gs' r r',
        Partitioned.snr_signal gs = Partitioned.snr_signal gs' ->
        Partitioned.snr_noise gs <= Partitioned.snr_noise gs' ->
        Partitioned.snr_def gs = Some r -> Partitioned.snr_def gs' = Some r' -> r' <= r).
Proof.
  split.
  - intros gs gs' f f' EK EN PK PNK EB LW Hf Hf'. unfold Partitioned.F_stat in Hf, Hf'.
    rewrite <- EK, <- EN, <- EB in Hf'.
    destruct (Qc_eq_bool (qlen gs - 1) 0 || Qc_eq_bool (qlen (concat gs) - qlen gs) 0) eqn:E0; [discriminate|]. cbn [orb] in Hf, Hf'.
    destruct (Proofs.Partitioned.Qc_eqb_spec (Partitioned.ss_within gs) 0) as [Z|NZ]; [discriminate|].
    destruct (Proofs.Partitioned.Qc_eqb_spec (Partitioned.ss_within gs') 0) as [Z'|NZ']; [discriminate|].
    injection Hf as <-. injection Hf' as <-.
    assert (PW : 0 < Partitioned.ss_within gs) by (apply Qc_pos_of_nonneg_nonzero; [apply Proofs.Partitioned.ss_within_nonneg|exact NZ]).
    assert (NK1 : qlen gs - 1 <> 0) by (apply Qc_nonzero_of_pos; exact PK).
    assert (NNK : qlen (concat gs) - qlen gs <> 0) by (apply Qc_nonzero_of_pos; exact PNK).
    set (A := Partitioned.ss_between gs / (qlen gs - 1) * (qlen (concat gs) - qlen gs)).
    replace (Partitioned.ss_between gs / (qlen gs - 1) / (Partitioned.ss_within gs' / (qlen (concat gs) - qlen gs)))
      with (A / Partitioned.ss_within gs') by (unfold A; field; repeat split; assumption).
    replace (Partitioned.ss_between gs / (qlen gs - 1) / (Partitioned.ss_within gs / (qlen (concat gs) - qlen gs)))
      with (A / Partitioned.ss_within gs) by (unfold A; field; repeat split; assumption).
    apply Qc_div_antitone; [|exact PW|exact LW].
    unfold A. apply Qc_mul_nonneg; [|apply Qclt_le_weak; exact PNK].
    apply Proofs.Partitioned.Qc_div_nonneg; [apply ss_between_nonneg|exact PK].
  - intros gs gs' r r' ES LN Hr Hr'. unfold Partitioned.snr_def in Hr, Hr'. rewrite <- ES in Hr'.
    destruct (Proofs.Partitioned.Qc_eqb_spec (Partitioned.snr_noise gs) 0) as [Z|NZ]; [discriminate|].
    destruct (Proofs.Partitioned.Qc_eqb_spec (Partitioned.snr_noise gs') 0) as [Z'|NZ']; [discriminate|].
    injection Hr as <-. injection Hr' as <-.
    assert (Hg : gs <> []) by (intros E; apply NZ; rewrite E; reflexivity).
    apply Qc_div_antitone; [apply snr_signal_nonneg; exact Hg| |exact LN].
    apply Qc_pos_of_nonneg_nonzero; [apply snr_noise_nonneg; exact Hg|exact NZ].
Qed.

(* noise-free at the true key the two statistics are undefined (zero within-class spread): why the property adds noise *)
Theorem anova_snr_noise_free_undefined gs :
  (forall g, In g gs -> constant g) -> Partitioned.F_stat gs = None /\ Partitioned.snr_def gs = None.
Proof.
  intros Hc.
  assert (H : forall g, In g gs -> forall x, In x g -> x = qmean g).
  { intros g Hg. apply ssd_zero_iff_constant. apply ssd_zero_iff_all_equal. apply Hc. exact Hg. }
  split.
  - apply Proofs.Partitioned.F_undefined_iff. right. right. exact H.
  - apply Proofs.Partitioned.snr_undefined_iff. right. exact H.
Qed.

(* ================================================================ soundness of the per-campaign certificate *)
Local Open Scope Q_scope.

Lemma Qabs'_bound (x t : Q) : Qabs' x <= t -> - t <= x /\ x <= t.
Proof.
  unfold Qabs'. destruct (Qle_bool 0 x) eqn:E; intros H.
  - apply Qle_bool_iff in E. split; lra.
  - assert (x < 0) by (destruct (Qlt_le_dec x 0) as [L|L]; [exact L|apply Qle_bool_iff in L; congruence]). split; lra.
Qed.

(* scores that agree with the model within thr / 4 keep the order of two model scores that are thr apart *)
Lemma margin_transfer (ci cj qi qj thr : Q) :
  0 < thr -> Qabs' (ci - qi) <= thr / 4 -> Qabs' (cj - qj) <= thr / 4 -> qj + thr <= qi -> cj < ci.
Proof.
  intros Ht Hi Hj Hm. apply Qabs'_bound in Hi. apply Qabs'_bound in Hj.
  assert (E : thr / 4 == thr * (1 # 4)) by (unfold Qdiv; reflexivity).
  rewrite E in Hi, Hj. lra.
Qed.

(* x |-> x |x| is strictly increasing: the comparison of the transformed scores is the comparison of the scores *)
Lemma code_tr_lt (k : akind) (x y : Q) : code_tr k x < code_tr k y -> x < y.
Proof.
  destruct k; cbn [code_tr]; try (intros H; exact H).
  unfold Qabs'. intros H. destruct (Qlt_le_dec x y) as [L|L]; [exact L|exfalso].
  destruct (Qle_bool 0 x) eqn:Ex; destruct (Qle_bool 0 y) eqn:Ey;
    try (apply Qle_bool_iff in Ex); try (apply Qle_bool_iff in Ey).
  - nra.
  - nra.
  - assert (x < 0) by (destruct (Qlt_le_dec x 0) as [L'|L']; [exact L'|apply Qle_bool_iff in L'; congruence]). nra.
  - assert (x < 0) by (destruct (Qlt_le_dec x 0) as [L'|L']; [exact L'|apply Qle_bool_iff in L'; congruence]).
    assert (y < 0) by (destruct (Qlt_le_dec y 0) as [L'|L']; [exact L'|apply Qle_bool_iff in L'; congruence]). nra.
Qed.

Lemma separated_at_spec qs i thr : separated_at qs i = Some thr ->
  (i < length qs)%nat /\ 0 < thr /\ forall j, (j < length qs)%nat -> j <> i -> nthq qs j + thr <= nthq qs i.
Proof.
  unfold separated_at. cbv zeta.
  set (t0 := Qred ((nthq qs i - qmin_list (nthq qs i) qs) / 8)).
  destruct (Nat.leb 2 (length qs) && Nat.ltb i (length qs) && negb (Qle_bool t0 0)
            && Qle_bool (qmaxabs_list qs / 256) t0 && gaps_ok qs i t0) eqn:E; [|discriminate].
  intros H. injection H as <-.
  apply andb_true_iff in E. destruct E as [E Hg]. apply andb_true_iff in E. destruct E as [E _].
  apply andb_true_iff in E. destruct E as [E Hp]. apply andb_true_iff in E. destruct E as [_ Hi].
  apply Nat.ltb_lt in Hi. split; [exact Hi|]. split.
  - apply negb_true_iff in Hp. destruct (Qlt_le_dec 0 t0) as [L|L]; [exact L|]. apply Qle_bool_iff in L. congruence.
  - intros j Hj Hne. unfold gaps_ok in Hg. rewrite forallb_forall in Hg.
    specialize (Hg j (proj2 (in_seq _ _ _) (conj (Nat.le_0_l j) Hj))).
    apply orb_true_iff in Hg. destruct Hg as [Hg|Hg]; [apply Nat.eqb_eq in Hg; contradiction|].
    apply Qle_bool_iff. exact Hg.
Qed.

Lemma find_pos_spec e gs : forall i, find_pos e gs = Some i -> (i < length gs)%nat /\ nth i gs (-1)%Z = e.
Proof.
  induction gs as [|g t IH]; intros i H; cbn [find_pos] in H; [discriminate|].
  destruct (Z.eqb_spec g e) as [->|_].
  - injection H as <-. split; [cbn; lia|reflexivity].
  - destruct (find_pos e t) as [k|]; [|discriminate]. injection H as <-.
    destruct (IH k eq_refl) as [Hk Hn]. split; [cbn; lia|exact Hn].
Qed.

Lemma all_some_nth {A} (l : list (option A)) : forall qs, all_some l = Some qs ->
  length qs = length l /\ forall j d, (j < length l)%nat -> nth j l None = Some (nth j qs d).
Proof.
  induction l as [|[x|] l IH]; intros qs H; cbn [all_some] in H.
  - injection H as <-. split; [reflexivity|]. intros j d Hj. cbn in Hj. lia.
  - destruct (all_some l) as [r|] eqn:E; [|discriminate]. injection H as <-.
    destruct (IH r eq_refl) as [Hl Hn]. split; [cbn; rewrite Hl; reflexivity|].
    intros [|j] d Hj; [reflexivity|]. cbn [nth]. apply Hn. cbn in Hj. lia.
  - discriminate.
Qed.

Lemma forallb2_nth {A B} (f : A -> B -> bool) : forall l1 l2, forallb2 f l1 l2 = true ->
  length l1 = length l2 /\ forall j d1 d2, (j < length l1)%nat -> f (nth j l1 d1) (nth j l2 d2) = true.
Proof.
  induction l1 as [|x l1 IH]; intros [|y l2] H; cbn [forallb2] in H; try discriminate.
  - split; [reflexivity|]. intros j d1 d2 Hj. cbn in Hj. lia.
  - apply andb_true_iff in H. destruct H as [Hxy H]. destruct (IH l2 H) as [Hl Hn]. split; [cbn; rewrite Hl; reflexivity|].
    intros [|j] d1 d2 Hj; [exact Hxy|]. cbn [nth]. apply Hn. cbn in Hj. lia.
Qed.

Lemma score_close_spec k tol v q : score_close k tol v q = true ->
  exists x m, fval_q v = Some x /\ q = Some m /\ Qabs' (code_tr k x - m) <= tol.
Proof.
  unfold score_close. destruct v as [mm e| | |]; try discriminate. destruct q as [m|]; [|discriminate].
  intros H. exists (q_of_fin mm e), m. split; [reflexivity|]. split; [reflexivity|]. apply Qle_bool_iff. exact H.
Qed.

(* Whenever the check accepts a campaign and the model ranks the expected key (position i of the evaluated guesses) first
   with margin for an attack object and word: the code's argmax over all guesses is the expected key, and the code's own
   score at the expected key is strictly above its score at every other evaluated guess. *)
Theorem certificate_sound (c : camp_case) (a : attack_obs) (w : word_obs) (i : nat) (thr : Q) :
  attack_ok c a = true -> nth_error (cc_words c) (ao_word a) = Some w ->
  find_pos (wo_expected w) (wo_guesses w) = Some i ->
  separated (model_scores c a w) i = Some thr ->
  nth i (wo_guesses w) (-1)%Z = wo_expected w
  /\ ao_argmax a = wo_expected w
  /\ forall j, (j < length (ao_scores a))%nat -> j <> i ->
       exists vi vj, fval_q (nth i (ao_scores a) NaN) = Some vi /\ fval_q (nth j (ao_scores a) NaN) = Some vj /\ vj < vi.
Proof.
  intros Hok Hw Hpos Hsep. unfold attack_ok in Hok. rewrite Hw, Hpos in Hok. cbv zeta in Hok. rewrite Hsep in Hok.
  apply andb_true_iff in Hok. destruct Hok as [Hok Hcl]. apply andb_true_iff in Hcl. destruct Hcl as [Ham Hclose].
  apply Z.eqb_eq in Ham. split; [exact (proj2 (find_pos_spec _ _ _ Hpos))|]. split; [exact Ham|].
  unfold separated in Hsep. destruct (all_some (model_scores c a w)) as [qs|] eqn:Eqs; [|discriminate].
  destruct (separated_at_spec qs i thr Hsep) as (Hi & Ht & Hgap).
  destruct (all_some_nth _ qs Eqs) as [Hlen Hnth].
  destruct (forallb2_nth _ _ _ Hclose) as [Hl2 Hpt].
  intros j Hj Hne.
  assert (Hi' : (i < length (ao_scores a))%nat) by lia.
  destruct (score_close_spec _ _ _ _ (Hpt i NaN None Hi')) as (vi & mi & Evi & Emi & Ci).
  destruct (score_close_spec _ _ _ _ (Hpt j NaN None Hj)) as (vj & mj & Evj & Emj & Cj).
  exists vi, vj. split; [exact Evi|]. split; [exact Evj|].
  rewrite (Hnth i 0 ltac:(lia)) in Emi. rewrite (Hnth j 0 ltac:(lia)) in Emj. injection Emi as <-. injection Emj as <-.
  apply (code_tr_lt (ao_kind a)). apply (margin_transfer _ _ _ _ thr Ht Ci Cj). apply Hgap; [lia|exact Hne].
Qed.

(* an accepted campaign has, for every attacked word, the C07 fact on its data: the hypothesis column of the expected key
   is the leakage intermediate *)
Theorem accepted_campaign_has_c07_fact (c : camp_case) (w : word_obs) :
  camp_check c = true -> In w (cc_words c) -> hyp_at w (wo_expected w) = Some (wo_state w).
Proof.
  intros H Hin. unfold camp_check in H. apply andb_true_iff in H. destruct H as [H _].
  apply andb_true_iff in H. destruct H as [_ H]. rewrite forallb_forall in H. specialize (H w Hin).
  unfold word_state_ok in H. destruct (hyp_at w (wo_expected w)) as [hs|]; [|discriminate]. f_equal.
  revert H. generalize (wo_state w). induction hs as [|x hs IH]; intros [|y l] H; cbn in H; try discriminate; [reflexivity|].
  apply andb_true_iff in H. destruct H as [Hx H]. apply Z.eqb_eq in Hx. subst y. f_equal. apply IH. exact H.
Qed.
