(* Proofs/Template.v — lemmas and proofs about Model/Template.v (property C14). *)
From Coq Require Import ZArith QArith Qcanon List Bool Lia.
From ScaredV Require Import Run.Compare Lib.QcSum Model.Accum Model.Template.
Import ListNotations.
Local Open Scope Qc_scope.

(* ------------------------------------------------------------------------------------------ zero-padded sums *)
Section Zadd.
  Context {A : Type} (add : A -> A -> A) (z : A).
  Hypothesis add_assoc : forall x y w, add x (add y w) = add (add x y) w.
  Hypothesis add_z_l : forall x, add z x = x.
  Hypothesis add_z_r : forall x, add x z = x.

  Lemma zadd_nil_l (b : list A) : zadd add [] b = b.
  Proof. reflexivity. Qed.

  Lemma zadd_nil_r (a : list A) : zadd add a [] = a.
  Proof. destruct a; reflexivity. Qed.

  Lemma zadd_assoc (a b c : list A) : zadd add a (zadd add b c) = zadd add (zadd add a b) c.
  Proof.
    revert b c. induction a as [|x a IH]; intros b c; [reflexivity|].
    destruct b as [|y b]; [reflexivity|].
    destruct c as [|w c]; [reflexivity|].
    cbn [zadd]. rewrite add_assoc, IH. reflexivity.
  Qed.

  Lemma nth_zadd (a b : list A) (k : nat) : nth k (zadd add a b) z = add (nth k a z) (nth k b z).
  Proof.
    revert b k. induction a as [|x a IH]; intros b k.
    - cbn [zadd]. destruct k; cbn [nth]; rewrite add_z_l; reflexivity.
    - destruct b as [|y b].
      + cbn [zadd]. destruct k; cbn [nth]; rewrite add_z_r; reflexivity.
      + cbn [zadd]. destruct k; cbn [nth]; [reflexivity|apply IH].
  Qed.
End Zadd.

Lemma Qc0l (x : Qc) : 0 + x = x. Proof. ring. Qed.
Lemma Qc0r (x : Qc) : x + 0 = x. Proof. ring. Qed.
Lemma QcA (x y w : Qc) : x + (y + w) = (x + y) + w. Proof. ring. Qed.

Lemma vadd_assoc a b c : vadd a (vadd b c) = vadd (vadd a b) c.
Proof. apply zadd_assoc. exact QcA. Qed.
Lemma vadd_nil_l a : vadd [] a = a. Proof. reflexivity. Qed.
Lemma vadd_nil_r a : vadd a [] = a. Proof. apply zadd_nil_r. Qed.
Lemma vget_vadd a b j : vget (vadd a b) j = vget a j + vget b j.
Proof. unfold vget, vadd. apply nth_zadd; [exact Qc0l|exact Qc0r]. Qed.

Lemma madd_assoc a b c : madd a (madd b c) = madd (madd a b) c.
Proof. apply zadd_assoc. exact vadd_assoc. Qed.
Lemma madd_nil_r a : madd a [] = a. Proof. apply zadd_nil_r. Qed.
Lemma mrow_madd a b i : mrow (madd a b) i = vadd (mrow a i) (mrow b i).
Proof. unfold mrow, madd. apply nth_zadd; [exact vadd_nil_l|exact vadd_nil_r]. Qed.
Lemma mget_madd a b i j : mget (madd a b) i j = mget a i j + mget b i j.
Proof. unfold mget. rewrite mrow_madd. apply vget_vadd. Qed.

Lemma cadd_assoc a b c : cadd a (cadd b c) = cadd (cadd a b) c.
Proof. unfold cadd. cbn [c_n c_s c_xx]. rewrite QcA, vadd_assoc, madd_assoc. reflexivity. Qed.
Lemma cadd_zero_l a : cadd czero a = a.
Proof. destruct a as [n s x]. unfold cadd, czero. cbn [c_n c_s c_xx]. rewrite Qc0l. reflexivity. Qed.
Lemma cadd_zero_r a : cadd a czero = a.
Proof. destruct a as [n s x]. unfold cadd, czero. cbn [c_n c_s c_xx]. rewrite Qc0r, vadd_nil_r, madd_nil_r. reflexivity. Qed.

(* ------------------------------------------------------------------------------------------ monoid laws (Accum.v shape) *)
Lemma st_plus_assoc a b c : st_plus a (st_plus b c) = st_plus (st_plus a b) c.
Proof. apply zadd_assoc. exact cadd_assoc. Qed.
Lemma st_plus_zero_l a : st_plus st_zero a = a.
Proof. reflexivity. Qed.
Lemma st_plus_zero_r a : st_plus a st_zero = a.
Proof. apply zadd_nil_r. Qed.

Lemma mst_plus_assoc a b c : mst_plus a (mst_plus b c) = mst_plus (mst_plus a b) c.
Proof. unfold mst_plus. cbn [fst snd]. rewrite QcA, vadd_assoc. reflexivity. Qed.
Lemma mst_plus_zero_l a : mst_plus mst_zero a = a.
Proof. destruct a as [n s]. unfold mst_plus, mst_zero. cbn [fst snd]. rewrite Qc0l. reflexivity. Qed.
Lemma mst_plus_zero_r a : mst_plus a mst_zero = a.
Proof. destruct a as [n s]. unfold mst_plus, mst_zero. cbn [fst snd]. rewrite Qc0r, vadd_nil_r. reflexivity. Qed.

(* ------------------------------------------------------------------------------------------ reading the build state *)
Lemma cget_plus a b k : cget (st_plus a b) k = cadd (cget a k) (cget b k).
Proof. unfold cget, st_plus. apply nth_zadd; [exact cadd_zero_l|exact cadd_zero_r]. Qed.
Lemma cnt_plus a b k : cnt (st_plus a b) k = cnt a k + cnt b k.
Proof. unfold cnt. rewrite cget_plus. reflexivity. Qed.
Lemma csum_plus a b k j : csum (st_plus a b) k j = csum a k j + csum b k j.
Proof. unfold csum. rewrite cget_plus. cbn [cadd c_s]. apply vget_vadd. Qed.
Lemma cxx_plus a b k i j : cxx (st_plus a b) k i j = cxx a k i j + cxx b k i j.
Proof. unfold cxx. rewrite cget_plus. cbn [cadd c_xx]. apply mget_madd. Qed.

Lemma nth_repeat_app {A} (z v : A) (k' k : nat) :
  nth k (repeat z k' ++ [v]) z = if Nat.eqb k' k then v else z.
Proof.
  revert k. induction k' as [|k' IH]; intros k; cbn [repeat app].
  - destruct k as [|k]; cbn; [reflexivity|]. destruct k; reflexivity.
  - destruct k as [|k]; cbn [nth Nat.eqb]; [reflexivity|apply IH].
Qed.

Lemma vget_nil j : vget [] j = 0. Proof. unfold vget. destruct j; reflexivity. Qed.
Lemma mget_nil i j : mget [] i j = 0.
Proof. unfold mget, mrow. destruct i; cbn [nth]; apply vget_nil. Qed.

Lemma vget_scale a (y : vec) j : vget (map (fun b => a * b) y) j = a * vget y j.
Proof.
  unfold vget. replace 0 with (a * 0) at 1 by ring.
  exact (map_nth (fun b => a * b) y 0 j).
Qed.

Lemma mget_outer x y i j : mget (outer x y) i j = vget x i * vget y j.
Proof.
  unfold mget, mrow, outer.
  destruct (Nat.lt_ge_cases i (length x)) as [Hlt|Hge].
  - rewrite (nth_indep _ [] (map (fun b => 0 * b) y)) by (rewrite map_length; exact Hlt).
    rewrite (map_nth (fun a => map (fun b => a * b) y) x 0 i).
    apply vget_scale.
  - rewrite nth_overflow by (rewrite map_length; exact Hge).
    unfold vget at 2. rewrite (nth_overflow x 0 Hge). rewrite vget_nil. ring.
Qed.

(* the contribution of one building trace, read class by class *)
Lemma cget_contrib parts (r : brow) k :
  cget (contrib parts r) k = if in_class parts k r then mkc 1 (snd r) (outer (snd r) (snd r)) else czero.
Proof.
  unfold contrib, in_class, cget. destruct (class_index parts (fst r)) as [k'|].
  - apply nth_repeat_app.
  - destruct k; reflexivity.
Qed.

Lemma class_rows_cons parts k r rows :
  class_rows parts k (r :: rows) = if in_class parts k r then snd r :: class_rows parts k rows else class_rows parts k rows.
Proof. unfold class_rows. cbn [filter]. destruct (in_class parts k r); reflexivity. Qed.

Lemma class_rows_app parts k r1 r2 : class_rows parts k (r1 ++ r2) = class_rows parts k r1 ++ class_rows parts k r2.
Proof. unfold class_rows. rewrite filter_app, map_app. reflexivity. Qed.

(* the accumulated state of any list of building traces: per class, count / sum / sum of products of ITS traces *)
Lemma bsum_cons parts r rows : bsumB parts (r :: rows) = st_plus (contrib parts r) (bsumB parts rows).
Proof. reflexivity. Qed.

Lemma cnt_bsum parts rows k : cnt (bsumB parts rows) k = qlen (class_rows parts k rows).
Proof.
  induction rows as [|r rows IH].
  - unfold bsumB, bsum, cnt, cget. cbn. destruct k; reflexivity.
  - rewrite bsum_cons, cnt_plus, IH, class_rows_cons. unfold cnt. rewrite cget_contrib.
    destruct (in_class parts k r); cbn [c_n czero]; [rewrite qlen_cons|]; ring.
Qed.

Lemma csum_bsum parts rows k j : csum (bsumB parts rows) k j = qsum (col j (class_rows parts k rows)).
Proof.
  induction rows as [|r rows IH].
  - unfold bsumB, bsum, csum, cget. cbn. destruct k; cbn; apply vget_nil.
  - rewrite bsum_cons, csum_plus, IH, class_rows_cons. unfold csum. rewrite cget_contrib.
    destruct (in_class parts k r); cbn [c_s czero].
    + unfold col. cbn [map]. rewrite qsum_cons. reflexivity.
    + rewrite vget_nil. ring.
Qed.

Lemma cxx_bsum parts rows k i j :
  cxx (bsumB parts rows) k i j = qsum (map (fun x => vget x i * vget x j) (class_rows parts k rows)).
Proof.
  induction rows as [|r rows IH].
  - unfold bsumB, bsum, cxx, cget. cbn. destruct k; cbn; apply mget_nil.
  - rewrite bsum_cons, cxx_plus, IH, class_rows_cons. unfold cxx. rewrite cget_contrib.
    destruct (in_class parts k r); cbn [c_xx czero].
    + cbn [map]. rewrite qsum_cons, mget_outer. reflexivity.
    + rewrite mget_nil. ring.
Qed.

(* update(batch) after update(batch) ... = one accumulation of all the rows *)
Lemma feedB_concat parts batches : feedB parts st_zero batches = bsumB parts (concat batches).
Proof.
  unfold feedB, bsumB.
  rewrite (feed_concat st brow st_zero st_plus (contrib parts) st_plus_assoc st_plus_zero_r st_plus_zero_l).
  unfold upd. apply st_plus_zero_l.
Qed.

Lemma feedB_from parts s batches : feedB parts s batches = st_plus s (bsumB parts (concat batches)).
Proof.
  unfold feedB, bsumB.
  rewrite (feed_concat st brow st_zero st_plus (contrib parts) st_plus_assoc st_plus_zero_r st_plus_zero_l).
  reflexivity.
Qed.

Lemma bsumB_app parts r1 r2 : bsumB parts (r1 ++ r2) = st_plus (bsumB parts r1) (bsumB parts r2).
Proof. unfold bsumB. apply bsum_app; [exact st_plus_assoc|exact st_plus_zero_l]. Qed.

(* ------------------------------------------------------------------------------------------ counts *)
Lemma qlen_ge1 {A} (x : A) l : 1 <= qlen (x :: l).
Proof.
  rewrite qlen_cons. replace 1 with (0 + 1) at 1 by ring.
  apply Qcplus_le_compat; [apply qlen_nonneg|apply Qcle_refl].
Qed.

Lemma qle_bool_true a b : qle_bool a b = true <-> a <= b.
Proof. unfold qle_bool, Qcle. apply Qle_bool_iff. Qed.

Lemma qle_bool_false a b : qle_bool a b = false <-> b < a.
Proof.
  split.
  - intros H. destruct (Qclt_le_dec b a) as [Hlt|Hle]; [exact Hlt|].
    apply qle_bool_true in Hle. congruence.
  - intros H. destruct (qle_bool a b) eqn:E; [|reflexivity].
    apply qle_bool_true in E. exfalso. exact (Qclt_not_le _ _ H E).
Qed.

Lemma qmax1_nonempty {A} (x : A) l : qmax1 (qlen (x :: l)) = qlen (x :: l).
Proof.
  unfold qmax1. destruct (qle_bool (qlen (x :: l)) 1) eqn:E; [|reflexivity].
  apply qle_bool_true in E. apply Qcle_antisym; [apply qlen_ge1|exact E].
Qed.

Lemma qlen_two_gt1 {A} (x y : A) l : 1 < qlen (x :: y :: l).
Proof.
  rewrite !qlen_cons. apply Qclt_le_trans with (y := 0 + 1 + 1); [reflexivity|].
  apply Qcplus_le_compat; [|apply Qcle_refl]. apply Qcplus_le_compat; [apply qlen_nonneg|apply Qcle_refl].
Qed.

(* a class has at most one trace iff its count is <= 1 *)
Lemma qlen_le1 {A} (l : list A) : qlen l <= 1 -> l = [] \/ exists x, l = [x].
Proof.
  intros H. destruct l as [|x [|y l]]; [left; reflexivity|right; exists x; reflexivity|].
  exfalso. exact (Qclt_not_le _ _ (qlen_two_gt1 x y l) H).
Qed.

(* ------------------------------------------------------------------------------------------ templates *)
Lemma qlen_col j xs : qlen (col j xs) = qlen xs.
Proof. unfold col. apply qlen_map. Qed.

Lemma template_bsum parts rows k j :
  class_rows parts k rows <> [] ->
  template (bsumB parts rows) k j = class_mean (class_rows parts k rows) j.
Proof.
  intros Hne. unfold template, class_mean, qmean. rewrite csum_bsum, cnt_bsum, qlen_col.
  destruct (class_rows parts k rows) as [|x xs]; [congruence|].
  rewrite qmax1_nonempty. reflexivity.
Qed.

Lemma template_bsum_empty parts rows k j :
  class_rows parts k rows = [] -> template (bsumB parts rows) k j = 0.
Proof.
  intros He. unfold template. rewrite csum_bsum, He. unfold col. cbn [map]. rewrite qsum_nil.
  unfold Qcdiv. ring.
Qed.

Lemma class_mean_singleton x j : class_mean [x] j = vget x j.
Proof.
  unfold class_mean, qmean, col, qsum, qlen. cbn [map fold_right]. field. discriminate.
Qed.

(* ------------------------------------------------------------------------------------------ scatter *)
Lemma scatter_as_scd xs i j : scatter xs i j = scd (map (fun x => (vget x i, vget x j)) xs).
Proof.
  unfold scatter, scd, class_mean, col. rewrite !map_map. cbn [fst snd]. reflexivity.
Qed.

(* exxi - n mu mu^T is the centred cross-product sum, entry by entry *)
Lemma scatter_sums xs i j : xs <> [] ->
  scatter xs i j = qsum (map (fun x => vget x i * vget x j) xs) - qlen xs * class_mean xs i * class_mean xs j.
Proof.
  intros Hne. rewrite scatter_as_scd, scd_identity by (destruct xs; [congruence|discriminate]).
  rewrite !map_map. cbn [fst snd]. rewrite qlen_map.
  unfold class_mean, qmean, col. rewrite !qlen_map.
  pose proof (qlen_nonzero xs Hne) as Hn. field. exact Hn.
Qed.

Lemma scatter_nil i j : scatter [] i j = 0.
Proof. reflexivity. Qed.

Lemma scatter_identity_bsum parts rows k i j :
  let s := bsumB parts rows in
  cxx s k i j - cnt s k * template s k i * template s k j = scatter (class_rows parts k rows) i j.
Proof.
  cbv zeta. destruct (class_rows parts k rows) as [|x xs] eqn:E.
  - rewrite cxx_bsum, cnt_bsum, E. cbn [map]. rewrite qsum_nil, (@qlen_nil vec), scatter_nil. ring.
  - rewrite !template_bsum by (rewrite E; discriminate).
    rewrite cxx_bsum, cnt_bsum, E. rewrite scatter_sums by discriminate. reflexivity.
Qed.

(* ------------------------------------------------------------------------------------------ pooled covariance *)
Lemma guard2_small n : n <= 1 -> guard2 n - 1 = 1.
Proof. intros H. unfold guard2. apply qle_bool_true in H. rewrite H. ring. Qed.

Lemma guard2_big n : 1 < n -> guard2 n = n.
Proof. intros H. unfold guard2. apply qle_bool_false in H. rewrite H. reflexivity. Qed.

Lemma unbiased_cov_small xs i j : qlen xs <= 1 -> unbiased_cov xs i j = 0.
Proof. intros H. unfold unbiased_cov. apply qle_bool_true in H. rewrite H. reflexivity. Qed.

Lemma unbiased_cov_big xs i j : 1 < qlen xs -> unbiased_cov xs i j = scatter xs i j / (qlen xs - 1).
Proof. intros H. unfold unbiased_cov. apply qle_bool_false in H. rewrite H. reflexivity. Qed.

Lemma scatter_singleton x i j : scatter [x] i j = 0.
Proof. unfold scatter. cbn [map]. rewrite !class_mean_singleton, qsum_cons, qsum_nil. ring. Qed.

Lemma cov_term_bsum parts rows k i j :
  cov_term (bsumB parts rows) k i j = unbiased_cov (class_rows parts k rows) i j.
Proof.
  unfold cov_term.
  replace (cxx (bsumB parts rows) k i j - template (bsumB parts rows) k i * template (bsumB parts rows) k j * cnt (bsumB parts rows) k)
    with (scatter (class_rows parts k rows) i j)
    by (rewrite <- scatter_identity_bsum; cbv zeta; ring).
  rewrite cnt_bsum.
  destruct (Qclt_le_dec 1 (qlen (class_rows parts k rows))) as [Hbig|Hsmall].
  - rewrite guard2_big, unbiased_cov_big by exact Hbig. reflexivity.
  - rewrite guard2_small, unbiased_cov_small by exact Hsmall.
    destruct (qlen_le1 _ Hsmall) as [E|[x E]]; rewrite E.
    + rewrite scatter_nil. unfold Qcdiv. ring.
    + rewrite scatter_singleton. unfold Qcdiv. ring.
Qed.

Lemma pooled_bsum parts rows i j : pooled parts (bsumB parts rows) i j = spec_pooled parts rows i j.
Proof.
  unfold pooled, spec_pooled, tabulate. f_equal. apply qsum_map_ext. intros k _. apply cov_term_bsum.
Qed.

(* ------------------------------------------------------------------------------------------ class lookup *)
Lemma class_index_from_sound parts v : forall o k,
  class_index_from parts v o = Some k -> exists i, k = (o + i)%nat /\ nth_error parts i = Some v.
Proof.
  induction parts as [|p r IH]; intros o k H; cbn [class_index_from] in H; [discriminate|].
  destruct (class_index_from r v (S o)) as [k'|] eqn:E.
  - injection H as <-. destruct (IH _ _ E) as (i & -> & Hi). exists (S i). split; [lia|exact Hi].
  - destruct (Z.eqb p v) eqn:Ev; [|discriminate]. injection H as <-.
    apply Z.eqb_eq in Ev. subst p. exists 0%nat. split; [lia|reflexivity].
Qed.

Lemma class_index_sound parts v k : class_index parts v = Some k -> nth_error parts k = Some v.
Proof. intros H. destruct (class_index_from_sound parts v 0 k H) as (i & -> & Hi). exact Hi. Qed.

Lemma class_index_from_none parts v : forall o, class_index_from parts v o = None <-> ~ In v parts.
Proof.
  induction parts as [|p r IH]; intros o; cbn [class_index_from In].
  - split; [intros _ []|reflexivity].
  - destruct (class_index_from r v (S o)) as [k'|] eqn:E.
    + split; [discriminate|]. intros Hn. exfalso.
      assert (Hr : ~ In v r) by (intros Hin; apply Hn; right; exact Hin).
      apply (IH (S o)) in Hr. congruence.
    + apply IH in E. destruct (Z.eqb p v) eqn:Ev.
      * apply Z.eqb_eq in Ev. split; [discriminate|]. intros Hn. exfalso. apply Hn. left. exact Ev.
      * apply Z.eqb_neq in Ev. split; [|reflexivity]. intros _ [Hp|Hin]; [exact (Ev Hp)|exact (E Hin)].
Qed.

Lemma class_index_none parts v : class_index parts v = None <-> ~ In v parts.
Proof. apply class_index_from_none. Qed.

Lemma class_index_from_complete parts v : NoDup parts -> forall o i,
  nth_error parts i = Some v -> class_index_from parts v o = Some (o + i)%nat.
Proof.
  induction parts as [|p r IH]; intros Hnd o i Hi; [destruct i; discriminate|].
  inversion Hnd as [|? ? Hnotin Hnd']; subst. cbn [class_index_from].
  destruct i as [|i]; cbn [nth_error] in Hi.
  - injection Hi as ->.
    assert (E : class_index_from r v (S o) = None) by (apply class_index_from_none; exact Hnotin).
    rewrite E, Z.eqb_refl. f_equal. lia.
  - rewrite (IH Hnd' (S o) i Hi). f_equal. lia.
Qed.

Lemma class_index_spec parts v k : NoDup parts -> (class_index parts v = Some k <-> nth_error parts k = Some v).
Proof.
  intros Hnd. split; [apply class_index_sound|].
  intros H. unfold class_index. rewrite (class_index_from_complete parts v Hnd 0 k H). reflexivity.
Qed.

(* ------------------------------------------------------------------------------------------ quadratic form *)
Lemma qsum_swap (f : nat -> nat -> Qc) (li lj : list nat) :
  qsum (map (fun j => qsum (map (fun i => f i j) li)) lj) = qsum (map (fun i => qsum (map (fun j => f i j) lj)) li).
Proof.
  induction lj as [|j lj IH]; cbn [map].
  - transitivity (qsum (map (fun _ : nat => 0) li)); [|apply qsum_map_ext; intros; reflexivity].
    rewrite qsum_map_const. unfold qsum. cbn [fold_right]. ring.
  - rewrite qsum_cons, IH.
    rewrite (qsum_map_ext (fun i => qsum (f i j :: map (fun j0 => f i j0) lj))
                          (fun i => f i j + qsum (map (fun j0 => f i j0) lj))) by (intros; apply qsum_cons).
    rewrite qsum_map_add. reflexivity.
Qed.

Lemma qsum_map_scale_r {A} (c : Qc) (f : A -> Qc) l : qsum (map (fun x => f x * c) l) = qsum (map f l) * c.
Proof.
  rewrite (qsum_map_ext _ (fun x => c * f x)) by (intros; ring).
  rewrite qsum_map_scale. ring.
Qed.

(* sum((d P) o d) = d^T P d, for EVERY matrix P *)
Lemma code_form_quad P S d : code_form P S d = quad P S d.
Proof.
  unfold code_form, quad, tabulate.
  rewrite (qsum_map_ext _ (fun j => qsum (map (fun i => d i * mget P i j * d j) (seq 0 S)))).
  - apply (qsum_swap (fun i j => d i * mget P i j * d j)).
  - intros j _. symmetry. apply (qsum_map_scale_r (d j) (fun i => d i * mget P i j)).
Qed.

(* ------------------------------------------------------------------------------------------ matching state *)
Lemma nth_tabulate {A} (n : nat) (f : nat -> A) (g : nat) (d : A) : (g < n)%nat -> nth g (tabulate n f) d = f g.
Proof.
  intros H. unfold tabulate. rewrite (nth_indep _ d (f 0%nat)) by (rewrite map_length, seq_length; exact H).
  rewrite (map_nth f (seq 0 n) 0%nat g). rewrite seq_nth by exact H. reflexivity.
Qed.

Lemma length_tabulate {A} n (f : nat -> A) : length (tabulate n f) = n.
Proof. unfold tabulate. rewrite map_length. apply seq_length. Qed.

Section MatchingProofs.
  Variable P : mat.
  Variable S : nat.
  Variable T : mat.
  Variable m : mode.
  Variable parts : list Z.
  Variable G : nat.

  Let bsumM' := bsumM P S T m parts G.
  Let feedM' := feedM P S T m parts G.

  Lemma row_score_maha r g : row_score P S T m parts r g = maha P S T m parts r g / qnat S.
  Proof.
    unfold row_score, maha. destruct (sel m parts r g); [rewrite code_form_quad; reflexivity|].
    unfold Qcdiv. ring.
  Qed.

  Lemma bsumM_cons r rows : bsumM' (r :: rows) = mst_plus (mcontrib P S T m parts G r) (bsumM' rows).
  Proof. reflexivity. Qed.

  Lemma fst_bsumM rows : fst (bsumM' rows) = qlen rows.
  Proof.
    induction rows as [|r rows IH]; [reflexivity|].
    rewrite bsumM_cons. unfold mst_plus. cbn [fst mcontrib]. rewrite IH, qlen_cons. ring.
  Qed.

  Lemma snd_bsumM rows g : (g < G)%nat ->
    vget (snd (bsumM' rows)) g = qsum (map (fun r => row_score P S T m parts r g) rows).
  Proof.
    intros Hg. induction rows as [|r rows IH].
    - unfold bsumM', bsumM, bsum. cbn. apply vget_nil.
    - rewrite bsumM_cons. unfold mst_plus. cbn [snd mcontrib]. rewrite vget_vadd, IH.
      unfold vget at 1. rewrite nth_tabulate by exact Hg. cbn [map]. rewrite qsum_cons. reflexivity.
  Qed.

  Lemma feedM_concat batches : feedM' mst_zero batches = bsumM' (concat batches).
  Proof.
    unfold feedM', feedM, bsumM', bsumM.
    rewrite (feed_concat mst mrowt mst_zero mst_plus _ mst_plus_assoc mst_plus_zero_r mst_plus_zero_l).
    unfold upd. apply mst_plus_zero_l.
  Qed.

  Lemma feedM_from s batches : feedM' s batches = mst_plus s (bsumM' (concat batches)).
  Proof.
    unfold feedM', feedM, bsumM', bsumM.
    rewrite (feed_concat mst mrowt mst_zero mst_plus _ mst_plus_assoc mst_plus_zero_r mst_plus_zero_l).
    reflexivity.
  Qed.

  (* the k-th score of compute() on the accumulated state of ANY list of matching traces *)
  Lemma mcomp_bsumM rows g : (g < G)%nat ->
    vget (mcomp G (bsumM' rows)) g = spec_score P S T m parts rows g.
  Proof.
    intros Hg. unfold mcomp, vget at 1. rewrite nth_tabulate by exact Hg.
    rewrite fst_bsumM, snd_bsumM by exact Hg. unfold spec_score, mean_distance. f_equal. f_equal.
    rewrite (qsum_map_ext _ (fun r => / qnat S * maha P S T m parts r g)).
    - rewrite qsum_map_scale. unfold Qcdiv. ring.
    - intros r _. rewrite row_score_maha. unfold Qcdiv. ring.
  Qed.
End MatchingProofs.

(* ------------------------------------------------------------------------------------------ order *)
Lemma ten_minus_le a b : ten - a <= ten - b <-> b <= a.
Proof.
  split; intros H.
  - apply (Qcplus_le_compat _ _ (a + b - ten) (a + b - ten)) in H; [|apply Qcle_refl].
    replace (ten - a + (a + b - ten)) with b in H by ring.
    replace (ten - b + (a + b - ten)) with a in H by ring. exact H.
  - apply (Qcplus_le_compat _ _ (ten - a - b) (ten - a - b)) in H; [|apply Qcle_refl].
    replace (b + (ten - a - b)) with (ten - a) in H by ring.
    replace (a + (ten - a - b)) with (ten - b) in H by ring. exact H.
Qed.

(* ------------------------------------------------------------------------------------------ property theorems *)

Theorem template_is_class_mean_thm :
  forall (parts : list Z) (batches : list (list brow)) (k j : nat),
  let rows := concat batches in
  class_rows parts k rows <> [] ->
  template (feedB parts st_zero batches) k j = class_mean (class_rows parts k rows) j.
Proof. intros parts batches k j rows H. rewrite feedB_concat. apply template_bsum. exact H. Qed.

Theorem template_singleton_thm :
  forall (parts : list Z) (batches : list (list brow)) (k j : nat) (x : vec),
  class_rows parts k (concat batches) = [x] ->
  template (feedB parts st_zero batches) k j = vget x j.
Proof.
  intros parts batches k j x H. rewrite feedB_concat, template_bsum by (rewrite H; discriminate).
  rewrite H. apply class_mean_singleton.
Qed.

Theorem template_empty_class_thm :
  forall (parts : list Z) (batches : list (list brow)) (k j : nat),
  class_rows parts k (concat batches) = [] -> template (feedB parts st_zero batches) k j = 0.
Proof. intros parts batches k j H. rewrite feedB_concat. apply template_bsum_empty. exact H. Qed.

Theorem comp_templates_thm :
  forall (parts : list Z) (S : nat) (s : st) (k j : nat), (k < length parts)%nat -> (j < S)%nat ->
  mget (fst (comp parts S s)) k j = template s k j /\ (forall i, (i < S)%nat -> mget (snd (comp parts S s)) i j = pooled parts s i j).
Proof.
  intros parts S s k j Hk Hj. unfold comp. cbn [fst snd]. unfold mget, mrow, vget. split.
  - rewrite (nth_tabulate _ _ _ _ Hk). apply nth_tabulate. exact Hj.
  - intros i Hi. rewrite (nth_tabulate _ _ _ _ Hi). apply nth_tabulate. exact Hj.
Qed.

Theorem scatter_identity_thm :
  forall (parts : list Z) (batches : list (list brow)) (k i j : nat),
  let s := feedB parts st_zero batches in
  cxx s k i j - cnt s k * template s k i * template s k j = scatter (class_rows parts k (concat batches)) i j.
Proof. intros parts batches k i j. cbv zeta. rewrite feedB_concat. apply scatter_identity_bsum. Qed.

Theorem state_is_class_sums_thm :
  forall (parts : list Z) (batches : list (list brow)) (k i j : nat),
  let s := feedB parts st_zero batches in let xs := class_rows parts k (concat batches) in
  cnt s k = qlen xs /\ csum s k j = qsum (col j xs) /\ cxx s k i j = qsum (map (fun x => vget x i * vget x j) xs).
Proof.
  intros parts batches k i j. cbv zeta. rewrite feedB_concat.
  split; [apply cnt_bsum|split; [apply csum_bsum|apply cxx_bsum]].
Qed.

Theorem pooled_is_average_of_unbiased_thm :
  forall (parts : list Z) (batches : list (list brow)) (i j : nat),
  parts <> [] ->
  pooled parts (feedB parts st_zero batches) i j
  = qsum (map (fun k => unbiased_cov (class_rows parts k (concat batches)) i j) (seq 0 (length parts))) / qlen parts.
Proof. intros parts batches i j _. rewrite feedB_concat. apply pooled_bsum. Qed.

Theorem score_formula_thm :
  forall (P : mat) (S : nat) (T : mat) (m : mode) (parts : list Z) (G : nat) (batches : list (list mrowt)) (g : nat),
  (g < G)%nat ->
  Forall (fun r => sel m parts r g <> None) (concat batches) ->
  vget (mcomp G (feedM P S T m parts G mst_zero batches)) g = ten - mean_distance P S T m parts (concat batches) g.
Proof. intros P S T m parts G batches g Hg _. rewrite feedM_concat. apply mcomp_bsumM. exact Hg. Qed.

Theorem best_is_min_distance_thm :
  forall (P : mat) (S : nat) (T : mat) (m : mode) (parts : list Z) (rows : list mrowt) (g h : nat),
  spec_score P S T m parts rows h <= spec_score P S T m parts rows g
  <-> mean_distance P S T m parts rows g <= mean_distance P S T m parts rows h.
Proof. intros. unfold spec_score. apply ten_minus_le. Qed.

Theorem best_candidate_thm :
  forall (P : mat) (S : nat) (T : mat) (m : mode) (parts : list Z) (G : nat) (batches : list (list mrowt)) (g : nat),
  (g < G)%nat ->
  let sc := mcomp G (feedM P S T m parts G mst_zero batches) in
  (forall h, (h < G)%nat -> vget sc h <= vget sc g)
  <-> (forall h, (h < G)%nat -> mean_distance P S T m parts (concat batches) g <= mean_distance P S T m parts (concat batches) h).
Proof.
  intros P S T m parts G batches g Hg. cbv zeta. rewrite feedM_concat.
  split; intros H h Hh; specialize (H h Hh).
  - rewrite !mcomp_bsumM in H by assumption. apply best_is_min_distance_thm in H. exact H.
  - rewrite !mcomp_bsumM by assumption. apply best_is_min_distance_thm. exact H.
Qed.

Theorem sel_static_thm : forall parts r g, (g < length parts)%nat -> sel Static parts r g = Some g.
Proof. intros parts r g H. unfold sel. apply Nat.ltb_lt in H. rewrite H. reflexivity. Qed.

Theorem sel_dpa_by_value_thm :
  forall parts (r : mrowt) g k, sel Dpa parts r g = Some k ->
  exists v, nth_error (fst r) g = Some v /\ nth_error parts k = Some v.
Proof.
  intros parts r g k H. unfold sel in H. destruct (nth_error (fst r) g) as [v|]; [|discriminate].
  exists v. split; [reflexivity|]. apply class_index_sound. exact H.
Qed.

Theorem sel_dpa_declared_thm :
  forall parts (r : mrowt) g v k, NoDup parts -> nth_error (fst r) g = Some v -> nth_error parts k = Some v ->
  sel Dpa parts r g = Some k.
Proof. intros parts r g v k Hnd Hv Hk. unfold sel. rewrite Hv. apply class_index_spec; assumption. Qed.

(* state machine *)
Theorem matching_before_build_refused_thm :
  forall (m : mode) (parts : list Z) (S G : nat) (a : attack) (batches : list (list mrowt)),
  a_prof a = None -> do_run m parts S G a batches = Refused.
Proof. intros m parts S G a batches H. unfold do_run. rewrite H. reflexivity. Qed.

Theorem build_sets_profile_thm :
  forall (pinv : mat -> mat) (parts : list Z) (S : nat) (a : attack) (batches : list (list brow)),
  let a' := do_build pinv parts S a batches in
  exists p, a_prof a' = Some p
    /\ (pf_T p, pf_C p) = comp parts S (feedB parts (a_bst a) batches)
    /\ pf_P p = pinv (pf_C p) /\ a_mst a' = a_mst a.
Proof.
  intros pinv parts S a batches. cbv zeta. unfold do_build. cbn [a_prof a_mst].
  eexists. split; [reflexivity|]. cbn [pf_T pf_C pf_P].
  destruct (comp parts S (feedB parts (a_bst a) batches)); cbn [fst snd]. repeat split.
Qed.

Lemma rows_ok_spec S rows : rows_ok S rows = true <-> Forall (fun r : mrowt => length (snd r) = S) rows.
Proof.
  unfold rows_ok. rewrite forallb_forall, Forall_forall. split; intros H r Hr; specialize (H r Hr).
  - apply Nat.eqb_eq. exact H.
  - apply Nat.eqb_eq. exact H.
Qed.

(* end to end: fresh object, build, then one run *)
Theorem build_then_match_thm :
  forall (pinv : mat -> mat) (m : mode) (parts : list Z) (S G : nat)
         (bb : list (list brow)) (mb : list (list mrowt)) (g : nat),
  (g < G)%nat -> concat mb <> [] ->
  Forall (fun r : mrowt => length (snd r) = S) (concat mb) ->
  let T := fst (comp parts S (feedB parts st_zero bb)) in
  let C := snd (comp parts S (feedB parts st_zero bb)) in
  exists a', do_run m parts S G (do_build pinv parts S fresh bb) mb = Done a'
    /\ vget (scores G a') g = ten - mean_distance (pinv C) S T m parts (concat mb) g.
Proof.
  intros pinv m parts S G bb mb g Hg Hne Hlen. cbv zeta.
  unfold do_run, do_build. cbn [a_prof a_bst a_mst fresh pf_P pf_T].
  apply rows_ok_spec in Hlen. rewrite Hlen.
  rewrite feedM_concat, fst_bsumM.
  destruct (Qc_eq_bool (qlen (concat mb)) 0) eqn:E.
  - apply Qc_eq_bool_correct in E. exfalso. exact (qlen_nonzero _ Hne E).
  - eexists. split; [reflexivity|]. unfold scores. cbn [a_prof a_mst].
    apply mcomp_bsumM. exact Hg.
Qed.

(* batch additivity *)
Theorem build_batch_split_thm :
  forall (parts : list Z) (s : st) (bs1 bs2 : list (list brow)),
  concat bs1 = concat bs2 -> feedB parts s bs1 = feedB parts s bs2.
Proof.
  intros parts s bs1 bs2 H. unfold feedB.
  apply (split_eq_oneshot st brow st_zero st_plus (contrib parts) st_plus_assoc st_plus_zero_r st_plus_zero_l). exact H.
Qed.

Theorem match_batch_split_thm :
  forall (P : mat) (S : nat) (T : mat) (m : mode) (parts : list Z) (G : nat) (s : mst) (bs1 bs2 : list (list mrowt)),
  concat bs1 = concat bs2 -> feedM P S T m parts G s bs1 = feedM P S T m parts G s bs2.
Proof.
  intros P S T m parts G s bs1 bs2 H. unfold feedM.
  apply (split_eq_oneshot mst mrowt mst_zero mst_plus _ mst_plus_assoc mst_plus_zero_r mst_plus_zero_l). exact H.
Qed.

Theorem build_twice_thm :
  forall (parts : list Z) (b1 b2 : list (list brow)),
  feedB parts (feedB parts st_zero b1) b2 = feedB parts st_zero (b1 ++ b2).
Proof.
  intros parts b1 b2. unfold feedB, feed. rewrite fold_left_app. reflexivity.
Qed.

Theorem match_runs_accumulate_thm :
  forall (P : mat) (S : nat) (T : mat) (m : mode) (parts : list Z) (G : nat) (r1 r2 : list (list mrowt)),
  feedM P S T m parts G (feedM P S T m parts G mst_zero r1) r2 = feedM P S T m parts G mst_zero (r1 ++ r2).
Proof. intros. unfold feedM, feed. rewrite fold_left_app. reflexivity. Qed.

(* histories of update / compute on the matching distinguisher: the k-th compute returns the scores of the one-shot
   accumulation of every trace fed before it *)
Theorem match_history_thm :
  forall (P : mat) (S : nat) (T : mat) (m : mode) (parts : list Z) (G : nat) (h : list (op mrowt)),
  snd (run mst mrowt vec mst_zero mst_plus (mcontrib P S T m parts G) (mcomp G) mst_zero h)
  = expected_outputs mst mrowt vec mst_zero mst_plus (mcontrib P S T m parts G) (mcomp G) [] h.
Proof.
  intros. apply history_outputs0; [exact mst_plus_assoc|exact mst_plus_zero_r|exact mst_plus_zero_l].
Qed.

(* ------------------------------------------------------------------------------------------ deciding equalities of Qc data
   (used by the Examples: [reflexivity] cannot compare the canonicity proofs inside two computed Qc values) *)
Lemma list_eqb_eq {A} (eqb : A -> A -> bool) (H : forall x y, eqb x y = true -> x = y) :
  forall a b, list_eqb eqb a b = true -> a = b.
Proof.
  induction a as [|x a IH]; intros [|y b] E; cbn [list_eqb] in E; try discriminate; [reflexivity|].
  apply andb_true_iff in E. destruct E as [E1 E2]. rewrite (H _ _ E1), (IH _ E2). reflexivity.
Qed.
Lemma veq_eq (a b : vec) : list_eqb Qc_eq_bool a b = true -> a = b.
Proof. apply list_eqb_eq. exact Qc_eq_bool_correct. Qed.
Lemma meq_eq (a b : mat) : list_eqb (list_eqb Qc_eq_bool) a b = true -> a = b.
Proof. apply list_eqb_eq. exact veq_eq. Qed.
Lemma qeq_eq (a b : Qc) : Qc_eq_bool a b = true -> a = b.
Proof. exact (Qc_eq_bool_correct a b). Qed.
