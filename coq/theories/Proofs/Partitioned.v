(* Proofs/Partitioned.v — lemmas for property C04 (ANOVA / NICV / SNR equal their definitions over value classes) and the
   monoid laws of the partitioned accumulator (re-used by C01 / C11 / C12 / C16 through Model/Accum.v). *)
From Coq Require Import ZArith QArith Qcanon List Bool Lia.
From Coq Require FinFun.
From ScaredV Require Import Lib.QcSum Run.Compare Model.Accum Model.Partitioned.
Import ListNotations.
Open Scope Qc_scope.

(* ================================================================ Qc helpers *)
Lemma Qc_eq_bool_iff x y : Qc_eq_bool x y = true <-> x = y.
Proof.
  split; [apply Qc_eq_bool_correct|].
  intros ->. unfold Qc_eq_bool. destruct (Qc_eq_dec y y) as [_|N]; [reflexivity|exfalso; apply N; reflexivity].
Qed.

Lemma Qc_eq_bool_false_iff x y : Qc_eq_bool x y = false <-> x <> y.
Proof.
  split.
  - intros H E. apply Qc_eq_bool_iff in E. congruence.
  - intros N. destruct (Qc_eq_bool x y) eqn:E; [|reflexivity]. apply Qc_eq_bool_iff in E. contradiction.
Qed.

Lemma Qc_eqb_spec x y : reflect (x = y) (Qc_eq_bool x y).
Proof. destruct (Qc_eq_bool x y) eqn:E; constructor; [apply Qc_eq_bool_iff|apply Qc_eq_bool_false_iff]; exact E. Qed.

Lemma Qc_div_zero_iff (x y : Qc) : y <> 0 -> (x / y = 0 <-> x = 0).
Proof.
  intros Hy. split; intros H.
  - replace x with (x / y * y) by (field; exact Hy). rewrite H. ring.
  - rewrite H. unfold Qcdiv. ring.
Qed.

Lemma Qc_sub_zero_iff (x y : Qc) : x - y = 0 <-> x = y.
Proof.
  split; intros H.
  - replace x with (x - y + y) by ring. rewrite H. ring.
  - rewrite H. ring.
Qed.

Lemma Qc_div_nonneg (x y : Qc) : 0 <= x -> 0 < y -> 0 <= x / y.
Proof.
  intros Hx Hy. destruct (Qclt_le_dec (x / y) 0) as [Hlt|Hle]; [exfalso|exact Hle].
  apply (Qcmult_lt_compat_r _ _ y) in Hlt; [|exact Hy].
  assert (Hyn : y <> 0) by (intros E; rewrite E in Hy; discriminate).
  replace (x / y * y) with x in Hlt by (field; exact Hyn).
  replace (0 * y) with 0 in Hlt by ring.
  apply Qclt_not_le in Hlt. contradiction.
Qed.

(* qlen is the length *)
Fixpoint qnat (n : nat) : Qc := match n with O => 0 | S k => qnat k + 1 end.

Lemma qlen_qnat {A} (l : list A) : qlen l = qnat (length l).
Proof. induction l as [|x l IH]; [reflexivity|]. rewrite qlen_cons, IH. reflexivity. Qed.

Lemma qnat_add n m : qnat (n + m) = qnat n + qnat m.
Proof. induction n as [|n IH]; cbn [qnat Nat.add]; [ring|]. rewrite IH. ring. Qed.

Lemma qnat_nonneg n : 0 <= qnat n.
Proof. induction n as [|n IH]; cbn [qnat]; [apply Qcle_refl|]. apply Qc_add_nonneg; [exact IH|discriminate]. Qed.

Lemma qnat_zero n : qnat n = 0 -> n = O.
Proof.
  destruct n as [|n]; [reflexivity|]. cbn [qnat]. intros H. exfalso.
  assert (P : 0 < qnat n + 1).
  { apply Qclt_le_trans with (y := 0 + 1); [reflexivity|].
    apply Qcplus_le_compat; [apply qnat_nonneg|apply Qcle_refl]. }
  rewrite H in P. discriminate.
Qed.

Lemma qnat_inj n m : qnat n = qnat m -> n = m.
Proof.
  assert (G : forall a d, qnat a = qnat (a + d) -> d = O).
  { intros a d H. rewrite qnat_add in H. apply qnat_zero.
    replace (qnat d) with (qnat a + qnat d - qnat a) by ring. rewrite <- H. ring. }
  intros H. destruct (Nat.le_ge_cases n m) as [L|L].
  - replace m with (n + (m - n))%nat in H by lia. apply G in H. lia.
  - symmetry in H. replace n with (m + (n - m))%nat in H by lia. apply G in H. lia.
Qed.

Lemma qlen_eq_iff {A B} (l : list A) (l' : list B) : qlen l = qlen l' <-> length l = length l'.
Proof.
  rewrite !qlen_qnat. split; [apply qnat_inj|intros ->; reflexivity].
Qed.

Lemma qlen_zero_iff {A} (l : list A) : qlen l = 0 <-> l = [].
Proof.
  split; [|intros ->; reflexivity].
  intros H. destruct l as [|x l]; [reflexivity|]. exfalso. revert H. apply qlen_nonzero. discriminate.
Qed.

Lemma qlen_one_iff {A} (l : list A) : qlen l - 1 = 0 <-> length l = 1%nat.
Proof.
  rewrite Qc_sub_zero_iff, qlen_qnat. split.
  - intros H. apply qnat_inj. rewrite H. cbn [qnat]. ring.
  - intros ->. cbn [qnat]. ring.
Qed.

(* ================================================================ the accumulator is a commutative monoid (Leibniz) *)
Lemma tplus_assoc a b c : tplus a (tplus b c) = tplus (tplus a b) c.
Proof.
  destruct a as [[a1 a2] a3], b as [[b1 b2] b3], c as [[c1 c2] c3]. unfold tplus, t_n, t_s, t_q. cbn [fst snd].
  f_equal; [f_equal|]; ring.
Qed.

Lemma tplus_comm a b : tplus a b = tplus b a.
Proof.
  destruct a as [[a1 a2] a3], b as [[b1 b2] b3]. unfold tplus, t_n, t_s, t_q. cbn [fst snd].
  f_equal; [f_equal|]; ring.
Qed.

Lemma tplus_t0_l a : tplus t0 a = a.
Proof.
  destruct a as [[a1 a2] a3]. unfold tplus, t0, t_n, t_s, t_q. cbn [fst snd]. f_equal; [f_equal|]; ring.
Qed.

Lemma tplus_t0_r a : tplus a t0 = a.
Proof. rewrite tplus_comm. apply tplus_t0_l. Qed.

Theorem st_plus_assoc a b c : st_plus a (st_plus b c) = st_plus (st_plus a b) c.
Proof.
  revert b c. induction a as [|x a IH]; intros b c; [reflexivity|].
  destruct b as [|y b]; [reflexivity|]. destruct c as [|z c]; [reflexivity|].
  cbn [st_plus]. rewrite IH, tplus_assoc. reflexivity.
Qed.

Theorem st_plus_zero_l a : st_plus st_zero a = a.
Proof. reflexivity. Qed.

Theorem st_plus_zero_r a : st_plus a st_zero = a.
Proof. destruct a; reflexivity. Qed.

Theorem st_plus_comm a b : st_plus a b = st_plus b a.
Proof.
  revert b. induction a as [|x a IH]; intros [|y b]; try reflexivity.
  cbn [st_plus]. rewrite IH, tplus_comm. reflexivity.
Qed.

Lemma nth_nil_t0 k : nth k (@nil triple) t0 = t0.
Proof. destruct k; reflexivity. Qed.

(* reading with default (0,0,0) commutes with the padded addition: no shape hypothesis *)
Lemma nth_st_plus a : forall b k, nth k (st_plus a b) t0 = tplus (nth k a t0) (nth k b t0).
Proof.
  induction a as [|x a IH]; intros b k.
  - cbn [st_plus]. rewrite nth_nil_t0, tplus_t0_l. reflexivity.
  - destruct b as [|y b].
    + cbn [st_plus]. rewrite nth_nil_t0, tplus_t0_r. reflexivity.
    + cbn [st_plus]. destruct k as [|k]; [reflexivity|]. cbn [nth]. apply IH.
Qed.

Lemma nth_repeat_one (v : triple) j : forall k, nth k (repeat t0 j ++ [v]) t0 = if Nat.eqb k j then v else t0.
Proof.
  induction j as [|j IH]; intros k; cbn [repeat app].
  - destruct k as [|k]; [reflexivity|]. cbn [nth Nat.eqb]. apply nth_nil_t0.
  - destruct k as [|k]; [reflexivity|]. cbn [nth Nat.eqb]. apply IH.
Qed.

(* update(b1 ++ b2) = update(b1); update(b2), any batching = one shot: instances of Model/Accum.v *)
Theorem feed_batches_concat parts batches : feed_batches parts batches = accu parts (concat batches).
Proof.
  unfold feed_batches, accu.
  rewrite (feed_concat st row st_zero st_plus (contrib parts) st_plus_assoc st_plus_zero_r st_plus_zero_l).
  unfold upd. apply st_plus_zero_l.
Qed.

(* ================================================================ class lookup *)
Lemma find_last_some parts v : forall i k, find_last parts v i = Some k -> (i <= k)%nat /\ nth_error parts (k - i) = Some v.
Proof.
  induction parts as [|p t IH]; intros i k H; cbn [find_last] in H; [discriminate|].
  destruct (find_last t v (S i)) as [k0|] eqn:E.
  - injection H as ->. destruct (IH _ _ E) as [L N]. split; [lia|].
    replace (k - i)%nat with (S (k - S i)) by lia. exact N.
  - destruct (Z.eqb_spec p v) as [->|]; [|discriminate]. injection H as ->. split; [lia|].
    rewrite Nat.sub_diag. reflexivity.
Qed.

Lemma find_last_notin parts v : ~ In v parts -> forall i, find_last parts v i = None.
Proof.
  intros N i. destruct (find_last parts v i) as [k|] eqn:E; [exfalso|reflexivity].
  apply find_last_some in E. destruct E as [_ E]. apply nth_error_In in E. contradiction.
Qed.

Lemma find_last_nodup parts v : NoDup parts -> forall j i, nth_error parts j = Some v -> find_last parts v i = Some (i + j)%nat.
Proof.
  induction 1 as [|p t Hp Hnd IH]; intros j i Hj; [destruct j; discriminate|].
  cbn [find_last]. destruct j as [|j]; cbn [nth_error] in Hj.
  - injection Hj as ->. rewrite (find_last_notin t v Hp), Z.eqb_refl. f_equal. lia.
  - rewrite (IH j (S i) Hj). f_equal. lia.
Qed.

Definition all_in_range (parts : list Z) : Prop := forall c, In c parts -> in_range c = true.

(* classes are identified by value: for a duplicate-free declaration inside the table, the index of value v is its position *)
Theorem lut_spec parts v k : NoDup parts -> all_in_range parts ->
  (lut parts v = Some k <-> nth_error parts k = Some v).
Proof.
  intros Hnd Hr. unfold lut. split.
  - destruct (in_range v); [|discriminate]. intros H. apply find_last_some in H.
    rewrite Nat.sub_0_r in H. apply H.
  - intros H. rewrite (Hr v (nth_error_In _ _ H)). apply (find_last_nodup parts v Hnd k 0%nat H).
Qed.

Lemma lut_lt parts v k : lut parts v = Some k -> (k < length parts)%nat.
Proof.
  unfold lut. destruct (in_range v); [|discriminate]. intros H. apply find_last_some in H.
  destruct H as [_ H]. rewrite Nat.sub_0_r in H. apply nth_error_Some. congruence.
Qed.

Lemma lut_undeclared parts v : ~ In v parts -> lut parts v = None.
Proof. intros H. unfold lut. destruct (in_range v); [|reflexivity]. apply find_last_notin. exact H. Qed.

(* ================================================================ what the accumulators hold *)
(* the samples that the code files under class index k *)
Definition class_samples (parts : list Z) (rows : list row) (k : nat) : list Qc :=
  map snd (filter (fun r => match lut parts (fst r) with Some j => Nat.eqb j k | None => false end) rows).

Lemma nth_contrib parts r k :
  nth k (contrib parts r) t0 =
  match lut parts (fst r) with
  | Some j => if Nat.eqb k j then (1, snd r, snd r * snd r) else t0
  | None => t0
  end.
Proof.
  unfold contrib. destruct (lut parts (fst r)) as [j|]; [apply nth_repeat_one|apply nth_nil_t0].
Qed.

Lemma triple_of_cons x g : triple_of (x :: g) = tplus (1, x, x * x) (triple_of g).
Proof.
  unfold triple_of, tplus, t_n, t_s, t_q. cbn [fst snd map]. rewrite qlen_cons, !qsum_cons. unfold sq at 1.
  f_equal. f_equal. ring.
Qed.

Lemma accu_nth parts rows k : nth k (accu parts rows) t0 = triple_of (class_samples parts rows k).
Proof.
  unfold accu, class_samples. induction rows as [|r rows IH]; [apply nth_nil_t0|].
  cbn [bsum fold_right filter]. fold (bsum st row st_zero st_plus (contrib parts) rows).
  rewrite nth_st_plus, IH, nth_contrib.
  destruct (lut parts (fst r)) as [j|]; [|apply tplus_t0_l].
  rewrite (Nat.eqb_sym k j). destruct (Nat.eqb j k); [|apply tplus_t0_l].
  cbn [map]. symmetry. apply triple_of_cons.
Qed.

Lemma class_samples_group parts rows k c : NoDup parts -> all_in_range parts -> nth_error parts k = Some c ->
  class_samples parts rows k = group rows c.
Proof.
  intros Hnd Hr Hk. unfold class_samples, group. f_equal. apply filter_ext. intros r.
  destruct (Z.eqb_spec (fst r) c) as [E|E].
  - rewrite E. apply (lut_spec parts c k Hnd Hr) in Hk. rewrite Hk. apply Nat.eqb_refl.
  - destruct (lut parts (fst r)) as [j|] eqn:L; [|reflexivity].
    destruct (Nat.eqb_spec j k) as [->|]; [|reflexivity]. exfalso. apply E.
    apply (lut_spec parts (fst r) k Hnd Hr) in L. congruence.
Qed.

(* ★ groups_of_accu: after ANY sequence of update() calls, the (counters, sum, sum_square) of class k of an entry are
   (|g_k|, sum g_k, sum of squares of g_k) for g_k the samples of the traces whose data word has the k-th declared value *)
Theorem groups_of_accu_thm parts batches k c : NoDup parts -> all_in_range parts -> nth_error parts k = Some c ->
  nth k (feed_batches parts batches) t0
  = (qlen (group (concat batches) c), qsum (group (concat batches) c), qsum (map sq (group (concat batches) c))).
Proof.
  intros Hnd Hr Hk. rewrite feed_batches_concat, accu_nth, (class_samples_group parts _ k c Hnd Hr Hk). reflexivity.
Qed.

(* indices beyond the declared classes stay (0,0,0); undeclared values touch nothing *)
Lemma accu_beyond parts rows k : (length parts <= k)%nat -> nth k (accu parts rows) t0 = t0.
Proof.
  intros Hk. rewrite accu_nth. unfold class_samples.
  replace (filter _ rows) with (@nil row); [reflexivity|].
  symmetry. induction rows as [|r rows IH]; [reflexivity|]. cbn [filter].
  destruct (lut parts (fst r)) as [j|] eqn:L; [|exact IH].
  apply lut_lt in L. destruct (Nat.eqb_spec j k) as [->|]; [lia|exact IH].
Qed.

Lemma map_seq_nth_error {A B} (l : list A) (f : nat -> B) (g : A -> B) : forall i,
  (forall k c, nth_error l k = Some c -> f (i + k)%nat = g c) -> map f (seq i (length l)) = map g l.
Proof.
  induction l as [|x l IH]; intros i H; [reflexivity|]. cbn [length seq map]. f_equal.
  - rewrite <- (H 0%nat x eq_refl). f_equal. lia.
  - apply IH. intros k c Hk. rewrite <- (H (S k) c Hk). f_equal. lia.
Qed.

Lemma classes_accu parts rows : NoDup parts -> all_in_range parts ->
  classes (length parts) (accu parts rows) = map triple_of (map (group rows) parts).
Proof.
  intros Hnd Hr. unfold classes. rewrite map_map. apply map_seq_nth_error. intros k c Hk. cbn [Nat.add].
  rewrite accu_nth, (class_samples_group parts rows k c Hnd Hr Hk). reflexivity.
Qed.

Lemma nonzero_triple_of g : nonzero (triple_of g) = nonempty g.
Proof.
  unfold nonzero, triple_of, t_n. cbn [fst]. destruct g as [|x g]; [reflexivity|]. cbn [nonempty].
  assert (P : 0 < qlen (x :: g)) by (apply qlen_pos; discriminate).
  pose proof (proj1 (Qclt_alt 0 (qlen (x :: g))) P) as P'. rewrite P'. reflexivity.
Qed.

Lemma filter_nonzero_triples gs : filter nonzero (map triple_of gs) = map triple_of (filter nonempty gs).
Proof.
  induction gs as [|g gs IH]; [reflexivity|]. cbn [map filter]. rewrite nonzero_triple_of, IH.
  destruct (nonempty g); reflexivity.
Qed.

(* the restriction to counters > 0 leaves exactly the triples of the non-empty groups, in declaration order *)
Lemma restricted_classes parts rows : NoDup parts -> all_in_range parts ->
  filter nonzero (classes (length parts) (accu parts rows)) = map triple_of (groups parts rows).
Proof. intros Hnd Hr. rewrite (classes_accu parts rows Hnd Hr). apply filter_nonzero_triples. Qed.

Lemma groups_nonempty parts rows : Forall (fun g => g <> []) (groups parts rows).
Proof.
  unfold groups. apply Forall_forall. intros g Hg. apply filter_In in Hg. destruct Hg as [_ Hg].
  destruct g; [discriminate|discriminate].
Qed.

(* ================================================================ sums over the groups *)
Lemma tot_n_triples gs : tot_n (map triple_of gs) = qlen (concat gs).
Proof.
  unfold tot_n. induction gs as [|g gs IH]; [reflexivity|]. cbn [map concat]. rewrite qsum_cons, qlen_app, IH. reflexivity.
Qed.

Lemma tot_s_triples gs : tot_s (map triple_of gs) = qsum (concat gs).
Proof.
  unfold tot_s. induction gs as [|g gs IH]; [reflexivity|]. cbn [map concat]. rewrite qsum_cons, qsum_app, IH. reflexivity.
Qed.

Lemma tot_q_triples gs : tot_q (map triple_of gs) = qsum (map sq (concat gs)).
Proof.
  unfold tot_q. induction gs as [|g gs IH]; [reflexivity|]. cbn [map concat]. rewrite qsum_cons, map_app, qsum_app, IH. reflexivity.
Qed.

Lemma concat_nil_nonempty (gs : list (list Qc)) : Forall (fun g => g <> []) gs -> concat gs = [] -> gs = [].
Proof.
  intros H E. destruct gs as [|g gs]; [reflexivity|]. exfalso. inversion H as [|? ? Hg _]; subst.
  cbn [concat] in E. apply app_eq_nil in E. destruct E as [E _]. contradiction.
Qed.

(* ★ within_ss_identity: the running-sum form of the within-class sum of squares *)
Theorem within_ss_identity_thm g : g <> [] -> qsum (map sq g) - sq (qsum g) / qlen g = ssd g.
Proof.
  intros Hg. rewrite (ssd_identity g Hg). unfold qmean, sq. pose proof (qlen_nonzero g Hg). field. assumption.
Qed.

(* the per-class variance form used by SNR *)
Lemma class_var_identity g : g <> [] -> qsum (map sq g) / qlen g - sq (qsum g / qlen g) = ssd g / qlen g.
Proof.
  intros Hg. rewrite (ssd_identity g Hg). unfold qmean, sq. pose proof (qlen_nonzero g Hg). field. assumption.
Qed.

(* ★ total_var_identity: mean of squares minus squared mean is the (population) variance of all the samples *)
Theorem total_var_identity_thm l : l <> [] -> qsum (map sq l) / qlen l - sq (qsum l / qlen l) = ssd l / qlen l.
Proof. apply class_var_identity. Qed.

Lemma ssd_single (x : Qc) : ssd [x] = 0.
Proof.
  apply ssd_zero_iff_constant. intros y [<-|[]]. unfold qmean. cbn [qsum qlen fold_right]. field. discriminate.
Qed.

Lemma ss_within_nonneg gs : 0 <= ss_within gs.
Proof.
  unfold ss_within. apply qsum_nonneg. intros x Hx. apply in_map_iff in Hx. destruct Hx as (g & <- & _). apply ssd_nonneg.
Qed.

Lemma ss_within_zero_iff gs : ss_within gs = 0 <-> forall g, In g gs -> forall x, In x g -> x = qmean g.
Proof.
  unfold ss_within. split.
  - intros H g Hg. apply ssd_zero_iff_constant.
    apply (qsum_nonneg_zero (map ssd gs)); [|exact H|apply in_map; exact Hg].
    intros x Hx. apply in_map_iff in Hx. destruct Hx as (g' & <- & _). apply ssd_nonneg.
  - intros H. rewrite (qsum_map_ext ssd (fun _ => 0)); [rewrite qsum_map_const; ring|].
    intros g Hg. apply ssd_zero_iff_constant. apply H. exact Hg.
Qed.

(* as many traces as non-empty classes: every class is a singleton, there is no within-class spread *)
Lemma all_singletons_no_spread gs : Forall (fun g => g <> []) gs -> qlen (concat gs) - qlen gs = 0 -> ss_within gs = 0.
Proof.
  intros Hne H.
  assert (S : qsum (map (fun g : list Qc => qlen g - 1) gs) = qlen (concat gs) - qlen gs).
  { clear. induction gs as [|g gs IH]; [cbn; ring|]. cbn [map concat]. rewrite qsum_cons, IH, qlen_app, qlen_cons. ring. }
  rewrite H in S.
  apply ss_within_zero_iff. intros g Hg.
  assert (Z1 : qlen g - 1 = 0).
  { apply (qsum_nonneg_zero (map (fun g : list Qc => qlen g - 1) gs)); [|exact S|].
    - intros x Hx. apply in_map_iff in Hx. destruct Hx as (g' & <- & Hg').
      rewrite Forall_forall in Hne. specialize (Hne g' Hg'). destruct g' as [|y g']; [contradiction|].
      rewrite qlen_cons. replace (qlen g' + 1 - 1) with (qlen g') by ring. apply qlen_nonneg.
    - apply in_map_iff. exists g. split; [reflexivity|exact Hg]. }
  apply qlen_one_iff in Z1. destruct g as [|y [|z g]]; cbn in Z1; try discriminate.
  apply ssd_zero_iff_constant. apply ssd_single.
Qed.

(* ================================================================ the three metrics on the triples of non-empty groups *)
(* float division, case by case *)
Lemma xdiv_fin x y : y <> 0 -> xdiv (XF x) (XF y) = XF (x / y).
Proof. intros H. cbn [xdiv]. rewrite (proj2 (Qc_eq_bool_false_iff _ _) H). reflexivity. Qed.

Lemma xdiv_by_zero x y : y = 0 -> inf_to_nan (xdiv (XF x) (XF y)) = None.
Proof. intros ->. cbn [xdiv]. rewrite (proj2 (Qc_eq_bool_iff 0 0) eq_refl). destruct (Qc_eq_bool x 0); reflexivity. Qed.

Lemma xdiv_zero_zero : xdiv (XF 0) (XF 0) = XNaN.
Proof. cbn [xdiv]. rewrite (proj2 (Qc_eq_bool_iff 0 0) eq_refl). reflexivity. Qed.

Lemma xdiv_undefined_num a b : inf_to_nan a = None -> inf_to_nan (xdiv a b) = None.
Proof. destruct a as [x| |]; [discriminate| |]; intros _; destruct b; reflexivity. Qed.

Section Metrics.
  Variable gs : list (list Qc).
  Hypothesis Hne : Forall (fun g => g <> []) gs.

  Let T := map triple_of gs.

  Lemma in_gs_nonempty g : In g gs -> g <> [].
  Proof. intros Hg. rewrite Forall_forall in Hne. apply Hne. exact Hg. Qed.

  Lemma N_zero_gs_nil : qlen (concat gs) = 0 -> gs = [].
  Proof. intros H. apply qlen_zero_iff in H. apply concat_nil_nonempty; assumption. Qed.

  Lemma between_sum mean :
    qsum (map (fun t => t_n t * sq (t_s t / t_n t - mean)) T) = qsum (map (fun g => qlen g * sq (qmean g - mean)) gs).
  Proof. unfold T. rewrite map_map. reflexivity. Qed.

  Lemma within_sum : qsum (map (fun t => t_q t - sq (t_s t) / t_n t) T) = ss_within gs.
  Proof.
    unfold T, ss_within. rewrite map_map. apply qsum_map_ext. intros g Hg.
    unfold triple_of, t_q, t_s, t_n. cbn [fst snd]. apply within_ss_identity_thm, in_gs_nonempty, Hg.
  Qed.

  (* ★ anova_is_F *)
  Lemma anova_metric_is_F : inf_to_nan (anova_metric T) = F_stat gs.
  Proof.
    unfold anova_metric, F_stat. rewrite between_sum, within_sum. unfold T.
    rewrite tot_n_triples, tot_s_triples, qlen_map.
    fold (qmean (concat gs)). fold (ss_between gs).
    destruct (Qc_eqb_spec (qlen (concat gs)) 0) as [N0|N0].
    - (* no trace in any class *)
      rewrite (N_zero_gs_nil N0). reflexivity.
    - destruct (Qc_eqb_spec (qlen gs - 1) 0) as [K1|K1]; cbn [orb].
      + (* one class: x/0 *)
        apply xdiv_undefined_num. apply xdiv_by_zero. exact K1.
      + rewrite (xdiv_fin _ _ K1).
        destruct (Qc_eqb_spec (qlen (concat gs) - qlen gs) 0) as [NK|NK]; cbn [orb].
        * (* as many traces as classes: 0/0, never x/inf *)
          rewrite NK, (all_singletons_no_spread gs Hne NK), xdiv_zero_zero. reflexivity.
        * rewrite (xdiv_fin _ _ NK).
          destruct (Qc_eqb_spec (ss_within gs) 0) as [W0|W0].
          -- apply xdiv_by_zero. apply (Qc_div_zero_iff _ _ NK). exact W0.
          -- rewrite xdiv_fin; [reflexivity|].
             intros E. apply W0. apply (Qc_div_zero_iff _ _ NK). exact E.
  Qed.

  Lemma nicv_numerator mean N :
    qsum (map (fun t => sq (t_s t / t_n t - mean) * (t_n t / N)) T)
    = qsum (map (fun g => (qlen g / N) * sq (qmean g - mean)) gs).
  Proof.
    unfold T. rewrite map_map. apply qsum_map_ext. intros g _. unfold triple_of, t_s, t_n, qmean. cbn [fst snd]. ring.
  Qed.

  (* ★ nicv_is_def *)
  Lemma nicv_metric_is_def : inf_to_nan (nicv_metric T) = nicv_def gs.
  Proof.
    unfold nicv_metric, nicv_def. rewrite nicv_numerator. unfold T.
    rewrite tot_n_triples, tot_s_triples, tot_q_triples. cbv zeta.
    destruct (Qc_eqb_spec (qlen (concat gs)) 0) as [N0|N0].
    - rewrite (N_zero_gs_nil N0). reflexivity.
    - assert (Hall : concat gs <> []) by (intros E; apply N0; rewrite E; reflexivity).
      rewrite (total_var_identity_thm (concat gs) Hall). fold (total_var gs).
      fold (qmean (concat gs)). fold (var_of_class_means gs).
      destruct (Qc_eqb_spec (total_var gs) 0) as [V0|V0].
      + apply xdiv_by_zero. exact V0.
      + rewrite (xdiv_fin _ _ V0). reflexivity.
  Qed.

  Lemma snr_noise_sum : qsum (map (fun t => t_q t / t_n t - sq (t_s t / t_n t)) T) = qsum (map (fun g => ssd g / qlen g) gs).
  Proof.
    unfold T. rewrite map_map. apply qsum_map_ext. intros g Hg.
    unfold triple_of, t_q, t_s, t_n. cbn [fst snd]. apply class_var_identity, in_gs_nonempty, Hg.
  Qed.

  Lemma snr_signal_sum mean : qsum (map (fun t => sq (t_s t / t_n t - mean)) T) = qsum (map (fun g => sq (qmean g - mean)) gs).
  Proof. unfold T. rewrite map_map. reflexivity. Qed.

  (* ★ snr_is_def: P is the number of ALL declared classes, the spec divides by the number of NON-EMPTY ones: it cancels *)
  Lemma snr_metric_is_def P : P <> 0 -> inf_to_nan (snr_metric P T) = snr_def gs.
  Proof.
    intros HP. unfold snr_metric, snr_def, snr_noise, snr_signal. rewrite snr_noise_sum, snr_signal_sum. unfold T.
    rewrite tot_n_triples, tot_s_triples. fold (qmean (concat gs)).
    destruct (Qc_eqb_spec (qlen (concat gs)) 0) as [N0|N0].
    - rewrite (N_zero_gs_nil N0). reflexivity.
    - assert (HK : qlen gs <> 0).
      { intros E. apply qlen_zero_iff in E. apply N0. rewrite E. reflexivity. }
      set (a := qsum (map (fun g => sq (qmean g - qmean (concat gs))) gs)).
      set (b := qsum (map (fun g => ssd g / qlen g) gs)).
      rewrite !(xdiv_fin _ _ HP).
      destruct (Qc_eqb_spec (b / qlen gs) 0) as [B0|B0].
      + apply xdiv_by_zero. apply (Qc_div_zero_iff b P HP). apply (Qc_div_zero_iff b _ HK). exact B0.
      + assert (Hb : b <> 0) by (intros E; apply B0; apply (Qc_div_zero_iff b _ HK); exact E).
        assert (D1 : b / P <> 0) by (intros E; apply Hb; apply (Qc_div_zero_iff b P HP); exact E).
        rewrite (xdiv_fin _ _ D1). cbn [inf_to_nan]. f_equal. field. repeat split; assumption.
  Qed.
End Metrics.

(* SNR's P cancels already at the level of the table: any two non-zero P give the same value *)
Lemma snr_P_irrelevant P P' nz : P <> 0 -> P' <> 0 -> snr_metric P nz = snr_metric P' nz.
Proof.
  intros HP HP'. unfold snr_metric. destruct (Qc_eq_bool (tot_n nz) 0); [reflexivity|].
  set (a := qsum (map _ nz)). set (b := qsum (map _ nz)).
  rewrite !(xdiv_fin _ _ HP), !(xdiv_fin _ _ HP').
  destruct (Qc_eqb_spec b 0) as [B0|B0].
  - rewrite B0. replace (0 / P) with 0 by (unfold Qcdiv; ring). replace (0 / P') with 0 by (unfold Qcdiv; ring).
    cbn [xdiv]. rewrite (proj2 (Qc_eq_bool_iff 0 0) eq_refl).
    destruct (Qc_eqb_spec a 0) as [A0|A0].
    + rewrite (proj2 (Qc_eq_bool_iff _ _) (proj2 (Qc_div_zero_iff a P HP) A0)).
      rewrite (proj2 (Qc_eq_bool_iff _ _) (proj2 (Qc_div_zero_iff a P' HP') A0)). reflexivity.
    + assert (D1 : a / P <> 0) by (intros E; apply A0; apply (Qc_div_zero_iff a P HP); exact E).
      assert (D2 : a / P' <> 0) by (intros E; apply A0; apply (Qc_div_zero_iff a P' HP'); exact E).
      rewrite (proj2 (Qc_eq_bool_false_iff _ _) D1), (proj2 (Qc_eq_bool_false_iff _ _) D2). reflexivity.
  - assert (D1 : b / P <> 0) by (intros E; apply B0; apply (Qc_div_zero_iff b P HP); exact E).
    assert (D2 : b / P' <> 0) by (intros E; apply B0; apply (Qc_div_zero_iff b P' HP'); exact E).
    rewrite (xdiv_fin _ _ D1), (xdiv_fin _ _ D2). f_equal. field. repeat split; assumption.
Qed.

Lemma snr_no_class P : snr_metric P [] = XNaN.
Proof. reflexivity. Qed.

(* ================================================================ main theorems: code model = definition, all inputs, all class lists *)
Lemma comp_table_spec m tbl gs : Forall (fun g => g <> []) gs -> filter nonzero tbl = map triple_of gs ->
  comp_table m tbl = spec_metric m gs.
Proof.
  intros Hne Hf. unfold comp_table. rewrite Hf. destruct m; cbn [metric_x spec_metric].
  - apply anova_metric_is_F. exact Hne.
  - apply nicv_metric_is_def. exact Hne.
  - destruct gs as [|g gs'].
    + reflexivity.
    + apply snr_metric_is_def; [exact Hne|].
      intros E. apply qlen_zero_iff in E. subst tbl. discriminate.
Qed.

Theorem run_entry_is_spec m parts batches : NoDup parts -> all_in_range parts ->
  run_entry m parts batches = spec_metric m (groups parts (concat batches)).
Proof.
  intros Hnd Hr. unfold run_entry, comp. rewrite feed_batches_concat.
  apply comp_table_spec; [apply groups_nonempty|apply restricted_classes; assumption].
Qed.

(* every compute() of every history of updates and computes is the statistic of the rows fed before it: compute() leaves the
   accumulators as they were (instance of Model/Accum.v history_outputs) *)
Lemma comp_upd_is_spec m parts seen : NoDup parts -> all_in_range parts ->
  comp m (length parts) (upd st row st_zero st_plus (contrib parts) st_zero seen) = spec_metric m (groups parts seen).
Proof.
  intros Hnd Hr. pose proof (run_entry_is_spec m parts [seen] Hnd Hr) as H.
  cbn [concat] in H. rewrite app_nil_r in H. exact H.
Qed.

Theorem run_history_is_spec m parts h : NoDup parts -> all_in_range parts ->
  run_history m parts h = spec_history m parts [] h.
Proof.
  intros Hnd Hr. unfold run_history.
  rewrite (history_outputs0 st row (option Qc) st_zero st_plus (contrib parts) (comp m (length parts))
             st_plus_assoc st_plus_zero_r st_plus_zero_l h).
  generalize (@nil row) as seen. induction h as [|[b|] h IH]; intros seen; cbn [expected_outputs spec_history].
  - reflexivity.
  - apply IH.
  - rewrite (comp_upd_is_spec m parts seen Hnd Hr), IH. reflexivity.
Qed.

(* ================================================================ empty classes are irrelevant *)
Theorem empty_classes_irrelevant_tbl m tbl1 tbl2 : filter nonzero tbl1 = filter nonzero tbl2 -> comp_table m tbl1 = comp_table m tbl2.
Proof.
  intros H. unfold comp_table. rewrite H. destruct m; cbn [metric_x]; try reflexivity.
  destruct (filter nonzero tbl2) as [|t nz] eqn:E; [reflexivity|].
  f_equal. apply snr_P_irrelevant; intros Z; apply qlen_zero_iff in Z; subst; discriminate.
Qed.

Lemma nonzero_t0 : nonzero t0 = false.
Proof. reflexivity. Qed.

Lemma filter_nonzero_repeat n : filter nonzero (repeat t0 n) = [].
Proof. induction n as [|n IH]; [reflexivity|]. cbn [repeat filter]. rewrite nonzero_t0. exact IH. Qed.

Corollary insert_empty_classes m tbl1 n tbl2 : comp_table m (tbl1 ++ repeat t0 n ++ tbl2) = comp_table m (tbl1 ++ tbl2).
Proof.
  apply empty_classes_irrelevant_tbl. rewrite !filter_app, filter_nonzero_repeat. reflexivity.
Qed.

Lemma NoDup_app_drop_mid {A} (a b c : list A) : NoDup (a ++ b ++ c) -> NoDup (a ++ c).
Proof.
  induction b as [|x b IH]; intros H; [exact H|]. apply IH. cbn [app] in H. apply NoDup_remove_1 in H. exact H.
Qed.

Lemma groups_drop_unused p1 extra p2 rows : (forall c, In c extra -> group rows c = []) ->
  groups (p1 ++ extra ++ p2) rows = groups (p1 ++ p2) rows.
Proof.
  intros H. unfold groups. rewrite !map_app, !filter_app. f_equal.
  replace (filter nonempty (map (group rows) extra)) with (@nil (list Qc)); [reflexivity|].
  symmetry. induction extra as [|c extra IH]; [reflexivity|]. cbn [map filter].
  rewrite (H c (or_introl eq_refl)). cbn [nonempty]. apply IH. intros c' Hc'. apply H. right. exact Hc'.
Qed.

Lemma group_unused rows c : (forall r, In r rows -> fst r <> c) -> group rows c = [].
Proof.
  intros H. unfold group. induction rows as [|r rows IH]; [reflexivity|]. cbn [filter].
  destruct (Z.eqb_spec (fst r) c) as [E|_]; [exfalso; apply (H r (or_introl eq_refl) E)|].
  apply IH. intros r' Hr'. apply H. right. exact Hr'.
Qed.

(* declaring, anywhere in the class list, values that no trace takes changes no result *)
Theorem empty_classes_irrelevant_parts m p1 extra p2 batches :
  NoDup (p1 ++ extra ++ p2) -> all_in_range (p1 ++ extra ++ p2) ->
  (forall c, In c extra -> forall r, In r (concat batches) -> fst r <> c) ->
  run_entry m (p1 ++ extra ++ p2) batches = run_entry m (p1 ++ p2) batches.
Proof.
  intros Hnd Hr Hun.
  rewrite (run_entry_is_spec m _ batches Hnd Hr).
  rewrite (run_entry_is_spec m (p1 ++ p2) batches).
  - f_equal. apply groups_drop_unused. intros c Hc. apply group_unused. apply Hun. exact Hc.
  - apply (NoDup_app_drop_mid p1 extra p2 Hnd).
  - intros c Hc. apply Hr. apply in_app_or in Hc. apply in_or_app. destruct Hc as [Hc|Hc]; [left; exact Hc|].
    right. apply in_or_app. right. exact Hc.
Qed.

(* ================================================================ when is the result undefined (NaN) *)
Theorem F_undefined_iff gs :
  F_stat gs = None <->
  (length gs <= 1)%nat \/ length (concat gs) = length gs \/ (forall g, In g gs -> forall x, In x g -> x = qmean g).
Proof.
  unfold F_stat.
  destruct (Qc_eqb_spec (qlen gs - 1) 0) as [K1|K1]; cbn [orb].
  { split; [intros _|reflexivity]. left. apply (proj1 (qlen_one_iff _)) in K1. lia. }
  destruct (Qc_eqb_spec (qlen (concat gs) - qlen gs) 0) as [NK|NK]; cbn [orb].
  { split; [intros _|reflexivity]. right. left. apply (proj1 (Qc_sub_zero_iff _ _)) in NK. apply (proj1 (qlen_eq_iff _ _)) in NK. exact NK. }
  destruct (Qc_eqb_spec (ss_within gs) 0) as [W0|W0].
  { split; [intros _|reflexivity]. right. right. apply ss_within_zero_iff. exact W0. }
  split; [discriminate|]. intros [H|[H|H]]; exfalso.
  - destruct gs as [|g [|g' gs]]; cbn [length] in H; [| |lia].
    + apply NK. reflexivity.
    + apply K1. apply qlen_one_iff. reflexivity.
  - apply NK. apply Qc_sub_zero_iff. apply qlen_eq_iff. exact H.
  - apply W0. apply ss_within_zero_iff. exact H.
Qed.

Theorem nicv_undefined_iff gs : nicv_def gs = None <-> (forall x, In x (concat gs) -> x = qmean (concat gs)).
Proof.
  unfold nicv_def, total_var. rewrite <- ssd_zero_iff_constant.
  destruct (concat gs) as [|y l] eqn:E.
  - split; reflexivity.
  - assert (Hl : qlen (y :: l) <> 0) by (apply qlen_nonzero; discriminate).
    destruct (Qc_eqb_spec (ssd (y :: l) / qlen (y :: l)) 0) as [Z|Z].
    + split; [intros _|reflexivity]. apply (Qc_div_zero_iff _ _ Hl). exact Z.
    + split; [discriminate|]. intros H. exfalso. apply Z. apply (Qc_div_zero_iff _ _ Hl). exact H.
Qed.

Lemma class_var_nonneg (g : list Qc) : 0 <= ssd g / qlen g.
Proof.
  destruct g as [|x g]; [apply Qcle_refl|].
  apply Qc_div_nonneg; [apply ssd_nonneg|apply qlen_pos; discriminate].
Qed.

Lemma class_var_zero_iff (g : list Qc) : ssd g / qlen g = 0 <-> forall x, In x g -> x = qmean g.
Proof.
  rewrite <- ssd_zero_iff_constant. destruct g as [|y g]; [split; reflexivity|].
  apply Qc_div_zero_iff. apply qlen_nonzero. discriminate.
Qed.

Theorem snr_undefined_iff gs : snr_def gs = None <-> gs = [] \/ (forall g, In g gs -> forall x, In x g -> x = qmean g).
Proof.
  unfold snr_def, snr_noise.
  assert (S0 : qsum (map (fun g : list Qc => ssd g / qlen g) gs) = 0 <-> forall g, In g gs -> forall x, In x g -> x = qmean g).
  { split.
    - intros H g Hg. apply class_var_zero_iff.
      apply (qsum_nonneg_zero (map (fun g : list Qc => ssd g / qlen g) gs)); [|exact H|].
      + intros x Hx. apply in_map_iff in Hx. destruct Hx as (g' & <- & _). apply class_var_nonneg.
      + apply in_map_iff. exists g. split; [reflexivity|exact Hg].
    - intros H. rewrite (qsum_map_ext _ (fun _ => 0)); [rewrite qsum_map_const; ring|].
      intros g Hg. apply class_var_zero_iff. apply H. exact Hg. }
  destruct gs as [|g0 gs'] eqn:E.
  - split; [intros _; left; reflexivity|reflexivity].
  - rewrite <- E in *. assert (HK : qlen gs <> 0) by (rewrite E; apply qlen_nonzero; discriminate).
    destruct (Qc_eqb_spec (qsum (map (fun g : list Qc => ssd g / qlen g) gs) / qlen gs) 0) as [Z|Z].
    + split; [intros _|reflexivity]. right. apply S0. apply (Qc_div_zero_iff _ _ HK). exact Z.
    + split; [discriminate|]. intros [H|H]; [rewrite E in H; discriminate|].
      exfalso. apply Z. apply (Qc_div_zero_iff _ _ HK). apply S0. exact H.
Qed.

(* ================================================================ automatic class set *)
Theorem auto_size_smallest mx : (0 <= mx <= 255)%Z ->
  In (auto_size mx) [9; 64; 256]%Z /\ (mx < auto_size mx)%Z
  /\ forall r, In r [9; 64; 256]%Z -> (mx < r)%Z -> (auto_size mx <= r)%Z.
Proof.
  intros H. unfold auto_size, auto_ls. cbn [first_above].
  destruct (Z.ltb_spec mx 0); [lia|].
  destruct (Z.ltb_spec mx 9); [cbn [In]; split; [tauto|split; [lia|intros r [<-|[<-|[<-|[]]]] ?; lia]]|].
  destruct (Z.ltb_spec mx 64); [cbn [In]; split; [tauto|split; [lia|intros r [<-|[<-|[<-|[]]]] ?; lia]]|].
  destruct (Z.ltb_spec mx 256); [cbn [In]; split; [tauto|split; [lia|intros r [<-|[<-|[<-|[]]]] ?; lia]]|].
  lia.
Qed.

Lemma in_zseq v n : In v (map Z.of_nat (seq 0 n)) <-> (0 <= v < Z.of_nat n)%Z.
Proof.
  rewrite in_map_iff. split.
  - intros (k & <- & Hk). apply in_seq in Hk. lia.
  - intros H. exists (Z.to_nat v). split; [lia|]. apply in_seq. lia.
Qed.

(* the automatic class set is accepted exactly for first-batch data inside [0, 255], and then every value of that batch
   (up to its maximum) is a declared class: 0 .. r-1 for the smallest r of 9 / 64 / 256 above the maximum *)
Theorem auto_parts_spec mx mn : (mn <= mx)%Z ->
  match auto_parts mx mn with
  | None => (255 < mx \/ mn < 0)%Z
  | Some parts => (0 <= mn /\ mx <= 255)%Z /\ parts = map Z.of_nat (seq 0 (Z.to_nat (auto_size mx)))
                  /\ NoDup parts /\ all_in_range parts
                  /\ forall v, (mn <= v <= mx)%Z -> In v parts
  end.
Proof.
  intros Hm. unfold auto_parts.
  destruct (Z.ltb_spec 255 mx); [left; assumption|].
  destruct (Z.ltb_spec mn 0); [right; assumption|].
  destruct (auto_size_smallest mx ltac:(lia)) as (Hin & Hlt & _).
  assert (Hs : (auto_size mx <= 256)%Z) by (destruct Hin as [<-|[<-|[<-|[]]]]; lia).
  split; [lia|]. split; [reflexivity|]. split; [|split].
  - apply FinFun.Injective_map_NoDup; [intros a b; apply Nat2Z.inj|apply seq_NoDup].
  - intros c Hc. apply in_zseq in Hc. unfold in_range, lut_size.
    apply andb_true_iff. split; [apply Z.leb_le|apply Z.ltb_lt]; lia.
  - intros v Hv. apply in_zseq. lia.
Qed.
