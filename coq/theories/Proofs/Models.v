(* Proofs/Models.v — lemmas for property C15 (leakage models and discriminants). *)
From Coq Require Import NArith ZArith QArith List Bool Lia.
From ScaredV Require Import Generated.HwLut Run.Compare Model.Models.
Import ListNotations.
Open Scope N_scope.

(* ---------------------------------------------------------------- popcount algebra *)
Lemma popcount_double x : popcount (2 * x) = popcount x.
Proof. destruct x; reflexivity. Qed.

Lemma popcount_succ_double x : popcount (2 * x + 1) = 1 + popcount x.
Proof. destruct x as [|p]; [reflexivity|]. cbn. reflexivity. Qed.

Lemma popcount_bit x b : b < 2 -> popcount (2 * x + b) = b + popcount x.
Proof.
  intros Hb. assert (b = 0 \/ b = 1) as [->| ->] by lia.
  - rewrite N.add_0_r, popcount_double. reflexivity.
  - apply popcount_succ_double.
Qed.

Lemma split_bit x : exists h b, b < 2 /\ x = 2 * h + b.
Proof.
  exists (x / 2), (x mod 2). split.
  - apply N.mod_lt. discriminate.
  - apply N.div_mod. discriminate.
Qed.

Lemma divmod_step h b p : p <> 0 -> b < 2 ->
  (2 * h + b) / (2 * p) = h / p /\ (2 * h + b) mod (2 * p) = 2 * (h mod p) + b.
Proof.
  intros Hp Hb.
  assert (Hh : h = p * (h / p) + h mod p) by (apply N.div_mod; exact Hp).
  assert (Hlt : h mod p < p) by (apply N.mod_lt; exact Hp).
  assert (Heq : 2 * h + b = (2 * p) * (h / p) + (2 * (h mod p) + b)).
  { rewrite Hh at 1. lia. }
  assert (Hr : 2 * (h mod p) + b < 2 * p) by lia.
  split.
  - symmetry. apply (N.div_unique _ _ _ (2 * (h mod p) + b)); assumption.
  - symmetry. apply (N.mod_unique _ _ (h / p)); assumption.
Qed.

Theorem popcount_split_pow k : forall x,
  popcount x = popcount (x mod 2 ^ N.of_nat k) + popcount (x / 2 ^ N.of_nat k).
Proof.
  induction k as [|k IH]; intros x.
  - cbn [N.of_nat]. rewrite N.pow_0_r, N.mod_1_r, N.div_1_r. reflexivity.
  - rewrite Nat2N.inj_succ, N.pow_succ_r'.
    destruct (split_bit x) as (h & b & Hb & ->).
    assert (Hp : 2 ^ N.of_nat k <> 0) by (apply N.pow_nonzero; discriminate).
    destruct (divmod_step h b _ Hp Hb) as [-> ->].
    rewrite !popcount_bit by exact Hb.
    rewrite (IH h). lia.
Qed.

Corollary popcount_split x : popcount x = popcount (x mod 256) + popcount (x / 256).
Proof. exact (popcount_split_pow 8 x). Qed.

(* ---------------------------------------------------------------- the generated table *)
Definition lut_ok_b : bool :=
  (length HW_LUT =? 256)%nat && forallb (fun i => N.eqb (lut (N.of_nat i)) (popcount (N.of_nat i))) (seq 0 256).

Lemma lut_ok : lut_ok_b = true.
Proof. vm_compute. reflexivity. Qed.

Lemma lut_is_popcount x : x < 256 -> lut x = popcount x.
Proof.
  intros Hx. pose proof lut_ok as H. unfold lut_ok_b in H.
  apply andb_true_iff in H. destruct H as [_ H].
  rewrite forallb_forall in H.
  specialize (H (N.to_nat x)).
  rewrite N2Nat.id in H. apply N.eqb_eq, H.
  apply in_seq. lia.
Qed.

Lemma generated_consts :
  fhw16_mask = 255 /\ fhw16_shift = 8 /\ fhw32_mask = 255 /\ fhw32_shift = 8 /\
  fhw64_mask = 255 /\ fhw64_shift = 8 /\ fhw32_loops = 4%nat /\ fhw64_loops = 8%nat /\
  hw_dispatch = [(1, 0%nat); (2, 1%nat); (4, 2%nat); (8, 3%nat)].
Proof. vm_compute. repeat split; reflexivity. Qed.

Lemma land_255 x : N.land x 255 = x mod 256.
Proof. change 255 with (N.ones 8). rewrite N.land_ones. reflexivity. Qed.

Lemma shiftr_8 x : N.shiftr x 8 = x / 256.
Proof. rewrite N.shiftr_div_pow2. reflexivity. Qed.

Lemma fhw8_is_popcount x : x < 2 ^ 8 -> fhw8 x = popcount x.
Proof. intros H. apply lut_is_popcount. exact H. Qed.

Lemma fhw_loop_spec n : forall x r, x < 256 ^ N.of_nat n ->
  fhw_loop n 255 8 x r = r + popcount x.
Proof.
  induction n as [|n IH]; intros x r Hx.
  - cbn in Hx. assert (x = 0) by lia. subst. cbn. lia.
  - cbn [fhw_loop]. rewrite land_255, shiftr_8.
    rewrite Nat2N.inj_succ, N.pow_succ_r' in Hx.
    rewrite IH.
    + rewrite lut_is_popcount by (apply N.mod_lt; discriminate).
      rewrite (popcount_split x). lia.
    + apply N.div_lt_upper_bound; [discriminate|exact Hx].
Qed.

Lemma fhw16_is_popcount x : x < 2 ^ 16 -> fhw16 x = popcount x.
Proof.
  intros Hx. unfold fhw16.
  destruct generated_consts as (-> & -> & _).
  rewrite land_255, shiftr_8.
  rewrite !lut_is_popcount.
  - symmetry. apply popcount_split.
  - apply N.div_lt_upper_bound; [discriminate|]. exact Hx.
  - apply N.mod_lt. discriminate.
Qed.

Lemma fhw32_is_popcount x : x < 2 ^ 32 -> fhw32 x = popcount x.
Proof.
  intros Hx. unfold fhw32.
  destruct generated_consts as (_ & _ & -> & -> & _ & _ & -> & _).
  rewrite fhw_loop_spec; [lia|exact Hx].
Qed.

Lemma fhw64_is_popcount x : x < 2 ^ 64 -> fhw64 x = popcount x.
Proof.
  intros Hx. unfold fhw64.
  destruct generated_consts as (_ & _ & _ & _ & -> & -> & _ & -> & _).
  rewrite fhw_loop_spec; [lia|exact Hx].
Qed.

(* the dispatch on the item size selects a function that is the population count on the whole dtype range *)
Theorem hw_dispatch_is_popcount sz : In sz [1; 2; 4; 8] ->
  exists f, hw_of_itemsize sz = Some f /\ forall x, x < 2 ^ (8 * sz) -> f x = popcount x.
Proof.
  intros Hin. unfold hw_of_itemsize.
  destruct generated_consts as (_ & _ & _ & _ & _ & _ & _ & _ & ->).
  cbn in Hin. destruct Hin as [<-|[<-|[<-|[<-|[]]]]]; cbn.
  - exists fhw8. split; [reflexivity|apply fhw8_is_popcount].
  - exists fhw16. split; [reflexivity|apply fhw16_is_popcount].
  - exists fhw32. split; [reflexivity|apply fhw32_is_popcount].
  - exists fhw64. split; [reflexivity|apply fhw64_is_popcount].
Qed.

(* ---------------------------------------------------------------- grouping along an axis *)
Lemma flat_map_length_const {A B} (f : A -> list B) (l : list A) n :
  (forall a, In a l -> length (f a) = n) -> length (flat_map f l) = (length l * n)%nat.
Proof.
  induction l as [|a l IH]; intros H; cbn; [reflexivity|].
  rewrite app_length, H by (left; reflexivity).
  rewrite IH by (intros; apply H; right; assumption). reflexivity.
Qed.

Theorem hw_array_length f k shape axis flat :
  length (hw_array f k shape axis flat)
  = (outer_of shape axis * ((len_of shape axis / k) * inner_of shape axis))%nat.
Proof.
  unfold hw_array.
  rewrite (flat_map_length_const _ _ ((len_of shape axis / k) * inner_of shape axis)%nat).
  - rewrite seq_length. reflexivity.
  - intros o _.
    rewrite (flat_map_length_const _ _ (inner_of shape axis)).
    + rewrite seq_length. reflexivity.
    + intros g _. rewrite map_length, seq_length. reflexivity.
Qed.

Lemma nth_flat_map_const {A B} (d : B) (f : A -> list B) (da : A) n :
  forall (l : list A) q r, (forall a, length (f a) = n) -> (r < n)%nat -> (q < length l)%nat ->
  nth (q * n + r) (flat_map f l) d = nth r (f (nth q l da)) d.
Proof.
  induction l as [|a l IH]; intros q r Hlen Hr Hq; cbn in *; [lia|].
  destruct q as [|q].
  - cbn. rewrite app_nth1 by (rewrite Hlen; exact Hr). reflexivity.
  - rewrite app_nth2 by (rewrite Hlen; cbn; lia).
    rewrite Hlen. replace (S q * n + r - n)%nat with (q * n + r)%nat by (cbn; lia).
    apply IH; [assumption|assumption|lia].
Qed.

(* entry (o, g, i) of the output is the sum of f over words g*k .. g*k+k-1 of lane (o, i) *)
Theorem hw_array_entry f k shape axis flat o g i :
  (o < outer_of shape axis)%nat -> (g < len_of shape axis / k)%nat -> (i < inner_of shape axis)%nat ->
  nth ((o * (len_of shape axis / k) + g) * inner_of shape axis + i) (hw_array f k shape axis flat) 0
  = nsum (map (fun j => f (at3 0 (len_of shape axis) (inner_of shape axis) flat o (g * k + j)%nat i)) (seq 0 k)).
Proof.
  intros Ho Hg Hi. unfold hw_array.
  set (G := (len_of shape axis / k)%nat) in *.
  set (I := inner_of shape axis) in *.
  replace ((o * G + g) * I + i)%nat with (o * (G * I) + (g * I + i))%nat by lia.
  rewrite (nth_flat_map_const 0 _ 0%nat (G * I)%nat).
  - rewrite seq_nth by exact Ho. cbn [Nat.add].
    rewrite (nth_flat_map_const 0 _ 0%nat I).
    + rewrite seq_nth by exact Hg. cbn [Nat.add].
      rewrite (nth_indep _ 0 (nsum (map (fun j => f (at3 0 (len_of shape axis) I flat o (g * k + j)%nat 0%nat)) (seq 0 k))))
        by (rewrite map_length, seq_length; exact Hi).
      rewrite (map_nth (fun i0 => nsum (map (fun j => f (at3 0 (len_of shape axis) I flat o (g * k + j)%nat i0)) (seq 0 k)))).
      rewrite seq_nth by exact Hi. reflexivity.
    + intros a. rewrite map_length, seq_length. reflexivity.
    + exact Hi.
    + rewrite seq_length. exact Hg.
  - intros a. rewrite (flat_map_length_const _ _ I).
    + rewrite seq_length. reflexivity.
    + intros g0 _. rewrite map_length, seq_length. reflexivity.
  - nia.
  - rewrite seq_length. exact Ho.
Qed.

(* pointwise: replacing the table function by the spec function changes nothing on in-range data *)
Lemma nsum_map_ext {A} (f g : A -> N) l : (forall a, In a l -> f a = g a) -> nsum (map f l) = nsum (map g l).
Proof.
  unfold nsum. induction l as [|a l IH]; intros H; cbn; [reflexivity|].
  rewrite H by (left; reflexivity). rewrite IH; [reflexivity|]. intros; apply H; right; assumption.
Qed.

Lemma flat_map_ext_in {A B} (f g : A -> list B) l : (forall a, In a l -> f a = g a) -> flat_map f l = flat_map g l.
Proof. induction l as [|a l IH]; intros H; cbn; [reflexivity|]. rewrite H by (left; reflexivity). rewrite IH; [reflexivity|]. intros; apply H; right; assumption. Qed.

Lemma at3_in_or_default {A} (d : A) L inner flat o j i : In (at3 d L inner flat o j i) flat \/ at3 d L inner flat o j i = d.
Proof. unfold at3. destruct (nth_in_or_default ((o * L + j) * inner + i) flat d); [left|right]; assumption. Qed.

Theorem hw_array_is_popcount sz f k shape axis flat :
  hw_of_itemsize sz = Some f -> In sz [1; 2; 4; 8] ->
  Forall (fun x => x < 2 ^ (8 * sz)) flat ->
  hw_array f k shape axis flat = hw_array popcount k shape axis flat.
Proof.
  intros Hf Hsz Hall.
  destruct (hw_dispatch_is_popcount sz Hsz) as (f' & Hf' & Hpop).
  rewrite Hf in Hf'. injection Hf' as <-.
  unfold hw_array.
  apply flat_map_ext_in; intros o _.
  apply flat_map_ext_in; intros g _.
  apply map_ext_in; intros i _.
  apply nsum_map_ext; intros j _.
  destruct (at3_in_or_default 0 (len_of shape axis) (inner_of shape axis) flat o (g * k + j)%nat i) as [Hin| ->].
  - apply Hpop. rewrite Forall_forall in Hall. apply Hall. exact Hin.
  - apply Hpop. apply N.neq_0_lt_0, N.pow_nonzero. discriminate.
Qed.

(* ---------------------------------------------------------------- Monobit *)
Theorem monobit_is_testbit b x : monobit b x = if Z.testbit x (Z.of_N b) then 1 else 0.
Proof. reflexivity. Qed.

(* for non-negative values: bit b of x is (x / 2^b) mod 2, and it is what `x & 2^b > 0` computes *)
Theorem monobit_land b x : (0 <= x)%Z ->
  monobit b x = if (0 <? Z.land x (2 ^ Z.of_N b))%Z then 1 else 0.
Proof.
  intros Hx. unfold monobit.
  assert (Hb : (0 <= Z.of_N b)%Z) by lia.
  destruct (Z.testbit x (Z.of_N b)) eqn:E.
  - assert (H : Z.land x (2 ^ Z.of_N b) = (2 ^ Z.of_N b)%Z).
    { apply Z.bits_inj'. intros n Hn. rewrite Z.land_spec, Z.pow2_bits_eqb by lia.
      destruct (Z.eqb_spec (Z.of_N b) n) as [<-|]; [rewrite E; reflexivity|apply andb_false_r]. }
    rewrite H. assert (0 < 2 ^ Z.of_N b)%Z by (apply Z.pow_pos_nonneg; lia).
    destruct (Z.ltb_spec 0 (2 ^ Z.of_N b)); [reflexivity|lia].
  - assert (H : Z.land x (2 ^ Z.of_N b) = 0%Z).
    { apply Z.bits_inj'. intros n Hn. rewrite Z.land_spec, Z.pow2_bits_eqb, Z.bits_0 by lia.
      destruct (Z.eqb_spec (Z.of_N b) n) as [<-|]; [rewrite E; reflexivity|apply andb_false_r]. }
    rewrite H. reflexivity.
Qed.

(* ---------------------------------------------------------------- discriminants *)
Lemma qmax_cases a b : (qmax a b = a /\ Qle b a) \/ (qmax a b = b /\ Qle a b).
Proof.
  unfold qmax. destruct (Qle_bool a b) eqn:E.
  - right. split; [reflexivity|]. apply Qle_bool_iff. exact E.
  - left. split; [reflexivity|].
    destruct (Qlt_le_dec b a) as [H|H]; [apply Qlt_le_weak; exact H|].
    apply Qle_bool_iff in H. congruence.
Qed.

(* nanmax: the result is one of the non-NaN entries and bounds all of them; NaN iff every entry is NaN *)
Theorem lane_nanmax_spec l :
  match lane_nanmax l with
  | Some m => In (Some m) l /\ forall x, In (Some x) l -> Qle x m
  | None => forall v, In v l -> v = None
  end.
Proof.
  induction l as [|[x|] l IH]; cbn.
  - intros v [].
  - destruct (lane_nanmax l) as [m|].
    + destruct IH as [Hin Hub]. destruct (qmax_cases x m) as [[-> Hle]|[-> Hle]].
      * split; [left; reflexivity|]. intros y [Hy|Hy].
        -- injection Hy as ->. apply Qle_refl.
        -- eapply Qle_trans; [apply Hub; exact Hy|exact Hle].
      * split; [right; exact Hin|]. intros y [Hy|Hy].
        -- injection Hy as ->. exact Hle.
        -- apply Hub; exact Hy.
    + split; [left; reflexivity|]. intros y [Hy|Hy].
      * injection Hy as ->. apply Qle_refl.
      * specialize (IH _ Hy). discriminate.
  - destruct (lane_nanmax l) as [m|].
    + destruct IH as [Hin Hub]. split; [right; exact Hin|].
      intros y [Hy|Hy]; [discriminate|apply Hub; exact Hy].
    + intros v [<-|Hv]; [reflexivity|apply IH; exact Hv].
Qed.

(* nansum ignores NaN entries: it is the sum over the filtered lane *)
Fixpoint defined (l : list oq) : list Q :=
  match l with [] => [] | None :: t => defined t | Some x :: t => x :: defined t end.
Definition qsum (l : list Q) : Q := fold_right Qplus 0%Q l.

Theorem lane_nansum_spec l : lane_nansum l = qsum (defined l).
Proof. induction l as [|[x|] l IH]; cbn; [reflexivity| |exact IH]. rewrite IH. reflexivity. Qed.

Lemma defined_map f l : defined (map (omap f) l) = map f (defined l).
Proof. induction l as [|[x|] l IH]; cbn; [reflexivity| |exact IH]. rewrite IH. reflexivity. Qed.

Theorem disc_lane_spec op l :
  disc_lane op l =
  match op with
  | DNanmax => lane_nanmax l
  | DMaxabs => lane_nanmax (map (omap Qabs') l)
  | DOppositeMin => lane_nanmax (map (omap Qopp) l)
  | DNansum => Some (qsum (defined l))
  | DAbssum => Some (qsum (map Qabs' (defined l)))
  end.
Proof.
  destruct op; cbn; try reflexivity.
  - rewrite lane_nansum_spec. reflexivity.
  - rewrite lane_nansum_spec, defined_map. reflexivity.
Qed.

(* opposite_min really is minus the minimum of the non-NaN entries *)
Theorem opposite_min_spec l m :
  disc_lane DOppositeMin l = Some m ->
  (exists x, In (Some x) l /\ m = Qopp x) /\ forall x, In (Some x) l -> Qle (Qopp m) x.
Proof.
  cbn. intros H. pose proof (lane_nanmax_spec (map (omap Qopp) l)) as S. rewrite H in S.
  destruct S as [Hin Hub]. split.
  - apply in_map_iff in Hin. destruct Hin as ([x|] & Hx & Hl); cbn in Hx; [|discriminate].
    injection Hx as <-. exists x. split; [exact Hl|reflexivity].
  - intros x Hx. assert (Hx' : In (Some (Qopp x)) (map (omap Qopp) l)).
    { apply in_map_iff. exists (Some x). split; [reflexivity|exact Hx]. }
    specialize (Hub _ Hx'). apply Qopp_le_compat in Hub. rewrite Qopp_involutive in Hub. exact Hub.
Qed.

(* reducing an axis: shape bookkeeping and which input cells feed which output cell *)
Theorem reduce_axis_length {A B} (d : A) (f : list A -> B) shape axis flat :
  length (reduce_axis d f shape axis flat) = (outer_of shape axis * inner_of shape axis)%nat.
Proof.
  unfold reduce_axis. rewrite (flat_map_length_const _ _ (inner_of shape axis)).
  - rewrite seq_length. reflexivity.
  - intros o _. rewrite map_length, seq_length. reflexivity.
Qed.

Theorem reduce_axis_entry {A B} (d : A) (db : B) (f : list A -> B) shape axis flat o i :
  (o < outer_of shape axis)%nat -> (i < inner_of shape axis)%nat ->
  nth (o * inner_of shape axis + i) (reduce_axis d f shape axis flat) db
  = f (map (fun j => at3 d (len_of shape axis) (inner_of shape axis) flat o j i) (seq 0 (len_of shape axis))).
Proof.
  intros Ho Hi. unfold reduce_axis.
  rewrite (nth_flat_map_const db _ 0%nat (inner_of shape axis)).
  - rewrite seq_nth by exact Ho. cbn [Nat.add].
    rewrite (nth_indep _ db (f (map (fun j => at3 d (len_of shape axis) (inner_of shape axis) flat o j 0%nat) (seq 0 (len_of shape axis)))))
      by (rewrite map_length, seq_length; exact Hi).
    rewrite (map_nth (fun i0 => f (map (fun j => at3 d (len_of shape axis) (inner_of shape axis) flat o j i0) (seq 0 (len_of shape axis))))).
    rewrite seq_nth by exact Hi. reflexivity.
  - intros a. rewrite map_length, seq_length. reflexivity.
  - exact Hi.
  - rewrite seq_length. exact Ho.
Qed.
