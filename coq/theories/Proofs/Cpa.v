(* Proofs/Cpa.v — lemmas and proofs for property C03 (Model/Cpa.v).  stdlib + ring/field on Qc. *)
From Coq Require Import ZArith QArith Qcanon List Bool Lia Lqa.
From ScaredV Require Import Lib.QcSum Lib.Arr Run.Compare Model.Accum Model.Cpa.
Import ListNotations.
Open Scope Qc_scope.

(* ---------------------------------------------------------------- small facts on Qc *)
Lemma qc0_spec (a : Qc) : qc0 a = true <-> a = 0.
Proof.
  unfold qc0. rewrite Qeq_bool_iff. split.
  - intros H. apply Qc_is_canon. exact H.
  - intros ->. reflexivity.
Qed.

Lemma qc0_false (a : Qc) : qc0 a = false <-> a <> 0.
Proof.
  split.
  - intros H E. apply qc0_spec in E. congruence.
  - intros H. destruct (qc0 a) eqn:E; [|reflexivity]. apply qc0_spec in E. contradiction.
Qed.

Lemma qc0_scale (c a : Qc) : c <> 0 -> qc0 (c * a) = qc0 a.
Proof.
  intros Hc. apply eq_true_iff_eq. rewrite !qc0_spec. split.
  - intros H. destruct (Qcmult_integral _ _ H) as [E|E]; [contradiction|exact E].
  - intros ->. ring.
Qed.

Lemma Qc_pos_of_nonneg_nonzero (a : Qc) : 0 <= a -> a <> 0 -> 0 < a.
Proof.
  intros H Hn. destruct (Qcle_lt_or_eq _ _ H) as [L|E]; [exact L|]. exfalso. apply Hn. symmetry. exact E.
Qed.

Lemma Qc_mul_pos_nonneg_reg (a b : Qc) : 0 < a -> 0 <= a * b -> 0 <= b.
Proof.
  intros Ha H. destruct (Qclt_le_dec b 0) as [L|L]; [|exact L]. exfalso.
  apply (Qcmult_lt_compat_r _ _ a) in L; [|exact Ha].
  replace (0 * a) with 0 in L by ring. replace (b * a) with (a * b) in L by ring.
  exact (Qcle_not_lt _ _ H L).
Qed.

Lemma Qc_mul_pos_pos_iff (c x : Qc) : 0 < c -> (0 < c * x <-> 0 < x).
Proof.
  intros Hc. split.
  - intros H. destruct (Qclt_le_dec 0 x) as [L|L]; [exact L|]. exfalso.
    apply (Qcmult_le_compat_r _ _ c) in L; [|apply Qclt_le_weak; exact Hc].
    replace (0 * c) with 0 in L by ring. replace (x * c) with (c * x) in L by ring.
    exact (Qcle_not_lt _ _ L H).
  - intros H. apply (Qcmult_lt_compat_r _ _ c) in H; [|exact Hc].
    replace (0 * c) with 0 in H by ring. replace (x * c) with (c * x) in H by ring. exact H.
Qed.

Lemma Qc_mul_pos_neg_iff (c x : Qc) : 0 < c -> (c * x < 0 <-> x < 0).
Proof.
  intros Hc. split.
  - intros H. destruct (Qclt_le_dec x 0) as [L|L]; [exact L|]. exfalso.
    apply (Qcmult_le_compat_r _ _ c) in L; [|apply Qclt_le_weak; exact Hc].
    replace (0 * c) with 0 in L by ring. replace (x * c) with (c * x) in L by ring.
    exact (Qcle_not_lt _ _ L H).
  - intros H. apply (Qcmult_lt_compat_r _ _ c) in H; [|exact Hc].
    replace (0 * c) with 0 in H by ring. replace (x * c) with (c * x) in H by ring. exact H.
Qed.

Lemma qsum_all_eq (c : Qc) l : (forall x, In x l -> x = c) -> qsum l = c * qlen l.
Proof.
  induction l as [|y l IH]; intros H.
  - unfold qsum, qlen. cbn [fold_right]. ring.
  - assert (Ey : y = c) by (apply H; left; reflexivity).
    rewrite qsum_cons, qlen_cons, IH by (intros x Hx; apply H; right; exact Hx).
    rewrite Ey. ring.
Qed.

(* zero spread iff all elements are equal *)
Lemma ssd_zero_iff_all_equal (l : list Qc) : ssd l = 0 <-> constant l.
Proof.
  rewrite ssd_zero_iff_constant. unfold constant. split.
  - intros H a b Ha Hb. rewrite (H a Ha), (H b Hb). reflexivity.
  - intros H x Hx. destruct l as [|c l']; [destruct Hx|].
    assert (Hall : forall y, In y (c :: l') -> y = c) by (intros y Hy; apply H; [exact Hy|left; reflexivity]).
    unfold qmean. rewrite (qsum_all_eq c) by exact Hall.
    rewrite (Hall x Hx).
    assert (Hn : qlen (c :: l') <> 0) by (apply qlen_nonzero; discriminate).
    field. exact Hn.
Qed.

(* ---------------------------------------------------------------- running minimum / maximum *)
Lemma Qc_le_bool_true (a b : Qc) : Qle_bool a b = true -> (a <= b)%Q.
Proof. apply Qle_bool_iff. Qed.
Lemma Qc_le_bool_false (a b : Qc) : Qle_bool a b = false -> (b < a)%Q.
Proof. intros H. apply Qnot_le_lt. intros L. apply Qle_bool_iff in L. congruence. Qed.

Ltac qc_order :=
  repeat match goal with
         | H : Qle_bool _ _ = true |- _ => apply Qc_le_bool_true in H
         | H : Qle_bool _ _ = false |- _ => apply Qc_le_bool_false in H
         end;
  try reflexivity; try (apply Qc_is_canon; lra); try (exfalso; lra).

Lemma qmin_assoc a b c : qmin a (qmin b c) = qmin (qmin a b) c.
Proof.
  unfold qmin. destruct (Qle_bool b c) eqn:Ebc; destruct (Qle_bool a b) eqn:Eab;
    rewrite ?Ebc, ?Eab; try reflexivity; destruct (Qle_bool a c) eqn:Eac; qc_order.
Qed.
Lemma qmax_assoc a b c : qmax a (qmax b c) = qmax (qmax a b) c.
Proof.
  unfold qmax. destruct (Qle_bool b c) eqn:Ebc; destruct (Qle_bool a b) eqn:Eab;
    rewrite ?Ebc, ?Eab; try reflexivity; destruct (Qle_bool a c) eqn:Eac; qc_order.
Qed.
Lemma qmin_comm a b : qmin a b = qmin b a.
Proof. unfold qmin. destruct (Qle_bool a b) eqn:E1; destruct (Qle_bool b a) eqn:E2; qc_order. Qed.
Lemma qmax_comm a b : qmax a b = qmax b a.
Proof. unfold qmax. destruct (Qle_bool a b) eqn:E1; destruct (Qle_bool b a) eqn:E2; qc_order. Qed.

Lemma omerge_assoc f : (forall a b c, f a (f b c) = f (f a b) c) ->
  forall a b c, omerge f a (omerge f b c) = omerge f (omerge f a b) c.
Proof. intros Hf [a|] [b|] [c|]; cbn; rewrite ?Hf; reflexivity. Qed.
Lemma omerge_comm f : (forall a b, f a b = f b a) -> forall a b, omerge f a b = omerge f b a.
Proof. intros Hf [a|] [b|]; cbn; rewrite ?(Hf a b); reflexivity. Qed.
Lemma omerge_none_r f a : omerge f a None = a.
Proof. destruct a; reflexivity. Qed.

Lemma qmin_le_l a b : qmin a b <= a.
Proof. unfold qmin. destruct (Qle_bool a b) eqn:E; [apply Qcle_refl|]. apply Qc_le_bool_false in E. apply Qlt_le_weak. exact E. Qed.
Lemma qmin_le_r a b : qmin a b <= b.
Proof. unfold qmin. destruct (Qle_bool a b) eqn:E; [apply Qc_le_bool_true; exact E|apply Qcle_refl]. Qed.
Lemma qmax_ge_l a b : a <= qmax a b.
Proof. unfold qmax. destruct (Qle_bool a b) eqn:E; [apply Qc_le_bool_true; exact E|apply Qcle_refl]. Qed.
Lemma qmax_ge_r a b : b <= qmax a b.
Proof. unfold qmax. destruct (Qle_bool a b) eqn:E; [apply Qcle_refl|]. apply Qc_le_bool_false in E. apply Qlt_le_weak. exact E. Qed.
Lemma qmin_idem a : qmin a a = a.
Proof. unfold qmin. destruct (Qle_bool a a); reflexivity. Qed.
Lemma qmax_idem a : qmax a a = a.
Proof. unfold qmax. destruct (Qle_bool a a); reflexivity. Qed.

(* the running extrema of a non-empty column exist, bound every element, and are attained *)
Lemma omin_spec (l : list Qc) : l <> [] ->
  exists m, omin l = Some m /\ (forall x, In x l -> m <= x) /\ In m l.
Proof.
  induction l as [|y l IH]; [congruence|intros _].
  destruct l as [|z l'].
  - exists y. cbn. split; [reflexivity|]. split; [intros x [<-|[]]; apply Qcle_refl|left; reflexivity].
  - destruct IH as (m & Hm & Hle & Hin); [discriminate|].
    cbn [omin fold_right] in *. rewrite Hm. cbn [omerge]. exists (qmin y m). split; [reflexivity|]. split.
    + intros x [<-|Hx]; [apply qmin_le_l|]. apply Qcle_trans with m; [apply qmin_le_r|apply Hle; exact Hx].
    + unfold qmin. destruct (Qle_bool y m); [left; reflexivity|right; exact Hin].
Qed.

Lemma omax_spec (l : list Qc) : l <> [] ->
  exists m, omax l = Some m /\ (forall x, In x l -> x <= m) /\ In m l.
Proof.
  induction l as [|y l IH]; [congruence|intros _].
  destruct l as [|z l'].
  - exists y. cbn. split; [reflexivity|]. split; [intros x [<-|[]]; apply Qcle_refl|left; reflexivity].
  - destruct IH as (m & Hm & Hle & Hin); [discriminate|].
    cbn [omax fold_right] in *. rewrite Hm. cbn [omerge]. exists (qmax y m). split; [reflexivity|]. split.
    + intros x [<-|Hx]; [apply qmax_ge_l|]. apply Qcle_trans with m; [apply Hle; exact Hx|apply qmax_ge_r].
    + unfold qmax. destruct (Qle_bool y m); [right; exact Hin|left; reflexivity].
Qed.

(* the repaired code's NaN rule is the spec's degeneracy test: a column is constant iff its minimum equals its maximum *)
Theorem constant_iff_min_eq_max (l : list Qc) : l <> [] -> (constant l <-> omin l = omax l).
Proof.
  intros Hl. destruct (omin_spec l Hl) as (lo & Hlo & Hlo_le & Hlo_in).
  destruct (omax_spec l Hl) as (hi & Hhi & Hhi_ge & Hhi_in). rewrite Hlo, Hhi. split.
  - intros H. f_equal. apply H; assumption.
  - intros E a b Ha Hb. injection E as E. subst hi.
    assert (Ea : a = lo) by (apply Qcle_antisym; [apply Hhi_ge|apply Hlo_le]; exact Ha).
    assert (Eb : b = lo) by (apply Qcle_antisym; [apply Hhi_ge|apply Hlo_le]; exact Hb).
    congruence.
Qed.

Lemma qeqb_spec (a b : Qc) : qeqb a b = true <-> a = b.
Proof.
  unfold qeqb. rewrite Qeq_bool_iff. split; [apply Qc_is_canon|intros ->; reflexivity].
Qed.

(* ---------------------------------------------------------------- monoid laws of the accumulators (for Model/Accum.v) *)
Lemma cst_plus_assoc a b c : cst_plus a (cst_plus b c) = cst_plus (cst_plus a b) c.
Proof.
  destruct a, b, c. unfold cst_plus. cbn.
  rewrite !(omerge_assoc qmin qmin_assoc), !(omerge_assoc qmax qmax_assoc). f_equal; ring.
Qed.
Lemma cst_plus_zero_r a : cst_plus a cst_zero = a.
Proof. destruct a. unfold cst_plus, cst_zero. cbn. rewrite !omerge_none_r. f_equal; ring. Qed.
Lemma cst_plus_zero_l a : cst_plus cst_zero a = a.
Proof. destruct a. unfold cst_plus, cst_zero. cbn. f_equal; ring. Qed.
Lemma cst_plus_comm a b : cst_plus a b = cst_plus b a.
Proof.
  destruct a as [a1 a2 a3 a4 a5 a6 a7 a8 a9 a10], b as [b1 b2 b3 b4 b5 b6 b7 b8 b9 b10]. unfold cst_plus. cbn.
  rewrite (omerge_comm qmin qmin_comm a7 b7), (omerge_comm qmax qmax_comm a8 b8),
          (omerge_comm qmin qmin_comm a9 b9), (omerge_comm qmax qmax_comm a10 b10). f_equal; ring.
Qed.

Lemma dst_plus_assoc a b c : dst_plus a (dst_plus b c) = dst_plus (dst_plus a b) c.
Proof. destruct a, b, c. unfold dst_plus. cbn. f_equal; ring. Qed.
Lemma dst_plus_zero_r a : dst_plus a dst_zero = a.
Proof. destruct a. unfold dst_plus, dst_zero. cbn. f_equal; ring. Qed.
Lemma dst_plus_zero_l a : dst_plus dst_zero a = a.
Proof. destruct a. unfold dst_plus, dst_zero. cbn. f_equal; ring. Qed.
Lemma dst_plus_comm a b : dst_plus a b = dst_plus b a.
Proof. destruct a, b. unfold dst_plus. cbn. f_equal; ring. Qed.

(* any batching gives the one-shot state *)
Lemma cpa_feed_concat batches : cpa_feed batches = cpa_acc (concat batches).
Proof. unfold cpa_feed, cpa_acc. apply feed_concat; [apply cst_plus_assoc|apply cst_plus_zero_r|apply cst_plus_zero_l]. Qed.
Lemma dpa_feed_concat batches : dpa_feed batches = dpa_acc (concat batches).
Proof. unfold dpa_feed, dpa_acc. apply feed_concat; [apply dst_plus_assoc|apply dst_plus_zero_r|apply dst_plus_zero_l]. Qed.

(* ---------------------------------------------------------------- the accumulators hold the sums *)
Definition cpa_sums (l : list obs) : cst :=
  mk_cst (qlen l) (qsum (map fst l)) (qsum (map sq (map fst l))) (qsum (map snd l)) (qsum (map sq (map snd l)))
         (qsum (map (fun p => fst p * snd p) l))
         (omin (map fst l)) (omax (map fst l)) (omin (map snd l)) (omax (map snd l)).

Lemma cpa_acc_sums l : cpa_acc l = cpa_sums l.
Proof.
  unfold cpa_acc, upd. rewrite cst_plus_zero_l.
  induction l as [|[x y] l IH].
  - reflexivity.
  - cbn [bsum fold_right]. fold (bsum cst obs cst_zero cst_plus cpa_contrib l). rewrite IH.
    unfold cpa_sums, cst_plus, cpa_contrib.
    cbn [map fst snd c_n c_sx c_sxx c_sy c_syy c_sxy c_xmin c_xmax c_ymin c_ymax omin omax fold_right].
    rewrite !qsum_cons, qlen_cons. unfold sq. f_equal; ring.
Qed.

(* the NaN rule of the repaired code fires exactly on the degenerate entries *)
Lemma cpa_undefined_iff (l : list obs) : l <> [] ->
  (cpa_undefined (cpa_acc l) = true <-> constant (map fst l) \/ constant (map snd l)).
Proof.
  intros Hl. rewrite cpa_acc_sums. unfold cpa_undefined, cpa_sums. cbn [c_xmin c_xmax c_ymin c_ymax].
  assert (Hx : map fst l <> []) by (destruct l; [congruence|discriminate]).
  assert (Hy : map snd l <> []) by (destruct l; [congruence|discriminate]).
  rewrite (constant_iff_min_eq_max _ Hx), (constant_iff_min_eq_max _ Hy).
  destruct (omin_spec _ Hx) as (a & -> & _). destruct (omax_spec _ Hx) as (b & -> & _).
  destruct (omin_spec _ Hy) as (c & -> & _). destruct (omax_spec _ Hy) as (d & -> & _).
  rewrite orb_true_iff, !qeqb_spec. split; intros [H|H]; [left|right|left|right]; congruence.
Qed.

Definition dpa_sums (l : list dobs) : dst := mk_dst (qlen l) (qsum (map fst l)) (qsum (ones l)) (qlen (ones l)).

Lemma dpa_acc_sums l : dpa_acc l = dpa_sums l.
Proof.
  unfold dpa_acc, upd. rewrite dst_plus_zero_l.
  induction l as [|[x b] l IH].
  - reflexivity.
  - cbn [bsum fold_right]. fold (bsum dst dobs dst_zero dst_plus dpa_contrib l). rewrite IH.
    unfold dpa_sums, dst_plus, dpa_contrib, ones. destruct b; cbn [filter map fst snd d_n d_all d_ones d_n1];
      rewrite ?qsum_cons, ?qlen_cons; f_equal; ring.
Qed.

Lemma qlen_ones_zeros (l : list dobs) : qlen l = qlen (ones l) + qlen (zeros l).
Proof.
  unfold ones, zeros. induction l as [|[x b] l IH]; [cbn [filter map]; unfold qlen; cbn [fold_right]; ring|].
  destruct b; cbn [filter map fst snd negb]; rewrite !qlen_cons, IH; ring.
Qed.

Lemma qsum_ones_zeros (l : list dobs) : qsum (map fst l) = qsum (ones l) + qsum (zeros l).
Proof.
  unfold ones, zeros. induction l as [|[x b] l IH]; [cbn [filter map]; unfold qsum; cbn [fold_right]; ring|].
  destruct b; cbn [filter map fst snd negb]; rewrite !qsum_cons, IH; ring.
Qed.

(* undefined iff a column is constant *)
Theorem pearson_none_iff (l : list obs) : pearson l = None <-> constant (map fst l) \/ constant (map snd l).
Proof.
  rewrite <- !ssd_zero_iff_all_equal. unfold pearson.
  destruct (qc0 (ssd (map fst l))) eqn:Ex; destruct (qc0 (ssd (map snd l))) eqn:Ey; cbn [orb];
    rewrite ?qc0_spec in *; rewrite ?qc0_false in *; split; intros H; try reflexivity; try tauto; try discriminate.
Qed.

(* ---------------------------------------------------------------- CPA = Pearson *)
Lemma cpa_dx (l : list obs) : l <> [] ->
  qsum (map sq (map fst l)) - qlen l * ((qsum (map fst l) / qlen l) * (qsum (map fst l) / qlen l)) = ssd (map fst l).
Proof.
  intros Hl. rewrite ssd_identity by (destruct l; [congruence|discriminate]).
  unfold qmean. rewrite qlen_map. reflexivity.
Qed.

Lemma cpa_dy (l : list obs) : l <> [] ->
  qsum (map sq (map snd l)) - qlen l * ((qsum (map snd l) / qlen l) * (qsum (map snd l) / qlen l)) = ssd (map snd l).
Proof.
  intros Hl. rewrite ssd_identity by (destruct l; [congruence|discriminate]).
  unfold qmean. rewrite qlen_map. reflexivity.
Qed.

Lemma cpa_formula_is_pearson (l : list obs) : l <> [] -> cpa_formula (cpa_acc l) = pearson l.
Proof.
  intros Hl. rewrite cpa_acc_sums. unfold cpa_formula, cpa_sums, pearson.
  cbn [c_n c_sx c_sxx c_sy c_syy c_sxy].
  rewrite (cpa_dx l Hl), (cpa_dy l Hl), (scd_identity l Hl). reflexivity.
Qed.

Theorem cpa_is_pearson_thm (l : list obs) : l <> [] -> cpa_comp (cpa_acc l) = pearson l.
Proof.
  intros Hl. unfold cpa_comp. destruct (cpa_undefined (cpa_acc l)) eqn:E.
  - symmetry. apply pearson_none_iff. apply (cpa_undefined_iff l Hl). exact E.
  - apply cpa_formula_is_pearson. exact Hl.
Qed.

Theorem cpa_batches_is_pearson (batches : list (list obs)) :
  concat batches <> [] -> cpa_comp (cpa_feed batches) = pearson (concat batches).
Proof. intros H. rewrite cpa_feed_concat. apply cpa_is_pearson_thm. exact H. Qed.

(* alternative formulation: every component is n times the Pearson component *)
Lemma cpa_alt_formula_scaled (l : list obs) : l <> [] ->
  cpa_alt_formula (cpa_acc l) = option_map (scale3 (qlen l)) (pearson l).
Proof.
  intros Hl. pose proof (qlen_nonzero l Hl) as Hn.
  rewrite cpa_acc_sums. unfold cpa_alt_formula, cpa_sums, pearson.
  cbn [c_n c_sx c_sxx c_sy c_syy c_sxy].
  assert (Ex : qlen l * qsum (map sq (map fst l)) - qsum (map fst l) * qsum (map fst l) = qlen l * ssd (map fst l)).
  { rewrite <- (cpa_dx l Hl). field. exact Hn. }
  assert (Ey : qlen l * qsum (map sq (map snd l)) - qsum (map snd l) * qsum (map snd l) = qlen l * ssd (map snd l)).
  { rewrite <- (cpa_dy l Hl). field. exact Hn. }
  assert (En : qlen l * qsum (map (fun p => fst p * snd p) l) - qsum (map snd l) * qsum (map fst l) = qlen l * scd l).
  { rewrite (scd_identity l Hl). unfold obs in *. field. exact Hn. }
  rewrite Ex, Ey, En, !(qc0_scale _ _ Hn).
  destruct (qc0 (ssd (map fst l)) || qc0 (ssd (map snd l))); reflexivity.
Qed.

Theorem cpa_alt_scaled (l : list obs) : l <> [] ->
  cpa_alt_comp (cpa_acc l) = option_map (scale3 (qlen l)) (pearson l).
Proof.
  intros Hl. unfold cpa_alt_comp. destruct (cpa_undefined (cpa_acc l)) eqn:E.
  - assert (Hp : pearson l = None) by (apply pearson_none_iff; apply (cpa_undefined_iff l Hl); exact E).
    rewrite Hp. reflexivity.
  - apply cpa_alt_formula_scaled. exact Hl.
Qed.

Lemma same_r_scale (c : Qc) (t : triple) : 0 < c -> same_r t (scale3 c t).
Proof.
  intros Hc. destruct t as [[num dx] dy]. unfold same_r, scale3. split; [unfold sq; ring|]. split.
  - apply Qc_mul_pos_pos_iff. exact Hc.
  - apply Qc_mul_pos_neg_iff. exact Hc.
Qed.

Lemma pearson_some_pos l num dx dy : pearson l = Some (num, dx, dy) -> 0 < dx /\ 0 < dy.
Proof.
  unfold pearson. destruct (qc0 (ssd (map fst l))) eqn:Ex; [discriminate|].
  destruct (qc0 (ssd (map snd l))) eqn:Ey; [discriminate|]. cbn [orb]. intros H. injection H as _ <- <-.
  apply qc0_false in Ex, Ey. split; apply Qc_pos_of_nonneg_nonzero; try apply ssd_nonneg; assumption.
Qed.

Theorem cpa_alt_is_pearson_thm (l : list obs) : l <> [] ->
  (cpa_alt_comp (cpa_acc l) = None <-> pearson l = None)
  /\ forall t, pearson l = Some t ->
       exists t', cpa_alt_comp (cpa_acc l) = Some t' /\ t' = scale3 (qlen l) t /\ same_r t t'
                  /\ 0 < snd (fst t') /\ 0 < snd t'.
Proof.
  intros Hl. rewrite (cpa_alt_scaled l Hl). pose proof (qlen_pos l Hl) as Hn. split.
  - destruct (pearson l); cbn; split; intros H; congruence.
  - intros t Ht. rewrite Ht. cbn [option_map]. exists (scale3 (qlen l) t).
    split; [reflexivity|]. split; [reflexivity|]. split; [apply same_r_scale; exact Hn|].
    destruct t as [[num dx] dy]. destruct (pearson_some_pos _ _ _ _ Ht) as [Px Py]. cbn [scale3 fst snd].
    split; apply Qc_mul_pos_pos_iff; assumption.
Qed.

(* ---------------------------------------------------------------- DPA = difference of class means *)
Theorem dpa_is_mean_difference_thm (l : list dobs) : dpa_comp (dpa_acc l) = dpa_spec l.
Proof.
  rewrite dpa_acc_sums. unfold dpa_comp, dpa_sums, dpa_spec. cbn [d_n d_all d_ones d_n1].
  rewrite (qlen_ones_zeros l), (qsum_ones_zeros l).
  replace (qlen (ones l) + qlen (zeros l) - qlen (ones l)) with (qlen (zeros l)) by ring.
  replace (qsum (ones l) + qsum (zeros l) - qsum (ones l)) with (qsum (zeros l)) by ring.
  destruct (ones l) as [|o os] eqn:Eo.
  - reflexivity.
  - assert (H1 : qc0 (qlen (o :: os)) = false) by (apply qc0_false, qlen_nonzero; discriminate).
    rewrite H1. cbn [orb].
    destruct (zeros l) as [|z zs] eqn:Ez.
    + reflexivity.
    + assert (H0 : qc0 (qlen (z :: zs)) = false) by (apply qc0_false, qlen_nonzero; discriminate).
      rewrite H0. reflexivity.
Qed.

Theorem dpa_batches_is_mean_difference (batches : list (list dobs)) :
  dpa_comp (dpa_feed batches) = dpa_spec (concat batches).
Proof. rewrite dpa_feed_concat. apply dpa_is_mean_difference_thm. Qed.

(* ---------------------------------------------------------------- undefined iff degenerate *)

Lemma filter_nil_iff {A} (f : A -> bool) l : filter f l = [] <-> forall x, In x l -> f x = false.
Proof.
  induction l as [|y l IH]; cbn; [tauto|].
  destruct (f y) eqn:E; split.
  - discriminate.
  - intros H. specialize (H y (or_introl eq_refl)). congruence.
  - intros H x [<-|Hx]; [exact E|]. apply IH; assumption.
  - intros H. apply IH. intros x Hx. apply H. right. exact Hx.
Qed.

Lemma map_nil_iff {A B} (f : A -> B) (l : list A) : map f l = [] <-> l = [].
Proof. destruct l; cbn; split; intros H; try reflexivity; discriminate. Qed.

Lemma ones_nil_iff (l : list dobs) : ones l = [] <-> forall p, In p l -> snd p = false.
Proof. unfold ones. rewrite map_nil_iff. apply filter_nil_iff. Qed.

Lemma zeros_nil_iff (l : list dobs) : zeros l = [] <-> forall p, In p l -> snd p = true.
Proof.
  unfold zeros. rewrite map_nil_iff, filter_nil_iff.
  split; intros H p Hp; specialize (H p Hp); destruct (snd p); cbn in *; congruence.
Qed.

Theorem dpa_none_iff (l : list dobs) :
  dpa_spec l = None <-> (forall p, In p l -> snd p = false) \/ (forall p, In p l -> snd p = true).
Proof.
  rewrite <- ones_nil_iff, <- zeros_nil_iff. unfold dpa_spec.
  destruct (ones l); [split; [left; reflexivity|reflexivity]|].
  destruct (zeros l); [split; [right; reflexivity|reflexivity]|].
  split; [discriminate|]. intros [H|H]; discriminate.
Qed.

(* ---------------------------------------------------------------- Cauchy-Schwarz *)
Lemma qsum_sq_comb {A} (f g : A -> Qc) (p q : Qc) (l : list A) :
  qsum (map (fun a => sq (p * g a - q * f a)) l)
  = p * p * qsum (map (fun a => sq (g a)) l) - (1 + 1) * p * q * qsum (map (fun a => f a * g a) l)
    + q * q * qsum (map (fun a => sq (f a)) l).
Proof.
  induction l as [|a l IH]; cbn [map]; rewrite ?qsum_nil, ?qsum_cons, ?IH; unfold sq; ring.
Qed.

Theorem cauchy_schwarz {A} (f g : A -> Qc) (l : list A) :
  sq (qsum (map (fun a => f a * g a) l)) <= qsum (map (fun a => sq (f a)) l) * qsum (map (fun a => sq (g a)) l).
Proof.
  set (SA := qsum (map (fun a => sq (f a)) l)).
  set (SB := qsum (map (fun a => sq (g a)) l)).
  set (SC := qsum (map (fun a => f a * g a) l)).
  assert (HA : 0 <= SA).
  { apply qsum_nonneg. intros x Hx. apply in_map_iff in Hx. destruct Hx as (a & <- & _). apply Qc_sq_nonneg. }
  destruct (Qc_eq_dec SA 0) as [E|NE].
  - (* every f a is 0 *)
    assert (Hz : forall a, In a l -> f a = 0).
    { intros a Ha. apply Qc_sq_zero.
      apply (qsum_nonneg_zero (map (fun a => sq (f a)) l)).
      - intros x Hx. apply in_map_iff in Hx. destruct Hx as (b & <- & _). apply Qc_sq_nonneg.
      - exact E.
      - apply in_map_iff. exists a. split; [reflexivity|exact Ha]. }
    assert (EC : SC = 0).
    { unfold SC. rewrite (qsum_map_ext _ (fun _ => 0)).
      - rewrite qsum_map_const. ring.
      - intros a Ha. rewrite (Hz a Ha). ring. }
    rewrite EC, E. unfold sq. replace (0 * 0) with 0 by ring. replace (0 * SB) with 0 by ring. apply Qcle_refl.
  - assert (PA : 0 < SA) by (apply Qc_pos_of_nonneg_nonzero; assumption).
    assert (H : 0 <= SA * (SA * SB - sq SC)).
    { replace (SA * (SA * SB - sq SC)) with (qsum (map (fun a => sq (SA * g a - SC * f a)) l)).
      - apply qsum_nonneg. intros x Hx. apply in_map_iff in Hx. destruct Hx as (a & <- & _). apply Qc_sq_nonneg.
      - rewrite qsum_sq_comb. fold SA SB SC. unfold sq. ring. }
    apply Qc_mul_pos_nonneg_reg in H; [|exact PA].
    apply Qcle_minus_iff. replace (SA * SB + - sq SC) with (SA * SB - sq SC) by ring. exact H.
Qed.

Theorem pearson_bounds_thm (l : list obs) : sq (scd l) <= ssd (map fst l) * ssd (map snd l).
Proof.
  unfold scd, ssd. rewrite !map_map.
  exact (cauchy_schwarz (fun p : obs => fst p - qmean (map fst l)) (fun p : obs => snd p - qmean (map snd l)) l).
Qed.

(* ---------------------------------------------------------------- layout *)
Lemma nth_map_seq {B} (g : nat -> B) (d : B) n i : (i < n)%nat -> nth i (map g (seq 0 n)) d = g i.
Proof.
  intros Hi. rewrite (nth_indep _ d (g 0%nat)) by (rewrite map_length, seq_length; exact Hi).
  rewrite (map_nth g (seq 0 n) 0%nat i), seq_nth by exact Hi. reflexivity.
Qed.

Section Layout.
  Variables X Y O : Type.
  Variables (dX : X) (dY : Y) (dO : O).
  Variable stat : list (X * Y) -> O.

  Lemma table2d_rows traces data D S l : In l (table2d X Y O dX dY stat traces data D S) -> length l = S.
  Proof.
    unfold table2d. intros H. apply in_map_iff in H. destruct H as (w & <- & _).
    rewrite map_length, seq_length. reflexivity.
  Qed.

  Lemma table2d_entry traces data D S w s : (w < D)%nat -> (s < S)%nat ->
    nth s (nth w (table2d X Y O dX dY stat traces data D S) []) dO
    = stat (combine (col dX s traces) (col dY w data)).
  Proof.
    intros Hw Hs. unfold table2d. rewrite (nth_map_seq _ [] D w Hw), (nth_map_seq _ dO S s Hs). reflexivity.
  Qed.

  Lemma col_linearise dims (data : list (list nat -> Y)) idx : in_range dims idx ->
    col dY (flatten dims idx) (map (linearise Y dims) data) = map (fun a => a idx) data.
  Proof.
    intros H. unfold col, linearise. rewrite map_map. apply map_ext. intros a. apply tabulate_nth. exact H.
  Qed.

  Theorem layout_thm dims S traces (data : list (list nat -> Y)) idx s :
    in_range dims idx -> (s < S)%nat ->
    distinguisher_result X Y O dX dY dO stat dims S traces data (idx ++ [s])
    = stat (combine (col dX s traces) (map (fun a => a idx) data)).
  Proof.
    intros Hi Hs. unfold distinguisher_result, result_nd.
    rewrite (flatten_last dims S idx s Hi).
    pose proof (flatten_lt dims idx Hi) as Hw.
    rewrite (nth_concat_uniform S dO).
    - rewrite table2d_entry by assumption. rewrite (col_linearise dims data idx Hi). reflexivity.
    - intros l Hl. eapply table2d_rows. exact Hl.
    - unfold table2d. rewrite map_length, seq_length. exact Hw.
    - exact Hs.
  Qed.

  (* an entry depends on its own sample column and its own word only *)
  Corollary entries_independent_thm dims S traces traces' (data data' : list (list nat -> Y)) idx s :
    in_range dims idx -> (s < S)%nat ->
    col dX s traces = col dX s traces' -> map (fun a => a idx) data = map (fun a => a idx) data' ->
    distinguisher_result X Y O dX dY dO stat dims S traces data (idx ++ [s])
    = distinguisher_result X Y O dX dY dO stat dims S traces' data' (idx ++ [s]).
  Proof. intros Hi Hs Ex Ey. rewrite !layout_thm by assumption. rewrite Ex, Ey. reflexivity. Qed.

  (* shape of the result: prod dims * S cells, i.e. exactly the cells of shape dims ++ [S] *)
  Lemma result_cells dims S traces (data : list (list nat -> Y)) :
    length (concat (table2d X Y O dX dY stat traces (map (linearise Y dims) data) (prod dims) S)) = prod (dims ++ [S]).
  Proof.
    rewrite (length_concat_uniform S) by (intros l Hl; eapply table2d_rows; exact Hl).
    unfold table2d. rewrite map_length, seq_length, prod_app. cbn. lia.
  Qed.
End Layout.

(* ---------------------------------------------------------------- the C-tie compares with the spec *)
Lemma ssd_fast_eq l : ssd_fast l = ssd l.
Proof. reflexivity. Qed.
Lemma pearson_fast_eq l : pearson_fast l = pearson l.
Proof. reflexivity. Qed.

(* le_r is the sqrt-free reading of  a <= num / s  for every positive s with s * s = D  (Q, micromega) *)
Section LeR.
  Local Open Scope Q_scope.

  Lemma sq_le_iff (u v : Q) : 0 <= u -> 0 <= v -> (u * u <= v * v <-> u <= v).
  Proof. intros Hu Hv. split; intros H; nra. Qed.

  Lemma Qle_bool_false (x y : Q) : Qle_bool x y = false -> y < x.
  Proof. intros H. apply Qnot_le_lt. intros L. apply Qle_bool_iff in L. congruence. Qed.

  Lemma le_r_sound (a num D s : Q) : 0 < s -> s * s == D -> (le_r a num D = true <-> a * s <= num).
  Proof.
    intros Hs HD. unfold le_r.
    destruct (Qle_bool a 0) eqn:Ea; destruct (Qle_bool 0 num) eqn:En;
      try (apply Qle_bool_iff in Ea); try (apply Qle_bool_iff in En);
      try (apply Qle_bool_false in Ea); try (apply Qle_bool_false in En).
    - split; [intros _|reflexivity]. nra.
    - rewrite Qle_bool_iff, <- HD.
      setoid_replace (a * a * (s * s)) with ((- (a * s)) * (- (a * s))) by ring.
      setoid_replace (num * num) with ((- num) * (- num)) by ring.
      rewrite sq_le_iff by nra. split; intros H; lra.
    - rewrite Qle_bool_iff, <- HD.
      setoid_replace (a * a * (s * s)) with ((a * s) * (a * s)) by ring.
      apply sq_le_iff; nra.
    - split; [discriminate|]. intros H. exfalso. nra.
  Qed.

  (* | r - num / s | <= tol *)
  Lemma close_r_sound (r tol num D s : Q) : 0 < s -> s * s == D ->
    (close_r r tol num D = true <-> (r - tol) * s <= num /\ num <= (r + tol) * s).
  Proof.
    intros Hs HD. unfold close_r, ge_r. rewrite andb_true_iff, !(le_r_sound _ _ D s Hs HD).
    split; intros [H1 H2]; split; lra.
  Qed.
End LeR.

(* ---------------------------------------------------------------- statements assembled for Props/C03.v *)
Open Scope Qc_scope.

Theorem undefined_iff_degenerate_thm :
  (forall l : list obs, l <> [] ->
     (cpa_comp (cpa_acc l) = None <-> constant (map fst l) \/ constant (map snd l))
     /\ (cpa_alt_comp (cpa_acc l) = None <-> constant (map fst l) \/ constant (map snd l)))
  /\ (forall l : list dobs,
        dpa_comp (dpa_acc l) = None <-> (forall p, In p l -> snd p = false) \/ (forall p, In p l -> snd p = true)).
Proof.
  split.
  - intros l Hl. split.
    + rewrite (cpa_is_pearson_thm l Hl). apply pearson_none_iff.
    + rewrite (proj1 (cpa_alt_is_pearson_thm l Hl)). apply pearson_none_iff.
  - intros l. rewrite dpa_is_mean_difference_thm. apply dpa_none_iff.
Qed.

Theorem cpa_output_bounds (l : list obs) num dx dy : l <> [] ->
  cpa_comp (cpa_acc l) = Some (num, dx, dy) -> sq num <= dx * dy /\ 0 < dx /\ 0 < dy.
Proof.
  intros Hl H. rewrite (cpa_is_pearson_thm l Hl) in H.
  destruct (pearson_some_pos _ _ _ _ H) as [Px Py]. split; [|split; assumption].
  unfold pearson in H. destruct (qc0 (ssd (map fst l)) || qc0 (ssd (map snd l))); [discriminate|].
  injection H as <- <- <-. apply pearson_bounds_thm.
Qed.

Theorem flatten_bijection (shape : list nat) :
  (forall idx, in_range shape idx -> (flatten shape idx < prod shape)%nat /\ unflatten shape (flatten shape idx) = idx)
  /\ (forall k, (k < prod shape)%nat -> in_range shape (unflatten shape k) /\ flatten shape (unflatten shape k) = k).
Proof.
  split.
  - intros idx H. split; [apply flatten_lt|apply unflatten_flatten]; exact H.
  - intros k H. split; [apply unflatten_in_range|apply flatten_unflatten]; exact H.
Qed.

(* ---------------------------------------------------------------- run-length encoded rows: the weighted spec IS the spec *)
Lemma qz_add (a b : Z) : qz (a + b) = qz a + qz b.
Proof.
  unfold qz. apply Qc_is_canon. unfold Qcplus, Q2Qc. cbn [this].
  rewrite !Qred_correct, inject_Z_plus. reflexivity.
Qed.
Lemma qz_1 : qz 1 = 1. Proof. apply Qc_is_canon. reflexivity. Qed.
Lemma qz_0 : qz 0 = 0. Proof. apply Qc_is_canon. reflexivity. Qed.

Lemma qsum_map_repeat {A} (f : A -> Qc) (v : A) (k : nat) : qsum (map f (repeat v k)) = qz (Z.of_nat k) * f v.
Proof.
  induction k as [|k IH].
  - cbn [repeat map]. rewrite qsum_nil. change (Z.of_nat 0) with 0%Z. rewrite qz_0. ring.
  - cbn [repeat map]. rewrite qsum_cons, IH, Nat2Z.inj_succ. unfold Z.succ. rewrite qz_add, qz_1. ring.
Qed.

Lemma qlen_repeat {A} (v : A) (k : nat) : qlen (repeat v k) = qz (Z.of_nat k).
Proof.
  induction k as [|k IH].
  - cbn [repeat]. rewrite qlen_nil. change (Z.of_nat 0) with 0%Z. rewrite qz_0. reflexivity.
  - cbn [repeat]. rewrite qlen_cons, IH, Nat2Z.inj_succ. unfold Z.succ. rewrite qz_add, qz_1. reflexivity.
Qed.

Lemma qsum_map_expand {A} (f : A -> Qc) (wl : list (A * positive)) : qsum (map f (expand wl)) = wsum f wl.
Proof.
  unfold expand, wsum. induction wl as [|[v c] wl IH]; [reflexivity|].
  cbn [flat_map map fst snd]. rewrite map_app, qsum_app, qsum_cons, IH, qsum_map_repeat.
  unfold qpos. rewrite positive_nat_Z. reflexivity.
Qed.

Lemma qlen_expand {A} (wl : list (A * positive)) : qlen (expand wl) = wlen wl.
Proof.
  unfold expand, wlen, wsum. induction wl as [|[v c] wl IH]; [reflexivity|].
  cbn [flat_map map fst snd]. rewrite qlen_app, qsum_cons, IH, qlen_repeat.
  unfold qpos. rewrite positive_nat_Z. ring.
Qed.

Theorem pearson_w_expand (wl : list (obs * positive)) : pearson_w wl = pearson (expand wl).
Proof.
  unfold pearson, pearson_w, scd, ssd, qmean. cbv zeta.
  rewrite !map_map, !qlen_map, !qsum_map_expand, !qlen_expand. reflexivity.
Qed.

Lemma filter_repeat {A} (f : A -> bool) (v : A) (k : nat) : filter f (repeat v k) = if f v then repeat v k else [].
Proof.
  induction k as [|k IH]; cbn [repeat filter]; [destruct (f v); reflexivity|].
  rewrite IH. destruct (f v); reflexivity.
Qed.

Lemma filter_expand {A} (f : A -> bool) (wl : list (A * positive)) :
  filter f (expand wl) = expand (filter (fun p => f (fst p)) wl).
Proof.
  unfold expand. induction wl as [|[v c] wl IH]; [reflexivity|].
  cbn [flat_map filter fst snd]. rewrite filter_app, IH, filter_repeat.
  destruct (f v); reflexivity.
Qed.

Lemma expand_nil_iff {A} (wl : list (A * positive)) : expand wl = [] <-> wl = [].
Proof.
  split; [|intros ->; reflexivity].
  destruct wl as [|[v c] wl]; [reflexivity|]. unfold expand. cbn [flat_map fst snd].
  destruct (Pos2Nat.is_succ c) as [k ->]. discriminate.
Qed.

Lemma qmean_fst_expand {B} (wl : list ((Qc * B) * positive)) :
  qmean (map fst (expand wl)) = wsum fst wl / wlen wl.
Proof. unfold qmean. rewrite qlen_map, qsum_map_expand, qlen_expand. reflexivity. Qed.

Theorem dpa_spec_w_expand (wl : list (dobs * positive)) : dpa_spec_w wl = dpa_spec (expand wl).
Proof.
  unfold dpa_spec, dpa_spec_w, ones, zeros, wones, wzeros.
  rewrite !filter_expand. cbv beta.
  set (O := filter (fun p : Qc * bool * positive => snd (fst p)) wl).
  set (Z0 := filter (fun p : Qc * bool * positive => negb (snd (fst p))) wl).
  destruct O as [|a o']; [reflexivity|].
  destruct (map fst (expand (a :: o'))) as [|x xs] eqn:EX.
  { exfalso. apply map_nil_iff in EX. apply expand_nil_iff in EX. discriminate. }
  destruct Z0 as [|b z']; [reflexivity|].
  destruct (map fst (expand (b :: z'))) as [|y ys] eqn:EY.
  { exfalso. apply map_nil_iff in EY. apply expand_nil_iff in EY. discriminate. }
  rewrite <- EX, <- EY, !qmean_fst_expand. reflexivity.
Qed.

(* ---------------------------------------------------------------- histories: every compute() returns the spec of the rows so far *)
Lemma expected_is_spec_history {St R O} (zero : St) (plus : St -> St -> St) (contrib : R -> St) (comp : St -> O) (spec : list R -> O) :
  (forall seen, comp (upd St R zero plus contrib zero seen) = spec seen) ->
  forall h seen, expected_outputs St R O zero plus contrib comp seen h = spec_history spec seen h.
Proof.
  intros Hs h. induction h as [|[b|] h IH]; intros seen; cbn; [reflexivity|apply IH|]. rewrite Hs, IH. reflexivity.
Qed.

Lemma cpa_is_pearson_all (l : list obs) : cpa_comp (cpa_acc l) = pearson l.
Proof. destruct l as [|o l]; [reflexivity|]. apply cpa_is_pearson_thm. discriminate. Qed.

Lemma cpa_alt_scaled_all (l : list obs) : cpa_alt_comp (cpa_acc l) = option_map (scale3 (qlen l)) (pearson l).
Proof. destruct l as [|o l]; [reflexivity|]. apply cpa_alt_scaled. discriminate. Qed.

Theorem cpa_history_thm (h : list (op obs)) :
  snd (run cst obs (option triple) cst_zero cst_plus cpa_contrib cpa_comp cst_zero h) = spec_history pearson [] h.
Proof.
  rewrite (history_outputs0 _ _ _ cst_zero cst_plus cpa_contrib cpa_comp cst_plus_assoc cst_plus_zero_r cst_plus_zero_l).
  apply expected_is_spec_history. exact cpa_is_pearson_all.
Qed.

Theorem cpa_alt_history_thm (h : list (op obs)) :
  snd (run cst obs (option triple) cst_zero cst_plus cpa_contrib cpa_alt_comp cst_zero h)
  = spec_history (fun l => option_map (scale3 (qlen l)) (pearson l)) [] h.
Proof.
  rewrite (history_outputs0 _ _ _ cst_zero cst_plus cpa_contrib cpa_alt_comp cst_plus_assoc cst_plus_zero_r cst_plus_zero_l).
  apply expected_is_spec_history. exact cpa_alt_scaled_all.
Qed.

Theorem dpa_history_thm (h : list (op dobs)) :
  snd (run dst dobs (option Qc) dst_zero dst_plus dpa_contrib dpa_comp dst_zero h) = spec_history dpa_spec [] h.
Proof.
  rewrite (history_outputs0 _ _ _ dst_zero dst_plus dpa_contrib dpa_comp dst_plus_assoc dst_plus_zero_r dst_plus_zero_l).
  apply expected_is_spec_history. exact dpa_is_mean_difference_thm.
Qed.
