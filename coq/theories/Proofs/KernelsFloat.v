(* Proofs/KernelsFloat.v — the rounding function of Model/Kernels.v ([round_to], hence [mul_in DF32], [mul_prec])
   against Flocq's IEEE-754 binary32 / binary64 multiplication, on the float32 witness of finding D7 and on a table of
   bit patterns (normal numbers, products in the normal range).  Only this file imports Flocq; the theorems that use it
   depend on the standard-library axioms Flocq's real-number layer brings (ClassicalDedekindReals.sig_forall_dec,
   sig_not_dec, FunctionalExtensionality.functional_extensionality_dep, Classical_Prop.classic). *)
From Coq Require Import ZArith QArith Qcanon List Bool.
From Flocq Require Import IEEE754.Bits IEEE754.BinarySingleNaN IEEE754.Binary.
From ScaredV Require Import Lib.QcSum Run.Compare Model.Kernels Proofs.Kernels.
Import ListNotations.
Local Open Scope Z_scope.

(* the rational value of a finite binary32 / binary64 bit pattern *)
Definition q_of_bits (mw ew : Z) (b : Z) : Q :=
  let s := b / 2 ^ (mw + ew) in
  let e := (b / 2 ^ mw) mod 2 ^ ew in
  let m := b mod 2 ^ mw in
  let bias := 2 ^ (ew - 1) - 1 in
  let v := if e =? 0 then (inject_Z m * pow2q (1 - bias - mw))%Q else (inject_Z (m + 2 ^ mw) * pow2q (e - bias - mw))%Q in
  if s =? 1 then (- v)%Q else v.
Definition q_of_bits32 : Z -> Q := q_of_bits 23 8.
Definition q_of_bits64 : Z -> Q := q_of_bits 52 11.

Definition f32_mul_bits (a b : Z) : Z := bits_of_b32 (b32_mult mode_NE (b32_of_bits a) (b32_of_bits b)).
Definition f64_mul_bits (a b : Z) : Z := bits_of_b64 (b64_mult mode_NE (b64_of_bits a) (b64_of_bits b)).

Definition agree32 (ab : Z * Z) : bool :=
  Qeq_bool (q_of_bits32 (f32_mul_bits (fst ab) (snd ab)))
           (this (mul_in DF32 (Q2Qc (q_of_bits32 (fst ab))) (Q2Qc (q_of_bits32 (snd ab))))).
Definition agree64 (ab : Z * Z) : bool :=
  Qeq_bool (q_of_bits64 (f64_mul_bits (fst ab) (snd ab)))
           (this (mul_prec F64 (Q2Qc (q_of_bits64 (fst ab))) (Q2Qc (q_of_bits64 (snd ab))))).

(* 0x447A07DF = float32(1000.123); the others: assorted signs, exponents and mantissas incl. exact ties *)
Definition samples32 : list (Z * Z) :=
  [(0x447A07DF, 0x447A07DF); (0x3F800001, 0x3F800001); (0x3F800003, 0x3F800001); (0x3FC00000, 0x3F800001);
   (0x3FC00001, 0x3F800003); (0x4B800001, 0x4B800001); (0x4B7FFFFF, 0x4B7FFFFF); (0xC47A07DF, 0x447A07DF);
   (0x3DCCCCCD, 0x3DCCCCCD); (0x3DCCCCCD, 0x41200000); (0x49742400, 0x49742400); (0x49742408, 0x3A83126F);
   (0x7149F2CA, 0x0DA24260); (0x3EAAAAAB, 0x40400000); (0xBF7FFFFF, 0xBF7FFFFF); (0x40490FDB, 0x402DF854);
   (0x3F800001, 0x3F800002); (0x3F800005, 0x3F800003); (0x3FFFFFFF, 0x3FFFFFFF); (0x34000000, 0x4B000001)].
Definition samples64 : list (Z * Z) :=
  [(0x408F40FBE76C8B44, 0x408F40FBE76C8B44); (0x3FF0000000000001, 0x3FF0000000000001); (0x3FF0000000000003, 0x3FF0000000000001);
   (0x3FF8000000000001, 0x3FF0000000000003); (0x3FB999999999999A, 0x3FB999999999999A); (0xC08F40FBE76C8B44, 0x3FD5555555555555);
   (0x412E848000000001, 0x412E848000000001); (0x400921FB54442D18, 0x4005BF0A8B145769); (0x433FFFFFFFFFFFFF, 0x433FFFFFFFFFFFFF);
   (0x3FEFFFFFFFFFFFFF, 0x3FEFFFFFFFFFFFFF)].

(* the witness: 0x447A07DF is w_f32, and squaring it in binary32 gives what the model's storage-type square gives *)
Theorem f32_witness_flocq_thm :
  Q2Qc (q_of_bits32 0x447A07DF) = w_f32
  /\ Q2Qc (q_of_bits32 (f32_mul_bits 0x447A07DF 0x447A07DF)) = sq_storage DF32 F64 w_f32
  /\ f32_mul_bits 0x447A07DF 0x447A07DF = 0x49743360
  /\ sq_storage DF32 F64 w_f32 <> sq_cast_first DF32 F64 w_f32.
Proof.
  repeat split; try (apply Qc_is_canon; vm_compute; reflexivity); try (vm_compute; reflexivity).
  apply sq_storage_refuted_thm.
Qed.

(* on the listed bit patterns (the bound of this statement) the model's multiplication is Flocq's, correctly rounded *)
Theorem round_to_is_flocq_on_samples_thm : forallb agree32 samples32 = true /\ forallb agree64 samples64 = true.
Proof. split; vm_compute; reflexivity. Qed.
