(* Proofs/Classes.v — lemmas and proofs for property C12 (classes are identified by value).
   The impl-models are the colleagues' (Model/Partitioned.v, Model/Template.v, Model/Mia.v, used as P. / T. / M.);
   their interface lemmas come from Proofs/Partitioned.v, Proofs/Template.v, Proofs/Mia.v (PP. / TP. / MP.). *)
From Coq Require Import ZArith QArith Qcanon List Bool Lia Permutation.
From ScaredV Require Import Lib.QcSum Run.Compare Model.Accum Generated.ClassConsts Model.Classes.
From ScaredV Require Model.Partitioned Model.Template Model.Mia Proofs.Partitioned Proofs.Template Proofs.Mia.
Import ListNotations.
Module PP := ScaredV.Proofs.Partitioned.
Module TP := ScaredV.Proofs.Template.
Module MP := ScaredV.Proofs.Mia.
Local Open Scope Qc_scope.

(* ================================================================ permutations of a class list *)
Definition is_perm (n : nat) (sigma : list nat) : Prop := Permutation sigma (seq 0 n).

Lemma is_perm_length n sigma : is_perm n sigma -> length sigma = n.
Proof. intros H. apply Permutation_length in H. rewrite seq_length in H. exact H. Qed.

Lemma is_perm_lt n sigma i : is_perm n sigma -> In i sigma -> (i < n)%nat.
Proof. intros H Hi. apply (Permutation_in _ H) in Hi. apply in_seq in Hi. lia. Qed.

Lemma is_perm_nth_lt n sigma k : is_perm n sigma -> (k < n)%nat -> (nth k sigma 0%nat < n)%nat.
Proof.
  intros H Hk. apply (is_perm_lt n sigma); [exact H|]. apply nth_In. rewrite (is_perm_length _ _ H). exact Hk.
Qed.

Lemma is_permb_sound n sigma : is_permb n sigma = true -> is_perm n sigma.
Proof.
  unfold is_permb, is_perm. intros H. apply andb_true_iff in H. destruct H as [Hl Hall]. apply Nat.eqb_eq in Hl.
  apply Permutation_sym. apply NoDup_Permutation_bis; [apply seq_NoDup|rewrite seq_length; lia|].
  intros i Hi. rewrite forallb_forall in Hall. specialize (Hall i Hi). apply existsb_exists in Hall.
  destruct Hall as (j & Hj & E). apply Nat.eqb_eq in E. subst j. exact Hj.
Qed.

Lemma map_nth_seq_id {A} (d : A) (l : list A) : map (fun i => nth i l d) (seq 0 (length l)) = l.
Proof.
  induction l as [|x l IH]; [reflexivity|]. cbn [length seq map nth]. f_equal.
  rewrite <- seq_shift, map_map. exact IH.
Qed.

Lemma permute_length {A} (d : A) sigma l : length (permute d sigma l) = length sigma.
Proof. unfold permute. apply map_length. Qed.

(* the permuted list is a permutation of the list *)
Lemma permute_Permutation {A} (d : A) sigma l : is_perm (length l) sigma -> Permutation (permute d sigma l) l.
Proof.
  intros H. unfold permute.
  apply Permutation_trans with (l' := map (fun i => nth i l d) (seq 0 (length l))); [apply Permutation_map; exact H|].
  rewrite map_nth_seq_id. apply Permutation_refl.
Qed.

Lemma nth_error_permute {A} (d : A) sigma l k i : nth_error sigma k = Some i -> nth_error (permute d sigma l) k = Some (nth i l d).
Proof. intros H. unfold permute. rewrite nth_error_map, H. reflexivity. Qed.

Lemma nth_error_permute_in {A} (d : A) sigma (l : list A) k i :
  is_perm (length l) sigma -> nth_error sigma k = Some i ->
  nth_error (permute d sigma l) k = nth_error l i.
Proof.
  intros Hp H. rewrite (nth_error_permute d sigma l k i H). symmetry. apply nth_error_nth'.
  apply (is_perm_lt _ sigma); [exact Hp|]. apply (nth_error_In _ _ H).
Qed.

Lemma map_seq_sigma {B} (sigma : list nat) (f : nat -> B) (g : nat -> B) :
  (forall k i, nth_error sigma k = Some i -> f k = g i) -> map f (seq 0 (length sigma)) = map g sigma.
Proof. intros H. apply (PP.map_seq_nth_error sigma f g 0). exact H. Qed.

(* ---------------------------------------------------------------- sums are invariant under permutation *)
Lemma qsum_perm l l' : Permutation l l' -> qsum l = qsum l'.
Proof.
  induction 1 as [|x l l' _ IH|x y l|l l' l'' _ IH1 _ IH2]; [reflexivity| | |congruence].
  - rewrite !qsum_cons, IH. reflexivity.
  - rewrite !qsum_cons. ring.
Qed.

Lemma qlen_perm {A} (l l' : list A) : Permutation l l' -> qlen l = qlen l'.
Proof.
  induction 1 as [|x l l' _ IH|x y l|l l' l'' _ IH1 _ IH2]; [reflexivity| | |congruence].
  - rewrite !qlen_cons, IH. reflexivity.
  - rewrite !qlen_cons. reflexivity.
Qed.

Lemma qsum_map_perm {A} (f : A -> Qc) l l' : Permutation l l' -> qsum (map f l) = qsum (map f l').
Proof. intros H. apply qsum_perm, Permutation_map, H. Qed.

Lemma concat_perm {A} (l l' : list (list A)) : Permutation l l' -> Permutation (concat l) (concat l').
Proof.
  induction 1 as [|x l l' _ IH|x y l|l l' l'' _ IH1 _ IH2]; cbn [concat].
  - apply Permutation_refl.
  - apply Permutation_app_head. exact IH.
  - rewrite !app_assoc. apply Permutation_app_tail. apply Permutation_app_comm.
  - eapply Permutation_trans; eassumption.
Qed.

Lemma filter_map_comm {A B} (p : B -> bool) (f : A -> B) l : filter p (map f l) = map f (filter (fun x => p (f x)) l).
Proof. induction l as [|x l IH]; [reflexivity|]. cbn [map filter]. destruct (p (f x)); cbn [map]; rewrite IH; reflexivity. Qed.

(* sum over the positions read through a permutation = sum over the positions *)
Lemma qsum_sigma (f : nat -> Qc) n sigma : is_perm n sigma ->
  qsum (map (fun k => f (nth k sigma 0%nat)) (seq 0 n)) = qsum (map f (seq 0 n)).
Proof.
  intros H. rewrite <- (is_perm_length _ _ H) at 1.
  rewrite (map_seq_sigma sigma (fun k => f (nth k sigma 0%nat)) f).
  - apply qsum_map_perm. exact H.
  - intros k i Hk. rewrite (nth_error_nth _ _ 0%nat Hk). reflexivity.
Qed.

(* ================================================================ generic: rows that contribute nothing can be dropped, whatever the batching *)
Section DropRows.
  Variables (St R : Type).
  Variable zero : St.
  Variable plus : St -> St -> St.
  Variable contrib : R -> St.
  Variable keep : R -> bool.
  Hypothesis plus_zero_l : forall a, plus zero a = a.
  Hypothesis dropped_is_zero : forall r, keep r = false -> contrib r = zero.

  Lemma bsum_filter b : bsum St R zero plus contrib (filter keep b) = bsum St R zero plus contrib b.
  Proof.
    unfold bsum. induction b as [|r b IH]; [reflexivity|]. cbn [filter fold_right].
    destruct (keep r) eqn:E; cbn [fold_right]; rewrite IH; [reflexivity|].
    rewrite (dropped_is_zero r E), plus_zero_l. reflexivity.
  Qed.

  Lemma feed_filter batches : forall s,
    feed St R zero plus contrib s (map (filter keep) batches) = feed St R zero plus contrib s batches.
  Proof.
    unfold feed. induction batches as [|b bs IH]; intros s; [reflexivity|]. cbn [map fold_left].
    unfold upd at 2 4. rewrite bsum_filter. apply IH.
  Qed.
End DropRows.

Lemma declared_In parts v : declared parts v = true <-> In v parts.
Proof.
  unfold declared. rewrite existsb_exists. split.
  - intros (c & Hc & E). apply Z.eqb_eq in E. subst c. exact Hc.
  - intros H. exists v. split; [exact H|apply Z.eqb_refl].
Qed.

Lemma declared_false parts v : declared parts v = false -> ~ In v parts.
Proof. intros H Hin. apply declared_In in Hin. congruence. Qed.

Lemma value_at_true parts k v : value_at parts k v = true <-> nth_error parts k = Some v.
Proof.
  unfold value_at. destruct (nth_error parts k) as [c|]; [|split; discriminate].
  rewrite Z.eqb_eq. split; [intros ->; reflexivity|intros H; injection H as ->; reflexivity].
Qed.

Lemma NoDup_nth_error_eq {A} (l : list A) i j x : NoDup l -> nth_error l i = Some x -> nth_error l j = Some x -> i = j.
Proof.
  intros Hnd Hi Hj. rewrite NoDup_nth_error in Hnd. apply Hnd; [|congruence]. apply nth_error_Some. congruence.
Qed.

Lemma all_in_range_perm parts parts' : Permutation parts' parts -> PP.all_in_range parts -> PP.all_in_range parts'.
Proof. intros Hp H c Hc. apply H. apply (Permutation_in _ Hp). exact Hc. Qed.

(* ================================================================ ANOVA / NICV / SNR  (Model/Partitioned.v) *)

(* a trace adds (1, x, x^2) to the class whose declared value equals its intermediate value, and nothing anywhere else *)
Theorem part_contributes_to_own_class_only parts (r : P.row) : NoDup parts -> PP.all_in_range parts ->
  (forall k c, nth_error parts k = Some c ->
     nth k (P.contrib parts r) P.t0 = if Z.eqb (fst r) c then (1, snd r, snd r * snd r) else P.t0)
  /\ (forall k, (length parts <= k)%nat -> nth k (P.contrib parts r) P.t0 = P.t0)
  /\ (~ In (fst r) parts -> P.contrib parts r = P.st_zero).
Proof.
  intros Hnd Hr. split; [|split].
  - intros k c Hk. rewrite PP.nth_contrib.
    destruct (Z.eqb_spec (fst r) c) as [E|E].
    + rewrite E. rewrite (proj2 (PP.lut_spec parts c k Hnd Hr) Hk), Nat.eqb_refl. reflexivity.
    + destruct (P.lut parts (fst r)) as [j|] eqn:L; [|reflexivity].
      destruct (Nat.eqb_spec k j) as [->|]; [|reflexivity]. exfalso. apply E.
      apply (PP.lut_spec parts (fst r) j Hnd Hr) in L. congruence.
  - intros k Hk. rewrite PP.nth_contrib. destruct (P.lut parts (fst r)) as [j|] eqn:L; [|reflexivity].
    apply PP.lut_lt in L. destruct (Nat.eqb_spec k j) as [->|]; [lia|reflexivity].
  - intros H. unfold P.contrib. rewrite (PP.lut_undeclared parts (fst r) H). reflexivity.
Qed.

(* traces carrying an undeclared value have no effect at all: the accumulators are those of the declared traces, for every batching *)
Theorem part_undeclared_no_effect parts (batches : list (list P.row)) :
  P.feed_batches parts (map (filter (fun r => declared parts (fst r))) batches) = P.feed_batches parts batches.
Proof.
  unfold P.feed_batches. apply feed_filter; [exact PP.st_plus_zero_l|].
  intros r H. unfold P.contrib. rewrite (PP.lut_undeclared parts (fst r) (declared_false _ _ H)). reflexivity.
Qed.

(* the accumulated triple of the class declared with value c *)
Lemma accu_nth_value parts rows k c : NoDup parts -> PP.all_in_range parts -> nth_error parts k = Some c ->
  nth k (P.accu parts rows) P.t0 = P.triple_of (P.group rows c).
Proof. intros Hnd Hr Hk. rewrite PP.accu_nth, (PP.class_samples_group parts rows k c Hnd Hr Hk). reflexivity. Qed.

(* accumulators are permuted by sigma *)
Theorem part_accumulators_permuted parts sigma batches : NoDup parts -> PP.all_in_range parts -> is_perm (length parts) sigma ->
  let parts' := permute 0%Z sigma parts in
  P.classes (length parts') (P.feed_batches parts' batches)
  = permute P.t0 sigma (P.classes (length parts) (P.feed_batches parts batches)).
Proof.
  intros Hnd Hr Hp parts'.
  assert (Hperm : Permutation parts' parts) by (apply permute_Permutation; exact Hp).
  assert (Hnd' : NoDup parts') by (apply (Permutation_NoDup (Permutation_sym Hperm)); exact Hnd).
  assert (Hr' : PP.all_in_range parts') by (apply (all_in_range_perm _ _ Hperm Hr)).
  rewrite !PP.feed_batches_concat. unfold P.classes.
  replace (length parts') with (length sigma) by (unfold parts'; rewrite permute_length; reflexivity).
  unfold permute at 1.
  apply map_seq_sigma. intros k i Hk.
  assert (Hi : (i < length parts)%nat) by (apply (is_perm_lt _ sigma i Hp), (nth_error_In _ _ Hk)).
  assert (Hk' : nth_error parts' k = Some (nth i parts 0%Z)) by (apply nth_error_permute; exact Hk).
  assert (Hi' : nth_error parts i = Some (nth i parts 0%Z)) by (apply nth_error_nth'; exact Hi).
  rewrite (accu_nth_value parts' _ k _ Hnd' Hr' Hk').
  rewrite (nth_indep _ P.t0 (nth i (P.accu parts (concat batches)) P.t0)) by (rewrite map_length, seq_length; exact Hi).
  rewrite (map_nth (fun k0 => nth k0 (P.accu parts (concat batches)) P.t0) (seq 0 (length parts)) i i).
  rewrite seq_nth by exact Hi. cbn [Nat.add].
  rewrite (accu_nth_value parts _ i _ Hnd Hr Hi'). reflexivity.
Qed.

(* ---- the statistics are symmetric functions of the groups *)
Lemma qmean_concat_perm (gs gs' : list (list Qc)) : Permutation gs gs' -> qmean (concat gs) = qmean (concat gs').
Proof.
  intros H. unfold qmean. rewrite (qsum_perm _ _ (concat_perm _ _ H)), (qlen_perm _ _ (concat_perm _ _ H)). reflexivity.
Qed.

Lemma spec_metric_perm m gs gs' : Permutation gs gs' -> P.spec_metric m gs = P.spec_metric m gs'.
Proof.
  intros H.
  pose proof (qlen_perm _ _ H) as EK.
  pose proof (qlen_perm _ _ (concat_perm _ _ H)) as EN.
  pose proof (qmean_concat_perm _ _ H) as EM.
  pose proof (qsum_perm _ _ (concat_perm _ _ H)) as ES.
  destruct m; cbn [P.spec_metric].
  - unfold P.F_stat, P.ss_between, P.ss_within. rewrite EK, EN, EM.
    rewrite (qsum_map_perm ssd gs gs' H).
    rewrite (qsum_map_perm (fun g => qlen g * sq (qmean g - qmean (concat gs'))) gs gs' H). reflexivity.
  - unfold P.nicv_def, P.total_var, P.var_of_class_means. rewrite EN, EM.
    assert (ED : ssd (concat gs) = ssd (concat gs')).
    { unfold ssd. rewrite EM. apply qsum_map_perm. apply concat_perm. exact H. }
    rewrite ED.
    rewrite (qsum_map_perm (fun g => qlen g / qlen (concat gs') * sq (qmean g - qmean (concat gs'))) gs gs' H). reflexivity.
  - unfold P.snr_def, P.snr_noise, P.snr_signal. rewrite EK, EM.
    rewrite (qsum_map_perm (fun g => ssd g / qlen g) gs gs' H).
    rewrite (qsum_map_perm (fun g => sq (qmean g - qmean (concat gs'))) gs gs' H). reflexivity.
Qed.

(* a value is USED when some trace carries it *)
Definition used (rows : list P.row) (c : Z) : bool := P.nonempty (P.group rows c).

Lemma groups_as_used parts rows : P.groups parts rows = map (P.group rows) (filter (used rows) parts).
Proof. unfold P.groups, used. apply filter_map_comm. Qed.

(* the result depends only on the SET of declared values that are used *)
Theorem part_result_depends_on_used_values m parts parts' batches :
  NoDup parts -> NoDup parts' -> PP.all_in_range parts -> PP.all_in_range parts' ->
  (forall c, used (concat batches) c = true -> (In c parts <-> In c parts')) ->
  P.run_entry m parts batches = P.run_entry m parts' batches.
Proof.
  intros Hnd Hnd' Hr Hr' Hsame.
  rewrite (PP.run_entry_is_spec m parts batches Hnd Hr), (PP.run_entry_is_spec m parts' batches Hnd' Hr').
  apply spec_metric_perm. rewrite !groups_as_used. apply Permutation_map.
  apply NoDup_Permutation; [apply NoDup_filter; exact Hnd|apply NoDup_filter; exact Hnd'|].
  intros c. rewrite !filter_In. split; intros [Hin Hu]; (split; [apply (Hsame c Hu); exact Hin|exact Hu]).
Qed.

Corollary part_permute_classes m parts parts' batches : NoDup parts -> PP.all_in_range parts -> Permutation parts parts' ->
  P.run_entry m parts' batches = P.run_entry m parts batches.
Proof.
  intros Hnd Hr Hp. symmetry. apply part_result_depends_on_used_values; [exact Hnd|apply (Permutation_NoDup Hp Hnd)|exact Hr| |].
  - apply (all_in_range_perm _ _ (Permutation_sym Hp) Hr).
  - intros c _. split; apply Permutation_in; [exact Hp|apply Permutation_sym; exact Hp].
Qed.

Corollary part_permute_classes_sigma m parts sigma batches : NoDup parts -> PP.all_in_range parts -> is_perm (length parts) sigma ->
  P.run_entry m (permute 0%Z sigma parts) batches = P.run_entry m parts batches.
Proof.
  intros Hnd Hr Hp. apply part_permute_classes; [exact Hnd|exact Hr|]. apply Permutation_sym, permute_Permutation. exact Hp.
Qed.

Lemma used_true rows c : used rows c = true -> exists r, In r rows /\ fst r = c.
Proof.
  unfold used, P.group. intros H.
  destruct (filter (fun r => Z.eqb (fst r) c) rows) as [|r l] eqn:E; [discriminate|].
  assert (Hin : In r (filter (fun r => Z.eqb (fst r) c) rows)) by (rewrite E; left; reflexivity).
  apply filter_In in Hin. destruct Hin as [Hin Hc]. apply Z.eqb_eq in Hc. exists r. split; assumption.
Qed.

(* declaring extra values that no trace carries, anywhere in the list and in any order, changes no result *)
Corollary part_unused_superset_invariant m parts parts' batches :
  NoDup parts -> NoDup parts' -> PP.all_in_range parts -> PP.all_in_range parts' ->
  incl parts parts' ->
  (forall c, In c parts' -> ~ In c parts -> forall r, In r (concat batches) -> fst r <> c) ->
  P.run_entry m parts' batches = P.run_entry m parts batches.
Proof.
  intros Hnd Hnd' Hr Hr' Hincl Hun. symmetry. apply part_result_depends_on_used_values; try assumption.
  intros c Hu. split; [apply Hincl|]. intros Hc'.
  destruct (in_dec Z.eq_dec c parts) as [Hc|Hc]; [exact Hc|exfalso].
  destruct (used_true _ _ Hu) as (r & Hin & E). exact (Hun c Hc' Hc r Hin E).
Qed.

(* ================================================================ template building  (Model/Template.v) *)
Lemma in_class_value_at parts k (r : T.brow) : NoDup parts -> T.in_class parts k r = value_at parts k (fst r).
Proof.
  intros Hnd. unfold T.in_class.
  destruct (T.class_index parts (fst r)) as [k'|] eqn:E.
  - apply (TP.class_index_spec parts (fst r) k' Hnd) in E.
    destruct (Nat.eqb_spec k' k) as [->|Hne].
    + symmetry. apply value_at_true. exact E.
    + destruct (value_at parts k (fst r)) eqn:V; [|reflexivity]. apply value_at_true in V.
      exfalso. apply Hne. apply (NoDup_nth_error_eq parts k' k (fst r) Hnd E V).
  - apply TP.class_index_none in E. destruct (value_at parts k (fst r)) eqn:V; [|reflexivity].
    apply value_at_true in V. exfalso. apply E. apply (nth_error_In _ _ V).
Qed.

(* the building traces the code files under class k are those whose value EQUALS the value declared at position k *)
Lemma class_rows_by_value parts k rows : NoDup parts -> T.class_rows parts k rows = vclass_rows parts k rows.
Proof.
  intros Hnd. unfold T.class_rows, vclass_rows. f_equal. apply filter_ext. intros r. apply in_class_value_at. exact Hnd.
Qed.

Theorem tmpl_contributes_to_own_class_only parts (r : T.brow) : NoDup parts ->
  (forall k c, nth_error parts k = Some c ->
     T.cget (T.contrib parts r) k = if Z.eqb (fst r) c then T.mkc 1 (snd r) (T.outer (snd r) (snd r)) else T.czero)
  /\ (forall k, (length parts <= k)%nat -> T.cget (T.contrib parts r) k = T.czero)
  /\ (~ In (fst r) parts -> T.contrib parts r = T.st_zero).
Proof.
  intros Hnd. split; [|split].
  - intros k c Hk. rewrite TP.cget_contrib, (in_class_value_at parts k r Hnd). unfold value_at. rewrite Hk. reflexivity.
  - intros k Hk. rewrite TP.cget_contrib, (in_class_value_at parts k r Hnd). unfold value_at.
    rewrite (proj2 (nth_error_None parts k) Hk). reflexivity.
  - intros H. unfold T.contrib. rewrite (proj2 (TP.class_index_none parts (fst r)) H). reflexivity.
Qed.

Theorem tmpl_undeclared_no_effect parts (s : T.st) (batches : list (list T.brow)) :
  T.feedB parts s (map (filter (fun r => declared parts (fst r))) batches) = T.feedB parts s batches.
Proof.
  unfold T.feedB. apply feed_filter; [exact TP.st_plus_zero_l|].
  intros r H. unfold T.contrib. rewrite (proj2 (TP.class_index_none parts (fst r)) (declared_false _ _ H)). reflexivity.
Qed.

Lemma vclass_rows_permute parts sigma k i rows : is_perm (length parts) sigma -> nth_error sigma k = Some i ->
  vclass_rows (permute 0%Z sigma parts) k rows = vclass_rows parts i rows.
Proof.
  intros Hp Hk. unfold vclass_rows, value_at. rewrite (nth_error_permute_in 0%Z sigma parts k i Hp Hk). reflexivity.
Qed.

Section BuildPermuted.
  Variable parts : list Z.
  Variable sigma : list nat.
  Hypothesis Hnd : NoDup parts.
  Hypothesis Hp : is_perm (length parts) sigma.
  Let parts' := permute 0%Z sigma parts.

  Lemma parts'_perm : Permutation parts' parts.
  Proof. apply permute_Permutation. exact Hp. Qed.
  Lemma parts'_nodup : NoDup parts'.
  Proof. apply (Permutation_NoDup (Permutation_sym parts'_perm)). exact Hnd. Qed.
  Lemma parts'_length : length parts' = length parts.
  Proof. apply Permutation_length. exact parts'_perm. Qed.

  Variable rows : list T.brow.
  Let s := T.bsumB parts rows.
  Let s' := T.bsumB parts' rows.

  Lemma class_rows_permuted k i : nth_error sigma k = Some i -> T.class_rows parts' k rows = T.class_rows parts i rows.
  Proof.
    intros Hk. rewrite (class_rows_by_value parts' k rows parts'_nodup), (class_rows_by_value parts i rows Hnd).
    apply vclass_rows_permute; assumption.
  Qed.

  Lemma cnt_permuted k i : nth_error sigma k = Some i -> T.cnt s' k = T.cnt s i.
  Proof. intros Hk. unfold s, s'. rewrite !TP.cnt_bsum, (class_rows_permuted k i Hk). reflexivity. Qed.
  Lemma csum_permuted k i j : nth_error sigma k = Some i -> T.csum s' k j = T.csum s i j.
  Proof. intros Hk. unfold s, s'. rewrite !TP.csum_bsum, (class_rows_permuted k i Hk). reflexivity. Qed.
  Lemma cxx_permuted k i a b : nth_error sigma k = Some i -> T.cxx s' k a b = T.cxx s i a b.
  Proof. intros Hk. unfold s, s'. rewrite !TP.cxx_bsum, (class_rows_permuted k i Hk). reflexivity. Qed.

  Lemma template_permuted k i j : nth_error sigma k = Some i -> T.template s' k j = T.template s i j.
  Proof. intros Hk. unfold T.template. rewrite (csum_permuted k i j Hk), (cnt_permuted k i Hk). reflexivity. Qed.

  Lemma cov_term_permuted k i a b : nth_error sigma k = Some i -> T.cov_term s' k a b = T.cov_term s i a b.
  Proof.
    intros Hk. unfold T.cov_term.
    rewrite (cxx_permuted k i a b Hk), !(template_permuted k i _ Hk), (cnt_permuted k i Hk). reflexivity.
  Qed.

  (* the pooled covariance is a sum over the classes: unchanged *)
  Lemma pooled_permuted a b : T.pooled parts' s' a b = T.pooled parts s a b.
  Proof.
    unfold T.pooled, T.tabulate. rewrite (qlen_perm _ _ parts'_perm), parts'_length. f_equal.
    rewrite <- (qsum_sigma (fun k => T.cov_term s k a b) (length parts) sigma Hp).
    apply qsum_map_ext. intros k Hk. apply in_seq in Hk. apply cov_term_permuted.
    apply nth_error_nth'. rewrite (is_perm_length _ _ Hp). lia.
  Qed.

  Lemma comp_permuted S :
    fst (T.comp parts' S s') = permute [] sigma (fst (T.comp parts S s))
    /\ snd (T.comp parts' S s') = snd (T.comp parts S s).
  Proof.
    unfold T.comp. cbn [fst snd]. split.
    - unfold T.tabulate at 1. rewrite parts'_length, <- (is_perm_length _ _ Hp). unfold permute.
      apply map_seq_sigma. intros k i Hk.
      assert (Hi : (i < length parts)%nat) by (apply (is_perm_lt _ sigma i Hp), (nth_error_In _ _ Hk)).
      rewrite <- (is_perm_length _ _ Hp) in Hi.
      rewrite (TP.nth_tabulate _ _ _ _ Hi). unfold T.tabulate. apply map_ext. intros j. apply template_permuted. exact Hk.
    - unfold T.tabulate. apply map_ext. intros a. apply map_ext. intros b. apply pooled_permuted.
  Qed.
End BuildPermuted.

(* accumulators and templates are permuted by sigma, the pooled covariance is unchanged — for every batching *)
Theorem tmpl_build_permuted parts sigma S batches : NoDup parts -> is_perm (length parts) sigma ->
  let parts' := permute 0%Z sigma parts in
  let s := T.feedB parts T.st_zero batches in
  let s' := T.feedB parts' T.st_zero batches in
  (forall k i, nth_error sigma k = Some i ->
     T.cnt s' k = T.cnt s i /\ (forall j, T.csum s' k j = T.csum s i j) /\ (forall a b, T.cxx s' k a b = T.cxx s i a b)
     /\ (forall j, T.template s' k j = T.template s i j))
  /\ fst (T.comp parts' S s') = permute [] sigma (fst (T.comp parts S s))
  /\ snd (T.comp parts' S s') = snd (T.comp parts S s).
Proof.
  intros Hnd Hp. cbv zeta. rewrite !TP.feedB_concat. split; [|apply comp_permuted; assumption].
  intros k i Hk. split; [apply cnt_permuted; assumption|]. split; [intros j; apply csum_permuted; assumption|].
  split; [intros a b; apply cxx_permuted; assumption|intros j; apply template_permuted; assumption].
Qed.

(* ================================================================ template matching *)
Lemma quad_ext Pm S (d d' : nat -> Qc) : (forall j, (j < S)%nat -> d j = d' j) -> T.quad Pm S d = T.quad Pm S d'.
Proof.
  intros H. unfold T.quad, T.tabulate. apply qsum_map_ext. intros i Hi. apply in_seq in Hi.
  apply qsum_map_ext. intros j Hj. apply in_seq in Hj. rewrite (H i), (H j) by lia. reflexivity.
Qed.

Lemma mget_permute (Tm : T.mat) sigma k i j : nth_error sigma k = Some i -> T.mget (permute [] sigma Tm) k j = T.mget Tm i j.
Proof.
  intros Hk. unfold T.mget, T.mrow. f_equal. apply nth_error_nth. apply (nth_error_permute [] sigma Tm k i Hk).
Qed.

(* TemplateAttack: candidate k under the permuted list is matched against the template that candidate sigma(k) had *)
Lemma maha_static_permuted Pm S (Tm : T.mat) parts sigma r k i : is_perm (length parts) sigma -> nth_error sigma k = Some i ->
  T.maha Pm S (permute [] sigma Tm) T.Static (permute 0%Z sigma parts) r k = T.maha Pm S Tm T.Static parts r i.
Proof.
  intros Hp Hk. unfold T.maha, T.sel.
  assert (Hk' : (k < length (permute 0%Z sigma parts))%nat).
  { rewrite permute_length. apply nth_error_Some. congruence. }
  assert (Hi : (i < length parts)%nat) by (apply (is_perm_lt _ sigma i Hp), (nth_error_In _ _ Hk)).
  rewrite (proj2 (Nat.ltb_lt _ _) Hk'), (proj2 (Nat.ltb_lt _ _) Hi).
  apply quad_ext. intros j _. unfold T.dev. rewrite (mget_permute Tm sigma k i j Hk). reflexivity.
Qed.

(* TemplateDPAAttack: the hypothesis value selects the template of the class declared with that value, wherever it is declared *)
Lemma maha_dpa_permuted Pm S (Tm : T.mat) parts sigma r g : NoDup parts -> is_perm (length parts) sigma ->
  T.maha Pm S (permute [] sigma Tm) T.Dpa (permute 0%Z sigma parts) r g = T.maha Pm S Tm T.Dpa parts r g.
Proof.
  intros Hnd Hp. unfold T.maha, T.sel. destruct (nth_error (fst r) g) as [v|]; [|reflexivity].
  pose proof (permute_Permutation 0%Z sigma parts Hp) as Hperm.
  destruct (T.class_index (permute 0%Z sigma parts) v) as [k|] eqn:E.
  - apply TP.class_index_sound in E.
    destruct (nth_error sigma k) as [i|] eqn:Hk.
    + rewrite (nth_error_permute_in 0%Z sigma parts k i Hp Hk) in E.
      rewrite (proj2 (TP.class_index_spec parts v i Hnd) E).
      apply quad_ext. intros j _. unfold T.dev. rewrite (mget_permute Tm sigma k i j Hk). reflexivity.
    + exfalso. apply nth_error_None in Hk. assert (k < length (permute 0%Z sigma parts))%nat by (apply nth_error_Some; congruence).
      rewrite permute_length in H. lia.
  - apply TP.class_index_none in E.
    assert (E' : T.class_index parts v = None).
    { apply TP.class_index_none. intros Hin. apply E. apply (Permutation_in _ (Permutation_sym Hperm)). exact Hin. }
    rewrite E'. reflexivity.
Qed.

Lemma spec_score_ext Pm S Tm m parts Tm' m' parts' rows g g' :
  (forall r, T.maha Pm S Tm' m' parts' r g' = T.maha Pm S Tm m parts r g) ->
  T.spec_score Pm S Tm' m' parts' rows g' = T.spec_score Pm S Tm m parts rows g.
Proof.
  intros H. unfold T.spec_score, T.mean_distance. do 3 f_equal. apply qsum_map_ext. intros r _. apply H.
Qed.

(* the scores, end to end: build on [bb], match on [mb], for ANY pseudo-inverse function *)
Definition attack_scores (pinv : T.mat -> T.mat) (m : T.mode) (parts : list Z) (S G : nat)
                         (bb : list (list T.brow)) (mb : list (list T.mrowt)) : T.vec :=
  let TC := T.comp parts S (T.feedB parts T.st_zero bb) in
  T.mcomp G (T.feedM (pinv (snd TC)) S (fst TC) m parts G T.mst_zero mb).

Theorem static_scores_permuted pinv parts sigma S bb mb k i : NoDup parts -> is_perm (length parts) sigma ->
  nth_error sigma k = Some i ->
  T.vget (attack_scores pinv T.Static (permute 0%Z sigma parts) S (length parts) bb mb) k
  = T.vget (attack_scores pinv T.Static parts S (length parts) bb mb) i.
Proof.
  intros Hnd Hp Hk. unfold attack_scores.
  destruct (tmpl_build_permuted parts sigma S bb Hnd Hp) as (_ & HT & HC). cbv zeta in HT, HC. rewrite HT, HC.
  assert (Hkn : (k < length parts)%nat) by (rewrite <- (is_perm_length _ _ Hp); apply nth_error_Some; congruence).
  assert (Hi : (i < length parts)%nat) by (apply (is_perm_lt _ sigma i Hp), (nth_error_In _ _ Hk)).
  rewrite !TP.feedM_concat, !TP.mcomp_bsumM by assumption.
  apply spec_score_ext. intros r. apply maha_static_permuted; assumption.
Qed.

Theorem dpa_scores_equal pinv parts sigma S G bb mb g : NoDup parts -> is_perm (length parts) sigma -> (g < G)%nat ->
  T.vget (attack_scores pinv T.Dpa (permute 0%Z sigma parts) S G bb mb) g
  = T.vget (attack_scores pinv T.Dpa parts S G bb mb) g.
Proof.
  intros Hnd Hp Hg. unfold attack_scores.
  destruct (tmpl_build_permuted parts sigma S bb Hnd Hp) as (_ & HT & HC). cbv zeta in HT, HC. rewrite HT, HC.
  rewrite !TP.feedM_concat, !TP.mcomp_bsumM by assumption.
  apply spec_score_ext. intros r. apply maha_dpa_permuted; assumption.
Qed.

(* matching: which template a candidate is compared with *)
Theorem match_selects_own_class parts (r : T.mrowt) g : NoDup parts ->
  (forall k, T.sel T.Dpa parts r g = Some k <-> exists v, nth_error (fst r) g = Some v /\ nth_error parts k = Some v)
  /\ (forall v, nth_error (fst r) g = Some v -> ~ In v parts -> T.sel T.Dpa parts r g = None)
  /\ (forall k, T.sel T.Static parts r g = Some k <-> (k = g /\ (g < length parts)%nat)).
Proof.
  intros Hnd. split; [|split].
  - intros k. split.
    + apply TP.sel_dpa_by_value_thm.
    + intros (v & Hv & Hk). apply (TP.sel_dpa_declared_thm parts r g v k Hnd Hv Hk).
  - intros v Hv Hn. unfold T.sel. rewrite Hv. apply TP.class_index_none. exact Hn.
  - intros k. unfold T.sel. destruct (Nat.ltb_spec g (length parts)) as [L|L].
    + split; [intros H; injection H as <-; split; [reflexivity|exact L]|intros [-> _]; reflexivity].
    + split; [discriminate|intros [_ H]; lia].
Qed.

(* ================================================================ MIA  (Model/Mia.v) *)
Lemma tag_hits_vhits edges parts (r : M.row) b k c : NoDup parts -> nth_error parts k = Some c ->
  M.tag_hits b k (M.row_tag edges parts r) = vhits edges b c r.
Proof.
  intros Hnd Hk. unfold M.tag_hits, M.row_tag, vhits.
  destruct (M.bin_spec edges (fst r)) as [b'|]; [|reflexivity].
  destruct (M.class_of parts (snd r)) as [k'|] eqn:E.
  - apply (MP.class_of_nodup parts (snd r) k' Hnd) in E. f_equal.
    destruct (Nat.eqb_spec k' k) as [->|Hne].
    + symmetry. apply Z.eqb_eq. congruence.
    + symmetry. apply Z.eqb_neq. intros Ec. apply Hne. subst c. apply (NoDup_nth_error_eq parts k' k (snd r) Hnd E Hk).
  - apply MP.class_of_undeclared in E. symmetry. rewrite andb_false_iff. right. apply Z.eqb_neq.
    intros Ec. apply E. subst c. apply (nth_error_In _ _ Hk).
Qed.

Section MiaByValue.
  Variable edges : list Qc.
  Variable est : Qc -> nat.
  Hypothesis Hlen : (2 <= length edges)%nat.
  Hypothesis Hinc : M.increasing edges.
  Variable parts : list Z.
  Hypothesis Hnd : NoDup parts.

  (* a trace adds 1 to the cell (bin of its sample, class whose declared value equals its intermediate value), nothing elsewhere *)
  Theorem mia_contributes_to_own_class_only (r : M.row) :
    (forall b k c, nth_error parts k = Some c ->
       M.get (M.contrib edges est parts r) b k = if vhits edges b c r then 1%Z else 0%Z)
    /\ (forall b k, (length parts <= k)%nat -> M.get (M.contrib edges est parts r) b k = 0%Z)
    /\ (~ In (snd r) parts -> M.contrib edges est parts r = M.st_zero).
  Proof.
    split; [|split].
    - intros b k c Hk. rewrite (MP.get_contrib edges est parts Hlen Hinc), (tag_hits_vhits edges parts r b k c Hnd Hk). reflexivity.
    - intros b k Hk. rewrite (MP.get_contrib edges est parts Hlen Hinc). unfold M.tag_hits, M.row_tag.
      destruct (M.bin_spec edges (fst r)) as [b'|]; [|reflexivity].
      destruct (M.class_of parts (snd r)) as [k'|] eqn:E; [|reflexivity].
      apply (MP.class_of_nodup parts (snd r) k' Hnd) in E.
      assert (k' < length parts)%nat by (apply nth_error_Some; congruence).
      destruct (Nat.eqb_spec k' k) as [->|]; [lia|]. rewrite andb_false_r. reflexivity.
    - intros H. unfold M.contrib. rewrite (proj2 (MP.class_of_undeclared parts (snd r)) H).
      destruct (M.bin_index edges est (fst r)); reflexivity.
  Qed.

  (* every cell holds the number of traces in its bin whose value is the value declared for its class *)
  Lemma hist_by_value rows b k c : nth_error parts k = Some c ->
    M.get (M.hist_bsum edges est parts rows) b k = vhist edges rows b c.
  Proof.
    intros Hk. rewrite (MP.hist_correct_thm edges est parts Hlen Hinc). unfold M.hist_spec, M.count_tags, vhist. do 2 f_equal.
    induction rows as [|r rows IH]; [reflexivity|]. cbn [map filter].
    rewrite (tag_hits_vhits edges parts r b k c Hnd Hk). destruct (vhits edges b c r); cbn [length]; rewrite IH; reflexivity.
  Qed.
End MiaByValue.

Theorem mia_undeclared_no_effect edges est parts (batches : list (list M.row)) :
  M.hist_feed edges est parts (map (filter (fun r => declared parts (snd r))) batches) = M.hist_feed edges est parts batches.
Proof.
  unfold M.hist_feed. apply feed_filter; [exact MP.st_plus_zero_l|].
  intros r H. unfold M.contrib. rewrite (proj2 (MP.class_of_undeclared parts (snd r)) (declared_false _ _ H)).
  destruct (M.bin_index edges est (fst r)); reflexivity.
Qed.

(* ---- the formula of _compute over abstract class indices *)
Lemma q_mi_code_abs phi t bs vs : M.q_mi_code phi t bs vs = a_mi nat phi (fun b v => qz (M.get t b v)) bs vs.
Proof. reflexivity. Qed.
Lemma q_total_abs t bs vs : M.q_total t bs vs = a_total nat (fun b v => qz (M.get t b v)) bs vs.
Proof. reflexivity. Qed.

Section MiAbsProofs.
  Variable phi : Qc -> Qc.

  (* one term of the sum over the classes, with the per-bin totals and the grand total as parameters *)
  Definition mi_term {A} (cnt : nat -> A -> Qc) (bs : list nat) (cbf : nat -> Qc) (tot : Qc) (v : A) : Qc :=
    qsum (map (fun b => phi (a_nz (cnt b v / a_nz (a_cv A cnt bs v))) - phi (a_nz (cbf b / a_nz tot))) bs)
    * (a_cv A cnt bs v / tot).

  Lemma a_mi_terms {A} cnt bs vs : a_mi A phi cnt bs vs = qsum (map (mi_term cnt bs (a_cb A cnt vs) (a_total A cnt bs vs)) vs).
  Proof. reflexivity. Qed.

  Lemma mi_term_ext {A} (cnt cnt' : nat -> A -> Qc) bs cbf cbf' tot v :
    (forall b, In b bs -> cnt b v = cnt' b v) -> (forall b, In b bs -> cbf b = cbf' b) ->
    mi_term cnt bs cbf tot v = mi_term cnt' bs cbf' tot v.
  Proof.
    intros H1 H2. unfold mi_term.
    assert (Hcv : a_cv A cnt bs v = a_cv A cnt' bs v) by (apply qsum_map_ext; exact H1).
    rewrite Hcv. f_equal. apply qsum_map_ext. intros b Hb. rewrite (H1 b Hb), (H2 b Hb). reflexivity.
  Qed.

  Lemma a_total_ext {A} (cnt cnt' : nat -> A -> Qc) bs vs :
    (forall b v, In b bs -> In v vs -> cnt b v = cnt' b v) -> a_total A cnt bs vs = a_total A cnt' bs vs.
  Proof. intros H. apply qsum_map_ext. intros b Hb. apply qsum_map_ext. intros v Hv. apply H; assumption. Qed.

  Lemma a_mi_ext {A} (cnt cnt' : nat -> A -> Qc) bs vs :
    (forall b v, In b bs -> In v vs -> cnt b v = cnt' b v) -> a_mi A phi cnt bs vs = a_mi A phi cnt' bs vs.
  Proof.
    intros H. rewrite !a_mi_terms, (a_total_ext cnt cnt' bs vs H). apply qsum_map_ext. intros v Hv.
    apply mi_term_ext; [intros b Hb; apply H; assumption|].
    intros b Hb. apply qsum_map_ext. intros v' Hv'. apply H; assumption.
  Qed.

  Lemma a_cb_map {A B} (f : B -> A) (cnt : nat -> A -> Qc) vs b : a_cb A cnt (map f vs) b = a_cb B (fun b v => cnt b (f v)) vs b.
  Proof. unfold a_cb. rewrite map_map. reflexivity. Qed.

  Lemma a_total_map {A B} (f : B -> A) (cnt : nat -> A -> Qc) bs vs :
    a_total A cnt bs (map f vs) = a_total B (fun b v => cnt b (f v)) bs vs.
  Proof. apply qsum_map_ext. intros b _. apply a_cb_map. Qed.

  Lemma a_mi_map {A B} (f : B -> A) (cnt : nat -> A -> Qc) bs vs :
    a_mi A phi cnt bs (map f vs) = a_mi B phi (fun b v => cnt b (f v)) bs vs.
  Proof.
    rewrite !a_mi_terms, map_map, (a_total_map f cnt bs vs). apply qsum_map_ext. intros v _.
    unfold mi_term. f_equal. apply qsum_map_ext. intros b _. rewrite a_cb_map. reflexivity.
  Qed.

  Lemma a_cb_perm {A} (cnt : nat -> A -> Qc) vs vs' b : Permutation vs vs' -> a_cb A cnt vs b = a_cb A cnt vs' b.
  Proof. intros H. apply qsum_map_perm. exact H. Qed.

  Lemma a_total_perm {A} (cnt : nat -> A -> Qc) bs vs vs' : Permutation vs vs' -> a_total A cnt bs vs = a_total A cnt bs vs'.
  Proof. intros H. apply qsum_map_ext. intros b _. apply a_cb_perm. exact H. Qed.

  (* the result is a sum over the classes: invariant under any permutation of the class list *)
  Lemma a_mi_perm {A} (cnt : nat -> A -> Qc) bs vs vs' : Permutation vs vs' -> a_mi A phi cnt bs vs = a_mi A phi cnt bs vs'.
  Proof.
    intros H. rewrite !a_mi_terms, (a_total_perm cnt bs vs vs' H).
    transitivity (qsum (map (mi_term cnt bs (a_cb A cnt vs') (a_total A cnt bs vs')) vs)).
    - apply qsum_map_ext. intros v _. apply mi_term_ext; [reflexivity|]. intros b _. apply a_cb_perm. exact H.
    - apply qsum_map_perm. exact H.
  Qed.

  (* a class without any trace in the bins contributes nothing and changes no total *)
  Lemma a_drop {A} (cnt : nat -> A -> Qc) bs vs1 v0 vs2 : (forall b, In b bs -> cnt b v0 = 0) ->
    a_total A cnt bs (vs1 ++ v0 :: vs2) = a_total A cnt bs (vs1 ++ vs2)
    /\ a_mi A phi cnt bs (vs1 ++ v0 :: vs2) = a_mi A phi cnt bs (vs1 ++ vs2).
  Proof.
    intros Hc.
    assert (Hcv0 : a_cv A cnt bs v0 = 0) by (apply MP.qsum_map_zero; exact Hc).
    assert (Hcb : forall b, In b bs -> a_cb A cnt (vs1 ++ v0 :: vs2) b = a_cb A cnt (vs1 ++ vs2) b).
    { intros b Hb. unfold a_cb. rewrite MP.qsum_map_insert, (Hc b Hb). ring. }
    assert (Ht : a_total A cnt bs (vs1 ++ v0 :: vs2) = a_total A cnt bs (vs1 ++ vs2)) by (apply qsum_map_ext; exact Hcb).
    split; [exact Ht|].
    rewrite !a_mi_terms, Ht, MP.qsum_map_insert.
    assert (Z0 : mi_term cnt bs (a_cb A cnt (vs1 ++ v0 :: vs2)) (a_total A cnt bs (vs1 ++ vs2)) v0 = 0).
    { unfold mi_term. rewrite Hcv0. unfold Qcdiv. ring. }
    rewrite Z0, Qcplus_0_l. apply qsum_map_ext. intros v _. apply mi_term_ext; [reflexivity|exact Hcb].
  Qed.

  Definition a_used {A} (cnt : nat -> A -> Qc) (bs : list nat) (v : A) : bool := negb (forallb (fun b => Qc_eq_bool (cnt b v) 0) bs).

  Lemma a_unused_zero {A} (cnt : nat -> A -> Qc) bs v : a_used cnt bs v = false -> forall b, In b bs -> cnt b v = 0.
  Proof.
    unfold a_used. intros H b Hb. apply negb_false_iff in H. rewrite forallb_forall in H.
    apply Qc_eq_bool_correct. apply H. exact Hb.
  Qed.

  Lemma a_filter_used {A} (cnt : nat -> A -> Qc) bs vs :
    a_total A cnt bs vs = a_total A cnt bs (filter (a_used cnt bs) vs)
    /\ a_mi A phi cnt bs vs = a_mi A phi cnt bs (filter (a_used cnt bs) vs).
  Proof.
    assert (G : forall pre, a_total A cnt bs (pre ++ vs) = a_total A cnt bs (pre ++ filter (a_used cnt bs) vs)
                            /\ a_mi A phi cnt bs (pre ++ vs) = a_mi A phi cnt bs (pre ++ filter (a_used cnt bs) vs)).
    { induction vs as [|v vs IH]; intros pre; [split; reflexivity|]. cbn [filter].
      destruct (a_used cnt bs v) eqn:E.
      - replace (pre ++ v :: vs) with ((pre ++ [v]) ++ vs) by (rewrite <- app_assoc; reflexivity).
        replace (pre ++ v :: filter (a_used cnt bs) vs) with ((pre ++ [v]) ++ filter (a_used cnt bs) vs) by (rewrite <- app_assoc; reflexivity).
        apply IH.
      - destruct (a_drop cnt bs pre v vs (a_unused_zero cnt bs v E)) as [E1 E2]. rewrite E1, E2. apply IH. }
    exact (G []).
  Qed.
End MiAbsProofs.

(* ---- MIA's result is the mutual information over the declared VALUES *)
Theorem mia_is_value_spec phi edges est parts batches : (2 <= length edges)%nat -> M.increasing edges -> NoDup parts ->
  M.comp phi (M.nbins edges) (length parts) (M.hist_feed edges est parts batches) = mi_values phi edges parts (concat batches).
Proof.
  intros Hlen Hinc Hnd. rewrite MP.hist_feed_concat. unfold M.comp, mi_values. cbv zeta.
  rewrite q_total_abs, q_mi_code_abs.
  set (t := M.hist_bsum edges est parts (concat batches)).
  set (cz := fun (b : nat) (c : Z) => qz (vhist edges (concat batches) b c)).
  assert (Hcell : forall b k, In b (seq 0 (M.nbins edges)) -> In k (seq 0 (length parts)) ->
                   qz (M.get t b k) = cz b (nth k parts 0%Z)).
  { intros b k _ Hk. apply in_seq in Hk. unfold cz, t. f_equal.
    apply (hist_by_value edges est Hlen Hinc parts Hnd). apply nth_error_nth'. lia. }
  rewrite (a_total_ext _ (fun b k => cz b (nth k parts 0%Z)) _ _ Hcell).
  rewrite (a_mi_ext phi _ (fun b k => cz b (nth k parts 0%Z)) _ _ Hcell).
  rewrite <- (a_total_map (fun k => nth k parts 0%Z) cz), <- (a_mi_map phi (fun k => nth k parts 0%Z) cz).
  rewrite map_nth_seq_id. reflexivity.
Qed.

Definition vused (edges : list Qc) (rows : list M.row) (c : Z) : bool :=
  a_used (fun b c => qz (vhist edges rows b c)) (seq 0 (M.nbins edges)) c.

(* the result depends only on the SET of declared values that occur (with a sample inside the edges) *)
Theorem mi_values_depends_on_used phi edges vals vals' rows : NoDup vals -> NoDup vals' ->
  (forall c, vused edges rows c = true -> (In c vals <-> In c vals')) ->
  mi_values phi edges vals rows = mi_values phi edges vals' rows.
Proof.
  intros Hnd Hnd' Hsame. unfold mi_values. cbv zeta.
  set (cz := fun (b : nat) (c : Z) => qz (vhist edges rows b c)). set (bs := seq 0 (M.nbins edges)).
  destruct (a_filter_used phi cz bs vals) as [T1 M1]. destruct (a_filter_used phi cz bs vals') as [T2 M2].
  assert (Hperm : Permutation (filter (a_used cz bs) vals) (filter (a_used cz bs) vals')).
  { apply NoDup_Permutation; [apply NoDup_filter; exact Hnd|apply NoDup_filter; exact Hnd'|].
    intros c. rewrite !filter_In. split; intros [Hin Hu]; (split; [apply (Hsame c Hu); exact Hin|exact Hu]). }
  rewrite T1, T2, M1, M2, (a_total_perm cz bs _ _ Hperm), (a_mi_perm phi cz bs _ _ Hperm). reflexivity.
Qed.

Lemma filter_vhits_not_carried edges (rows : list M.row) b c :
  existsb (fun r : M.row => Z.eqb (snd r) c) rows = false -> filter (vhits edges b c) rows = [].
Proof.
  induction rows as [|r rows IH]; intros E; [reflexivity|]. cbn [existsb] in E. apply orb_false_iff in E. destruct E as [E1 E2].
  cbn [filter]. unfold vhits at 1. rewrite E1. destruct (M.bin_spec edges (fst r)); [rewrite andb_false_r|]; apply IH; exact E2.
Qed.

Lemma vused_carried edges rows c : vused edges rows c = true -> exists r, In r rows /\ snd r = c.
Proof.
  unfold vused, a_used. intros H. apply negb_true_iff in H.
  destruct (existsb (fun r : M.row => Z.eqb (snd r) c) rows) eqn:E.
  - apply existsb_exists in E. destruct E as (r & Hr & Ec). apply Z.eqb_eq in Ec. exists r. split; assumption.
  - exfalso. assert (Hall : forallb (fun b => Qc_eq_bool (qz (vhist edges rows b c)) 0) (seq 0 (M.nbins edges)) = true); [|congruence].
    apply forallb_forall. intros b _. unfold vhist. rewrite (filter_vhits_not_carried edges rows b c E). reflexivity.
Qed.

Section MiaClassLists.
  Variable phi : Qc -> Qc.
  Variable edges : list Qc.
  Variable est : Qc -> nat.
  Hypothesis Hlen : (2 <= length edges)%nat.
  Hypothesis Hinc : M.increasing edges.

  Definition mia_result (parts : list Z) (batches : list (list M.row)) : option Qc :=
    M.comp phi (M.nbins edges) (length parts) (M.hist_feed edges est parts batches).

  Theorem mia_result_depends_on_used_values parts parts' batches : NoDup parts -> NoDup parts' ->
    (forall c, vused edges (concat batches) c = true -> (In c parts <-> In c parts')) ->
    mia_result parts batches = mia_result parts' batches.
  Proof.
    intros Hnd Hnd' Hsame. unfold mia_result.
    rewrite (mia_is_value_spec phi edges est parts batches Hlen Hinc Hnd), (mia_is_value_spec phi edges est parts' batches Hlen Hinc Hnd').
    apply mi_values_depends_on_used; assumption.
  Qed.

  Corollary mia_permute_classes parts parts' batches : NoDup parts -> Permutation parts parts' ->
    mia_result parts' batches = mia_result parts batches.
  Proof.
    intros Hnd Hp. symmetry. apply mia_result_depends_on_used_values; [exact Hnd|apply (Permutation_NoDup Hp Hnd)|].
    intros c _. split; apply Permutation_in; [exact Hp|apply Permutation_sym; exact Hp].
  Qed.

  Corollary mia_unused_superset_invariant parts parts' batches : NoDup parts -> NoDup parts' -> incl parts parts' ->
    (forall c, In c parts' -> ~ In c parts -> forall r, In r (concat batches) -> snd r <> c) ->
    mia_result parts' batches = mia_result parts batches.
  Proof.
    intros Hnd Hnd' Hincl Hun. symmetry. apply mia_result_depends_on_used_values; try assumption.
    intros c Hu. split; [apply Hincl|]. intros Hc'.
    destruct (in_dec Z.eq_dec c parts) as [Hc|Hc]; [exact Hc|exfalso].
    destruct (vused_carried _ _ _ Hu) as (r & Hin & E). exact (Hun c Hc' Hc r Hin E).
  Qed.

  (* the joint histogram is permuted by sigma along its class axis *)
  Theorem mia_accumulators_permuted parts sigma batches b k i : NoDup parts -> is_perm (length parts) sigma ->
    nth_error sigma k = Some i ->
    M.get (M.hist_feed edges est (permute 0%Z sigma parts) batches) b k = M.get (M.hist_feed edges est parts batches) b i.
  Proof.
    intros Hnd Hp Hk. rewrite !MP.hist_feed_concat.
    pose proof (permute_Permutation 0%Z sigma parts Hp) as Hperm.
    assert (Hnd' : NoDup (permute 0%Z sigma parts)) by (apply (Permutation_NoDup (Permutation_sym Hperm)); exact Hnd).
    assert (Hi : (i < length parts)%nat) by (apply (is_perm_lt _ sigma i Hp), (nth_error_In _ _ Hk)).
    rewrite (hist_by_value edges est Hlen Hinc _ Hnd' _ b k (nth i parts 0%Z)) by (apply nth_error_permute; exact Hk).
    rewrite (hist_by_value edges est Hlen Hinc _ Hnd _ b i (nth i parts 0%Z)) by (apply nth_error_nth'; exact Hi).
    reflexivity.
  Qed.
End MiaClassLists.

(* ================================================================ automatic class set *)
Local Open Scope Z_scope.

Lemma in_zrange v n : In v (zrange n) <-> 0 <= v < n.
Proof. unfold zrange. rewrite PP.in_zseq. lia. Qed.

(* over the GENERATED constants and tabulation: for every first-batch maximum 0..255 the class set produced by the real
   _initialize (the tabulation) is the one of the rule read from the source, is not refused, and is larger than the maximum *)
Definition auto_entry_ok (mx : Z) : bool :=
  match table_size mx with
  | Some n => (mx <? n) && (auto_size mx =? n) && negb (auto_refused mx 0)
  | None => false
  end.

Lemma auto_table_ok : forallb auto_entry_ok (zrange 256) = true.
Proof. vm_compute. reflexivity. Qed.

(* the refusal of negative data is a lower bound test (`mindata < bound` or `mindata <= bound`): larger minima pass as well *)
Lemma refuse_below_shape : auto_refuse_below_op = CmpLt \/ auto_refuse_below_op = CmpLe.
Proof. (left; reflexivity) || (right; reflexivity). Qed.

Theorem auto_contains_first_batch_thm mx : 0 <= mx <= 255 ->
  auto_classes mx 0 = Some (auto_classes_tab mx)
  /\ forall mn v, 0 <= mn -> mn <= v <= mx -> auto_classes mx mn = Some (auto_classes_tab mx) /\ In v (auto_classes_tab mx).
Proof.
  intros Hmx. pose proof auto_table_ok as H. rewrite forallb_forall in H.
  specialize (H mx (proj2 (in_zrange mx 256) ltac:(lia))). unfold auto_entry_ok in H.
  unfold auto_classes_tab. destruct (table_size mx) as [n|]; [|discriminate].
  apply andb_true_iff in H. destruct H as [H Href]. apply andb_true_iff in H. destruct H as [Hlt Hsz].
  apply Z.ltb_lt in Hlt. apply Z.eqb_eq in Hsz. apply negb_true_iff in Href.
  assert (A0 : auto_classes mx 0 = Some (zrange n)) by (unfold auto_classes; rewrite Href, Hsz; reflexivity).
  split; [exact A0|]. intros mn v Hmn Hv. split; [|apply in_zrange; lia].
  unfold auto_classes, auto_refused in *. apply orb_false_iff in Href. destruct Href as [Ha Hb]. rewrite Ha. cbn [orb].
  assert (Hb' : cmp_holds auto_refuse_below_op mn auto_refuse_below = false).
  { revert Hb. destruct refuse_below_shape as [E|E]; rewrite E; unfold cmp_holds; intros Hb.
    - apply Z.ltb_ge in Hb. apply Z.ltb_ge. lia.
    - apply Z.leb_gt in Hb. apply Z.leb_gt. lia. }
  rewrite Hb', Hsz. reflexivity.
Qed.

(* the rule as it was before commit 150a6f0 (`if maxdata <= r: break`) misses the maximum itself at 0, 9 and 64 *)
Definition auto_classes_as_found (mx : Z) : list Z := zrange (rule_size CmpLe [0; 9; 64; 256] mx).

Lemma auto_refuted_thm :
  auto_classes_as_found 0 = [] /\ ~ In 0 (auto_classes_as_found 0)
  /\ ~ In 9 (auto_classes_as_found 9) /\ ~ In 64 (auto_classes_as_found 64)
  /\ In 8 (auto_classes_as_found 9) /\ In 63 (auto_classes_as_found 64).
Proof.
  unfold auto_classes_as_found. split; [reflexivity|]. split; [intros []|].
  split; [intros H; apply in_zrange in H; vm_compute in H; destruct H as [_ H]; discriminate H|].
  split; [intros H; apply in_zrange in H; vm_compute in H; destruct H as [_ H]; discriminate H|].
  split; apply in_zrange; vm_compute; split; (discriminate || reflexivity).
Qed.

(* the constants of the hand-written models are the ones of the source (T-tie of Model/Partitioned.v's literals) *)
Lemma consts_agree_thm :
  lut_size = P.lut_size /\ lut_fill = (-1) /\ auto_ls = P.auto_ls /\ auto_break_op = CmpLt
  /\ kernel_switch_op = CmpGt /\ kernel_switch = 9
  /\ (forall mx, 0 <= mx <= 255 -> auto_classes_tab mx = zrange (P.auto_size mx)).
Proof.
  repeat (split; [reflexivity|]). intros mx Hmx.
  assert (H : forallb (fun mx => zlist_eqb (auto_classes_tab mx) (zrange (P.auto_size mx))) (zrange 256) = true) by (vm_compute; reflexivity).
  rewrite forallb_forall in H. specialize (H mx (proj2 (in_zrange mx 256) ltac:(lia))).
  revert H. generalize (auto_classes_tab mx) (zrange (P.auto_size mx)). clear.
  induction l as [|x l IH]; intros [|y l'] H; cbn in H; try discriminate; [reflexivity|].
  apply andb_true_iff in H. destruct H as [H1 H2]. apply Z.eqb_eq in H1. subst y. f_equal. apply IH. exact H2.
Qed.

Local Close Scope Z_scope.
Local Open Scope Qc_scope.

(* ================================================================ the property theorems, all class-based analyses together *)

Theorem contributes_to_own_class_only_thm :
  (* ANOVA / NICV / SNR : (counters, sum, sum_square) of one (word, sample) entry *)
  (forall parts (r : P.row), NoDup parts -> PP.all_in_range parts ->
     (forall k c, nth_error parts k = Some c ->
        nth k (P.contrib parts r) P.t0 = if Z.eqb (fst r) c then (1, snd r, snd r * snd r) else P.t0)
     /\ (forall k, (length parts <= k)%nat -> nth k (P.contrib parts r) P.t0 = P.t0)
     /\ (~ In (fst r) parts -> P.contrib parts r = P.st_zero))
  (* MIA : the joint histogram of one (word, sample) entry *)
  /\ (forall edges est parts (r : M.row), (2 <= length edges)%nat -> M.increasing edges -> NoDup parts ->
     (forall b k c, nth_error parts k = Some c ->
        M.get (M.contrib edges est parts r) b k = if vhits edges b c r then 1%Z else 0%Z)
     /\ (forall b k, (length parts <= k)%nat -> M.get (M.contrib edges est parts r) b k = 0%Z)
     /\ (~ In (snd r) parts -> M.contrib edges est parts r = M.st_zero))
  (* template building : (count, sum x, sum x (x) x) per class *)
  /\ (forall parts (r : T.brow), NoDup parts ->
     (forall k c, nth_error parts k = Some c ->
        T.cget (T.contrib parts r) k = if Z.eqb (fst r) c then T.mkc 1 (snd r) (T.outer (snd r) (snd r)) else T.czero)
     /\ (forall k, (length parts <= k)%nat -> T.cget (T.contrib parts r) k = T.czero)
     /\ (~ In (fst r) parts -> T.contrib parts r = T.st_zero))
  (* template matching : the template a candidate is compared with *)
  /\ (forall parts (r : T.mrowt) g, NoDup parts ->
     (forall k, T.sel T.Dpa parts r g = Some k <-> exists v, nth_error (fst r) g = Some v /\ nth_error parts k = Some v)
     /\ (forall v, nth_error (fst r) g = Some v -> ~ In v parts -> T.sel T.Dpa parts r g = None)
     /\ (forall k, T.sel T.Static parts r g = Some k <-> (k = g /\ (g < length parts)%nat))).
Proof.
  split; [exact part_contributes_to_own_class_only|]. split; [|split; [exact tmpl_contributes_to_own_class_only|exact match_selects_own_class]].
  intros edges est parts r Hlen Hinc Hnd. apply mia_contributes_to_own_class_only; assumption.
Qed.

Theorem undeclared_no_effect_thm :
  (forall parts (batches : list (list P.row)),
     P.feed_batches parts batches = P.feed_batches parts (map (filter (fun r => declared parts (fst r))) batches))
  /\ (forall edges est parts (batches : list (list M.row)),
     M.hist_feed edges est parts batches = M.hist_feed edges est parts (map (filter (fun r => declared parts (snd r))) batches))
  /\ (forall parts (s : T.st) (batches : list (list T.brow)),
     T.feedB parts s batches = T.feedB parts s (map (filter (fun r => declared parts (fst r))) batches)).
Proof.
  split; [intros; symmetry; apply part_undeclared_no_effect|].
  split; [intros; symmetry; apply mia_undeclared_no_effect|intros; symmetry; apply tmpl_undeclared_no_effect].
Qed.

Theorem permute_classes_thm : forall (parts : list Z) (sigma : list nat),
  NoDup parts -> is_perm (length parts) sigma ->
  let parts' := permute 0%Z sigma parts in
  (* ANOVA / NICV / SNR: accumulators permuted, results equal *)
  (PP.all_in_range parts -> forall (batches : list (list P.row)),
     P.classes (length parts') (P.feed_batches parts' batches) = permute P.t0 sigma (P.classes (length parts) (P.feed_batches parts batches))
     /\ forall m, P.run_entry m parts' batches = P.run_entry m parts batches)
  (* MIA: joint histogram permuted along the class axis, result equal *)
  /\ (forall phi edges est (batches : list (list M.row)), (2 <= length edges)%nat -> M.increasing edges ->
     (forall b k i, nth_error sigma k = Some i ->
        M.get (M.hist_feed edges est parts' batches) b k = M.get (M.hist_feed edges est parts batches) b i)
     /\ M.comp phi (M.nbins edges) (length parts') (M.hist_feed edges est parts' batches)
        = M.comp phi (M.nbins edges) (length parts) (M.hist_feed edges est parts batches))
  (* template building: accumulators and templates permuted, pooled covariance equal *)
  /\ (forall S (bb : list (list T.brow)),
     let s := T.feedB parts T.st_zero bb in let s' := T.feedB parts' T.st_zero bb in
     (forall k i, nth_error sigma k = Some i ->
        T.cnt s' k = T.cnt s i /\ (forall j, T.csum s' k j = T.csum s i j) /\ (forall a b, T.cxx s' k a b = T.cxx s i a b)
        /\ (forall j, T.template s' k j = T.template s i j))
     /\ fst (T.comp parts' S s') = permute [] sigma (fst (T.comp parts S s))
     /\ snd (T.comp parts' S s') = snd (T.comp parts S s))
  (* template matching, end to end for any pseudo-inverse function: static scores permuted, template-DPA scores equal *)
  /\ (forall pinv S bb mb,
     (forall k i, nth_error sigma k = Some i ->
        T.vget (attack_scores pinv T.Static parts' S (length parts) bb mb) k
        = T.vget (attack_scores pinv T.Static parts S (length parts) bb mb) i)
     /\ (forall G g, (g < G)%nat ->
        T.vget (attack_scores pinv T.Dpa parts' S G bb mb) g = T.vget (attack_scores pinv T.Dpa parts S G bb mb) g)).
Proof.
  intros parts sigma Hnd Hp parts'.
  assert (Hperm : Permutation parts' parts) by (apply permute_Permutation; exact Hp).
  split; [|split; [|split]].
  - intros Hr batches. split; [apply part_accumulators_permuted; assumption|].
    intros m. apply part_permute_classes_sigma; assumption.
  - intros phi edges est batches Hlen Hinc. split.
    + intros b k i Hk. apply mia_accumulators_permuted; assumption.
    + apply (mia_permute_classes phi edges est Hlen Hinc parts parts' batches Hnd). apply Permutation_sym. exact Hperm.
  - intros S bb. apply tmpl_build_permuted; assumption.
  - intros pinv S bb mb. split.
    + intros k i Hk. apply static_scores_permuted; assumption.
    + intros G g Hg. apply dpa_scores_equal; assumption.
Qed.

Theorem unused_superset_invariant_thm : forall (parts parts' : list Z),
  NoDup parts -> NoDup parts' -> incl parts parts' ->
  (PP.all_in_range parts -> PP.all_in_range parts' -> forall m (batches : list (list P.row)),
     (forall c, In c parts' -> ~ In c parts -> forall r, In r (concat batches) -> fst r <> c) ->
     P.run_entry m parts' batches = P.run_entry m parts batches)
  /\ (forall phi edges est (batches : list (list M.row)), (2 <= length edges)%nat -> M.increasing edges ->
     (forall c, In c parts' -> ~ In c parts -> forall r, In r (concat batches) -> snd r <> c) ->
     M.comp phi (M.nbins edges) (length parts') (M.hist_feed edges est parts' batches)
     = M.comp phi (M.nbins edges) (length parts) (M.hist_feed edges est parts batches)).
Proof.
  intros parts parts' Hnd Hnd' Hincl. split.
  - intros Hr Hr' m batches Hun. apply part_unused_superset_invariant; assumption.
  - intros phi edges est batches Hlen Hinc Hun.
    apply (mia_unused_superset_invariant phi edges est Hlen Hinc parts parts' batches); assumption.
Qed.

(* ================================================================ the evaluation-friendly form of the MIA spec is the spec *)
Lemma map_combine_map {A B C} (f : A -> B) (g : A * B -> C) (l : list A) :
  map g (combine l (map f l)) = map (fun a => g (a, f a)) l.
Proof. induction l as [|a l IH]; [reflexivity|]. cbn [map combine]. rewrite IH. reflexivity. Qed.

Lemma a_mi_fast_eq {A} phi (cnt : nat -> A -> Qc) bs vs : a_mi_fast A phi cnt bs vs = a_mi A phi cnt bs vs.
Proof.
  unfold a_mi_fast, a_mi. cbv zeta. apply qsum_map_ext. intros v _. f_equal.
  rewrite (map_combine_map (fun b => phi (a_nz (a_cb A cnt vs b / a_nz (a_total A cnt bs vs))))
                           (fun be => phi (a_nz (cnt (fst be) v / a_nz (a_cv A cnt bs v))) - snd be) bs).
  reflexivity.
Qed.

Lemma vhist_tags edges (rows : list M.row) b c :
  length (filter (fun t : option nat * Z => match fst t with Some b' => Nat.eqb b' b && Z.eqb (snd t) c | None => false end)
                 (map (fun r : M.row => (M.bin_spec edges (fst r), snd r)) rows))
  = length (filter (vhits edges b c) rows).
Proof.
  induction rows as [|r rows IH]; [reflexivity|]. cbn [map filter fst snd]. unfold vhits at 1.
  destruct (M.bin_spec edges (fst r)) as [b'|]; [destruct (Nat.eqb b' b && Z.eqb (snd r) c)|]; cbn [length]; rewrite IH; reflexivity.
Qed.

Theorem mi_values_fast_eq phi edges vals rows : mi_values_fast phi edges vals rows = mi_values phi edges vals rows.
Proof.
  unfold mi_values_fast, mi_values. cbv zeta. rewrite a_mi_fast_eq.
  rewrite (a_total_ext _ (fun b c => qz (vhist edges rows b c))) by (intros; unfold vhist; rewrite vhist_tags; reflexivity).
  rewrite (a_mi_ext phi _ (fun b c => qz (vhist edges rows b c))) by (intros; unfold vhist; rewrite vhist_tags; reflexivity).
  reflexivity.
Qed.
