(* Proofs/Update.v — lemmas for property C16 (a rejected update leaves a distinguisher exactly as it was). *)
From Coq Require Import ZArith QArith List Bool String Lia.
From ScaredV Require Import Run.Compare Model.Accum Generated.UpdateOrder Model.Update.
Import ListNotations.
Local Open Scope list_scope.
Local Open Scope nat_scope.

(* ------------------------------------------------------------------ static facts, by computation over the finite tables *)
Lemma order_tied_true : order_tied = true.
Proof. vm_compute. reflexivity. Qed.

Lemma source_methods_safe_true : source_methods_safe = true.
Proof. vm_compute. reflexivity. Qed.

Lemma all_shapes_ok_repaired : all_shapes_ok repaired = true.
Proof. vm_compute. reflexivity. Qed.

Lemma in_all_families f : In f all_families.
Proof. destruct f; cbn; tauto. Qed.

Lemma in_all_valuations vl : In vl all_valuations.
Proof. destruct vl as [[|] [|] [|]]; cbn; tauto. Qed.

Lemma shape_ok_repaired f vl : shape_ok repaired f vl = true.
Proof.
  pose proof all_shapes_ok_repaired as H. unfold all_shapes_ok in H.
  rewrite forallb_forall in H. specialize (H f (in_all_families f)).
  rewrite forallb_forall in H. exact (H vl (in_all_valuations vl)).
Qed.

Lemma raise_precedes_heap_write_thm f vl : safe_order false (select vl (order repaired f)) = true.
Proof.
  pose proof (shape_ok_repaired f vl) as H. unfold shape_ok in H.
  apply andb_true_iff in H. destruct H as [H _]. apply andb_true_iff in H. apply H.
Qed.

Lemma safe_order_late l : forall w, safe_order w l = true -> late_points w l = [].
Proof.
  induction l as [|e l IH]; intros w H; [reflexivity|].
  destruct w, e; cbn in H |- *; try discriminate; rewrite (IH _ H); reflexivity.
Qed.

Lemma no_late_raising_point_thm f vl : late_points false (select vl (order repaired f)) = [].
Proof. apply safe_order_late. apply raise_precedes_heap_write_thm. Qed.

(* ------------------------------------------------------------------ list helpers *)
Lemma set_nth_length {A} k (x : A) l : List.length (set_nth k x l) = List.length l.
Proof. revert k. induction l as [|y l IH]; intros [|k]; cbn; auto. Qed.

Lemma nth_set_nth_eq {A} k (x d : A) l : k < List.length l -> nth k (set_nth k x l) d = x.
Proof. revert k. induction l as [|y l IH]; intros [|k] H; cbn in *; try lia; auto. apply IH. lia. Qed.

Lemma nth_set_nth_neq {A} k j (x d : A) l : j <> k -> nth j (set_nth k x l) d = nth j l d.
Proof.
  revert k j. induction l as [|y l IH]; intros [|k] [|j] H; cbn; auto; try congruence; try (apply IH; congruence).
Qed.

Lemma firstn_app_le {A} n (l r : list A) : n <= List.length l -> firstn n (l ++ r) = firstn n l.
Proof.
  intros H. rewrite firstn_app. replace (n - List.length l) with 0 by lia. cbn. apply app_nil_r.
Qed.

Section UpdateProofs.
  Variables (C R O : Type).
  Variable czero : C.
  Variable cplus : C -> C -> C.
  Variable ccontrib : nat -> R -> C.
  Variable ccomp : Z -> list C -> O.

  Notation batch := (batch R).
  Notation ostate := (ostate C).
  Notation mstate := (mstate C).
  Notation step := (step C R czero cplus ccontrib).
  Notation exec := (exec C R czero cplus ccontrib).
  Notation finish := (finish C).
  Notation update := (update C R czero cplus ccontrib).
  Notation process := (process C R czero cplus ccontrib).
  Notation run_container := (run_container C R czero cplus ccontrib).
  Notation accepted_prefix := (accepted_prefix C R czero cplus ccontrib).
  Notation compute := (compute C O czero ccomp).
  Notation apply_op := (apply_op C R O czero cplus ccontrib ccomp).
  Notation run_hist := (run_hist C R O czero cplus ccontrib ccomp).
  Notation kept := (kept C R O czero cplus ccontrib ccomp).
  Notation heap_write := (heap_write C R czero cplus ccontrib).
  Notation kernel_write := (kernel_write C R czero cplus ccontrib).
  Notation outcome := Update.outcome.

  (* ---------------------------------------------------------------- bound accumulators *)
  Lemma all_bound_spec n s : all_bound n s = true <-> forall k, k < n -> bound k s = true.
  Proof.
    unfold all_bound. rewrite forallb_forall. split.
    - intros H k Hk. apply H. apply in_seq. lia.
    - intros H k Hk. apply in_seq in Hk. apply H. lia.
  Qed.

  Lemma do_bind_accs f a (b : batch) s : accs (do_bind R f a b s) = accs s.
  Proof. destruct a; reflexivity. Qed.

  Lemma heap_write_bound k (b : batch) s h : bound k s = true -> exists h', heap_write k b s h = Some h'.
  Proof. unfold bound, heap_write. destruct (nth k (accs s) None); [eauto|discriminate]. Qed.

  Lemma kernel_write_bound ks (b : batch) s : forall h,
    (forall k, In k ks -> bound k s = true) -> exists h', kernel_write ks b s h = Some h'.
  Proof.
    induction ks as [|k ks IH]; intros h H; cbn; [eauto|].
    destruct (heap_write_bound k b s h (H k (or_introl eq_refl))) as [h' ->].
    apply IH. intros j Hj. apply H. now right.
  Qed.

  (* ---------------------------------------------------------------- phase 2: only in-place writes, nothing can raise *)
  Lemma ok2_no_alloc n k l : ok2 n l = true -> existsb (effect_is_alloc k) l = false.
  Proof.
    induction l as [|e l IH]; intros H; cbn in *; [reflexivity|].
    destruct e; try discriminate; cbn; try (apply IH; exact H).
    apply andb_true_iff in H. apply IH, H.
  Qed.

  Lemma exec_ok2 f (b : batch) l : forall m m' o,
    ok2 (nacc f) l = true -> all_bound (nacc f) (bnd (ms C m)) = true ->
    exec f b l m = (m', o) ->
    o = Accepted /\ bnd (ms C m') = bnd (ms C m) /\ snapshot C m' = snapshot C m.
  Proof.
    induction l as [|e l IH]; intros m m' o Hok Hb He; cbn in He.
    - injection He as <- <-. auto.
    - cbn [ok2] in Hok. destruct e; try discriminate; cbn [step] in He.
      + apply andb_true_iff in Hok. destruct Hok as [Hk Hok]. apply Nat.ltb_lt in Hk.
        destruct (heap_write_bound k b (bnd (ms C m)) (heap (ms C m))) as [h' Hh].
        { apply all_bound_spec with (n := nacc f); assumption. }
        rewrite Hh in He. apply IH in He; auto.
      + destruct (kernel_write_bound (seq 0 (nacc f)) b (bnd (ms C m)) (heap (ms C m))) as [h' Hh].
        { intros k Hk. apply in_seq in Hk. apply all_bound_spec with (n := nacc f); [assumption|lia]. }
        rewrite Hh in He. apply IH in He; auto.
      + apply IH in He; auto.
      + apply IH in He; auto.
      + apply IH in He; auto.
  Qed.

  (* ---------------------------------------------------------------- phase 1: after the snapshot, before the first write *)
  (* invariant: the cells that existed at the snapshot are untouched; every accumulator is bound or still to be allocated *)
  Definition inv1 (n : nat) (l : list effect) (m : mstate) (bs : binds) (hl : nat) (H0 : list C) : Prop :=
    snapshot C m = Some (bs, hl) /\ firstn hl (heap (ms C m)) = H0 /\ hl <= List.length (heap (ms C m))
    /\ List.length (accs (bnd (ms C m))) = n
    /\ forall k, k < n -> bound k (bnd (ms C m)) = true \/ existsb (effect_is_alloc k) l = true.

  Lemma inv1_same_state n e l m m1 bs hl H0 :
    inv1 n (e :: l) m bs hl H0 -> (forall k, effect_is_alloc k e = false) ->
    snapshot C m1 = snapshot C m -> heap (ms C m1) = heap (ms C m) -> accs (bnd (ms C m1)) = accs (bnd (ms C m)) ->
    inv1 n l m1 bs hl H0.
  Proof.
    intros (Hs & Hf & Hl & Ha & Hb) Hna E1 E2 E3. unfold inv1, bound in *. rewrite E1, E2, E3.
    repeat split; auto. intros k Hk. destruct (Hb k Hk) as [Hx|Hx]; [now left|].
    cbn in Hx. rewrite Hna in Hx. now right.
  Qed.

  Lemma exec_ok1 f (b : batch) l : forall m bs hl H0,
    ok1 (nacc f) l = true -> inv1 (nacc f) l m bs hl H0 ->
    forall m' o, exec f b l m = (m', o) ->
    match o with
    | Rejected _ => snapshot C m' = Some (bs, hl) /\ firstn hl (heap (ms C m')) = H0
    | Accepted => List.length (accs (bnd (ms C m'))) = nacc f /\ all_bound (nacc f) (bnd (ms C m')) = true
    end.
  Proof.
    induction l as [|e l IH]; intros m bs hl H0 Hok Hinv m' o He; [discriminate|].
    assert (Hwrite : is_write e = true -> ok2 (nacc f) (e :: l) = true ->
                     match o with
                     | Rejected _ => snapshot C m' = Some (bs, hl) /\ firstn hl (heap (ms C m')) = H0
                     | Accepted => List.length (accs (bnd (ms C m'))) = nacc f /\ all_bound (nacc f) (bnd (ms C m')) = true
                     end).
    { intros _ Hok2. destruct Hinv as (Hs & Hf & Hl & Ha & Hb).
      assert (Hall : all_bound (nacc f) (bnd (ms C m)) = true).
      { apply all_bound_spec. intros k Hk. destruct (Hb k Hk) as [Hx|Hx]; [exact Hx|].
        rewrite (ok2_no_alloc _ k _ Hok2) in Hx. discriminate. }
      destruct (exec_ok2 f b (e :: l) m m' o Hok2 Hall He) as (-> & Eb & _).
      rewrite Eb. auto. }
    cbn [ok1] in Hok.
    destruct e; try discriminate; try (apply Hwrite; [reflexivity|exact Hok]); cbn [exec step] in He.
    - (* Check *) destruct (eval_check R f e (bnd (ms C m)) b).
      + injection He as <- <-. destruct Hinv as (Hs & Hf & _). auto.
      + eapply IH; [exact Hok| |exact He]. eapply inv1_same_state; eauto.
    - (* Implicit *) destruct (eval_check R f e (bnd (ms C m)) b).
      + injection He as <- <-. destruct Hinv as (Hs & Hf & _). auto.
      + eapply IH; [exact Hok| |exact He]. eapply inv1_same_state; eauto.
    - (* Conv *) destruct (eval_check R f e (bnd (ms C m)) b).
      + injection He as <- <-. destruct Hinv as (Hs & Hf & _). auto.
      + eapply IH; [exact Hok| |exact He]. eapply inv1_same_state; eauto.
    - (* Bind *) eapply IH; [exact Hok| |exact He]. eapply inv1_same_state; eauto. cbn. apply do_bind_accs.
    - (* Shapes *) eapply IH; [exact Hok| |exact He]. eapply inv1_same_state; eauto.
    - (* Alloc *)
      apply andb_true_iff in Hok. destruct Hok as [Hk Hok]. apply Nat.ltb_lt in Hk.
      eapply IH; eauto. destruct Hinv as (Hs & Hf & Hl & Ha & Hb). unfold inv1. cbn.
      repeat split; auto.
      + rewrite firstn_app_le; auto.
      + rewrite app_length. lia.
      + rewrite set_nth_length. exact Ha.
      + intros j Hj. unfold bound. cbn. destruct (Nat.eq_dec j k) as [->|Hne].
        * left. rewrite nth_set_nth_eq; [reflexivity|lia].
        * rewrite nth_set_nth_neq by exact Hne. destruct (Hb j Hj) as [Hx|Hx]; [left; exact Hx|].
          cbn in Hx. destruct (Nat.eqb_spec k j); [congruence|]. right. exact Hx.
    - (* Bump *) eapply IH; [exact Hok| |exact He]. eapply inv1_same_state; eauto.
    - (* Mark *) eapply IH; [exact Hok| |exact He]. eapply inv1_same_state; eauto.
  Qed.

  (* ---------------------------------------------------------------- phase 0: before the snapshot only raising points *)
  Lemma exec_ok0 f (b : batch) l : forall st,
    ok0 (nacc f) l = true -> List.length (accs (bnd st)) = nacc f ->
    (forall k, k < nacc f -> bound k (bnd st) = true \/ existsb (effect_is_alloc k) l = true) ->
    forall m' o, exec f b l {| ms := st; snapshot := None |} = (m', o) ->
    match o with
    | Rejected x => fst (finish (m', o)) = st
    | Accepted => List.length (accs (bnd (ms C m'))) = nacc f /\ all_bound (nacc f) (bnd (ms C m')) = true
    end.
  Proof.
    induction l as [|e l IH]; intros st Hok Hlen Hb m' o He; [discriminate|].
    assert (Hb' : (forall k, effect_is_alloc k e = false) ->
                  forall k, k < nacc f -> bound k (bnd st) = true \/ existsb (effect_is_alloc k) l = true).
    { intros Hna k Hk. destruct (Hb k Hk) as [Hx|Hx]; [now left|]. cbn in Hx. rewrite Hna in Hx. now right. }
    cbn [ok0] in Hok. destruct e; try discriminate; cbn [Update.exec Update.step ms snapshot] in He.
    - destruct (eval_check R f e (bnd st) b).
      + injection He as <- <-. reflexivity.
      + eapply IH; eauto.
    - destruct (eval_check R f e (bnd st) b).
      + injection He as <- <-. reflexivity.
      + eapply IH; eauto.
    - destruct (eval_check R f e (bnd st) b).
      + injection He as <- <-. reflexivity.
      + eapply IH; eauto.
    - (* Snap *)
      cbn in He.
      pose proof (exec_ok1 f b l {| ms := st; snapshot := Some (bnd st, List.length (heap st)) |}
                    (bnd st) (List.length (heap st)) (heap st) Hok) as H1.
      assert (Hinv : inv1 (nacc f) l {| ms := st; snapshot := Some (bnd st, List.length (heap st)) |}
                       (bnd st) (List.length (heap st)) (heap st)).
      { unfold inv1. cbn. repeat split; auto. apply firstn_all. }
      specialize (H1 Hinv m' o He). destruct o as [|x]; [exact H1|].
      destruct H1 as [Hs Hf]. unfold Update.finish. cbn. rewrite Hs, Hf. destruct st; reflexivity.
    - eapply IH; eauto.
  Qed.

  (* ---------------------------------------------------------------- update *)
  Lemma wf_spec f s : wf f s = true <->
    List.length (accs s) = nacc f /\ (inited s = true -> all_bound (nacc f) s = true).
  Proof.
    unfold wf. rewrite andb_true_iff, Nat.eqb_eq. destruct (inited s); intuition congruence.
  Qed.

  Lemma update_cases f st (b : batch) st' o :
    wf f (bnd st) = true -> update repaired f st b = (st', o) ->
    match o with
    | Rejected _ => st' = st
    | Accepted => List.length (accs (bnd st')) = nacc f /\ all_bound (nacc f) (bnd st') = true
    end.
  Proof.
    intros Hwf Hu. unfold Update.update in Hu.
    set (vl := valuation_of R (bnd st) b) in *.
    set (l := select vl (order repaired f)) in *.
    destruct (exec f b l {| ms := st; snapshot := None |}) as [m' o'] eqn:He.
    pose proof (shape_ok_repaired f vl) as Hs. unfold shape_ok in Hs. fold l in Hs.
    apply andb_true_iff in Hs. destruct Hs as [Hs Hal]. apply andb_true_iff in Hs. destruct Hs as [Hok0 _].
    apply wf_spec in Hwf. destruct Hwf as [Hlen Hin].
    assert (Hb : forall k, k < nacc f -> bound k (bnd st) = true \/ existsb (effect_is_alloc k) l = true).
    { intros k Hk. destruct (inited (bnd st)) eqn:Ei.
      - left. apply all_bound_spec with (n := nacc f); auto.
      - right. assert (v_first vl = true) by (unfold vl, valuation_of; cbn; rewrite Ei; reflexivity).
        rewrite H in Hal. unfold allocs_all in Hal. rewrite forallb_forall in Hal. apply Hal. apply in_seq. lia. }
    pose proof (exec_ok0 f b l st Hok0 Hlen Hb m' o' He) as H.
    destruct o' as [|x]; unfold Update.finish in Hu; cbn [snd fst] in Hu.
    - injection Hu as <- <-. exact H.
    - injection Hu as <- <-. exact H.
  Qed.

  Theorem reject_preserves_state_thm f st (b : batch) st' x :
    wf f (bnd st) = true -> update repaired f st b = (st', Rejected x) -> st' = st.
  Proof. intros Hwf Hu. exact (update_cases f st b st' (Rejected x) Hwf Hu). Qed.

  Lemma update_wf f st (b : batch) st' o :
    wf f (bnd st) = true -> update repaired f st b = (st', o) -> wf f (bnd st') = true.
  Proof.
    intros Hwf Hu. pose proof (update_cases f st b st' o Hwf Hu) as H. destruct o.
    - apply wf_spec. destruct H. auto.
    - subst. exact Hwf.
  Qed.

  Lemma process_cases f st (b : batch) st' o :
    wf f (bnd st) = true -> process repaired f st b = (st', o) ->
    wf f (bnd st') = true /\ match o with Rejected _ => st' = st | Accepted => True end.
  Proof.
    intros Hwf Hp. unfold Update.process in Hp. destruct (b_user_raises b).
    - injection Hp as <- <-. auto.
    - split; [eapply update_wf; eauto|]. destruct o; [exact I|]. eapply reject_preserves_state_thm; eauto.
  Qed.

  Lemma process_reject_thm f st (b : batch) st' x :
    wf f (bnd st) = true -> process repaired f st b = (st', Rejected x) -> st' = st.
  Proof. intros Hwf Hp. exact (proj2 (process_cases f st b st' (Rejected x) Hwf Hp)). Qed.

  (* run(container): the batches before the refused one stay accumulated, the refused one leaves no trace *)
  Lemma run_container_cases f bs : forall st st' o,
    wf f (bnd st) = true -> run_container repaired f st bs = (st', o) ->
    wf f (bnd st') = true
    /\ run_container repaired f st (accepted_prefix repaired f st bs) = (st', Accepted)
    /\ match o with Accepted => accepted_prefix repaired f st bs = bs | Rejected _ => True end.
  Proof.
    induction bs as [|b bs IH]; intros st st' o Hwf Hr; cbn in *.
    - injection Hr as <- <-. auto.
    - destruct (process repaired f st b) as [st1 [|x]] eqn:Hp.
      + destruct (process_cases f st b st1 Accepted Hwf Hp) as [Hwf1 _].
        destruct (IH st1 st' o Hwf1 Hr) as (H1 & H2 & H3).
        cbn. rewrite Hp. repeat split; auto. destruct o; [congruence|exact I].
      + injection Hr as <- <-. destruct (process_cases f st b st1 (Rejected x) Hwf Hp) as [Hwf1 ->].
        cbn. auto.
  Qed.

  Lemma fresh_wf f c : wf f (bnd (fresh f c : ostate)) = true.
  Proof. apply wf_spec. cbn. split; [apply repeat_length|discriminate]. Qed.

  Theorem refused_first_call_harmless_thm f c (b b2 : batch) st' x :
    update repaired f (fresh f c) b = (st', Rejected x) ->
    st' = fresh f c /\ update repaired f st' b2 = update repaired f (fresh f c) b2.
  Proof.
    intros Hu. assert (st' = fresh f c) by (eapply reject_preserves_state_thm; eauto; apply fresh_wf).
    subst. auto.
  Qed.

  (* ---------------------------------------------------------------- histories *)
  Definition outs (es : list (hev O)) : list (hev O) := filter (fun e => match e with EOut _ _ => true | _ => false end) es.
  Definition no_run (h : list (hop R)) : bool := forallb (fun o => match o with HRun _ => false | _ => true end) h.

  Lemma apply_op_wf f st o st' e :
    wf f (bnd st) = true -> apply_op repaired f st o = (st', e) -> wf f (bnd st') = true.
  Proof.
    intros Hwf Ha. destruct o as [b|b|bs|]; cbn in Ha.
    - destruct (update repaired f st b) as [s1 r] eqn:Hu. injection Ha as <- <-. eapply update_wf; eauto.
    - destruct (process repaired f st b) as [s1 r] eqn:Hu. injection Ha as <- <-.
      destruct (process_cases f st b s1 r Hwf Hu) as [H1 H2]. exact H1.
    - destruct (run_container repaired f st bs) as [s1 r] eqn:Hu. injection Ha as <- <-.
      destruct (run_container_cases f bs st s1 r Hwf Hu) as (H1 & _ & _). exact H1.
    - injection Ha as <- <-. exact Hwf.
  Qed.

  (* a refused update / process call leaves the object exactly as it was *)
  Lemma apply_op_rejected f st o st' x n :
    wf f (bnd st) = true -> apply_op repaired f st o = (st', ERejected x n) ->
    match o with HRun _ => True | _ => st' = st end.
  Proof.
    intros Hwf Ha. destruct o as [b|b|bs|]; cbn in Ha; [| |exact I|discriminate].
    - destruct (update repaired f st b) as [s1 [|y]] eqn:Hu; [discriminate|]. injection Ha as <- _ _.
      eapply reject_preserves_state_thm; eauto.
    - destruct (process repaired f st b) as [s1 [|y]] eqn:Hu; [discriminate|]. injection Ha as <- _ _.
      destruct (process_cases f st b s1 (Rejected y) Hwf Hu) as [_ H2]. exact H2.
  Qed.

  Lemma run_hist_cons v f st o r :
    run_hist v f st (o :: r) =
    (fst (run_hist v f (fst (apply_op v f st o)) r),
     snd (apply_op v f st o) :: snd (run_hist v f (fst (apply_op v f st o)) r)).
  Proof.
    cbn [Update.run_hist]. destruct (apply_op v f st o) as [s1 e]. cbn [fst snd].
    destruct (run_hist v f s1 r). reflexivity.
  Qed.

  Lemma kept_cons v f st o r :
    kept v f st (o :: r) =
    let st1 := fst (apply_op v f st o) in
    match o, snd (apply_op v f st o) with
    | HRun bs, ERejected _ _ => match accepted_prefix v f st bs with
                                | [] => kept v f st1 r
                                | p => HRun p :: kept v f st1 r
                                end
    | _, ERejected _ _ => kept v f st1 r
    | _, _ => o :: kept v f st1 r
    end.
  Proof. cbn [Update.kept]. destruct o; destruct (apply_op v f st _) as [s1 e]; reflexivity. Qed.

  Definition not_rejected (e : hev O) : bool := negb (is_rejected e).

  (* for every history: the final state and every result are those of the history with the refused calls deleted,
     in which nothing is refused; without run(container) calls the surviving events are identical one by one *)
  Theorem history_with_rejects_thm f h : forall st,
    wf f (bnd st) = true ->
    let full := run_hist repaired f st h in
    let clean := run_hist repaired f st (kept repaired f st h) in
    fst full = fst clean
    /\ outs (snd full) = outs (snd clean)
    /\ forallb not_rejected (snd clean) = true
    /\ (no_run h = true -> filter not_rejected (snd full) = snd clean).
  Proof.
    induction h as [|o r IH]; intros st Hwf; [cbn; auto|].
    cbv zeta. rewrite kept_cons. rewrite run_hist_cons. cbv zeta.
    destruct (apply_op repaired f st o) as [st1 e] eqn:Ha. cbn [fst snd].
    assert (Hwf1 : wf f (bnd st1) = true) by (eapply apply_op_wf; eauto).
    specialize (IH st1 Hwf1). cbv zeta in IH. destruct IH as (I1 & I2 & I3 & I4).
    assert (Hkeep : is_rejected e = false ->
      let clean := run_hist repaired f st (o :: kept repaired f st1 r) in
      fst (run_hist repaired f st1 r) = fst clean
      /\ outs (e :: snd (run_hist repaired f st1 r)) = outs (snd clean)
      /\ forallb not_rejected (snd clean) = true
      /\ (no_run (o :: r) = true -> filter not_rejected (e :: snd (run_hist repaired f st1 r)) = snd clean)).
    { intros Er. cbv zeta. rewrite run_hist_cons, Ha. cbn [fst snd]. repeat split.
      - exact I1.
      - unfold outs in *. cbn [filter]. rewrite I2. reflexivity.
      - cbn [forallb]. unfold not_rejected at 1. rewrite Er, I3. reflexivity.
      - intros Hn. cbn [no_run forallb] in Hn. apply andb_true_iff in Hn. destruct Hn as [_ Hn].
        cbn [filter]. unfold not_rejected at 1. rewrite Er. cbn [negb]. rewrite (I4 Hn). reflexivity. }
    assert (Hs : snd (apply_op repaired f st o) = e) by (rewrite Ha; reflexivity).
    destruct e as [n|x n|v n].
    - destruct o; rewrite Hs; apply Hkeep; reflexivity.
    - (* refused *)
      pose proof (apply_op_rejected f st o st1 x n Hwf Ha) as Hr.
      destruct o as [b|b|bs|]; rewrite Hs.
      + subst st1. cbn [fst snd]. repeat split; auto;
        intros Hn; cbn [no_run forallb] in Hn; cbn [filter not_rejected is_rejected negb]; apply I4, Hn.
      + subst st1. cbn [fst snd]. repeat split; auto;
        intros Hn; cbn [no_run forallb] in Hn; cbn [filter not_rejected is_rejected negb]; apply I4, Hn.
      + (* run(container) refused at some batch: the accepted prefix stays *)
        cbn in Ha. destruct (run_container repaired f st bs) as [s1 [|y]] eqn:Hu; [discriminate|].
        injection Ha as <- _ _.
        destruct (run_container_cases f bs st s1 (Rejected y) Hwf Hu) as (_ & Hp & _).
        destruct (accepted_prefix repaired f st bs) as [|b0 p] eqn:Ep.
        * cbn in Hp. injection Hp as <-. repeat split; auto; intros Hn; discriminate.
        * rewrite run_hist_cons. cbn [Update.apply_op]. rewrite Hp. cbn [fst snd]. repeat split; auto; intros Hn; discriminate.
      + cbn in Ha. discriminate.
    - destruct o; rewrite Hs; apply Hkeep; reflexivity.
  Qed.

  (* the cleaned history applied to the state it was computed for refuses nothing: restated on the events *)
  Corollary clean_history_accepts_everything f h st :
    wf f (bnd st) = true ->
    forall e, In e (snd (run_hist repaired f st (kept repaired f st h))) -> is_rejected e = false.
  Proof.
    intros Hwf e He. destruct (history_with_rejects_thm f h st Hwf) as (_ & _ & H & _).
    rewrite forallb_forall in H. specialize (H e He). unfold not_rejected in H. now apply negb_true_iff in H.
  Qed.
End UpdateProofs.

(* ================================================================== the link with Model/Accum.v *)
Lemma all_accum_ok_repaired : all_accum_ok repaired = true.
Proof. vm_compute. reflexivity. Qed.

Lemma accum_ok_repaired f vl : accum_ok repaired f vl = true.
Proof.
  pose proof all_accum_ok_repaired as H. unfold all_accum_ok in H.
  rewrite forallb_forall in H. specialize (H f (in_all_families f)).
  rewrite forallb_forall in H. exact (H vl (in_all_valuations vl)).
Qed.

Lemma nodupb_NoDup l : nodupb l = true -> NoDup l.
Proof.
  induction l as [|x r IH]; intros H; [constructor|]. cbn in H. apply andb_true_iff in H. destruct H as [H1 H2].
  constructor; [|auto]. intros Hin. apply negb_true_iff in H1.
  assert (existsb (Nat.eqb x) r = true) by (apply existsb_exists; exists x; split; [exact Hin|apply Nat.eqb_refl]).
  congruence.
Qed.

Lemma list_eqb_nat_eq l1 : forall l2, list_eqb Nat.eqb l1 l2 = true -> l1 = l2.
Proof.
  induction l1 as [|x r IH]; intros [|y s] H; cbn in H; try discriminate; [reflexivity|].
  apply andb_true_iff in H. destruct H as [H1 H2]. apply Nat.eqb_eq in H1. f_equal; auto.
Qed.

Section Link.
  Variables (C R O : Type).
  Variable czero : C.
  Variable cplus : C -> C -> C.
  Variable ccontrib : nat -> R -> C.
  Variable ccomp : Z -> list C -> O.

  Notation batch := (batch R).
  Notation ostate := (ostate C).
  Notation mstate := (mstate C).
  Notation exec := (exec C R czero cplus ccontrib).
  Notation update := (update C R czero cplus ccontrib).
  Notation heap_write := (heap_write C R czero cplus ccontrib).
  Notation kernel_write := (kernel_write C R czero cplus ccontrib).
  Notation cbsum := (cbsum C R czero cplus ccontrib).
  Notation acc_of := (acc_of C R czero cplus ccontrib).
  Notation one_shot := (one_shot C R czero cplus ccontrib).
  Notation wf_batch := (wf_batch R).
  Notation wf_op := (wf_op R).
  Notation rows_of_op := (rows_of_op C R czero cplus ccontrib).
  Notation rows_of_hist := (rows_of_hist C R O czero cplus ccontrib ccomp).

  (* one in-place write of accumulator k when the names are bound to the cells base, base+1, ... *)
  Definition wstep (base : nat) (rows : list R) (h : list C) (k : nat) : list C :=
    set_nth (base + k) (cplus (nth (base + k) h czero) (cbsum k rows)) h.

  Lemma wstep_length base rows h k : List.length (wstep base rows h k) = List.length h.
  Proof. apply set_nth_length. Qed.

  Lemma fold_wstep_length base rows ws : forall h, List.length (fold_left (wstep base rows) ws h) = List.length h.
  Proof. induction ws as [|k ws IH]; intros h; cbn; [reflexivity|]. rewrite IH. apply wstep_length. Qed.

  Lemma fold_wstep_nth base rows n ws : forall h,
    NoDup ws -> (forall k, In k ws -> k < n) -> base + n <= List.length h ->
    forall i, i < n ->
    nth (base + i) (fold_left (wstep base rows) ws h) czero =
    if existsb (Nat.eqb i) ws then cplus (nth (base + i) h czero) (cbsum i rows) else nth (base + i) h czero.
  Proof.
    induction ws as [|k ws IH]; intros h Hnd Hlt Hlen i Hi; cbn [fold_left existsb]; [reflexivity|].
    inversion Hnd as [|? ? Hnotin Hnd']; subst.
    rewrite IH; auto.
    - destruct (Nat.eqb_spec i k) as [->|Hne].
      + cbn [orb].
        assert (Hex : existsb (Nat.eqb k) ws = false).
        { destruct (existsb (Nat.eqb k) ws) eqn:E; [|reflexivity]. apply existsb_exists in E. destruct E as (x & Hx & Ex).
          apply Nat.eqb_eq in Ex. subst. contradiction. }
        rewrite Hex. unfold wstep. rewrite nth_set_nth_eq; [reflexivity|].
        assert (k < n) by (apply Hlt; now left). lia.
      + cbn [orb]. unfold wstep at 1 2. rewrite !nth_set_nth_neq by lia. reflexivity.
    - intros j Hj. apply Hlt. now right.
    - rewrite wstep_length. exact Hlen.
  Qed.

  Definition accs_at (base n : nat) : list (option nat) := map Some (seq base n).

  Lemma nth_accs_at base n k : k < n -> nth k (accs_at base n) None = Some (base + k).
  Proof.
    intros Hk. unfold accs_at. rewrite nth_indep with (d' := Some 0) by (rewrite map_length, seq_length; exact Hk).
    rewrite map_nth. rewrite seq_nth by exact Hk. reflexivity.
  Qed.

  Lemma heap_write_at base n k (b : batch) s h :
    accs s = accs_at base n -> k < n -> heap_write k b s h = Some (wstep base (b_rows b) h k).
  Proof. intros Ha Hk. unfold Update.heap_write. rewrite Ha, nth_accs_at by exact Hk. reflexivity. Qed.

  Lemma kernel_write_at base n (b : batch) s ks : forall h,
    accs s = accs_at base n -> (forall k, In k ks -> k < n) ->
    kernel_write ks b s h = Some (fold_left (wstep base (b_rows b)) ks h).
  Proof.
    induction ks as [|k ks IH]; intros h Ha Hlt; cbn; [reflexivity|].
    rewrite (heap_write_at base n) by (auto; apply Hlt; now left). apply IH; auto. intros j Hj. apply Hlt. now right.
  Qed.

  (* ---------------------------------------------------------------- phase 2 *)
  Lemma exec_writes f (b : batch) base l : forall m m' o,
    ok2 (nacc f) l = true -> accs (bnd (ms C m)) = accs_at base (nacc f) ->
    exec f b l m = (m', o) ->
    o = Accepted /\ bnd (ms C m') = bnd (ms C m)
    /\ heap (ms C m') = fold_left (wstep base (b_rows b)) (writes_of (nacc f) l) (heap (ms C m)).
  Proof.
    induction l as [|e l IH]; intros m m' o Hok Ha He; cbn in He.
    - injection He as <- <-. auto.
    - cbn [ok2] in Hok. destruct e; try discriminate; cbn [Update.step] in He; cbn [writes_of flat_map].
      + apply andb_true_iff in Hok. destruct Hok as [Hk Hok]. apply Nat.ltb_lt in Hk.
        rewrite (heap_write_at base (nacc f)) in He by auto.
        destruct (IH _ _ _ Hok (Ha : accs (bnd (ms C (set_heap C m _))) = _) He) as (H1 & H2 & H3).
        cbn in H2, H3. cbn [app fold_left]. auto.
      + rewrite (kernel_write_at base (nacc f)) in He; auto.
        * destruct (IH _ _ _ Hok (Ha : accs (bnd (ms C (set_heap C m _))) = _) He) as (H1 & H2 & H3).
          cbn in H2, H3. rewrite fold_left_app. auto.
        * intros k Hk. apply in_seq in Hk. lia.
      + exact (IH _ _ _ Hok Ha He).
      + exact (IH _ _ _ Hok Ha He).
      + exact (IH _ _ _ Hok Ha He).
  Qed.

  (* ---------------------------------------------------------------- phase 1, with the cells tracked *)
  Lemma ok2_summaries n l : ok2 n l = true -> allocs_of l = [] /\ bumps_of l = 0 /\ binds_origin l = false.
  Proof.
    induction l as [|e l IH]; intros H; [auto|]. cbn [ok2] in H.
    destruct e; try discriminate; try (apply andb_true_iff in H; destruct H as [_ H]); apply IH in H; exact H.
  Qed.

  Lemma do_bind_processed f a (b : batch) s : processed (do_bind R f a b s) = processed s.
  Proof. destruct a; reflexivity. Qed.

  Lemma do_bind_inited f a (b : batch) s :
    inited (do_bind R f a b s) = inited s || match a with AOrigin => true | _ => false end.
  Proof. destruct a; cbn; try (rewrite orb_false_r; reflexivity). rewrite orb_true_r. reflexivity. Qed.

  (* the first j accumulator names are bound to the cells base .. base+j-1, which hold X; the others are still to be allocated *)
  Definition inv_acc (n j base : nat) (X : nat -> C) (m : mstate) : Prop :=
    List.length (accs (bnd (ms C m))) = n /\ base + j <= List.length (heap (ms C m))
    /\ (j < n -> List.length (heap (ms C m)) = base + j)
    /\ forall i, i < j -> nth i (accs (bnd (ms C m))) None = Some (base + i) /\ nth (base + i) (heap (ms C m)) czero = X i.

  Lemma inv_acc_same n j base X m m1 :
    inv_acc n j base X m -> accs (bnd (ms C m1)) = accs (bnd (ms C m)) -> heap (ms C m1) = heap (ms C m) -> inv_acc n j base X m1.
  Proof. unfold inv_acc. intros H E1 E2. rewrite E1, E2. exact H. Qed.

  Definition after_write (ws : list nat) (rows : list R) (X : nat -> C) (i : nat) : C :=
    if existsb (Nat.eqb i) ws then cplus (X i) (cbsum i rows) else X i.

  Lemma exec_mid_strong f (b : batch) base X l : forall m j m',
    ok1 (nacc f) l = true -> allocs_of l = seq j (nacc f - j) -> j <= nacc f ->
    (forall i, j <= i -> i < nacc f -> X i = czero) ->
    NoDup (writes_of (nacc f) l) -> (forall k, In k (writes_of (nacc f) l) -> k < nacc f) ->
    inv_acc (nacc f) j base X m ->
    exec f b l m = (m', Accepted) ->
    accs (bnd (ms C m')) = accs_at base (nacc f)
    /\ base + nacc f <= List.length (heap (ms C m'))
    /\ (forall i, i < nacc f -> nth (base + i) (heap (ms C m')) czero = after_write (writes_of (nacc f) l) (b_rows b) X i)
    /\ processed (bnd (ms C m')) = (processed (bnd (ms C m)) + Z.of_nat (bumps_of l) * b_n b)%Z
    /\ inited (bnd (ms C m')) = inited (bnd (ms C m)) || binds_origin l.
  Proof.
    induction l as [|e l IH]; intros m j m' Hok Hal Hj HX Hnd Hlt Hinv He; [discriminate|].
    assert (Hwrite : is_write e = true -> ok2 (nacc f) (e :: l) = true ->
      accs (bnd (ms C m')) = accs_at base (nacc f)
      /\ base + nacc f <= List.length (heap (ms C m'))
      /\ (forall i, i < nacc f -> nth (base + i) (heap (ms C m')) czero = after_write (writes_of (nacc f) (e :: l)) (b_rows b) X i)
      /\ processed (bnd (ms C m')) = (processed (bnd (ms C m)) + Z.of_nat (bumps_of (e :: l)) * b_n b)%Z
      /\ inited (bnd (ms C m')) = inited (bnd (ms C m)) || binds_origin (e :: l)).
    { intros _ Hok2. destruct (ok2_summaries _ _ Hok2) as (Ea & Eb & Eo).
      rewrite Ea in Hal. assert (j = nacc f).
      { destruct (nacc f - j) eqn:E; [lia|discriminate]. }
      subst j. destruct Hinv as (Hlen & Hh & _ & Hcells).
      assert (Haccs : accs (bnd (ms C m)) = accs_at base (nacc f)).
      { apply nth_ext with (d := None) (d' := None).
        - unfold accs_at. rewrite map_length, seq_length. exact Hlen.
        - intros i Hi. rewrite Hlen in Hi. rewrite nth_accs_at by exact Hi. apply Hcells, Hi. }
      destruct (exec_writes f b base (e :: l) m m' Accepted Hok2 Haccs He) as (_ & Ebnd & Eheap).
      rewrite Ebnd, Eheap, Eb, Eo. repeat split.
      - exact Haccs.
      - rewrite fold_wstep_length. exact Hh.
      - intros i Hi. rewrite (fold_wstep_nth base (b_rows b) (nacc f)); auto.
        unfold after_write. destruct (Hcells i Hi) as [_ ->]. reflexivity.
      - cbn. lia.
      - rewrite orb_false_r. reflexivity. }
    cbn [ok1] in Hok.
    destruct e; try discriminate; try (apply Hwrite; [reflexivity|exact Hok]); cbn [Update.exec Update.step] in He.
    - destruct (eval_check R f e (bnd (ms C m)) b); [discriminate|]. eapply IH; eauto.
    - destruct (eval_check R f e (bnd (ms C m)) b); [discriminate|]. eapply IH; eauto.
    - destruct (eval_check R f e (bnd (ms C m)) b); [discriminate|]. eapply IH; eauto.
    - (* Bind *)
match type of He with Update.exec _ _ _ _ _ _ _ _ ?m1 = _ =>
        assert (Hinv1 : inv_acc (nacc f) j base X m1)
          by (apply (inv_acc_same _ _ _ _ m m1 Hinv); [cbn; try apply do_bind_accs; reflexivity | reflexivity]) end.
      specialize (IH _ j m' Hok Hal Hj HX Hnd Hlt Hinv1 He).
      destruct IH as (I1 & I2 & I3 & I4 & I5). repeat split; auto.
      + rewrite I4. cbn. rewrite do_bind_processed. reflexivity.
      + rewrite I5.
        change (binds_origin (Bind a :: l)) with ((match a with AOrigin => true | _ => false end) || binds_origin l).
        cbn [Update.set_bnd ms bnd]. rewrite do_bind_inited. rewrite orb_assoc. reflexivity.
    - (* Shapes *)
match type of He with Update.exec _ _ _ _ _ _ _ _ ?m1 = _ =>
        assert (Hinv1 : inv_acc (nacc f) j base X m1)
          by (apply (inv_acc_same _ _ _ _ m m1 Hinv); [cbn; try apply do_bind_accs; reflexivity | reflexivity]) end.
      specialize (IH _ j m' Hok Hal Hj HX Hnd Hlt Hinv1 He). exact IH.
    - (* Alloc *)
      apply andb_true_iff in Hok. destruct Hok as [Hk Hok]. apply Nat.ltb_lt in Hk.
      cbn [allocs_of flat_map app] in Hal.
      assert (Hjn : j < nacc f) by (destruct (nacc f - j) eqn:E; [discriminate|lia]).
      replace (nacc f - j) with (S (nacc f - S j)) in Hal by lia. cbn [seq] in Hal. injection Hal as Hkj Hal. subst k.
      destruct Hinv as (Hlen & Hh & Hhl & Hcells). specialize (Hhl Hjn).
      assert (Hinv' : inv_acc (nacc f) (S j) base X
                {| ms := {| bnd := do_alloc j (List.length (heap (ms C m))) (bnd (ms C m)); heap := heap (ms C m) ++ [czero] |};
                   snapshot := snapshot C m |}).
      { unfold inv_acc. cbn. rewrite set_nth_length, app_length. cbn.
        split; [exact Hlen|]. split; [lia|]. split; [intros; lia|].
        intros i Hi. destruct (Nat.eq_dec i j) as [->|Hne].
        - rewrite nth_set_nth_eq by lia. rewrite Hhl. split; [reflexivity|].
          rewrite app_nth2 by lia. rewrite Hhl, Nat.sub_diag. cbn. symmetry. apply HX; lia.
        - rewrite nth_set_nth_neq by exact Hne. assert (Hij : i < j) by lia. destruct (Hcells i Hij) as [H1 H2].
          split; [exact H1|]. rewrite app_nth1 by lia. exact H2. }
      specialize (IH _ (S j) m' Hok Hal Hjn (fun i Hi Hi' => HX i ltac:(lia) Hi') Hnd Hlt Hinv' He). exact IH.
    - (* Bump *)
match type of He with Update.exec _ _ _ _ _ _ _ _ ?m1 = _ =>
        assert (Hinv1 : inv_acc (nacc f) j base X m1)
          by (apply (inv_acc_same _ _ _ _ m m1 Hinv); [cbn; try apply do_bind_accs; reflexivity | reflexivity]) end.
      specialize (IH _ j m' Hok Hal Hj HX Hnd Hlt Hinv1 He).
      destruct IH as (I1 & I2 & I3 & I4 & I5). repeat split; auto.
      rewrite I4. change (bumps_of (Bump :: l)) with (S (bumps_of l)). rewrite Nat2Z.inj_succ, Z.mul_succ_l.
      cbn [Update.set_bnd ms bnd Update.do_bump processed]. lia.
    - (* Mark *)
match type of He with Update.exec _ _ _ _ _ _ _ _ ?m1 = _ =>
        assert (Hinv1 : inv_acc (nacc f) j base X m1)
          by (apply (inv_acc_same _ _ _ _ m m1 Hinv); [cbn; try apply do_bind_accs; reflexivity | reflexivity]) end.
      specialize (IH _ j m' Hok Hal Hj HX Hnd Hlt Hinv1 He). exact IH.
  Qed.

  (* ---------------------------------------------------------------- phase 0 *)
  Lemma exec_pre f (b : batch) l : forall st m',
    ok0 (nacc f) l = true -> exec f b l {| ms := st; snapshot := None |} = (m', Accepted) ->
    exists l1 sn, ok1 (nacc f) l1 = true /\ allocs_of l1 = allocs_of l /\ writes_of (nacc f) l1 = writes_of (nacc f) l
      /\ bumps_of l1 = bumps_of l /\ binds_origin l1 = binds_origin l
      /\ exec f b l1 {| ms := st; snapshot := sn |} = (m', Accepted).
  Proof.
    induction l as [|e l IH]; intros st m' Hok He; [discriminate|].
    cbn [ok0] in Hok. destruct e; try discriminate; cbn [Update.exec Update.step ms snapshot] in He.
    - destruct (eval_check R f e (bnd st) b); [discriminate|]. exact (IH st m' Hok He).
    - destruct (eval_check R f e (bnd st) b); [discriminate|]. exact (IH st m' Hok He).
    - destruct (eval_check R f e (bnd st) b); [discriminate|]. exact (IH st m' Hok He).
    - exists l, (Some (bnd st, List.length (heap st))). repeat split; auto.
    - exact (IH st m' Hok He).
  Qed.

  (* ---------------------------------------------------------------- one accepted update *)
  Lemma update_accumulates f st (b : batch) st' base X :
    update repaired f st b = (st', Accepted) ->
    List.length (accs (bnd st)) = nacc f ->
    (if inited (bnd st)
     then accs (bnd st) = accs_at base (nacc f) /\ base + nacc f <= List.length (heap st)
          /\ (forall i, i < nacc f -> nth (base + i) (heap st) czero = X i)
     else base = List.length (heap st) /\ forall i, i < nacc f -> X i = czero) ->
    accs (bnd st') = accs_at base (nacc f) /\ base + nacc f <= List.length (heap st')
    /\ (forall i, i < nacc f -> nth (base + i) (heap st') czero = cplus (X i) (cbsum i (b_rows b)))
    /\ processed (bnd st') = (processed (bnd st) + b_n b)%Z /\ inited (bnd st') = true.
  Proof.
    intros Hu Hlen Hpre. unfold Update.update in Hu.
    set (vl := valuation_of R (bnd st) b) in *.
    set (l := select vl (order repaired f)) in *.
    destruct (exec f b l {| ms := st; snapshot := None |}) as [m' o'] eqn:He.
    destruct o' as [|x]; unfold Update.finish in Hu; cbn [snd fst] in Hu; [|discriminate].
    injection Hu as <-.
    pose proof (shape_ok_repaired f vl) as Hs. unfold shape_ok in Hs. fold l in Hs.
    apply andb_true_iff in Hs. destruct Hs as [Hs _]. apply andb_true_iff in Hs. destruct Hs as [Hok0 _].
    pose proof (accum_ok_repaired f vl) as Ha. unfold accum_ok in Ha. fold l in Ha.
    repeat (apply andb_true_iff in Ha; destruct Ha as [Ha ?]).
    rename H into Hmode, H0 into Hbump, H1 into Hwlt, H2 into Hcover. rename Ha into Hnd.
    destruct (exec_pre f b l st m' Hok0 He) as (l1 & sn & Hok1 & Eal & Ewr & Ebu & Ebo & He1).
    apply Nat.eqb_eq in Hbump.
    assert (Hlt : forall k, In k (writes_of (nacc f) l1) -> k < nacc f).
    { rewrite Ewr. intros k Hk. rewrite forallb_forall in Hwlt. apply Nat.ltb_lt. apply Hwlt, Hk. }
    assert (HND : NoDup (writes_of (nacc f) l1)) by (rewrite Ewr; apply nodupb_NoDup, Hnd).
    assert (Hall : forall i, i < nacc f -> existsb (Nat.eqb i) (writes_of (nacc f) l1) = true).
    { rewrite Ewr. intros i Hi. rewrite forallb_forall in Hcover. apply Hcover. apply in_seq. lia. }
    assert (Hfirst : v_first vl = negb (inited (bnd st))) by reflexivity.
    destruct (inited (bnd st)) eqn:Ei.
    - destruct Hpre as (Haccs & Hh & Hcells). rewrite Hfirst in Hmode. cbn [negb] in Hmode.
      assert (Eal0 : allocs_of l1 = seq (nacc f) (nacc f - nacc f)).
      { rewrite Eal. destruct (allocs_of l); [|discriminate]. rewrite Nat.sub_diag. reflexivity. }
      assert (Hinv : inv_acc (nacc f) (nacc f) base X {| ms := st; snapshot := sn |}).
      { unfold inv_acc. cbn. split; [exact Hlen|]. split; [exact Hh|]. split; [intros; lia|].
        intros i Hi. split; [rewrite Haccs; apply nth_accs_at, Hi | apply Hcells, Hi]. }
      destruct (exec_mid_strong f b base X l1 _ (nacc f) m' Hok1 Eal0 (le_n _) ltac:(intros; lia) HND Hlt Hinv He1)
        as (I1 & I2 & I3 & I4 & I5).
      repeat split; auto.
      + intros i Hi. rewrite (I3 i Hi). unfold after_write. rewrite (Hall i Hi). reflexivity.
      + rewrite I4, Ebu, Hbump. cbn [ms bnd]. change (Z.of_nat 1) with 1%Z. rewrite Z.mul_1_l. reflexivity.
      + rewrite I5. cbn. rewrite Ei. reflexivity.
    - destruct Hpre as (Hbase & HX). rewrite Hfirst in Hmode. cbn [negb] in Hmode.
      apply andb_true_iff in Hmode. destruct Hmode as [Hal Hor]. apply list_eqb_nat_eq in Hal.
      assert (Eal0 : allocs_of l1 = seq 0 (nacc f - 0)) by (rewrite Eal, Hal, Nat.sub_0_r; reflexivity).
      assert (Hinv : inv_acc (nacc f) 0 base X {| ms := st; snapshot := sn |}).
      { unfold inv_acc. cbn. split; [exact Hlen|]. split; [lia|]. split; [intros; lia|]. intros i Hi. lia. }
      destruct (exec_mid_strong f b base X l1 _ 0 m' Hok1 Eal0 (Nat.le_0_l _) ltac:(intros; apply HX; lia) HND Hlt Hinv He1)
        as (I1 & I2 & I3 & I4 & I5).
      repeat split; auto.
      + intros i Hi. rewrite (I3 i Hi). unfold after_write. rewrite (Hall i Hi). reflexivity.
      + rewrite I4, Ebu, Hbump. cbn [ms bnd]. change (Z.of_nat 1) with 1%Z. rewrite Z.mul_1_l. reflexivity.
      + rewrite I5, Ebo, Hor. apply orb_true_r.
  Qed.

  (* ---------------------------------------------------------------- histories and Accum *)
  Hypothesis cplus_assoc : forall a b c, cplus a (cplus b c) = cplus (cplus a b) c.
  Hypothesis cplus_zero_l : forall a, cplus czero a = a.

  Notation process := (process C R czero cplus ccontrib).
  Notation run_container := (run_container C R czero cplus ccontrib).
  Notation accepted_prefix := (accepted_prefix C R czero cplus ccontrib).
  Notation compute := (compute C O czero ccomp).
  Notation apply_op := (apply_op C R O czero cplus ccontrib ccomp).
  Notation run_hist := (run_hist C R O czero cplus ccontrib ccomp).

  (* the state holds exactly the one-shot accumulation of [rows], and counts them *)
  Definition reach (f : family) (st : ostate) (rows : list R) : Prop :=
    List.length (accs (bnd st)) = nacc f
    /\ processed (bnd st) = Z.of_nat (List.length rows)
    /\ if inited (bnd st)
       then exists base, accs (bnd st) = accs_at base (nacc f) /\ base + nacc f <= List.length (heap st)
                         /\ forall i, i < nacc f -> nth (base + i) (heap st) czero = acc_of i rows
       else rows = [].

  Lemma reach_wf f st rows : reach f st rows -> wf f (bnd st) = true.
  Proof.
    intros (Hlen & _ & H). unfold wf. rewrite Hlen, Nat.eqb_refl. cbn [andb].
    destruct (inited (bnd st)); [|reflexivity]. destruct H as (base & Ha & _ & _).
    unfold all_bound. apply forallb_forall. intros k Hk. apply in_seq in Hk. unfold bound.
    rewrite Ha, nth_accs_at by lia. reflexivity.
  Qed.

  Lemma reach_fresh f c : reach f (fresh f c) [].
  Proof. unfold reach. cbn. rewrite repeat_length. auto. Qed.

  Lemma acc_of_app k rows1 rows2 : cplus (acc_of k rows1) (cbsum k rows2) = acc_of k (rows1 ++ rows2).
  Proof. unfold acc_of. rewrite (Accum.upd_app C R czero cplus (ccontrib k) cplus_assoc cplus_zero_l). reflexivity. Qed.

  Lemma reach_update f st rows (b : batch) st' o :
    reach f st rows -> wf_batch b -> update repaired f st b = (st', o) ->
    reach f st' (match o with Accepted => rows ++ b_rows b | Rejected _ => rows end).
  Proof.
    intros Hr Hb Hu. destruct o as [|x].
    - destruct Hr as (Hlen & Hp & Hi). destruct (inited (bnd st)) eqn:Ei.
      + destruct Hi as (base & Ha & Hh & Hc).
        destruct (update_accumulates f st b st' base (fun i => acc_of i rows) Hu Hlen) as (I1 & I2 & I3 & I4 & I5).
        { rewrite Ei. auto. }
        unfold reach. rewrite I5, I4, I1. repeat split.
        * unfold accs_at. rewrite map_length, seq_length. reflexivity.
        * rewrite Hp, Hb, app_length, Nat2Z.inj_add. reflexivity.
        * exists base. split; [reflexivity|]. split; [exact I2|]. intros i Hi'. rewrite (I3 i Hi'). apply acc_of_app.
      + subst rows.
        destruct (update_accumulates f st b st' (List.length (heap st)) (fun _ => czero) Hu Hlen) as (I1 & I2 & I3 & I4 & I5).
        { rewrite Ei. auto. }
        unfold reach. rewrite I5, I4, I1. repeat split.
        * unfold accs_at. rewrite map_length, seq_length. reflexivity.
        * rewrite Hp, Hb. cbn. reflexivity.
        * exists (List.length (heap st)). split; [reflexivity|]. split; [exact I2|]. intros i Hi'. rewrite (I3 i Hi'). reflexivity.
    - assert (st' = st) by (eapply reject_preserves_state_thm; eauto using reach_wf). subst. exact Hr.
  Qed.

  Lemma reach_process f st rows (b : batch) st' o :
    reach f st rows -> wf_batch b -> process repaired f st b = (st', o) ->
    reach f st' (match o with Accepted => rows ++ b_rows b | Rejected _ => rows end).
  Proof.
    intros Hr Hb Hp. unfold Update.process in Hp. destruct (b_user_raises b).
    - injection Hp as <- <-. exact Hr.
    - eapply reach_update; eauto.
  Qed.

  Lemma reach_run f bs : forall st rows st' o,
    reach f st rows -> Forall wf_batch bs -> run_container repaired f st bs = (st', o) ->
    reach f st' (rows ++ List.concat (map (@b_rows R) (accepted_prefix repaired f st bs))).
  Proof.
    induction bs as [|b bs IH]; intros st rows st' o Hr Hb Hu; cbn in *.
    - injection Hu as <- <-. rewrite app_nil_r. exact Hr.
    - inversion Hb as [|? ? Hb1 Hb2]; subst.
      destruct (process repaired f st b) as [st1 [|x]] eqn:Hp.
      + pose proof (reach_process f st rows b st1 Accepted Hr Hb1 Hp) as Hr1.
        specialize (IH st1 _ st' o Hr1 Hb2 Hu). cbn. rewrite app_assoc. exact IH.
      + injection Hu as <- <-. pose proof (reach_process f st rows b st1 (Rejected x) Hr Hb1 Hp) as Hr1.
        cbn. rewrite app_nil_r. exact Hr1.
  Qed.

  Lemma reach_op f st rows o :
    reach f st rows -> wf_op o -> reach f (fst (apply_op repaired f st o)) (rows ++ rows_of_op f st o).
  Proof.
    intros Hr Hw. destruct o as [b|b|bs|]; cbn [Update.apply_op rows_of_op].
    - destruct (update repaired f st b) as [s1 r] eqn:Hu. cbn [fst snd].
      pose proof (reach_update f st rows b s1 r Hr Hw Hu) as H. destruct r; [exact H|rewrite app_nil_r; exact H].
    - destruct (process repaired f st b) as [s1 r] eqn:Hu. cbn [fst snd].
      pose proof (reach_process f st rows b s1 r Hr Hw Hu) as H. destruct r; [exact H|rewrite app_nil_r; exact H].
    - destruct (run_container repaired f st bs) as [s1 r] eqn:Hu. cbn [fst].
      exact (reach_run f bs st rows s1 r Hr Hw Hu).
    - cbn. rewrite app_nil_r. exact Hr.
  Qed.

  Lemma reach_hist f h : forall st rows,
    reach f st rows -> Forall wf_op h ->
    reach f (fst (run_hist repaired f st h)) (rows ++ rows_of_hist f st h).
  Proof.
    induction h as [|o r IH]; intros st rows Hr Hw; cbn [rows_of_hist].
    - cbn. rewrite app_nil_r. exact Hr.
    - inversion Hw as [|? ? Hw1 Hw2]; subst. rewrite run_hist_cons. cbn [fst].
      rewrite app_assoc. apply IH; [|exact Hw2]. apply reach_op; assumption.
  Qed.

  Lemma cells_of_at f st base (V : nat -> C) :
    accs (bnd st) = accs_at base (nacc f) ->
    (forall i, i < nacc f -> nth (base + i) (heap st) czero = V i) ->
    cells_of C czero f st = Some (map V (seq 0 (nacc f))).
  Proof.
    intros Ha Hc. unfold Update.cells_of.
    assert (H : forall ks, (forall k, In k ks -> k < nacc f) ->
      fold_right (fun k acc => match acc, nth k (accs (bnd st)) None with
                               | Some l, Some c => Some (nth c (heap st) czero :: l) | _, _ => None end) (Some []) ks
      = Some (map V ks)).
    { induction ks as [|k ks IH]; intros Hk; [reflexivity|]. cbn [fold_right map].
      rewrite IH by (intros j Hj; apply Hk; now right).
      rewrite Ha, nth_accs_at by (apply Hk; now left). rewrite Hc by (apply Hk; now left). reflexivity. }
    apply H. intros k Hk. apply in_seq in Hk. lia.
  Qed.

  (* compute() on a state that holds the rows [rows]: the function of the count and of the one-shot accumulators *)
  Lemma reach_compute f st rows :
    reach f st rows ->
    compute f st = match rows with [] => None | _ => Some (ccomp (Z.of_nat (List.length rows)) (one_shot f rows)) end.
  Proof.
    intros (Hlen & Hp & Hi). unfold Update.compute. rewrite Hp.
    destruct (inited (bnd st)) eqn:Ei.
    - destruct Hi as (base & Ha & Hh & Hc). rewrite (cells_of_at f st base (fun i => acc_of i rows) Ha Hc).
      destruct rows; [reflexivity|]. cbn [List.length]. rewrite Nat2Z.inj_succ.
      replace (Z.succ (Z.of_nat (List.length rows)) >? 0)%Z with true by (symmetry; apply Z.gtb_lt; lia).
      reflexivity.
    - subst rows. reflexivity.
  Qed.

  (* for every history from a fresh object: processed_traces is the number of rows of the accepted batches, and compute()
     is the function of that count and of the ONE-SHOT accumulation (Accum.upd from zero) over exactly these rows *)
  Theorem results_are_those_of_the_accepted_batches_thm f c h :
    Forall wf_op h ->
    let st := fst (run_hist repaired f (fresh f c) h) in
    let rows := rows_of_hist f (fresh f c) h in
    processed (bnd st) = Z.of_nat (List.length rows)
    /\ compute f st = match rows with [] => None | _ => Some (ccomp (Z.of_nat (List.length rows)) (one_shot f rows)) end.
  Proof.
    intros Hw. cbv zeta. pose proof (reach_hist f h (fresh f c) [] (reach_fresh f c) Hw) as Hr. cbn [app] in Hr.
    split; [exact (proj1 (proj2 Hr))|exact (reach_compute f _ _ Hr)].
  Qed.
End Link.

Lemma fresh_wf_any (C : Type) f c : wf f (bnd (fresh f c : ostate C)) = true.
Proof. unfold wf. cbn. rewrite repeat_length, Nat.eqb_refl. reflexivity. Qed.

(* ------------------------------------------------------------------ the order as found: witnesses (free-monoid accumulators) *)
(* before 39651ef, CPA: 10 traces of length 5, then 4 traces of length 6: refused, but the count says 14 *)
Lemma refuted_count_bumped :
  snd (sym_hist before_39651ef FCpa (fresh FCpa no_config) [HUpdate (good_batch 1 10 5 3); HUpdate (good_batch 2 4 6 3); HCompute])
  = [EAccepted 10; ERejected RTraceLen 14; EOut (Some (14, [[1]; [1]; [1]; [1]; [1]])) 14]%Z.
Proof. vm_compute. reflexivity. Qed.

(* before 39651ef, DPA: a refused first call (non-binary data) leaves _origin_shape behind: the next valid call is refused too *)
Lemma refuted_first_call_poisons :
  snd (sym_hist before_39651ef FDpa (fresh FDpa no_config)
         [HUpdate (mk_batch 1 10 10 2 5 3 7 0 DUint8 TNum); HUpdate (good_batch 2 10 5 3); HCompute])
  = [ERejected RDpaNotBinary 0; ERejected RAttrMissing 10; EOut None 10]%Z.
Proof. vm_compute. reflexivity. Qed.

(* before 39651ef, template build: initialised with 3 words before _check refuses them; the valid 1-word batch is then refused *)
Lemma refuted_template_wrong_init :
  snd (sym_hist before_39651ef FTemplBuild (fresh FTemplBuild no_config)
         [HUpdate (good_batch 1 10 5 3); HUpdate (good_batch 2 10 5 1)])
  = [ERejected RTemplMultiWord 0; ERejected RWordCount 10]%Z.
Proof. vm_compute. reflexivity. Qed.

(* before 90a3d19, CPA: a later batch with 3-D traces is refused AFTER ey and ey2 were accumulated in place: the shallow
   rollback restores the count (10) but the next result depends on the refused batch 2 *)
Lemma refuted_3d_traces :
  snd (sym_hist before_90a3d19 FCpa (fresh FCpa no_config)
         [HUpdate (good_batch 1 10 5 3); HUpdate (mk_batch 2 4 4 3 5 3 1 0 DUint8 TNum); HCompute])
  = [EAccepted 10; ERejected RBroadcast3D 10; EOut (Some (10, [[1]; [1]; [1; 2]; [1; 2]; [1]])) 10]%Z.
Proof. vm_compute. reflexivity. Qed.

(* before ab1a297, DPA: traces that cannot be converted are refused AFTER processed_ones was accumulated in place *)
Lemma refuted_dpa_cast_after_write :
  snd (sym_hist before_ab1a297 FDpa (fresh FDpa no_config)
         [HUpdate (good_batch 1 10 5 3); HUpdate (mk_batch 2 4 4 2 5 3 1 0 DUint8 TStr); HCompute])
  = [EAccepted 10; ERejected RTracesCast 10; EOut (Some (10, [[1]; [1]; [1; 2]])) 10]%Z.
Proof. vm_compute. reflexivity. Qed.

(* the repaired order on the same five histories: every result is that of the accepted batches only *)
Lemma repaired_on_the_witnesses :
  snd (sym_hist repaired FCpa (fresh FCpa no_config) [HUpdate (good_batch 1 10 5 3); HUpdate (good_batch 2 4 6 3); HCompute])
  = [EAccepted 10; ERejected RTraceLen 10; EOut (Some (10, [[1]; [1]; [1]; [1]; [1]])) 10]%Z
  /\ snd (sym_hist repaired FDpa (fresh FDpa no_config)
         [HUpdate (mk_batch 1 10 10 2 5 3 7 0 DUint8 TNum); HUpdate (good_batch 2 10 5 3); HCompute])
  = [ERejected RDpaNotBinary 0; EAccepted 10; EOut (Some (10, [[2]; [2]; [2]])) 10]%Z
  /\ snd (sym_hist repaired FTemplBuild (fresh FTemplBuild no_config)
         [HUpdate (good_batch 1 10 5 3); HUpdate (good_batch 2 10 5 1)])
  = [ERejected RTemplMultiWord 0; EAccepted 10]%Z
  /\ snd (sym_hist repaired FCpa (fresh FCpa no_config)
         [HUpdate (good_batch 1 10 5 3); HUpdate (mk_batch 2 4 4 3 5 3 1 0 DUint8 TNum); HCompute])
  = [EAccepted 10; ERejected RTracesNot2D 10; EOut (Some (10, [[1]; [1]; [1]; [1]; [1]])) 10]%Z
  /\ snd (sym_hist repaired FDpa (fresh FDpa no_config)
         [HUpdate (good_batch 1 10 5 3); HUpdate (mk_batch 2 4 4 2 5 3 1 0 DUint8 TStr); HCompute])
  = [EAccepted 10; ERejected RTracesCast 10; EOut (Some (10, [[1]; [1]; [1]])) 10]%Z.
Proof. vm_compute. repeat split; reflexivity. Qed.
