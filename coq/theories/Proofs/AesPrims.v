(* Proofs/AesPrims.v — C05, part 1: the generated tables are the FIPS-197 functions; every table-driven primitive of the
   impl-model equals its FIPS definition on every state; algebra of the spec primitives (bytes stay bytes, inverses). *)
From Coq Require Import NArith ZArith List Bool Arith Lia Btauto.
From ScaredV Require Import Generated.AesTables Spec.Fips197 Run.Compare Model.Aes.
Import ListNotations.
Open Scope N_scope.

(* ---------------------------------------------------------------- finite sweeps *)
Lemma byte_sweep (P : N -> bool) :
  forallb (fun i => P (N.of_nat i)) (seq 0 256) = true -> forall x, x < 256 -> P x = true.
Proof.
  intros H x Hx. rewrite forallb_forall in H.
  specialize (H (N.to_nat x)). rewrite N2Nat.id in H. apply H. apply in_seq. lia.
Qed.

Lemma nat_sweep (n : nat) (P : nat -> bool) :
  forallb P (seq 0 n) = true -> forall i, (i < n)%nat -> P i = true.
Proof. intros H i Hi. rewrite forallb_forall in H. apply H. apply in_seq. lia. Qed.

Definition byte (x : N) : Prop := x < 256.
Definition bytes (l : list N) : Prop := Forall (fun x => x < 256) l.

Lemma byte_land x : x < 256 <-> N.land x 255 = x.
Proof.
  change 255 with (N.ones 8). rewrite N.land_ones. change (2 ^ 8) with 256. split; intros H.
  - apply N.mod_small; exact H.
  - rewrite <- H. apply N.mod_lt. discriminate.
Qed.

Lemma lxor_byte x y : x < 256 -> y < 256 -> N.lxor x y < 256.
Proof.
  rewrite !byte_land. intros Hx Hy. apply N.bits_inj. intro n.
  rewrite N.land_spec, !N.lxor_spec. rewrite <- Hx, <- Hy. rewrite !N.land_spec. btauto.
Qed.

Ltac xor_ac := apply N.bits_inj; intro; rewrite ?N.lxor_spec, ?N.bits_0; btauto.

(* ---------------------------------------------------------------- lists of fixed length *)
Lemma list4_inv {A} (l : list A) : length l = 4%nat -> exists a b c d, l = [a; b; c; d].
Proof.
  intros H. do 4 (destruct l as [|? l]; [discriminate|]). destruct l; [|discriminate]. eauto.
Qed.

Lemma list16_inv {A} (l : list A) : length l = 16%nat ->
  exists a0 a1 a2 a3 a4 a5 a6 a7 a8 a9 a10 a11 a12 a13 a14 a15,
    l = [a0; a1; a2; a3; a4; a5; a6; a7; a8; a9; a10; a11; a12; a13; a14; a15].
Proof.
  intros H. do 16 (destruct l as [|? l]; [discriminate|]). destruct l; [|discriminate].
  do 16 eexists. reflexivity.
Qed.

Ltac inv_forall :=
  repeat match goal with
         | H : Forall _ (_ :: _) |- _ => apply Forall_cons_iff in H; destruct H as [? H]
         | H : Forall _ [] |- _ => clear H
         end.

(* ---------------------------------------------------------------- xorl *)
Lemma bitwise_xor_is_xorl a b : bitwise_xor a b = xorl a b.
Proof. reflexivity. Qed.

Lemma xorl_comm : forall a b, xorl a b = xorl b a.
Proof.
  unfold xorl. induction a as [|x a IH]; intros [|y b]; try reflexivity.
  cbn. rewrite N.lxor_comm. f_equal. apply IH.
Qed.

Lemma xorl_length : forall a b, length (xorl a b) = Nat.min (length a) (length b).
Proof. intros. unfold xorl. rewrite map_length, combine_length. reflexivity. Qed.

Lemma xorl_bytes : forall a b, bytes a -> bytes b -> bytes (xorl a b).
Proof.
  unfold bytes, xorl. induction a as [|x a IH]; intros [|y b] Ha Hb; cbn; try constructor.
  - apply lxor_byte; [exact (Forall_inv Ha) | exact (Forall_inv Hb)].
  - apply IH; [exact (Forall_inv_tail Ha) | exact (Forall_inv_tail Hb)].
Qed.

Lemma xorl_involutive : forall a k, length a = length k -> xorl (xorl a k) k = a.
Proof.
  unfold xorl. induction a as [|x a IH]; intros [|y k] H; try discriminate; [reflexivity|].
  cbn. rewrite N.lxor_assoc, N.lxor_nilpotent, N.lxor_0_r. f_equal. apply IH. cbn in H. lia.
Qed.

(* ---------------------------------------------------------------- GF(2^8) multiplication: range and linearity (all N) *)
Lemma xtime_byte a : a < 256 -> xtime a < 256.
Proof.
  intros Ha. unfold xtime. cbv zeta. destruct (N.ltb_spec (2 * a) 256) as [H|H]; [exact H|].
  apply lxor_byte; lia.
Qed.

Lemma gmul_steps_byte n : forall a b, a < 256 -> gmul_steps n a b < 256.
Proof.
  induction n as [|n IH]; intros a b Ha; cbn [gmul_steps]; [reflexivity|].
  apply lxor_byte.
  - destruct (N.odd b); [exact Ha | reflexivity].
  - apply IH. apply xtime_byte. exact Ha.
Qed.

Lemma gmul_byte a b : a < 256 -> gmul a b < 256.
Proof. apply gmul_steps_byte. Qed.

Lemma odd_lxor b c : N.odd (N.lxor b c) = xorb (N.odd b) (N.odd c).
Proof. rewrite <- !N.bit0_odd. apply N.lxor_spec. Qed.

Lemma div2_lxor b c : N.div2 (N.lxor b c) = N.lxor (N.div2 b) (N.div2 c).
Proof. rewrite !N.div2_spec. apply N.shiftr_lxor. Qed.

Lemma gmul_steps_lxor_r n : forall a b c,
  gmul_steps n a (N.lxor b c) = N.lxor (gmul_steps n a b) (gmul_steps n a c).
Proof.
  induction n as [|n IH]; intros a b c; cbn [gmul_steps]; [reflexivity|].
  rewrite odd_lxor, div2_lxor, IH.
  destruct (N.odd b), (N.odd c); cbn [xorb]; xor_ac.
Qed.

Lemma gmul_lxor_r a b c : gmul a (N.lxor b c) = N.lxor (gmul a b) (gmul a c).
Proof. apply gmul_steps_lxor_r. Qed.

Lemma gmul_steps_0_r n : forall a, gmul_steps n a 0 = 0.
Proof. induction n as [|n IH]; intros a; cbn [gmul_steps]; [reflexivity|]. cbn [N.odd N.div2]. rewrite IH. reflexivity. Qed.

Lemma gmul_0_r a : gmul a 0 = 0.
Proof. apply gmul_steps_0_r. Qed.

(* ---------------------------------------------------------------- the generated tables *)
(* each sweep is stated with a named predicate so that lifting it to "forall x < 256" needs no conversion *)
Definition sbox_p (x : N) : bool := N.eqb (tbl SBOX x) (sbox_spec x).
Lemma sbox_ok : forallb (fun i => sbox_p (N.of_nat i)) (seq 0 256) = true.
Proof. vm_compute. reflexivity. Qed.

Theorem sbox_is_fips : forall x, x < 256 -> tbl SBOX x = sbox_spec x.
Proof. intros x Hx. apply N.eqb_eq. exact (byte_sweep sbox_p sbox_ok x Hx). Qed.

Definition inv_sbox_p (x : N) : bool := N.eqb (tbl INV_SBOX x) (inv_sbox_spec x).
Lemma inv_sbox_ok : forallb (fun i => inv_sbox_p (N.of_nat i)) (seq 0 256) = true.
Proof. vm_compute. reflexivity. Qed.

Theorem inv_sbox_is_fips : forall x, x < 256 -> tbl INV_SBOX x = inv_sbox_spec x.
Proof. intros x Hx. apply N.eqb_eq. exact (byte_sweep inv_sbox_p inv_sbox_ok x Hx). Qed.

Definition inv_sbox_inverts_p (x : N) : bool :=
  N.eqb (tbl INV_SBOX (tbl SBOX x)) x && N.eqb (tbl SBOX (tbl INV_SBOX x)) x.
Lemma inv_sbox_inverts_ok : forallb (fun i => inv_sbox_inverts_p (N.of_nat i)) (seq 0 256) = true.
Proof. vm_compute. reflexivity. Qed.

Theorem inv_sbox_inverts : forall x, x < 256 -> tbl INV_SBOX (tbl SBOX x) = x /\ tbl SBOX (tbl INV_SBOX x) = x.
Proof.
  intros x Hx. pose proof (byte_sweep inv_sbox_inverts_p inv_sbox_inverts_ok x Hx) as H.
  unfold inv_sbox_inverts_p in H. apply andb_true_iff in H. destruct H as [H1 H2]. split; apply N.eqb_eq; assumption.
Qed.

Definition sbox_range_p (x : N) : bool := (tbl SBOX x <? 256) && (tbl INV_SBOX x <? 256).
Lemma sbox_range_ok : forallb (fun i => sbox_range_p (N.of_nat i)) (seq 0 256) = true.
Proof. vm_compute. reflexivity. Qed.

Lemma sbox_range x : x < 256 -> tbl SBOX x < 256 /\ tbl INV_SBOX x < 256.
Proof.
  intros Hx. pose proof (byte_sweep sbox_range_p sbox_range_ok x Hx) as H.
  unfold sbox_range_p in H. apply andb_true_iff in H. destruct H as [H1 H2]. split; apply N.ltb_lt; assumption.
Qed.

(* the same facts about the spec S-box, through the tables *)
Lemma sbox_spec_byte x : x < 256 -> sbox_spec x < 256.
Proof. intros Hx. rewrite <- sbox_is_fips by exact Hx. apply sbox_range, Hx. Qed.
Lemma inv_sbox_spec_byte x : x < 256 -> inv_sbox_spec x < 256.
Proof. intros Hx. rewrite <- inv_sbox_is_fips by exact Hx. apply sbox_range, Hx. Qed.
Lemma inv_sbox_spec_sbox_spec x : x < 256 -> inv_sbox_spec (sbox_spec x) = x.
Proof.
  intros Hx. rewrite <- (sbox_is_fips x Hx). rewrite <- inv_sbox_is_fips by (apply sbox_range, Hx).
  apply inv_sbox_inverts, Hx.
Qed.
Lemma sbox_spec_inv_sbox_spec x : x < 256 -> sbox_spec (inv_sbox_spec x) = x.
Proof.
  intros Hx. rewrite <- (inv_sbox_is_fips x Hx). rewrite <- sbox_is_fips by (apply sbox_range, Hx).
  apply inv_sbox_inverts, Hx.
Qed.

(* the XTIME_k tables are multiplication by {k} in GF(2^8); coefficient 1 is the byte itself *)
Definition xtime_p (k x : N) : bool := N.eqb (xt k x) (gmul k x).
Lemma xtime_ok : forallb (fun k => forallb (fun i => xtime_p k (N.of_nat i)) (seq 0 256)) [1; 2; 3; 9; 11; 13; 14] = true.
Proof. vm_compute. reflexivity. Qed.

Theorem xtime_k_is_gmul : forall k, In k [1; 2; 3; 9; 11; 13; 14] -> forall x, x < 256 -> xt k x = gmul k x.
Proof.
  intros k Hk x Hx. pose proof xtime_ok as H. rewrite forallb_forall in H. specialize (H k Hk).
  apply N.eqb_eq. exact (byte_sweep (xtime_p k) H x Hx).
Qed.

Theorem xtime_tables_are_gmul : forall x, x < 256 ->
  tbl XTIME_2 x = gmul 2 x /\ tbl XTIME_3 x = gmul 3 x /\ tbl XTIME_9 x = gmul 9 x
  /\ tbl XTIME_11 x = gmul 11 x /\ tbl XTIME_13 x = gmul 13 x /\ tbl XTIME_14 x = gmul 14 x.
Proof.
  intros x Hx.
  repeat split; [apply (xtime_k_is_gmul 2) | apply (xtime_k_is_gmul 3) | apply (xtime_k_is_gmul 9)
                 | apply (xtime_k_is_gmul 11) | apply (xtime_k_is_gmul 13) | apply (xtime_k_is_gmul 14)];
    cbn; auto 10.
Qed.

(* SHIFT_ROWS[r + 4c] = r + 4((c + r) mod 4)   (FIPS-197 5.1.2), and the inverse table *)
Theorem shift_rows_table_is_fips :
  SHIFT_ROWS = map (fun i => N.of_nat ((i mod 4) + 4 * ((i / 4 + i mod 4) mod 4))) (seq 0 16)
  /\ INV_SHIFT_ROWS = map (fun i => N.of_nat ((i mod 4) + 4 * ((i / 4 + 4 - i mod 4) mod 4))) (seq 0 16).
Proof. vm_compute. split; reflexivity. Qed.

(* RCON[i-1] = Rcon[i] = [x^(i-1); 0; 0; 0], i = 1 .. 10 *)
Definition rcon_ok_b : bool := forallb (fun i => nlist_eqb (nth (i - 1) RCON []) (Rcon i)) (seq 1 10).
Lemma rcon_ok : rcon_ok_b = true. Proof. vm_compute. reflexivity. Qed.

Lemma nlist_eqb_eq : forall a b, nlist_eqb a b = true -> a = b.
Proof.
  unfold nlist_eqb. induction a as [|x a IH]; intros [|y b] H; cbn in H; try discriminate; [reflexivity|].
  apply andb_true_iff in H. destruct H as [H1 H2]. apply N.eqb_eq in H1. subst. f_equal. apply IH. exact H2.
Qed.

Theorem rcon_is_fips : forall i, (1 <= i <= 10)%nat -> nth (i - 1) RCON [] = Rcon i.
Proof.
  intros i Hi. pose proof rcon_ok as H. unfold rcon_ok_b in H. rewrite forallb_forall in H.
  apply nlist_eqb_eq. apply H. apply in_seq. lia.
Qed.

(* ---------------------------------------------------------------- primitives = FIPS definitions, on every state *)
Theorem sub_bytes_is_fips : forall s, bytes s -> sub_bytes_m s = SubBytes s.
Proof.
  intros s Hs. unfold sub_bytes_m, SubBytes. apply map_ext_in. intros x Hx.
  apply sbox_is_fips. unfold bytes in Hs. rewrite Forall_forall in Hs. apply Hs. exact Hx.
Qed.

Theorem inv_sub_bytes_is_fips : forall s, bytes s -> inv_sub_bytes_m s = InvSubBytes s.
Proof.
  intros s Hs. unfold inv_sub_bytes_m, InvSubBytes. apply map_ext_in. intros x Hx.
  apply inv_sbox_is_fips. unfold bytes in Hs. rewrite Forall_forall in Hs. apply Hs. exact Hx.
Qed.

Theorem shift_rows_is_fips : forall s, length s = 16%nat -> shift_rows_m s = ShiftRows s.
Proof.
  intros s Hs. destruct (list16_inv s Hs) as (a0&a1&a2&a3&a4&a5&a6&a7&a8&a9&a10&a11&a12&a13&a14&a15&->).
  reflexivity.
Qed.

Theorem inv_shift_rows_is_fips : forall s, length s = 16%nat -> inv_shift_rows_m s = InvShiftRows s.
Proof.
  intros s Hs. destruct (list16_inv s Hs) as (a0&a1&a2&a3&a4&a5&a6&a7&a8&a9&a10&a11&a12&a13&a14&a15&->).
  reflexivity.
Qed.

Theorem add_round_key_is_fips : forall s k, add_round_key_m s k = AddRoundKey s k.
Proof. reflexivity. Qed.

(* one column: the np.roll formulation over the generated tables is the FIPS matrix product *)
Theorem mix_column_is_fips : forall a b c d, a < 256 -> b < 256 -> c < 256 -> d < 256 ->
  mix_column_m [a; b; c; d] = mat_column MIX [a; b; c; d].
Proof.
  intros a b c d Ha Hb Hc Hd.
  cbv -[xt gmul N.lxor].
  rewrite !(xtime_k_is_gmul 1), !(xtime_k_is_gmul 2), !(xtime_k_is_gmul 3) by (assumption || (cbn; auto 10)).
  f_equal; [|f_equal; [|f_equal; [|f_equal]]]; xor_ac.
Qed.

Theorem inv_mix_column_is_fips : forall a b c d, a < 256 -> b < 256 -> c < 256 -> d < 256 ->
  inv_mix_column_m [a; b; c; d] = mat_column INVMIX [a; b; c; d].
Proof.
  intros a b c d Ha Hb Hc Hd.
  cbv -[xt gmul N.lxor].
  rewrite !(xtime_k_is_gmul 9), !(xtime_k_is_gmul 11), !(xtime_k_is_gmul 13), !(xtime_k_is_gmul 14)
    by (assumption || (cbn; auto 10)).
  f_equal; [|f_equal; [|f_equal; [|f_equal]]]; xor_ac.
Qed.

Lemma mat_columns_cols M a0 a1 a2 a3 a4 a5 a6 a7 a8 a9 a10 a11 a12 a13 a14 a15 :
  mat_columns M [a0; a1; a2; a3; a4; a5; a6; a7; a8; a9; a10; a11; a12; a13; a14; a15]
  = mat_column M [a0; a1; a2; a3] ++ mat_column M [a4; a5; a6; a7]
    ++ mat_column M [a8; a9; a10; a11] ++ mat_column M [a12; a13; a14; a15].
Proof. reflexivity. Qed.

Lemma on_columns_cols f a0 a1 a2 a3 a4 a5 a6 a7 a8 a9 a10 a11 a12 a13 a14 a15 :
  on_columns f [a0; a1; a2; a3; a4; a5; a6; a7; a8; a9; a10; a11; a12; a13; a14; a15]
  = f [a0; a1; a2; a3] ++ f [a4; a5; a6; a7] ++ f [a8; a9; a10; a11] ++ (f [a12; a13; a14; a15] ++ []).
Proof. reflexivity. Qed.

Theorem mix_columns_is_fips : forall s, length s = 16%nat -> bytes s -> mix_columns_m s = MixColumns s.
Proof.
  intros s Hl Hs. destruct (list16_inv s Hl) as (a0&a1&a2&a3&a4&a5&a6&a7&a8&a9&a10&a11&a12&a13&a14&a15&->).
  unfold bytes in Hs. inv_forall.
  unfold mix_columns_m, MixColumns. rewrite on_columns_cols, mat_columns_cols, app_nil_r.
  rewrite !mix_column_is_fips by assumption. reflexivity.
Qed.

Theorem inv_mix_columns_is_fips : forall s, length s = 16%nat -> bytes s -> inv_mix_columns_m s = InvMixColumns s.
Proof.
  intros s Hl Hs. destruct (list16_inv s Hl) as (a0&a1&a2&a3&a4&a5&a6&a7&a8&a9&a10&a11&a12&a13&a14&a15&->).
  unfold bytes in Hs. inv_forall.
  unfold inv_mix_columns_m, InvMixColumns. rewrite on_columns_cols, mat_columns_cols, app_nil_r.
  rewrite !inv_mix_column_is_fips by assumption. reflexivity.
Qed.

(* ---------------------------------------------------------------- spec primitives keep well-formed states well-formed *)
Definition wf (s : list N) : Prop := length s = 16%nat /\ bytes s.

Lemma wf_block_wf s : wf_block s <-> wf s.
Proof. reflexivity. Qed.

Lemma SubBytes_wf s : wf s -> wf (SubBytes s).
Proof.
  intros [Hl Hs]. split; [unfold SubBytes; rewrite map_length; exact Hl|].
  unfold bytes, SubBytes. rewrite Forall_map. revert Hs. apply Forall_impl. intros x Hx. apply sbox_spec_byte. exact Hx.
Qed.

Lemma InvSubBytes_wf s : wf s -> wf (InvSubBytes s).
Proof.
  intros [Hl Hs]. split; [unfold InvSubBytes; rewrite map_length; exact Hl|].
  unfold bytes, InvSubBytes. rewrite Forall_map. revert Hs. apply Forall_impl. intros x Hx. apply inv_sbox_spec_byte. exact Hx.
Qed.

Lemma ShiftRows_wf s : wf s -> wf (ShiftRows s).
Proof.
  intros [Hl Hs]. destruct (list16_inv s Hl) as (a0&a1&a2&a3&a4&a5&a6&a7&a8&a9&a10&a11&a12&a13&a14&a15&->).
  unfold bytes in Hs. inv_forall. split; [reflexivity|].
  cbv -[N.lt]. repeat (constructor; [assumption|]). constructor.
Qed.

Lemma InvShiftRows_wf s : wf s -> wf (InvShiftRows s).
Proof.
  intros [Hl Hs]. destruct (list16_inv s Hl) as (a0&a1&a2&a3&a4&a5&a6&a7&a8&a9&a10&a11&a12&a13&a14&a15&->).
  unfold bytes in Hs. inv_forall. split; [reflexivity|].
  cbv -[N.lt]. repeat (constructor; [assumption|]). constructor.
Qed.

Lemma xor_all_gmul_byte (l : list (N * N)) :
  Forall (fun p => fst p < 256) l -> xor_all (map (fun p => gmul (fst p) (snd p)) l) < 256.
Proof.
  induction 1 as [|p l Hp _ IH]; cbn; [reflexivity|]. apply lxor_byte; [apply gmul_byte; exact Hp | exact IH].
Qed.

Lemma mat_columns_wf M s :
  Forall (fun row => Forall (fun x => x < 256) row /\ length row = 4%nat) M -> length M = 4%nat -> wf (mat_columns M s).
Proof.
  intros HM HlM. split; [unfold mat_columns; rewrite map_length, seq_length; reflexivity|].
  unfold bytes, mat_columns. rewrite Forall_map. apply Forall_forall. intros i Hi.
  apply in_seq in Hi.
  assert (Hr : (i mod 4 < 4)%nat) by (apply Nat.mod_upper_bound; lia).
  set (row := nth (i mod 4) M []).
  assert (Hrow : Forall (fun x => x < 256) row /\ length row = 4%nat).
  { rewrite Forall_forall in HM. apply HM. apply nth_In. lia. }
  destruct Hrow as [Hb Hl4].
  rewrite <- (map_map (fun k => (nth k row 0, nth (k + 4 * (i / 4)) s 0)) (fun p => gmul (fst p) (snd p))).
  apply xor_all_gmul_byte. rewrite Forall_map. apply Forall_forall. intros k Hk. apply in_seq in Hk. cbn [fst].
  rewrite Forall_forall in Hb. apply Hb. apply nth_In. lia.
Qed.

Lemma MixColumns_wf s : wf (MixColumns s).
Proof. apply mat_columns_wf; [|reflexivity]. repeat constructor. Qed.

Lemma InvMixColumns_wf s : wf (InvMixColumns s).
Proof. apply mat_columns_wf; [|reflexivity]. repeat constructor. Qed.

Lemma AddRoundKey_wf s k : wf s -> wf k -> wf (AddRoundKey s k).
Proof.
  intros [Hl Hs] [Hlk Hk]. split.
  - unfold AddRoundKey. rewrite xorl_length, Hl, Hlk. reflexivity.
  - apply xorl_bytes; assumption.
Qed.

(* ---------------------------------------------------------------- the inverse primitives invert (spec level) *)
Lemma InvSubBytes_SubBytes s : bytes s -> InvSubBytes (SubBytes s) = s.
Proof.
  intros Hs. unfold InvSubBytes, SubBytes. rewrite map_map. rewrite <- (map_id s) at 2.
  apply map_ext_in. intros x Hx. apply inv_sbox_spec_sbox_spec. unfold bytes in Hs. rewrite Forall_forall in Hs. apply Hs, Hx.
Qed.

Lemma InvShiftRows_ShiftRows s : length s = 16%nat -> InvShiftRows (ShiftRows s) = s.
Proof.
  intros Hl. destruct (list16_inv s Hl) as (a0&a1&a2&a3&a4&a5&a6&a7&a8&a9&a10&a11&a12&a13&a14&a15&->). reflexivity.
Qed.

Lemma AddRoundKey_involutive s k : length s = length k -> AddRoundKey (AddRoundKey s k) k = s.
Proof. apply xorl_involutive. Qed.

(* entry (i, j) of INVMIX . MIX applied to one byte *)
Definition inv_mix_entry (i j : nat) (x : N) : N :=
  xor_all (map (fun k => gmul (nth k (nth i INVMIX []) 0) (gmul (nth j (nth k MIX []) 0) x)) (seq 0 4)).
Definition inv_mix_entry_p (i j : nat) (x : N) : bool := N.eqb (inv_mix_entry i j x) (if Nat.eqb i j then x else 0).
Definition inv_mix_row_p (i : nat) (j : nat) : bool := forallb (fun x => inv_mix_entry_p i j (N.of_nat x)) (seq 0 256).
Definition inv_mix_all_p (i : nat) : bool := forallb (inv_mix_row_p i) (seq 0 4).
Lemma inv_mix_entries_ok : forallb inv_mix_all_p (seq 0 4) = true.
Proof. vm_compute. reflexivity. Qed.

Lemma inv_mix_entry_delta i j x : (i < 4)%nat -> (j < 4)%nat -> x < 256 ->
  inv_mix_entry i j x = if Nat.eqb i j then x else 0.
Proof.
  intros Hi Hj Hx.
  pose proof (nat_sweep 4 inv_mix_all_p inv_mix_entries_ok i Hi) as H1.
  pose proof (nat_sweep 4 (inv_mix_row_p i) H1 j Hj) as H2.
  apply N.eqb_eq. exact (byte_sweep (inv_mix_entry_p i j) H2 x Hx).
Qed.

Ltac solve_entry Ed E1 E2 E3 :=
  match type of Ed with ?ld = ?x =>
  match type of E1 with ?l1 = 0 => match type of E2 with ?l2 = 0 => match type of E3 with ?l3 = 0 =>
    transitivity (N.lxor (N.lxor (N.lxor l1 l2) l3) ld); [xor_ac | rewrite E1, E2, E3, Ed; reflexivity]
  end end end end.

Lemma inv_mix_column_mix_column a b c d : a < 256 -> b < 256 -> c < 256 -> d < 256 ->
  mat_column INVMIX (mat_column MIX [a; b; c; d]) = [a; b; c; d].
Proof.
  intros Ha Hb Hc Hd.
  assert (E : forall i j x, (i < 4)%nat -> (j < 4)%nat -> x < 256 -> inv_mix_entry i j x = if Nat.eqb i j then x else 0)
    by (intros; apply inv_mix_entry_delta; assumption).
  pose proof (E 0%nat 0%nat a) as E00; pose proof (E 0%nat 1%nat b) as E01; pose proof (E 0%nat 2%nat c) as E02; pose proof (E 0%nat 3%nat d) as E03.
  pose proof (E 1%nat 0%nat a) as E10; pose proof (E 1%nat 1%nat b) as E11; pose proof (E 1%nat 2%nat c) as E12; pose proof (E 1%nat 3%nat d) as E13.
  pose proof (E 2%nat 0%nat a) as E20; pose proof (E 2%nat 1%nat b) as E21; pose proof (E 2%nat 2%nat c) as E22; pose proof (E 2%nat 3%nat d) as E23.
  pose proof (E 3%nat 0%nat a) as E30; pose proof (E 3%nat 1%nat b) as E31; pose proof (E 3%nat 2%nat c) as E32; pose proof (E 3%nat 3%nat d) as E33.
  clear E.
  repeat match goal with H : (?i < 4)%nat -> _ |- _ => specialize (H ltac:(lia) ltac:(lia) ltac:(assumption)) end.
  cbv -[gmul N.lxor] in *.
  rewrite !gmul_lxor_r, !gmul_0_r.
  f_equal; [|f_equal; [|f_equal; [|f_equal]]].
  - solve_entry E00 E01 E02 E03.
  - solve_entry E11 E10 E12 E13.
  - solve_entry E22 E20 E21 E23.
  - solve_entry E33 E30 E31 E32.
Qed.

Lemma mat_column_length M v : length (mat_column M v) = 4%nat.
Proof. reflexivity. Qed.

Lemma mat_columns_app M v0 v1 v2 v3 :
  length v0 = 4%nat -> length v1 = 4%nat -> length v2 = 4%nat -> length v3 = 4%nat ->
  mat_columns M (v0 ++ v1 ++ v2 ++ v3) = mat_column M v0 ++ mat_column M v1 ++ mat_column M v2 ++ mat_column M v3.
Proof.
  intros H0 H1 H2 H3.
  destruct (list4_inv v0 H0) as (?&?&?&?&->). destruct (list4_inv v1 H1) as (?&?&?&?&->).
  destruct (list4_inv v2 H2) as (?&?&?&?&->). destruct (list4_inv v3 H3) as (?&?&?&?&->).
  reflexivity.
Qed.

Lemma InvMixColumns_MixColumns s : wf s -> InvMixColumns (MixColumns s) = s.
Proof.
  intros [Hl Hs]. destruct (list16_inv s Hl) as (a0&a1&a2&a3&a4&a5&a6&a7&a8&a9&a10&a11&a12&a13&a14&a15&->).
  unfold bytes in Hs. inv_forall.
  unfold MixColumns, InvMixColumns. rewrite mat_columns_cols.
  rewrite mat_columns_app by apply mat_column_length.
  rewrite !inv_mix_column_mix_column by assumption. reflexivity.
Qed.

(* ---------------------------------------------------------------- model-level inverses (through the tables) *)
Theorem inv_shift_rows_inverts : forall s, length s = 16%nat -> inv_shift_rows_m (shift_rows_m s) = s /\ shift_rows_m (inv_shift_rows_m s) = s.
Proof.
  intros s Hs. destruct (list16_inv s Hs) as (a0&a1&a2&a3&a4&a5&a6&a7&a8&a9&a10&a11&a12&a13&a14&a15&->).
  split; reflexivity.
Qed.

Lemma mat_column_bytes M v :
  Forall (fun row => Forall (fun x => x < 256) row /\ length row = 4%nat) M -> length M = 4%nat -> bytes (mat_column M v).
Proof.
  intros HM HlM. unfold bytes, mat_column. rewrite Forall_map. apply Forall_forall. intros r Hr. apply in_seq in Hr.
  set (row := nth r M []).
  assert (Hrow : Forall (fun x => x < 256) row /\ length row = 4%nat).
  { rewrite Forall_forall in HM. apply HM. apply nth_In. lia. }
  destruct Hrow as [Hb Hl4].
  rewrite <- (map_map (fun k => (nth k row 0, nth k v 0)) (fun p => gmul (fst p) (snd p))).
  apply xor_all_gmul_byte. rewrite Forall_map. apply Forall_forall. intros k Hk. apply in_seq in Hk. cbn [fst].
  rewrite Forall_forall in Hb. apply Hb. apply nth_In. lia.
Qed.

Theorem inv_mix_column_inverts : forall v, length v = 4%nat -> bytes v -> inv_mix_column_m (mix_column_m v) = v.
Proof.
  intros v Hl Hb. destruct (list4_inv v Hl) as (a&b&c&d&->). unfold bytes in Hb. inv_forall.
  rewrite mix_column_is_fips by assumption.
  assert (HB : bytes (mat_column MIX [a; b; c; d])) by (apply mat_column_bytes; [repeat constructor | reflexivity]).
  change (mat_column MIX [a; b; c; d]) with
    [nth 0 (mat_column MIX [a; b; c; d]) 0; nth 1 (mat_column MIX [a; b; c; d]) 0;
     nth 2 (mat_column MIX [a; b; c; d]) 0; nth 3 (mat_column MIX [a; b; c; d]) 0] in HB |- *.
  unfold bytes in HB. inv_forall.
  rewrite inv_mix_column_is_fips by assumption.
  change [nth 0 (mat_column MIX [a; b; c; d]) 0; nth 1 (mat_column MIX [a; b; c; d]) 0;
          nth 2 (mat_column MIX [a; b; c; d]) 0; nth 3 (mat_column MIX [a; b; c; d]) 0]
    with (mat_column MIX [a; b; c; d]).
  apply inv_mix_column_mix_column; assumption.
Qed.

Theorem inv_mix_columns_inverts : forall s, length s = 16%nat -> bytes s -> inv_mix_columns_m (mix_columns_m s) = s.
Proof.
  intros s Hl Hb. rewrite mix_columns_is_fips by assumption.
  destruct (MixColumns_wf s) as [Hl' Hb']. rewrite inv_mix_columns_is_fips by assumption.
  apply InvMixColumns_MixColumns. split; assumption.
Qed.

Lemma is_bytes_sound l : is_bytes l = true -> Forall (fun x => x < 256) l.
Proof.
  unfold is_bytes. rewrite forallb_forall. intros H. apply Forall_forall. intros x Hx. apply N.ltb_lt, H, Hx.
Qed.
